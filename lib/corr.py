"""Shared machinery of the /verif checks (see DESIGN.md section 3).

A check = (1) re-check the Coq theorems of the property (full coqc of
Properties/Cxx.v, Print Assumptions captured), (2) rebuild the Go harness
against /repo's working tree with -tags verif and run it, (3) evaluate the Coq
model on the very same cases inside Coq (vm_compute, sharded over the cores)
and collect disagreements, (4) match them against known_findings.json, write
replays and evidence, print VIOLATION / KNOWN-FINDING lines.
"""
import concurrent.futures as cf
import fcntl
import hashlib
import json
import os
import re
import subprocess
import sys
import time

ROOT = os.path.dirname(os.path.dirname(os.path.abspath(__file__)))
COQ = os.path.join(ROOT, "coq")
WORK = os.path.join(ROOT, ".work")
REPO = "/repo"
GOENV = dict(os.environ, GOFLAGS="-mod=mod", GOPROXY="off", GOSUMDB="off",
             GOTOOLCHAIN="local", CGO_ENABLED=os.environ.get("CGO_ENABLED", "0"))
KERNEL_TB = [
    "Coq 8.16.1 kernel (coqc full .vo compilation; vm_compute used; no native_compute)",
    "correspondence harness: Go generators/printers in /verif/go, lib/corr.py diff, the projection from Go values to model inputs",
    "Go toolchain, strconv/math (float parsing, trig) and IEEE-754 binary32 on amd64 without FMA fusion",
]


def sh(cmd, cwd=None, env=None, timeout=None, check=False):
    p = subprocess.run(cmd, cwd=cwd, env=env, timeout=timeout, shell=isinstance(cmd, str),
                       stdout=subprocess.PIPE, stderr=subprocess.STDOUT, text=True, errors="replace")
    if check and p.returncode != 0:
        raise RuntimeError("command failed: %s\n%s" % (cmd, p.stdout[-4000:]))
    return p.returncode, p.stdout


def repo_state():
    """go.mod / go.sum of /repo must never be touched by a check (go -mod=mod inside /repo would)."""
    rc, out = sh(["git", "-C", REPO, "status", "--porcelain", "--", "go.mod", "go.sum"])
    return out


# ------------------------------------------------------------------ Coq build

def coq_files():
    out = []
    for d, _, fs in os.walk(os.path.join(COQ, "theories")):
        for f in fs:
            if f.endswith(".v"):
                out.append(os.path.relpath(os.path.join(d, f), COQ))
    return sorted(out)


def coq_prepare():
    """(re)generate _CoqProject and Makefile when the file list changed."""
    files = coq_files()
    proj = "-Q theories Verif\n-arg -w -arg -notation-overridden,-deprecated-hint-without-locality,-deprecated-instance-without-locality\n" + "\n".join(files) + "\n"
    pj = os.path.join(COQ, "_CoqProject")
    old = open(pj).read() if os.path.exists(pj) else ""
    if old != proj or not os.path.exists(os.path.join(COQ, "Makefile")):
        open(pj, "w").write(proj)
        sh(["coq_makefile", "-f", "_CoqProject", "-o", "Makefile"], cwd=COQ, check=True)


class Lock:
    def __init__(self, name):
        os.makedirs(WORK, exist_ok=True)
        self.path = os.path.join(WORK, name + ".lock")

    def __enter__(self):
        self.f = open(self.path, "w")
        fcntl.flock(self.f, fcntl.LOCK_EX)
        return self

    def __exit__(self, *a):
        fcntl.flock(self.f, fcntl.LOCK_UN)
        self.f.close()


def coq_make(targets, timeout=3000, jobs=16):
    """full .vo build of the given targets (relative to coq/), serialised by a lock."""
    with Lock("coqmake"):
        coq_prepare()
        rc, out = sh(["make", "-j%d" % jobs] + targets, cwd=COQ, timeout=timeout)
    return rc, out


def coq_properties(pid, timeout=1200):
    """Compile Properties/<pid>.v afresh (never trust a stale .vo), capture Print Assumptions.
    Returns dict(ok, theorems, axioms, log)."""
    src = os.path.join(COQ, "theories", "Properties", pid + ".v")
    text = open(src).read()
    theorems = re.findall(r"^(?:Theorem|Corollary)\s+([A-Za-z0-9_']+)", text, re.M)
    os.makedirs(os.path.join(WORK, pid, "props"), exist_ok=True)
    outvo = os.path.join(WORK, pid, "props", "%s.vo" % pid)
    t0 = time.time()
    rc, out = sh(["coqc", "-Q", "theories", "Verif", "-w", "-notation-overridden", "-o", outvo, src], cwd=COQ, timeout=timeout)
    open(os.path.join(WORK, pid, "assumptions.txt"), "w").write(out)
    axioms = sorted(set(re.findall(r"^([A-Za-z0-9_.']+)\s*\n?\s*:", out, re.M)) - {"Axioms"})
    closed = out.count("Closed under the global context")
    return {"ok": rc == 0, "theorems": theorems, "axioms": axioms, "closed": closed, "log": out,
            "wall_s": round(time.time() - t0, 1)}


# ------------------------------------------------------------------ audit

FORBIDDEN = re.compile(r"\b(Admitted|admit|Axiom|Axioms|Parameter|Parameters|Conjecture|Abort|give_up)\b|Unset\s+Guard|bypass_check|type-in-type|impredicative-set|Unset\s+Positivity|Unset\s+Universe\s+Checking")


def strip_comments(text):
    out, depth, i, n = [], 0, 0, len(text)
    while i < n:
        if text.startswith("(*", i):
            depth += 1
            i += 2
        elif text.startswith("*)", i) and depth > 0:
            depth -= 1
            i += 2
        else:
            if depth == 0:
                out.append(text[i])
            elif text[i] == "\n":
                out.append("\n")
            i += 1
    return "".join(out)


def coq_closure(roots):
    """transitive closure of `From Verif Require ...` imports, as paths relative to coq/"""
    seen, todo = [], list(roots)
    while todo:
        f = todo.pop()
        if f in seen or not os.path.exists(os.path.join(COQ, f)):
            continue
        seen.append(f)
        text = strip_comments(open(os.path.join(COQ, f)).read())
        for m in re.finditer(r"From\s+Verif\s+Require\s+(?:Import\s+|Export\s+)?(.*?)\.(?:\s|$)", text, re.S):
            for name in m.group(1).split():
                todo.append("theories/" + name.replace(".", "/") + ".v")
        for m in re.finditer(r"(?<!Verif )Require\s+(?:Import\s+|Export\s+)?(.*?)\.(?:\s|$)", text, re.S):
            for name in [x for x in m.group(1).split() if x.startswith("Verif.")]:
                todo.append("theories/" + name[len("Verif."):].replace(".", "/") + ".v")
    return sorted(seen)


def audit(pid):
    """forbidden constructs in the dependency closure of the property's Coq files"""
    files = coq_closure(["theories/Properties/%s.v" % pid, "theories/Check/%s.v" % pid])
    hits = []
    for f in files:
        text = strip_comments(open(os.path.join(COQ, f)).read())
        for ln, line in enumerate(text.split("\n"), 1):
            m = FORBIDDEN.search(line)
            if m:
                hits.append("%s:%d: %s" % (f, ln, line.strip()[:120]))
    return files, hits


def coqchk(pid, timeout=5400):
    """independent re-check of Properties/<pid>.vo and everything it depends on (thorough tier)"""
    t0 = time.time()
    rc, out = sh(["coqchk", "-silent", "-o", "-Q", "theories", "Verif", "Verif.Properties." + pid], cwd=COQ, timeout=timeout)
    axioms = []
    m = re.search(r"\* Axioms:(.*?)\n\s*\n\* ", out, re.S)
    if m:
        axioms = [x.strip() for x in m.group(1).strip().split("\n") if x.strip() and x.strip() != "<none>"]
    return {"ok": rc == 0, "axioms": axioms, "wall_s": round(time.time() - t0, 1), "tail": out[-1500:]}


# ------------------------------------------------------------------ Go harness

def go_build(pkg, out, race=False, timeout=1200):
    gd = os.path.join(ROOT, "go")
    sh(["cp", os.path.join(REPO, "go.sum"), os.path.join(gd, "go.sum")])
    cmd = ["go", "build", "-tags", "verif"]
    env = dict(GOENV)
    if race:
        cmd.append("-race")
        env["CGO_ENABLED"] = "1"
    cmd += ["-o", out, pkg]
    rc, log = sh(cmd, cwd=gd, env=env, timeout=timeout)
    if rc != 0 and "could not import" in log and "no such file" in log:
        # transient Go build-cache race when several builds run concurrently: retry once
        time.sleep(2)
        rc, log = sh(cmd, cwd=gd, env=env, timeout=timeout)
    return rc, log


# ------------------------------------------------------------------ model evaluation

def _run_shard(args):
    pid, module, k, terms, extra_imports = args
    d = os.path.join(WORK, pid)
    name = "Shard_%s_%d" % (pid, k)
    path = os.path.join(d, name + ".v")
    with open(path, "w") as f:
        f.write("From Verif Require Import %s.\n" % module)
        for imp in extra_imports:
            f.write(imp + "\n")
        f.write("From Coq Require Import QArith ZArith NArith List String.\nImport ListNotations.\n")
        f.write("Open Scope Q_scope.\nOpen Scope Z_scope.\nOpen Scope N_scope.\nOpen Scope list_scope.\n")
        f.write("Definition cases : list case := [\n")
        f.write(";\n".join("(" + t + ")" for t in terms))
        f.write("\n].\n")
        f.write("Definition M := Eval vm_compute in mismatches 0%N cases.\nPrint M.\n")
    rc, out = sh(["coqc", "-Q", "theories", "Verif", "-w", "none", "-o", os.path.join(d, name + ".vo"), path],
                 cwd=COQ, timeout=3000)
    return k, rc, out


def eval_cases(pid, module, cases, shard=250, jobs=16, scopes=None, extra_imports=()):
    """returns (mismatches: list of (case_index, code), errors: list of str)"""
    shards = [cases[i:i + shard] for i in range(0, len(cases), shard)]
    jobs_l = [(pid, module, k, [c["coq"] for c in sh_], list(extra_imports)) for k, sh_ in enumerate(shards)]
    mism, errors = [], []
    with cf.ThreadPoolExecutor(max_workers=jobs) as ex:
        for k, rc, out in ex.map(_run_shard, jobs_l):
            if rc != 0:
                errors.append("shard %d: coqc failed: %s" % (k, out[-1500:]))
                continue
            flat = re.sub(r"\s+", " ", out)
            m = re.search(r"M = (.*?) : list", flat)
            if not m:
                errors.append("shard %d: cannot parse: %s" % (k, flat[-500:]))
                continue
            for a, b in re.findall(r"\(\s*(\d+)(?:%N)?\s*,\s*(\d+)(?:%N)?\s*\)", m.group(1)):
                mism.append((k * shard + int(a), int(b)))
            if m.group(1).count("(") != len(re.findall(r"\(\s*(\d+)(?:%N)?\s*,\s*(\d+)(?:%N)?\s*\)", m.group(1))):
                errors.append("shard %d: could not parse every mismatch entry: %s" % (k, m.group(1)[:300]))
    return mism, errors


def eval_terms(pid, module, terms, extra_imports=(), tag="explain"):
    """Evaluate arbitrary closed Coq terms (strings) and return their printed values."""
    d = os.path.join(WORK, pid)
    path = os.path.join(d, "%s_%s.v" % (tag, pid))
    with open(path, "w") as f:
        f.write("From Verif Require Import %s.\n" % module)
        for imp in extra_imports:
            f.write(imp + "\n")
        f.write("From Coq Require Import QArith ZArith NArith List String.\nImport ListNotations.\n")
        f.write("Open Scope Q_scope.\nOpen Scope Z_scope.\nOpen Scope N_scope.\nOpen Scope list_scope.\n")
        for i, t in enumerate(terms):
            f.write("Definition X%d := Eval vm_compute in (%s).\nPrint X%d.\n" % (i, t, i))
    rc, out = sh(["coqc", "-Q", "theories", "Verif", "-w", "none", "-o", path[:-2] + ".vo", path], cwd=COQ, timeout=600)
    flat = re.sub(r"\s+", " ", out)
    vals = re.findall(r"X\d+ = (.*?) : ", flat)
    return vals if rc == 0 else [out[-800:]]


# ------------------------------------------------------------------ findings

def load_findings(pid):
    p = os.path.join(ROOT, "known_findings.json")
    if not os.path.exists(p):
        return []
    return [f for f in json.load(open(p))["findings"] if f["property"] == pid and f.get("kind") == "finding"]


def finding_matches(f, case, code):
    m = f.get("match", {})
    if "kind" in m and case.get("kind") != m["kind"]:
        return False
    if "code" in m and code != m["code"]:
        return False
    tags = set(case.get("tags") or [])
    if not set(m.get("tags_all", [])) <= tags:
        return False
    if m.get("tags_none") and set(m["tags_none"]) & tags:
        return False
    if "desc_regex" in m and not re.search(m["desc_regex"], json.dumps(case.get("desc"), sort_keys=True)):
        return False
    return True


# ------------------------------------------------------------------ reporting

class Report:
    def __init__(self, pid, tier, seed):
        self.pid, self.tier, self.seed = pid, tier, seed
        self.t0 = time.time()
        self.violations = []      # (replay_path, suffix)
        self.known = {}           # finding id -> (description, count)
        self.lines = []

    def violation(self, replay_obj, name=None, no_input=False):
        os.makedirs(os.path.join(ROOT, "replays"), exist_ok=True)
        blob = json.dumps(replay_obj, sort_keys=True, indent=1, default=str)
        h = hashlib.sha1(blob.encode()).hexdigest()[:10]
        path = os.path.join(ROOT, "replays", "%s-%s.json" % (self.pid, name or h))
        open(path, "w").write(blob)
        self.violations.append(path)
        print("VIOLATION property=%s replay=%s%s" % (self.pid, path, " no-failing-input-found" if no_input else ""), flush=True)

    def known_finding(self, f):
        fid = f["id"]
        if fid not in self.known:
            self.known[fid] = [f["description"], 0]
        self.known[fid][1] += 1

    def finish(self, level, coverage, assumptions):
        for fid, (desc, cnt) in sorted(self.known.items()):
            print("KNOWN-FINDING: property=%s %s [%s, %d case(s)]" % (self.pid, desc, fid, cnt), flush=True)
        ev = {"property_id": self.pid, "tier": self.tier, "seed": self.seed, "level": level,
              "coverage": coverage, "assumptions": assumptions,
              "wall_s": round(time.time() - self.t0, 1), "violations": len(self.violations)}
        os.makedirs(os.path.join(ROOT, "evidence"), exist_ok=True)
        with open(os.path.join(ROOT, "evidence", self.pid + ".json"), "w") as f:
            json.dump(ev, f, indent=1, sort_keys=True, default=str)
            f.write("\n")
        print("%s %s: %s in %.1fs (%d violation(s), %d known finding(s))" % (
            self.pid, self.tier, "FAIL" if self.violations else "ok", time.time() - self.t0,
            len(self.violations), len(self.known)), flush=True)
        return 1 if self.violations else 0


def read_cases(path):
    out = []
    with open(path) as f:
        for line in f:
            line = line.strip()
            if line:
                out.append(json.loads(line))
    return out


def distribution(cases):
    kinds, tags = {}, {}
    for c in cases:
        kinds[c.get("kind", "?")] = kinds.get(c.get("kind", "?"), 0) + 1
        for t in c.get("tags") or []:
            tags[t] = tags.get(t, 0) + 1
    distinct = len({c.get("key") or c["coq"] for c in cases if c.get("nontrivial")})
    return kinds, tags, distinct


# ------------------------------------------------------------------ the generic check

def run_check(spec, tier, replay=None):
    """spec keys: id, module (Coq Check module), harness (go package dir under cmd/),
    n (dict tier->count), harness_args (optional fn(tier)->list), trusted_base (list),
    not_modelled (list), model_out (Coq function name printing the model observable),
    impl_out (same for impl), shard (cases per coqc), pre (optional fn(report) -> list of extra obligations)"""
    pid = spec["id"]
    seed = int(os.environ.get("VERIF_SEED", "1"))
    rep = Report(pid, tier, seed)
    os.makedirs(os.path.join(WORK, pid), exist_ok=True)
    before = repo_state()
    coverage = {"trusted_base": KERNEL_TB + spec.get("trusted_base", []),
                "checker_cmd": "make -C /verif/coq theories/Properties/%s.vo theories/Check/%s.vo && coqc theories/Properties/%s.v (Print Assumptions) && coqc <shards> (vm_compute correspondence)" % (pid, pid, pid),
                "not_modelled": spec.get("not_modelled", [])}
    assumptions = list(spec.get("assumptions", []))

    # optional pre-steps (translator etc.)
    pre_info = {}
    if spec.get("pre"):
        pre_info = spec["pre"](rep) or {}
        coverage.update(pre_info.get("coverage", {}))

    # 1. proofs
    targets = ["theories/Properties/%s.vo" % pid, "theories/Check/%s.vo" % pid]
    rc, out = coq_make(targets)
    proofs_ok = rc == 0
    props = {"ok": False, "theorems": [], "axioms": [], "closed": 0, "log": out}
    if proofs_ok:
        props = coq_properties(pid)
        proofs_ok = props["ok"]
    coverage["obligations"] = max(1, len(props["theorems"]))
    coverage["discharged"] = len(props["theorems"]) if proofs_ok else 0
    coverage["theorems"] = props["theorems"]
    coverage["axioms_print_assumptions"] = props["axioms"]
    coverage["theorems_closed_under_global_context"] = props["closed"]
    if props["axioms"]:
        assumptions.append("axioms reported by Print Assumptions: " + ", ".join(props["axioms"]))
    files, hits = audit(pid)
    coverage["coq_files_in_closure"] = files
    coverage["audit_forbidden_constructs"] = hits
    if hits:
        proofs_ok = False
        coverage["discharged"] = 0
        props["log"] = "forbidden constructs (Admitted/Axiom/...):\n" + "\n".join(hits)
    if tier == "thorough" and proofs_ok and not spec.get("skip_coqchk"):
        chk = coqchk(pid)
        coverage["coqchk"] = {"ok": chk["ok"], "axioms": chk["axioms"], "wall_s": chk["wall_s"]}
        if not chk["ok"]:
            proofs_ok = False
            coverage["discharged"] = 0
            props["log"] = "coqchk failed:\n" + chk["tail"]
    proof_break = None
    if not proofs_ok:
        proof_break = {"broken": "Coq build / theorems of Properties/%s.v no longer check" % pid,
                       "log_tail": (props["log"] or out)[-3000:]}

    # 2. harness
    binp = os.path.join(WORK, "bin", pid.lower())
    os.makedirs(os.path.dirname(binp), exist_ok=True)
    rc, out = go_build("./cmd/" + spec["harness"], binp)
    if rc != 0:
        rep.violation({"property": pid, "broken_tie": "Go harness no longer builds against /repo's working tree",
                       "log_tail": out[-3000:]}, name="harness-build", no_input=True)
        return rep.finish("proof", dict(coverage, evaluations=0), assumptions)
    cases_path = os.path.join(WORK, pid, "cases.jsonl")
    if replay:
        # replay: the file holds the case(s); re-evaluate model only (the impl side is re-run by the harness when it supports -replay)
        obj = json.load(open(replay))
        cases = [obj["case"]] if "case" in obj else []
    else:
        n = spec["n"][tier]
        args = [binp, "-out", cases_path, "-n", str(n)] + (spec.get("harness_args", lambda t: [])(tier))
        env = dict(os.environ, VERIF_SEED=str(seed), VERIF_TIER=tier)
        t1 = time.time()
        rc, out = sh(args, env=env, timeout=spec.get("harness_timeout", 3000), cwd=os.path.join(ROOT, "go"))
        coverage["harness_wall_s"] = round(time.time() - t1, 1)
        if rc != 0:
            rep.violation({"property": pid, "broken_tie": "Go harness crashed or timed out (exit %d)" % rc,
                           "log_tail": out[-3000:]}, name="harness-run", no_input=True)
            return rep.finish("proof", dict(coverage, evaluations=0), assumptions)
        cases = read_cases(cases_path)

    # 3. model evaluation
    t1 = time.time()
    mism, errors = eval_cases(pid, "Check." + pid, cases, shard=spec.get("shard", 250),
                              extra_imports=spec.get("extra_imports", ()))
    coverage["model_eval_wall_s"] = round(time.time() - t1, 1)
    if errors:
        rep.violation({"property": pid, "broken_tie": "model evaluation failed", "errors": errors[:5]},
                      name="model-eval", no_input=True)

    # 4. classify
    skipped = [i for i, code in mism if code in spec.get("skip_codes", (2,))]
    real = [(i, code) for i, code in mism if code not in spec.get("skip_codes", (2,))]
    findings = load_findings(pid)
    unknown = []
    for i, code in real:
        c = cases[i]
        f = next((f for f in findings if finding_matches(f, c, code)), None)
        if f:
            rep.known_finding(f)
        else:
            unknown.append((i, code))
    # disagreements where only the correspondence is broken (implementation still within the
    # specification's tolerance): reported without a failing input
    tie_codes = spec.get("tie_codes", ())
    tie_only = [(i, code) for i, code in unknown if code in tie_codes]
    unknown = [(i, code) for i, code in unknown if code not in tie_codes]
    if tie_only and not unknown:
        rep.violation({"property": pid,
                       "broken_tie": "correspondence Check/%s.v: implementation no longer agrees with the model on %d case(s), "
                                     "but no input was found on which the property itself fails (outputs still within the specification's tolerance)" % (pid, len(tie_only)),
                       "examples": [cases[i] for i, _ in tie_only[:3]], "seed": seed},
                      name="tie-broken", no_input=True)
    # explain at most 8 unknown disagreements
    if unknown:
        terms = []
        for i, code in unknown[:8]:
            terms.append("%s (%s)" % (spec.get("model_out", "model_out"), cases[i]["coq"]))
        vals = eval_terms(pid, "Check." + pid, terms, extra_imports=spec.get("extra_imports", ()))
        for j, (i, code) in enumerate(unknown[:8]):
            c = cases[i]
            rep.violation({"property": pid, "case": c, "code": code,
                           "code_meaning": spec.get("codes", {}).get(str(code), "implementation and model disagree"),
                           "model_observable": vals[j] if j < len(vals) else None,
                           "contradicts": spec.get("theorems_for_kind", {}).get(c.get("kind"), "model = spec theorems of Properties/%s.v" % pid),
                           "seed": seed,
                           "how_to_replay": "python3 /verif/verif.py check %s --replay <this file>" % pid})
        if len(unknown) > 8:
            print("(%d further disagreements not written out)" % (len(unknown) - 8))
    if proof_break and not unknown:
        rep.violation(dict(proof_break, property=pid), name="proof-broken", no_input=True)

    kinds, tags, distinct = distribution(cases)
    coverage.update({
        "evaluations": len(cases), "distinct_nontrivial": distinct,
        "rule": spec.get("rule", "cases generated by the Go harness from one SplitMix64 seed; non-trivial as flagged by the generator; distinct by Coq term"),
        "disagreements_checked": len(cases), "disagreements": len(real), "disagreements_known": len(real) - len(unknown),
        "skipped_out_of_range": len(skipped),
        "input_distribution": {"kinds": kinds, "tags": tags},
        "samples": [{"kind": c.get("kind"), "desc": c.get("desc")} for c in cases[:3]] + ([{"coq": cases[0]["coq"][:600]}] if cases else []),
    })
    after = repo_state()
    if after != before:
        rep.violation({"property": pid, "broken": "/repo working tree changed during the check", "before": before, "after": after},
                      name="repo-dirty", no_input=True)
    return rep.finish("proof", coverage, assumptions)
