package main

import (
	"fmt"
	"strings"

	"verifharness/vlib"
)

// Generators of declaration blocks (CSS text).  Everything derives from the
// per-case Rng, so a case replays from the seed.

type G struct{ r *vlib.Rng }

func (g *G) pick(l ...string) string { return l[g.r.Intn(len(l))] }

// ASCII case noise on a word (names, keywords, units, function names)
func (g *G) cs(s string) string {
	switch g.r.Intn(10) {
	case 0:
		return strings.ToUpper(s)
	case 1:
		b := []byte(s)
		for i := range b {
			if g.r.Bool() && b[i] >= 'a' && b[i] <= 'z' {
				b[i] -= 32
			}
		}
		return string(b)
	default:
		return s
	}
}

// separator between component values
func (g *G) sep() string {
	switch g.r.Intn(12) {
	case 0:
		return "  "
	case 1:
		return " /* c */ "
	case 2:
		return "/**/"
	case 3:
		return "\n\t"
	case 4:
		return " /*a*//*b*/ "
	default:
		return " "
	}
}

func (g *G) num() string {
	switch g.r.Intn(8) {
	case 0:
		return "0"
	case 1:
		return fmt.Sprintf("%d.%d", g.r.Range(0, 30), g.r.Range(0, 9)*25%100)
	case 2:
		return fmt.Sprintf("-%d", g.r.Range(1, 20))
	case 3:
		return fmt.Sprintf("+%d", g.r.Range(1, 20))
	case 4:
		return fmt.Sprintf("%de%d", g.r.Range(1, 5), g.r.Range(0, 2))
	case 5:
		return fmt.Sprintf(".%d", g.r.Range(1, 9)*125%1000)
	default:
		return fmt.Sprintf("%d", g.r.Range(1, 40))
	}
}

var lenUnits = []string{"px", "px", "px", "em", "ex", "ch", "rem", "pt", "pc", "in", "cm", "mm", "q"}

func (g *G) length() string {
	if g.r.Chance(1, 10) {
		return "0"
	}
	return g.num() + g.cs(vlib.Pick(g.r, lenUnits))
}

func (g *G) pxLength() string {
	if g.r.Chance(1, 8) {
		return "0"
	}
	return fmt.Sprintf("%d", g.r.Range(1, 60)) + g.cs("px")
}

func (g *G) perc() string { return g.num() + "%" }

var namedColors = []string{"red", "blue", "transparent", "currentcolor", "teal", "rebeccapurple", "black", "lime"}

func (g *G) color() string {
	switch g.r.Intn(9) {
	case 0:
		return g.pick("#fff", "#A1b2C3", "#ffff", "#12345678", "#0f0")
	case 1:
		return fmt.Sprintf("rgb(%d, %d, %d)", g.r.Range(0, 255), g.r.Range(0, 255), g.r.Range(0, 255))
	case 2:
		return g.cs("rgba") + fmt.Sprintf("(%d,%d,%d,0.5)", g.r.Range(0, 255), g.r.Range(0, 255), g.r.Range(0, 255))
	case 3:
		return g.pick("hsl(120, 100%, 50%)", "rgb(10% 20% 30%)", "hsla(30, 50%, 50%, .25)")
	default:
		return g.cs(vlib.Pick(g.r, namedColors))
	}
}

func (g *G) badColor() string { return g.pick("notacolor", "#ggg", "#12", "rgb(1,2)", "12px", "rgb()", "\"red\"") }

var borderStyles = []string{"none", "hidden", "dotted", "dashed", "double", "inset", "outset", "groove", "ridge", "solid"}

func (g *G) borderStyle() string { return g.cs(vlib.Pick(g.r, borderStyles)) }
func (g *G) borderWidth() string {
	if g.r.Chance(1, 3) {
		return g.cs(g.pick("thin", "medium", "thick"))
	}
	return strings.TrimPrefix(g.length(), "-")
}

func (g *G) defaultKw() string { return g.cs(g.pick("inherit", "initial")) }

var sides = []string{"top", "right", "bottom", "left"}

// a value of the right type for a modelled longhand family
func (g *G) valueFor(family string, computed bool) string {
	switch family {
	case "margin":
		switch g.r.Intn(6) {
		case 0:
			return g.cs("auto")
		case 1:
			return g.perc()
		default:
			if computed {
				return g.pxLength()
			}
			return g.length()
		}
	case "padding":
		if g.r.Chance(1, 5) {
			return strings.TrimPrefix(g.perc(), "-")
		}
		if computed {
			return g.pxLength()
		}
		return strings.TrimPrefix(g.length(), "-")
	case "bleed":
		if g.r.Chance(1, 4) {
			return g.cs("auto")
		}
		return g.length()
	case "border-width", "outline-width", "column-rule-width":
		return g.borderWidth()
	case "border-style", "outline-style", "column-rule-style": // `hidden` is not an outline style
		return g.borderStyle()
	case "outline-color":
		if g.r.Chance(1, 5) {
			return g.cs("invert")
		}
		return g.color()
	case "border-color", "color", "column-rule-color":
		return g.color()
	case "visibility":
		return g.cs(g.pick("visible", "hidden", "collapse"))
	case "column-width":
		if g.r.Chance(1, 4) {
			return g.cs("auto")
		}
		if computed {
			return g.pxLength()
		}
		return strings.TrimPrefix(g.length(), "-")
	case "column-count":
		if g.r.Chance(1, 4) {
			return g.cs("auto")
		}
		return fmt.Sprintf("%d", g.r.Range(1, 12))
	}
	return "0"
}

// a value of the wrong type / malformed
func (g *G) badValue() string {
	return g.pick("red 1px junk", "", "/**/", "1", "10xx", "-", "calc(1px + 2px)", "\"str\"", "url(x)", "1px 2px 3px 4px 5px",
		"wavy", "!", "1px,", ",", "1px / 2px", "#", "-1px -1px", "5 %", "auto auto junk", "[1px]", "(1px)", "{}", "@x", "U+26",
		"1px inherit", "initial initial", "inherit 2px 3px", "foo()", "5%5%", "NaN", "infinity", "1e9999px")
}

var fourFamilies = []string{"margin", "padding", "bleed", "border-width", "border-style", "border-color"}

func longhandName(family, side string) string {
	switch family {
	case "margin", "padding", "bleed":
		return family + "-" + side
	case "border-width":
		return "border-" + side + "-width"
	case "border-style":
		return "border-" + side + "-style"
	case "border-color":
		return "border-" + side + "-color"
	}
	return family
}

var unknownNames = []string{"colour", "margin-middle", "foo", "border-top-colour", "padding-", "margins", "x", "border-width-top",
	"-moz-margin", "-webkit-foo", "-weasy-margin", "-weasy-bleed", "-weasy-nope", "-x"}
var npmNames = []string{"azimuth", "cursor", "transition", "scroll-margin-top", "volume", "will-change", "scrollbar-width"}

var customNames = []string{"--a", "--b", "--c", "--d", "--e", "--A", "--long-name", "--0"}

// ---- custom property graphs

func (g *G) leafTokens() string {
	return g.pick("1px", "2px 3px", "red", "solid", "auto", "inherit", "initial", "1px solid red", "10%", "4px 5px 6px 7px", "3", "auto 5px", "2 auto",
		"hidden", "thick", "#0f0", "0", "junk", "1px 2px 3px 4px 5px", "dotted blue", "1px,2px", "-3px", "visible", "transparent")
}

func (g *G) varRef(names []string, depth int) string {
	name := vlib.Pick(g.r, names)
	if g.r.Chance(1, 8) {
		name = g.pick("--undefined", "--nope", "--A", "--a")
	}
	fn := g.cs("var")
	inner := name
	if g.r.Chance(1, 6) {
		inner = " " + name + " "
	}
	if g.r.Chance(1, 3) {
		fb := g.leafTokens()
		if depth > 0 && g.r.Chance(1, 3) {
			fb = g.varRef(names, depth-1)
		}
		comma := g.pick(",", ", ", " , ")
		inner += comma + fb
	}
	s := fn + "(" + inner + ")"
	// inside functions
	for d := 0; d < 3 && g.r.Chance(1, 6); d++ {
		s = g.pick("foo", "calc", "rgb", "min", "bar") + "(" + g.pick("", "1 ", "a, ") + s + g.pick("", " 2", ", b") + ")"
	}
	return s
}

func (g *G) weirdVar() string {
	return g.pick("var()", "var(1)", "var(--a,)", "var(,--a)", "var(--a,,b)", "var(a)", "var(--)", "var(--a b)", "VAR(--a)",
		"var(--a, var(--b, var(--c, 9px)))", "foo(var(1) var(--a))", "var(\"--a\")", "var(--a, )", "var(--a,1px,2px)", "var(--a 1px, 2px)",
		"foo(a,,var(--a))", "foo(bar(,) var(--a))", "var(--a foo(,,))", "var(--a, foo(var(--b)))", "[var(--a)]", "(var(--a))")
}

// graph shapes: returns the custom property declarations
func (g *G) graph() (decls []string, names []string) {
	switch g.r.Intn(10) {
	case 0: // chain
		n := g.r.Range(2, 5)
		for i := 0; i < n; i++ {
			names = append(names, customNames[i])
		}
		for i := 0; i < n-1; i++ {
			decls = append(decls, fmt.Sprintf("%s: var(%s)", names[i], names[i+1]))
		}
		decls = append(decls, names[n-1]+": "+g.leafTokens())
	case 1: // diamond
		names = []string{"--a", "--b", "--c", "--d"}
		decls = []string{"--a: var(--b) var(--c)", "--b: var(--d)", "--c: var(--d)", "--d: " + g.leafTokens()}
	case 2: // self loop
		names = []string{"--a", "--b"}
		decls = []string{"--a: " + g.pick("var(--a)", "1px var(--a)", "foo(var(--a))", "var(--a, 1px)", "var(--u, var(--a))"), "--b: " + g.leafTokens()}
	case 3: // 2-cycle
		names = []string{"--a", "--b", "--c"}
		decls = []string{"--a: var(--b)", "--b: " + g.pick("var(--a)", "var(--a, 2px)", "x var(--a)"), "--c: " + g.pick("var(--a)", "3px")}
	case 4: // 3-cycle
		names = []string{"--a", "--b", "--c", "--d"}
		decls = []string{"--a: var(--b)", "--b: var(--c)", "--c: var(--a)", "--d: " + g.pick("var(--b, 1px)", "4px")}
	case 5: // undefined with / without fallback
		names = []string{"--a", "--b"}
		decls = []string{"--a: " + g.pick("var(--undefined)", "var(--undefined, 5px)", "var(--undefined, var(--b))", "1px var(--undefined)"), "--b: " + g.leafTokens()}
	default: // random graph
		n := g.r.Range(1, 5)
		for i := 0; i < n; i++ {
			names = append(names, customNames[g.r.Intn(len(customNames))])
		}
		for _, nm := range names {
			k := g.r.Range(1, 3)
			parts := make([]string, k)
			for j := range parts {
				if g.r.Chance(2, 5) {
					parts[j] = g.varRef(names, 2)
				} else {
					parts[j] = g.leafTokens()
				}
			}
			decls = append(decls, nm+": "+strings.Join(parts, g.sep()))
		}
	}
	// shuffle order
	for i := len(decls) - 1; i > 0; i-- {
		j := g.r.Intn(i + 1)
		decls[i], decls[j] = decls[j], decls[i]
	}
	return decls, names
}

// custom properties whose substitution yields a CSS-wide keyword, and declarations (longhands
// and shorthands of the modelled families) that take their whole value from them
func (g *G) wideKeywordUses() (decls, uses []string) {
	kw := g.pick("inherit", "inherit", "INHERIT", "Inherit", "initial", "INITIAL", "unset", "revert", "currentColor", "inherit inherit")
	switch g.r.Intn(4) {
	case 0: // through a chain
		decls = []string{"--w: var(--w2)", "--w2: " + kw}
	case 1: // through a fallback
		decls = []string{"--w: var(--undefined-w, " + kw + ")"}
	default:
		decls = []string{"--w:" + g.pick("", " ") + kw}
	}
	ref := func() string {
		if g.r.Chance(1, 5) {
			return "var(--undefined-w, " + kw + ")"
		}
		return g.cs("var") + "(--w)"
	}
	targets := []string{"color", "visibility", "margin", "padding", "border", "border-color", "border-style", "columns", "column-width", "column-count",
		"margin-" + vlib.Pick(g.r, sides), "padding-" + vlib.Pick(g.r, sides), "border-" + vlib.Pick(g.r, sides),
		"border-" + vlib.Pick(g.r, sides) + "-" + g.pick("style", "color")}
	for i, n := 0, g.r.Range(1, 3); i < n; i++ {
		uses = append(uses, vlib.Pick(g.r, targets)+": "+ref())
	}
	return decls, uses
}

// a declaration using var() in a modelled property
func (g *G) varUse(names []string) string {
	v := func() string { return g.varRef(names, 2) }
	switch g.r.Intn(14) {
	case 12:
		return "columns: " + g.pick(v()+" "+g.valueFor("column-width", true), g.valueFor("column-count", true)+" "+v(), v(), "auto "+v(), v()+" "+v())
	case 13:
		return g.pick("column-width", "column-count") + ": " + v()
	case 0:
		return g.cs("margin") + ": " + v()
	case 1:
		return "margin-" + vlib.Pick(g.r, sides) + ": " + v()
	case 2:
		return "padding: " + g.pxLength() + g.sep() + v()
	case 3:
		return "border: " + v()
	case 4:
		return "border-" + vlib.Pick(g.r, sides) + ": " + v() + " " + v()
	case 5:
		return "color: " + v()
	case 6:
		return "visibility: " + v()
	case 7:
		return "border-color: " + v() + " red"
	case 8:
		return "border-style: " + v()
	case 9:
		return "margin: " + v() + g.sep() + v() + g.sep() + g.pxLength()
	case 10:
		return "padding-" + vlib.Pick(g.r, sides) + ": " + g.weirdVar()
	default:
		return "border-" + vlib.Pick(g.r, sides) + "-" + g.pick("style", "color", "width") + ": " + v()
	}
}

// columns = <'column-width'> || <'column-count'>: one or both components in either order (valid),
// and the near misses: two widths, two counts, three values, a zero / negative / fractional count,
// a negative or percentage width
func (g *G) columnsValue(computed bool) string {
	w, c := g.valueFor("column-width", computed), g.valueFor("column-count", computed)
	switch g.r.Intn(12) {
	case 0:
		return w
	case 1:
		return c
	case 2, 3, 4:
		return w + g.sep() + c
	case 5, 6, 7:
		return c + g.sep() + w
	case 8:
		return g.pick(w+" "+g.valueFor("column-width", computed), c+" "+g.valueFor("column-count", computed), w+" "+c+" "+g.cs("auto"), g.cs("auto")+" "+g.cs("auto")+" "+g.cs("auto"))
	case 9:
		return g.pick("0", "-2", "1.5", "2.0", "+3", "1e1") + g.pick("", " "+w, " auto")
	case 10:
		return g.pick("-1px", "10%", "-0", "0px", "1", "none", "normal") + g.pick("", " "+c, " auto")
	default:
		return g.defaultKw() + g.pick("", "", " "+w, " "+c)
	}
}

// one declaration (text without the trailing ';')
func (g *G) decl(computed bool, names []string) string {
	imp := ""
	if g.r.Chance(1, 7) {
		imp = g.pick(" !important", "!important", " ! important", " !IMPORTANT", " !important /**/")
	}
	colon := g.pick(":", ": ", " : ", ":/**/")
	k := g.r.Intn(100)
	switch {
	case k < 22: // valid longhand
		fam := g.pick("margin", "padding", "bleed", "border-width", "border-style", "border-color", "color", "visibility", "column-width", "column-count",
			"outline-width", "outline-style", "outline-color", "column-rule-width", "column-rule-style", "column-rule-color")
		name := fam
		if fam != "color" && fam != "visibility" && !strings.HasPrefix(fam, "column-") && !strings.HasPrefix(fam, "outline-") {
			name = longhandName(fam, vlib.Pick(g.r, sides))
		}
		val := g.valueFor(fam, computed)
		if g.r.Chance(1, 10) {
			val = g.defaultKw()
		}
		if g.r.Chance(1, 25) {
			name = "-weasy-" + name
		}
		return g.cs(name) + colon + val + imp
	case k < 44 && g.r.Chance(1, 5): // columns (mostly valid)
		name := "columns"
		if g.r.Chance(1, 25) {
			name = "-weasy-columns"
		}
		return g.cs(name) + colon + g.columnsValue(computed) + imp
	case k < 44: // valid four-sides shorthand
		fam := vlib.Pick(g.r, fourFamilies)
		n := g.r.Range(1, 4)
		parts := make([]string, n)
		for i := range parts {
			parts[i] = g.valueFor(fam, computed)
		}
		val := strings.Join(parts, g.sep())
		if g.r.Chance(1, 12) {
			val = g.defaultKw()
		}
		return g.cs(fam) + colon + val + imp
	case k < 60: // border / border-side
		name := "border"
		if g.r.Bool() {
			name = "border-" + vlib.Pick(g.r, sides)
		}
		if g.r.Chance(1, 4) {
			name = g.pick("outline", "column-rule", "-weasy-column-rule")
		}
		var parts []string
		if g.r.Chance(2, 3) {
			parts = append(parts, g.borderWidth())
		}
		if g.r.Chance(2, 3) {
			parts = append(parts, g.borderStyle())
		}
		if g.r.Chance(2, 3) {
			parts = append(parts, g.color())
		}
		if g.r.Chance(1, 8) { // duplicate part
			parts = append(parts, g.pick(g.borderWidth(), g.borderStyle(), g.color()))
		}
		if len(parts) == 0 {
			parts = []string{g.defaultKw()}
		}
		for i := len(parts) - 1; i > 0; i-- {
			j := g.r.Intn(i + 1)
			parts[i], parts[j] = parts[j], parts[i]
		}
		return g.cs(name) + colon + strings.Join(parts, g.sep()) + imp
	case k < 72: // bad value on a known name
		fam := g.pick("margin", "padding", "bleed", "border-width", "border-style", "border-color", "border", "border-left", "color", "visibility",
			"margin-top", "padding-left", "bleed-right", "border-top-width", "border-bottom-style", "border-right-color", "columns", "column-width", "column-count",
			"outline", "column-rule", "outline-style", "outline-color", "column-rule-width")
		val := g.badValue()
		switch g.r.Intn(4) {
		case 0:
			val = g.badColor()
		case 1: // right type, wrong property
			val = g.valueFor(g.pick("margin", "border-style", "border-color", "visibility", "bleed"), computed)
		}
		return g.cs(fam) + colon + val + imp
	case k < 80: // unknown / not print / prefixed
		name := vlib.Pick(g.r, unknownNames)
		if g.r.Chance(1, 3) {
			name = vlib.Pick(g.r, npmNames)
		}
		return g.cs(name) + colon + g.pick("1px", "red", "auto", "", "var(--a)") + imp
	case k < 88: // custom property
		name := vlib.Pick(g.r, customNames)
		if len(names) > 0 && g.r.Bool() {
			name = vlib.Pick(g.r, names)
		}
		val := g.leafTokens()
		if g.r.Chance(1, 3) {
			val = g.varRef(append([]string{"--a", "--b"}, names...), 1)
		}
		if g.r.Chance(1, 12) {
			val = g.pick("", " ", "/**/", "{}", "[a]", "!important")
		}
		return name + colon + val + imp
	case k < 96:
		return g.varUse(append([]string{"--a", "--b", "--c"}, names...)) + imp
	default: // not a declaration at all
		return g.pick("margin 1px", "junk", "p { margin: 1px }", "@media print { }", ": 1px", "margin:: 1px", "1px: margin", "&:hover { color: red }", "!important")
	}
}

func (g *G) block(computed bool, names []string, extra []string, max int) string {
	n := g.r.Range(1, max)
	parts := append([]string{}, extra...)
	for i := 0; i < n; i++ {
		parts = append(parts, g.decl(computed, names))
	}
	// shuffle so that custom properties and uses interleave
	for i := len(parts) - 1; i > 0; i-- {
		j := g.r.Intn(i + 1)
		parts[i], parts[j] = parts[j], parts[i]
	}
	var sb strings.Builder
	for _, p := range parts {
		sb.WriteString(g.pick("", " ", "\n  ", "/* x */"))
		sb.WriteString(p)
		sb.WriteString(g.pick(";", ";", "; ", ";;", " ;"))
	}
	s := sb.String()
	if g.r.Chance(1, 6) {
		s = strings.TrimRight(s, "; ")
	}
	return s
}
