// Harness for C08: runs /repo's declaration pipeline
// (validation.PreprocessDeclarations), the computed style of a probe element
// (tree.GetAllComputedStyles) and var() resolution (tree.VerifResolveVar) on
// generated declaration blocks and custom-property graphs, and writes one
// case per run as a Coq term of type Check.C08.case (input + what the
// implementation returned).  Inputs that may kill the process (cyclic
// custom properties) run in worker subprocesses.
package main

import (
	"bufio"
	"encoding/json"
	"flag"
	"fmt"
	"io"
	"os"
	"path/filepath"
	"strings"
	"time"

	"verifharness/vlib"

	pa "github.com/benoitkugler/webrender/css/parser"
	pr "github.com/benoitkugler/webrender/css/properties"
	"github.com/benoitkugler/webrender/css/validation"
	"github.com/benoitkugler/webrender/html/tree"
	"github.com/benoitkugler/webrender/logger"
	"github.com/benoitkugler/webrender/utils"
)

func init() {
	logger.WarningLogger.SetOutput(io.Discard)
	logger.ProgressLogger.SetOutput(io.Discard)
}

// the properties read on the probe element
var probeProps = []string{
	"margin-top", "margin-right", "margin-bottom", "margin-left",
	"padding-top", "padding-right", "padding-bottom", "padding-left",
	"border-top-style", "border-right-style", "border-bottom-style", "border-left-style",
	"border-top-color", "border-right-color", "border-bottom-color", "border-left-color",
	"visibility", "color",
	"column-width", "column-count",
}

// ---- worker side

type wIn struct {
	Kind   string // "computed" | "resolve" | "meta"
	Parent string
	Block  string
	Value  string   // resolve: the value whose top-level tokens are resolved
	Props  []string // meta: properties to read
	Alt    string   // meta (computed mode): optional third block, see emitT
	Layout int      // computed: 0 `body{Parent} p{Block}`, 1 `html{Parent} body{Block}` (the parent is the root),
	// 2 `html{Block}` (the probe IS the root element: no parent style)
}

type wOut struct {
	Err    string
	Panic  string   // computed: /repo panicked while the style was built or read (a failing input)
	Probe  []string // computed: Coq values of the probe element
	Parent []string // computed: Coq values of the parent (body)
	Extra  []string // computed: CE entries of substituted tokens
	Res    []string // resolve: one rv per top-level token
	Toks   []string // resolve: the tokens
	Envs   string   // resolve: the environment
	Desc   []string
	Meta   string // meta: canonical observable
}

func layoutHTML(layout int, parent, block string) string {
	switch layout {
	case 1:
		return "<style>html{" + parent + "} body{" + block + "}</style><p></p>"
	case 2:
		return "<style>html{" + block + "}</style><p></p>"
	}
	return "<style>body{" + parent + "} p{" + block + "}</style><p></p>"
}

// the computed styles of the parent (nil when the probe is the root element) and of the probe element
func styleOfLayout(layout int, parent, block string) (parentS, probeS pr.ElementStyle, err error) {
	doc, err := tree.NewHTML(utils.InputString(layoutHTML(layout, parent, block)), "http://verif.test/", nil, "")
	if err != nil {
		return nil, nil, err
	}
	doc.UAStyleSheet = tree.TestUAStylesheet
	sf := tree.GetAllComputedStyles(doc, nil, false, nil, nil, nil, nil, false, nil)
	body := doc.Root.FirstChild.NextSibling
	p := body.FirstChild
	switch layout {
	case 1:
		return sf.Get(doc.Root, ""), sf.Get((*utils.HTMLNode)(body), ""), nil
	case 2:
		return nil, sf.Get(doc.Root, ""), nil
	}
	return sf.Get((*utils.HTMLNode)(body), ""), sf.Get((*utils.HTMLNode)(p), ""), nil
}

func styleOf(parent, block string) (htmlS, pS pr.ElementStyle, err error) {
	return styleOfLayout(0, parent, block)
}

func variablesOf(blocks ...string) map[string]pr.RawTokens {
	m := map[string]pr.RawTokens{}
	for _, b := range blocks {
		ds := validation.PreprocessDeclarations("", pa.ParseBlocksContentsString(b))
		imp := map[string]bool{}
		for _, d := range ds {
			if d.Name.Var != "" {
				if imp[d.Name.Var] && !d.Important {
					continue
				}
				m[d.Name.Var] = d.Value.(pr.RawTokens)
				imp[d.Name.Var] = d.Important
			}
		}
	}
	return m
}

func handle(in string) (out string) {
	var wi wIn
	var wo wOut
	defer func() {
		if r := recover(); r != nil {
			if u, ok := r.(unprintable); ok {
				wo = wOut{Err: "unprintable: " + u.why}
			} else if wi.Kind == "computed" {
				// the implementation panicked on this document: a failing input, not a skipped one
				wo = wOut{Panic: fmt.Sprintf("panic: %v", r)}
			} else {
				wo = wOut{Err: fmt.Sprintf("panic: %v", r)}
			}
			b, _ := json.Marshal(wo)
			out = string(b)
		}
	}()
	json.Unmarshal([]byte(in), &wi)
	switch wi.Kind {
	case "computed":
		hs, ps, err := styleOfLayout(wi.Layout, wi.Parent, wi.Block)
		if err != nil {
			wo.Err = err.Error()
			break
		}
		for _, name := range wi.Props {
			k := pr.PropsFromNames[name].Key()
			v := ps.Get(k)
			wo.Probe = append(wo.Probe, coqValue(v))
			if hs != nil {
				wo.Parent = append(wo.Parent, coqValue(hs.Get(k)))
			} else {
				wo.Parent = append(wo.Parent, "VInitial") // no parent style: never read by the model
			}
			wo.Desc = append(wo.Desc, fmt.Sprintf("%s=%v", name, v))
		}
		// colours of tokens built by substitution inside functions
		vars := variablesOf(wi.Parent, wi.Block)
		o := newOracle()
		for _, c := range pa.ParseBlocksContentsString(wi.Block) {
			if d, ok := c.(pa.Declaration); ok {
				for _, t := range d.Value {
					res, _ := tree.VerifResolveVar(vars, t)
					o.addToks(res)
				}
			}
		}
		wo.Extra = o.l
	case "resolve":
		vars := variablesOf(wi.Block)
		var envs []string
		for _, k := range sortedKeys(vars) {
			envs = append(envs, "EE "+str(k)+" "+coqToks(vars[k]))
		}
		wo.Envs = vlib.List(envs)
		cs := pa.ParseBlocksContentsString("x:" + wi.Value)
		for _, c := range cs {
			d, ok := c.(pa.Declaration)
			if !ok {
				continue
			}
			for i, t := range pa.RemoveWhitespace(d.Value) {
				if i >= 3 {
					break
				}
				res, cyclic := tree.VerifResolveVar(vars, t)
				wo.Toks = append(wo.Toks, coqTok(t))
				switch {
				case cyclic:
					wo.Res = append(wo.Res, "RCyclic")
					wo.Desc = append(wo.Desc, "cyclic")
				case res == nil:
					wo.Res = append(wo.Res, "RNil")
					wo.Desc = append(wo.Desc, "nil")
				default:
					wo.Res = append(wo.Res, "(RToks "+coqToks(res)+")")
					wo.Desc = append(wo.Desc, "["+pa.Serialize(res)+"]")
				}
			}
		}
	case "meta":
		wo.Meta = metaObserve(wi)
	}
	b, _ := json.Marshal(wo)
	return string(b)
}

// ---- parent side

// the probe properties of a computed case: the families the block mentions
// (at most three) and the sentinel declarations of the parent for them
var families = []struct {
	key      string
	props    []string
	sentinel string
}{
	{"margin", probeProps[0:4], "margin: 11px 12px 13px 14px; "},
	{"padding", probeProps[4:8], "padding: 21px 22px 23px 24px; "},
	{"border", probeProps[8:16], "border-style: dotted dashed double groove; border-color: #f00 #0f0 #00f #ff0; "},
	{"visibility", probeProps[16:17], "visibility: hidden; "},
	{"color", probeProps[17:18], "color: #f0f; "},
	{"column", probeProps[18:20], "columns: 17px 5; "},
}

func probeFor(r *vlib.Rng, block string) (props []string, parent string) {
	lb := strings.ToLower(block)
	var idx []int
	for i, f := range families {
		if strings.Contains(lb, f.key) {
			idx = append(idx, i)
		}
	}
	for len(idx) > 3 {
		k := r.Intn(len(idx))
		idx = append(idx[:k], idx[k+1:]...)
	}
	if len(idx) == 0 {
		idx = []int{r.Intn(len(families))}
	}
	for _, i := range idx {
		props = append(props, families[i].props...)
		parent += families[i].sentinel
	}
	return props, parent
}

type pending struct {
	kind  string
	in    wIn
	build func(wo wOut, status int, fatal string) []vlib.Case
}

func statusCode(r vlib.WResult) (int, string) {
	switch r.Status {
	case "ok":
		return 0, ""
	case "fatal":
		return 1, vlib.FatalKind(r.Out)
	default:
		return 2, "hang"
	}
}

func tables(probeProps []string, parentVals []string) string {
	l := make([]string, len(probeProps))
	for i, name := range probeProps {
		p := pr.PropsFromNames[name]
		par := "VInitial"
		if parentVals != nil {
			par = parentVals[i]
		}
		l[i] = fmt.Sprintf("PE %s %s %s %s", str(name), vlib.Bool(pr.Inherited.Has(p)), coqValue(pr.InitialValues[p]), par)
	}
	return vlib.List(l)
}

func safe(f func()) (ok bool) {
	defer func() {
		if r := recover(); r != nil {
			if _, is := r.(unprintable); is {
				ok = false
				return
			}
			panic(r)
		}
	}()
	f()
	return true
}

func declsCase(block string, tags []string) (c vlib.Case, ok bool) {
	ok = safe(func() {
		cs := pa.ParseBlocksContentsString(block)
		ds := validation.PreprocessDeclarations("", cs)
		o := newOracle()
		o.addCompounds(cs)
		c = vlib.Case{Kind: "decls",
			Coq:        fmt.Sprintf("CDecls %s %s %s", coqRaws(cs), o.coq(), coqDecls(ds)),
			Desc:       map[string]interface{}{"block": block, "impl": descDecls(ds)},
			Tags:       tags,
			Nontrivial: len(cs) > 1 || len(ds) > 0}
	})
	return c, ok
}

func hasTag(s string, subs ...string) bool {
	for _, x := range subs {
		if strings.Contains(s, x) {
			return true
		}
	}
	return false
}

func blockTags(block string) []string {
	var t []string
	lb := strings.ToLower(block)
	if strings.Contains(lb, "var(") {
		t = append(t, "var")
	}
	if strings.Contains(lb, "important") {
		t = append(t, "important")
	}
	if strings.Contains(block, "/*") {
		t = append(t, "comment")
	}
	if block != lb {
		t = append(t, "uppercase")
	}
	if hasTag(lb, "inherit", "initial") {
		t = append(t, "default-keyword")
	}
	if hasTag(lb, "border:", "border-top:", "border-left:", "border-right:", "border-bottom:", "outline:", "column-rule:") {
		t = append(t, "border-shorthand")
	}
	if hasTag(lb, "margin:", "padding:", "bleed:", "border-width:", "border-style:", "border-color:") {
		t = append(t, "four-sides")
	}
	if hasTag(lb, "columns:", "columns ", "columns/") {
		t = append(t, "columns-shorthand")
	}
	return t
}

func main() {
	if vlib.IsWorker() {
		vlib.WorkerMain(handle)
	}
	out := flag.String("out", "cases.jsonl", "output file")
	n := flag.Int("n", 2000, "number of cases")
	corpusDir := flag.String("corpus", "../corpus/C08", "regression corpus directory")
	flag.Parse()
	rng := vlib.NewRng(vlib.Seed())
	w := vlib.NewWriter(*out)
	defer w.Close()

	var cases []vlib.Case // direct cases, in order
	var pend []pending
	var corpusMeta [][4]string // mode, canonical, variant, props
	unsupported := map[string]bool{} // value-table entries known to be rejected (valid CSS, not supported)

	addComputedL := func(r *vlib.Rng, layout int, parentCustom, block string, tags []string) {
		probeProps, sentinel := probeFor(r, block)
		parent := sentinel + parentCustom
		if layout == 2 { // the probe is the root element: there is no parent rule
			parent = ""
		}
		tags = append(append([]string{}, tags...), []string{"probe-child", "probe-child-of-root", "probe-root"}[layout])
		cs := pa.ParseBlocksContentsString(block)
		pcs := pa.ParseBlocksContentsString(parent)
		pend = append(pend, pending{kind: "computed", in: wIn{Kind: "computed", Parent: parent, Block: block, Props: probeProps, Layout: layout},
			build: func(wo wOut, status int, fatal string) []vlib.Case {
				var c vlib.Case
				if wo.Panic != "" && status == 0 {
					// the implementation panicked on this document (recovered in the worker)
					status, fatal = 1, wo.Panic
					wo.Probe, wo.Parent, wo.Desc = nil, nil, []string{wo.Panic}
				}
				ok := safe(func() {
					o := newOracle()
					o.addCompounds(cs)
					o.addCompounds(pcs)
					for _, e := range wo.Extra {
						if !o.seen[e] {
							o.seen[e] = true
							o.l = append(o.l, e)
						}
					}
					outs := make([]string, len(wo.Probe))
					for i := range wo.Probe {
						outs[i] = "OE " + str(probeProps[i]) + " " + wo.Probe[i]
					}
					var parentVals []string
					if len(wo.Parent) == len(probeProps) {
						parentVals = wo.Parent
					}
					c = vlib.Case{Kind: "computed",
						Coq: fmt.Sprintf("CComputed %s %s %s %s %s %d %s", vlib.Bool(layout == 2), coqRaws(pcs), coqRaws(cs), o.coq(), tables(probeProps, parentVals), status, vlib.List(outs)),
						Desc: map[string]interface{}{"html": layoutHTML(layout, parent, block), "probe_element": []string{"p", "body", "html"}[layout],
							"computed_style_of_probe": wo.Desc, "status": []string{"ok", "fatal", "hang"}[status], "fatal": fatal},
						Tags: append(tags, "status-"+[]string{"ok", "fatal", "hang"}[status]), Nontrivial: true}
				})
				if !ok || wo.Err != "" {
					return nil
				}
				return []vlib.Case{c}
			}})
	}
	addComputed := func(r *vlib.Rng, parentCustom, block string, tags []string) {
		addComputedL(r, 0, parentCustom, block, tags)
	}
	addResolve := func(block, value string, tags []string) {
		pend = append(pend, pending{kind: "resolve", in: wIn{Kind: "resolve", Block: block, Value: value},
			build: func(wo wOut, status int, fatal string) []vlib.Case {
				if wo.Err != "" {
					return nil
				}
				if status != 0 {
					// the worker died: one case carrying the whole value's first token
					var c vlib.Case
					ok := safe(func() {
						vars := map[string]pr.RawTokens{}
						func() {
							defer func() { recover() }()
							vars = variablesOf(block)
						}()
						var envs []string
						for _, k := range sortedKeys(vars) {
							envs = append(envs, "EE "+str(k)+" "+coqToks(vars[k]))
						}
						toks := []pa.Token{}
						for _, cc := range pa.ParseBlocksContentsString("x:" + value) {
							if d, ok := cc.(pa.Declaration); ok {
								toks = pa.RemoveWhitespace(d.Value)
							}
						}
						if len(toks) == 0 {
							return
						}
						c = vlib.Case{Kind: "resolve", Coq: fmt.Sprintf("CResolve %s %s %d RNil", vlib.List(envs), coqTok(toks[0]), status),
							Desc: map[string]interface{}{"custom_properties": block, "value": value, "status": fatal},
							Tags: append(tags, "status-fatal"), Nontrivial: true}
					})
					if !ok || c.Coq == "" {
						return nil
					}
					return []vlib.Case{c}
				}
				var res []vlib.Case
				for i := range wo.Res {
					res = append(res, vlib.Case{Kind: "resolve",
						Coq:  fmt.Sprintf("CResolve %s %s 0 %s", wo.Envs, wo.Toks[i], wo.Res[i]),
						Desc: map[string]interface{}{"custom_properties": block, "value": value, "token_index": i, "impl": wo.Desc[i]},
						Tags: append(append([]string{}, tags...), "res-"+strings.ToLower(strings.Fields(strings.Trim(wo.Res[i], "("))[0])), Nontrivial: true})
				}
				return res
			}})
	}

	// ---- regression corpus first: one block per line: kind<TAB>parent<TAB>block[<TAB>value]
	if files, _ := filepath.Glob(filepath.Join(*corpusDir, "*.tsv")); len(files) > 0 {
		for _, f := range files {
			fh, err := os.Open(f)
			if err != nil {
				continue
			}
			sc := bufio.NewScanner(fh)
			for sc.Scan() {
				line := sc.Text()
				if line == "" || strings.HasPrefix(line, "#") {
					continue
				}
				fs := strings.Split(line, "\t")
				switch {
				case fs[0] == "decls" && len(fs) >= 2:
					if c, ok := declsCase(fs[1], append(blockTags(fs[1]), "corpus")); ok {
						cases = append(cases, c)
					}
				case fs[0] == "computed" && len(fs) >= 3:
					addComputed(rng.Fork(), fs[1], fs[2], append(blockTags(fs[2]), "corpus"))
				case fs[0] == "computed-root" && len(fs) >= 3: // the probe is the root element (fs[1] unused)
					addComputedL(rng.Fork(), 2, "", fs[2], append(blockTags(fs[2]), "corpus"))
				case fs[0] == "computed-body" && len(fs) >= 3: // html{fs[1]} body{fs[2]}
					addComputedL(rng.Fork(), 1, fs[1], fs[2], append(blockTags(fs[2]), "corpus"))
				case fs[0] == "resolve" && len(fs) >= 3:
					addResolve(fs[1], fs[2], []string{"corpus"})
				case fs[0] == "unsupported" && len(fs) >= 2:
					unsupported[fs[1]] = true
				case fs[0] == "meta" && len(fs) >= 4:
					var props []string
					if len(fs) >= 5 && fs[4] != "" {
						props = strings.Split(fs[4], ",")
					}
					corpusMeta = append(corpusMeta, [4]string{fs[1], fs[2], fs[3], strings.Join(props, ",")})
				}
			}
			fh.Close()
		}
	}

	// ---- generated streams
	nMeta := *n / 2
	nModel := *n - nMeta
	target := nModel - len(cases) - len(pend)
	for i := 0; i < target; i++ {
		g := &G{r: rng.Fork()}
		switch k := g.r.Intn(100); {
		case k < 40:
			var extra, names []string
			if g.r.Chance(1, 4) {
				extra, names = g.graph()
			}
			block := g.block(false, names, extra, 6)
			if c, ok := declsCase(block, blockTags(block)); ok {
				cases = append(cases, c)
			}
		case k < 62:
			gdecls, names := g.graph()
			var pextra []string
			if g.r.Chance(1, 3) { // some of the graph lives on the parent (inherited custom properties)
				cut := g.r.Intn(len(gdecls) + 1)
				pextra, gdecls = gdecls[:cut], gdecls[cut:]
			}
			uses := []string{g.varUse(names)}
			if g.r.Bool() {
				uses = append(uses, g.varUse(names))
			}
			// the probe element: a child of body, body (its parent is the root), or the root itself
			layout := vlib.Pick(g.r, []int{0, 0, 1, 2})
			var wtags []string
			if g.r.Chance(1, 3) {
				// a custom property holding a CSS-wide keyword (any case; `unset` / `revert` are
				// not supported: invalid at computed-value time), possibly through a chain or a
				// fallback, substituted into longhands and shorthands
				wd, wu := g.wideKeywordUses()
				gdecls = append(gdecls, wd...)
				uses = append(uses, wu...)
				wtags = []string{"var-css-wide-keyword"}
			}
			if layout == 2 { // no parent rule: the whole graph lives on the root
				gdecls = append(append([]string{}, pextra...), gdecls...)
				pextra = nil
			}
			block := g.block(true, names, append(gdecls, uses...), 3)
			parent := "--inh: 7px; --pc: blue; " + strings.Join(pextra, "; ")
			addComputedL(g.r, layout, parent, block, append(blockTags(block), wtags...))
		default:
			gdecls, names := g.graph()
			value := g.varRef(names, 2)
			if g.r.Chance(1, 5) {
				value = g.weirdVar()
			}
			if g.r.Chance(1, 3) {
				value += " " + g.varRef(names, 1)
			}
			addResolve(strings.Join(gdecls, "; "), value, nil)
		}
	}

	nm := metaCases(rng, nMeta, corpusMeta, unsupported, func(in wIn, build func(wo wOut, status int, fatal string) []vlib.Case) {
		pend = append(pend, pending{kind: "meta", in: in, build: build})
	})
	_ = nm

	// run the worker inputs
	inputs := make([]string, len(pend))
	for i, p := range pend {
		b, _ := json.Marshal(p.in)
		inputs[i] = string(b)
	}
	// run in chunks: once a dozen inputs have killed their worker the point is
	// made, the remaining inputs are not run (each death costs seconds)
	results := make([]vlib.WResult, 0, len(inputs))
	dead := 0
	for start := 0; start < len(inputs) && dead < 12; start += 256 {
		end := start + 256
		if end > len(inputs) {
			end = len(inputs)
		}
		chunk := vlib.RunPool(inputs[start:end], 8, 10*time.Second, 4000000)
		for _, r := range chunk {
			if r.Status != "ok" {
				dead++
			}
		}
		results = append(results, chunk...)
	}
	pend = pend[:len(results)]
	for i, p := range pend {
		var wo wOut
		status, fatal := statusCode(results[i])
		if status == 0 {
			json.Unmarshal([]byte(results[i].Out), &wo)
		}
		cases = append(cases, p.build(wo, status, fatal)...)
	}
	for _, c := range cases {
		w.Add(c)
	}
	fmt.Fprintf(os.Stderr, "c08: %d cases (%d worker runs)\n", w.N(), len(pend))
}
