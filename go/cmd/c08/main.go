package main

import (
	"fmt"
	"io"
	"github.com/benoitkugler/webrender/logger"
	"os"

	"verifharness/vlib"

	pa "github.com/benoitkugler/webrender/css/parser"
	pr "github.com/benoitkugler/webrender/css/properties"
	"github.com/benoitkugler/webrender/css/validation"
	"github.com/benoitkugler/webrender/html/tree"
	"github.com/benoitkugler/webrender/utils"
)

func decls(css string) string {
	ds := validation.PreprocessDeclarations("", pa.ParseBlocksContentsString(css))
	s := ""
	for _, d := range ds {
		s += fmt.Sprintf("%s = %#v imp=%v sh=%v\n", d.Name, d.Value, d.Important, d.Shortand)
	}
	return s
}

func computed(block string, props []string) string {
	html := "<style>html{--inh: 7px} p {" + block + "}</style><p></p>"
	doc, err := tree.NewHTML(utils.InputString(html), "http://verif.test/", nil, "")
	if err != nil {
		return "ERR " + err.Error()
	}
	doc.UAStyleSheet = tree.TestUAStylesheet
	sf := tree.GetAllComputedStyles(doc, nil, false, nil, nil, nil, nil, false, nil)
	p := doc.Root.FirstChild.NextSibling.FirstChild
	st := sf.Get((*utils.HTMLNode)(p), "")
	s := ""
	for _, name := range props {
		k := pr.PropsFromNames[name]
		s += fmt.Sprintf("%s=%#v; ", name, st.Get(k.Key()))
	}
	return s
}

func main() {
	if vlib.IsWorker() {
		vlib.WorkerMain(func(in string) string { return computed(in, []string{"color", "width", "margin-left", "font-family"}) })
	}
	for _, a := range os.Args[1:] {
		fmt.Println("==", a)
		fmt.Print(decls(a))
	}
}

func init() {
	logger.WarningLogger.SetOutput(io.Discard)
	logger.ProgressLogger.SetOutput(io.Discard)
	if len(os.Args) > 1 && os.Args[1] == "-pool" && !vlib.IsWorker() {
		res := vlib.RunPool(os.Args[2:], 4, 10e9, 4000000)
		for i, r := range res {
			out := r.Out
			if r.Status != "ok" {
				out = vlib.FatalKind(r.Out)
			}
			fmt.Println("==", os.Args[2+i], "\n  ", r.Status, out)
		}
		os.Exit(0)
	}
}
