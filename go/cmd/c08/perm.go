package main

// Grammar-driven order stream of the metamorphic check.
//
// A shorthand whose grammar combines its components with `||` / `&&`
// (css-values-4 2.3: "in any order") means the same in every order.  The
// value table of grammar.go only holds a few hand-written spellings, and it
// keeps only the ones the implementation accepts, so a spelling order the
// implementation wrongly rejects silently vanishes from it.  Here the value
// is BUILT from the grammar: every component (`ppart`) has value classes
// (plain values, and the ambiguous keywords `auto` / `none` / `normal` / `0`
// that are valid for more than one component), a shape is an ordered
// selection of components, and the meaning of the written value is known by
// construction (`sets`): no parsing on the harness side, nothing read back
// from the implementation.  The pair compares the computed style after the
// shorthand with the computed style after the longhands CSS assigns (omitted
// components are reset to their initial value).
//
// Coverage is systematic, not sampled, for everything small: all one- and
// two-component shapes with every combination of value classes (bounded by
// `pairCap`), then a sample of the larger shapes.

import (
	"fmt"
	"os"
	"sort"
	"strings"

	"verifharness/vlib"

	pa "github.com/benoitkugler/webrender/css/parser"
	"github.com/benoitkugler/webrender/css/validation"
)

type pv struct {
	chunk string
	sets  [][2]string // (longhand, value); a longhand set twice gets the values joined by a space
}

type pclass []pv

type ppart struct {
	name      string
	classes   []pclass
	mandatory bool // always present
	last      bool // always written last (font: size/line-height family)
}

type orSpec struct {
	prop    string
	self    bool // order inside one longhand: canonical order vs permutation, declared values compared
	mode    string // self: "decl" (default), "decl-set" (set-valued typed value: members compared sorted), "computed"
	parts   []ppart
	longs   []string
	omitted map[string]string                // value of a longhand no component sets (default `initial`)
	post    func(m map[string]string, cs []pv) // shorthand-specific rule (list-style `none`)
	cap     int
}

// one class per argument list
func kv(long string, vals ...string) pclass {
	c := make(pclass, len(vals))
	for i, v := range vals {
		c[i] = pv{chunk: v, sets: [][2]string{{long, v}}}
	}
	return c
}

func words(vals ...string) pclass {
	c := make(pclass, len(vals))
	for i, v := range vals {
		c[i] = pv{chunk: v}
	}
	return c
}

func borderLike(prop string, longsOf func(sfx string) []string, colorExtra ...string) orSpec {
	mk := func(sfx string, classes ...[]string) ppart {
		p := ppart{name: sfx}
		for _, cl := range classes {
			var c pclass
			for _, v := range cl {
				x := pv{chunk: v}
				for _, l := range longsOf(sfx) {
					x.sets = append(x.sets, [2]string{l, v})
				}
				c = append(c, x)
			}
			p.classes = append(p.classes, c)
		}
		return p
	}
	sp := orSpec{prop: prop, parts: []ppart{
		mk("width", []string{"thin", "medium", "thick"}, []string{"0"}, []string{"3px", "0.2em", "1pc", "2.5mm"}),
		mk("style", []string{"none"}, []string{"hidden", "dotted", "dashed", "double", "inset", "outset", "groove", "ridge", "solid"}),
		mk("color", append([]string{"red", "transparent", "currentcolor"}, colorExtra...), []string{"#fff", "#a1b2c3"}, []string{"rgb(1, 2, 3)", "hsl(120, 100%, 50%)", "rgba(10, 20, 30, 0.5)"}),
	}}
	for _, sfx := range []string{"width", "style", "color"} {
		sp.longs = append(sp.longs, longsOf(sfx)...)
	}
	return sp
}

func orSpecs() []orSpec {
	var out []orSpec

	// css-multicol-1: columns = <'column-width'> || <'column-count'>; `auto` is valid for both
	out = append(out, orSpec{prop: "columns", longs: []string{"column-width", "column-count"}, parts: []ppart{
		{name: "width", classes: []pclass{kv("column-width", "auto"), kv("column-width", "0"), kv("column-width", "10em", "200px", "2.5rem", "12pt")}},
		{name: "count", classes: []pclass{kv("column-count", "auto"), kv("column-count", "1", "3", "12")}},
	}})

	// CSS 2.1 8.5.4, css-ui outline, css-multicol column-rule: <line-width> || <line-style> || <color>
	out = append(out, borderLike("border", func(sfx string) []string {
		l := make([]string, 4)
		for i, sd := range sides {
			l[i] = "border-" + sd + "-" + sfx
		}
		return l
	}))
	for _, sd := range sides {
		sd := sd
		sp := borderLike("border-"+sd, func(sfx string) []string { return []string{"border-" + sd + "-" + sfx} })
		sp.cap = 20
		out = append(out, sp)
	}
	out = append(out, borderLike("outline", func(sfx string) []string { return []string{"outline-" + sfx} }))
	out = append(out, borderLike("column-rule", func(sfx string) []string { return []string{"column-rule-" + sfx} }))

	// css-lists-3: <'list-style-position'> || <'list-style-image'> || <'list-style-type'>; `none` sets
	// whichever of type / image is not otherwise specified
	out = append(out, orSpec{prop: "list-style", longs: []string{"list-style-type", "list-style-position", "list-style-image"}, parts: []ppart{
		{name: "type", classes: []pclass{kv("list-style-type", "none"), kv("list-style-type", "disc", "square", "decimal", "lower-roman", "upper-latin"), kv("list-style-type", "\"mybullet\"", "symbols(\"*\" \"+\")")}},
		{name: "position", classes: []pclass{kv("list-style-position", "inside", "outside")}},
		{name: "image", classes: []pclass{kv("list-style-image", "none"), kv("list-style-image", "url(http://verif.test/a.png)")}},
	}, post: func(m map[string]string, cs []pv) {
		hasNone := false
		for _, c := range cs {
			if c.chunk == "none" {
				hasNone = true
			}
		}
		if hasNone {
			for _, l := range []string{"list-style-type", "list-style-image"} {
				if _, ok := m[l]; !ok {
					m[l] = "none"
				}
			}
		}
	}})

	// css-flexbox-1: flex-flow = <'flex-direction'> || <'flex-wrap'>
	out = append(out, orSpec{prop: "flex-flow", longs: []string{"flex-direction", "flex-wrap"}, parts: []ppart{
		{name: "direction", classes: []pclass{kv("flex-direction", "row", "row-reverse"), kv("flex-direction", "column", "column-reverse")}},
		{name: "wrap", classes: []pclass{kv("flex-wrap", "nowrap"), kv("flex-wrap", "wrap", "wrap-reverse")}},
	}})

	// css-flexbox-1: flex = none | [ <'flex-grow'> <'flex-shrink'>? || <'flex-basis'> ]; omitted factors are 1,
	// an omitted basis is 0.  (A unitless 0 basis is only a basis after two factors: not generated here.)
	facs := func(vals ...string) pclass {
		var c pclass
		for _, v := range vals {
			f := strings.Fields(v)
			x := pv{chunk: v, sets: [][2]string{{"flex-grow", f[0]}}}
			if len(f) == 2 {
				x.sets = append(x.sets, [2]string{"flex-shrink", f[1]})
			}
			c = append(c, x)
		}
		return c
	}
	out = append(out, orSpec{prop: "flex", longs: []string{"flex-grow", "flex-shrink", "flex-basis"},
		omitted: map[string]string{"flex-grow": "1", "flex-shrink": "1", "flex-basis": "0px"}, parts: []ppart{
			{name: "factors", classes: []pclass{facs("1", "2.5", "3"), facs("0"), facs("2 3", "1 0.5"), facs("0 0", "0 2", "4 0")}},
			{name: "basis", classes: []pclass{kv("flex-basis", "auto"), kv("flex-basis", "content"), kv("flex-basis", "10px", "30%", "10em"), kv("flex-basis", "0px", "0%")}},
		}})

	// css-text-decor-3: <'text-decoration-line'> || <'text-decoration-style'> || <'text-decoration-color'>
	out = append(out, orSpec{prop: "text-decoration", longs: []string{"text-decoration-line", "text-decoration-style", "text-decoration-color"}, parts: []ppart{
		{name: "line", classes: []pclass{kv("text-decoration-line", "none"), kv("text-decoration-line", "underline", "overline", "line-through", "blink"),
			kv("text-decoration-line", "underline overline", "line-through underline", "overline underline blink")}},
		{name: "style", classes: []pclass{kv("text-decoration-style", "solid", "double", "dotted", "dashed", "wavy")}},
		{name: "color", classes: []pclass{kv("text-decoration-color", "red", "transparent", "currentcolor"), kv("text-decoration-color", "#fff", "rgb(1, 2, 3)")}},
	}})

	// css-fonts-3: font = [ <'font-style'> || <font-variant-css21> || <'font-weight'> || <'font-stretch'> ]?
	//                     <'font-size'> [ / <'line-height'> ]? <'font-family'>
	tail := func(vals ...[3]string) pclass {
		var c pclass
		for _, v := range vals {
			x := pv{sets: [][2]string{{"font-size", v[0]}}}
			x.chunk = v[0]
			if v[1] != "" {
				x.chunk += "/" + v[1]
				x.sets = append(x.sets, [2]string{"line-height", v[1]})
			}
			x.chunk += " " + v[2]
			x.sets = append(x.sets, [2]string{"font-family", v[2]})
			c = append(c, x)
		}
		return c
	}
	out = append(out, orSpec{prop: "font", longs: []string{"font-style", "font-variant-caps", "font-weight", "font-stretch", "font-size", "line-height", "font-family"}, parts: []ppart{
		{name: "style", classes: []pclass{kv("font-style", "normal"), kv("font-style", "italic", "oblique")}},
		{name: "variant", classes: []pclass{kv("font-variant-caps", "normal"), kv("font-variant-caps", "small-caps")}},
		{name: "weight", classes: []pclass{kv("font-weight", "normal"), kv("font-weight", "bold", "bolder", "lighter"), kv("font-weight", "100", "400", "900")}},
		{name: "stretch", classes: []pclass{kv("font-stretch", "normal"), kv("font-stretch", "condensed", "ultra-expanded", "semi-condensed")}},
		{name: "size-family", mandatory: true, last: true, classes: []pclass{
			tail([3]string{"12px", "", "serif"}, [3]string{"x-large", "", "myfont, monospace"}, [3]string{"120%", "", "\"myfont two\""}),
			tail([3]string{"1em", "1.5", "myfont, serif"}, [3]string{"16px", "normal", "cursive"}, [3]string{"small", "120%", "fantasy"}, [3]string{"2rem", "18px", "sans-serif"})}},
	}})

	// css-fonts-3: font-variant = normal | none | [ the keywords of the six longhands, in any order ]
	fv := func(long string, groups ...[]string) []ppart {
		var ps []ppart
		for i, g := range groups {
			ps = append(ps, ppart{name: fmt.Sprintf("%s-%d", strings.TrimPrefix(long, "font-variant-"), i), classes: []pclass{kv(long, g...)}})
		}
		return ps
	}
	var fvParts []ppart
	fvParts = append(fvParts, fv("font-variant-ligatures", []string{"common-ligatures", "no-common-ligatures"}, []string{"discretionary-ligatures", "no-discretionary-ligatures"},
		[]string{"historical-ligatures", "no-historical-ligatures"}, []string{"contextual", "no-contextual"})...)
	fvParts = append(fvParts, fv("font-variant-caps", []string{"small-caps", "all-small-caps", "petite-caps", "all-petite-caps", "unicase", "titling-caps"})...)
	fvParts = append(fvParts, fv("font-variant-numeric", []string{"lining-nums", "oldstyle-nums"}, []string{"proportional-nums", "tabular-nums"},
		[]string{"diagonal-fractions", "stacked-fractions"}, []string{"ordinal"}, []string{"slashed-zero"})...)
	fvParts = append(fvParts, fv("font-variant-east-asian", []string{"jis78", "jis83", "jis90", "jis04", "simplified", "traditional"}, []string{"full-width", "proportional-width"}, []string{"ruby"})...)
	fvParts = append(fvParts, fv("font-variant-position", []string{"sub", "super"})...)
	fvParts = append(fvParts, fv("font-variant-alternates", []string{"historical-forms"})...)
	out = append(out, orSpec{prop: "font-variant", parts: fvParts, cap: 64,
		longs: []string{"font-variant-alternates", "font-variant-caps", "font-variant-east-asian", "font-variant-ligatures", "font-variant-numeric", "font-variant-position"}})

	// css-backgrounds-3: <final-bg-layer> = <'background-color'> || <bg-image> || <bg-position> [ / <bg-size> ]? ||
	//                    <repeat-style> || <attachment> || <box> || <box>
	out = append(out, bgSpec(true))

	// css-backgrounds-3: border-image = <'border-image-source'> || <'border-image-slice'>
	//   [ / <'border-image-width'> | / <'border-image-width'>? / <'border-image-outset'> ]? || <'border-image-repeat'>
	sl := func(vals ...[3]string) pclass {
		var c pclass
		for _, v := range vals {
			x := pv{chunk: v[0], sets: [][2]string{{"border-image-slice", v[0]}}}
			if v[1] != "" || v[2] != "" {
				x.chunk += " /"
				if v[1] != "" {
					x.chunk += " " + v[1]
					x.sets = append(x.sets, [2]string{"border-image-width", v[1]})
				}
				if v[2] != "" {
					x.chunk += " / " + v[2]
					x.sets = append(x.sets, [2]string{"border-image-outset", v[2]})
				}
			}
			c = append(c, x)
		}
		return c
	}
	out = append(out, orSpec{prop: "border-image", longs: []string{"border-image-source", "border-image-slice", "border-image-width", "border-image-outset", "border-image-repeat"}, parts: []ppart{
		{name: "source", classes: []pclass{kv("border-image-source", "none"), kv("border-image-source", "url(http://verif.test/a.png)", "linear-gradient(red, blue)")}},
		{name: "slice", classes: []pclass{sl([3]string{"10"}, [3]string{"10 20"}, [3]string{"10% fill"}, [3]string{"1 2 3 4"}),
			sl([3]string{"30", "5px"}, [3]string{"10 20", "1 2"}, [3]string{"27", "auto"}), sl([3]string{"27", "10px", "2px"}, [3]string{"10", "", "2"}, [3]string{"10 20", "1", "1 2px"})}},
		{name: "repeat", classes: []pclass{kv("border-image-repeat", "stretch", "repeat", "round", "space"), kv("border-image-repeat", "stretch round", "space repeat")}},
	}})

	// ---- order inside one longhand (`&&` / `||` of keywords): same declared value in every order
	mode := "decl"
	self := func(prop string, parts ...pclass) {
		sp := orSpec{prop: prop, self: true, mode: mode, longs: []string{prop}, cap: 12}
		for i, p := range parts {
			sp.parts = append(sp.parts, ppart{name: fmt.Sprintf("k%d", i), classes: []pclass{p}, mandatory: true})
		}
		out = append(out, sp)
	}
	// grid-auto-flow (pr.Strings) and justify-items (pr.JustifyOrAlign) keep their keywords in written
	// order; every consumer tests membership (utils.IsIn / Has): compared as sets
	mode = "decl-set"
	self("grid-auto-flow", words("row", "column"), words("dense"))
	self("justify-items", words("legacy"), words("left", "right", "center"))
	// the declared border-image-slice keeps `fill` where it was written, the computed value is normalised
	mode = "computed"
	self("border-image-slice", words("10", "10 20", "10% 20% 30% 40%"), words("fill"))
	mode = "decl"
	self("marks", words("crop"), words("cross"))
	self("size", words("a4", "letter", "b5", "jis-b4"), words("portrait", "landscape"))
	self("display", words("block", "inline"), words("flow", "flow-root", "flex", "grid", "table"))
	self("display", words("list-item"), words("block", "inline"))
	self("display", words("list-item"), words("flow", "flow-root"))
	self("display", words("list-item"), words("block", "inline"), words("flow", "flow-root"))
	for _, p := range []string{"background-position", "object-position", "transform-origin"} {
		self(p, words("left", "right"), words("top", "bottom", "center"))
		self(p, words("center"), words("top", "bottom"))
	}
	for _, p := range []string{"grid-row-start", "grid-row-end", "grid-column-start", "grid-column-end"} {
		self(p, words("2", "-1"), words("myline"))
		self(p, words("span"), words("2", "myline", "2 myline"))
	}
	// css-grid-1: grid = [ auto-flow && dense? ] <'grid-auto-rows'>? / <'grid-template-columns'>
	out = append(out, orSpec{prop: "grid", self: true, mode: "computed", cap: 12,
		longs: []string{"grid-template-columns", "grid-template-rows", "grid-template-areas", "grid-auto-columns", "grid-auto-rows", "grid-auto-flow"},
		parts: []ppart{{name: "k0", mandatory: true, classes: []pclass{words("auto-flow")}}, {name: "k1", mandatory: true, classes: []pclass{words("dense")}},
			{name: "tracks", mandatory: true, last: true, classes: []pclass{words("/ 100px", "10px / 20px 30px", "1fr / 1fr 1fr", "min-content / auto")}}}})
	return out
}

// single background layer; the final layer also takes the colour
func bgSpec(final bool) orSpec {
	posSize := func(vals ...[2]string) pclass {
		var c pclass
		for _, v := range vals {
			x := pv{chunk: v[0], sets: [][2]string{{"background-position", v[0]}}}
			if v[1] != "" {
				x.chunk += " / " + v[1]
				x.sets = append(x.sets, [2]string{"background-size", v[1]})
			}
			c = append(c, x)
		}
		return c
	}
	boxes := func(vals ...string) pclass {
		var c pclass
		for _, v := range vals {
			f := strings.Fields(v)
			x := pv{chunk: v, sets: [][2]string{{"background-origin", f[0]}, {"background-clip", f[len(f)-1]}}}
			c = append(c, x)
		}
		return c
	}
	// an omitted position is written `0% 0%` (its initial value) rather than `initial`: a declared 0% is
	// computed to 0px, the initial value is kept as 0%: same position, different representation
	sp := orSpec{prop: "background", cap: 72, omitted: map[string]string{"background-position": "0% 0%"},
		longs: []string{"background-color", "background-image", "background-repeat", "background-attachment", "background-position", "background-size", "background-clip", "background-origin"},
		parts: []ppart{
			{name: "image", classes: []pclass{kv("background-image", "none"), kv("background-image", "url(http://verif.test/a.png)", "linear-gradient(red, blue)")}},
			{name: "position", classes: []pclass{posSize([2]string{"left"}, [2]string{"center"}, [2]string{"right top"}, [2]string{"bottom"}),
				posSize([2]string{"10px 20px"}, [2]string{"10% 20%"}, [2]string{"30%"}), posSize([2]string{"0 0"}, [2]string{"0"}, [2]string{"0 10px"}),
				posSize([2]string{"left 10px top 5px"}, [2]string{"right 3px bottom 4%"}),
				posSize([2]string{"center", "cover"}, [2]string{"left top", "contain"}, [2]string{"10px 20px", "10px 20px"}),
				posSize([2]string{"0 0", "auto"}, [2]string{"center", "auto 3em"}, [2]string{"0 0", "0 0"}, [2]string{"left", "50% auto"})}},
			{name: "repeat", classes: []pclass{kv("background-repeat", "no-repeat", "repeat-x", "repeat-y", "space", "round", "repeat"), kv("background-repeat", "repeat no-repeat", "space round", "no-repeat repeat")}},
			{name: "attachment", classes: []pclass{kv("background-attachment", "scroll", "fixed", "local")}},
			{name: "box", classes: []pclass{boxes("border-box", "padding-box", "content-box"), boxes("content-box padding-box", "border-box content-box", "padding-box border-box")}},
		}}
	if final {
		sp.parts = append(sp.parts, ppart{name: "color", classes: []pclass{kv("background-color", "red", "transparent", "currentcolor"), kv("background-color", "#a1b2c3", "rgb(1, 2, 3)")}})
	}
	return sp
}

// the literal initial values of the layered background longhands (css-backgrounds-3)
var bgInitial = map[string]string{"background-image": "none", "background-position": "0% 0%", "background-size": "auto", "background-repeat": "repeat",
	"background-attachment": "scroll", "background-origin": "padding-box", "background-clip": "border-box"}

// ---- shapes

// an ordered selection of components with a value class for each
type shape struct {
	parts   []int
	classes []int
}

func permutations(l []int) [][]int {
	if len(l) <= 1 {
		return [][]int{append([]int{}, l...)}
	}
	var out [][]int
	for i := range l {
		rest := append(append([]int{}, l[:i]...), l[i+1:]...)
		for _, p := range permutations(rest) {
			out = append(out, append([]int{l[i]}, p...))
		}
	}
	return out
}

func (sp *orSpec) randomShape(r *vlib.Rng, size int) shape {
	var free, mand, last []int
	for i, p := range sp.parts {
		switch {
		case p.last:
			last = append(last, i)
		case p.mandatory:
			mand = append(mand, i)
		default:
			free = append(free, i)
		}
	}
	for i := len(free) - 1; i > 0; i-- {
		j := r.Intn(i + 1)
		free[i], free[j] = free[j], free[i]
	}
	k := size - len(mand) - len(last)
	if k > len(free) {
		k = len(free)
	}
	if k < 0 {
		k = 0
	}
	sel := append(append([]int{}, mand...), free[:k]...)
	for i := len(sel) - 1; i > 0; i-- {
		j := r.Intn(i + 1)
		sel[i], sel[j] = sel[j], sel[i]
	}
	sel = append(sel, last...)
	sh := shape{parts: sel}
	for _, p := range sel {
		sh.classes = append(sh.classes, r.Intn(len(sp.parts[p].classes)))
	}
	return sh
}

// every shape of exactly `size` components, with every combination of classes
func (sp *orSpec) allShapes(size int) []shape {
	var free, mand, last []int
	for i, p := range sp.parts {
		switch {
		case p.last:
			last = append(last, i)
		case p.mandatory:
			mand = append(mand, i)
		default:
			free = append(free, i)
		}
	}
	k := size - len(mand) - len(last)
	if k < 0 || k > len(free) {
		return nil
	}
	var subsets [][]int
	var rec func(start int, cur []int)
	rec = func(start int, cur []int) {
		if len(cur) == k {
			subsets = append(subsets, append([]int{}, cur...))
			return
		}
		for i := start; i < len(free); i++ {
			rec(i+1, append(cur, free[i]))
		}
	}
	rec(0, nil)
	var out []shape
	for _, sub := range subsets {
		for _, perm := range permutations(append(append([]int{}, mand...), sub...)) {
			order := append(perm, last...)
			if len(order) == 0 {
				continue
			}
			// product of the classes
			idx := make([]int, len(order))
			for {
				out = append(out, shape{parts: append([]int{}, order...), classes: append([]int{}, idx...)})
				j := len(idx) - 1
				for j >= 0 {
					idx[j]++
					if idx[j] < len(sp.parts[order[j]].classes) {
						break
					}
					idx[j] = 0
					j--
				}
				if j < 0 {
					break
				}
			}
		}
	}
	return out
}

func shuffleShapes(r *vlib.Rng, l []shape) {
	for i := len(l) - 1; i > 0; i-- {
		j := r.Intn(i + 1)
		l[i], l[j] = l[j], l[i]
	}
}

// the shapes of one run: all of size 1 and 2 (up to the cap), then larger ones
func (sp *orSpec) runShapes(r *vlib.Rng) []shape {
	capN := sp.cap
	if capN == 0 {
		capN = 48
	}
	minSize := 0
	for _, p := range sp.parts {
		if p.mandatory || p.last {
			minSize++
		}
	}
	if minSize == 0 {
		minSize = 1
	}
	var out []shape
	small := 0
	for size := minSize; size <= minSize+1 && size <= len(sp.parts); size++ {
		l := sp.allShapes(size)
		shuffleShapes(r, l)
		quota := capN * 3 / 4
		if len(out)+len(l) > quota {
			l = l[:maxInt(0, quota-len(out))]
		}
		out = append(out, l...)
		small = size
	}
	// larger shapes: exhaustive when they fit, sampled otherwise
	var large []shape
	total := 0
	for size := small + 1; size <= len(sp.parts); size++ {
		l := sp.allShapes(size)
		total += len(l)
		if total > 4000 {
			large = nil
			break
		}
		large = append(large, l...)
	}
	room := capN - len(out)
	if small < len(sp.parts) {
		if large != nil && len(large) <= room {
			out = append(out, large...)
		} else if large != nil {
			shuffleShapes(r, large)
			out = append(out, large[:room]...)
		} else {
			for i := 0; i < room; i++ {
				out = append(out, sp.randomShape(r, r.Range(small+1, len(sp.parts))))
			}
		}
	}
	return out
}

func maxInt(a, b int) int {
	if a > b {
		return a
	}
	return b
}

// ---- from a shape to the pair

type written struct {
	chunks []pv
	names  []string // component names, in written order
}

func (sp *orSpec) instantiate(r *vlib.Rng, sh shape, ok func(pv) bool) (written, bool) {
	var w written
	for i, p := range sh.parts {
		cl := sp.parts[p].classes[sh.classes[i]]
		var usable []pv
		for _, v := range cl {
			if ok(v) {
				usable = append(usable, v)
			}
		}
		if len(usable) == 0 {
			return w, false
		}
		w.chunks = append(w.chunks, vlib.Pick(r, usable))
		w.names = append(w.names, sp.parts[p].name)
	}
	return w, true
}

func (w written) value() string {
	parts := make([]string, len(w.chunks))
	for i, c := range w.chunks {
		parts[i] = c.chunk
	}
	return strings.Join(parts, " ")
}

// the longhand declarations CSS assigns for the written shorthand value
func (sp *orSpec) meaning(w written) map[string]string {
	m := map[string]string{}
	for _, c := range w.chunks {
		for _, s := range c.sets {
			if old, ok := m[s[0]]; ok {
				m[s[0]] = old + " " + s[1]
			} else {
				m[s[0]] = s[1]
			}
		}
	}
	if sp.post != nil {
		sp.post(m, w.chunks)
	}
	for _, l := range sp.longs {
		if _, ok := m[l]; !ok {
			if v, ok := sp.omitted[l]; ok {
				m[l] = v
			} else {
				m[l] = "initial"
			}
		}
	}
	return m
}

func longhandAccepted(cache map[string]bool, long, value string) bool {
	k := long + ": " + value
	if v, ok := cache[k]; ok {
		return v
	}
	ds := validation.PreprocessDeclarations("http://verif.test/", pa.ParseBlocksContentsString(k))
	cache[k] = len(ds) >= 1
	return cache[k]
}

var ambiguousFirst = map[string]bool{"auto": true, "none": true, "normal": true, "0": true}

type permEmit func(kind, mode, prop string, tags []string, blockA, blockB, alt string, props []string)

// permCases emits the order stream; returns the number of pairs
func permCases(rng *vlib.Rng, emit permEmit) int {
	count := 0
	cache := map[string]bool{}
	skipped := 0
	usable := func(v pv) bool {
		for _, s := range v.sets {
			// a longhand value the implementation does not support at all is outside this stream
			// (the value table reports it): the stream is about ORDER
			if !longhandAccepted(cache, s[0], s[1]) {
				skipped++
				return false
			}
		}
		return true
	}
	for _, sp := range orSpecs() {
		sp := sp
		r := rng.Fork()
		if sp.self {
			shapes := sp.runShapes(r)
			shapes = append(append(append([]shape{}, shapes...), shapes...), shapes...)
			seen := map[string]bool{}
			for _, sh := range shapes {
				// canonical order = the order of the parts
				canon := shape{}
				idx := make([]int, len(sh.parts))
				for i := range idx {
					idx[i] = i
				}
				sort.Slice(idx, func(a, b int) bool { return sh.parts[idx[a]] < sh.parts[idx[b]] })
				same := true
				for i, j := range idx {
					canon.parts = append(canon.parts, sh.parts[j])
					canon.classes = append(canon.classes, sh.classes[j])
					if i != j {
						same = false
					}
				}
				if same {
					continue
				}
				w, _ := sp.instantiate(r, sh, func(pv) bool { return true })
				// same values, canonical order
				cw := written{}
				for _, j := range idx {
					cw.chunks = append(cw.chunks, w.chunks[j])
				}
				if seen[w.value()] {
					continue
				}
				seen[w.value()] = true
				if !longhandAccepted(cache, sp.prop, cw.value()) {
					skipped++
					continue // the canonical spelling is not supported: nothing to relate
				}
				tags := []string{"order", "first-" + w.names[0], fmt.Sprintf("n%d", len(w.chunks))}
				emit("meta-order", sp.mode, sp.prop, tags, sp.prop+": "+cw.value(), sp.prop+": "+w.value(), "", sp.longs)
				count++
			}
			continue
		}
		var prev map[string]string
		for _, sh := range sp.runShapes(r) {
			w, ok := sp.instantiate(r, sh, usable)
			if !ok {
				continue
			}
			m := sp.meaning(w)
			tags := []string{"perm", "first-" + w.names[0], fmt.Sprintf("n%d", len(w.chunks))}
			if ambiguousFirst[strings.Fields(w.chunks[0].chunk)[0]] {
				tags = append(tags, "ambiguous-first")
			}
			// The meaning (m) is built from VALUES; the shorthand text may spell every number another way
			// (0 = 0.0 = 0e0 = +0 = .0, 10px = 10.0px = 1e1px, 30% = 30.0%): half of the pairs.  Plain numbers
			// are left alone in chunks that set an <integer> longhand (column-count, font-weight).
			texts := make([]string, len(w.chunks))
			respell := r.Bool()
			for j, c := range w.chunks {
				texts[j] = c.chunk
				if respell {
					plain := true
					for _, st := range c.sets {
						if integerProps[st[0]] {
							plain = false
						}
					}
					spl := &spell{r: r, num: true, numPlain: plain}
					texts[j] = strings.TrimSpace(spl.render(valueTokens(sp.prop, c.chunk)))
				}
			}
			if strings.Join(texts, " ") != w.value() {
				tags = append(tags, "respelled")
			}
			short := sp.prop + ": " + strings.Join(texts, " ")
			a, b := short, joinDecls(m)
			switch k := r.Intn(8); {
			case k < 2 && len(w.chunks) >= 2:
				// one component through a custom property: the pending-shorthand path
				i := r.Intn(len(w.chunks))
				parts := append([]string{}, texts...)
				x := parts[i]
				parts[i] = "var(--x)"
				a = "--x: " + x + "; " + sp.prop + ": " + strings.Join(parts, " ")
				tags = append(tags, "via-var")
			case k < 4 && prev != nil:
				// after other longhand values: the shorthand resets every longhand it covers
				pre := joinDecls(prev)
				a, b = pre+"; "+a, pre+"; "+b
				tags = append(tags, "after-longhands")
			}
			prev = m
			emit("meta-shorthand", "computed", sp.prop, tags, a, b, "", sp.longs)
			count++
		}
	}
	// two background layers: every layer in its own order, the colour only in the final one
	{
		r := rng.Fork()
		l1, l2 := bgSpec(false), bgSpec(true)
		for i := 0; i < 24; i++ {
			w1, ok1 := l1.instantiate(r, l1.randomShape(r, r.Range(1, 4)), usable)
			w2, ok2 := l2.instantiate(r, l2.randomShape(r, r.Range(1, 4)), usable)
			if !ok1 || !ok2 {
				continue
			}
			m1, m2 := l1.meaning(w1), l2.meaning(w2)
			m := map[string]string{}
			for _, l := range l2.longs {
				if l == "background-color" {
					m[l] = m2[l]
					continue
				}
				v1, v2 := m1[l], m2[l]
				if v1 == "initial" {
					v1 = bgInitial[l]
				}
				if v2 == "initial" {
					v2 = bgInitial[l]
				}
				m[l] = v1 + ", " + v2
			}
			tags := []string{"perm", "layers", "first-" + w1.names[0], fmt.Sprintf("n%d", len(w1.chunks)+len(w2.chunks))}
			emit("meta-shorthand", "computed", "background", tags, "background: "+w1.value()+", "+w2.value(), joinDecls(m), "", l2.longs)
			count++
		}
	}
	if os.Getenv("C08_SHOW_REJECTED") != "" {
		var l []string
		for k, v := range cache {
			if !v {
				l = append(l, k)
			}
		}
		sort.Strings(l)
		for _, k := range l {
			fmt.Fprintln(os.Stderr, "  perm: not supported:", k)
		}
	}
	fmt.Fprintf(os.Stderr, "c08 perm: %d order pairs (%d component values not supported as longhand values)\n", count, skipped)
	return count
}
