package main

// Metamorphic stream (impl-vs-impl): a valid declaration must mean the same
// in every spelling.  Each pair is two declaration blocks A (canonical) and B
// (variant) with an observable that the property says must be equal:
//   decl mode     : validation.PreprocessDeclarations output, as a sorted
//                   canonical list "name=typed value!important"
//   computed mode : the computed style of a probe element for the longhands
//                   the declaration sets
// The Coq side only compares the two 60-bit digests (check code 6); the full
// observables are in the case description.

import (
	"fmt"
	"hash/fnv"
	"os"
	"reflect"
	"regexp"
	"sort"
	"strings"

	"verifharness/vlib"

	pa "github.com/benoitkugler/webrender/css/parser"
	pr "github.com/benoitkugler/webrender/css/properties"
	"github.com/benoitkugler/webrender/css/validation"
)

var posRe = regexp.MustCompile(`pos:parser\.Pos\{Line:\d+, Column:\d+\}`)

func canonValue(v interface{}) string {
	if rt, ok := v.(pr.RawTokens); ok {
		return "pending[" + strings.ToLower(pa.Serialize(pa.RemoveWhitespace(rt))) + "]"
	}
	return posRe.ReplaceAllString(fmt.Sprintf("%#v", v), "pos")
}

// canonSet: a slice / array typed value printed with its members sorted
func canonSet(v interface{}) string {
	rv := reflect.ValueOf(v)
	if rv.Kind() != reflect.Slice && rv.Kind() != reflect.Array {
		return canonValue(v)
	}
	l := make([]string, rv.Len())
	for i := range l {
		l[i] = canonValue(rv.Index(i).Interface())
	}
	sort.Strings(l)
	return fmt.Sprintf("%T{%s}", v, strings.Join(l, ", "))
}

func declObservable(block string) string { return declObservableWith(block, canonValue) }

func declObservableWith(block string, canonValue func(interface{}) string) string {
	ds := validation.PreprocessDeclarations("http://verif.test/", pa.ParseBlocksContentsString(block))
	// cascade within the block: last wins, important beats normal
	type ent struct {
		val string
		imp bool
	}
	m := map[string]ent{}
	for _, d := range ds {
		name := d.Name.String()
		if old, ok := m[name]; ok && old.imp && !d.Important {
			continue
		}
		m[name] = ent{canonValue(d.Value), d.Important}
	}
	keys := make([]string, 0, len(m))
	for k := range m {
		keys = append(keys, k)
	}
	sort.Strings(keys)
	var sb strings.Builder
	for _, k := range keys {
		fmt.Fprintf(&sb, "%s=%s", k, m[k].val)
		if m[k].imp {
			sb.WriteString("!important")
		}
		sb.WriteString("\n")
	}
	return sb.String()
}

func computedObservable(block string, props []string) string {
	_, ps, err := styleOf("--inh: 7px", block)
	if err != nil {
		return "ERR " + err.Error()
	}
	var sb strings.Builder
	for _, name := range props {
		func() {
			defer func() {
				if r := recover(); r != nil {
					fmt.Fprintf(&sb, "%s=PANIC\n", name)
				}
			}()
			k := pr.PropsFromNames[name].Key()
			fmt.Fprintf(&sb, "%s=%s\n", name, canonValue(ps.Get(k)))
		}()
	}
	return sb.String()
}

// worker side: Parent = mode, Block = A, Value = B
func metaObserve(in wIn) string {
	if in.Parent == "computed" {
		out := computedObservable(in.Block, in.Props) + "\x00" + computedObservable(in.Value, in.Props)
		if in.Alt != "" {
			out += "\x00" + computedObservable(in.Alt, in.Props)
		}
		return out
	}
	if in.Parent == "decl-set" {
		return declObservableWith(in.Block, canonSet) + "\x00" + declObservableWith(in.Value, canonSet)
	}
	return declObservable(in.Block) + "\x00" + declObservable(in.Value)
}

func digest(s string) uint64 {
	h := fnv.New64a()
	h.Write([]byte(s))
	return h.Sum64() >> 4
}

// ---- bases

type base struct {
	prop, value string
	names       []string // longhands set by the declaration
}

func (b base) decl() string { return b.prop + ": " + b.value }

func valueTokens(prop, value string) []pa.Token {
	for _, c := range pa.ParseBlocksContentsString(prop + ": " + value) {
		if d, ok := c.(pa.Declaration); ok {
			return d.Value
		}
	}
	return nil
}

func validBases() (out []base, rejected []string) {
	props := make([]string, 0, len(valueTable))
	for p := range valueTable {
		props = append(props, p)
	}
	sort.Strings(props)
	for _, p := range props {
		for _, v := range valueTable[p] {
			ds := validation.PreprocessDeclarations("http://verif.test/", pa.ParseBlocksContentsString(p+": "+v))
			if len(ds) == 0 {
				rejected = append(rejected, p+": "+v)
				continue
			}
			b := base{prop: p, value: v}
			for _, d := range ds {
				b.names = append(b.names, d.Name.String())
			}
			out = append(out, b)
		}
	}
	return out, rejected
}

// ---- spelling variants (rendered from the token tree)

type spell struct {
	r        *vlib.Rng
	flipCase bool
	ws       bool
	num      bool // re-spell the numeric part of dimensions and percentages (10px = 10.0px = 1e1px = +10px)
	numPlain bool // ... and of top-level <number> tokens (never set for <integer> positions, see integerProps)
}

// Properties whose grammar has an <integer> (or a number /repo's documented grammar restricts to integers)
// somewhere: `1.0` is legitimately invalid there, so plain numbers are never re-spelled in their values
// (dimensions and percentages still are).  Everything else takes <number> / <length> zero, for which
// 0 = 0.0 = 0e0 = +0 = .0 and 1 = 1.0 = 1e0 = +1 (css-values-4 4.2/4.3: the spelling is not the value).
var integerProps = map[string]bool{"z-index": true, "order": true, "orphans": true, "widows": true,
	"column-count": true, "columns": true, "font-weight": true, "font": true,
	"counter-increment": true, "counter-reset": true, "counter-set": true,
	"font-feature-settings": true, "font-variation-settings": true, "font-variant": true, "font-variant-alternates": true,
	"hyphenate-limit-chars": true, "max-lines": true, "line-clamp": true, "block-ellipsis": true, "continue": true,
	"image-resolution": true, "string-set": true, "content": true, "bookmark-level": true, "bookmark-label": true,
	"footnote-policy": true, "footnote-display": true, "tab-size": true, "initial-letter": true,
	"page": true, "size": true, "marks": true, "anchor": true, "link": true, "lang": true, "quotes": true}

func numberRespellable(prop string) bool {
	return !integerProps[prop] && !strings.HasPrefix(prop, "grid") && !strings.HasPrefix(prop, "--")
}

// respellNumber: another spelling of the same numeric value.  `text` is the number as written
// ([+-]? digits [. digits]? without exponent: the tables of this harness never use exponents; a
// text with an exponent is returned unchanged).  prev = the byte written just before (a sign is
// only added after whitespace, `(` or `,`: `a+1` and `a +1` tokenize differently).
// `-0` is never produced: the float value -0 prints differently from 0 without meaning anything else.
func respellNumber(r *vlib.Rng, text string, prev byte) string {
	if strings.ContainsAny(text, "eE") || text == "" {
		return text
	}
	sign, body := "", text
	if body[0] == '+' || body[0] == '-' {
		sign, body = body[:1], body[1:]
	}
	hasDot := strings.Contains(body, ".")
	var opts []string
	if hasDot {
		opts = append(opts, sign+body+"0", sign+body+"e0", sign+body+"E+0", sign+body+"00e-0")
		if strings.HasPrefix(body, "0.") {
			opts = append(opts, sign+body[1:])
		} else if strings.HasPrefix(body, ".") {
			opts = append(opts, sign+"0"+body, sign+"00"+body)
		}
	} else {
		opts = append(opts, sign+body+".0", sign+body+".00", sign+body+"e0", sign+body+"E0", sign+body+"e+0", sign+body+".0e-0", sign+"0"+body)
		if body == "0" {
			opts = append(opts, sign+".0", sign+".00", sign+"0e3", sign+"0.0e1")
		} else if strings.HasSuffix(body, "0") {
			opts = append(opts, sign+body[:len(body)-1]+"e1", sign+body[:len(body)-1]+".0e+1")
		} else {
			opts = append(opts, sign+body+"0e-1")
		}
	}
	out := vlib.Pick(r, opts)
	if sign == "" && (prev == ' ' || prev == '(' || prev == ',' || prev == 0 || prev == '\n' || prev == '\t') && r.Chance(1, 4) {
		out = "+" + out
	}
	return out
}

func lastByte(sb *strings.Builder) byte {
	s := sb.String()
	if s == "" {
		return 0
	}
	return s[len(s)-1]
}

func flip(r *vlib.Rng, s string) string {
	b := []byte(s)
	all := r.Chance(1, 3)
	for i := range b {
		if b[i] >= 'a' && b[i] <= 'z' && (all || r.Bool()) {
			b[i] -= 32
		}
	}
	return string(b)
}

// identifiers that are names rather than keywords: author-defined ones, and
// (documented exclusions, see notes/C08.md) generic font families and
// predefined counter style names, which /repo keeps as written
var nameIdents = map[string]bool{"serif": true, "sans-serif": true, "monospace": true, "cursive": true, "fantasy": true,
	"disc": true, "circle": true, "square": true, "decimal": true, "decimal-leading-zero": true, "lower-roman": true,
	"upper-roman": true, "lower-alpha": true, "upper-latin": true, "lower-greek": true}

func isAuthorIdent(v string) bool {
	return strings.HasPrefix(v, "my") || strings.HasPrefix(v, "--") || nameIdents[v]
}

func (sp *spell) wsText() string {
	if !sp.ws {
		return " "
	}
	return vlib.Pick(sp.r, []string{" ", "  ", " /**/ ", "/* c */ ", "\n", " /*a*//*b*/", "\t "})
}

func (sp *spell) pad() string {
	if sp.ws && sp.r.Chance(1, 3) {
		return vlib.Pick(sp.r, []string{" ", "/**/", " /* c */ "})
	}
	return ""
}

func (sp *spell) render(ts []pa.Token) string {
	var sb strings.Builder
	for _, t := range ts {
		switch t := t.(type) {
		case pa.Whitespace:
			sb.WriteString(sp.wsText())
		case pa.Ident:
			if sp.flipCase && !isAuthorIdent(t.Value) {
				sb.WriteString(flip(sp.r, pa.Serialize([]pa.Token{t})))
			} else {
				sb.WriteString(pa.Serialize([]pa.Token{t}))
			}
		case pa.Dimension:
			s := pa.Serialize([]pa.Token{t})
			if sp.num && strings.HasPrefix(s, t.Value) && s[len(t.Value):] == t.Unit && !strings.HasPrefix(strings.ToLower(t.Unit), "e") {
				// (units starting with e: `1e0em` is fine but keep clear of the exponent ambiguity altogether,
				// except for the decimal spellings which cannot be read as exponents)
				s = respellNumber(sp.r, t.Value, lastByte(&sb)) + t.Unit
			} else if sp.num && strings.HasPrefix(s, t.Value) && s[len(t.Value):] == t.Unit && !strings.ContainsAny(t.Value, ".eE") {
				s = t.Value + vlib.Pick(sp.r, []string{".0", ".00"}) + t.Unit
			}
			if sp.flipCase {
				n := len(s) - len(t.Unit)
				s = s[:n] + flip(sp.r, s[n:])
			}
			sb.WriteString(s)
		case pa.Percentage:
			if sp.num {
				sb.WriteString(respellNumber(sp.r, t.Value, lastByte(&sb)) + "%")
			} else {
				sb.WriteString(pa.Serialize([]pa.Token{t}))
			}
		case pa.Number:
			if sp.num && sp.numPlain {
				sb.WriteString(respellNumber(sp.r, t.Value, lastByte(&sb)))
			} else {
				sb.WriteString(pa.Serialize([]pa.Token{t}))
			}
		case pa.Hash:
			if sp.flipCase {
				sb.WriteString(flip(sp.r, pa.Serialize([]pa.Token{t})))
			} else {
				sb.WriteString(pa.Serialize([]pa.Token{t}))
			}
		case pa.URL:
			s := pa.Serialize([]pa.Token{t})
			if sp.flipCase && strings.HasPrefix(s, "url(") {
				s = flip(sp.r, "url") + s[3:]
			}
			sb.WriteString(s)
		case pa.FunctionBlock:
			name := t.Name
			if sp.flipCase {
				name = flip(sp.r, name)
			}
			if strings.ToLower(t.Name) == "attr" { // attribute names are not keywords
				inner := &spell{r: sp.r, ws: sp.ws, num: sp.num}
				sb.WriteString(name + "(" + sp.pad() + inner.render(t.Arguments) + sp.pad() + ")")
			} else {
				// plain numbers inside functions are not re-spelled: rgb(255 ...) / hsl() / steps() / repeat()
				// have integer-only or legacy-integer positions
				inner := *sp
				inner.numPlain = false
				sb.WriteString(name + "(" + sp.pad() + inner.render(t.Arguments) + sp.pad() + ")")
			}
		case pa.ParenthesesBlock:
			sb.WriteString("(" + sp.render(t.Arguments) + ")")
		case pa.SquareBracketsBlock:
			sb.WriteString("[" + sp.pad() + sp.render(t.Arguments) + sp.pad() + "]")
		case pa.Literal:
			if t.Value == "," {
				sb.WriteString(sp.pad() + "," + sp.pad())
			} else {
				sb.WriteString(pa.Serialize([]pa.Token{t}))
			}
		default:
			sb.WriteString(pa.Serialize([]pa.Token{t}))
		}
	}
	return sb.String()
}

// ---- shorthand -> the longhands CSS assigns

func topTokens(prop, value string) []string {
	var out []string
	for _, t := range pa.RemoveWhitespace(valueTokens(prop, value)) {
		out = append(out, pa.Serialize([]pa.Token{t}))
	}
	return out
}

func inList(x string, l []string) bool {
	for _, y := range l {
		if x == y {
			return true
		}
	}
	return false
}

func fourNames(prop string) []string {
	out := make([]string, 4)
	for i, sd := range sides {
		if j := strings.LastIndex(prop, "-"); j >= 0 {
			out[i] = prop[:j] + "-" + sd + prop[j:]
		} else {
			out[i] = prop + "-" + sd
		}
	}
	return out
}

func isWidthTok(t string) bool {
	return inList(t, []string{"thin", "medium", "thick"}) || (len(t) > 0 && (t[0] >= '0' && t[0] <= '9' || t[0] == '.'))
}

func sideParts(prefix string, toks []string, styles []string) (map[string]string, bool) {
	m := map[string]string{}
	for _, t := range toks {
		var k string
		switch {
		case isWidthTok(t):
			k = prefix + "-width"
		case inList(t, styles):
			k = prefix + "-style"
		default:
			k = prefix + "-color"
		}
		if _, dup := m[k]; dup {
			return nil, false
		}
		m[k] = t
	}
	for _, sfx := range []string{"-width", "-style", "-color"} {
		if _, ok := m[prefix+sfx]; !ok {
			m[prefix+sfx] = "initial"
		}
	}
	return m, true
}

func joinDecls(m map[string]string) string {
	keys := make([]string, 0, len(m))
	for k := range m {
		keys = append(keys, k)
	}
	sort.Strings(keys)
	parts := make([]string, len(keys))
	for i, k := range keys {
		parts[i] = k + ": " + m[k]
	}
	return strings.Join(parts, "; ")
}

// longhandsOf returns the block of longhand declarations a shorthand
// declaration is defined to be equivalent to (CSS 2.1 / css-backgrounds /
// css-flexbox / css-multicol / css-grid shorthand definitions).
func longhandsOf(prop, value string) (string, bool) {
	toks := topTokens(prop, value)
	if len(toks) == 0 || inList(value, []string{"inherit", "initial"}) {
		return "", false
	}
	switch prop {
	case "margin", "padding", "bleed", "border-color", "border-style", "border-width":
		var four []string
		switch len(toks) {
		case 1:
			four = []string{toks[0], toks[0], toks[0], toks[0]}
		case 2:
			four = []string{toks[0], toks[1], toks[0], toks[1]}
		case 3:
			four = []string{toks[0], toks[1], toks[2], toks[1]}
		case 4:
			four = toks
		default:
			return "", false
		}
		m := map[string]string{}
		for i, n := range fourNames(prop) {
			m[n] = four[i]
		}
		return joinDecls(m), true
	case "border":
		all := map[string]string{}
		for _, sd := range sides {
			m, ok := sideParts("border-"+sd, toks, borderStyleVals)
			if !ok {
				return "", false
			}
			for k, v := range m {
				all[k] = v
			}
		}
		return joinDecls(all), true
	case "border-top", "border-right", "border-bottom", "border-left", "outline", "column-rule":
		m, ok := sideParts(prop, toks, borderStyleVals)
		if !ok {
			return "", false
		}
		return joinDecls(m), true
	case "flex-flow":
		m := map[string]string{"flex-direction": "initial", "flex-wrap": "initial"}
		for _, t := range toks {
			if inList(t, []string{"row", "row-reverse", "column", "column-reverse"}) {
				m["flex-direction"] = t
			} else {
				m["flex-wrap"] = t
			}
		}
		return joinDecls(m), true
	case "columns":
		m := map[string]string{"column-width": "initial", "column-count": "initial"}
		for _, t := range toks {
			if t == "auto" {
				return "", false
			}
			if strings.IndexAny(t, "abcdefghijklmnopqrstuvwxyz") >= 0 {
				m["column-width"] = t
			} else {
				m["column-count"] = t
			}
		}
		return joinDecls(m), true
	case "text-decoration":
		m := map[string]string{"text-decoration-line": "initial", "text-decoration-style": "initial", "text-decoration-color": "initial"}
		var lines []string
		for _, t := range toks {
			switch {
			case inList(t, []string{"none", "underline", "overline", "line-through", "blink"}):
				lines = append(lines, t)
			case inList(t, []string{"solid", "double", "dotted", "dashed", "wavy"}):
				m["text-decoration-style"] = t
			default:
				m["text-decoration-color"] = t
			}
		}
		if len(lines) > 0 {
			m["text-decoration-line"] = strings.Join(lines, " ")
		}
		return joinDecls(m), true
	case "word-wrap":
		return "overflow-wrap: " + value, true
	case "page-break-after", "page-break-before":
		v := value
		if v == "always" {
			v = "page"
		}
		return strings.TrimPrefix(prop, "page-") + ": " + v, true
	case "page-break-inside":
		return "break-inside: " + value, true
	case "grid-column", "grid-row":
		parts := strings.Split(value, " / ")
		if len(parts) != 2 {
			return "", false
		}
		return prop + "-start: " + parts[0] + "; " + prop + "-end: " + parts[1], true
	case "grid-area":
		m, ok := gridAreaLonghands(value)
		if !ok {
			return "", false
		}
		return joinDecls(m), true
	case "flex":
		if len(toks) != 3 {
			return "", false
		}
		return "flex-grow: " + toks[0] + "; flex-shrink: " + toks[1] + "; flex-basis: " + toks[2], true
	// text-align is not compared: /repo (like WeasyPrint) sets text-align-last to
	// the same keyword instead of `auto`; same rendering, different longhand.
	case "list-style":
		m := map[string]string{"list-style-type": "initial", "list-style-position": "initial", "list-style-image": "initial"}
		for _, t := range toks {
			switch {
			case t == "none":
				return "", false
			case inList(t, []string{"inside", "outside"}):
				m["list-style-position"] = t
			case strings.HasPrefix(t, "url("):
				m["list-style-image"] = t
			default:
				m["list-style-type"] = t
			}
		}
		return joinDecls(m), true
	case "border-radius":
		halves := strings.Split(value, " / ")
		h := strings.Fields(halves[0])
		v := h
		if len(halves) == 2 {
			v = strings.Fields(halves[1])
		}
		ex := func(l []string) []string {
			switch len(l) {
			case 1:
				return []string{l[0], l[0], l[0], l[0]}
			case 2:
				return []string{l[0], l[1], l[0], l[1]}
			case 3:
				return []string{l[0], l[1], l[2], l[1]}
			}
			return l
		}
		h, v = ex(h), ex(v)
		if len(h) != 4 || len(v) != 4 {
			return "", false
		}
		m := map[string]string{}
		for i, c := range []string{"top-left", "top-right", "bottom-right", "bottom-left"} {
			m["border-"+c+"-radius"] = h[i] + " " + v[i]
		}
		return joinDecls(m), true
	case "font":
		if value == "italic small-caps bold condensed 16px/2 cursive" {
			return "font-style: italic; font-variant-caps: small-caps; font-weight: bold; font-stretch: condensed; font-size: 16px; line-height: 2; font-family: cursive", true
		}
	}
	return "", false
}

// css-grid-1 8.4: grid-area = <grid-line> [ / <grid-line> ]{0,3} is row-start / column-start / row-end /
// column-end; an omitted line is the <custom-ident> of its opposite / of row-start, else `auto`.
func gridAreaLonghands(value string) (map[string]string, bool) {
	parts := strings.Split(value, " / ")
	if len(parts) < 1 || len(parts) > 4 {
		return nil, false
	}
	from := func(p string) string { // the value an omitted line takes from line p
		if strings.HasPrefix(p, "my") && !strings.Contains(p, " ") {
			return p
		}
		return "auto"
	}
	rs := parts[0]
	cs, re, ce := from(rs), from(rs), ""
	if len(parts) >= 2 {
		cs = parts[1]
	}
	if len(parts) >= 3 {
		re = parts[2]
	}
	if len(parts) == 4 {
		ce = parts[3]
	} else {
		ce = from(cs)
	}
	return map[string]string{"grid-row-start": rs, "grid-column-start": cs, "grid-row-end": re, "grid-column-end": ce}, true
}

// the ONE known wrong mapping of grid-area (known finding C08/grid-area-order): the second and third
// lines are taken as row-end / column-start instead of column-start / row-end
func gridAreaSwapped(value string) string {
	m, ok := gridAreaLonghands(value)
	if !ok {
		return ""
	}
	parts := strings.Split(value, " / ")
	if len(parts) == 2 { // a / b: row-end := b, column-start := what row-start gives
		m["grid-row-end"], m["grid-column-start"] = parts[1], m["grid-row-end"]
		return joinDecls(m)
	}
	m["grid-row-end"], m["grid-column-start"] = m["grid-column-start"], m["grid-row-end"]
	return joinDecls(m)
}

// ---- pairs

var badNeighbours = []string{"colour: red", "margin-middle: 1px", "-moz-foo: 1", "foo: bar baz", "azimuth: left", "-weasy-nope: 1",
	"margin-top: red", "color: 12px", "padding: -1px", "display: sideways", "border: 1px 2px", "width: -bogus(1)", "margin:", "--ok: 1"}

func metaCases(rng *vlib.Rng, n int, corpus [][4]string, unsupported map[string]bool, add func(in wIn, build func(wo wOut, status int, fatal string) []vlib.Case)) int {
	bases, rejected := validBases()
	covered := map[string]bool{}
	for _, b := range bases {
		covered[b.prop] = true
	}
	fmt.Fprintf(os.Stderr, "c08 meta: %d valid bases over %d properties/shorthands; %d table entries rejected by the validators\n", len(bases), len(covered), len(rejected))
	if os.Getenv("C08_SHOW_REJECTED") != "" {
		for _, r := range rejected {
			fmt.Fprintln(os.Stderr, "  rejected:", r)
		}
	}
	if len(bases) == 0 {
		return 0
	}
	var shorthandBases []base
	for _, b := range bases {
		if _, ok := longhandsOf(b.prop, b.value); ok {
			shorthandBases = append(shorthandBases, b)
		}
	}
	count := 0
	// alt (optional, computed mode): a third block; when the two observables differ and the canonical
	// one equals the observable of alt the case is tagged `equals-alt` (used to recognise ONE known
	// wrong mapping exactly, see grid-area)
	emitT := func(kind, mode, prop string, tags []string, blockA, blockB, alt string, props []string) {
		count++
		add(wIn{Kind: "meta", Parent: mode, Block: blockA, Value: blockB, Alt: alt, Props: props},
			func(wo wOut, status int, fatal string) []vlib.Case {
				oa, ob := "", ""
				tg := append([]string{"prop-" + prop}, tags...)
				if status == 0 {
					parts := strings.Split(wo.Meta, "\x00")
					if len(parts) >= 2 {
						oa, ob = parts[0], parts[1]
					}
					if len(parts) == 3 && oa != ob && oa == parts[2] {
						tg = append(tg, "equals-alt")
					}
				} else {
					oa, ob = "worker ok expected", "worker "+fatal
				}
				desc := map[string]interface{}{"mode": mode, "canonical": blockA, "variant": blockB,
					"observable_canonical": truncate(oa, 1500), "observable_variant": truncate(ob, 1500)}
				if alt != "" {
					desc["alt"] = alt
				}
				return []vlib.Case{{Kind: kind,
					Coq:  fmt.Sprintf("CMeta %d %d", digest(oa), digest(ob)),
					Desc: desc,
					Tags: tg, Nontrivial: true, Key: kind + "|" + blockA + "|" + blockB}}
			})
	}
	emit := func(kind, mode string, b base, blockA, blockB string, props []string) {
		emitT(kind, mode, b.prop, nil, blockA, blockB, "", props)
	}
	for _, c := range corpus {
		var props []string
		if c[3] != "" {
			props = strings.Split(c[3], ",")
		}
		emit("meta-corpus", c[0], base{prop: "corpus"}, c[1], c[2], props)
	}
	// a table entry (valid CSS) the implementation drops, and that is not a documented unsupported
	// value (corpus/C08/unsupported.tsv): a valid declaration is lost
	for _, rj := range rejected {
		if unsupported[rj] {
			continue
		}
		prop := strings.SplitN(rj, ":", 2)[0]
		count++
		rj := rj
		add(wIn{Kind: "meta", Parent: "decl", Block: rj, Value: rj},
			func(wo wOut, status int, fatal string) []vlib.Case {
				oa, ob := "accepted (valid CSS: value table of go/cmd/c08/grammar.go)", "dropped: "+strings.SplitN(wo.Meta, "\x00", 2)[0]
				return []vlib.Case{{Kind: "meta-accept", Coq: fmt.Sprintf("CMeta %d %d", digest(oa), digest(ob)),
					Desc: map[string]interface{}{"declaration": rj, "expected": oa, "implementation": ob},
					Tags: []string{"prop-" + prop}, Nontrivial: true, Key: "meta-accept|" + rj}}
			})
	}
	// the grammar-driven order stream (perm.go): systematic, before the random variants
	permCases(rng.Fork(), emitT) // emitT counts
	for i := 0; count < n && i < 4*n; i++ {
		r := rng.Fork()
		// every base is visited round-robin, the variant kind is random
		b := bases[i%len(bases)]
		if i >= len(bases) {
			b = bases[r.Intn(len(bases))]
		}
		toks := valueTokens(b.prop, b.value)
		canon := b.decl()
		switch r.Intn(11) {
		case 9, 10: // number spellings: the same values written 0 / 0.0 / 0e0 / +0 / .0, 10px / 10.0px / 1e1px, 50% / 50.0%
			if strings.HasPrefix(b.prop, "--") {
				continue
			}
			sp := &spell{r: r, num: true, numPlain: numberRespellable(b.prop)}
			rendered := sp.render(toks)
			if rendered == (&spell{r: r}).render(toks) {
				continue // no numeric token to re-spell in this value
			}
			v := b.prop + ": " + strings.TrimSpace(rendered)
			if r.Chance(1, 4) { // together with case / whitespace noise
				sp.flipCase, sp.ws = r.Bool(), r.Bool()
				v = b.prop + ": " + sp.render(toks)
			}
			tags := []string{"respelled"}
			if sp.numPlain {
				tags = append(tags, "plain-numbers")
			}
			emitT("meta-num", "decl", b.prop, tags, canon, v, "", nil)
		case 0, 1: // case
			sp := &spell{r: r, flipCase: true}
			name := b.prop
			if r.Chance(2, 3) {
				name = flip(r, name)
			}
			v := name + ":" + sp.render(toks)
			if r.Chance(1, 4) {
				v += " !IMPORTANT"
				canon += " !important"
			}
			emit("meta-case", "decl", b, canon, v, nil)
		case 2, 3: // whitespace / comments
			sp := &spell{r: r, ws: true}
			v := sp.pad() + b.prop + sp.pad() + ":" + sp.pad() + sp.render(toks) + sp.pad()
			if r.Chance(1, 3) {
				sp.flipCase = true
				v = sp.pad() + b.prop + sp.pad() + ":" + sp.pad() + sp.render(toks) + sp.pad()
			}
			emit("meta-ws", "decl", b, canon, v, nil)
		case 4: // shorthand vs longhands
			sb := shorthandBases[r.Intn(len(shorthandBases))]
			if lh, ok := longhandsOf(sb.prop, sb.value); ok {
				alt := ""
				if sb.prop == "grid-area" {
					alt = gridAreaSwapped(sb.value)
				}
				emitT("meta-shorthand", "computed", sb.prop, nil, sb.decl(), lh, alt, sb.names)
			}
		case 5, 6: // var()
			top := pa.RemoveWhitespace(toks)
			ser := func(ts []pa.Token) string {
				parts := make([]string, len(ts))
				for i, t := range ts {
					parts[i] = pa.Serialize([]pa.Token{t})
				}
				return strings.Join(parts, " ")
			}
			var v string
			pick := r.Intn(6)
			for _, t := range top {
				if pa.IsLiteral(t, ",") && r.Bool() { // comma-separated lists: the fallback must keep its commas
					pick = 1
				}
			}
			switch pick {
			case 0:
				v = "--x: " + b.value + "; " + b.prop + ": var(--x)"
			case 1:
				v = b.prop + ": var(--undefined, " + b.value + ")"
			case 2:
				v = b.prop + ": VAR( --x ); --y: " + b.value + "; --x: var(--y)"
			case 3:
				if len(top) >= 2 {
					k := r.Range(1, len(top)-1)
					v = "--x: " + ser(top[k:]) + "; " + b.prop + ": " + ser(top[:k]) + " var(--x)"
				}
			case 4:
				if len(top) >= 2 {
					k := r.Range(1, len(top)-1)
					v = "--x: " + ser(top[:k]) + "; " + b.prop + ": var(--x) " + ser(top[k:])
				}
			default:
				v = "--x: var(--x); --y: " + b.value + "; " + b.prop + ": var(--y, var(--x))"
			}
			if v != "" {
				emit("meta-var", "computed", b, canon, v, b.names)
			}
		default: // invalid / unknown neighbours
			bad := func() string { return vlib.Pick(r, badNeighbours) }
			var v string
			switch r.Intn(5) {
			case 0:
				v = bad() + "; " + canon
			case 1:
				v = canon + "; " + bad()
			case 2:
				v = bad() + "; " + canon + "; " + bad() + "; " + bad()
			case 3: // the classic fallback pattern: a later invalid value does not clobber
				v = canon + "; " + b.prop + ": -bogus-value(1) junk"
			default:
				v = b.prop + ": -bogus-value(1) junk; " + canon
			}
			if strings.Contains(v, "--ok") {
				canon2 := canon + "; --ok: 1"
				emit("meta-bad", "decl", b, canon2, v, nil)
			} else {
				emit("meta-bad", "decl", b, canon, v, nil)
			}
		}
	}
	return count
}
