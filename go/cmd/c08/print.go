package main

import (
	"fmt"
	"math"
	"sort"
	"strings"

	"verifharness/vlib"

	pa "github.com/benoitkugler/webrender/css/parser"
	pr "github.com/benoitkugler/webrender/css/properties"
	"github.com/benoitkugler/webrender/css/validation"
)

// ---- Coq printers (types of coq/theories/Css/DeclTok.v, Decl.v, Check/C08.v)

type unprintable struct{ why string }

// strings are byte lists on the Coq side; printable ASCII goes through the
// string literal (much faster to parse than a list of numerals)
func str(s string) string {
	if s == "" {
		return "[]"
	}
	for i := 0; i < len(s); i++ {
		if s[i] < 32 || s[i] > 126 {
			return vlib.Bytes(s)
		}
	}
	return "(s \"" + strings.ReplaceAll(s, "\"", "\"\"") + "\")"
}

func q(x float32) string {
	if math.IsNaN(float64(x)) || math.IsInf(float64(x), 0) {
		panic(unprintable{"non finite number"})
	}
	return vlib.Q32(x)
}

func coqTok(t pa.Token) string {
	switch t := t.(type) {
	case pa.Ident:
		return "(TIdent " + str(t.Value) + ")"
	case pa.Literal:
		return "(TLit " + str(t.Value) + ")"
	case pa.Whitespace:
		return "TWs"
	case pa.Comment:
		return "TComment"
	case pa.Hash:
		return "(THash " + str(t.Value) + ")"
	case pa.String:
		return "(TStr " + str(t.Value) + ")"
	case pa.URL:
		return "(TUrl " + str(t.Value) + ")"
	case pa.Number:
		return fmt.Sprintf("(TNum %s %s)", q(float32(t.ValueF)), vlib.Bool(t.IsInt()))
	case pa.Percentage:
		return fmt.Sprintf("(TPerc %s %s)", q(float32(t.ValueF)), vlib.Bool(t.IsInt()))
	case pa.Dimension:
		return fmt.Sprintf("(TDim %s %s %s)", q(float32(t.ValueF)), vlib.Bool(t.IsInt()), str(t.Unit))
	case pa.FunctionBlock:
		return "(TFunc " + str(t.Name) + " " + coqToks(t.Arguments) + ")"
	case pa.ParenthesesBlock:
		return "(TBlock 0 " + coqToks(t.Arguments) + ")"
	case pa.SquareBracketsBlock:
		return "(TBlock 1 " + coqToks(t.Arguments) + ")"
	case pa.CurlyBracketsBlock:
		return "(TBlock 2 " + coqToks(t.Arguments) + ")"
	case pa.AtKeyword:
		return "(TOther 5)"
	case pa.UnicodeRange:
		return "(TOther 9)"
	case pa.ParseError:
		return "(TOther 1)"
	default:
		panic(unprintable{fmt.Sprintf("token %T", t)})
	}
}

func coqToks(ts []pa.Token) string {
	l := make([]string, len(ts))
	for i, t := range ts {
		l[i] = coqTok(t)
	}
	return vlib.List(l)
}

func coqColor(c pa.Color) string {
	switch c.Type {
	case pa.ColorCurrentColor:
		return "CCurrent"
	case pa.ColorRGBA:
		return fmt.Sprintf("(CRgba %s %s %s %s)", q(float32(c.RGBA.R)), q(float32(c.RGBA.G)), q(float32(c.RGBA.B)), q(float32(c.RGBA.A)))
	default:
		return "CNone"
	}
}

func coqValue(v interface{}) string {
	switch v := v.(type) {
	case pr.DefaultValue:
		if v == pr.Initial {
			return "VInitial"
		}
		return "VInherit"
	case pr.RawTokens:
		return "(VRaw " + coqToks(v) + ")"
	case pr.DimOrS:
		if v.S != "" {
			return "(VKw " + str(v.S) + ")"
		}
		return fmt.Sprintf("(VDim %s %d)", q(float32(v.Value)), v.Unit)
	case pr.String:
		return "(VKw " + str(string(v)) + ")"
	case pr.Color:
		return "(VColor " + coqColor(pa.Color(v)) + ")"
	case pr.IntString:
		if v.String != "" {
			return "(VKw " + str(v.String) + ")"
		}
		return "(VInt " + vlib.Z(v.Int) + ")"
	default:
		return "(VOther " + vlib.Bytes(fmt.Sprintf("%T %v", v, v)) + ")"
	}
}

func coqRaws(cs []pa.Compound) string {
	l := make([]string, len(cs))
	for i, c := range cs {
		if d, ok := c.(pa.Declaration); ok {
			l[i] = fmt.Sprintf("RDecl %s %s %s", str(d.Name), coqToks(d.Value), vlib.Bool(d.Important))
		} else {
			l[i] = "ROther"
		}
	}
	return vlib.List(l)
}

func coqDecls(ds []validation.Declaration) string {
	l := make([]string, len(ds))
	for i, d := range ds {
		sh := ""
		if d.Shortand != 0 {
			sh = d.Shortand.String()
		}
		l[i] = fmt.Sprintf("mkOD %s %s %s %s", str(d.Name.String()), coqValue(d.Value), vlib.Bool(d.Important), str(sh))
	}
	return vlib.List(l)
}

// ---- ParseColor oracle: every token (at any depth) that is a colour

type oracle struct {
	seen map[string]bool
	l    []string
}

func newOracle() *oracle { return &oracle{seen: map[string]bool{}} }

func (o *oracle) addTok(t pa.Token) {
	if c := pa.ParseColor(t); !c.IsNone() {
		s := "CE " + coqTok(t) + " " + coqColor(c)
		if !o.seen[s] {
			o.seen[s] = true
			o.l = append(o.l, s)
		}
	}
	switch t := t.(type) {
	case pa.FunctionBlock:
		o.addToks(t.Arguments)
	case pa.ParenthesesBlock:
		o.addToks(t.Arguments)
	case pa.SquareBracketsBlock:
		o.addToks(t.Arguments)
	case pa.CurlyBracketsBlock:
		o.addToks(t.Arguments)
	}
}

func (o *oracle) addToks(ts []pa.Token) {
	for _, t := range ts {
		o.addTok(t)
	}
}

func (o *oracle) addCompounds(cs []pa.Compound) {
	for _, c := range cs {
		if d, ok := c.(pa.Declaration); ok {
			o.addToks(d.Value)
		}
	}
}

func (o *oracle) coq() string { return vlib.List(o.l) }

// ---- human readable

func descDecls(ds []validation.Declaration) []string {
	out := make([]string, len(ds))
	for i, d := range ds {
		val := fmt.Sprintf("%v", d.Value)
		if rt, ok := d.Value.(pr.RawTokens); ok {
			val = "pending[" + pa.Serialize(rt) + "]"
		}
		out[i] = fmt.Sprintf("%s = %s%s%s", d.Name, val, map[bool]string{true: " !important", false: ""}[d.Important],
			map[bool]string{true: " (from " + d.Shortand.String() + ")", false: ""}[d.Shortand != 0])
	}
	return out
}

func sortedKeys(m map[string]pr.RawTokens) []string {
	keys := make([]string, 0, len(m))
	for k := range m {
		keys = append(keys, k)
	}
	sort.Strings(keys)
	return keys
}

func truncate(s string, n int) string {
	if len(s) > n {
		return s[:n] + "..."
	}
	return s
}

var _ = strings.Join
