package main

import (
	"fmt"
	"os"

	"github.com/benoitkugler/webrender/html/tree"
	"github.com/benoitkugler/webrender/utils"
	"golang.org/x/net/html/atom"
)

func run(doc string, user []string, hints bool) {
	h, err := tree.NewHTML(utils.InputString(doc), "http://verif.test/", func(url string) (utils.RemoteRessource, error) {
		fmt.Println("FETCH", url)
		return utils.RemoteRessource{}, fmt.Errorf("no")
	}, "")
	if err != nil {
		fmt.Println("ERR", err)
		return
	}
	h.UAStyleSheet = tree.TestUAStylesheet
	var us []tree.CSS
	for _, u := range user {
		c, err := tree.NewCSSDefault(utils.InputString(u))
		if err != nil {
			panic(err)
		}
		us = append(us, c)
	}
	sf := tree.GetAllComputedStyles(h, us, hints, nil, nil, nil, nil, false, nil)
	it := h.Root.Iter(atom.P, atom.Table, atom.Span)
	for it.HasNext() {
		e := it.Next()
		st := sf.Get(e, "")
		fmt.Printf("  <%s id=%s> z=%v orphans=%v width=%v\n", e.Data, e.Get("id"), st.GetZIndex(), st.GetOrphans(), st.GetWidth())
	}
}

func main() {
	_ = os.Args
	docs := []string{
		`<style>#a{z-index:1}</style><p id=a style="z-index:2">`,
		`<style>p{z-index:1; & {z-index:2}}</style><p id=a>`,
		`<style>p{z-index:1; &.c {z-index:2} z-index:3}</style><p id=a class=c>`,
		`<style>div{ span, p {z-index:2}}</style><div><span id=s></span></div><p id=a>`,
		`<style>div{ & span, p {z-index:2}}</style><div><span id=s></span></div><p id=a>`,
		`<style>& p{z-index:2}</style><p id=a>`,
		`<style>p{z-index:1} @import url(x.css); </style><p id=a>`,
		`<style>@import url(x.css) screen; @import "y.css" print; @import "z.css";</style><p id=a>`,
		`<style>*{width:3px}</style><table width=5 id=t></table>`,
		`<style>@media screen{p{z-index:1}} @media print, screen{p{orphans:7}}</style><p id=a>`,
	}
	for _, d := range docs {
		fmt.Println(d)
		run(d, nil, true)
	}
}
