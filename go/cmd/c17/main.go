// Harness for C17: runs /repo's matrix package, SVG transform parsing and
// viewBox resolution on generated inputs and writes one case per run, as a
// Coq term of type Check.C17.case (input + what the implementation returned).
package main

import (
	"flag"
	"fmt"
	"math"
	"strconv"
	"strings"

	"verifharness/vlib"
	"verifharness/vlib/render"

	bo "github.com/benoitkugler/webrender/html/boxes"
	pr "github.com/benoitkugler/webrender/css/properties"

	mt "github.com/benoitkugler/webrender/matrix"
	"github.com/benoitkugler/webrender/svg"
)

type fl = float32

func coqT(t mt.Transform) string {
	return fmt.Sprintf("(mk %s %s %s %s %s %s)", vlib.Q32(t.A), vlib.Q32(t.B), vlib.Q32(t.C), vlib.Q32(t.D), vlib.Q32(t.E), vlib.Q32(t.F))
}

func finiteT(t mt.Transform) bool { return vlib.Finite32(t.A, t.B, t.C, t.D, t.E, t.F) }

// random float32 from several distributions
func rfl(r *vlib.Rng) fl {
	switch r.Intn(6) {
	case 0:
		return fl(r.Range(-4, 4))
	case 1:
		return fl(r.Range(-64, 64)) / 8
	case 2:
		return fl(r.Range(-1000, 1000)) / 10
	case 3:
		return fl((r.Float01() - 0.5) * 4)
	case 4:
		return fl((r.Float01() - 0.5) * 2000)
	default:
		return fl(r.Range(-3, 3)) * fl(math.Pow(2, float64(r.Range(-6, 6))))
	}
}

func rmat(r *vlib.Rng) mt.Transform {
	switch r.Intn(5) {
	case 0: // unimodular integer matrix (invertible exactly)
		t := mt.Identity()
		for i := 0; i < 3; i++ {
			k := fl(r.Range(-2, 2))
			if r.Bool() {
				t = mt.Mul(t, mt.New(1, k, 0, 1, 0, 0))
			} else {
				t = mt.Mul(t, mt.New(1, 0, k, 1, 0, 0))
			}
		}
		t.E, t.F = fl(r.Range(-9, 9)), fl(r.Range(-9, 9))
		return t
	case 1: // singular
		a, b := rfl(r), rfl(r)
		k := fl(r.Range(-2, 2))
		return mt.New(a, b, k*a, k*b, rfl(r), rfl(r))
	default:
		return mt.New(rfl(r), rfl(r), rfl(r), rfl(r), rfl(r), rfl(r))
	}
}

func trigOf(rad fl) (c, s, t fl) {
	return fl(math.Cos(float64(rad))), fl(math.Sin(float64(rad))), fl(math.Tan(float64(rad)))
}

func fmtNum(r *vlib.Rng, x float64) string {
	s := strconv.FormatFloat(x, 'f', -1, 64)
	if r.Chance(1, 6) && !strings.HasPrefix(s, "-") {
		s = "+" + s
	}
	return s
}

var angles = []float64{0, 30, 45, 90, -60, 12.5, 180, 360, -90, 1, 75, 135, 0.5}

// ---- end to end: CSS `transform` on an HTML box -> Transform call on the backend

var fonts = render.NewPango()

// set while generating translate() arguments of the end-to-end stream
var allowEm = false

func cssDim(r *vlib.Rng, allowPct bool) (text string, coq string) {
	if allowEm && r.Chance(1, 3) {
		v := vlib.Pick(r, []float64{0, 1, 2, -1.5, 0.5, 3.25, 10})
		s := strconv.FormatFloat(v, 'f', -1, 64)
		f, _ := strconv.ParseFloat(s, 32)
		return s + "em", "(Em " + vlib.Q32(fl(f)) + ")"
	}
	if allowPct && r.Chance(1, 3) {
		v := vlib.Pick(r, []float64{0, 10, 25, 50, 100, -50, 33, 12.5})
		s := strconv.FormatFloat(v, 'f', -1, 64)
		f, _ := strconv.ParseFloat(s, 32)
		return s + "%", "(Pct " + vlib.Q32(fl(f)) + ")"
	}
	v := float64(r.Range(-400, 400)) / 8
	s := strconv.FormatFloat(v, 'f', -1, 64)
	f, _ := strconv.ParseFloat(s, 32)
	return s + "px", "(Px " + vlib.Q32(fl(f)) + ")"
}

func cssCase(r *vlib.Rng) []vlib.Case {
	units := []string{"deg", "grad", "rad", "turn"}
	coqUnits := []string{"Deg", "Grad", "Rad", "Turn"}
	factor := []fl{math.Pi / 180, math.Pi / 200, 1, 2 * math.Pi}
	trig := map[string]string{}
	tags := map[string]bool{}
	angle := func() (string, string) {
		ui := r.Intn(4)
		var v float64
		switch ui {
		case 0:
			v = vlib.Pick(r, []float64{0, 30, 45, 90, -60, 12.5, 180, 360, 1, 75})
		case 1:
			v = vlib.Pick(r, []float64{0, 50, 100, -25, 33, 400})
		case 2:
			v = vlib.Pick(r, []float64{0, 1, -0.5, 0.25, 3, 1.5707964})
		default:
			v = vlib.Pick(r, []float64{0, 0.25, 0.5, -0.125, 1, 0.1})
		}
		s := strconv.FormatFloat(v, 'f', -1, 64)
		f, _ := strconv.ParseFloat(s, 32)
		rad := fl(f) * factor[ui]
		c, sn, tn := trigOf(rad)
		q := vlib.Q32(fl(f))
		if vlib.Finite32(tn) {
			trig[q+coqUnits[ui]] = fmt.Sprintf("CTE %s %s %s %s %s", q, coqUnits[ui], vlib.Q32(c), vlib.Q32(sn), vlib.Q32(tn))
		}
		u := units[ui] // (unit case-insensitivity belongs to C08's stream)
		if v == 0 {
			tags["zero-angle"] = true
		}
		return s + u, q + " " + coqUnits[ui]
	}
	num := func() (string, string) {
		v := float64(r.Range(-12, 12)) / 4
		s := strconv.FormatFloat(v, 'f', -1, 64)
		f, _ := strconv.ParseFloat(s, 32)
		return s, vlib.Q32(fl(f))
	}
	m := r.Range(1, 4)
	var parts, srcs []string
	for i := 0; i < m; i++ {
		var name, src string
		var args []string
		switch r.Intn(13) {
		case 0:
			a, q := angle()
			name, args, src = "rotate", []string{a}, "CRotate "+q
		case 1:
			a, q := angle()
			name, args, src = "skewX", []string{a}, "CSkewX "+q
			tags["skewX"] = true
		case 2:
			a, q := angle()
			name, args, src = "skewY", []string{a}, "CSkewY "+q
			tags["skewY"] = true
		case 3:
			a, q := angle()
			name, args, src = "skew", []string{a}, "CSkew1 "+q
		case 4:
			allowEm = true
			x, q := cssDim(r, true)
			allowEm = false
			name, args, src = "translate", []string{x}, "CTranslate1 "+q
		case 5:
			allowEm = true
			x, q := cssDim(r, true)
			y, qy := cssDim(r, true)
			allowEm = false
			name, args, src = "translate", []string{x, y}, "CTranslate2 "+q+" "+qy
		case 6:
			allowEm = true
			x, q := cssDim(r, true)
			allowEm = false
			name, args, src = "translateX", []string{x}, "CTranslateX "+q
		case 7:
			allowEm = true
			x, q := cssDim(r, true)
			allowEm = false
			name, args, src = "translateY", []string{x}, "CTranslateY "+q
		case 8:
			x, q := num()
			name, args, src = "scale", []string{x}, "CScale1 "+q
		case 9:
			x, q := num()
			y, qy := num()
			name, args, src = "scale", []string{x, y}, "CScale2 "+q+" "+qy
		case 10:
			x, q := num()
			name, args, src = "scaleX", []string{x}, "CScaleX "+q
		case 11:
			x, q := num()
			name, args, src = "scaleY", []string{x}, "CScaleY "+q
		default:
			var qs []string
			for j := 0; j < 6; j++ {
				x, q := num()
				args = append(args, x)
				qs = append(qs, q)
			}
			name, src = "matrix", "CMatrix "+strings.Join(qs, " ")
		}
		if r.Chance(1, 5) {
			name = strings.ToUpper(name)
		}
		parts = append(parts, name+"("+strings.Join(args, vlib.Pick(r, []string{", ", ",", " , "}))+")")
		srcs = append(srcs, src)
	}
	origin := ""
	if r.Chance(2, 3) {
		ox, _ := cssDim(r, true)
		oy, _ := cssDim(r, true)
		if r.Chance(1, 4) {
			ox = vlib.Pick(r, []string{"left", "center", "right"})
		}
		if r.Chance(1, 4) {
			oy = vlib.Pick(r, []string{"top", "center", "bottom"})
		}
		origin = "transform-origin: " + ox + " " + oy + ";"
	}
	// two boxes share ONE rule carrying the transform (the declared value is shared by both
	// elements), with different font sizes, so em arguments resolve differently per element
	// kind of box carrying the transform: 0 = absolutely positioned block, 1 = in-flow atomic inline
	// (inline-block / inline-table / inline-flex), 2 = plain inline box (the transform must NOT apply)
	boxKind := vlib.Pick(r, []int{0, 0, 0, 1, 1, 2})
	disp := vlib.Pick(r, []string{"inline-block", "inline-block", "inline-flex"})
	rule := fmt.Sprintf(".t { position:absolute; transform: %s; %s }", strings.Join(parts, " "), origin)
	if boxKind == 1 {
		rule = fmt.Sprintf(".t { display:%s; transform: %s; %s }", disp, strings.Join(parts, " "), origin)
	} else if boxKind == 2 {
		rule = fmt.Sprintf(".t { transform: %s; %s }", strings.Join(parts, " "), origin)
	}
	boxStyle := func() string {
		if boxKind == 0 {
			return fmt.Sprintf("left:%dpx; top:%dpx; width:%dpx; height:%dpx; padding:%dpx; border:%dpx solid red; margin:%dpx %dpx; font-size:%dpx",
				r.Range(0, 300), r.Range(0, 300), r.Range(1, 300), r.Range(1, 200), r.Range(0, 9), r.Range(0, 5), r.Range(0, 3)*r.Range(0, 20), r.Range(0, 3)*r.Range(0, 20), vlib.Pick(r, []int{8, 10, 16, 20, 40}))
		}
		return fmt.Sprintf("width:%dpx; height:%dpx; padding:%dpx; border:%dpx solid red; margin:%dpx %dpx; font-size:%dpx",
			r.Range(1, 120), r.Range(1, 80), r.Range(0, 9), r.Range(0, 5), r.Range(0, 2)*r.Range(0, 12), r.Range(0, 2)*r.Range(0, 12), vlib.Pick(r, []int{8, 10, 16, 20, 40}))
	}
	tag := "div"
	open, mid, close := "", "", ""
	if boxKind != 0 {
		tag = "span"
		open, mid, close = `<p style="font: 16px/20px Ahem; margin:0">ab `, ` cd `, ` ef</p>`
	}
	inner := ""
	if boxKind == 2 {
		inner = "xy"
	}
	html := `<html><head><style>` + rule + `</style></head><body style="margin:0">` + open + `<` + tag + ` class=t id=a style="` + boxStyle() + `">` + inner + `</` + tag + `>` + mid + `<` + tag + ` class=t id=b style="` + boxStyle() + `">` + inner + `</` + tag + `>` + close + `</body></html>`
	var gs []string
	var pages []*bo.PageBox
	o := render.Guard(func() {
		var err error
		pages, err = render.Layout(html, nil, false, true, fonts)
		if err != nil {
			panic(err)
		}
	})
	if o.Status != "ok" || len(pages) != 1 {
		return nil
	}
	render.Walk(pages[0], func(b bo.Box, d int) {
		bx := b.Box()
		id := ""
		if bx.Element != nil {
			for _, a := range bx.Element.Attr {
				if a.Key == "id" {
					id = a.Val
				}
			}
		}
		if (id == "a" && len(gs) == 0) || (id == "b" && len(gs) == 1) { // outermost box of each element, in tree order
			or := bx.Style.GetTransformOrigin()
			dim := func(d pr.Dimension) string {
				if d.Unit == pr.Perc {
					return "(Pct " + vlib.Q32(fl(d.Value)) + ")"
				}
				return "(Px " + vlib.Q32(fl(d.Value)) + ")"
			}
			gs = append(gs, fmt.Sprintf("{| bbx := %s; bby := %s; bw := %s; bh := %s; orx := %s; ory := %s; fsz := %s |}",
				vlib.Q32(fl(bx.BorderBoxX())), vlib.Q32(fl(bx.BorderBoxY())), vlib.Q32(fl(bx.BorderWidth())), vlib.Q32(fl(bx.BorderHeight())),
				dim(or[0]), dim(or[1]), vlib.Q32(fl(bx.Style.GetFontSize().Value))))
		}
	})
	if boxKind != 2 && len(gs) != 2 {
		return nil
	}
	tags[fmt.Sprintf("boxkind=%d", boxKind)] = true
	var rec *render.Recorder
	o = render.Guard(func() {
		d, err := render.Render(html, nil, false, true, fonts)
		if err != nil {
			panic(err)
		}
		rec = render.Draw(d, 1)
	})
	if o.Status != "ok" {
		return nil
	}
	var trs [][]fl
	for _, e := range rec.Events {
		if e.Op == "Transform" {
			trs = append(trs, e.Args)
		}
	}
	var tbl, tl []string
	for _, v := range trig {
		tbl = append(tbl, v)
	}
	for k := range tags {
		tl = append(tl, k)
	}
	if boxKind == 2 { // plain inline boxes: no Transform call beyond the two page-level ones
		return []vlib.Case{{Kind: "css-inline", Coq: fmt.Sprintf("CCssInline %s", vlib.Bool(len(trs) > 2)),
			Desc: map[string]interface{}{"html": html, "transform_calls": trs}, Nontrivial: true, Tags: tl}}
	}
	// the two boxes are painted in tree order; a singular matrix sends no Transform call for
	// either box (same function list), so the page has either 2 or 4 Transform events
	has := len(trs) >= 4
	if !has && len(trs) != 2 {
		return nil
	}
	var out []vlib.Case
	for i := 0; i < 2; i++ {
		outT := mt.Transform{}
		if has {
			a := trs[2+i]
			outT = mt.New(a[0], a[1], a[2], a[3], a[4], a[5])
			if !finiteT(outT) {
				return nil
			}
		}
		out = append(out, vlib.Case{Kind: "css", Coq: fmt.Sprintf("CCssSrc %s %s %s %s %s", vlib.List(tbl), gs[i], vlib.List(srcs), vlib.Bool(has), coqT(outT)),
			Desc: map[string]interface{}{"html": html, "box": i, "transform_calls": trs}, Nontrivial: true, Tags: tl})
	}
	return out
}

// svgDraw draws <svg><rect transform=attr/></svg> and returns the Transform call issued for the
// element (the calls at OnNewStack depth 2; the two depth-1 calls are the viewport's).
func svgDraw(attr string) (has bool, out mt.Transform, ok bool) {
	doc := `<svg xmlns="http://www.w3.org/2000/svg" width="200" height="100"><rect x="1" y="2" width="30" height="20" transform="` + attr + `"/></svg>`
	o := render.Guard(func() {
		img, err := svg.Parse(strings.NewReader(doc), "", nil, nil)
		if err != nil {
			return
		}
		rec := render.NewRecorder()
		pg := rec.AddPage(0, 0, 200, 100)
		img.Draw(pg, 200, 100, nil)
		n := 0
		for _, e := range rec.Events {
			if e.Op == "Transform" && e.Depth == 2 {
				n++
				out = mt.New(e.Args[0], e.Args[1], e.Args[2], e.Args[3], e.Args[4], e.Args[5])
			}
		}
		has = n == 1
		ok = n <= 1 && finiteT(out)
	})
	if o.Status != "ok" {
		return false, out, false
	}
	return has, out, ok
}

func main() {
	out := flag.String("out", "cases.jsonl", "output file")
	n := flag.Int("n", 3000, "number of cases")
	flag.Parse()
	rng := vlib.NewRng(vlib.Seed())
	w := vlib.NewWriter(*out)
	defer w.Close()

	for w.N() < *n {
		r := rng.Fork()
		switch k := r.Intn(26); {
		case k == 0: // rounding model validation
			var x float64
			switch r.Intn(5) {
			case 0:
				x = float64(r.Range(-100000, 100000)) / float64(r.Range(1, 997))
			case 1: // near a tie
				m := float64(r.Range(1<<23, 1<<24-1)) + 0.5
				x = m * math.Pow(2, float64(r.Range(-30, 30)))
				if r.Bool() {
					x = math.Nextafter(x, 0)
				} else if r.Bool() {
					x = math.Nextafter(x, math.Inf(1))
				}
			case 2: // subnormal range
				x = float64(r.Range(1, 1<<20)) * math.Pow(2, float64(r.Range(-160, -140)))
			case 3:
				x = (r.Float01() - 0.5) * math.Pow(10, float64(r.Range(-8, 8)))
			default:
				x = float64(r.Range(-1<<30, 1<<30))
			}
			y := fl(x)
			if !vlib.Finite32(y) {
				continue
			}
			w.Add(vlib.Case{Kind: "round", Coq: fmt.Sprintf("CRound %s %s", vlib.Q64(x), vlib.Q32(y)),
				Desc: map[string]interface{}{"x": x, "float32": y}, Nontrivial: float64(y) != x})
		case k == 1 || k == 2:
			a, b := rfl(r), rfl(r)
			o := r.Intn(4)
			var res fl
			switch o {
			case 0:
				res = a + b
			case 1:
				res = a - b
			case 2:
				res = a * b
			default:
				if b == 0 {
					continue
				}
				res = a / b
			}
			if !vlib.Finite32(res) {
				continue
			}
			w.Add(vlib.Case{Kind: "arith", Coq: fmt.Sprintf("CArith %d %s %s %s", o, vlib.Q32(a), vlib.Q32(b), vlib.Q32(res)),
				Desc: map[string]interface{}{"op": "+-*/"[o : o+1], "a": a, "b": b, "res": res}, Nontrivial: true})
		case k <= 5: // Mul chains
			m := r.Range(1, 5)
			ts := make([]mt.Transform, m)
			strs := make([]string, m)
			for i := range ts {
				ts[i] = rmat(r)
				strs[i] = coqT(ts[i])
			}
			res := ts[0]
			for _, t := range ts[1:] {
				res = mt.Mul(res, t)
			}
			if !finiteT(res) {
				continue
			}
			w.Add(vlib.Case{Kind: "mulchain", Coq: fmt.Sprintf("CMulChain %s %s", vlib.List(strs), coqT(res)),
				Desc: map[string]interface{}{"ts": ts, "out": res}, Nontrivial: m >= 2})
		case k == 6:
			a, b, c := rmat(r), rmat(r), rmat(r)
			res := mt.Mul3(a, b, c)
			if !finiteT(res) {
				continue
			}
			w.Add(vlib.Case{Kind: "mul3", Coq: fmt.Sprintf("CMul3 %s %s %s %s", coqT(a), coqT(b), coqT(c), coqT(res)),
				Desc: map[string]interface{}{"r": a, "s": b, "t": c, "out": res}, Nontrivial: true})
		case k <= 8:
			t := rmat(r)
			u := t
			err := u.Invert()
			if err == nil && !finiteT(u) {
				continue
			}
			if err != nil {
				u = mt.Transform{}
			}
			w.Add(vlib.Case{Kind: "invert", Coq: fmt.Sprintf("CInvert %s %s %s", coqT(t), vlib.Bool(err == nil), coqT(u)),
				Desc: map[string]interface{}{"t": t, "ok": err == nil, "out": u}, Nontrivial: true,
				Tags: []string{fmt.Sprintf("invert-ok=%v", err == nil)}})
		case k == 9:
			t := rmat(r)
			x, y := rfl(r), rfl(r)
			ox, oy := t.Apply(x, y)
			if !vlib.Finite32(ox, oy) {
				continue
			}
			w.Add(vlib.Case{Kind: "apply", Coq: fmt.Sprintf("CApply %s %s %s %s %s", coqT(t), vlib.Q32(x), vlib.Q32(y), vlib.Q32(ox), vlib.Q32(oy)),
				Desc: map[string]interface{}{"t": t, "x": x, "y": y, "ox": ox, "oy": oy}, Nontrivial: true})
		case k == 10:
			t := rmat(r)
			d := t.Determinant()
			if !vlib.Finite32(d) {
				continue
			}
			w.Add(vlib.Case{Kind: "det", Coq: fmt.Sprintf("CDet %s %s", coqT(t), vlib.Q32(d)),
				Desc: map[string]interface{}{"t": t, "det": d}, Nontrivial: true})
		case k <= 13: // in-place methods
			t := rmat(r)
			t0 := t
			m := r.Range(1, 5)
			var ops []string
			var descs []string
			tags := map[string]bool{}
			for i := 0; i < m; i++ {
				switch r.Intn(6) {
				case 0:
					x, y := rfl(r), rfl(r)
					t.Translate(x, y)
					ops = append(ops, fmt.Sprintf("OTranslate %s %s", vlib.Q32(x), vlib.Q32(y)))
					descs = append(descs, fmt.Sprintf("Translate(%v,%v)", x, y))
				case 1:
					x, y := rfl(r), rfl(r)
					t.Scale(x, y)
					ops = append(ops, fmt.Sprintf("OScale %s %s", vlib.Q32(x), vlib.Q32(y)))
					descs = append(descs, fmt.Sprintf("Scale(%v,%v)", x, y))
				case 2:
					a := fl((r.Float01() - 0.5) * 8)
					t.Rotate(a)
					c, s, _ := trigOf(a)
					ops = append(ops, fmt.Sprintf("ORotate %s %s", vlib.Q32(c), vlib.Q32(s)))
					descs = append(descs, fmt.Sprintf("Rotate(%v)", a))
				case 3:
					a, b := fl((r.Float01()-0.5)*2.4), fl((r.Float01()-0.5)*2.4)
					if r.Chance(1, 3) {
						b = 0
					} else if r.Chance(1, 3) {
						a = 0
					}
					t.Skew(a, b)
					_, _, ta := trigOf(a)
					_, _, tb := trigOf(b)
					ops = append(ops, fmt.Sprintf("OSkew %s %s", vlib.Q32(ta), vlib.Q32(tb)))
					descs = append(descs, fmt.Sprintf("Skew(%v,%v)", a, b))
					if (a == 0) != (b == 0) {
						tags["skew-one-axis"] = true
					}
					tags["skew"] = true
				case 4:
					u := rmat(r)
					t.LeftMultBy(u)
					ops = append(ops, "OLeft "+coqT(u))
					descs = append(descs, fmt.Sprintf("LeftMultBy(%v)", u))
				default:
					u := rmat(r)
					t.RightMultBy(u)
					ops = append(ops, "ORight "+coqT(u))
					descs = append(descs, fmt.Sprintf("RightMultBy(%v)", u))
				}
			}
			if !finiteT(t) {
				continue
			}
			var tl []string
			for k := range tags {
				tl = append(tl, k)
			}
			w.Add(vlib.Case{Kind: "ops", Coq: fmt.Sprintf("COps %s %s %s", coqT(t0), vlib.List(ops), coqT(t)),
				Desc: map[string]interface{}{"t": t0, "ops": descs, "out": t}, Nontrivial: true, Tags: tl})
		case k <= 17: // SVG transform attribute
			m := r.Range(1, 4)
			var parts, srcs []string
			trig := map[string]string{}
			tags := map[string]bool{}
			num := func(x float64) (string, string) { // attribute text, Coq Q of the float32 parsed
				s := fmtNum(r, x)
				f, _ := strconv.ParseFloat(s, 32)
				return s, vlib.Q32(fl(f))
			}
			ang := func() (string, string) {
				a := vlib.Pick(r, angles)
				s, q := num(a)
				f, _ := strconv.ParseFloat(s, 32)
				rad := fl(f) * math.Pi / 180
				c, sn, tn := trigOf(rad)
				if vlib.Finite32(tn) {
					trig[q] = fmt.Sprintf("TE %s %s %s %s", q, vlib.Q32(c), vlib.Q32(sn), vlib.Q32(tn))
				}
				return s, q
			}
			sep := func() string { return vlib.Pick(r, []string{" ", ",", ", ", " , "}) }
			small := func() float64 { return float64(r.Range(-80, 80)) / 4 }
			for i := 0; i < m; i++ {
				name := ""
				var args []string
				var src string
				switch r.Intn(10) {
				case 0:
					a, q := ang()
					name, args, src = "rotate", []string{a}, "SRotate1 "+q
				case 1:
					a, q := ang()
					x, qx := num(small())
					y, qy := num(small())
					name, args, src = "rotate", []string{a, x, y}, fmt.Sprintf("SRotate3 %s %s %s", q, qx, qy)
				case 2:
					x, qx := num(small())
					name, args, src = "translate", []string{x}, "STranslate1 "+qx
				case 3:
					x, qx := num(small())
					y, qy := num(small())
					name, args, src = "translate", []string{x, y}, fmt.Sprintf("STranslate2 %s %s", qx, qy)
				case 4:
					a, q := ang()
					name, args, src = "skewX", []string{a}, "SSkewX "+q
					tags["skewX"] = true
				case 5:
					a, q := ang()
					name, args, src = "skewY", []string{a}, "SSkewY "+q
					tags["skewY"] = true
				case 6:
					x, qx := num(float64(r.Range(-12, 12)) / 4)
					name, args, src = "scale", []string{x}, "SScale1 "+qx
				case 7:
					x, qx := num(float64(r.Range(-12, 12)) / 4)
					y, qy := num(float64(r.Range(-12, 12)) / 4)
					name, args, src = "scale", []string{x, y}, fmt.Sprintf("SScale2 %s %s", qx, qy)
				default:
					var qs []string
					for j := 0; j < 6; j++ {
						x, q := num(float64(r.Range(-20, 20)) / 4)
						args = append(args, x)
						qs = append(qs, q)
					}
					name, src = "matrix", "SMatrix "+strings.Join(qs, " ")
				}
				if r.Chance(1, 5) {
					name = strings.ToUpper(name[:1]) + name[1:]
				}
				part := name + vlib.Pick(r, []string{"", " "}) + "("
				for j, a := range args {
					if j > 0 {
						part += sep()
					}
					part += a
				}
				part += ")"
				parts = append(parts, part)
				srcs = append(srcs, src)
			}
			attr := strings.Join(parts, vlib.Pick(r, []string{" ", "", ", ", " , ", ",", "  ,  ", "\t", " \n "}))
			res, cnt, err := svg.VerifAggregateTransform(attr)
			if err != nil || cnt != m || !finiteT(res) {
				// the generator only writes valid attributes: a rejection is a disagreement
				// with the grammar; reported through an impossible output
				if err != nil || cnt != m {
					w.Add(vlib.Case{Kind: "svg-rejected", Coq: fmt.Sprintf("CSvg [] %s (mk 0 0 0 0 0 0)", vlib.List(srcs)),
						Desc: map[string]interface{}{"attr": attr, "err": fmt.Sprint(err), "count": cnt}, Nontrivial: true, Tags: []string{"svg-rejected"}})
				}
				continue
			}
			var tbl []string
			for _, v := range trig {
				tbl = append(tbl, v)
			}
			var tl []string
			for k := range tags {
				tl = append(tl, k)
			}
			w.Add(vlib.Case{Kind: "svg", Coq: fmt.Sprintf("CSvg %s %s %s", vlib.List(tbl), vlib.List(srcs), coqT(res)),
				Desc: map[string]interface{}{"attr": attr, "out": res}, Nontrivial: true, Tags: tl})
			// end to end: the same attribute on a <rect>, drawn on the recording backend
			if has, outT, ok := svgDraw(attr); ok {
				w.Add(vlib.Case{Kind: "svg-draw", Coq: fmt.Sprintf("CSvgDraw %s %s %s %s", vlib.List(tbl), vlib.List(srcs), vlib.Bool(has), coqT(outT)),
					Desc: map[string]interface{}{"svg": "<rect transform=\"" + attr + "\"/>", "has_transform_call": has, "out": outT}, Nontrivial: true, Tags: tl})
			}
		case k >= 20:
			for _, c := range cssCase(r) {
				w.Add(c)
			}
		default: // viewBox / preserveAspectRatio
			pos := []string{"Min", "Mid", "Max"}
			xi, yi := r.Intn(3), r.Intn(3)
			none := r.Chance(1, 5)
			slice := r.Bool()
			par := "x" + pos[xi] + "Y" + pos[yi]
			if none {
				par = "none"
			}
			if slice {
				par += " slice"
			} else if r.Bool() {
				par += " meet"
			}
			width, height := fl(r.Range(1, 400)), fl(r.Range(1, 400))
			vb := svg.Rectangle{X: fl(r.Range(-50, 50)), Y: fl(r.Range(-50, 50)), Width: fl(r.Range(0, 300)), Height: fl(r.Range(0, 300))}
			if r.Chance(1, 2) {
				width, height = rfl(r)+1001, rfl(r)+1001
				vb.Width, vb.Height = fl(r.Range(1, 3000))/7, fl(r.Range(1, 3000))/7
			}
			sx, sy, tx, ty := svg.VerifViewboxTransform(par, width, height, true, vb)
			if !vlib.Finite32(sx, sy, tx, ty) {
				continue
			}
			al := []string{"AMin", "AMid", "AMax"}
			if none {
				xi, yi = 0, 0
			}
			w.Add(vlib.Case{Kind: "viewbox", Coq: fmt.Sprintf("CViewbox {| xpos := %s; ypos := %s; par_none := %s; par_slice := %s |} %s %s %s %s %s %s %s %s %s %s",
				al[xi], al[yi], vlib.Bool(none), vlib.Bool(slice), vlib.Q32(width), vlib.Q32(height), vlib.Q32(vb.X), vlib.Q32(vb.Y), vlib.Q32(vb.Width), vlib.Q32(vb.Height),
				vlib.Q32(sx), vlib.Q32(sy), vlib.Q32(tx), vlib.Q32(ty)),
				Desc: map[string]interface{}{"par": par, "w": width, "h": height, "viewbox": vb, "out": []fl{sx, sy, tx, ty}}, Nontrivial: true})
		}
	}
}
