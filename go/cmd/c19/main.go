package main

import (
	"fmt"

	"verifharness/vlib/render"

	"github.com/benoitkugler/webrender/css/counters"
	pr "github.com/benoitkugler/webrender/css/properties"
	"github.com/benoitkugler/webrender/html/tree"
	"github.com/benoitkugler/webrender/utils"
)

func table(css string) counters.CounterStyle {
	html, err := tree.NewHTML(utils.InputString("<style>"+css+"</style><p>"), "http://x/", nil, "")
	if err != nil {
		panic(err)
	}
	html.UAStyleSheet = tree.TestUAStylesheet
	cs := make(counters.CounterStyle)
	tree.GetAllComputedStyles(html, nil, false, nil, cs, nil, nil, false, nil)
	return cs
}

func try(cs counters.CounterStyle, name string, v int) {
	var s string
	o := render.Guard(func() { s = cs.RenderValue(v, name) })
	fmt.Printf("%s(%d) = %q %v\n", name, v, s, o)
}

func main() {
	_ = pr.NamedString{}
	cs := table(`
@counter-style cyc { system: cyclic; symbols: a b c }
@counter-style add0 { system: additive; additive-symbols: 5 v, 2 ii, 0 z }
@counter-style padu { system: numeric; symbols: '٠' '١'; pad: 3 '٠' }
@counter-style numeric { system: cyclic; symbols: x; range: 1 1; fallback: b }
@counter-style a { system: cyclic; symbols: y; range: 1 1; fallback: numeric }
@counter-style b { system: numeric; symbols: '0' '1' }
@counter-style e1 { system: extends nonexist; pad: 3 "0" }
@counter-style c1 { system: extends c2; }
@counter-style c2 { system: extends c3; pad: 4 "x" }
@counter-style c3 { system: extends c1; }
@counter-style zz { system: cyclic; symbols: z; range: 1 1; fallback: yy }
@counter-style yy { system: cyclic; symbols: y; range: 1 1; fallback: bb }
@counter-style bb { system: extends aa; range: auto }
@counter-style aa { system: extends yy; }
@counter-style sy { system: symbolic; symbols: a b; range: -5 5 }
@counter-style al { system: alphabetic; symbols: a b; range: -5 5 }
@counter-style ad { system: additive; additive-symbols: 5 v, 2 ii; range: -10 10 }
`)
	fmt.Println(len(cs))
	for _, n := range []string{"cyc","add0","padu","a","e1","c1","c2","zz","bb","sy","al","ad", "lower-roman", "decimal"} {
	for _, v := range []int{-3, 0, 1,2,3, 7, 2147483648, -9223372036854775808} { try(cs, n, v) } }
}
