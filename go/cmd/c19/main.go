package main

import (
	"fmt"

	"verifharness/vlib/render"

	"github.com/benoitkugler/webrender/css/counters"
	pr "github.com/benoitkugler/webrender/css/properties"
	"github.com/benoitkugler/webrender/html/tree"
	"github.com/benoitkugler/webrender/utils"
)

func table(css string) counters.CounterStyle {
	html, err := tree.NewHTML(utils.InputString("<style>"+css+"</style><p>"), "http://x/", nil, "")
	if err != nil {
		panic(err)
	}
	html.UAStyleSheet = tree.TestUAStylesheet
	cs := make(counters.CounterStyle)
	tree.GetAllComputedStyles(html, nil, false, nil, cs, nil, nil, false, nil)
	return cs
}

func try(cs counters.CounterStyle, name string, v int) {
	var s string
	o := render.Guard(func() { s = cs.RenderValue(v, name) })
	fmt.Printf("%s(%d) = %q %v\n", name, v, s, o)
}

func main() {
	_ = pr.NamedString{}
	cs := table(`
@counter-style add0 { system: additive; additive-symbols: 5 v, 2 ii, 0 z }
@counter-style zz { system: cyclic; symbols: z; range: 1 1; fallback: yy }
@counter-style yy { system: cyclic; symbols: y; range: 1 1; fallback: bb }
@counter-style bb { system: extends aa; range: auto }
@counter-style aa { system: extends yy; }
@counter-style n1 { system: extends decimal; symbols: }
@counter-style fx { system: fixed -2; symbols: a b c d; }
@counter-style sy { system: symbolic; symbols: a b; range: -5 5 }
@counter-style al { system: alphabetic; symbols: a b; range: -5 5 }
@counter-style nn { system: numeric; symbols: a b; negative: "(" ")"; pad: 5 "_" }
@counter-style pn { system: cyclic; symbols: a b; negative: "(" ")"; pad: 5 "_"; range: -10 -1 }
`)
	fmt.Println(len(cs))
	try(cs, "decimal", 2147483647)
	try(cs, "lower-roman", 2147483648)
}
