// Harness for C19: runs /repo's counter style code (css/counters, with the
// @counter-style rules installed through real CSS text so that
// css/validation/descriptors.go is in the loop) and the counter scoping of
// html/boxes (BuildFormattingStructure) on generated inputs, and writes one
// case per run as a Coq term of type Check.C19.case.
package main

import (
	"bufio"
	"encoding/json"
	"flag"
	"fmt"
	"os"
	"path/filepath"
	"sort"
	"strings"

	"verifharness/vlib"
	"verifharness/vlib/render"

	"github.com/benoitkugler/webrender/css/counters"
	pr "github.com/benoitkugler/webrender/css/properties"
	bo "github.com/benoitkugler/webrender/html/boxes"
	"github.com/benoitkugler/webrender/html/tree"
	"github.com/benoitkugler/webrender/utils"
	"golang.org/x/net/html"
)

// ------------------------------------------------------------------ descriptor records (mirror of Css/Counters.v)

type nsI struct {
	kind int // 0: Name "", 1: Name "string", 2: other
	s    string
}

type addI struct {
	w int
	s nsI
}

type descrI struct {
	neg0, neg1, prefix, suffix nsI
	fallback                   string
	ext                        bool
	sys                        string
	number                     int
	padInt                     int
	padSym                     nsI
	symbols                    []nsI
	additive                   []addI
	ranges                     [][2]int
	auto                       bool
}

func nsOf(v pr.NamedString) nsI {
	switch v.Name {
	case "":
		return nsI{0, v.String}
	case "string":
		return nsI{1, v.String}
	}
	return nsI{2, v.String}
}

func str1(s string) nsI { return nsI{1, s} }

func fromGo(d counters.CounterStyleDescriptors) descrI {
	out := descrI{
		neg0: nsOf(d.Negative[0]), neg1: nsOf(d.Negative[1]), prefix: nsOf(d.Prefix), suffix: nsOf(d.Suffix),
		fallback: d.Fallback, ext: d.System.Extends != "", sys: d.System.System, number: d.System.Number,
		padInt: d.Pad.Int, padSym: nsOf(d.Pad.NamedString), auto: d.Range.Auto,
	}
	for _, s := range d.Symbols {
		out.symbols = append(out.symbols, nsOf(s))
	}
	for _, s := range d.AdditiveSymbols {
		out.additive = append(out.additive, addI{s.Int, nsOf(s.NamedString)})
	}
	out.ranges = append(out.ranges, d.Range.Ranges...)
	return out
}

func coqNS(n nsI) string { return fmt.Sprintf("(NS %d %s)", n.kind, vlib.Runes(n.s)) }

func (d descrI) coq() string {
	var syms, adds, rgs []string
	for _, s := range d.symbols {
		syms = append(syms, coqNS(s))
	}
	for _, a := range d.additive {
		adds = append(adds, fmt.Sprintf("Ad %s %s", vlib.Z(a.w), coqNS(a.s)))
	}
	for _, r := range d.ranges {
		rgs = append(rgs, fmt.Sprintf("Rg %s %s", vlib.Z(r[0]), vlib.Z(r[1])))
	}
	return fmt.Sprintf("(Descr %s %s %s %s %s (Sys %s %s %s) %s %s %s %s %s %s)",
		coqNS(d.neg0), coqNS(d.neg1), coqNS(d.prefix), coqNS(d.suffix), vlib.Runes(d.fallback),
		vlib.Bool(d.ext), vlib.Runes(d.sys), vlib.Z(d.number), vlib.Z(d.padInt), coqNS(d.padSym),
		vlib.List(syms), vlib.List(adds), vlib.List(rgs), vlib.Bool(d.auto))
}

func (d descrI) String() string {
	return fmt.Sprintf("%+v", struct {
		Neg0, Neg1, Prefix, Suffix nsI
		Fallback                   string
		Ext                        bool
		Sys                        string
		Number, PadInt             int
		PadSym                     nsI
		Symbols                    []nsI
		Additive                   []addI
		Ranges                     [][2]int
		Auto                       bool
	}{d.neg0, d.neg1, d.prefix, d.suffix, d.fallback, d.ext, d.sys, d.number, d.padInt, d.padSym, d.symbols, d.additive, d.ranges, d.auto})
}

func coqSid(id pr.CounterStyleID) string {
	switch id.Type {
	case "string":
		return fmt.Sprintf("(SidString %s)", vlib.Runes(id.Name))
	case "symbols()":
		var args []string
		for _, a := range id.Symbols {
			args = append(args, vlib.Runes(a))
		}
		return fmt.Sprintf("(SidSymbols %s %s)", vlib.Runes(id.Name), vlib.List(args))
	}
	return fmt.Sprintf("(SidName %s)", vlib.Runes(id.Name))
}

func descSid(id pr.CounterStyleID) string {
	switch id.Type {
	case "string":
		return fmt.Sprintf("%q", id.Name)
	case "symbols()":
		return fmt.Sprintf("symbols(%s %q)", id.Name, []string(id.Symbols))
	}
	return id.Name
}

// names of the styles the rendering of `roots` can look at: closure through
// extends and fallback, plus decimal.
func reachable(cs counters.CounterStyle, roots ...string) []string {
	seen := map[string]bool{}
	var todo []string
	add := func(n string) {
		if !seen[n] {
			seen[n] = true
			todo = append(todo, n)
		}
	}
	add("decimal")
	for _, r := range roots {
		add(r)
	}
	for len(todo) > 0 {
		n := todo[len(todo)-1]
		todo = todo[:len(todo)-1]
		d, ok := cs[n]
		if !ok {
			continue
		}
		if d.System.Extends != "" {
			add(d.System.System)
		}
		if d.Fallback != "" {
			add(d.Fallback)
		}
	}
	var out []string
	for n := range seen {
		if _, ok := cs[n]; ok {
			out = append(out, n)
		}
	}
	sort.Strings(out)
	return out
}

func coqTable(cs counters.CounterStyle, names []string) string {
	var l []string
	for _, n := range names {
		l = append(l, fmt.Sprintf("En %s %s", vlib.Runes(n), fromGo(cs[n]).coq()))
	}
	return vlib.List(l)
}

// may a value of large magnitude produce a very long string (symbolic /
// additive with an unbounded range)?  Such values are not run (the
// implementation would allocate value/weight symbols).
func bigOK(cs counters.CounterStyle, names []string) bool {
	repeater := func(d counters.CounterStyleDescriptors) bool {
		if d.System.Extends != "" {
			return false
		}
		return d.System == (counters.CounterStyleSystem{}) || d.System.System == "symbolic" || d.System.System == "additive"
	}
	bounded := func(d counters.CounterStyleDescriptors) bool {
		for _, r := range d.Range.Ranges {
			if r[1] > 20000 || r[0] < -20000 {
				return false
			}
		}
		return true
	}
	has := false
	for _, n := range names {
		has = has || repeater(cs[n])
	}
	if !has {
		return true
	}
	for _, n := range names {
		d := cs[n]
		switch {
		case repeater(d):
			if d.Range.Auto || d.Range.IsNone() || !bounded(d) {
				return false
			}
		case d.System.Extends != "":
			if d.Range.Auto || !bounded(d) {
				return false
			}
		}
	}
	return true
}

// ------------------------------------------------------------------ installing styles through CSS text

type parsed struct {
	cs       counters.CounterStyle
	root     *utils.HTMLNode
	styleFor *tree.StyleFor
	doc      *tree.HTML
}

func parseDoc(htmlText string) parsed {
	doc, err := tree.NewHTML(utils.InputString(htmlText), "http://verif.test/", nil, "")
	if err != nil {
		panic(err)
	}
	doc.UAStyleSheet = tree.TestUAStylesheet
	cs := make(counters.CounterStyle)
	sf := tree.GetAllComputedStyles(doc, nil, false, nil, cs, nil, nil, false, nil)
	return parsed{cs: cs, root: doc.Root, styleFor: sf, doc: doc}
}

func tableOf(css string) counters.CounterStyle {
	return parseDoc("<style>" + css + "</style><p>").cs
}

// ------------------------------------------------------------------ case writers

const (
	maxI32 = 1<<31 - 1
	minI32 = -1 << 31
)

type valOut struct {
	V     int    `json:"v"`
	Out   string `json:"out"`
	Panic string `json:"panic,omitempty"`
}

// runs one of the three entry points on every value
func renderCase(w *vlib.Writer, kind string, cssText string, cs counters.CounterStyle, id pr.CounterStyleID, mode int, values []int, tags []string) {
	var roots []string
	if id.Type == "" {
		roots = append(roots, id.Name)
	}
	names := reachable(cs, roots...)
	var vos []string
	var outs []valOut
	nontrivial := false
	for _, v := range values {
		var s string
		o := render.Guard(func() {
			switch mode {
			case 0:
				if id.Type == "" {
					s = cs.RenderValue(v, id.Name)
				} else {
					s = cs.RenderValueStyle(v, id)
				}
			case 1:
				s = cs.RenderValueStyle(v, id)
			default:
				s = cs.RenderMarker(id, v)
			}
		})
		if o.Status != "ok" {
			vos = append(vos, fmt.Sprintf("VO %s IPanic", vlib.Z(v)))
			outs = append(outs, valOut{V: v, Panic: o.Site + ": " + o.Msg})
			tags = append(tags, "impl-panic")
		} else {
			vos = append(vos, fmt.Sprintf("VO %s (IStr %s)", vlib.Z(v), vlib.Runes(s)))
			outs = append(outs, valOut{V: v, Out: s})
			if s != fmt.Sprint(v) {
				nontrivial = true
			}
		}
	}
	w.Add(vlib.Case{
		Kind: kind,
		Coq:  fmt.Sprintf("CRender %d %s %s %s", mode, coqTable(cs, names), coqSid(id), vlib.List(vos)),
		Desc: map[string]interface{}{"css": cssText, "style": descSid(id), "entry": []string{"RenderValue", "RenderValueStyle", "RenderMarker"}[mode], "results": outs, "table": names},
		Tags: dedup(tags), Nontrivial: nontrivial,
	})
}

func dedup(l []string) []string {
	seen := map[string]bool{}
	var out []string
	for _, s := range l {
		if !seen[s] {
			seen[s] = true
			out = append(out, s)
		}
	}
	sort.Strings(out)
	return out
}

// boundaries of every range of the reachable styles
func boundaryValues(cs counters.CounterStyle, names []string) []int {
	vals := []int{0, -1, 1}
	for _, n := range names {
		d := cs[n]
		for _, r := range d.Range.Ranges {
			for _, b := range r {
				if b > -(1<<62) && b < 1<<62 {
					vals = append(vals, b-1, b, b+1)
				}
			}
		}
		if d.System.System == "fixed" {
			vals = append(vals, d.System.Number-1, d.System.Number, d.System.Number+len(d.Symbols)-1, d.System.Number+len(d.Symbols))
		}
		for _, a := range d.AdditiveSymbols {
			vals = append(vals, a.Int-1, a.Int, a.Int+1, 2*a.Int)
		}
		if L := len(d.Symbols); L > 0 {
			vals = append(vals, L-1, L, L+1, L*L, L*L+L, L*L+L+1, -L, -L-1)
		}
	}
	return vals
}

var bigValues = []int{maxI32, minI32, maxI32 - 1, minI32 + 1, maxI32 + 1, minI32 - 1, 1 << 24, -(1 << 24), 1<<53 + 1, 1<<62 + 12345, -(1<<62 + 999), 1<<63 - 1, -(1<<63 - 1), 1000000007}

func uniqInts(l []int, limit func(int) bool) []int {
	seen := map[int]bool{}
	var out []int
	for _, v := range l {
		if !seen[v] && limit(v) {
			seen[v] = true
			out = append(out, v)
		}
	}
	return out
}

// ------------------------------------------------------------------ generated @counter-style rules

var symPool = []string{"a", "b", "c", "x", "y", "z", "0", "1", "2", "7", "*", "+", "-", "٠", "١", "٢", "〇", "一", "α", "é", "𝟘", "𝟙", "ab", "xyz", "†", "•", ""}

func cssString(s string) string {
	s = strings.ReplaceAll(s, `\`, `\\`)
	s = strings.ReplaceAll(s, `"`, `\"`)
	return `"` + s + `"`
}

func isIdent(s string) bool {
	if s == "" {
		return false
	}
	for i, r := range s {
		if !(r >= 'a' && r <= 'z') && !(i > 0 && r >= '0' && r <= '9') {
			return false
		}
	}
	switch s {
	case "auto", "infinite", "none", "extends":
		return false
	}
	return true
}

func cssSym(r *vlib.Rng, s string) string {
	if isIdent(s) && r.Chance(1, 3) {
		return s
	}
	return cssString(s)
}

type ruleGen struct {
	name     string
	text     string
	intended *descrI // nil: the rule must be rejected
}

var namePool = []string{"s0", "s1", "s2", "s3", "s4", "s5", "s6", "numeric", "cyclic", "symbolic", "fixed", "lower-roman", "my-style"}
var targetPool = []string{"s0", "s1", "s2", "s3", "s4", "s5", "s6", "numeric", "cyclic", "decimal", "disc", "lower-roman", "upper-alpha", "nope", "cjk-decimal", "decimal-leading-zero", "hebrew"}

func pickSyms(r *vlib.Rng, n int) []string {
	out := make([]string, n)
	for i := range out {
		out[i] = vlib.Pick(r, symPool)
	}
	return out
}

func intText(r *vlib.Rng, v int) string {
	if v >= 0 && r.Chance(1, 8) {
		return fmt.Sprintf("+%d", v)
	}
	return fmt.Sprint(v)
}

// genRule writes one @counter-style rule as a list of declarations, most of
// them valid; `intended` is the record the rule must be parsed to, computed
// here from the grammar of css-counter-styles-3 (later declarations win,
// invalid declarations are ignored as a whole).
func genRule(r *vlib.Rng, name string, malformed bool) ruleGen {
	var d descrI
	var decls []string
	bad := func() bool { return malformed && r.Chance(1, 4) }

	// system
	sysKind := r.Intn(9)
	switch {
	case r.Chance(1, 12): // no system descriptor: symbolic
		sysKind = -1
	case sysKind == 0:
		decls = append(decls, "system: cyclic")
		d.sys = "cyclic"
	case sysKind == 1:
		if r.Bool() {
			decls = append(decls, "system: fixed")
			d.sys, d.number = "fixed", 1
		} else {
			n := r.Range(-6, 12)
			decls = append(decls, "system: fixed "+intText(r, n))
			d.sys, d.number = "fixed", n
		}
	case sysKind == 2:
		decls = append(decls, "system: symbolic")
		d.sys = "symbolic"
	case sysKind == 3:
		decls = append(decls, "system: alphabetic")
		d.sys = "alphabetic"
	case sysKind == 4 || sysKind == 5:
		decls = append(decls, "system: numeric")
		d.sys = "numeric"
	case sysKind == 6:
		decls = append(decls, "system: additive")
		d.sys = "additive"
	default:
		t := vlib.Pick(r, targetPool)
		decls = append(decls, "system: extends "+t)
		d.ext, d.sys = true, t
	}
	if bad() {
		decls = append(decls, vlib.Pick(r, []string{"system: cyclic numeric", "system: fixed 1.5", "system: extends", "system: foo", "system: extends a b", "system: 3"}))
	}

	// symbols
	if d.sys == "additive" && !d.ext {
		n := r.Range(2, 6)
		if r.Chance(1, 15) {
			n = r.Range(0, 1)
		}
		w := r.Range(1, 60) * n
		var parts []string
		for i := 0; i < n; i++ {
			s := vlib.Pick(r, symPool)
			if r.Bool() {
				parts = append(parts, fmt.Sprintf("%d %s", w, cssSym(r, s)))
			} else {
				parts = append(parts, fmt.Sprintf("%s %d", cssSym(r, s), w))
			}
			d.additive = append(d.additive, addI{w, str1(s)})
			if i == n-2 && r.Chance(1, 3) {
				w = 0
			} else if i == n-2 && r.Chance(1, 2) {
				w = 1
			} else {
				w = w - r.Range(1, max(1, w/2))
			}
			if w < 0 {
				w = 0
			}
		}
		// weights must be strictly decreasing: regenerate as invalid otherwise
		okOrder := true
		for i := 1; i < len(d.additive); i++ {
			if d.additive[i-1].w <= d.additive[i].w {
				okOrder = false
			}
		}
		if n > 0 {
			decls = append(decls, "additive-symbols: "+strings.Join(parts, ", "))
		}
		if !okOrder {
			d.additive = nil
		}
		if bad() {
			decls = append(decls, vlib.Pick(r, []string{"additive-symbols: 1 a, 2 b", "additive-symbols: 5 v, 5 w", "additive-symbols: 3 a, x", "additive-symbols: -1 a", "additive-symbols: 2 a,", "additive-symbols: 1.5 a"}))
		}
	} else if !d.ext || r.Chance(1, 10) {
		n := r.Range(1, 6)
		if r.Chance(1, 6) {
			n = 10
		}
		if r.Chance(1, 15) {
			n = 0
		}
		if n > 0 {
			syms := pickSyms(r, n)
			var parts []string
			for _, s := range syms {
				parts = append(parts, cssSym(r, s))
				d.symbols = append(d.symbols, str1(s))
			}
			decls = append(decls, "symbols: "+strings.Join(parts, " "))
			if r.Chance(1, 10) { // a second declaration replaces the first
				syms := pickSyms(r, r.Range(1, 4))
				parts, d.symbols = nil, nil
				for _, s := range syms {
					parts = append(parts, cssSym(r, s))
					d.symbols = append(d.symbols, str1(s))
				}
				decls = append(decls, "symbols: "+strings.Join(parts, " "))
			}
		}
		if bad() {
			decls = append(decls, vlib.Pick(r, []string{"symbols: a 5 b", "symbols: ", "symbols: a, b", "symbols: 1"}))
		}
	}

	// negative
	if r.Chance(1, 3) {
		a := vlib.Pick(r, []string{"-", "(", "−", "neg", "~", ""})
		if r.Bool() {
			decls = append(decls, "negative: "+cssSym(r, a))
			d.neg0, d.neg1 = str1(a), str1("")
		} else {
			b := vlib.Pick(r, []string{")", "!", "", "𝟘"})
			decls = append(decls, "negative: "+cssSym(r, a)+" "+cssSym(r, b))
			d.neg0, d.neg1 = str1(a), str1(b)
		}
		if bad() {
			decls = append(decls, vlib.Pick(r, []string{`negative: "a" "b" "c"`, "negative: 3", `negative: "a" 4`, "negative: "}))
		}
	}
	// prefix / suffix
	if r.Chance(1, 4) {
		s := vlib.Pick(r, []string{"<", "§", "", "no"})
		decls = append(decls, "prefix: "+cssSym(r, s))
		d.prefix = str1(s)
	}
	if r.Chance(1, 3) {
		s := vlib.Pick(r, []string{")", ": ", "", "、", " "})
		decls = append(decls, "suffix: "+cssSym(r, s))
		d.suffix = str1(s)
		if bad() {
			decls = append(decls, vlib.Pick(r, []string{`suffix: "a" "b"`, "suffix: 2", "prefix: 1 2"}))
		}
	}
	// range
	if r.Chance(1, 2) {
		if r.Chance(1, 5) {
			decls = append(decls, "range: auto")
			d.auto, d.ranges = true, nil
		} else {
			n := r.Range(1, 3)
			var parts []string
			var rs [][2]int
			for i := 0; i < n; i++ {
				lo := r.Range(-15, 30)
				hi := lo + r.Range(0, 25)
				ls, hs := intText(r, lo), intText(r, hi)
				if r.Chance(1, 8) {
					lo, ls = -1<<63, "infinite"
				}
				if r.Chance(1, 6) {
					hi, hs = 1<<63-1, "infinite"
				}
				if r.Chance(1, 12) {
					hi, hs = r.Range(500, 40000), ""
					if hi < lo {
						hi = lo
					}
					hs = fmt.Sprint(hi)
				}
				parts = append(parts, ls+" "+hs)
				rs = append(rs, [2]int{lo, hi})
			}
			decls = append(decls, "range: "+strings.Join(parts, ", "))
			d.auto, d.ranges = false, rs
		}
		if bad() {
			decls = append(decls, vlib.Pick(r, []string{"range: 3 1", "range: 1 2, 5 4", "range: 1", "range: 1 2 3", "range: a b", "range: 1.5 2", "range: auto, 1 2", "range: 1 2,"}))
		}
	}
	// pad
	if r.Chance(1, 3) {
		n := r.Range(0, 9)
		s := vlib.Pick(r, []string{"0", "_", "٠", "ab", "", "𝟘"})
		if r.Bool() {
			decls = append(decls, fmt.Sprintf("pad: %s %s", intText(r, n), cssSym(r, s)))
		} else {
			decls = append(decls, fmt.Sprintf("pad: %s %s", cssSym(r, s), intText(r, n)))
		}
		d.padInt, d.padSym = n, str1(s)
		if bad() {
			decls = append(decls, vlib.Pick(r, []string{`pad: -1 "x"`, `pad: 2`, `pad: "x"`, `pad: 2.5 "x"`, `pad: 1 2`, `pad: 1 "a" "b"`}))
		}
	}
	// fallback
	if r.Chance(1, 2) {
		t := vlib.Pick(r, targetPool)
		decls = append(decls, "fallback: "+t)
		d.fallback = t
		if bad() {
			decls = append(decls, vlib.Pick(r, []string{"fallback: none", "fallback: a b", "fallback: 3", `fallback: "x"`}))
		}
	}

	// order of declarations does not matter between different descriptors:
	// shuffle while keeping the relative order of the same descriptor
	// (a stable partition by random key per descriptor name)
	keys := map[string]int{}
	for _, dcl := range decls {
		n := dcl[:strings.Index(dcl, ":")]
		if _, ok := keys[n]; !ok {
			keys[n] = r.Intn(1000)
		}
	}
	sort.SliceStable(decls, func(i, j int) bool {
		return keys[decls[i][:strings.Index(decls[i], ":")]] < keys[decls[j][:strings.Index(decls[j], ":")]]
	})

	var sb strings.Builder
	fmt.Fprintf(&sb, "@counter-style %s {", name)
	for _, dcl := range decls {
		sb.WriteString(" " + dcl + ";")
	}
	sb.WriteString(" }")

	// validity of the whole rule (css-counter-styles-3 3.1)
	valid := true
	sys := d.sys
	if !d.ext && sys == "" {
		sys = "symbolic"
	}
	switch {
	case d.ext:
		valid = len(d.symbols) == 0 && len(d.additive) == 0
	case sys == "cyclic" || sys == "fixed" || sys == "symbolic":
		valid = len(d.symbols) >= 1
	case sys == "alphabetic" || sys == "numeric":
		valid = len(d.symbols) >= 2
	case sys == "additive":
		valid = len(d.additive) >= 2
	}
	out := ruleGen{name: name, text: sb.String()}
	if valid {
		out.intended = &d
	}
	return out
}

func max(a, b int) int {
	if a > b {
		return a
	}
	return b
}

// a set of rules forming extends / fallback graphs with cycles: a ring of
// 2-4 styles extending each other, styles extending into the ring, and
// fallback loops; every rule carries descriptors that show who inherited what.
func genGraphSet(r *vlib.Rng) ([]ruleGen, string) {
	n := r.Range(2, 4)
	var rules []ruleGen
	var sb strings.Builder
	decor := func(i int) string {
		var d []string
		if r.Chance(1, 2) {
			d = append(d, fmt.Sprintf("pad: %d %s", r.Range(2, 5), cssString(string(rune('p'+i)))))
		}
		if r.Chance(1, 3) {
			d = append(d, fmt.Sprintf("prefix: %s", cssString(string(rune('A'+i)))))
		}
		if r.Chance(1, 3) {
			d = append(d, fmt.Sprintf("negative: %s", cssString(string(rune('m'+i)))))
		}
		if r.Chance(1, 3) {
			lo := r.Range(-3, 5)
			d = append(d, fmt.Sprintf("range: %d %d", lo, lo+r.Range(0, 6)))
		}
		if r.Chance(1, 3) {
			d = append(d, "fallback: "+vlib.Pick(r, []string{"s0", "s1", "s2", "s3", "s4", "s5", "lower-roman", "nope"}))
		}
		return strings.Join(d, "; ")
	}
	add := func(name, body string) {
		text := fmt.Sprintf("@counter-style %s { %s }", name, body)
		rules = append(rules, ruleGen{name: name, text: text})
		sb.WriteString(text + "\n")
	}
	for i := 0; i < n; i++ { // the ring s0 -> s1 -> ... -> s0
		add(fmt.Sprintf("s%d", i), fmt.Sprintf("system: extends s%d; %s", (i+1)%n, decor(i)))
	}
	// a style extending into the ring, one extending an unknown style, a base style with a fallback loop
	add("s4", fmt.Sprintf("system: extends s%d; %s", r.Intn(n), decor(4)))
	add("s5", fmt.Sprintf("system: extends %s; %s", vlib.Pick(r, []string{"nope", "s4", "s6"}), decor(5)))
	add("s6", fmt.Sprintf("system: fixed %d; symbols: a b c; fallback: %s", r.Range(-2, 3), vlib.Pick(r, []string{"s6", "s4", "s5", "s0"})))
	return rules, sb.String()
}

// a set of rules with distinct names
func genRuleSet(r *vlib.Rng, malformed bool) ([]ruleGen, string) {
	n := r.Range(1, 6)
	names := append([]string{}, namePool...)
	var rules []ruleGen
	var sb strings.Builder
	for i := 0; i < n; i++ {
		k := r.Intn(len(names))
		if r.Chance(2, 3) { // prefer the sN names, so that targets hit
			k = r.Intn(7 - i)
		}
		name := names[k]
		names = append(names[:k], names[k+1:]...)
		rule := genRule(r, name, malformed)
		rules = append(rules, rule)
		sb.WriteString(rule.text + "\n")
	}
	return rules, sb.String()
}

// ------------------------------------------------------------------ documents

type cint struct {
	name string
	v    int
}

func coqCints(l pr.IntStrings) string {
	var out []string
	for _, x := range l {
		out = append(out, fmt.Sprintf("CI %s %s", vlib.Runes(x.String), vlib.Z(x.Int)))
	}
	return vlib.List(out)
}

func coqProps(style pr.ElementStyle) string {
	inc := style.GetCounterIncrement()
	return fmt.Sprintf("(CP %s %s %s %s %s)", coqCints(style.GetCounterReset().Values), coqCints(style.GetCounterSet().Values),
		vlib.Bool(inc.String == "auto"), coqCints(inc.Values), vlib.Bool(style.GetDisplay().Has("list-item")))
}

type docDump struct {
	styles      map[string]bool // counter style names used
	unsupported string
	pseudoLI    int // number of ::before / ::after with display: list-item
}

func (dd *docDump) items(cl pr.ContentProperties) string {
	var out []string
	for _, c := range cl {
		switch c.Type {
		case "string":
			out = append(out, "CString "+vlib.Runes(c.AsString()))
		case "counter()":
			n, st := c.AsCounter()
			dd.use(st)
			out = append(out, fmt.Sprintf("CCounter %s %s", vlib.Runes(n), coqSid(st)))
		case "counters()":
			n, sep, st := c.AsCounters()
			dd.use(st)
			out = append(out, fmt.Sprintf("CCounters %s %s %s", vlib.Runes(n), vlib.Runes(sep), coqSid(st)))
		default:
			dd.unsupported = "content item " + c.Type
		}
	}
	return vlib.List(out)
}

func (dd *docDump) use(st pr.CounterStyleID) {
	if st.Type == "" {
		dd.styles[st.Name] = true
	}
}

// marker dumps what markerToBox generates from the ::marker style of `el`
// (the ::marker of the element itself and of its list-item ::before / ::after:
// build.go:411 reads styleFor.Get(element, "marker") in both cases).
func (dd *docDump) marker(sf *tree.StyleFor, el *utils.HTMLNode) string {
	mk := "MkNone"
	ms := sf.Get(el, "marker")
	switch {
	case ms == nil:
		dd.unsupported = "marker without style"
	case ms.GetDisplay() == (pr.Display{"none"}):
	case ms.GetContent().String != "normal" && ms.GetContent().String != "inhibit":
		mk = fmt.Sprintf("(MkContent %s)", dd.items(ms.GetContent().Contents))
	default:
		if _, isURL := ms.GetListStyleImage().(pr.UrlImage); isURL {
			dd.unsupported = "list-style-image"
		}
		if lst := ms.GetListStyleType(); lst.Name != "none" {
			dd.use(lst)
			mk = fmt.Sprintf("(MkNormal %s)", coqSid(lst))
		}
	}
	return mk
}

func (dd *docDump) pseudo(sf *tree.StyleFor, el *utils.HTMLNode, which string) string {
	style := sf.Get(el, which)
	if style == nil {
		return "None"
	}
	content := style.GetContent()
	if style.GetDisplay() == (pr.Display{"none"}) || content.String == "none" || content.String == "normal" || content.String == "inhibit" {
		return "None"
	}
	mk := "MkNone"
	if style.GetDisplay().Has("list-item") {
		mk = dd.marker(sf, el)
		dd.pseudoLI++
	}
	return fmt.Sprintf("(Some (Pseudo %s %s %s))", coqProps(style), mk, dd.items(content.Contents))
}

func (dd *docDump) elem(sf *tree.StyleFor, el *utils.HTMLNode) string {
	style := sf.Get(el, "")
	if style == nil {
		dd.unsupported = "element without style"
		return ""
	}
	skip := style.GetDisplay() == (pr.Display{"none"})
	if style.GetFloat() == "footnote" {
		dd.unsupported = "footnote"
	}
	mk := "MkNone"
	if !skip && style.GetDisplay().Has("list-item") {
		mk = dd.marker(sf, el)
	}
	var kids []string
	if !skip {
		for _, ch := range el.NodeChildren(false) {
			if ch.Type == html.ElementNode {
				kids = append(kids, dd.elem(sf, ch))
			}
		}
	}
	before, after := "None", "None"
	if !skip {
		before, after = dd.pseudo(sf, el, "before"), dd.pseudo(sf, el, "after")
	}
	return fmt.Sprintf("(Elem %s %s %s %s %s %s)", vlib.Bool(skip), coqProps(style), mk, before, after, vlib.List(kids))
}

type obs struct {
	Kind string `json:"kind"`
	Text string `json:"text"`
}

func docCase(w *vlib.Writer, kind, htmlText string, tags []string) {
	var p parsed
	var observed []obs
	var coqObs []string
	dd := &docDump{styles: map[string]bool{}}
	var root string
	o := render.Guard(func() {
		p = parseDoc(htmlText)
		root = dd.elem(p.styleFor, p.root)
	})
	if o.Status != "ok" {
		// the style computation itself failed: not this property's code
		return
	}
	if dd.unsupported != "" {
		return
	}
	o = render.Guard(func() {
		tc := tree.NewTargetCollector()
		box := bo.BuildFormattingStructure(p.root, p.styleFor, bo.URLResolver{}, "http://verif.test/", &tc, p.cs, new([]bo.Box))
		render.Walk(box, func(b bo.Box, depth int) {
			tb, ok := b.(*bo.TextBox)
			if !ok {
				return
			}
			var c string
			switch tb.PseudoType {
			case "marker":
				c = "OMarker"
			case "before":
				c = "OBefore"
			case "after":
				c = "OAfter"
			default:
				return
			}
			observed = append(observed, obs{tb.PseudoType, string(tb.Text)})
			coqObs = append(coqObs, fmt.Sprintf("%s %s", c, vlib.Runes(string(tb.Text))))
		})
	})
	var used []string
	for n := range dd.styles {
		used = append(used, n)
	}
	names := reachable(p.cs, used...)
	desc := map[string]interface{}{"html": htmlText, "observed": observed}
	if o.Status != "ok" {
		desc["panic"] = o.Site + ": " + o.Msg
		tags = append(tags, "impl-panic")
	}
	if dd.pseudoLI > 0 {
		tags = append(tags, "pseudo-list-item")
	}
	w.Add(vlib.Case{
		Kind: kind,
		Coq:  fmt.Sprintf("CDoc %s %s %s %s", coqTable(p.cs, names), root, vlib.Bool(o.Status != "ok"), vlib.List(coqObs)),
		Desc: desc, Tags: dedup(tags), Nontrivial: len(observed) > 1,
	})
}

var counterNames = []string{"a", "b", "c", "list-item"}
var docStyles = []string{"decimal", "lower-roman", "upper-alpha", "decimal-leading-zero", "disc", "lower-greek", "hebrew", "cjk-decimal", "georgian", "s0", "s1", "s2"}

func genCints(r *vlib.Rng, withValues bool, big bool) string {
	n := r.Range(1, 2)
	var parts []string
	for i := 0; i < n; i++ {
		name := vlib.Pick(r, counterNames)
		if r.Chance(1, 10) {
			name = "a"
		}
		if withValues && r.Chance(2, 3) {
			v := r.Range(-4, 12)
			if r.Chance(1, 25) {
				v = vlib.Pick(r, []int{3999, 4000, -4000})
				if big {
					v = vlib.Pick(r, []int{1 << 24, -(1 << 24), 2147483647, -2147483648, 3999, 4000})
				}
			}
			parts = append(parts, fmt.Sprintf("%s %d", name, v))
		} else {
			parts = append(parts, name)
		}
	}
	return strings.Join(parts, " ")
}

func genContent(r *vlib.Rng, big bool) string {
	style := func() string {
		switch {
		case r.Chance(1, 2):
			return ""
		case r.Chance(1, 10):
			return ", " + cssString(vlib.Pick(r, []string{"*", "§", "none"}))
		case r.Chance(1, 8):
			systems := []string{"cyclic", "numeric", "alphabetic", "symbolic", "fixed", ""}
			if big { // a symbolic style repeats its symbol value/3 times: not with huge counter values
				systems = systems[:3]
			}
			return ", symbols(" + vlib.Pick(r, systems) + ` "x" "y" "z")`
		case r.Chance(1, 20):
			return ", none"
		}
		if big {
			return ", " + vlib.Pick(r, docStyles[:9]) // predefined styles only
		}
		return ", " + vlib.Pick(r, docStyles)
	}
	var parts []string
	parts = append(parts, `"["`)
	n := r.Range(1, 2)
	for i := 0; i < n; i++ {
		if i > 0 {
			parts = append(parts, `"|"`)
		}
		name := vlib.Pick(r, counterNames)
		if r.Bool() {
			parts = append(parts, fmt.Sprintf("counters(%s, %s%s)", name, cssString(vlib.Pick(r, []string{".", "-", "", "::"})), style()))
		} else {
			parts = append(parts, fmt.Sprintf("counter(%s%s)", name, style()))
		}
	}
	parts = append(parts, `"]"`)
	return strings.Join(parts, " ")
}

// pli: documents with ::before / ::after pseudo-elements that are list items
// (display: list-item: own ::marker, implicit list-item increment) and with a
// counter-style list-style-type inherited from body / classes, so that the
// marker text of such a pseudo-element depends on the counter values. The
// extra random draws are made only when pli is set (the other documents of a
// given VERIF_SEED stay what they were).
func genDoc(r *vlib.Rng, pli bool) string {
	var sb strings.Builder
	sb.WriteString("<style>\n")
	// huge counter values only in documents without author-defined / symbolic styles
	// (a symbolic or additive style repeats its symbols value/weight times)
	big := r.Chance(1, 5)
	if !big && r.Chance(1, 2) {
		rules, text := genRuleSet(r, false)
		_ = rules
		sb.WriteString(text)
	}
	// classes
	nr := r.Range(2, 4)
	for i := 0; i < nr; i++ {
		fmt.Fprintf(&sb, ".r%d { counter-reset: %s }\n", i, genCints(r, true, big))
	}
	for i := 0; i < 2; i++ {
		fmt.Fprintf(&sb, ".s%d { counter-set: %s }\n", i, genCints(r, true, big))
	}
	for i := 0; i < 3; i++ {
		if r.Chance(1, 8) {
			fmt.Fprintf(&sb, ".i%d { counter-increment: none }\n", i)
		} else {
			fmt.Fprintf(&sb, ".i%d { counter-increment: %s }\n", i, genCints(r, true, big))
		}
	}
	sb.WriteString(".n { display: none }\n.li { display: list-item }\n.bl { display: block }\n.il { display: inline }\n")
	for i := 0; i < 3; i++ {
		extra := ""
		if r.Chance(1, 4) {
			extra = "counter-increment: " + genCints(r, true, big) + "; "
		} else if r.Chance(1, 6) {
			extra = "counter-reset: " + genCints(r, true, big) + "; "
		} else if r.Chance(1, 10) {
			extra = "counter-set: " + genCints(r, true, big) + "; "
		}
		if pli {
			if r.Chance(3, 5) {
				extra += "display: list-item; "
			}
			if r.Chance(1, 6) {
				extra += "counter-set: " + genCints(r, true, big) + "; "
			}
			if r.Chance(1, 6) {
				extra += "counter-reset: " + genCints(r, true, big) + "; "
			}
		}
		fmt.Fprintf(&sb, ".b%d::before { %scontent: %s }\n", i, extra, genContent(r, big))
	}
	for i := 0; i < 2; i++ {
		extra := ""
		if r.Chance(1, 4) {
			extra = "counter-increment: " + genCints(r, true, big) + "; "
		}
		if pli {
			if r.Chance(3, 5) {
				extra += "display: list-item; "
			}
			if r.Chance(1, 5) {
				extra += "counter-reset: " + genCints(r, true, big) + "; "
			} else if r.Chance(1, 5) {
				extra += "counter-set: " + genCints(r, true, big) + "; "
			}
		}
		fmt.Fprintf(&sb, ".a%d::after { %scontent: %s }\n", i, extra, genContent(r, big))
	}
	if pli {
		lst := func() string {
			pool := append([]string{`"→"`, `symbols(cyclic "◆" "◇")`, `symbols(numeric "0" "1" "2")`, "none", "decimal", "lower-roman"}, docStyles...)
			if big {
				pool = pool[:len(pool)-3] // author-defined styles are not installed in big documents
			}
			return vlib.Pick(r, pool)
		}
		if r.Chance(4, 5) {
			fmt.Fprintf(&sb, "body { list-style-type: %s }\n", lst())
		}
		for i := 0; i < 2; i++ {
			fmt.Fprintf(&sb, ".t%d { list-style-type: %s }\n", i, lst())
		}
		if r.Chance(1, 4) {
			sb.WriteString("body { list-style-position: inside }\n")
		}
		if r.Chance(1, 5) {
			// the ::marker style of an element is also the one of its list-item ::before / ::after
			fmt.Fprintf(&sb, ".b0::marker, .a0::marker { content: %s }\n", genContent(r, big))
		}
		if r.Chance(1, 6) {
			sb.WriteString("body { counter-reset: list-item }\n")
		}
	}
	if r.Chance(1, 5) {
		fmt.Fprintf(&sb, "li::marker { content: %s }\n", genContent(r, big))
	}
	if r.Chance(1, 4) {
		fmt.Fprintf(&sb, "ol { list-style-type: %s }\n", vlib.Pick(r, append([]string{`"→"`, `symbols(cyclic "◆" "◇")`, "none"}, docStyles...)))
	}
	if r.Chance(1, 6) {
		sb.WriteString("li { list-style-position: inside }\n")
	}
	sb.WriteString("</style>\n<body>")
	budget := r.Range(4, 28)
	var gen func(depth int, inList bool)
	gen = func(depth int, inList bool) {
		for budget > 0 && (depth == 0 || !r.Chance(1, 4)) {
			budget--
			tag := vlib.Pick(r, []string{"div", "div", "p", "span", "ol", "ul", "li", "li", "section"})
			if inList && r.Chance(2, 3) {
				tag = "li"
			}
			var cls []string
			for _, c := range []struct {
				p    string
				n    int
				odds int
			}{{"r", nr, 6}, {"s", 2, 12}, {"i", 3, 4}, {"b", 3, 2}, {"a", 2, 5}} {
				if r.Chance(1, c.odds) {
					cls = append(cls, fmt.Sprintf("%s%d", c.p, r.Intn(c.n)))
				}
			}
			if pli && r.Chance(1, 5) {
				cls = append(cls, fmt.Sprintf("t%d", r.Intn(2)))
			}
			if depth > 0 && r.Chance(1, 14) {
				cls = append(cls, "n")
			} else if r.Chance(1, 10) {
				cls = append(cls, vlib.Pick(r, []string{"li", "bl", "il"}))
			}
			attr := ""
			if len(cls) > 0 {
				attr = fmt.Sprintf(` class="%s"`, strings.Join(cls, " "))
			}
			if r.Chance(1, 10) {
				attr += fmt.Sprintf(` style="counter-reset: %s"`, genCints(r, true, big))
			}
			fmt.Fprintf(&sb, "<%s%s>", tag, attr)
			if r.Chance(1, 3) {
				sb.WriteString("t")
			}
			if depth < 5 && tag != "span" {
				gen(depth+1, tag == "ol" || tag == "ul")
			}
			fmt.Fprintf(&sb, "</%s>", tag)
		}
	}
	gen(0, false)
	sb.WriteString("</body>")
	return sb.String()
}

// ------------------------------------------------------------------ corpus

type corpusEntry struct {
	Kind   string `json:"kind"` // "render" | "doc"
	CSS    string `json:"css"`
	Style  string `json:"style"`
	Mode   int    `json:"mode"`
	Values []int  `json:"values"`
	HTML   string `json:"html"`
	Note   string `json:"note"`
}

func runCorpus(w *vlib.Writer) {
	files, _ := filepath.Glob("/verif/corpus/C19/*.case")
	sort.Strings(files)
	for _, f := range files {
		fd, err := os.Open(f)
		if err != nil {
			continue
		}
		sc := bufio.NewScanner(fd)
		sc.Buffer(make([]byte, 1<<20), 1<<24)
		for sc.Scan() {
			line := strings.TrimSpace(sc.Text())
			if line == "" || strings.HasPrefix(line, "#") {
				continue
			}
			var e corpusEntry
			if err := json.Unmarshal([]byte(line), &e); err != nil {
				panic(fmt.Sprintf("%s: %v", f, err))
			}
			tags := []string{"corpus", "corpus:" + filepath.Base(f)}
			switch e.Kind {
			case "render":
				cs := tableOf(e.CSS)
				renderCase(w, "corpus-render", e.CSS, cs, pr.CounterStyleID{Name: e.Style}, e.Mode, e.Values, tags)
			case "doc":
				docCase(w, "corpus-doc", e.HTML, tags)
			}
		}
		fd.Close()
	}
}

// ------------------------------------------------------------------ main

func rangeInts(lo, hi int) []int {
	var out []int
	for i := lo; i <= hi; i++ {
		out = append(out, i)
	}
	return out
}

func main() {
	out := flag.String("out", "cases.jsonl", "output file")
	n := flag.Int("n", 1000, "number of cases")
	flag.Parse()
	rng := vlib.NewRng(vlib.Seed())
	w := vlib.NewWriter(*out)
	defer w.Close()

	runCorpus(w)

	// (a1) every predefined style: boundaries + big values, then a slice of [-300, 3000]
	ua := tableOf("")
	var uaNames []string
	for k := range ua {
		uaNames = append(uaNames, k)
	}
	sort.Strings(uaNames)
	noLimit := func(int) bool { return true }
	for _, name := range uaNames {
		names := reachable(ua, name)
		vals := boundaryValues(ua, names)
		if bigOK(ua, names) {
			vals = append(vals, bigValues...)
		}
		id := pr.CounterStyleID{Name: name}
		renderCase(w, "ua-boundary", "", ua, id, 0, uniqInts(vals, noLimit), []string{"ua"})
		renderCase(w, "ua-marker", "", ua, id, 2, uniqInts(append([]int{0, 1, 2, 10, -3, 4000}, vals[:6]...), noLimit), []string{"ua", "marker"})
	}
	// all of [-300, 3000] for a rotating subset of the predefined styles (all of them in the thorough tier)
	full := 6
	if os.Getenv("VERIF_TIER") == "thorough" {
		full = len(uaNames)
	}
	start := rng.Intn(len(uaNames))
	always := []string{"decimal", "lower-roman", "upper-alpha", "hebrew"}
	var fullNames []string
	fullNames = append(fullNames, always...)
	for i := 0; i < full; i++ {
		fullNames = append(fullNames, uaNames[(start+i)%len(uaNames)])
	}
	for _, name := range dedupKeep(fullNames) {
		for lo := -300; lo <= 3000; lo += 150 {
			hi := lo + 149
			if hi > 3000 {
				hi = 3000
			}
			renderCase(w, "ua-interval", "", ua, pr.CounterStyleID{Name: name}, 0, rangeInts(lo, hi), []string{"ua", "interval"})
		}
	}

	// generated streams
	for w.N() < *n {
		r := rng.Fork()
		switch k := r.Intn(20); {
		case k < 8: // (a2) generated rule sets, rendering
			malformed := r.Chance(1, 4)
			rules, text := genRuleSet(r, malformed)
			if r.Chance(1, 8) {
				malformed = false
				rules, text = genGraphSet(r)
			}
			cs := tableOf(text)
			for _, rule := range rules {
				if _, ok := cs[rule.name]; !ok && r.Chance(2, 3) {
					continue
				}
				names := reachable(cs, rule.name)
				vals := append(rangeInts(-14, 34), boundaryValues(cs, names)...)
				if bigOK(cs, names) {
					vals = append(vals, bigValues...)
				}
				lim := func(v int) bool { return bigOK(cs, names) || (v >= -6000 && v <= 6000) }
				mode := 0
				tags := []string{"gen"}
				if r.Chance(1, 5) {
					mode = 2
					tags = append(tags, "marker")
				}
				if malformed {
					tags = append(tags, "malformed")
				}
				for _, nm := range names {
					d := cs[nm]
					if d.System.Extends != "" {
						tags = append(tags, "extends")
					}
					if d.Fallback != "" {
						tags = append(tags, "fallback")
					}
					tags = append(tags, "system:"+d.System.System)
				}
				renderCase(w, "gen-render", text, cs, pr.CounterStyleID{Name: rule.name}, mode, uniqInts(vals, lim), tags)
			}
		case k < 10: // (a3) symbols() / string styles, unknown names
			var id pr.CounterStyleID
			switch r.Intn(4) {
			case 0:
				id = pr.CounterStyleID{Type: "string", Name: vlib.Pick(r, symPool)}
			case 1:
				id = pr.CounterStyleID{Name: vlib.Pick(r, []string{"nope", "none", "", "decimal"})}
			default:
				id = pr.CounterStyleID{Type: "symbols()", Name: vlib.Pick(r, []string{"cyclic", "numeric", "alphabetic", "symbolic", "fixed", "additive", "bogus"}), Symbols: pickSyms(r, r.Range(0, 4))}
			}
			vals := append(rangeInts(-8, 20), 100, -100, 1000)
			if id.Name != "symbolic" {
				vals = append(vals, bigValues...)
			}
			renderCase(w, "fn-render", "", ua, id, 1+r.Intn(2), uniqInts(vals, noLimit), []string{"fn", "type:" + id.Type})
		case k < 14: // descriptor parsing: intended record vs parsed record
			malformed := r.Chance(1, 2)
			rules, text := genRuleSet(r, malformed)
			cs := tableOf(text)
			for _, rule := range rules {
				got, ok := cs[rule.name]
				if _, isUA := ua[rule.name]; isUA && !ok {
					continue
				}
				var gotS, wantS, gotD, wantD string
				gotS, wantS, gotD, wantD = "None", "None", "rejected", "rejected"
				if ok {
					if _, isUA := ua[rule.name]; isUA && rule.intended == nil {
						continue // the UA definition stays
					}
					gotS, gotD = "(Some "+fromGo(got).coq()+")", fromGo(got).String()
				}
				if rule.intended != nil {
					wantS, wantD = "(Some "+rule.intended.coq()+")", rule.intended.String()
				}
				tags := []string{"parse"}
				if malformed {
					tags = append(tags, "malformed")
				}
				w.Add(vlib.Case{Kind: "parse", Coq: fmt.Sprintf("CParse %s %s", wantS, gotS),
					Desc: map[string]interface{}{"rule": rule.text, "intended": wantD, "parsed": gotD},
					Tags: tags, Nontrivial: true})
			}
		default: // (b) documents; one third of them with list-item ::before / ::after
			docCase(w, "doc", genDoc(r, k >= 18), []string{"doc"})
		}
	}
}

func dedupKeep(l []string) []string {
	seen := map[string]bool{}
	var out []string
	for _, s := range l {
		if !seen[s] {
			seen[s] = true
			out = append(out, s)
		}
	}
	return out
}
