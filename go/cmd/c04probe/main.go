package main

import (
	"fmt"
	"time"

	"verifharness/vlib/render"

	pr "github.com/benoitkugler/webrender/css/properties"
	"github.com/benoitkugler/webrender/html/tree"
	"github.com/benoitkugler/webrender/text"
	"github.com/benoitkugler/webrender/text/hyphen"
	"github.com/benoitkugler/webrender/utils"
)

type textCtx struct {
	fonts  text.FontConfiguration
	hyphen map[text.HyphenDictKey]hyphen.Hyphener
	struts map[text.StrutLayoutKey][2]pr.Float
}

func (c *textCtx) Fonts() text.FontConfiguration                          { return c.fonts }
func (c *textCtx) HyphenCache() map[text.HyphenDictKey]hyphen.Hyphener    { return c.hyphen }
func (c *textCtx) StrutLayoutsCache() map[text.StrutLayoutKey][2]pr.Float { return c.struts }

func main() {
	for _, f := range []string{"AHEM____.TTF", "weasyprint.otf"} {
		src := fmt.Sprintf(`<html><head><style>@font-face{font-family:docfont;src:url(file:///repo/resources_test/%s)}
		p{font-family:docfont} b{font-family:Ahem} i{font-family:weasyprint} u{font-family:nosuch} s{font-family:docfont;font-weight:bold;font-style:italic}
		</style></head><body><p>a</p><b>b</b><i>c</i><u>d</u><s>e</s></body></html>`, f)
		doc, e := tree.NewHTML(utils.InputString(src), "http://verif.test/", nil, "")
		if e != nil {
			panic(e)
		}
		var pageRules []tree.PageRule
		ctx := &textCtx{fonts: render.NewFonts("pango"), hyphen: map[text.HyphenDictKey]hyphen.Hyphener{},
			struts: map[text.StrutLayoutKey][2]pr.Float{}}
		sf := tree.GetAllComputedStyles(doc, nil, false, ctx.fonts, nil, &pageRules, nil, false, ctx)
		for k, st := range tree.VerifC04Styles(sf) {
			if k.Element == nil || k.PseudoType != "" {
				continue
			}
			t0 := time.Now()
			ex := text.CharacterRatio(st, pr.NewTextRatioCache(), false, ctx.fonts)
			ch := text.CharacterRatio(st, pr.NewTextRatioCache(), true, ctx.fonts)
			fmt.Println(f, st.GetFontFamily(), ex, ch, time.Since(t0))
		}
	}
}
