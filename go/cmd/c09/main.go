// Harness for C09: builds random documents, dumps /repo's box tree BEFORE the
// anonymous-box fix-up (model input, through the hook
// html/boxes/verif_export_c09.go) and the result of
// boxes.BuildFormattingStructure (observable), and writes one case per
// document as a Coq term of type Check.C09.case.
package main

import (
	"flag"
	"fmt"
	"os"
	"path/filepath"
	"regexp"
	"sort"
	"strings"

	"verifharness/vlib"
	"verifharness/vlib/render"

	"github.com/benoitkugler/webrender/css/counters"
	pr "github.com/benoitkugler/webrender/css/properties"
	bo "github.com/benoitkugler/webrender/html/boxes"
	"github.com/benoitkugler/webrender/html/tree"
	"github.com/benoitkugler/webrender/images"
	"github.com/benoitkugler/webrender/utils"
	"golang.org/x/net/html"
)

const baseURL = "file:///repo/resources_test/"

// ---------------------------------------------------------------- type codes

var concrete = []bo.BoxType{
	bo.BlockT, bo.LineT, bo.InlineT, bo.TextT, bo.InlineBlockT, bo.BlockReplacedT, bo.InlineReplacedT,
	bo.TableT, bo.InlineTableT, bo.TableRowGroupT, bo.TableRowT, bo.TableColumnGroupT, bo.TableColumnT,
	bo.TableCellT, bo.TableCaptionT, bo.FlexT, bo.InlineFlexT, bo.GridT, bo.InlineGridT,
}

func tyCode(t bo.BoxType) int {
	for i, c := range concrete {
		if c == t {
			return i
		}
	}
	return 19
}

var tyNames = []string{
	"Block", "Line", "Inline", "Text", "InlineBlock", "BlockReplaced", "InlineReplaced", "Table", "InlineTable",
	"RowGroup", "Row", "ColGroup", "Col", "Cell", "Caption", "Flex", "InlineFlex", "Grid", "InlineGrid", "Other",
}

func pseudoCode(s string) int {
	switch s {
	case "":
		return 0
	case "before":
		return 1
	case "after":
		return 2
	case "marker":
		return 3
	}
	return 9
}

// ---------------------------------------------------------------- documents

type doc struct {
	root  *utils.HTMLNode
	sf    *tree.StyleFor
	res   bo.URLResolver
	base  string
	tc    *tree.TargetCollector
	cs    counters.CounterStyle
	foot  *[]bo.Box
	index map[*html.Node]int
}

func parseDoc(src string) (*doc, error) {
	h, err := tree.NewHTML(utils.InputString(src), baseURL, utils.DefaultUrlFetcher, "")
	if err != nil {
		return nil, err
	}
	h.UAStyleSheet = tree.TestUAStylesheet
	cs := make(counters.CounterStyle)
	sf := tree.GetAllComputedStyles(h, nil, false, nil, cs, nil, nil, false, nil)
	cache := images.NewCache()
	imgFetcher := func(url string, forcedMimeType string, orientation pr.SBoolFloat) images.Image {
		return images.GetImageFromUri(cache, h.UrlFetcher, false, url, forcedMimeType, orientation)
	}
	tc := tree.NewTargetCollector()
	d := &doc{root: h.Root, sf: sf, res: bo.URLResolver{Fetch: h.UrlFetcher, FetchImage: imgFetcher}, base: h.BaseUrl,
		tc: &tc, cs: cs, foot: new([]bo.Box), index: map[*html.Node]int{}}
	// preorder numbering of element nodes
	n := 0
	var walk func(nd *html.Node)
	walk = func(nd *html.Node) {
		if nd.Type == html.ElementNode {
			d.index[nd] = n
			n++
		}
		for c := nd.FirstChild; c != nil; c = c.NextSibling {
			walk(c)
		}
	}
	walk((*html.Node)(h.Root))
	return d, nil
}

// the display value an element's style attribute declares ("" if none): the last display declaration wins
func declaredDisplay(nd *html.Node) string {
	out := ""
	for _, a := range nd.Attr {
		if a.Key != "style" {
			continue
		}
		for _, decl := range strings.Split(a.Val, ";") {
			kv := strings.SplitN(decl, ":", 2)
			if len(kv) == 2 && strings.TrimSpace(strings.ToLower(kv[0])) == "display" {
				out = strings.TrimSpace(strings.ToLower(kv[1]))
			}
		}
	}
	return out
}

// elements that are display:none or descend from one (must generate no box).
// MUST be called on a parse on which no box has been generated yet: elementToBox
// writes into the style objects it visits (footnote-display, "no root element").
// An element is hidden when its computed display is none OR its style attribute
// says so (the generated documents have no !important rule that could override
// a style attribute), so the list does not depend on what box generation does.
func (d *doc) hidden() []int {
	var out []int
	var walk func(nd *html.Node, hid bool)
	walk = func(nd *html.Node, hid bool) {
		if nd.Type == html.ElementNode {
			if !hid {
				st := d.sf.Get((*utils.HTMLNode)(nd), "")
				if st != nil && st.GetDisplay() == (pr.Display{"none"}) {
					hid = true
				}
				if declaredDisplay(nd) == "none" {
					hid = true
				}
			}
			if hid {
				out = append(out, d.index[nd])
			}
		}
		for c := nd.FirstChild; c != nil; c = c.NextSibling {
			walk(c, hid)
		}
	}
	walk((*html.Node)(d.root), false)
	return out
}

// the element tree of the document as a term of type Box.ElementGen.elem: per element its index, "display is
// none" and "float is footnote" (same sources as hidden(): pristine computed styles, style attribute)
func (d *doc) elemTerm() string {
	var walk func(nd *html.Node) string
	walk = func(nd *html.Node) string {
		none, fnote := false, false
		if st := d.sf.Get((*utils.HTMLNode)(nd), ""); st != nil {
			none = st.GetDisplay() == (pr.Display{"none"})
			fnote = st.GetFloat() == "footnote"
		}
		if declaredDisplay(nd) == "none" {
			none = true
		}
		var kids []string
		for c := nd.FirstChild; c != nil; c = c.NextSibling {
			if c.Type == html.ElementNode {
				kids = append(kids, walk(c))
			}
		}
		return fmt.Sprintf("(El %s %s %s [%s])", vlib.Z(d.index[nd]), vlib.Bool(none), vlib.Bool(fnote), strings.Join(kids, ";"))
	}
	return walk((*html.Node)(d.root))
}

var pseudoRuleRe = regexp.MustCompile(`#(n\d+)::(before|after)\{([^}]*)\}`)

// the ::before / ::after pseudo-elements whose display is none: pristine computed styles, or a rule
// `#id::before{...display:none...}` of the document's style sheet (the generated sheets have one rule per pseudo-element)
func (d *doc) hiddenPseudo(src string) (terms []string, desc []string) {
	seen := map[string]bool{}
	add := func(idx int, ps string) {
		t := fmt.Sprintf("(HP %s %d)", vlib.Z(idx), pseudoCode(ps))
		if !seen[t] {
			seen[t] = true
			terms = append(terms, t)
			desc = append(desc, fmt.Sprintf("%d::%s", idx, ps))
		}
	}
	byID := map[string]int{}
	for nd, idx := range d.index {
		for _, a := range nd.Attr {
			if a.Key == "id" {
				byID[a.Val] = idx
			}
		}
		for _, ps := range []string{"before", "after"} {
			if st := d.sf.Get((*utils.HTMLNode)(nd), ps); st != nil && st.GetDisplay() == (pr.Display{"none"}) {
				add(idx, ps)
			}
		}
	}
	for _, m := range pseudoRuleRe.FindAllStringSubmatch(src, -1) {
		disp := ""
		for _, decl := range strings.Split(m[3], ";") {
			kv := strings.SplitN(decl, ":", 2)
			if len(kv) == 2 && strings.TrimSpace(kv[0]) == "display" {
				disp = strings.TrimSpace(kv[1])
			}
		}
		if idx, ok := byID[m[1]]; ok && disp == "none" {
			add(idx, m[2])
		}
	}
	sort.Strings(terms)
	sort.Strings(desc)
	return terms, desc
}

// ---------------------------------------------------------------- dumps

func attrInt(el *html.Node, name string, min int) int {
	if el == nil {
		return 1
	}
	return bo.VerifC09IntegerAttribute((*utils.HTMLNode)(el).Get(name), min)
}

type dumper struct {
	d     *doc
	desc  strings.Builder
	nodes int
	types map[int]int
}

func runes(rs []rune) string {
	parts := make([]string, len(rs))
	for i, r := range rs {
		parts[i] = fmt.Sprint(int(r))
	}
	return "[" + strings.Join(parts, ";") + "]"
}

func zs(xs ...int) string {
	parts := make([]string, len(xs))
	for i, x := range xs {
		parts[i] = vlib.Z(x)
	}
	if len(parts) == 0 {
		return "[]"
	}
	return "[" + strings.Join(parts, ";") + "]%Z"
}

func (dp *dumper) elIndex(b *bo.BoxFields) int {
	if b.Element == nil {
		return -1
	}
	if i, ok := dp.d.index[b.Element]; ok {
		return i
	}
	return -2
}

func isAnon(st pr.ElementStyle) bool {
	_, ok := st.(*tree.AnonymousStyle)
	return ok
}

// input node (before fix-up)
func (dp *dumper) in(b bo.Box, depth int) string {
	f := b.Box()
	ty := tyCode(b.Type())
	dp.nodes++
	dp.types[ty]++
	bits := 0
	if isAnon(f.Style) {
		bits |= 1
	}
	if f.IsFloated() {
		bits |= 2
	}
	if f.IsAbsolutelyPositioned() {
		bits |= 4
	}
	if f.IsRunning() {
		bits |= 8
	}
	switch f.Style.GetWhiteSpace() {
	case "normal", "nowrap", "pre-line":
		bits |= 16
	}
	disp := 0
	switch f.Style.GetDisplay() {
	case pr.Display{"table-header-group"}:
		disp = 1
	case pr.Display{"table-footer-group"}:
		disp = 2
	}
	capSide := 2
	switch f.Style.GetCaptionSide() {
	case "top":
		capSide = 0
	case "bottom":
		capSide = 1
	}
	ecs, ers, esp := attrInt(f.Element, "colspan", 1), attrInt(f.Element, "rowspan", 0), attrInt(f.Element, "span", 1)
	nums := "[]"
	if !(f.Colspan == 0 && f.Rowspan == 0 && ecs == 1 && ers == 1 && esp == 1 && disp == 0 && capSide == 0) {
		nums = zs(f.Colspan, f.Rowspan, ecs, ers, esp, disp, capSide)
	}
	text := "[]"
	var txt string
	if tb, ok := b.(*bo.TextBox); ok {
		text = runes(tb.Text)
		txt = fmt.Sprintf(" %q", string(tb.Text))
	}
	fmt.Fprintf(&dp.desc, "%s%s el=%d ps=%d bits=%d nums=%s%s\n", strings.Repeat(" ", depth), tyNames[ty], dp.elIndex(f), pseudoCode(f.PseudoType), bits, nums, txt)
	kids := make([]string, 0, len(f.Children))
	for _, c := range f.Children {
		kids = append(kids, dp.in(c, depth+1))
	}
	return fmt.Sprintf("(Nd %d %s %d %d %s %s [%s])", ty, vlib.Z(dp.elIndex(f)), pseudoCode(f.PseudoType), bits, nums, text, strings.Join(kids, ";"))
}

// output node (after BuildFormattingStructure)
func (dp *dumper) out(b bo.Box, depth int) string {
	f := b.Box()
	ty := tyCode(b.Type())
	bits := 0
	if isAnon(f.Style) {
		bits |= 1
	}
	if f.IsTableWrapper {
		bits |= 2
	}
	if f.IsHeader {
		bits |= 4
	}
	if f.IsFooter {
		bits |= 8
	}
	if f.IsFlexItem {
		bits |= 16
	}
	if f.IsGridItem {
		bits |= 32
	}
	if !f.IsInNormalFlow() {
		bits |= 64
	}
	if f.IsRunning() {
		bits |= 128
	}
	nums := "[]"
	if f.GridX != 0 || f.Colspan != 0 || f.Rowspan != 0 {
		nums = zs(f.GridX, f.Colspan, f.Rowspan)
	}
	text := "[]"
	var txt string
	if tb, ok := b.(*bo.TextBox); ok {
		text = runes(tb.Text)
		txt = fmt.Sprintf(" %q", string(tb.Text))
	}
	fmt.Fprintf(&dp.desc, "%s%s el=%d ps=%d bits=%d nums=%s%s\n", strings.Repeat(" ", depth), tyNames[ty], dp.elIndex(f), pseudoCode(f.PseudoType), bits, nums, txt)
	var all []bo.Box
	if t, ok := b.(bo.TableBoxITF); ok {
		for _, g := range t.Table().ColumnGroups {
			all = append(all, g)
		}
	}
	all = append(all, f.Children...)
	kids := make([]string, 0, len(all))
	for _, c := range all {
		kids = append(kids, dp.out(c, depth+1))
	}
	return fmt.Sprintf("(Nd %d %s %d %d %s %s [%s])", ty, vlib.Z(dp.elIndex(f)), pseudoCode(f.PseudoType), bits, nums, text, strings.Join(kids, ";"))
}

// ---------------------------------------------------------------- structural tags: cells sharing a grid slot

// For every row group of every table of the tree: the pairs of cells whose slot rectangles
// (GridX, row index, Colspan, Rowspan) intersect, classified.  "colspan-over-rowspan" is the construct of the known
// finding: the later cell spans columns (colspan > 1), starts strictly left of the earlier one, which comes from a
// row above and spans rows (rowspan > 1).  Anything else is "other".
func slotOverlapTags(root bo.Box) []string {
	found := map[string]bool{}
	var walk func(b bo.Box)
	walk = func(b bo.Box) {
		if b.Box().IsRunning() {
			// running elements are opaque (not fixed up), as in Box/BoxWf.v
			return
		}
		if _, ok := b.(bo.TableBoxITF); ok {
			for _, g := range b.Box().Children {
				if g.Type() != bo.TableRowGroupT {
					continue
				}
				type slot struct{ x, y, w, h int }
				var slots []slot
				for y, r := range g.Box().Children {
					for _, c := range r.Box().Children {
						f := c.Box()
						slots = append(slots, slot{f.GridX, y, f.Colspan, f.Rowspan})
					}
				}
				for i, a := range slots {
					for _, c := range slots[i+1:] {
						if a.x < c.x+c.w && c.x < a.x+a.w && a.y < c.y+c.h && c.y < a.y+a.h {
							if a.y < c.y && a.h > 1 && c.w > 1 && c.x < a.x {
								found["slot-overlap:colspan-over-rowspan"] = true
							} else {
								found["slot-overlap:other"] = true
							}
						}
					}
				}
			}
		}
		for _, c := range b.Box().Children {
			walk(c)
		}
	}
	walk(root)
	var out []string
	for t := range found {
		out = append(out, t)
	}
	return out
}

// ---------------------------------------------------------------- generator

var displays = []string{
	"block", "inline", "inline-block", "flow-root", "table", "inline-table", "flex", "inline-flex", "grid", "inline-grid",
	"table-row", "table-row-group", "table-header-group", "table-footer-group", "table-column", "table-column-group",
	"table-cell", "table-caption", "list-item", "none", "inline list-item", "block flow", "inline flow-root",
}

var tableDisplays = []string{
	"table", "inline-table", "table-row", "table-row-group", "table-header-group", "table-footer-group", "table-column",
	"table-column-group", "table-cell", "table-caption",
}

var texts = []string{"a", "b c", " ", "\n  ", "  x ", "\t", "y", " z", "w ", " ", " \n "}

type gen struct {
	r      *vlib.Rng
	n      int // elements so far
	max    int
	css    strings.Builder
	tags   map[string]bool
	tabley bool // favour table displays
}

// every other box-generating feature an element with display:none is crossed with (the property says that NO
// box is generated for it, whatever else its style asks for)
var noneCross = []string{
	"float:left", "float:right", "float:footnote", "float:footnote;footnote-display:block",
	"float:footnote;footnote-display:inline", "float:footnote;footnote-display:compact",
	"position:absolute", "position:fixed", "position:relative", "position:running(hdr)",
	"list-style-type:decimal;list-style-position:inside", "list-style-position:outside",
	"footnote-display:block", "content:'k'", "",
}

func (g *gen) styleFor(allowNone bool) string {
	r := g.r
	var decl []string
	if allowNone && r.Chance(1, 16) {
		// the display:none stream: none crossed with one or two other features (also in the other order)
		k := r.Range(1, 2)
		var feats []string
		for i := 0; i < k; i++ {
			f := vlib.Pick(r, noneCross)
			if f != "" {
				feats = append(feats, f)
				g.tags["none-x:"+strings.SplitN(f, ";", 2)[0]] = true
			}
		}
		g.tags["display:none"] = true
		if r.Bool() {
			decl = append(append(decl, "display:none"), feats...)
		} else {
			decl = append(append(decl, feats...), "display:none")
		}
		return strings.Join(decl, ";")
	}
	if r.Chance(65, 100) {
		var d string
		if g.tabley && r.Chance(60, 100) {
			d = vlib.Pick(r, tableDisplays)
		} else {
			d = vlib.Pick(r, displays)
		}
		if d == "none" && !allowNone {
			d = "block"
		}
		decl = append(decl, "display:"+d)
		g.tags["display:"+d] = true
	}
	if r.Chance(10, 100) {
		f := vlib.Pick(r, []string{"left", "right", "left", "right", "footnote"})
		decl = append(decl, "float:"+f)
		g.tags["float:"+f] = true
		g.tags["float"] = true
		if f == "footnote" && r.Chance(1, 2) {
			decl = append(decl, "footnote-display:"+vlib.Pick(r, []string{"block", "inline", "compact"}))
		}
	}
	if r.Chance(10, 100) {
		p := vlib.Pick(r, []string{"absolute", "fixed", "relative", "absolute"})
		decl = append(decl, "position:"+p)
		g.tags["position:"+p] = true
	}
	if r.Chance(1, 60) {
		decl = append(decl, "position:running(hdr)")
		g.tags["running"] = true
	}
	if r.Chance(5, 100) {
		decl = append(decl, "white-space:"+vlib.Pick(r, []string{"pre", "pre-wrap", "pre-line", "nowrap"}))
		g.tags["white-space"] = true
	}
	if r.Chance(6, 100) {
		decl = append(decl, "caption-side:"+vlib.Pick(r, []string{"top", "bottom"}))
	}
	if r.Chance(5, 100) {
		decl = append(decl, "list-style-position:"+vlib.Pick(r, []string{"inside", "outside"}))
	}
	if r.Chance(3, 100) {
		decl = append(decl, "list-style-type:"+vlib.Pick(r, []string{"none", "decimal"}))
	}
	return strings.Join(decl, ";")
}

var genericTags = []string{"div", "span", "b", "section", "x-a", "i", "div", "span", "li", "ul"}

func (g *gen) text(sb *strings.Builder) {
	if g.r.Chance(55, 100) {
		sb.WriteString(html.EscapeString(vlib.Pick(g.r, texts)))
	}
}

func (g *gen) element(sb *strings.Builder, depth int) {
	r := g.r
	if g.n >= g.max {
		return
	}
	if r.Chance(1, 14) && depth > 0 {
		g.realTable(sb, depth)
		return
	}
	if r.Chance(1, 40) {
		g.n++
		g.tags["img"] = true
		fmt.Fprintf(sb, `<img src="%s" style="%s">`, vlib.Pick(r, []string{"pattern.png", "pattern.png", "missing.png"}), g.styleFor(true))
		return
	}
	if r.Chance(1, 60) {
		g.n++
		g.tags["img-alt"] = true
		fmt.Fprintf(sb, `<img alt="alt" style="%s">`, g.styleFor(true))
		return
	}
	tag := vlib.Pick(r, genericTags)
	id := g.n
	g.n++
	attrs := ""
	if r.Chance(1, 8) {
		attrs += fmt.Sprintf(` colspan="%s"`, vlib.Pick(r, []string{"2", "3", "0", "x", "-1", "1"}))
		g.tags["colspan"] = true
	}
	if r.Chance(1, 8) {
		attrs += fmt.Sprintf(` rowspan="%s"`, vlib.Pick(r, []string{"2", "3", "0", "x", "-1", "9"}))
		g.tags["rowspan"] = true
	}
	if r.Chance(1, 20) {
		attrs += fmt.Sprintf(` span="%s"`, vlib.Pick(r, []string{"2", "3", "0", "x"}))
	}
	st := g.styleFor(true)
	isNone := strings.Contains(st, "display:none")
	fmt.Fprintf(sb, `<%s id="n%d"%s style="%s">`, tag, id, attrs, st)
	for _, ps := range []string{"before", "after"} {
		if r.Chance(1, 12) || (isNone && r.Chance(1, 3)) {
			g.tags["::"+ps] = true
			content := vlib.Pick(r, []string{`"p"`, `" "`, `"q" "r"`, `url(pattern.png)`})
			fmt.Fprintf(&g.css, "#n%d::%s{content:%s;%s}\n", id, ps, content, g.styleFor(true))
		}
	}
	g.text(sb)
	if isNone && r.Chance(1, 3) {
		// content of a hidden element: a replaced element, a table part, a list item, a footnote
		g.n++
		switch r.Intn(4) {
		case 0:
			sb.WriteString(`<img src="pattern.png">`)
		case 1:
			fmt.Fprintf(sb, `<x-c style="display:table-cell;%s">h</x-c>`, vlib.Pick(r, []string{"", "float:left", "position:absolute"}))
		case 2:
			sb.WriteString(`<li style="display:list-item">h</li>`)
		default:
			sb.WriteString(`<span style="float:footnote">h</span>`)
		}
	}
	if depth < 7 {
		k := r.Intn(4)
		if r.Chance(1, 5) {
			k += 2
		}
		for i := 0; i < k; i++ {
			g.element(sb, depth+1)
			g.text(sb)
		}
	}
	fmt.Fprintf(sb, `</%s>`, tag)
}

// a real <table> with proper-ish markup (the HTML parser keeps it in place)
func (g *gen) realTable(sb *strings.Builder, depth int) {
	r := g.r
	g.tags["real-table"] = true
	cell := func() {
		if g.n >= g.max {
			return
		}
		g.n++
		attrs := ""
		if r.Chance(1, 3) {
			attrs += fmt.Sprintf(` colspan="%d"`, r.Range(0, 3))
		}
		if r.Chance(1, 3) {
			attrs += fmt.Sprintf(` rowspan="%d"`, r.Range(0, 4))
		}
		fmt.Fprintf(sb, `<%s%s style="%s">`, "td", attrs, g.styleFor(true))
		g.text(sb)
		if r.Chance(1, 4) && depth < 6 {
			g.element(sb, depth+2)
		}
		sb.WriteString("</td>")
	}
	row := func() {
		if g.n >= g.max {
			return
		}
		g.n++
		fmt.Fprintf(sb, `<tr style="%s">`, g.styleFor(true))
		for i, k := 0, r.Range(0, 4); i < k; i++ {
			cell()
			if r.Chance(1, 4) {
				sb.WriteString(" ")
			}
		}
		sb.WriteString("</tr>")
	}
	g.n++
	fmt.Fprintf(sb, `<table style="%s">`, g.styleFor(true))
	if r.Chance(1, 3) {
		g.n++
		fmt.Fprintf(sb, `<caption style="%s">c</caption>`, g.styleFor(true))
	}
	for i, k := 0, r.Intn(3); i < k; i++ {
		if r.Bool() {
			g.n++
			span := ""
			if r.Bool() {
				span = fmt.Sprintf(` span="%d"`, r.Range(0, 3))
			}
			fmt.Fprintf(sb, `<colgroup%s style="%s">`, span, g.styleFor(true))
			for j, m := 0, r.Intn(3); j < m; j++ {
				g.n++
				sp := ""
				if r.Bool() {
					sp = fmt.Sprintf(` span="%d"`, r.Range(0, 3))
				}
				fmt.Fprintf(sb, `<col%s style="%s">`, sp, g.styleFor(true))
			}
			sb.WriteString("</colgroup>")
		} else {
			g.n++
			sp := ""
			if r.Bool() {
				sp = fmt.Sprintf(` span="%d"`, r.Range(0, 3))
			}
			fmt.Fprintf(sb, `<col%s style="%s">`, sp, g.styleFor(true))
		}
	}
	for i, k := 0, r.Range(0, 3); i < k; i++ {
		switch r.Intn(5) {
		case 0:
			row()
		default:
			g.n++
			tag := vlib.Pick(r, []string{"tbody", "thead", "tfoot", "tbody", "tfoot", "thead"})
			fmt.Fprintf(sb, `<%s style="%s">`, tag, g.styleFor(true))
			for j, m := 0, r.Range(0, 4); j < m; j++ {
				row()
			}
			fmt.Fprintf(sb, `</%s>`, tag)
		}
		if r.Chance(1, 4) {
			sb.WriteString("\n")
		}
	}
	if r.Chance(1, 5) {
		g.n++
		fmt.Fprintf(sb, `<caption style="%s">d</caption>`, g.styleFor(true))
	}
	sb.WriteString("</table>")
}

// a well-formed table with many spans: exercises the grid-slot assignment
func genGridDoc(r *vlib.Rng) (string, []string) {
	var sb strings.Builder
	sb.WriteString(`<html><head><style></style></head><body><table>`)
	if r.Chance(1, 3) {
		sb.WriteString(`<colgroup span="2"></colgroup><col span="3"><colgroup><col><col span="2"></colgroup>`)
	}
	groups := r.Range(1, 4)
	for g := 0; g < groups; g++ {
		tag := vlib.Pick(r, []string{"tbody", "thead", "tfoot", "tbody"})
		fmt.Fprintf(&sb, "<%s>", tag)
		for i, rows := 0, r.Range(1, 5); i < rows; i++ {
			sb.WriteString("<tr>")
			for j, cells := 0, r.Range(0, 5); j < cells; j++ {
				attrs := ""
				if r.Chance(1, 2) {
					attrs += fmt.Sprintf(` colspan="%d"`, r.Range(1, 4))
				}
				if r.Chance(1, 2) {
					attrs += fmt.Sprintf(` rowspan="%d"`, vlib.Pick(r, []int{0, 1, 2, 2, 3, 3, 4, 7}))
				}
				fmt.Fprintf(&sb, "<td%s>x</td>", attrs)
			}
			sb.WriteString("</tr>")
		}
		fmt.Fprintf(&sb, "</%s>", tag)
	}
	sb.WriteString(`</table></body></html>`)
	return sb.String(), []string{"grid-table"}
}

func genDoc(r *vlib.Rng) (string, []string) {
	if r.Chance(1, 6) {
		return genGridDoc(r)
	}
	g := &gen{r: r, max: r.Range(3, 30), tags: map[string]bool{}, tabley: r.Chance(1, 2)}
	var body strings.Builder
	bodyStyle := ""
	if r.Chance(1, 6) {
		bodyStyle = g.styleFor(false)
	}
	g.text(&body)
	for g.n < g.max {
		before := g.n
		g.element(&body, 0)
		g.text(&body)
		if g.n == before {
			break
		}
		if r.Chance(1, 3) {
			break
		}
	}
	htmlStyle := ""
	if r.Chance(1, 10) {
		htmlStyle = g.styleFor(false)
	}
	src := fmt.Sprintf(`<html style="%s"><head><style>%s</style></head><body style="%s">%s</body></html>`, htmlStyle, g.css.String(), bodyStyle, body.String())
	var tags []string
	for t := range g.tags {
		tags = append(tags, t)
	}
	sort.Strings(tags)
	return src, tags
}

// ---------------------------------------------------------------- one document

func runDoc(src string, kind string, tags []string) (vlib.Case, bool) {
	dH, err := parseDoc(src)
	if err != nil {
		return vlib.Case{}, false
	}
	hidden := dH.hidden() // before any box generation
	docTerm := dH.elemTerm()
	hpTerms, hpDesc := dH.hiddenPseudo(src)
	dA, err := parseDoc(src)
	if err != nil {
		return vlib.Case{}, false
	}
	var inBox bo.Box
	o := render.Guard(func() {
		inBox = bo.VerifC09ElementToBox(dA.root, dA.sf, dA.res, dA.base, dA.tc, dA.cs, dA.foot)
	})
	if o.Status != "ok" {
		// crash while generating boxes: outside the fix-up model; reported by C01
		return vlib.Case{}, false
	}
	if inBox.Box().IsRunning() {
		tags = append(tags, "root-running")
	}
	dpIn := &dumper{d: dA, types: map[int]int{}}
	dpIn.desc.WriteString("BEFORE FIX-UP\n")
	inTerm := dpIn.in(inBox, 0)

	dB, err := parseDoc(src)
	if err != nil {
		return vlib.Case{}, false
	}
	var outBox bo.Box
	o = render.Guard(func() {
		outBox = bo.BuildFormattingStructure(dB.root, dB.sf, dB.res, dB.base, dB.tc, dB.cs, dB.foot)
	})
	dpOut := &dumper{d: dB, types: map[int]int{}}
	status := 0
	outTerm := "(Nd 19 0 0 0 [] [] [])"
	if o.Status == "ok" {
		dpOut.desc.WriteString("AFTER BuildFormattingStructure\n")
		outTerm = dpOut.out(outBox, 0)
		tags = append(tags, slotOverlapTags(outBox)...)
	} else {
		status = 1
		tags = append(tags, "impl-panic")
		fmt.Fprintf(&dpOut.desc, "PANIC at %s: %s\n", o.Site, o.Msg)
	}
	// the boxes moved to the footnote list by BuildFormattingStructure (not fixed up before layout)
	dpFn := &dumper{d: dB, types: map[int]int{}}
	var fnTerms []string
	if o.Status == "ok" {
		dpFn.desc.WriteString("FOOTNOTE LIST after BuildFormattingStructure\n")
		for _, f := range *dB.foot {
			fnTerms = append(fnTerms, dpFn.in(f, 0))
		}
		if len(fnTerms) > 0 {
			tags = append(tags, "footnotes")
		}
	}
	for ty, n := range dpIn.types {
		if n > 0 && (ty >= 7 && ty <= 14) {
			tags = append(tags, "in:"+tyNames[ty])
		}
	}
	sort.Strings(tags)
	coq := fmt.Sprintf("CTree %s %s %d %s [%s] [%s]", inTerm, docTerm, status, outTerm, strings.Join(fnTerms, ";"), strings.Join(hpTerms, ";"))
	return vlib.Case{Kind: kind, Coq: coq,
		Desc:       map[string]interface{}{"html": src, "before": dpIn.desc.String(), "after": dpOut.desc.String(), "footnotes": dpFn.desc.String(), "hidden_elements": hidden, "hidden_pseudo_elements": hpDesc},
		Tags:       tags,
		Nontrivial: dpIn.nodes > 3,
	}, true
}

// ---------------------------------------------------------------- exhaustive tables

var dispWords = []string{"", "block", "inline", "flow", "flow-root", "table", "flex", "grid", "list-item",
	"table-row", "table-row-group", "table-header-group", "table-footer-group", "table-column", "table-column-group",
	"table-cell", "table-caption", "none", "contents", "ruby", "run-in", "inline-block", "inline-table"}

func exhaustive(w *vlib.Writer) {
	// a style object to run makeBox on
	d, err := parseDoc(`<html><body><div id="a">x</div></body></html>`)
	if err != nil {
		panic(err)
	}
	var div *utils.HTMLNode
	for nd, i := range d.index {
		if i == 3 || nd.Data == "div" {
			if nd.Data == "div" {
				div = (*utils.HTMLNode)(nd)
			}
		}
	}
	parent := d.sf.Get(div, "")
	// makeBox over all pairs (and a sample of triples) of display words
	for i, a := range dispWords {
		for j, b := range dispWords {
			for _, k := range []int{0, 8, 3} {
				if k != 0 && (i > 8 || j > 8) {
					continue
				}
				st := tree.ComputedFromCascaded(nil, nil, parent, nil)
				st.SetDisplay(pr.Display{a, b, dispWords[k]})
				res := 0
				var box bo.Box
				o := render.Guard(func() {
					var err error
					box, err = bo.VerifC09MakeBox(st, div)
					if err != nil {
						box = nil
					}
				})
				if o.Status != "ok" {
					res = 99
				} else if box != nil {
					res = 1 + tyCode(box.Type())
				}
				w.Add(vlib.Case{Kind: "makebox", Coq: fmt.Sprintf("CMakeBox %d %d %d %d", i, j, k, res),
					Desc:       map[string]interface{}{"display": []string{a, b, dispWords[k]}, "result": res},
					Nontrivial: res != 0})
			}
		}
	}
	// class membership and table flags of every concrete box type
	abstract := []bo.BoxType{bo.ParentT, bo.BlockLevelT, bo.InlineLevelT, bo.BlockContainerT, bo.FlexContainerT,
		bo.GridContainerT, bo.TableT, bo.ReplacedT, bo.AtomicInlineLevelT, bo.BlockT, bo.InlineT}
	mk := func(t bo.BoxType) bo.Box {
		st := tree.ComputedFromCascaded(nil, nil, parent, nil)
		el := (*html.Node)(div)
		switch t {
		case bo.LineT:
			b := bo.NewLineBox(st, el, "", nil)
			return &b
		case bo.TextT:
			return bo.NewTextBox(st, el, "", []rune("x"))
		case bo.BlockReplacedT:
			b := bo.NewBlockReplacedBox(st, el, "", nil)
			return &b
		case bo.InlineReplacedT:
			b := bo.NewInlineReplacedBox(st, el, "", nil)
			return &b
		}
		return t.AnonymousFrom(d0box(st, el), nil)
	}
	for i, t := range concrete {
		b := mk(t)
		bits := 0
		for k, a := range abstract {
			if a.IsInstance(b) {
				bits |= 1 << k
			}
		}
		p, it, tc := bo.VerifC09TableFlags(b)
		if p {
			bits |= 1 << 11
		}
		if it {
			bits |= 1 << 12
		}
		if tc {
			bits |= 1 << 13
		}
		if tyCode(b.Type()) != i {
			bits |= 1 << 14
		}
		w.Add(vlib.Case{Kind: "classes", Coq: fmt.Sprintf("CClasses %d %d", i, bits),
			Desc: map[string]interface{}{"type": tyNames[i], "bits": bits}, Nontrivial: true})
		for j, c := range concrete {
			w.Add(vlib.Case{Kind: "proper-parents", Coq: fmt.Sprintf("CProperParents %d %d %s", i, j, vlib.Bool(t.IsInProperParents(c))),
				Desc: map[string]interface{}{"parent": tyNames[i], "child": tyNames[j], "result": t.IsInProperParents(c)}, Nontrivial: true})
		}
	}
}

func d0box(st pr.ElementStyle, el *html.Node) bo.Box { return bo.NewBlockBox(st, el, "", nil) }

// ---------------------------------------------------------------- main

func main() {
	out := flag.String("out", "cases.jsonl", "output file")
	n := flag.Int("n", 1500, "number of cases")
	flag.Parse()
	rng := vlib.NewRng(vlib.Seed())
	w := vlib.NewWriter(*out)
	defer w.Close()

	// regression corpus first
	files, _ := filepath.Glob("/verif/corpus/C09/*.html")
	sort.Strings(files)
	for _, f := range files {
		b, err := os.ReadFile(f)
		if err != nil {
			continue
		}
		if c, ok := runDoc(string(b), "corpus", []string{"corpus:" + filepath.Base(f)}); ok {
			w.Add(c)
		}
	}
	exhaustive(w)
	base := w.N()
	for w.N() < base+*n {
		r := rng.Fork()
		src, tags := genDoc(r)
		if c, ok := runDoc(src, "tree", tags); ok {
			w.Add(c)
		}
	}
}
