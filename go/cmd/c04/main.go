// Harness for C04 (CSS defaulting / computed values).
//
// Each case is a real document: random element tree (+ pseudo-elements, @page
// contexts and margin boxes, anonymous-box styles), every node declaring, for a
// random subset of ALL properties, inherit / initial / an explicit value.  The
// document goes through /repo's real pipeline (HTML parser, CSS parser,
// validators, cascade, newStyleFor); the cascaded declarations every style
// object was built from are read back through the verif hook and become the
// model's input.  Then a random access history of Get calls (and of late
// constructions of page / anonymous styles) runs on the real objects; every
// returned value is recorded.  Check/C04.v replays the history on the model.
//
// The first cases (CTab*) carry the runtime content of the tables that
// Generated/PropTables.v translates from the source text.
package main

import (
	"encoding/json"
	"flag"
	"fmt"
	"math"
	"os"
	"path/filepath"
	"regexp"
	"sort"
	"strings"
	"time"

	"verifharness/vlib"
	"verifharness/vlib/render"

	pa "github.com/benoitkugler/webrender/css/parser"
	pr "github.com/benoitkugler/webrender/css/properties"
	"github.com/benoitkugler/webrender/css/validation"
	"github.com/benoitkugler/webrender/html/tree"
	"github.com/benoitkugler/webrender/logger"
	"github.com/benoitkugler/webrender/text"
	"github.com/benoitkugler/webrender/text/hyphen"
	"github.com/benoitkugler/webrender/utils"
	"golang.org/x/net/html"
)

// ---------------------------------------------------------------- value printing

func coqStr(s string) (string, bool) {
	for i := 0; i < len(s); i++ {
		if s[i] < 0x20 || s[i] > 0x7e {
			return "", false
		}
	}
	return `"` + strings.ReplaceAll(s, `"`, `""`) + `"`, true
}

func finite(f pr.Float) bool { return !math.IsNaN(float64(f)) && !math.IsInf(float64(f), 0) }

var addrRe = regexp.MustCompile(`0x[0-9a-f]{8,}`)

// interner gives opaque values an identity: per property, by canonical print;
// id 0 is the initial value of the property.
type interner struct {
	ids      map[pr.KnownProp]map[string]int
	unstable bool
}

func newInterner() *interner { return &interner{ids: map[pr.KnownProp]map[string]int{}} }

func (in *interner) id(p pr.KnownProp, v interface{}) int {
	m := in.ids[p]
	if m == nil {
		m = map[string]int{fmt.Sprintf("%#v", pr.InitialValues[p]): 0}
		in.ids[p] = m
	}
	s := fmt.Sprintf("%#v", v)
	if addrRe.MatchString(s) {
		in.unstable = true
	}
	if id, ok := m[s]; ok {
		return id
	}
	id := len(m)
	m[s] = id
	return id
}

// structural term of a value, or "" when the type is opaque for the model
func structural(v interface{}) string {
	switch x := v.(type) {
	case pr.DimOrS:
		s, ok := coqStr(x.S)
		if !ok {
			return ""
		}
		if math.IsInf(float64(x.Value), 1) && x.Unit == pr.Px && x.S == "" {
			return "VInfPx"
		}
		if !finite(x.Value) {
			return ""
		}
		return fmt.Sprintf("VDim %s %s %d", s, vlib.Q32(float32(x.Value)), x.Unit)
	case pr.String:
		if s, ok := coqStr(string(x)); ok {
			return "VStr " + s
		}
	case pr.Page:
		if s, ok := coqStr(string(x)); ok {
			return "VStr " + s
		}
	case pr.IntString:
		if s, ok := coqStr(x.String); ok {
			return fmt.Sprintf("VIntStr %s %s", s, vlib.Z(x.Int))
		}
	case pr.Int:
		return "VInt " + vlib.Z(int(x))
	case pr.Display:
		a, ok1 := coqStr(x[0])
		b, ok2 := coqStr(x[1])
		c, ok3 := coqStr(x[2])
		if ok1 && ok2 && ok3 {
			return fmt.Sprintf("VDisplay %s %s %s", a, b, c)
		}
	case pr.BoolString:
		if s, ok := coqStr(x.String); ok {
			return fmt.Sprintf("VBoolStr %s %s", vlib.Bool(x.Bool), s)
		}
	case pr.Decorations:
		return fmt.Sprintf("VDecor %d", uint8(x))
	case pr.Marks:
		return fmt.Sprintf("VMarks %s %s", vlib.Bool(x.Crop), vlib.Bool(x.Cross))
	case pr.Point:
		if finite(x[0].Value) && finite(x[1].Value) {
			return fmt.Sprintf("VPoint %s %d %s %d", vlib.Q32(float32(x[0].Value)), x[0].Unit,
				vlib.Q32(float32(x[1].Value)), x[1].Unit)
		}
	}
	return ""
}

func (in *interner) term(p pr.KnownProp, v interface{}) string {
	if s := structural(v); s != "" {
		// a property whose initial value is opaque for the model is opaque throughout
		if structural(pr.InitialValues[p]) != "" {
			return s
		}
	}
	return fmt.Sprintf("VOpaque %d", in.id(p, v))
}

// ---------------------------------------------------------------- value pools

var lengthNums = []string{"0", "1", "2", "3", "12", "0.5", "1.5", "2.25", "10", "100", "7.3", "16", "-2", "-0.5", "0.1", "37"}
var lengthUnits = []string{"px", "pt", "pc", "in", "cm", "mm", "q", "em", "rem", "%", "", "ex", "ch", "Q", "PX", "Em"}

var dimKeywords = []string{"auto", "normal", "none", "content", "thin", "medium", "thick", "baseline", "middle",
	"sub", "super", "top", "bottom", "text-top", "text-bottom", "xx-small", "x-small", "small", "large", "x-large",
	"xx-large", "larger", "smaller", "2", "1.2", "0", "min-content", "max-content", "fit-content"}

var stringKeywords = []string{"none", "auto", "normal", "hidden", "visible", "solid", "dashed", "dotted", "double",
	"groove", "ridge", "inset", "outset", "left", "right", "both", "block", "inline", "absolute", "relative", "fixed",
	"static", "always", "avoid", "page", "column", "avoid-page", "avoid-column", "recto", "verso", "collapse",
	"separate", "top", "bottom", "ltr", "rtl", "show", "hide", "italic", "oblique", "small-caps", "uppercase",
	"lowercase", "capitalize", "pre", "nowrap", "pre-wrap", "pre-line", "break-all", "keep-all", "break-word",
	"anywhere", "manual", "start", "end", "center", "justify", "match-parent", "inside", "outside", "balance",
	"all", "open", "closed", "slice", "clone", "content-box", "border-box", "row", "row-reverse", "column-reverse",
	"wrap", "wrap-reverse", "fill", "contain", "cover", "scale-down", "clip", "ellipsis", "pixelated", "crisp-edges",
	"embed", "isolate", "bidi-override", "plaintext", "discard", "condensed", "expanded", "semi-condensed",
	"ultra-expanded", "balance-all", "block-end", "inline-start", "line-through", "wavy", "overflow", "full-width",
	"sub", "super", "text", "button", "checkbox", "\"-\"", "\"ab\""}

var displayValues = []string{"inline", "block", "inline-block", "list-item", "table", "inline-table", "table-cell",
	"table-row", "table-row-group", "table-caption", "table-column", "flex", "inline-flex", "grid", "inline-grid",
	"none", "flow-root", "inline list-item", "block flow", "inline flow", "block flow list-item", "inline flow-root",
	"contents", "run-in"}

var miscValues = []string{"red", "#123", "rgb(1, 2, 3)", "currentColor", "transparent", "0", "1", "2", "3", "-1", "10",
	"0.5", "underline", "overline", "line-through", "underline overline", "blink", "foo", "bar", "running(h)",
	"url(a.png)", "\"str\"", "counter(c)", "linear-gradient(red, blue)", "translate(1em, 2px)", "\"a\" \"b\"", "1fr",
	"repeat(2, 1fr)", "span 2", "attr(title)", "attr(id)", "1em 2px", "3pt 4pt", "10% 20%", "2cm", "a4", "A5 landscape",
	"10cm 20cm", "serif", "Ahem, sans-serif", "\"x\" 1", "c 2", "crop cross", "90deg", "from-image", "50%", "1 2 3 4",
	"2 / 3", "left top", "center", "target-counter(attr(href), page)", "string(x)", "content()", "symbols(cyclic \"a\" \"b\")",
	"decimal", "square", "\"<\" \">\"", "5 2 2", "100 200", "1.5", "2em 1ex", "0 0"}

// font families: docfont / docfont2 are declared by @font-face rules of the document (each maps to
// Ahem or weasyprint.otf, chosen per document); Ahem / weasyprint are the installed families
var fontFamilies = []string{"docfont", "docfont", "docfont2", "Ahem", "weasyprint", "serif", "nosuch, docfont", "docfont2, Ahem", "monospace", "docfont, docfont2"}

var marksValues = []string{"crop", "cross", "crop", "cross", "crop cross", "none", "cross crop"}

var transformValues = []string{"translate(2em, 1em)", "translate(1ex, 2ch)", "translate(10%, 3rem) rotate(10deg)", "translate(1.5em)",
	"scale(2) translate(3ch, 1em)", "none", "rotate(45deg)", "translate(4px, 2pt)"}

var fontWeights = []string{"normal", "bold", "bolder", "lighter", "100", "200", "300", "400", "500", "600", "700", "800", "900", "350"}

var absUnits = []string{"px", "px", "pt", "pc", "in", "cm", "mm", "q", "%", ""}
var fontRelUnits = []string{"em", "rem", "ex", "ch", "ex", "ch"}

// percentages: what they refer to depends on the property (line-height, font-size,
// vertical-align: resolved at computed-value time against the own / the parent's font size or
// the own line height; widths, margins, text-indent ...: kept for layout)
var pctNums = []string{"150", "50", "200", "120", "10", "33.3", "75", "-20", "100", "0", "62.5", "300"}

func randPct(r *vlib.Rng) string { return vlib.Pick(r, pctNums) + "%" }

// the properties whose grammar has a <percentage> (the validators drop it elsewhere)
var pctProps = []string{"line-height", "line-height", "line-height", "font-size", "font-size", "vertical-align", "vertical-align",
	"text-indent", "width", "height", "min-width", "min-height", "max-width", "max-height", "margin-left", "margin-top",
	"margin-right", "margin-bottom", "padding-left", "padding-top", "padding-right", "padding-bottom", "top", "left", "right",
	"bottom", "flex-basis", "column-gap", "row-gap", "word-spacing", "letter-spacing", "hyphenate-limit-zone", "tab-size",
	"border-top-width", "outline-offset", "column-width", "bleed-top"}

var pctPointProps = []string{"border-top-left-radius", "border-bottom-right-radius", "transform-origin", "border-spacing", "background-position", "background-size", "size"}

func pctDecl(r *vlib.Rng) string {
	if r.Chance(1, 8) {
		return vlib.Pick(r, pctPointProps) + ":" + randPct(r) + " " + vlib.Pick(r, []string{randPct(r), relLength(r), "3px"})
	}
	p := vlib.Pick(r, pctProps)
	d := p + ":" + randPct(r)
	if p == "vertical-align" && r.Bool() { // the percentage refers to the element's own line height
		d += ";line-height:" + vlib.Pick(r, []string{"1.5", "150%", "30px", "2", "1.2em", "0.8", "3ex", "normal"})
	}
	return d
}

func randLength(r *vlib.Rng) string {
	n := vlib.Pick(r, lengthNums)
	var u string
	switch k := r.Intn(20); {
	case k < 3:
		return randPct(r)
	case k < 10:
		u = vlib.Pick(r, absUnits)
	case k < 18:
		u = vlib.Pick(r, fontRelUnits) // relative to the (own / parent / root) font size or to the font itself
	default:
		u = vlib.Pick(r, lengthUnits)
	}
	return n + u
}

// a length relative to the font size / the font, never zero
func relLength(r *vlib.Rng) string {
	return vlib.Pick(r, []string{"1", "2", "3", "10", "0.5", "1.5", "2.25", "7.3", "12"}) + vlib.Pick(r, fontRelUnits)
}

// properties whose computed value is a length made absolute (length, pixelLength, borderWidth, ...)
var relProps = []string{"width", "height", "margin-left", "margin-top", "padding-top", "padding-left", "text-indent",
	"letter-spacing", "word-spacing", "min-width", "max-width", "top", "left", "column-gap", "row-gap", "column-width",
	"flex-basis", "tab-size", "line-height", "vertical-align", "border-top-width", "outline-width", "outline-offset",
	"hyphenate-limit-zone", "font-size", "font-size"}

// declarations with font-relative values, for rules shared by several elements
func relDecls(r *vlib.Rng) string {
	var parts []string
	for i, n := 0, r.Range(1, 4); i < n; i++ {
		switch r.Intn(8) {
		case 2, 3:
			parts = append(parts, pctDecl(r))
		case 0:
			parts = append(parts, "transform:"+vlib.Pick(r, transformValues[:5]))
		case 1:
			parts = append(parts, vlib.Pick(r, []string{"border-spacing", "transform-origin", "border-top-left-radius"})+":"+relLength(r)+" "+relLength(r))
		default:
			parts = append(parts, vlib.Pick(r, relProps)+":"+relLength(r))
		}
	}
	if r.Chance(1, 3) {
		parts = append(parts, "border-top-style:solid;outline-style:dotted")
	}
	return strings.Join(parts, ";")
}

func candidate(r *vlib.Rng, p pr.KnownProp) string {
	if r.Chance(1, 8) {
		return vlib.Pick(r, miscValues)
	}
	switch p {
	case pr.PFontWeight:
		return vlib.Pick(r, fontWeights)
	case pr.PDisplay:
		return vlib.Pick(r, displayValues)
	case pr.PFontFamily:
		return vlib.Pick(r, fontFamilies)
	case pr.PMarks:
		return vlib.Pick(r, marksValues)
	case pr.PTransform:
		return vlib.Pick(r, transformValues)
	}
	switch pr.InitialValues[p].(type) {
	case pr.DimOrS:
		if r.Chance(1, 3) {
			return vlib.Pick(r, dimKeywords)
		}
		return randLength(r)
	case pr.String, pr.BoolString, pr.Page:
		return vlib.Pick(r, stringKeywords)
	case pr.Point:
		if r.Bool() {
			return randLength(r) + " " + randLength(r)
		}
		return randLength(r)
	case pr.Decorations, pr.IntString, pr.Int:
		return vlib.Pick(r, miscValues)
	}
	switch r.Intn(4) {
	case 0:
		return randLength(r)
	case 1:
		return vlib.Pick(r, stringKeywords)
	default:
		return vlib.Pick(r, miscValues)
	}
}

// valid pool per property: candidates the validators accept (memoised per process)
var validCache = map[string]bool{}

func accepted(name, value string) bool {
	k := name + ":" + value
	if v, ok := validCache[k]; ok {
		return v
	}
	decls := validation.PreprocessDeclarations("http://verif.test/", pa.ParseBlocksContentsString(k))
	ok := len(decls) > 0
	validCache[k] = ok
	return ok
}

func randDecl(r *vlib.Rng, p pr.KnownProp) string {
	name := p.String()
	switch k := r.Intn(10); {
	case k < 2:
		return name + ":inherit"
	case k < 4:
		return name + ":initial"
	}
	if r.Chance(1, 12) { // pending value: validated at computed-value time
		switch r.Intn(4) {
		case 0:
			return name + ":var(--" + vlib.Pick(r, varNames) + ")"
		case 1:
			return name + ":var(--" + vlib.Pick(r, varNames) + ", " + candidate(r, p) + ")"
		case 2:
			return name + ":var(--undefined)"
		default:
			return name + ":" + candidate(r, p) + " var(--" + vlib.Pick(r, varNames) + ")"
		}
	}
	for try := 0; try < 6; try++ {
		c := candidate(r, p)
		if accepted(name, c) || r.Chance(1, 10) { // keep a few invalid ones: they must be dropped alone
			return name + ":" + c
		}
	}
	return name + ":inherit"
}

// properties a node is likely to interact through
var hotProps = []pr.KnownProp{
	pr.PFontSize, pr.PFontSize, pr.PFontWeight, pr.PFontWeight, pr.PDisplay, pr.PFloat, pr.PPosition, pr.PLineHeight,
	pr.PBorderTopWidth, pr.PBorderTopStyle, pr.PBorderLeftWidth, pr.PBorderLeftStyle, pr.POutlineWidth, pr.POutlineStyle,
	pr.PColumnRuleWidth, pr.PColumnRuleStyle, pr.PWidth, pr.PMarginLeft, pr.PPaddingTop, pr.PTextIndent, pr.PLetterSpacing,
	pr.PWordSpacing, pr.PVerticalAlign, pr.PTabSize, pr.PTextDecorationLine, pr.PTextDecorationColor, pr.PTextDecorationStyle,
	pr.PPage, pr.PBreakBefore, pr.PBorderSpacing, pr.PColumnGap, pr.PMaxWidth, pr.PBorderTopLeftRadius, pr.PColor, pr.PSize,
	pr.PBleedTop, pr.PTransformOrigin, pr.PHyphenateLimitZone, pr.PFlexBasis, pr.PColumnWidth, pr.PRowGap, pr.PTop,
	pr.PFontFamily, pr.PFontFamily, pr.PHeight, pr.PTransform, pr.PMarks, pr.PBleedLeft, pr.PFontStyle, pr.PFontStretch,
}

// what a page context is asked for
var pageProps = []pr.KnownProp{pr.PBleedTop, pr.PBleedLeft, pr.PBleedRight, pr.PBleedBottom, pr.PMarks, pr.PSize,
	pr.PMarginTop, pr.PFontSize, pr.PWidth}

// declarations of an @page rule that the page-specific computers look at
func pageDecls(r *vlib.Rng) string {
	var parts []string
	if r.Bool() {
		parts = append(parts, "marks:"+vlib.Pick(r, marksValues))
	}
	if r.Chance(1, 4) {
		parts = append(parts, vlib.Pick(r, []string{"bleed", "bleed-left", "bleed-top", "bleed-right", "bleed-bottom"})+":"+
			vlib.Pick(r, []string{"auto", "initial", "inherit", "2pt", "1ex", "0", "3mm", "0.5em"}))
	}
	if r.Chance(1, 4) {
		parts = append(parts, "size:"+vlib.Pick(r, []string{"a5", "10cm 20cm", "20em 30em", "300px", "a4 landscape"}))
	}
	if r.Chance(1, 4) {
		parts = append(parts, "font-size:"+vlib.Pick(r, []string{"20px", "2em", "1.5rem", "10pt", "3ex"}))
	}
	return strings.Join(parts, ";")
}

func randProp(r *vlib.Rng) pr.KnownProp {
	if r.Chance(2, 5) {
		return vlib.Pick(r, hotProps)
	}
	return pr.KnownProp(r.Range(1, int(pr.NbProperties)-1))
}

var varNames = []string{"a", "b", "c", "d"}

func randDecls(r *vlib.Rng, max int) string {
	n := r.Intn(max + 1)
	if r.Chance(1, 6) {
		n = 0
	}
	var parts []string
	for r.Chance(1, 5) { // custom properties
		v := vlib.Pick(r, []string{"inherit", "initial", "bolder", "2em", "12px", "red", "auto", "none", "", "var(--a)", "var(--b)", "x y", "3"})
		if r.Bool() {
			v = candidate(r, randProp(r))
		}
		parts = append(parts, "--"+vlib.Pick(r, varNames)+":"+v)
	}
	for i := 0; i < n; i++ {
		parts = append(parts, randDecl(r, randProp(r)))
	}
	return strings.Join(parts, ";")
}

// `--v: inherit | initial | <garbage>` and properties that take their value from it
func varDecls(r *vlib.Rng) string {
	v := vlib.Pick(r, varNames)
	parts := []string{"--" + v + ":" + vlib.Pick(r, []string{"inherit", "inherit", "initial", "bogus!", "12px", ""})}
	for i, n := 0, r.Range(1, 3); i < n; i++ {
		p := vlib.Pick(r, []string{"color", "text-indent", "font-weight", "line-height", "font-size", "width", "display",
			"margin-left", "letter-spacing", "text-align-all", "border-top-width", "tab-size", "visibility", "float"})
		parts = append(parts, p+":var(--"+v+")")
	}
	return strings.Join(parts, ";")
}

// ---------------------------------------------------------------- documents

var tags = []string{"x-a", "x-b", "x-c", "div", "p", "span", "ul", "ol", "li", "h1", "h3", "a", "b", "strong", "small",
	"big", "sub", "sup", "center", "pre", "blockquote", "q", "u", "s", "ins", "del", "em", "table", "tr", "td", "th",
	"caption", "dl", "dd", "section", "article", "code", "address", "fieldset", "hr"}

type docSrc struct {
	HTML    string // the document under test
	Prelude string // the same document with the two @font-face sources exchanged (built first, in the same process)
	Fonts   string
	pages   []utils.PageElement
}

var fontFiles = []string{"AHEM____.TTF", "weasyprint.otf"}

func fontFaces(a, b int) string {
	return fmt.Sprintf("@font-face{font-family:docfont;src:url(file://%s/%s)}\n@font-face{font-family:docfont2;src:url(file://%s/%s)}\n",
		render.FontDir, fontFiles[a], render.FontDir, fontFiles[b])
}

func genDoc(r *vlib.Rng) docSrc {
	var sb, css strings.Builder
	id := 0
	maxDecl := vlib.Pick(r, []int{3, 8, 8, 20})
	var emit func(depth int)
	emit = func(depth int) {
		tag := vlib.Pick(r, tags)
		id++
		my := id
		style := randDecls(r, maxDecl)
		if r.Chance(2, 5) { // elements sharing a rule get different font sizes
			style += ";font-size:" + vlib.Pick(r, []string{"10px", "20px", "40px", "2em", "0.5em", "150%", "larger", "1.5rem", "2ex", "3ch", "12pt", "x-large"})
		}
		if r.Chance(1, 4) { // a percentage, on an element whose descendants have other font sizes
			style += ";" + pctDecl(r)
		}
		if r.Chance(1, 5) { // decorations propagate to the descendants and to the anonymous boxes
			style += ";" + decoDecl(r)
		}
		class := ""
		if r.Bool() {
			class = fmt.Sprintf(` class="k%d"`, r.Intn(4))
			if r.Chance(1, 3) {
				class = fmt.Sprintf(` class="k%d k%d"`, r.Intn(4), r.Intn(4))
			}
		}
		fmt.Fprintf(&sb, `<%s id="n%d" title="t%d"%s style="%s">`, tag, my, my, class, strings.ReplaceAll(style, `"`, "&quot;"))
		for _, ps := range []string{"before", "after", "marker", "first-line", "first-letter"} {
			if r.Chance(1, 10) {
				fmt.Fprintf(&css, "#n%d::%s{%s}\n", my, ps, randDecls(r, maxDecl))
			}
		}
		if r.Chance(1, 3) {
			sb.WriteString("t")
		}
		if depth < 5 {
			nc := r.Intn(4)
			if depth >= 3 {
				nc = r.Intn(2)
			}
			for i := 0; i < nc && id < 30; i++ {
				emit(depth + 1)
			}
		}
		fmt.Fprintf(&sb, "</%s>", tag)
	}
	nTop := r.Range(1, 3)
	var body strings.Builder
	for i := 0; i < nTop; i++ {
		sb.Reset()
		emit(1)
		body.WriteString(sb.String())
	}
	// @page rules
	if r.Chance(3, 4) {
		fmt.Fprintf(&css, "@page{%s;%s}\n", pageDecls(r), randDecls(r, maxDecl))
		if r.Bool() {
			fmt.Fprintf(&css, "@page :first{%s;%s; @top-left{%s} @bottom-center{%s}}\n", pageDecls(r), randDecls(r, maxDecl), randDecls(r, maxDecl), randDecls(r, maxDecl))
		}
		if r.Bool() {
			fmt.Fprintf(&css, "@page foo{%s;%s; @top-right{%s}}\n", pageDecls(r), randDecls(r, maxDecl), randDecls(r, maxDecl))
		}
		if r.Chance(1, 3) {
			fmt.Fprintf(&css, "@page :left{%s}\n", pageDecls(r))
		}
	}
	// class rules shared by several elements (which have different font sizes / fonts): values
	// relative to the font size or to the font
	for k := 0; k < 4; k++ {
		if r.Chance(3, 4) {
			fmt.Fprintf(&css, ".k%d{%s;%s}\n", k, relDecls(r), randDecls(r, 3))
		}
	}
	if r.Chance(1, 2) {
		fmt.Fprintf(&css, ".k%d::before{%s}\n", r.Intn(4), relDecls(r))
	}
	// a few type selectors so that declarations do not all come from style attributes
	for i := 0; i < r.Intn(4); i++ {
		fmt.Fprintf(&css, "%s{%s}\n", vlib.Pick(r, tags), randDecls(r, maxDecl))
	}
	rootStyle, bodyStyle := randDecls(r, maxDecl), randDecls(r, maxDecl)
	// a custom property holding a CSS-wide keyword (or garbage), substituted into inherited and
	// non-inherited properties: on the root "inherit" must still mean the initial value
	if r.Chance(1, 3) {
		rootStyle += ";" + varDecls(r)
	}
	if r.Chance(1, 6) {
		bodyStyle += ";" + varDecls(r)
	}
	if r.Chance(2, 3) {
		rootStyle += ";font-family:" + vlib.Pick(r, fontFamilies)
	}
	if r.Chance(1, 3) {
		bodyStyle += ";font-family:" + vlib.Pick(r, fontFamilies)
	}
	const facesMark = "/*@font-faces@*/"
	tmpl := fmt.Sprintf(`<html style="%s"><head><style>%s%s</style></head><body style="%s">%s</body></html>`,
		strings.ReplaceAll(rootStyle, `"`, "&quot;"), facesMark, css.String(), strings.ReplaceAll(bodyStyle, `"`, "&quot;"), body.String())
	fa, fb := r.Intn(2), r.Intn(2)
	doc := strings.Replace(tmpl, facesMark, fontFaces(fa, fb), 1)
	prelude := strings.Replace(tmpl, facesMark, fontFaces(1-fa, 1-fb), 1)
	pages := []utils.PageElement{
		{Side: "right", First: true, Index: 0},
		{Side: "left", Index: 1},
		{Side: "right", Name: "foo", Index: 2},
		{Side: "left", Blank: true, Index: 3},
	}
	return docSrc{HTML: doc, Prelude: prelude, Fonts: fmt.Sprintf("docfont=%s docfont2=%s", fontFiles[fa], fontFiles[fb]), pages: pages}
}

// one style object of the document under test
type snode struct {
	style  pr.ElementStyle
	parent int // -1: none
	anon   bool
	desc   string
	decls  []string // Coq terms `D p c`
	cterms []string // the `c` of decls
	orc    []string // Coq terms `Orc p v`
	props  []pr.KnownProp
	rel    []pr.KnownProp // declared with a value relative to the font size / the font (em, rem, ex, ch)
	page   bool           // a page context
	met    string // Coq term of type option metrics
	copyOf int    // >= 0: this style object is nodes[copyOf].style.Copy() (the tree node is a duplicate of that node)
}

type world struct {
	doc    *tree.HTML
	sf     *tree.StyleFor
	styles map[utils.ElementKey]pr.ElementStyle
	nodes  []*snode
	index  map[pr.ElementStyle]int
	in     *interner
	fonts  text.FontConfiguration
}

// the text context the layout engine hands to the style computation (font metrics for
// ex / ch units and the strut of vertical-align percentages)
type textCtx struct {
	fonts  text.FontConfiguration
	hyphen map[text.HyphenDictKey]hyphen.Hyphener
	struts map[text.StrutLayoutKey][2]pr.Float
}

func (c *textCtx) Fonts() text.FontConfiguration                          { return c.fonts }
func (c *textCtx) HyphenCache() map[text.HyphenDictKey]hyphen.Hyphener    { return c.hyphen }
func (c *textCtx) StrutLayoutsCache() map[text.StrutLayoutKey][2]pr.Float { return c.struts }

func build(src string) (w *world, err interface{}) {
	defer func() {
		if r := recover(); r != nil {
			err = r
		}
	}()
	doc, e := tree.NewHTML(utils.InputString(src), "http://verif.test/", nil, "")
	if e != nil {
		return nil, e
	}
	var pageRules []tree.PageRule
	ctx := &textCtx{fonts: render.NewFonts("pango"), hyphen: map[text.HyphenDictKey]hyphen.Hyphener{},
		struts: map[text.StrutLayoutKey][2]pr.Float{}}
	sf := tree.GetAllComputedStyles(doc, nil, false, ctx.fonts, nil, &pageRules, nil, false, ctx)
	return &world{doc: doc, sf: sf, styles: tree.VerifC04Styles(sf), index: map[pr.ElementStyle]int{}, fonts: ctx.fonts}, nil
}

func describe(n *html.Node) string {
	switch n.Type {
	case html.ElementNode:
		for _, a := range n.Attr {
			if a.Key == "id" {
				return "<" + n.Data + "#" + a.Val + ">"
			}
		}
		return "<" + n.Data + ">"
	case html.TextNode:
		return "#text"
	}
	return "#node"
}

// casc term of a declared value
func (w *world) cascTerm(style pr.ElementStyle, p pr.KnownProp, v pr.DeclaredValue) string {
	switch x := v.(type) {
	case pr.DefaultValue:
		if x == pr.Inherit {
			return "CInherit"
		}
		return "CInitial"
	case pr.RawTokens:
		// pending value: the outcome of var() substitution + validation is an input of the model
		val, failed, _ := tree.VerifC04ResolvePending(style, p.Key())
		if failed {
			return "CPending PErr"
		}
		switch y := val.(type) {
		case pr.DefaultValue:
			if y == pr.Inherit {
				return "CPending PInherit"
			}
			return "CPending PInitial"
		case pr.CssProperty:
			return "CPending (PVal (" + w.in.term(p, y) + "))"
		}
		return "CPending PErr"
	case pr.CssProperty:
		return "CExplicit (" + w.in.term(p, x) + ")"
	}
	return "CPending PErr"
}

func (w *world) addNode(style pr.ElementStyle, parent int, desc string) int {
	nd := &snode{style: style, parent: parent, desc: desc, met: "None", copyOf: -1}
	casc, isComputed := tree.VerifC04Cascaded(style)
	nd.anon = !isComputed
	var keys []pr.PropKey
	for k := range casc {
		if k.KnownProp != 0 {
			keys = append(keys, k)
		}
	}
	sort.Slice(keys, func(i, j int) bool { return keys[i].KnownProp < keys[j].KnownProp })
	for _, k := range keys {
		ct := w.cascTerm(style, k.KnownProp, casc[k])
		nd.decls = append(nd.decls, fmt.Sprintf("D %d (%s)", k.KnownProp, ct))
		nd.cterms = append(nd.cterms, ct)
		nd.props = append(nd.props, k.KnownProp)
		if fontRelative(casc[k]) {
			nd.rel = append(nd.rel, k.KnownProp)
		}
	}
	w.nodes = append(w.nodes, nd)
	w.index[style] = len(w.nodes) - 1
	return len(w.nodes) - 1
}

// registers the element / text-node styles in tree order, then the pseudo-elements
func (w *world) collectElements() {
	type pk struct {
		el     int
		pseudo string
		key    utils.ElementKey
	}
	var pseudos []pk
	byNode := map[*html.Node]int{}
	var walk func(n *html.Node)
	walk = func(n *html.Node) {
		if st, ok := w.styles[(*utils.HTMLNode)(n).ToKey("")]; ok && st != nil {
			parent := -1
			if n.Parent != nil {
				if pi, ok := byNode[n.Parent]; ok {
					parent = pi
				}
			}
			byNode[n] = w.addNode(st, parent, describe(n))
		}
		for c := n.FirstChild; c != nil; c = c.NextSibling {
			walk(c)
		}
	}
	walk((*html.Node)(w.doc.Root))
	for k, st := range w.styles {
		if k.Element != nil && k.PseudoType != "" && st != nil {
			if ei, ok := byNode[(*html.Node)(k.Element)]; ok {
				pseudos = append(pseudos, pk{ei, k.PseudoType, k})
			}
		}
	}
	sort.Slice(pseudos, func(i, j int) bool {
		if pseudos[i].el != pseudos[j].el {
			return pseudos[i].el < pseudos[j].el
		}
		return pseudos[i].pseudo < pseudos[j].pseudo
	})
	for _, p := range pseudos {
		w.addNode(w.styles[p.key], p.el, w.nodes[p.el].desc+"::"+p.pseudo)
	}
}

func relUnit(u pr.Unit) bool {
	return u == pr.Em || u == pr.Rem || u == pr.Ex || u == pr.Ch || u == pr.Perc
}

// does the declared value hold a length relative to the font size or to the font, or a percentage?
func fontRelative(v pr.DeclaredValue) bool {
	switch x := v.(type) {
	case pr.DimOrS:
		return x.Value != 0 && relUnit(x.Unit)
	case pr.Point:
		return relUnit(x[0].Unit) || relUnit(x[1].Unit)
	case pr.Transforms:
		for _, t := range x {
			for _, d := range t.Dimensions {
				if relUnit(d.Unit) {
					return true
				}
			}
		}
	}
	return false
}

// adds the page context `pt` and its margin boxes; returns the new node indices
func (w *world) addPage(pt utils.PageElement) []int {
	before := map[utils.ElementKey]bool{}
	for k := range w.styles {
		before[k] = true
	}
	w.sf.SetPageComputedStylesT(pt, w.doc)
	w.styles = tree.VerifC04Styles(w.sf)
	pageKey := pt.ToKey("")
	if before[pageKey] {
		return nil
	}
	var out []int
	pi := w.addNode(w.styles[pageKey], 0, fmt.Sprintf("@page%+v", pt))
	w.nodes[pi].page = true
	out = append(out, pi)
	var mbs []string
	for k := range w.styles {
		if !before[k] && k.Element == nil && k.PageType == pt && k.PseudoType != "" {
			mbs = append(mbs, k.PseudoType)
		}
	}
	sort.Strings(mbs)
	for _, ps := range mbs {
		out = append(out, w.addNode(w.styles[pt.ToKey(ps)], pi, fmt.Sprintf("@page%+v %s", pt, ps)))
	}
	return out
}

func (w *world) addAnon(parent int) int {
	st := tree.VerifC04NewAnonymous(w.nodes[parent].style)
	return w.addNode(st, parent, "anonymous("+w.nodes[parent].desc+")")
}

// dst := nodes[src].style.Copy(): what boxes.wrapTable, the flex layout, columns ... do in the
// middle of a layout.  The new style object is built from the same inputs as its source.
func (w *world) addCopy(src int) int {
	st := w.nodes[src].style.Copy()
	ni := w.addNode(st, w.nodes[src].parent, "copy("+w.nodes[src].desc+")")
	w.nodes[ni].copyOf = src
	w.nodes[ni].page = w.nodes[src].page
	return ni
}

// the node a (copy of a copy of a ...) copy duplicates
func (w *world) original(n int) int {
	for w.nodes[n].copyOf >= 0 {
		n = w.nodes[n].copyOf
	}
	return n
}

// what the box tree / the drawing code ask of an anonymous box (line boxes, text boxes,
// anonymous table parts): the decorations propagated from the parent, the page, inherited
// text properties, box properties that take their initial value
var anonProps = []pr.KnownProp{pr.PTextDecorationLine, pr.PTextDecorationColor, pr.PTextDecorationStyle,
	pr.PTextDecorationColor, pr.PTextDecorationStyle, pr.PPage, pr.PColor, pr.PFontSize, pr.PDisplay, pr.PBorderTopWidth,
	pr.PWidth, pr.PFontWeight, pr.PLineHeight, pr.PVerticalAlign, pr.PMarginLeft}

// text decorations: line / style / color, through the shorthand and the longhands (propagated
// to the descendants and to the anonymous boxes, not inherited)
func decoDecl(r *vlib.Rng) string {
	color := vlib.Pick(r, []string{"red", "#123", "rgb(1, 2, 3)", "blue", "currentColor", "transparent"})
	style := vlib.Pick(r, []string{"wavy", "dashed", "dotted", "double", "solid"})
	line := vlib.Pick(r, []string{"underline", "overline", "line-through", "underline overline", "none"})
	switch r.Intn(6) {
	case 0:
		return "text-decoration:" + line + " " + style + " " + color
	case 1:
		return "text-decoration-color:" + color
	case 2:
		return "text-decoration-style:" + style
	case 3:
		return "text-decoration-line:" + line + ";text-decoration-style:" + style
	case 4:
		return "text-decoration:" + color + " " + line
	default:
		return "text-decoration-color:" + color + ";text-decoration-style:" + style + ";text-decoration-line:" + line
	}
}

type getRes struct {
	term  string
	panic string
}

func (w *world) get(n int, p pr.KnownProp) (out getRes) {
	defer func() {
		if r := recover(); r != nil {
			out = getRes{term: "RPanic", panic: fmt.Sprint(r)}
		}
	}()
	v := w.nodes[n].style.Get(p.Key())
	return getRes{term: "ROk (" + w.in.term(p, v) + ")"}
}

// construction steps of the late nodes, in the order the history performs them
type lateStep struct {
	page   *utils.PageElement
	parent int // anonymous box
	isCopy bool
	src    int // copy: the source node
}

func optN(i int) string {
	if i < 0 {
		return "None"
	}
	return fmt.Sprintf("(Some %d)", i)
}

// builds `src` and computes every declared property of every element, pseudo-element and of the
// first page: whatever outlives this (package-level state) is in place for the document under test
func runPrelude(src string) {
	defer func() { recover() }()
	w, err := build(src)
	if err != nil {
		return
	}
	w.in = newInterner()
	w.collectElements()
	w.addPage(utils.PageElement{Side: "right", First: true, Index: 0})
	for i, nd := range w.nodes {
		for _, p := range nd.props {
			w.get(i, p)
		}
		w.get(i, pr.PWidth)
	}
}

// 1ex / font-size and 1ch / font-size for the font `style` selects in `fonts` (x-height and
// advance of "0" at a font size of 1), each measured with a cache of its own
func measure(style pr.ElementStyle, fonts text.FontConfiguration) (out string) {
	defer func() {
		if recover() != nil {
			out = "None"
		}
	}()
	ex := text.CharacterRatio(style, pr.NewTextRatioCache(), false, fonts)
	ch := text.CharacterRatio(style, pr.NewTextRatioCache(), true, fonts)
	if !finite(ex) || !finite(ch) {
		return "None"
	}
	return fmt.Sprintf("(Some (mkMetrics %s %s))", vlib.Q32(float32(ex)), vlib.Q32(float32(ch)))
}

// tags computed from the cascaded declarations (distribution; matchers of known findings)
func structuralTags(w *world, tags map[string]bool) {
	unitsOf := func(v pr.DeclaredValue, f func(u pr.Unit)) {
		switch x := v.(type) {
		case pr.DimOrS:
			if x.Value != 0 {
				f(x.Unit)
			}
		case pr.Point:
			f(x[0].Unit)
			f(x[1].Unit)
		}
	}
	type rel struct{ ex, ch bool }
	doc := rel{}
	for _, nd := range w.nodes {
		casc, ok := tree.VerifC04Cascaded(nd.style)
		if !ok {
			continue
		}
		for k, v := range casc {
			unitsOf(v, func(u pr.Unit) {
				switch u {
				case pr.Ex:
					doc.ex = true
				case pr.Ch:
					doc.ch = true
				case pr.Em:
					tags["em"] = true
				case pr.Rem:
					tags["rem"] = true
				}
			})
			if k.KnownProp == pr.PMarks {
				if m, ok := v.(pr.Marks); ok && nd.page {
					switch {
					case m.Crop && !m.Cross:
						tags["page-marks-crop-only"] = true
					case m.Cross && !m.Crop:
						tags["page-marks-cross-only"] = true
					}
				}
			}
			if k.KnownProp == pr.PTransform {
				tags["transform"] = true
			}
			if d, ok := v.(pr.DimOrS); ok && d.Unit == pr.Perc {
				switch k.KnownProp {
				case pr.PLineHeight, pr.PFontSize, pr.PVerticalAlign, pr.PTextIndent, pr.PWidth:
					tags["pct:"+k.KnownProp.String()] = true
				default:
					tags["pct:other"] = true
				}
			}
		}
	}
	if doc.ex {
		tags["ex"] = true
	}
	if doc.ch {
		tags["ch"] = true
	}
	if doc.ex && doc.ch {
		tags["ex+ch"] = true
	}
}

// `G n p r` / `K n ok` of the history refer to these
func nodeNames(w *world) string {
	var parts []string
	for i, nd := range w.nodes {
		parts = append(parts, fmt.Sprintf("%d=%s", i, nd.desc))
	}
	return strings.Join(parts, " ")
}

var propIndex = func() string {
	var parts []string
	for p := pr.KnownProp(1); p < pr.NbProperties; p++ {
		parts = append(parts, fmt.Sprintf("%d=%s", p, p))
	}
	return strings.Join(parts, " ")
}()

func runDoc(seed uint64, corpus string) vlib.Case {
	r := vlib.NewRng(seed)
	var src docSrc
	if corpus != "" {
		src = docSrc{HTML: corpus, pages: []utils.PageElement{{Side: "right", First: true}}}
	} else {
		src = genDoc(r)
	}
	nOps := vlib.Pick(r, []int{150, 300, 500})
	if os.Getenv("VERIF_TIER") == "thorough" {
		nOps *= 2
	}

	tags := map[string]bool{}
	// another document first, in the same process: same rules, same family names, but the
	// @font-face sources exchanged; every declared property of every element is computed
	if src.Prelude != "" {
		runPrelude(src.Prelude)
		tags["prelude"] = true
	}

	w, err := build(src.HTML)
	if err != nil {
		return vlib.Case{Kind: "build-panic", Coq: "CBuildPanic", Desc: map[string]interface{}{"html": src.HTML, "error": fmt.Sprint(err)},
			Tags: []string{"build-panic"}, Nontrivial: true}
	}
	w.in = newInterner()
	w.collectElements()
	nInitial := len(w.nodes)

	var ops []string
	var trace []string
	for i := 0; i < nInitial; i++ {
		ops = append(ops, fmt.Sprintf("K %d true", i))
	}
	var late []lateStep
	panics := 0
	pagesLeft := append([]utils.PageElement{}, src.pages...)
	var pageNodes []int
	doGet := func(i, n int, p pr.KnownProp) {
		res := w.get(n, p)
		ops = append(ops, fmt.Sprintf("G %d %d (%s)", n, p, res.term))
		if res.panic != "" {
			panics++
			tags["get-panic"] = true
			if len(trace) < 5 {
				trace = append(trace, fmt.Sprintf("%s.Get(%s) panicked: %s", w.nodes[n].desc, p, res.panic))
			}
		} else if len(trace) < 5 && i%37 == 0 {
			trace = append(trace, fmt.Sprintf("%s.Get(%s) = %s", w.nodes[n].desc, p, res.term))
		}
	}
	sweepNode := -1
	var sweepProps []pr.KnownProp
	for i := 0; i < nOps; i++ {
		k := r.Intn(100)
		switch {
		case k < 3 && len(pagesLeft) > 0:
			pt := pagesLeft[0]
			pagesLeft = pagesLeft[1:]
			func() {
				defer func() {
					if rec := recover(); rec != nil {
						ops = append(ops, fmt.Sprintf("K %d false", len(w.nodes)))
						tags["page-construction-panic"] = true
					}
				}()
				added := w.addPage(pt)
				for _, ni := range added {
					ops = append(ops, fmt.Sprintf("K %d true", ni))
					tags["page"] = true
				}
				ptc := pt
				late = append(late, lateStep{page: &ptc})
				// what the page layout asks of a new page context, in some order
				if len(added) > 0 {
					pageNodes = append(pageNodes, added[0])
					for j, m := 0, r.Intn(6); j < m; j++ {
						doGet(1, added[0], vlib.Pick(r, pageProps))
					}
				}
			}()
		case k < 9:
			parent := r.Intn(len(w.nodes))
			ni := w.addAnon(parent)
			late = append(late, lateStep{parent: parent})
			ops = append(ops, fmt.Sprintf("K %d true", ni))
			tags["anonymous"] = true
			// what is asked of a new anonymous box, in some order
			for j, m := 0, r.Intn(5); j < m; j++ {
				p := vlib.Pick(r, anonProps)
				if anc := w.nodes[parent]; r.Chance(1, 4) && len(anc.props) > 0 {
					p = vlib.Pick(r, anc.props)
				}
				doGet(1, ni, p)
			}
		case k < 13:
			// a style is copied at some point of the history (table wrappers, flex items,
			// columns, leaders); the copy must compute what the original would
			src := r.Intn(len(w.nodes))
			for try := 0; try < 3 && len(w.nodes[src].rel) == 0; try++ { // rather one with font-relative declarations
				src = r.Intn(len(w.nodes))
			}
			if w.nodes[src].parent < 0 {
				// the model's trees have one parentless node (wf_tree): the root style is not copied
				if len(w.nodes) < 2 {
					continue
				}
				src = 1
			}
			func() {
				defer func() {
					if rec := recover(); rec != nil {
						ops = append(ops, fmt.Sprintf("C %d %d false", src, len(w.nodes)))
						tags["copy-panic"] = true
						panics++
					}
				}()
				ni := w.addCopy(src)
				late = append(late, lateStep{isCopy: true, src: src})
				ops = append(ops, fmt.Sprintf("C %d %d true", src, ni))
				tags["copy"] = true
				if w.nodes[ni].anon {
					tags["copy-anonymous"] = true
				}
				nd := w.nodes[ni]
				for j, m := 0, r.Intn(6); j < m; j++ {
					var p pr.KnownProp
					switch c := r.Intn(6); {
					case c < 3 && len(nd.rel) > 0:
						p = vlib.Pick(r, nd.rel)
					case c < 4 && len(nd.props) > 0:
						p = vlib.Pick(r, nd.props)
					case nd.anon:
						p = vlib.Pick(r, anonProps)
					default:
						p = randProp(r)
					}
					doGet(1, ni, p)
					if r.Chance(1, 3) { // and the original, after its copy
						doGet(1, src, p)
					}
				}
			}()
		default:
			var n int
			var p pr.KnownProp
			if sweepNode >= 0 && len(sweepProps) > 0 {
				n, p = sweepNode, sweepProps[len(sweepProps)-1]
				sweepProps = sweepProps[:len(sweepProps)-1]
			} else {
				n = r.Intn(len(w.nodes))
				if len(pageNodes) > 0 && r.Chance(1, 12) {
					n = vlib.Pick(r, pageNodes)
				}
				if r.Chance(1, 40) { // all properties of one node, in random order
					sweepNode = n
					sweepProps = nil
					for q := 1; q < int(pr.NbProperties); q++ {
						sweepProps = append(sweepProps, pr.KnownProp(q))
					}
					for j := len(sweepProps) - 1; j > 0; j-- {
						l := r.Intn(j + 1)
						sweepProps[j], sweepProps[l] = sweepProps[l], sweepProps[j]
					}
					tags["sweep"] = true
				}
				// a property declared on the node or on one of its ancestors, else any
				switch c := r.Intn(10); {
				case w.nodes[n].page && c < 5:
					p = vlib.Pick(r, pageProps)
				case c >= 8 && len(w.nodes[n].rel) > 0:
					p = vlib.Pick(r, w.nodes[n].rel)
				case c < 4:
					m := n
					for hops := r.Intn(4); hops > 0 && w.nodes[m].parent >= 0; hops-- {
						m = w.nodes[m].parent
					}
					if len(w.nodes[m].props) > 0 {
						p = vlib.Pick(r, w.nodes[m].props)
					} else {
						p = randProp(r)
					}
				default:
					p = randProp(r)
				}
			}
			doGet(i, n, p)
		}
	}

	// oracle: the computed value of every explicit declaration with a computer function,
	// read on an identical, separately built copy of the document
	if sh, err2 := build(src.HTML); err2 == nil {
		sh.in = w.in
		sh.collectElements()
		okShadow := len(sh.nodes) == nInitial
		for _, st := range late {
			if !okShadow {
				break
			}
			func() {
				defer func() {
					if recover() != nil {
						okShadow = false
					}
				}()
				switch {
				case st.page != nil:
					sh.addPage(*st.page)
				case st.isCopy:
					sh.addCopy(st.src)
				default:
					sh.addAnon(st.parent)
				}
			}()
		}
		if okShadow && len(sh.nodes) == len(w.nodes) {
			// font metrics of the font each style selects: measured on the copy, with no cache at all
			for i, nd := range w.nodes {
				if !nd.anon && nd.copyOf < 0 {
					nd.met = measure(sh.nodes[i].style, sh.fonts)
				}
			}
			for i, nd := range w.nodes {
				casc, ok := tree.VerifC04Cascaded(nd.style)
				if !ok || nd.copyOf >= 0 { // a copy: the recorded inputs of the node it duplicates (below)
					continue
				}
				for _, p := range nd.props {
					if _, isDefault := casc[p.Key()].(pr.DefaultValue); isDefault {
						continue
					}
					if tree.VerifC04ComputerName(p) == "" {
						continue
					}
					res := sh.get(i, p)
					if res.panic == "" {
						nd.orc = append(nd.orc, fmt.Sprintf("Orc %d (%s)", p, strings.TrimSuffix(strings.TrimPrefix(res.term, "ROk ("), ")")))
					}
				}
			}
		} else {
			tags["no-oracle"] = true
		}
	}

	// the cascaded declarations are the model's (constant) input: read them again
	var changed, changedDesc []string
	for i, nd := range w.nodes {
		casc, ok := tree.VerifC04Cascaded(nd.style)
		if !ok {
			continue
		}
		for j, p := range nd.props {
			after := w.cascTerm(nd.style, p, casc[p.Key()])
			if after != nd.cterms[j] {
				changed = append(changed, fmt.Sprintf("DChg %d %d (%s) (%s)", i, p, nd.cterms[j], after))
				if len(changedDesc) < 5 {
					changedDesc = append(changedDesc, fmt.Sprintf("%s: declared %s is now %#v", nd.desc, p, casc[p.Key()]))
				}
				tags["declared-value-mutated"] = true
				tags["mutated:"+p.String()] = true
			}
		}
	}

	var nodeTerms []string
	nDecl := 0
	for _, nd := range w.nodes {
		kind := "KElem"
		if nd.anon {
			kind = "KAnon"
		}
		if nd.copyOf >= 0 {
			// built from the same parent style, the same cascaded declarations, the same font: the
			// node of the source (copies come after their source)
			nodeTerms = append(nodeTerms, nodeTerms[w.original(nd.copyOf)])
			continue
		}
		nodeTerms = append(nodeTerms, fmt.Sprintf("mkNode %s %s %s %s %s", optN(nd.parent), kind, vlib.List(nd.decls), vlib.List(nd.orc), nd.met))
		nDecl += len(nd.decls)
		if nd.met != "None" {
			tags["metrics"] = true
		}
	}
	structuralTags(w, tags)
	if w.in.unstable {
		tags["unstable-print"] = true
	}
	var tagList []string
	for t := range tags {
		tagList = append(tagList, t)
	}
	sort.Strings(tagList)
	kind := "doc"
	if corpus != "" {
		kind = "corpus"
	}
	return vlib.Case{Kind: kind,
		Coq: fmt.Sprintf("CDoc %s %s %s", vlib.List(nodeTerms), vlib.List(ops), vlib.List(changed)),
		Desc: map[string]interface{}{"html": src.HTML, "built_before_in_the_same_process": src.Prelude, "fonts": src.Fonts,
			"node_index": nodeNames(w), "property_index": propIndex,
			"nodes": len(w.nodes), "declarations": nDecl, "ops": len(ops),
			"panics": panics, "sample": trace, "declared_values_modified": changedDesc},
		Tags: tagList, Nontrivial: nDecl > 0, Key: fmt.Sprintf("%d/%s", seed, corpus)}
}

// ---------------------------------------------------------------- tables

func tableCases(w *vlib.Writer) {
	in := newInterner()
	var entries []string
	desc := map[string]interface{}{}
	nInit := 0
	for p := pr.KnownProp(1); p < pr.NbProperties; p++ {
		name, _ := coqStr(p.String())
		comp, _ := coqStr(tree.VerifC04ComputerName(p))
		iv, has := pr.InitialValues[p]
		init := "VOpaque 999"
		if has {
			nInit++
			init = in.term(p, iv)
		}
		entries = append(entries, fmt.Sprintf("TProp %d %s %s %s %s (%s)", p, name,
			vlib.Bool(pr.Inherited.Has(p)), vlib.Bool(pr.InitialNotComputed.Has(p)), comp, init))
		desc[p.String()] = fmt.Sprintf("inherited=%v initial_not_computed=%v computer=%q initial=%#v",
			pr.Inherited.Has(p), pr.InitialNotComputed.Has(p), tree.VerifC04ComputerName(p), iv)
	}
	nComp := 0
	for p := pr.KnownProp(1); p < pr.NbProperties; p++ {
		if tree.VerifC04ComputerName(p) != "" {
			nComp++
		}
	}
	for u := pr.Unit(0); u <= pr.Fr+1; u++ {
		entries = append(entries, fmt.Sprintf("TUnit %d %s", u, vlib.Q32(float32(pr.LengthsToPixels[u]))))
	}
	desc["LengthsToPixels"] = fmt.Sprintf("%v", pr.LengthsToPixels)
	for i, k := range pr.FontSizeKeywordsOrder {
		s, _ := coqStr(k)
		entries = append(entries, fmt.Sprintf("TFsk %d %s %s", i, s, vlib.Q32(float32(pr.FontSizeKeywords[k]))))
	}
	desc["FontSizeKeywords"] = fmt.Sprintf("%v", pr.FontSizeKeywords)
	bw := tree.VerifC04BorderWidthKeywords()
	var bwKeys []string
	for k := range bw {
		bwKeys = append(bwKeys, k)
	}
	sort.Strings(bwKeys)
	for _, k := range bwKeys {
		s, _ := coqStr(k)
		entries = append(entries, fmt.Sprintf("TBw %s %s", s, vlib.Q32(float32(bw[k]))))
	}
	bolder, lighter := tree.VerifC04FontWeightRelative()
	for wgt := 0; wgt <= 1000; wgt += 50 {
		entries = append(entries, fmt.Sprintf("TFw true %d %d", wgt, bolder[wgt]), fmt.Sprintf("TFw false %d %d", wgt, lighter[wgt]))
	}
	desc["fontWeightRelative"] = fmt.Sprintf("bolder=%v lighter=%v", bolder, lighter)
	entries = append(entries, fmt.Sprintf("TSizes %d %d %d %d %d %d %d %d %d %d", pr.NbProperties, len(pr.Inherited),
		len(pr.InitialNotComputed), nComp, nInit, len(pr.LengthsToPixels), len(pr.FontSizeKeywords), len(bw), len(bolder), len(lighter)))
	w.Add(vlib.Case{Kind: "tables", Coq: "CTables " + vlib.List(entries), Desc: desc, Nontrivial: true, Key: "tables"})
}

// ---------------------------------------------------------------- the ex / ch ratio cache

// random Set / Get sequences on a pr.TextRatioCache (font description keys, both units)
func ratioCases(w *vlib.Writer, r *vlib.Rng) {
	keys := []string{"", "a", "b", "docfont", "docfont|400|normal", "docfont|700|normal", "Ahem", "ahem"}
	ratios := []pr.Float{0.8, 1, 0.7998, 0.5, 0.44, 0.6, 0}
	for c := 0; c < 12; c++ {
		cache := pr.NewTextRatioCache()
		var ops, trace []string
		for i, n := 0, r.Range(10, 60); i < n; i++ {
			k, ch := vlib.Pick(r, keys[:r.Range(2, len(keys))]), r.Bool()
			ks, _ := coqStr(k)
			if r.Chance(2, 5) {
				f := vlib.Pick(r, ratios)
				cache.Set(k, ch, f)
				ops = append(ops, fmt.Sprintf("RSet %s %s %s", ks, vlib.Bool(ch), vlib.Q32(float32(f))))
				trace = append(trace, fmt.Sprintf("Set(%q, isCh=%v, %v)", k, ch, f))
			} else {
				f, ok := cache.Get(k, ch)
				ops = append(ops, fmt.Sprintf("RGet %s %s %s %s", ks, vlib.Bool(ch), vlib.Bool(ok), vlib.Q32(float32(f))))
				trace = append(trace, fmt.Sprintf("Get(%q, isCh=%v) = %v, %v", k, ch, f, ok))
			}
		}
		w.Add(vlib.Case{Kind: "ratio-cache", Coq: "CRatio " + vlib.List(ops), Desc: map[string]interface{}{"TextRatioCache": trace},
			Tags: []string{"ratio-cache"}, Nontrivial: true, Key: fmt.Sprintf("ratio/%d/%d", vlib.Seed(), c)})
	}
}

// ---------------------------------------------------------------- main

type job struct {
	Seed   uint64
	Corpus string
}

func main() {
	logger.WarningLogger.SetOutput(devNull{})
	logger.ProgressLogger.SetOutput(devNull{})
	if vlib.IsWorker() {
		vlib.WorkerMain(func(in string) string {
			var j job
			json.Unmarshal([]byte(in), &j)
			c := runDoc(j.Seed, j.Corpus)
			b, _ := json.Marshal(c)
			return string(b)
		})
	}
	out := flag.String("out", "cases.jsonl", "output file")
	n := flag.Int("n", 100, "number of documents")
	flag.Parse()
	rng := vlib.NewRng(vlib.Seed())
	w := vlib.NewWriter(*out)
	defer w.Close()

	tableCases(w)
	ratioCases(w, rng.Fork())

	var inputs []string
	var jobs []job
	corpus, _ := filepath.Glob("../corpus/C04/*.html")
	sort.Strings(corpus)
	for _, f := range corpus {
		b, err := os.ReadFile(f)
		if err == nil {
			jobs = append(jobs, job{Seed: 7, Corpus: strings.TrimSpace(string(b))})
		}
	}
	for i := 0; i < *n; i++ {
		jobs = append(jobs, job{Seed: rng.U64()})
	}
	for _, j := range jobs {
		b, _ := json.Marshal(j)
		inputs = append(inputs, string(b))
	}
	results := vlib.RunPool(inputs, 12, 60*time.Second, 0)
	for i, res := range results {
		if res.Status != "ok" {
			w.Add(vlib.Case{Kind: "worker-" + res.Status, Coq: "CBuildPanic",
				Desc: map[string]interface{}{"job": jobs[i], "status": res.Status, "stderr": res.Out, "kind": vlib.FatalKind(res.Out)},
				Tags: []string{"worker-" + res.Status}, Nontrivial: true})
			continue
		}
		var c vlib.Case
		if err := json.Unmarshal([]byte(res.Out), &c); err != nil {
			fmt.Fprintln(os.Stderr, "c04: cannot decode worker output:", err)
			os.Exit(2)
		}
		w.Add(c)
	}
}

type devNull struct{}

func (devNull) Write(p []byte) (int, error) { return len(p), nil }
