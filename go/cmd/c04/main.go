package main

import (
	"fmt"
	"os"

	pr "github.com/benoitkugler/webrender/css/properties"
	"github.com/benoitkugler/webrender/html/tree"
	"github.com/benoitkugler/webrender/utils"
	"golang.org/x/net/html"
)

func main() {
	src := os.Args[1]
	doc, err := tree.NewHTML(utils.InputString(src), "http://verif.test/", nil, "")
	if err != nil {
		panic(err)
	}
	var pageRules []tree.PageRule
	sf := tree.GetAllComputedStyles(doc, nil, false, nil, nil, &pageRules, nil, false, nil)
	styles := tree.VerifC04Styles(sf)
	var walk func(n *html.Node, d int)
	walk = func(n *html.Node, d int) {
		if n.Type == html.ElementNode {
			for _, ps := range []string{"", "before", "marker"} {
				st := styles[(*utils.HTMLNode)(n).ToKey(ps)]
				if st == nil {
					continue
				}
				casc, _ := tree.VerifC04Cascaded(st)
				fmt.Printf("%*s<%s>::%s cascaded=%d\n", d*2, "", n.Data, ps, len(casc))
				for k, v := range casc {
					fmt.Printf("%*s   %s = %#v\n", d*2, "", k, v)
				}
				for _, p := range os.Args[2:] {
					func() {
						defer func() {
							if r := recover(); r != nil {
								fmt.Printf("%*s   GET %s PANIC %v\n", d*2, "", p, r)
							}
						}()
						kp := pr.PropsFromNames[p]
						fmt.Printf("%*s   GET %s -> %#v\n", d*2, "", p, st.Get(kp.Key()))
					}()
				}
			}
		}
		for c := n.FirstChild; c != nil; c = c.NextSibling {
			walk(c, d+1)
		}
	}
	walk((*html.Node)(doc.Root), 0)
	fmt.Println("nb", pr.NbProperties)
}
