package main

// Input generators.  Every choice derives from the one seeded Rng.
//
// Property values: a dictionary of atoms (keywords harvested from the string
// literals of /repo/css/validation and /repo/css/properties, numbers,
// dimensions, strings, urls, colours, functions) is tried atom by atom on every
// property name at start-up ("discovery"): the atoms a property accepts alone
// are its grammar of near-valid values.  Values are sequences of such atoms
// (mostly accepted ones), then mutated: deletions, duplications, swapped units,
// empty functions f(), var() in every position, huge / negative / zero numbers,
// nesting, stray delimiters, truncation.

import (
	"fmt"
	"os"
	"path/filepath"
	"regexp"
	"sort"
	"strings"
	"sync"

	"verifharness/vlib"
	"verifharness/vlib/render"

	pa "github.com/benoitkugler/webrender/css/parser"
	pr "github.com/benoitkugler/webrender/css/properties"
	"github.com/benoitkugler/webrender/css/validation"
)

type gen struct {
	r                *vlib.Rng
	props            []string            // all property + shorthand names
	atoms            []string            // dictionary
	accepted         map[string][]string // property -> atoms accepted alone
	seeds            map[string][]string // property -> values found in /repo's own test files
	discoveryCrashes []job
	ffDesc, csDesc   []string
}

var baseAtoms = []string{
	"0", "1", "-1", "2", "3", "0.5", "-0.5", "1e3", "1e+5", "1E-2", "100", "400", "700", "+3", "-0", "1.0", ".5", "99999999999999999999", "2147483648", "4294967296", "-2147483649", "1e39", "1e-50",
	"10px", "1em", "2ex", "1ch", "1rem", "3pt", "1in", "0px", "-5px", "1.5cm", "4mm", "5q", "1pc", "1vw", "10PX", "1e3px", "99999999999px", "-0px",
	"50%", "100%", "-10%", "0%", "1e3%", "150%",
	"90deg", "1rad", "1turn", "100grad", "-45deg", "1fr", "2fr", "0fr", "1s", "200ms", "96dpi", "2dppx", "1dpcm", "1x",
	`"a"`, `""`, `'x y'`, `"\66"`, `"."`, `","`, "url(a.png)", `url("b")`, "url()", "url(%zz)", "url(http://[::1]:namedport)", "url(#a)", "url(:)", `url("http://[::1")`, "url(//x)", "url(../../../a)", "url(\\0)", "url(data:,x)", `url(data:image/png;base64,AAAA)`,
	"#fff", "#abcdef", "#12", "#12345678", "#ggg", "red", "transparent", "currentColor", "RED",
	"rgb(1,2,3)", "rgba(1 2 3 / .5)", "rgb(100%, 0%, 0%)", "hsl(120,50%,50%)", "hsla(120deg 50% 50% / 10%)", "rgb()", "rgb(1,2)", "rgb(1 2 3 4 5)",
	"calc(1px + 2px)", "calc(1px)", "calc()", "attr(x)", "attr(x px, 1)", "attr(x string)", "attr()", "attr(x, y, z)", "attr(data-x url)",
	"var(--a)", "var(--a, 1px)", "var()", "var(a)", "var(--a,)", "var(1)", "var(--a --b)",
	"counter(c)", "counter(c, upper-roman)", "counter()", "counter(c, symbols(cyclic 'a' 'b'))", "counters(c, \".\")", "counters(c)", "counters(c, \".\", decimal)", "counter(c, x, y)",
	"string(s)", "string(s, first)", "string()", "string(s, last)", "content()", "content(text)", "content(before)", "content(x)", "element(e)", "element(e, first-except)", "element()",
	"target-counter(attr(href), page)", "target-counter(url(#a), c, lower-alpha)", "target-counter()", "target-counters(url(#a), c, \".\")", "target-counters(attr(href), c)", "target-text(attr(href))", "target-text(url(#x), before)", "target-text()",
	"leader(dotted)", "leader(\".\")", "leader()", "leader(space)",
	"linear-gradient(red, blue)", "linear-gradient(to right, red 10%, blue)", "linear-gradient()", "linear-gradient(to, red)", "linear-gradient(45deg, red 0, blue 10px 20px)", "linear-gradient(to top left, red, blue)",
	"radial-gradient(circle, red, blue)", "radial-gradient(circle at top, red, blue)", "radial-gradient(10px 20px at 1px 2px, red, blue)", "radial-gradient(closest-side, red)", "radial-gradient(at, red)", "radial-gradient()",
	"repeating-linear-gradient(45deg, red 0, blue 10px)", "repeating-radial-gradient(red, blue 10px)",
	"repeat(2, 1fr)", "repeat(auto-fill, 100px)", "repeat(auto-fit, minmax(10px, 1fr))", "repeat()", "repeat(0, 1px)", "repeat(2)", "repeat(2, [a] 1fr [b])", "repeat(-1, 1px)", "repeat(1e9, 1px)",
	"minmax(10px, 1fr)", "minmax()", "minmax(1px)", "fit-content(10px)", "fit-content()", "[a]", "[a b]", "[]", "[1]", "subgrid", "span 2", "span a", "span",
	"translate(1px, 2px)", "translate(1px)", "translatex(1%)", "rotate(45deg)", "rotate()", "scale(2)", "scale(2, 3)", "scalex(2)", "matrix(1,0,0,1,0,0)", "matrix(1,0)", "skew(1deg)", "skew(1deg, 2deg)", "skewx(1deg)", "translate()",
	"symbols(cyclic \"a\" \"b\")", "symbols()", "symbols(fixed)", "symbols(numeric '0')", "local(x)", "local()", "format(\"woff\")", "format()",
	"running(h)", "running()", "footnote-call", "U+0-7F", "U+4??", "u+", "image-set(url(a) 1x)", "cross-fade(red)",
	"a", "x-y", "--x", "-x", "_", "A4", "landscape", "initial", "inherit", "unset", "revert", "auto", "none", "normal",
	"/", ",", "!important", "! important", "!",
	"{}", "{a:b}", "()", "(x)", "(1px + 2px)",
}

var stray = []string{",", "/", ";", ":", "!", "(", ")", "[", "]", "{", "}", "+", "-", "*", "#", "@", "\\", ".", "%", "&", "|", "~", "=", "<", ">", "\"", "'", "/*", "*/", "<!--", "-->", "\\\n", "\x00", " ", "\xff", "url(", "U+", "e", "--"}
var unitsPool = []string{"px", "em", "ex", "ch", "rem", "pt", "pc", "in", "cm", "mm", "q", "%", "deg", "rad", "grad", "turn", "fr", "s", "ms", "dpi", "dpcm", "dppx", "x", "vw", "n", "e1", "PX", "\\70x", ""}
var hugeNums = []string{"99999999999999999999", "-99999999999999999999", "0", "-0", "-1", "1e99", "-1e99", "1e-99", "4294967296", "2147483648", "-2147483649", "9223372036854775808", "1e308", "1e400", "0.0000001", "65536", "1000000", "255", "256", "NaN", "infinity"}
var funcNames = []string{"calc", "var", "attr", "url", "rgb", "rgba", "hsl", "counter", "counters", "string", "content", "element", "target-counter", "target-counters", "target-text", "leader", "linear-gradient", "radial-gradient", "repeating-linear-gradient", "repeating-radial-gradient", "repeat", "minmax", "fit-content", "translate", "rotate", "scale", "matrix", "skew", "symbols", "local", "format", "running", "min", "max", "clamp", "env", "image", "x", "nth", "is", "not"}

var identRe = regexp.MustCompile(`"([a-zA-Z-][a-zA-Z0-9-]{0,40})"`)

func harvest(dirs ...string) []string {
	set := map[string]bool{}
	for _, d := range dirs {
		files, _ := filepath.Glob(filepath.Join(d, "*.go"))
		for _, f := range files {
			if strings.HasSuffix(f, "_test.go") {
				continue
			}
			b, err := os.ReadFile(f)
			if err != nil {
				continue
			}
			for _, m := range identRe.FindAllSubmatch(b, -1) {
				set[string(m[1])] = true
			}
		}
	}
	out := make([]string, 0, len(set))
	for k := range set {
		out = append(out, k)
	}
	sort.Strings(out)
	return out
}

func newGen(r *vlib.Rng) *gen {
	g := &gen{r: r, accepted: map[string][]string{}}
	names := map[string]bool{}
	for n := range pr.PropsFromNames {
		names[n] = true
	}
	for sh := pr.Shortand(1); sh.String() != ""; sh++ {
		names[sh.String()] = true
		if sh > 200 {
			break
		}
	}
	for _, n := range []string{"--x", "--", "-weasy-link", "-weasy-anchor", "-weasy-lang", "-weasy-hyphens", "-weasy-foo", "-webkit-x", "azimuth", "unknown-prop", "COLOR", "Margin-Top", "size", "marks", "bleed", "src", "page"} {
		names[n] = true
	}
	for n := range names {
		g.props = append(g.props, n)
	}
	sort.Strings(g.props)

	seen := map[string]bool{}
	for _, a := range append(append([]string{}, baseAtoms...), harvest("/repo/css/validation", "/repo/css/properties", "/repo/css/properties/keywords", "/repo/css/counters")...) {
		if !seen[a] {
			seen[a] = true
			g.atoms = append(g.atoms, a)
		}
	}
	g.ffDesc = []string{"src", "font-family", "font-style", "font-weight", "font-stretch", "font-feature-settings", "font-variant", "unicode-range", "font-display", "foo"}
	g.csDesc = []string{"system", "negative", "prefix", "suffix", "range", "pad", "fallback", "symbols", "additive-symbols", "speak-as", "foo"}
	g.harvestSeeds(names)
	g.discover()
	return g
}

var declRe = regexp.MustCompile(`(?:^|[\s";{'` + "`" + `])([a-z-]{3,40})\s*:\s*([^;"}{\n` + "`" + `]{1,160})`)

// harvestSeeds collects `property: value` pairs written in /repo's test files:
// realistic multi-token values (valid and invalid) for the complex grammars.
func (g *gen) harvestSeeds(names map[string]bool) {
	g.seeds = map[string][]string{}
	seen := map[string]bool{}
	var files []string
	for _, d := range []string{"css/validation", "css/parser", "html/tree", "html/layout", "html/boxes", "html/document", "svg", "html/tree/tests_ressources"} {
		for _, pat := range []string{"*_test.go", "*.css", "*.html"} {
			fs, _ := filepath.Glob(filepath.Join("/repo", d, pat))
			files = append(files, fs...)
		}
	}
	sort.Strings(files)
	for _, f := range files {
		b, err := os.ReadFile(f)
		if err != nil {
			continue
		}
		for _, m := range declRe.FindAllSubmatch(b, -1) {
			p, v := string(m[1]), strings.TrimSpace(string(m[2]))
			if !names[p] || v == "" || seen[p+"\x00"+v] {
				continue
			}
			seen[p+"\x00"+v] = true
			g.seeds[p] = append(g.seeds[p], v)
		}
	}
}

// discover: which atoms does each property accept alone?  (in-process, parallel;
// a panic here is kept as a job so that it is reported through the normal path)
func (g *gen) discover() {
	type res struct {
		prop  string
		acc   []string
		crash []string
	}
	ch := make(chan res, len(g.props))
	sem := make(chan struct{}, 16)
	var wg sync.WaitGroup
	for _, p := range g.props {
		wg.Add(1)
		go func(p string) {
			defer wg.Done()
			sem <- struct{}{}
			defer func() { <-sem }()
			rs := res{prop: p}
			for _, a := range g.atoms {
				src := p + ":" + a
				var n int
				o := render.Guard(func() {
					n = len(validation.PreprocessDeclarations("", pa.ParseBlocksContentsString(src)))
				})
				if o.Status != "ok" {
					rs.crash = append(rs.crash, src)
				} else if n > 0 {
					rs.acc = append(rs.acc, a)
				}
			}
			ch <- rs
		}(p)
	}
	wg.Wait()
	close(ch)
	var all []res
	for rs := range ch {
		all = append(all, rs)
	}
	sort.Slice(all, func(i, j int) bool { return all[i].prop < all[j].prop })
	for _, rs := range all {
		g.accepted[rs.prop] = rs.acc
		for k, c := range rs.crash {
			if k < 3 {
				g.discoveryCrashes = append(g.discoveryCrashes, job{C: "decl", S: c, Kind: "decl-discovery", Tags: []string{"discovery"}})
			}
		}
	}
}

// ---------------------------------------------------------------- values

func (g *gen) atomFor(prop string) string {
	acc := g.accepted[prop]
	if len(acc) > 0 && g.r.Chance(3, 4) {
		return vlib.Pick(g.r, acc)
	}
	if g.r.Chance(2, 3) {
		return vlib.Pick(g.r, baseAtoms)
	}
	return vlib.Pick(g.r, g.atoms)
}

var unitRe = regexp.MustCompile(`^([-+]?[0-9.]+(?:[eE][-+]?[0-9]+)?)([a-zA-Z%]*)$`)

func (g *gen) mutateAtoms(as []string) ([]string, string) {
	r := g.r
	if len(as) == 0 {
		return []string{vlib.Pick(r, stray)}, "stray"
	}
	i := r.Intn(len(as))
	cp := append([]string{}, as...)
	switch r.Intn(12) {
	case 0:
		return append(cp[:i], cp[i+1:]...), "delete"
	case 1:
		return append(cp[:i+1], cp[i:]...), "duplicate"
	case 2:
		if m := unitRe.FindStringSubmatch(cp[i]); m != nil {
			cp[i] = m[1] + vlib.Pick(r, unitsPool)
		} else {
			cp[i] = vlib.Pick(r, hugeNums) + vlib.Pick(r, unitsPool)
		}
		return cp, "swap-unit"
	case 3:
		cp[i] = vlib.Pick(r, funcNames) + "()"
		return cp, "empty-function"
	case 4:
		v := vlib.Pick(r, []string{"var(--x)", "var()", "var(--x, )", "var(--x, var(--y))", "var(x)", "var(--x,,)", "attr(x)", "VAR(--x)"})
		cp = append(cp[:i+1], cp[i:]...)
		cp[i] = v
		return cp, "var-insert"
	case 5:
		if m := unitRe.FindStringSubmatch(cp[i]); m != nil {
			cp[i] = vlib.Pick(r, hugeNums) + m[2]
		} else {
			cp[i] = vlib.Pick(r, hugeNums)
		}
		return cp, "huge-number"
	case 6:
		f := vlib.Pick(r, funcNames)
		if r.Bool() {
			cp[i] = f + "(" + cp[i] + ")"
		} else {
			cp[i] = f + "(" + vlib.Pick(r, funcNames) + "(" + cp[i] + "))"
		}
		return cp, "nest"
	case 7:
		cp = append(cp[:i+1], cp[i:]...)
		cp[i] = vlib.Pick(r, stray)
		return cp, "stray"
	case 8: // replace the inside of a function by something else
		if k := strings.IndexByte(cp[i], '('); k > 0 && strings.HasSuffix(cp[i], ")") {
			inner := []string{}
			for n := r.Intn(4); n > 0; n-- {
				inner = append(inner, vlib.Pick(r, baseAtoms))
			}
			cp[i] = cp[i][:k+1] + strings.Join(inner, vlib.Pick(r, []string{" ", ", ", "/", ","})) + ")"
			return cp, "function-args"
		}
		cp[i] = vlib.Pick(r, g.atoms)
		return cp, "replace"
	case 9:
		j := r.Intn(len(cp))
		cp[i], cp[j] = cp[j], cp[i]
		return cp, "swap"
	case 10:
		cp[i] = vlib.Pick(r, g.atoms)
		return cp, "replace"
	default:
		cp[i] = strings.ToUpper(cp[i])
		return cp, "upper"
	}
}

// value returns a (mostly near-valid, then mutated) value for a property
func (g *gen) value(prop string) (string, []string) {
	r := g.r
	n := 1
	switch r.Intn(10) {
	case 0, 1, 2, 3:
		n = 1
	case 4, 5, 6:
		n = 2
	case 7, 8:
		n = r.Range(3, 4)
	default:
		n = r.Range(5, 9)
	}
	as := make([]string, n)
	for i := range as {
		as[i] = g.atomFor(prop)
	}
	var tags []string
	if sd := g.seeds[prop]; len(sd) > 0 && r.Chance(1, 3) {
		as = strings.Fields(vlib.Pick(r, sd))
		tags = append(tags, "seed")
	}
	for m := []int{0, 1, 1, 1, 2, 3}[r.Intn(6)]; m > 0; m-- {
		var t string
		as, t = g.mutateAtoms(as)
		tags = append(tags, "mut:"+t)
	}
	sep := " "
	if r.Chance(1, 6) {
		sep = vlib.Pick(r, []string{", ", ",", " / ", "/", "", "  ", "/**/", "\n"})
	}
	v := strings.Join(as, sep)
	if r.Chance(1, 15) && len(v) > 1 { // truncation: unbalanced functions / strings at EOF
		v = v[:r.Range(1, len(v)-1)]
		tags = append(tags, "mut:truncate")
	}
	if r.Chance(1, 20) {
		v += vlib.Pick(r, []string{" !important", "!important", " ! important", " !important!", " !", " !importan", " !important !important"})
		tags = append(tags, "important")
	}
	return v, tags
}

func (g *gen) decl(props []string) (string, []string) {
	p := vlib.Pick(g.r, props)
	v, tags := g.value(p)
	name := p
	if g.r.Chance(1, 30) {
		name = strings.ToUpper(p)
	}
	return name + ": " + v, append(tags, "prop:"+p)
}

func (g *gen) declBlock(props []string, max int) string {
	var sb strings.Builder
	for n := g.r.Range(0, max); n > 0; n-- {
		d, _ := g.decl(props)
		sb.WriteString(d)
		sb.WriteString(vlib.Pick(g.r, []string{"; ", ";", ";\n", "; ", " ", ";;"}))
	}
	return sb.String()
}

// ---------------------------------------------------------------- selectors

var selAtoms = []string{"a", "div", "*", "p", "h1", ".c", "#i", ".a.b", "[x]", "[x=y]", `[x="y"]`, "[x~=y]", "[x|=y]", "[x^=y]", "[x$=y]", "[x*=y]", "[x=y i]", "[x=y s]", `[x=""]`, "[ns|x]", "[*|x]", "[|x]",
	":first-child", ":last-child", ":only-child", ":first-of-type", ":last-of-type", ":only-of-type", ":empty", ":root", ":link", ":visited", ":hover", ":checked", ":disabled", ":enabled", ":target", ":lang(fr)", ":lang()", ":foo", ":foo(1)",
	":nth-child(2n+1)", ":nth-child(odd)", ":nth-child(even)", ":nth-child(n)", ":nth-child(-n+3)", ":nth-child(+n)", ":nth-child(2n + 1 of .a)", ":nth-last-child(2)", ":nth-of-type(3n-1)", ":nth-last-of-type(n+ 2)", ":nth-child()", ":nth-child(of)", ":nth-child(2n+)", ":nth-child(n- 1)", ":nth-child(- n)", ":nth-child(1 of)", ":nth-child(n-99999999999999999999)", ":nth-child(99999999999999999999n)", ":nth-child(2n+1 of)", ":nth-child(of a)", ":nth-child( ", ":nth-child(",
	":not(a)", ":not(.a, .b)", ":not()", ":not(:not(a))", ":is(a, b)", ":is()", ":where(a)", ":has(> a)", ":has(a)", ":has()", ":matches(a)", ":-moz-any(a)",
	"::before", "::after", "::marker", "::first-line", "::first-letter", "::foo", "::", ":before", "::before::after", ":::a", "::-webkit-x", "::footnote-call", "::footnote-marker", "::selection",
	"ns|a", "*|a", "|a", "ns|*", "&", "& a", "\\31 a", "\\", "a\\", "\\\n", "a\\0", "\\110000 ", "[", "]", "(", ")", "[x", "[x=", "[x=]", "[=y]", "[x y]", "[x=y z]", ".", "#", ".1", "#1", "..a", "a..b", "a##b", "1", "1n", "%", "@", "!", "/**/", "\x00", "\xff", "é"}
var combinators = []string{" ", " > ", " + ", " ~ ", ">", "+", "~", ", ", ",", " , ", "  ", " >> ", " || ", "|", " >+ "}

func (g *gen) selectorText() string {
	r := g.r
	var sb strings.Builder
	for n := r.Range(1, 4); n > 0; n-- {
		for k := r.Range(1, 3); k > 0; k-- {
			sb.WriteString(vlib.Pick(r, selAtoms))
		}
		if n > 1 {
			sb.WriteString(vlib.Pick(r, combinators))
		}
	}
	s := sb.String()
	return g.textMutate(s, 3)
}

// textMutate applies byte-level mutations with probability 1/den
func (g *gen) textMutate(s string, den int) string {
	r := g.r
	if !r.Chance(1, den) || len(s) == 0 {
		return s
	}
	for n := r.Range(1, 2); n > 0 && len(s) > 0; n-- {
		i := r.Intn(len(s))
		switch r.Intn(6) {
		case 0:
			s = s[:i] + s[i+1:]
		case 1:
			s = s[:i] + vlib.Pick(r, stray) + s[i:]
		case 2:
			s = s[:i]
		case 3:
			j := r.Intn(len(s))
			if i > j {
				i, j = j, i
			}
			s = s[:i] + s[j:]
		case 4:
			s = s[:i] + s[i:] + s[i:]
		default:
			s = s[:i] + string(rune(r.Intn(256))) + s[i:]
		}
	}
	return s
}

// ---------------------------------------------------------------- stylesheets

var pagePreludes = []string{"", ":first", ":left", ":right", ":blank", "name", "name:first", "name:left:first", ":first:blank", ":nth(2n+1)", ":nth(3)", ":nth(odd)", ":nth(2 of name)", ":nth(n of name)", ":nth(of)", ":nth(of name)", ":nth( of name)", ":nth(1 of)", ":nth(2n+1 of a b)", ":nth(2n+1 of 3)", ":nth()", ":nth", ":nth(", ":foo", ":", "::", "a b", "a,", "a, b", ", a", "a,,b", ":left:right", ":left:left", ":FIRST", ":Nth(1)", "a:nth(1), :first", "1", "a:", "a: first", "a :first", "#x", ".a", "*", "a|b", ":first,", ":first , :blank", "/**/:first", ":/**/first", ":first/**/", "(", "[", ":first {", "name ,name2:first", ":-n", ":nth(-n+3)", ":nth(+ n)", ":nth(n -1)", ":nth(2n + of x)", ":nth(even of of)", ":nth(of of)", ":nth(1 of of)", "of", ":of", ":nth(of 1 of 2)"}
var marginBoxes = []string{"@top-left", "@top-center", "@top-right", "@bottom-left", "@bottom-center", "@bottom-right", "@left-top", "@left-middle", "@right-bottom", "@top-left-corner", "@bottom-right-corner", "@footnote", "@foo", "@"}
var pageProps = []string{"size", "margin", "margin-top", "marks", "bleed", "content", "padding", "border", "background", "page", "width", "counter-increment", "counter-reset", "font-size", "color", "vertical-align", "text-align"}
var atPreludes = []string{"", " ", "x", "print", "screen", "all", "print, screen", "(min-width: 1px)", "not print", "only screen and (color)", "print,", ",", "1", "\"a\"", "url(a.css)", "url(a.css) print", "\"a.css\" screen, print", "url()", "url(data:text/css,p%7Bcolor:red%7D)", "url(data:text/css;base64,cHtjb2xvcjpyZWR9)", "\"data:text/css,@import 'data:text/css,a{}';\"", "ns url(x)", "url(x)", "ns \"x\"", "ns", "a b c", "(", "[", "{", "x;", "upper-x", "decimal", "none", "initial", "disc", "-x", "--x", "1x", "x y", "'x'", ":first"}

func (g *gen) rule(depth int) string {
	r := g.r
	switch k := r.Intn(14); {
	case k <= 2: // style rule
		body := g.declBlock(g.props, 4)
		if depth < 2 && r.Chance(1, 4) { // nested rule
			body += g.rule(depth+1) + " " + g.declBlock(g.props, 2)
		}
		return g.selectorText() + " { " + body + " }"
	case k <= 4: // @page
		var sb strings.Builder
		sb.WriteString("@page ")
		sb.WriteString(g.textMutate(vlib.Pick(r, pagePreludes), 6))
		sb.WriteString(" { ")
		sb.WriteString(g.declBlock(pageProps, 3))
		for n := r.Intn(3); n > 0; n-- {
			sb.WriteString(vlib.Pick(r, marginBoxes) + g.textMutate(" { "+g.declBlock(pageProps, 2)+" } ", 8))
		}
		sb.WriteString(" }")
		return sb.String()
	case k == 5: // @font-face
		return "@font-face " + vlib.Pick(r, []string{"", "", "", "x", "("}) + "{ " + g.declBlock(g.ffDesc, 5) + " }"
	case k == 6: // @counter-style
		return "@counter-style " + g.textMutate(vlib.Pick(r, atPreludes), 8) + " { " + g.declBlock(g.csDesc, 5) + " }"
	case k == 7: // @media
		inner := ""
		if depth < 3 {
			for n := r.Range(0, 2); n > 0; n-- {
				inner += g.rule(depth+1) + " "
			}
		}
		return "@media " + g.textMutate(vlib.Pick(r, atPreludes), 8) + " { " + inner + "}"
	case k == 8: // @import
		return "@import " + g.textMutate(vlib.Pick(r, atPreludes), 8) + vlib.Pick(r, []string{";", ";", "", " {}", " { a:b }"})
	case k == 9: // @namespace / @supports / unknown
		return "@" + vlib.Pick(r, []string{"namespace", "supports", "charset", "foo", "PAGE", "Media", "font-feature-values", "layer", "container", "", "-", "--"}) + " " + g.textMutate(vlib.Pick(r, atPreludes), 8) + vlib.Pick(r, []string{";", " {}", " { a { b:c } }", ""})
	case k == 10: // garbage between rules
		return vlib.Pick(r, stray) + vlib.Pick(r, stray)
	case k == 11: // qualified rule with a malformed prelude
		return g.textMutate(vlib.Pick(r, atPreludes), 2) + " { " + g.declBlock(g.props, 2) + " }"
	default:
		return g.selectorText() + " { " + g.declBlock(g.props, 2) + " }"
	}
}

func (g *gen) stylesheet() string {
	var sb strings.Builder
	for n := g.r.Range(1, 4); n > 0; n-- {
		sb.WriteString(g.rule(0))
		sb.WriteString(vlib.Pick(g.r, []string{"\n", " ", "", "<!--", "-->"}))
	}
	return g.textMutate(sb.String(), 10)
}

// ---------------------------------------------------------------- descriptors

var ffValues = map[string][]string{
	"src":                   {"url(a.woff)", "url(a.woff) format(\"woff\")", "local(x)", "local(\"x y\")", "url(a) format(\"woff\", \"truetype\")", "url(a), local(b)", "url(a) format()", "url(a) format(woff)", "url(a) tech(x)", "local()", "url()", "x", "url(a) local(b)", ",", "url(a),", "url(data:font/ttf;base64,AAAA)"},
	"font-family":           {"x", "\"x y\"", "x y", "serif", "x, y", "1", "\"\"", "inherit"},
	"font-style":            {"normal", "italic", "oblique", "oblique 10deg", "oblique 10deg 20deg", "x"},
	"font-weight":           {"normal", "bold", "400", "100 900", "1", "1001", "bolder", "400 x", "0"},
	"font-stretch":          {"normal", "condensed", "50%", "50% 100%", "ultra-expanded", "x"},
	"font-feature-settings": {"normal", "\"liga\"", "\"liga\" 0", "\"liga\" on, \"kern\" off", "\"lig\"", "\"liga\" 1 2", "liga", "\"liga\" -1", "\"liga\" 99999999999"},
	"font-variant":          {"normal", "none", "small-caps", "common-ligatures small-caps", "tabular-nums slashed-zero", "jis78", "sub", "normal none", "x", "small-caps small-caps", "historical-forms", "stylistic(x)", "ruby"},
	"unicode-range":         {"U+0-7F", "U+4??", "U+26", "U+0-7F, U+100-200", "U+", "x", "U+110000", "U+5-2"},
	"font-display":          {"auto", "swap", "x"},
	"foo":                   {"bar", "1"},
}
var csValues = map[string][]string{
	"system":           {"cyclic", "numeric", "alphabetic", "symbolic", "additive", "fixed", "fixed 3", "fixed -1", "fixed x", "extends decimal", "extends", "extends x y", "extends none", "x", "cyclic numeric", "fixed 99999999999999999999", "fixed 1.5"},
	"negative":         {"\"-\"", "\"(\" \")\"", "x", "x y", "url(a.png)", "\"a\" \"b\" \"c\"", "1", "", "linear-gradient(red, blue)"},
	"prefix":           {"\"a\"", "x", "url(a)", "1", "\"a\" \"b\""},
	"suffix":           {"\". \"", "x", "url(a)", "1"},
	"range":            {"auto", "1 5", "infinite 5", "1 infinite", "infinite infinite", "1 5, 8 9", "5 1", "1", "1 2 3", "x y", "1.5 2", "1 5,", ",", "-99999999999999999999 99999999999999999999", "auto, 1 2", "1 5 auto"},
	"pad":              {"3 \"0\"", "\"0\" 3", "0 x", "-1 \"0\"", "3", "\"0\"", "1.5 \"0\"", "3 \"0\" x", "99999999999 \"0\"", "3 url(a)"},
	"fallback":         {"decimal", "x", "none", "1", "a b", "disc", "inherit"},
	"symbols":          {"\"a\" \"b\"", "a b c", "\"a\"", "url(a.png) \"b\"", "1 2", "", "\"a\", \"b\"", "a", "linear-gradient(red,blue)", "'' ''"},
	"additive-symbols": {"3 \"a\", 2 \"b\"", "1 a", "\"a\" 1", "2 \"a\", 3 \"b\"", "1 \"a\", 1 \"b\"", "0 \"z\"", "-1 \"a\"", "1", "\"a\"", "1 \"a\",", ",", "1 \"a\" 2", "1.5 \"a\"", "10 x, 0 y", "5 \"\", 0 \"\"", "99999999999999999999 a", "1 url(a)"},
	"speak-as":         {"auto", "bullets", "numbers", "words", "spell-out", "x", "1", "auto auto"},
	"foo":              {"bar"},
}

func (g *gen) descriptorBlock(names []string, values map[string][]string) (string, []string) {
	r := g.r
	var sb strings.Builder
	var tags []string
	for n := r.Range(1, 5); n > 0; n-- {
		name := vlib.Pick(r, names)
		var v string
		switch r.Intn(5) {
		case 0, 1:
			v = vlib.Pick(r, values[name])
		case 2:
			as := strings.Fields(vlib.Pick(r, values[name]))
			var t string
			as, t = g.mutateAtoms(as)
			tags = append(tags, "mut:"+t)
			v = strings.Join(as, " ")
		case 3:
			v, _ = g.value(name)
		default:
			v = g.textMutate(vlib.Pick(r, values[name]), 1)
		}
		sb.WriteString(name + ": " + v + vlib.Pick(r, []string{"; ", ";", " ; ", "", ";;"}))
		tags = append(tags, "desc:"+name)
	}
	return sb.String(), tags
}

// ---------------------------------------------------------------- SVG

var svgTransforms = []string{"translate(10)", "translate(10, 20)", "translate(10 20)", "rotate(45)", "rotate(45 1 2)", "rotate(45, 1)", "scale(2)", "scale(2 3)", "skewX(10)", "skewY(10)", "matrix(1 0 0 1 0 0)", "matrix(1,0,0,1)", "translate()", "translate(", "translate)", "(1)", "foo(1)", "translate(a)", "translate(1px)", "translate(1e)", "translate(1e+)", "rotate(1) , scale(2)", "rotate(1))", "rotate((1)", "scale(1e400)", "scale(nan)", "translate(1 2 3)", "", " ", ",", "matrix()", "skew(1 2)", "Rotate(1)", "rotate (1)", "translate(1,,2)", "translate(-.5.5)", "translate(1%)", "translate(1em 2ex)", "scale(0)"}
var svgViewboxes = []string{"0 0 100 100", "0,0,100,100", "0 0 100", "0 0 100 100 5", "", " ", "a b c d", "0 0 0 0", "0 0 -1 -1", "1e400 0 1 1", "0 0 1e-400 1", "0 0 100 1e", "-.5.5 1 1", "0 0 1E1 2", "- - - -", "....", "e", "0 0 100 100px", "0;0;1;1", "1-2-3-4", "0 0 1+1 1", "1e+5 0 1 1", "NaN 0 1 1", "0 0 inf inf"}
var svgPars = []string{"xMidYMid", "xMinYMin meet", "xMaxYMax slice", "none", "none slice", "xMidYMid slice", "", " ", "abc", "x", "xMid", "xMidY", "xMidYM", "none ", " none", "defer xMidYMid", "slice", "XMIDYMID", "xMidYMid  slice", "nonee", "non", "xMidéMid", "\xff\xfe\xfd", "xMidYMid meet extra", "xMinYMax\tslice", "noneX", "12345", "1234"}
var svgPoints = []string{"0,0 10,10 20,0", "0 0 10 10", "0,0 10", "", "a", "1e", "1e+", "1e+5,2", "-", "--1", "1-2-3", "..", ".5.5.5", "1,,2", "1 2 3 4 5 6 7", "1e400 1", "1e1e1", "+1 +2", "1E1 2", "1.e1 2", "0x10 1"}
var svgPaths = []string{"M0 0 L10 10 Z", "M0,0L10,10z", "m0 0 l1 1 h5 v5 H0 V0", "M0 0 C1 1 2 2 3 3", "M0 0 S1 1 2 2", "M0 0 Q1 1 2 2 T3 3", "M0 0 A5 5 0 0 1 10 10", "M0 0 A5 5 0 01 10 10", "M0 0 a5 5 0 1110 10", "M0 0 A5 5 0 2 1 10 10", "M0 0 A0 0 0 0 0 1 1", "M0 0 A5 5 0 0 1 0 0",
	"", "M", "M0", "M0 0 L", "L10 10", "Z", "z", "M0 0 Z Z", "M0 0 L1E1 2", "M0 0 L1e+5 2", "M0 0 L1e", "M0 0 L1e+", "M 0 0 X 1 1", "M0 0 L 1", "M0 0 C1 1", "M0 0 C1 1 2 2 3", "M0 0 A1 1", "M0 0 A5 5 0 0", "M0 0 T1 1", "M0 0 S1 1 2 2 S3 3 4 4", "T1 1", "S1 1 2 2", "Q1 1 2 2", "C1 1 2 2 3 3", "A5 5 0 0 1 10 10", "H5", "V5", "h", "v", "M0 0 H", "M0 0 h1 2 3", "M1e400 0 L1 1", "M0 0L-.5.5", "M0 0 L1,,2", "M0-0-1-1", "M0 0 ZL1 1", "M0 0zm1 1", "M 0 0 L 10 10 M", "M0 0 l1 1 Z l2 2 Z", "MM", "M0 0 Lx y", "M0 0 L1 1 #", "M0 0\nL1 1\tZ", "M.5.5.5.5", "M0 0 a1 1 0 00.5.5", "M0 0 a1 1 0 0 0", "M0 0 A1 1 0 0 0 1", "M+1+1", "M0 0e1", "Me 0", "M0 0 L2e 3", "M1 2 3", "M1 2 3 4 5 6"}
var svgLengths = []string{"10", "10px", "1em", "50%", "1cm", "1in", "1Q", "1rem", "1ex", "1pc", "", " ", "abc", "px", "%", "1 px", "-5", "1e400", "1e-400", "1e", "+5", "5%%", "em", " 10 ", " 10 ", "10\xff", "0x10", "1_0", "inf", "NaN", "1.5.5", "10pt ", "10q", "10PX", "rem", "1e1em", "--1"}
var svgPaints = []string{"red", "#fff", "none", "", "url(#g)", "url(#g) red", "url(#missing)", "url(#g", "url()", "url(", "url", "url(#g))", "url(\"#g\")", "url('#g')", "url('#g\")", "url(\")", "url(')", "url('')", "url(\"\")", "currentColor", "rgb(1,2,3)", "rgb(", "inherit", " url(#g) ", "url(#g)red", "url(%zz)", "url(#%zz)", "url(:)", "url(http://[::1]:namedport)", "url( #g )", "context-fill", "\xff", "url(#\xff)", "url(#g) "}
var svgHrefs = []string{"#g", "#g2", "#r", "#u", "#self", "#missing", "", "#", "x.svg#a", "data:image/svg+xml,<svg xmlns='http://www.w3.org/2000/svg'/>", "url(#g)", "%zz", "#%zz", "http://[::1", ":", "#\xff", "data:,", "data:image/png;base64,AAAA", "data:image/png;base64,!!!!"}
var svgStyles = []string{"fill:red", "fill:red;stroke:blue", "fill:", ":red", "fill:url(#g)", "stroke-width:1e400", "fill:red !important", "fill:var(--x)", "--x:red;fill:var(--x)", ";;", "fill", "{", "}", "fill:red;}", "font:1px x", "transform:rotate(1)", "opacity:50%", "opacity:%", "stroke-dasharray:1,2,x", "stroke-dasharray:none", "stroke-dasharray:1 -1", "stroke-dasharray:0 0", "stroke-dashoffset:-1", "display:none", "font-size:0", "font-size:-1", "font-size:1e9px", "font-weight:abc", "font-weight:99999999999999999999", "letter-spacing:x", "text-anchor:x", "marker:url(#m)", "marker-start:url(#m", "mask:url(#k)", "clip-path:url(#c)", "filter:url(#f)", "fill-opacity:1e400", "stroke-miterlimit:-1", "stroke-miterlimit:x"}

// svgPool: the values tried for an SVG attribute (the first three are well-formed)
func svgPool(name string) []string {
	var pool []string
	switch name {
	case "transform", "gradientTransform", "patternTransform":
		pool = svgTransforms
	case "viewBox":
		pool = svgViewboxes
	case "preserveAspectRatio":
		pool = svgPars
	case "points":
		pool = svgPoints
	case "d":
		pool = svgPaths
	case "fill", "stroke", "stop-color", "flood-color":
		pool = svgPaints
	case "href", "xlink:href":
		pool = svgHrefs
	case "style":
		pool = svgStyles
	case "marker", "marker-start", "marker-mid", "marker-end", "mask", "clip-path", "filter":
		pool = []string{"url(#m)", "url(#k)", "url(#c)", "url(#f)", "url(#missing)", "url(#m", "none", "", "url()", "#m", "url(#g)", "url(#self)"}
	case "orient":
		pool = []string{"auto", "auto-start-reverse", "45", "", "x", "1e400", "45deg", " auto"}
	case "font-weight":
		pool = []string{"normal", "bold", "400", "x", "", "99999999999999999999", "-1", "1e3", " 400"}
	case "opacity", "fill-opacity", "stroke-opacity", "stop-opacity", "offset":
		pool = []string{"1", "0.5", "50%", "%", "", " ", "x", "1e400", "-1", "2", "50 %", "5%%", " %"}
	case "stroke-dasharray":
		pool = []string{"1 2", "1,2", "none", "", "1", "0 0", "-1 1", "1 x", "1px 2em", "1e400 1", ",", "1,,2", "0", "1 2 3"}
	case "display", "visibility":
		pool = []string{"none", "inline", "hidden", "visible", "", "x"}
	case "gradientUnits", "patternUnits", "markerUnits", "maskUnits", "clipPathUnits", "spreadMethod", "text-anchor", "dominant-baseline", "stroke-linecap", "stroke-linejoin", "fill-rule", "clip-rule":
		pool = []string{"userSpaceOnUse", "objectBoundingBox", "pad", "reflect", "repeat", "start", "middle", "end", "central", "round", "evenodd", "nonzero", "x", "", "strokeWidth"}
	default:
		pool = svgLengths
	}
	return pool
}

func (g *gen) svgWellFormed(name string) []string {
	pool := svgPool(name)
	if len(pool) > 3 {
		pool = pool[:3]
	}
	return pool
}

func (g *gen) svgAttrVal(name string) string {
	r := g.r
	pool := svgPool(name)
	if r.Chance(1, 12) {
		pool = vlib.Pick(r, [][]string{svgTransforms, svgViewboxes, svgPars, svgPoints, svgPaths, svgLengths, svgPaints, svgHrefs})
	}
	if r.Chance(3, 5) && len(pool) > 3 { // the pools start with well-formed values
		return vlib.Pick(r, pool[:3])
	}
	return g.textMutate(vlib.Pick(r, pool), 5)
}

var svgElems = map[string][]string{
	"svg":            {"width", "height", "viewBox", "preserveAspectRatio", "x", "y", "style"},
	"g":              {"transform", "fill", "stroke", "opacity", "style", "font-size", "display", "mask", "clip-path", "filter"},
	"rect":           {"x", "y", "width", "height", "rx", "ry", "fill", "stroke", "stroke-width", "transform", "style", "stroke-dasharray", "stroke-dashoffset", "opacity", "fill-opacity", "stroke-linecap", "stroke-miterlimit"},
	"circle":         {"cx", "cy", "r", "fill", "stroke", "transform", "marker"},
	"ellipse":        {"cx", "cy", "rx", "ry", "fill", "style"},
	"line":           {"x1", "y1", "x2", "y2", "stroke", "stroke-width", "marker-start", "marker-end"},
	"polyline":       {"points", "fill", "stroke", "marker-mid", "marker-start", "marker-end"},
	"polygon":        {"points", "fill", "stroke", "marker"},
	"path":           {"d", "fill", "stroke", "transform", "marker-start", "marker-mid", "marker-end", "fill-rule", "style"},
	"use":            {"href", "xlink:href", "x", "y", "width", "height", "transform"},
	"image":          {"href", "xlink:href", "x", "y", "width", "height", "preserveAspectRatio"},
	"text":           {"x", "y", "dx", "dy", "font-size", "font-weight", "font-family", "text-anchor", "dominant-baseline", "letter-spacing", "textLength", "rotate", "fill", "style", "display"},
	"tspan":          {"x", "y", "dx", "dy", "font-size", "font-weight", "rotate", "fill"},
	"linearGradient": {"id", "x1", "y1", "x2", "y2", "gradientUnits", "gradientTransform", "spreadMethod", "href", "xlink:href"},
	"radialGradient": {"id", "cx", "cy", "r", "fx", "fy", "fr", "gradientUnits", "gradientTransform", "spreadMethod", "href"},
	"stop":           {"offset", "stop-color", "stop-opacity", "style"},
	"pattern":        {"id", "x", "y", "width", "height", "patternUnits", "patternTransform", "viewBox", "href", "preserveAspectRatio"},
	"marker":         {"id", "markerWidth", "markerHeight", "refX", "refY", "orient", "viewBox", "preserveAspectRatio", "markerUnits"},
	"mask":           {"id", "x", "y", "width", "height", "maskUnits"},
	"clipPath":       {"id", "clipPathUnits", "transform"},
	"filter":         {"id", "x", "y", "width", "height"},
	"feOffset":       {"dx", "dy"},
	"feBlend":        {"mode"},
	"feFlood":        {"flood-color", "flood-opacity"},
	"defs":           {},
	"style":          {"type"},
	"a":              {"href"},
	"symbol":         {"id", "viewBox", "preserveAspectRatio"},
	"foo":            {"x", "transform"},
}
var svgChildren = map[string][]string{
	"svg":            {"g", "rect", "circle", "ellipse", "line", "polyline", "polygon", "path", "use", "image", "text", "defs", "linearGradient", "radialGradient", "pattern", "marker", "mask", "clipPath", "filter", "style", "svg", "a", "symbol", "foo"},
	"g":              {"g", "rect", "circle", "path", "use", "text", "polyline", "image", "line"},
	"defs":           {"linearGradient", "radialGradient", "pattern", "marker", "mask", "clipPath", "filter", "g", "rect", "path", "symbol", "style"},
	"linearGradient": {"stop", "stop", "foo"}, "radialGradient": {"stop", "stop"},
	"pattern": {"rect", "circle", "path", "g"}, "marker": {"path", "circle", "rect"}, "mask": {"rect", "circle", "g"}, "clipPath": {"rect", "circle", "path", "use"},
	"filter": {"feOffset", "feBlend", "feFlood", "foo"}, "text": {"tspan", "tspan", "a"}, "tspan": {"tspan"}, "a": {"rect", "text"}, "symbol": {"rect", "path"},
}
var svgIds = []string{"g", "g2", "r", "u", "self", "m", "k", "c", "f", "p"}

func (g *gen) svgElem(name string, depth int) string {
	r := g.r
	var sb strings.Builder
	sb.WriteString("<" + name)
	attrs := svgElems[name]
	if r.Chance(2, 3) {
		sb.WriteString(fmt.Sprintf(` id="%s"`, vlib.Pick(r, svgIds)))
	}
	if len(attrs) > 0 {
		for n := r.Range(0, 4); n > 0; n-- {
			a := vlib.Pick(r, attrs)
			if a == "id" {
				continue
			}
			v := g.svgAttrVal(a)
			v = strings.NewReplacer("&", "&amp;", "\"", "&quot;", "<", "&lt;").Replace(v)
			sb.WriteString(fmt.Sprintf(` %s="%s"`, a, v))
		}
	}
	sb.WriteString(">")
	switch name {
	case "style":
		sb.WriteString(g.stylesheetSVG())
	case "text", "tspan":
		sb.WriteString(vlib.Pick(r, []string{"abc", "", " a  b ", "é", "x\ny"}))
	}
	if ch := svgChildren[name]; len(ch) > 0 && depth < 4 {
		for n := r.Range(0, 3); n > 0; n-- {
			sb.WriteString(g.svgElem(vlib.Pick(r, ch), depth+1))
		}
	}
	sb.WriteString("</" + name + ">")
	return sb.String()
}

func (g *gen) stylesheetSVG() string {
	r := g.r
	var sb strings.Builder
	for n := r.Range(0, 3); n > 0; n-- {
		sb.WriteString(vlib.Pick(r, []string{"rect", "#g", ".a", "*", "g > rect", "[", ":nth-child(", "@import 'x.css';", "@media print", "path, circle", "text::before"}))
		sb.WriteString(" { " + strings.Join([]string{vlib.Pick(r, svgStyles), vlib.Pick(r, svgStyles)}, ";") + " } ")
	}
	return strings.NewReplacer("<", "&lt;", "&", "&amp;").Replace(sb.String())
}

func (g *gen) svgDoc() string {
	r := g.r
	var sb strings.Builder
	sb.WriteString(`<svg xmlns="http://www.w3.org/2000/svg" xmlns:xlink="http://www.w3.org/1999/xlink"`)
	for n := r.Range(0, 4); n > 0; n-- {
		a := vlib.Pick(r, svgElems["svg"])
		sb.WriteString(fmt.Sprintf(` %s="%s"`, a, strings.NewReplacer("&", "&amp;", "\"", "&quot;", "<", "&lt;").Replace(g.svgAttrVal(a))))
	}
	sb.WriteString(">")
	// definitions with href cycles
	if r.Chance(1, 3) {
		sb.WriteString("<defs>")
		for n := r.Range(1, 3); n > 0; n-- {
			sb.WriteString(vlib.Pick(r, []string{
				`<linearGradient id="g" href="#g2"><stop offset="0" stop-color="red"/></linearGradient><linearGradient id="g2" xlink:href="#g"/>`,
				`<radialGradient id="g" href="#g"><stop offset="0" stop-color="red"/></radialGradient>`,
				`<pattern id="p" href="#p" width="1" height="1"><rect fill="url(#p)" width="1" height="1"/></pattern>`,
				`<marker id="m"><path d="M0 0 L1 1" marker-start="url(#m)"/></marker>`,
				`<mask id="k"><rect mask="url(#k)" width="1" height="1"/></mask>`,
				`<clipPath id="c"><rect clip-path="url(#c)" width="1" height="1"/></clipPath>`,
				`<filter id="f"><feOffset dx="1"/></filter>`,
				`<g id="u"><use href="#u"/></g>`,
				`<g id="self"><use xlink:href="#r"/></g><rect id="r" width="1" height="1"/>`,
				`<linearGradient id="g"><stop offset="0" stop-color="red"/><stop offset="1"/></linearGradient><rect id="r" width="1" height="1" fill="url(#g)"/>`,
			}))
		}
		sb.WriteString("</defs>")
	}
	for n := r.Range(1, 5); n > 0; n-- {
		sb.WriteString(g.svgElem(vlib.Pick(r, svgChildren["svg"]), 1))
	}
	sb.WriteString("</svg>")
	return g.textMutate(sb.String(), 12)
}

// ---------------------------------------------------------------- data: URLs, percent escapes

var mimeTypes = []string{"", "text/plain", "text/css", "image/png", "image/svg+xml", "text/html", "a/b", "/", "x", "TEXT/PLAIN", "text/plain/x", "font/ttf"}
var dataParams = []string{"", ";base64", ";charset=utf-8", ";charset=US-ASCII;base64", ";base64;charset=x", ";=", ";a=", ";=b", ";a=b=c", ";;", ";a", ";base64;base64", ";BASE64", ";charset=utf-8;charset=latin1", "; base64", ";a=b;a=c;x=y", ";base64=1"}
var payloads = []string{"", "abc", "a%20b", "%", "%4", "%zz", "%4g", "%41%42", "a%", "%%", "%25", "AAAA", "QUJD", "QUJDRA==", "QUJDRA=", "QUJDRA", "====", "A", "!!!!", "QUJD\nRA==", "a,b", ",", "%2C", "\xc3\xa9", "\xff", "\xc3", "\xe2\x82\xac", "\xf0\x9f\x98\x80", "\xed\xa0\x80", "\xc0\xaf", "a b\tc\nd", "%C3%A9", "+", "a+b", "%2", "%g1", "%1g", "\x00", "%00", "%ff%FF", "p%7Bcolor:red%7D", "<svg xmlns='http://www.w3.org/2000/svg'/>"}

func (g *gen) dataURL() string {
	r := g.r
	pre := vlib.Pick(r, []string{"data:", "data:", "data:", "DATA:", "Data:", "dAtA:"})
	s := pre + vlib.Pick(r, mimeTypes) + vlib.Pick(r, dataParams)
	if !r.Chance(1, 8) {
		s += ","
	}
	s += vlib.Pick(r, payloads)
	if r.Chance(1, 4) {
		s += vlib.Pick(r, payloads)
	}
	s = g.textMutate(s, 4)
	if !strings.HasPrefix(strings.ToLower(s), "data:") && r.Chance(3, 4) {
		s = "data:" + s
	}
	return s
}

func (g *gen) percentString() string {
	r := g.r
	var sb strings.Builder
	for n := r.Range(0, 6); n > 0; n-- {
		switch r.Intn(8) {
		case 0:
			sb.WriteString("%")
		case 1:
			sb.WriteString(fmt.Sprintf("%%%02x", r.Intn(256)))
		case 2:
			sb.WriteString(fmt.Sprintf("%%%02X", r.Intn(256)))
		case 3:
			sb.WriteString("%" + string(rune(r.Range(32, 126))))
		case 4:
			sb.WriteByte(byte(r.Intn(256)))
		case 5:
			sb.WriteString(vlib.Pick(r, payloads))
		default:
			sb.WriteByte(byte(r.Range(32, 126)))
		}
	}
	return sb.String()
}

// ---------------------------------------------------------------- HTML attributes

var intAttrVals = []string{"1", "2", "3", "0", "-1", "", " ", " 2 ", "\t3\n", "+2", "-0", "1e9", "1.5", "2px", "abc", "99999999999999999999", "-99999999999999999999", "9223372036854775807", "9223372036854775808", "-9223372036854775808", "-9223372036854775809", "0x10", "1_0", " 2 ", " 2", "2　", "\xff", "2\xff", "٣", "１", "--1", "+-1", "+", "-", "00002", "2 3", "2,3"}

// spanVals: attribute values for the call sites of integerAttribute (colspan in [1, 1000], rowspan in [0, 65534],
// span in [1, 1000]): every integer around each bound of each site, in every spelling Atoi / TrimSpace accept
var spanValsCache []string

func spanVals() []string {
	if spanValsCache != nil {
		return spanValsCache
	}
	out := append([]string{}, intAttrVals...)
	for _, k := range []int64{-1001, -1000, -2, -1, 0, 1, 2, 3, 7, 999, 1000, 1001, 1002, 65533, 65534, 65535, 65536, 1 << 31, 1 << 32, 1<<63 - 1, -1 << 63} {
		d := fmt.Sprint(k)
		out = append(out, d, " "+d+" ", "\t"+d+"\n", "00"+d, d+".0", d+"px")
		if k >= 0 {
			out = append(out, "+"+d, "-"+d, "+0"+d, "-00"+d)
		}
	}
	spanValsCache = out
	return out
}

// values used inside whole documents: no huge valid integers (a colspan of 10^9 is a valid
// request for a 10^9 column grid, not a parsing matter)
var docIntAttrVals = []string{"1", "2", "3", "0", "-1", "", " ", " 2 ", "+2", "1e9", "1.5", "2px", "abc", "99999999999999999999", "-99999999999999999999", "9223372036854775808", "0x10", " 2 ", "--1", "+", "-", "00002", "2 3", "7", "+9", "-9", "12"}
var docLenVals = []string{"10", "10px", "50%", "", "abc", "-1", "1e9", "10.5", " 10 ", "*", "0", "99999999999999999999", "10%%", "1e400", "+5", "%", "."}
var docColors = []string{"red", "#fff", "#ffff", "", "abc", "rgb(1,2,3)", "#", "transparent", "1", "var(--x)", "url(x)"}

func (g *gen) htmlDoc() string {
	r := g.r
	iv := func() string { return escAttr(vlib.Pick(r, docIntAttrVals)) }
	lv := func() string { return escAttr(vlib.Pick(r, docLenVals)) }
	cv := func() string { return escAttr(vlib.Pick(r, docColors)) }
	var sb strings.Builder
	sb.WriteString("<html><head>")
	if r.Chance(1, 3) {
		sb.WriteString(fmt.Sprintf(`<meta name="dcterms.created" content="%s"><meta name="dcterms.modified" content="%s"><meta name=keywords content="%s">`,
			escAttr(vlib.Pick(r, dates)), escAttr(vlib.Pick(r, dates)), escAttr(vlib.Pick(r, docLenVals))))
	}
	if r.Chance(1, 3) {
		sb.WriteString(fmt.Sprintf(`<base href="%s"><link rel="%s" href="%s" type="%s" media="%s"><style media="%s" type="%s">%s</style>`,
			escAttr(vlib.Pick(r, svgHrefs)), vlib.Pick(r, []string{"stylesheet", "attachment", "Stylesheet alternate", "", "icon"}), escAttr(vlib.Pick(r, svgHrefs)),
			vlib.Pick(r, []string{"text/css", "", "x"}), escAttr(vlib.Pick(r, atPreludes)), escAttr(vlib.Pick(r, atPreludes)), vlib.Pick(r, []string{"text/css", "", "x"}),
			strings.ReplaceAll(g.stylesheet(), "<", "")))
	}
	sb.WriteString(fmt.Sprintf(`</head><body bgcolor="%s" text="%s" background="%s" leftmargin="%s" marginheight="%s" topmargin="%s">`, cv(), cv(), escAttr(vlib.Pick(r, svgHrefs)), lv(), lv(), lv()))
	for n := r.Range(1, 3); n > 0; n-- {
		switch r.Intn(7) {
		case 0, 1:
			sb.WriteString(fmt.Sprintf(`<table border="%s" cellspacing="%s" cellpadding="%s" width="%s" height="%s" bgcolor="%s" bordercolor="%s" align="%s" hspace="%s" vspace="%s">`, lv(), lv(), lv(), lv(), lv(), cv(), cv(), vlib.Pick(r, aligns), lv(), lv()))
			if r.Bool() {
				sb.WriteString(fmt.Sprintf(`<colgroup span="%s" width="%s"><col span="%s" width="%s"></colgroup><col span="%s">`, iv(), lv(), iv(), lv(), iv()))
			}
			for rows := r.Range(1, 3); rows > 0; rows-- {
				sb.WriteString(fmt.Sprintf(`<tr align="%s" valign="%s" bgcolor="%s" height="%s">`, vlib.Pick(r, aligns), vlib.Pick(r, aligns), cv(), lv()))
				for cells := r.Range(1, 3); cells > 0; cells-- {
					tag := vlib.Pick(r, []string{"td", "td", "th"})
					sb.WriteString(fmt.Sprintf(`<%s colspan="%s" rowspan="%s" width="%s" height="%s" align="%s" valign="%s" bgcolor="%s" nowrap>x</%s>`, tag, iv(), iv(), lv(), lv(), vlib.Pick(r, aligns), vlib.Pick(r, aligns), cv(), tag))
				}
				sb.WriteString("</tr>")
			}
			sb.WriteString("</table>")
		case 2:
			sb.WriteString(fmt.Sprintf(`<ol start="%s" type="%s" reversed><li value="%s">a<li value="%s" type="%s">b</ol><ul type="%s"><li>c</ul>`, iv(), vlib.Pick(r, listTypes), iv(), iv(), vlib.Pick(r, listTypes), vlib.Pick(r, listTypes)))
		case 3:
			sb.WriteString(fmt.Sprintf(`<font size="%s" color="%s" face="%s">x</font><hr size="%s" width="%s" color="%s" align="%s" noshade><hr size="%s">`, iv(), cv(), escAttr(vlib.Pick(r, docLenVals)), iv(), lv(), cv(), vlib.Pick(r, aligns), iv()))
		case 4:
			sb.WriteString(fmt.Sprintf(`<img width="%s" height="%s" border="%s" hspace="%s" vspace="%s" align="%s" src="%s" alt="x"><embed width="%s" src="%s"><object data="%s" width="%s"></object>`, lv(), lv(), lv(), lv(), lv(), vlib.Pick(r, aligns), escAttr(vlib.Pick(r, svgHrefs)), lv(), escAttr(vlib.Pick(r, svgHrefs)), escAttr(vlib.Pick(r, svgHrefs)), lv()))
		case 5:
			sb.WriteString(fmt.Sprintf(`<textarea rows="%s" cols="%s">x</textarea><input size="%s" type="%s" value="%s" maxlength="%s"><select size="%s" multiple><option>a</select><pre width="%s">x</pre><div align="%s" style="%s" lang="%s" id="%s">y</div><a href="%s" name="%s">l</a>`,
				iv(), iv(), iv(), vlib.Pick(r, []string{"text", "checkbox", "", "x", "hidden"}), lv(), iv(), iv(), iv(), vlib.Pick(r, aligns), escAttr(vlib.Pick(r, svgStyles)), lv(), lv(), escAttr(vlib.Pick(r, svgHrefs)), lv()))
		default:
			sb.WriteString(fmt.Sprintf(`<center><p align="%s">x</p></center><br clear="%s"><table><caption align="%s">c</caption><thead align="%s"><tr><td colspan="%s">z</table><h1 align="%s">t</h1>`, vlib.Pick(r, aligns), vlib.Pick(r, aligns), vlib.Pick(r, aligns), vlib.Pick(r, aligns), iv(), vlib.Pick(r, aligns)))
		}
	}
	sb.WriteString("</body></html>")
	return sb.String()
}

var aligns = []string{"left", "right", "center", "middle", "top", "bottom", "justify", "", "x", "LEFT", "char", "baseline", "absmiddle", "all", "both"}
var listTypes = []string{"1", "a", "A", "i", "I", "disc", "circle", "square", "", "x", "none"}
var dates = []string{"2011-04-21T23:00:00Z", "2011-04-21", "2011", "2011-04", "2011-04-21T23:00Z", "2011-04-21T23:00:00+01:00", "2011-04-21T23:00:00-23:59", "2011-04-21T23", "2011-13-41", "0000-00-00", "2011-04-21T25:61:61Z", "", "x", "99999-01-01", "2011-04-21T23:00:00.123Z", " 2011-04-21 ", "2011-04-21T23:00:00+24:00", "2011-02-30T00:00:00Z", "2011-04-21T23:00:00z",
	"99999999999999999999", "99999999999999999999-01-01", "2011-99999999999999999999", "2011-04-21T23:00:00.99999999999999999999Z", "2011-04-21T23:00:00+99999999999999999999:00", "0000000000000000000002011-04-21"}

func escAttr(s string) string {
	return strings.NewReplacer("&", "&amp;", "\"", "&quot;", "<", "&lt;").Replace(s)
}

// ---------------------------------------------------------------- An+B

var nthTexts = []string{"2n+1", "odd", "even", "n", "-n", "+n", "2n", "-2n+3", "n+1", "n-1", "n -1", "n- 1", "n - 1", "n + 1", "+n+1", "+ n", "3", "-3", "+3", "0", "2n+0", "-n-1", "n-", "-n-", "+n-", "n+", "2n+", "2n-", "2n- 3", "2n -3", "2n - 3", "2n+ 3", "2n + -3", "2n + +3", "1.5n", "2.0", "n1", "nn", "2n1", "2n-1n", "", " ", "/**/2n/**/+/**/1/**/", "ODD", "Even", "N", "2N+1", "-N-1", "+N", "n-99999999999999999999", "99999999999999999999n", "99999999999999999999", "-n-99999999999999999999", "2n-9223372036854775808", "n -9223372036854775808", "n - 9223372036854775808", "2n+1 x", "x", "2n+1,", "(2n+1)", "2n+1 of a", "of", "n-1-1", "n--1", "n-+1", "-", "+", "- n", "--n", "\\6e", "2\\6e", "e", "1e1", "1e1n", "2n+1e1", "n-1e1", "1n-1e1", "-n-\\31", "n-\\31", "n+1.0", "n+1.", "#n", "'n'"}

// ---------------------------------------------------------------- the stream

func (g *gen) generate(n int) []job {
	r := g.r
	var out []job
	add := func(c, s string, x int, tags ...string) {
		out = append(out, job{C: c, S: s, X: x, Tags: tags})
	}
	// fixed part: every pool entry of the modelled components once (boundary stream)
	for _, s := range svgPars {
		add("par", s, 0, "pool")
	}
	for _, s := range pagePreludes {
		add("pagesel", s, 0, "pool")
	}
	for _, s := range nthTexts {
		add("nth", s, 0, "pool")
	}
	for _, s := range intAttrVals {
		add("intattr", s, r.Intn(2), "pool")
	}
	for _, s := range spanVals() {
		add("spans", s, 0, "pool")
	}
	add("spans", "", 1, "pool")
	for _, s := range svgPaints {
		add("painter", s, 0, "pool")
		add("svgurl", s, 0, "pool")
	}
	for _, s := range svgLengths {
		add("svgvalue", s, 0, "pool")
	}
	for _, s := range colorTexts {
		add("colortok", s, 0, "pool")
	}
	for _, s := range atPreludes {
		add("media", s, 0, "pool")
	}
	for _, s := range dates {
		add("w3cdate", s, 0, "pool")
	}
	for _, s := range payloads {
		add("unquote", s, 0, "pool")
		add("unescape", s, 0, "pool")
	}
	out = append(out, g.deep()...)
	// deterministic boundary streams (edge.go); they do not count against the random budget
	edge := g.edge()
	out = append(out, edge...)
	n += len(edge)
	for len(out) < n {
		switch k := r.Intn(100); {
		case k < 1: // document metadata: W3C dates, keywords, attachments
			if r.Bool() {
				add("metadata", g.genMetaDoc(), 0)
			} else {
				add("w3cdate", genDate(r), 0)
			}
		case k < 40: // property validators and expanders
			d, tags := g.decl(g.props)
			add("decl", d, 0, tags...)
		case k < 44:
			s, tags := g.descriptorBlock(g.ffDesc, ffValues)
			add("fontface", s, 0, tags...)
		case k < 49:
			s, tags := g.descriptorBlock(g.csDesc, csValues)
			add("counterstyle", s, 0, tags...)
		case k < 57:
			add("stylesheet", g.stylesheet(), 0)
		case k < 63:
			add("selector", g.selectorText(), 0)
		case k < 71:
			add("svg", g.svgDoc(), 0)
		case k < 73:
			add("dataurl-fetch", g.dataURL(), 0)
		case k < 76:
			add("html", g.htmlDoc(), 0)
		case k < 77:
			add("color", g.textMutate(vlib.Pick(r, append(append([]string{}, svgPaints...), baseAtoms...)), 2), 0)
		case k < 79:
			add("cssparse", g.textMutate(g.stylesheet(), 1), 0)
		case k < 80:
			add("styleattr", g.declBlock(g.props, 5), 0)
		// ---- modelled components
		case k < 82:
			add("unquote", g.percentString(), 0)
		case k < 84:
			add("unescape", g.percentString(), 0)
		case k < 86:
			// parseDataURL is only reached behind the "data:" prefix test of DefaultUrlFetcher
			if s := g.dataURL(); strings.HasPrefix(strings.ToLower(s), "data:") {
				add("dataurl", s, 0)
			}
		case k < 88:
			add("fetchdata", g.dataURL(), 0)
		case k < 91:
			s := vlib.Pick(r, pagePreludes)
			if r.Chance(1, 3) {
				s += vlib.Pick(r, []string{", ", ",", " "}) + vlib.Pick(r, pagePreludes)
			}
			add("pagesel", g.textMutate(s, 3), 0)
		case k < 93:
			s := vlib.Pick(r, nthTexts)
			if r.Chance(1, 4) {
				s = fmt.Sprintf("%s%dn%s%d", vlib.Pick(r, []string{"", "+", "-"}), r.Intn(20), vlib.Pick(r, []string{"+", "-", " + ", " - ", " +", "- "}), r.Intn(20))
			}
			add("nth", g.textMutate(s, 3), 0)
		case k < 95:
			if r.Bool() {
				add("intattr", g.textMutate(vlib.Pick(r, intAttrVals), 3), r.Range(-1, 2))
			} else {
				add("spans", g.textMutate(vlib.Pick(r, spanVals()), 3), 0)
			}
		case k < 96:
			add("par", g.textMutate(vlib.Pick(r, svgPars), 2), 0)
		case k < 97:
			add("svgvalue", g.textMutate(vlib.Pick(r, svgLengths), 2), 0)
			add("svgopacity", g.textMutate(vlib.Pick(r, []string{"1", "50%", "%", "", " % ", "5%%", "x%", " %"}), 3), 0)
		case k < 98:
			add("svgurl", g.textMutate(vlib.Pick(r, svgPaints), 2), 0)
		case k < 98 || r.Chance(1, 3):
			add("painter", g.textMutate(vlib.Pick(r, svgPaints), 2), 0)
		case k < 99 && r.Bool():
			add("colortok", g.colorText(), 0)
		case k < 99:
			add("media", g.textMutate(vlib.Pick(r, atPreludes), 4), 0)
		default:
			add("fontweight", g.textMutate(vlib.Pick(r, []string{"normal", "bold", "400", "x", "", "99999999999999999999", "-1", "+7", "1e3"}), 3), 0)
		}
	}
	return out
}

// ---------------------------------------------------------------- nesting depth

// deep: inputs nested far deeper than any real document.  Depth 2000 must be
// handled; the very deep ones (tags deep-nesting / deep-quadratic) exhaust the
// goroutine stack of the recursive-descent tokenizer / parsers or take
// quadratic time: they are the inputs of the known findings C07/deep-*.
func (g *gen) deep() []job {
	type d struct {
		c, pat string
		rep    int
		tag    string
	}
	thorough := os.Getenv("VERIF_TIER") == "thorough"
	var ds []d
	shapes := []d{
		{"cssparse", "\x00(\x00\x00)\x00", 0, ""}, {"cssparse", "\x00f(\x00\x00\x00", 0, ""}, {"cssparse", "\x00[\x00\x00\x00", 0, ""}, {"cssparse", "a\x00{\x00\x00\x00", 0, ""},
		{"selector", "\x00:not(\x00a\x00)\x00", 0, ""}, {"selector", "\x00:is(\x00a\x00)\x00", 0, ""},
		{"stylesheet", "\x00@media print{\x00\x00}\x00", 0, ""}, {"stylesheet", "\x00a{\x00\x00}\x00", 0, ""},
		{"decl", "width:\x00calc(\x001px\x00)\x00", 0, ""}, {"decl", "width:\x00f(\x00var(--x)\x00)\x00", 0, ""}, {"decl", "background:\x00linear-gradient(\x00red\x00)\x00", 0, ""},
		{"svg", "<svg xmlns=\"http://www.w3.org/2000/svg\">\x00<g>\x00\x00</g>\x00</svg>", 0, ""},
		{"nth", "\x00(\x00\x00\x00", 0, ""}, {"pagesel", ":nth(\x00f(\x00\x00)\x00)", 0, ""},
	}
	for _, s := range shapes {
		ds = append(ds, d{s.c, s.pat, g.r.Range(100, 400), "deep-ok"})
	}
	fatal := []d{
		{"cssparse", "\x00(\x00\x00\x00", 1500000, "deep-nesting"},
		{"selector", "\x00:not(\x00a\x00)\x00", 1000000, "deep-nesting"},
		{"stylesheet", "\x00@media print{\x00\x00\x00", 500000, "deep-nesting"},
		{"decl", "width:\x00calc(\x001px\x00)\x00", 9000, "deep-quadratic"},
		{"stylesheet", "\x00a{\x00\x00}\x00", 5000, "deep-quadratic"},
	}
	ds = append(ds, fatal...)
	if thorough {
		ds = append(ds,
			d{"cssparse", "\x00f(\x00\x00\x00", 1500000, "deep-nesting"}, d{"cssparse", "\x00[\x00\x00]\x00", 1500000, "deep-nesting"}, d{"cssparse", "a\x00{\x00\x00\x00", 1500000, "deep-nesting"},
			d{"selector", "\x00:is(\x00a\x00)\x00", 1000000, "deep-nesting"}, d{"stylesheet", "a{\x00(\x00\x00\x00", 1500000, "deep-nesting"},
			d{"decl", "width:\x00f(\x00var(--x)\x00)\x00", 9000, "deep-quadratic"})
		for _, s := range shapes {
			ds = append(ds, d{s.c, s.pat, g.r.Range(1000, 2000), "deep-ok"})
		}
	}
	var out []job
	for _, x := range ds {
		out = append(out, job{C: x.c, S: x.pat, Rep: x.rep, Kind: "deep", Tags: []string{x.tag}})
	}
	return out
}

// ---------------------------------------------------------------- colours

var colorTexts = []string{"red", "RED", "transparent", "currentColor", "foo", "#fff", "#FFF", "#ffffff", "#ff", "#ffff", "#fffff", "#fffffff", "#ggg", "#12g", "#", "#é", "#1é", "#\\31 23",
	"rgb(1,2,3)", "rgb(1, 2, 3)", "rgb(1,2)", "rgb(1,2,3,4)", "rgb(1 2 3)", "rgb(1%,2%,3%)", "rgb(1,2%,3)", "rgb(1.5,2,3)", "rgb()", "rgb(,)", "rgb(1,,2)", "rgb(1,2,3,)", "rgb(,1,2,3)", "RGB(1,2,3)",
	"rgba(1,2,3,0.5)", "rgba(1,2,3)", "rgba(1,2)", "rgba(1)", "rgba()", "rgba(1,2,3,4,5)", "rgba(1,2,3,50%)", "rgba(1%,2%,3%,1)", "rgba(1,2,3,x)", "rgba(1,2,3,)", "rgba(1,2,3,1e400)",
	"hsl(120,50%,50%)", "hsl(120,50%)", "hsl(120.5,50%,50%)", "hsl(120,50,50)", "hsl(99999999999999999999,50%,50%)", "hsl(-120,150%,-50%)", "hsl()",
	"hsla(120,50%,50%,1)", "hsla(120,50%,50%)", "hsla(1,2)", "hsla(1)", "hsla(120,50%,50%,1,2)", "hsla(120,50%,50%,1 2)",
	"foo(1,2,3)", "rgb(1,2,3", "rgb(/**/1/**/,/**/2,3)", "rgb(1 , 2 , 3)", "rgb(1,2,3) x", "1", "10px", "50%", "\"red\"", "url(x)", "", " ", "(1,2,3)", "[1,2,3]", "rgb(rgb(1,2,3),2,3)", "rgb(var(--x),2,3)", "rgb(1;2;3)"}

func (g *gen) colorText() string {
	r := g.r
	if r.Chance(1, 2) {
		return g.textMutate(vlib.Pick(r, colorTexts), 2)
	}
	name := vlib.Pick(r, []string{"rgb", "rgba", "hsl", "hsla", "RGBA", "hsv", ""})
	var args []string
	for n := r.Range(0, 6); n > 0; n-- {
		args = append(args, vlib.Pick(r, []string{"1", "255", "0", "-1", "50%", "100%", "0.5", "1.5", "x", "", " ", "1 2", "1e400", "99999999999999999999", "/**/", "var(--x)", "calc(1)", "\"a\""}))
	}
	return name + "(" + strings.Join(args, vlib.Pick(r, []string{",", ", ", " ", ",,", " , "})) + vlib.Pick(r, []string{")", ")", ")", "", ") x"})
}
