package main

// W3C dates (<meta name=dcterms.created / dcterms.modified>) and document metadata.
//
//   - component "w3cdate" (modelled, Css/W3cDate.v): utils.parseW3cDate and the groups of w3CDateRe
//     through the hook utils/verif_export_c07b.go;
//   - component "metadata" (tested only): tree.NewHTML + GetMetadata (utils.GetHtmlMetadata) on documents
//     whose <title>, <meta> and <link rel=attachment> values come from the grammars below.
//
// The date grammar is the one of the regular expression: year [-month [-day [T hour:minute [:second
// [.fraction]] (Z | sign hour:minute)]]], each numeric field being a digit run.  Deterministic part
// (dateEdge): every field of every shape replaced by digit runs of EVERY interesting length (0 .. 300,
// around the 18/19/20 digits where strconv.Atoi starts to overflow an int64) of 9s, 1s and 0s, and by the
// int64 / uint64 boundary numbers; every prefix of the longest form; white space and case variants.
// Random part (genDate): fields drawn in range, slightly out of range, or as long digit runs; separators
// and markers mutated.

import (
	"fmt"
	"strings"

	"verifharness/cssedge"
	"verifharness/vlib"
)

// field order: year month day hour minute second fraction tzHour tzMinute
var dateValid = [9]string{"1997", "07", "16", "19", "20", "30", "45", "01", "00"}

// shapes: number of leading fields present, and whether the zone is Z or numeric
type dateShape struct {
	n      int  // 1 year, 2 +month, 3 +day, 5 +hour:minute, 6 +second, 7 +fraction
	numTZ  bool // numeric zone (fields 7, 8) instead of Z
	fields []int
}

var dateShapes = []dateShape{
	{1, false, []int{0}}, {2, false, []int{0, 1}}, {3, false, []int{0, 1, 2}},
	{5, false, []int{0, 1, 2, 3, 4}}, {5, true, []int{0, 1, 2, 3, 4, 7, 8}},
	{6, false, []int{0, 1, 2, 3, 4, 5}}, {6, true, []int{0, 1, 2, 3, 4, 5, 7, 8}},
	{7, false, []int{0, 1, 2, 3, 4, 5, 6}}, {7, true, []int{0, 1, 2, 3, 4, 5, 6, 7, 8}},
}

func assembleDate(f [9]string, sh dateShape, sign string) string {
	s := f[0]
	if sh.n >= 2 {
		s += "-" + f[1]
	}
	if sh.n >= 3 {
		s += "-" + f[2]
	}
	if sh.n >= 5 {
		s += "T" + f[3] + ":" + f[4]
		if sh.n >= 6 {
			s += ":" + f[5]
		}
		if sh.n >= 7 {
			s += "." + f[6]
		}
		if sh.numTZ {
			s += sign + f[7] + ":" + f[8]
		} else {
			s += "Z"
		}
	}
	return s
}

var runLengths = []int{0, 1, 2, 3, 4, 5, 6, 9, 10, 17, 18, 19, 20, 21, 22, 32, 64, 300}
var boundaryNumbers = []string{"9223372036854775807", "9223372036854775808", "18446744073709551615", "18446744073709551616", "2147483648", "4294967296",
	"09223372036854775807", "00000000000000000000001997", "99999999999999999999999999999999999999999999999999"}

// dateEdge: the deterministic boundary dates
func dateEdge(emit func(string)) {
	for _, sh := range dateShapes {
		for _, sign := range []string{"+", "-"} {
			if !sh.numTZ && sign == "-" {
				continue
			}
			emit(assembleDate(dateValid, sh, sign))
			for _, fi := range sh.fields {
				if sign == "-" && fi < 7 {
					continue // the sign only matters for the zone fields
				}
				for _, n := range runLengths {
					for _, d := range []string{"9", "1", "0"} {
						if d != "9" && !(n == 1 || n == 2 || n == 4 || n == 5 || (19 <= n && n <= 21)) {
							continue
						}
						f := dateValid
						f[fi] = strings.Repeat(d, n)
						emit(assembleDate(f, sh, sign))
					}
				}
				for _, b := range boundaryNumbers {
					f := dateValid
					f[fi] = b
					emit(assembleDate(f, sh, sign))
				}
			}
		}
	}
	full := assembleDate(dateValid, dateShapes[len(dateShapes)-1], "+")
	for _, p := range cssedge.Prefixes(full, true) {
		emit(p)
		emit(" " + p + "\n")
	}
	for _, s := range dates {
		emit(s)
	}
	for _, ws := range []string{" ", "\t", "\n", "\f", "\r", "\v", " ", " \t\n\f\r"} {
		emit(ws + "1997-07-16")
		emit("1997-07-16" + ws)
		emit("1997" + ws + "-07")
		emit(ws)
	}
	for _, s := range []string{"1997-07-16t19:20Z", "1997-07-16T19:20z", "1997-07-16 19:20Z", "1997-07-16T19:20", "1997-07-16T19:20:30", "1997-07-16T19:20+0100", "1997-07-16T19:20+01", "1997-07-16T19:20±01:00",
		"1997-07-16T19:20:30.Z", "1997-07-16T19:20:30.45", "1997-07-16T19:20.5Z", "1997-07-16T19Z", "1997-07-16TZ", "1997-07T19:20Z", "1997T19:20Z", "+1997", "-1997", "+1997-07-16", "１９９７", "1997-０7", "1997-07-16T24:00Z", "1997-07-16T23:60Z",
		"1997-07-16T23:59:60Z", "1997-13", "1997-00", "1997-07-32", "1997-07-00", "1997-02-31", "0000", "0000-01-01T00:00:00Z", "9999-12-31T23:59:59.999999999+23:59", "9999-12-31T23:59:59-23:59", "1997-07-16T19:20+24:00", "1997-07-16T19:20+00:60",
		"1997-07-16T19:20-00:00", "1997-07-16T19:20+00:00", "1997-07-16T19:20-00:30", "1997--07", "1997-07-", "1997-", "1997-07-16T", "1997-07-16T19:", "1997-07-16T19:20:", "1997-07-16T19:20:30+", "1997-07-16T19:20:30+01:", "1997\x00", "\xff1997", "1997\xff"} {
		emit(s)
	}
}

func digitRun(r *vlib.Rng) string {
	switch r.Intn(4) {
	case 0:
		return vlib.Pick(r, boundaryNumbers)
	default:
		n := vlib.Pick(r, runLengths)
		if r.Bool() {
			n = r.Range(0, 30)
		}
		var sb strings.Builder
		for i := 0; i < n; i++ {
			sb.WriteByte(byte('0' + r.Intn(10)))
		}
		return sb.String()
	}
}

// genDate: one near-valid W3C date
func genDate(r *vlib.Rng) string {
	sh := vlib.Pick(r, dateShapes)
	two := func(max int) string { return fmt.Sprintf("%02d", r.Intn(max)) }
	f := [9]string{fmt.Sprintf("%04d", r.Intn(10000)), two(14), two(33), two(25), two(61), two(61), fmt.Sprint(r.Intn(1000)), two(25), two(61)}
	if r.Chance(1, 3) {
		f[1], f[2], f[3], f[4], f[5], f[7], f[8] = fmt.Sprintf("%02d", r.Range(1, 12)), fmt.Sprintf("%02d", r.Range(1, 28)), two(24), two(60), two(60), two(24), two(60)
	}
	// one or two fields become arbitrary digit runs
	for k := r.Intn(3); k > 0; k-- {
		f[vlib.Pick(r, sh.fields)] = digitRun(r)
	}
	s := assembleDate(f, sh, vlib.Pick(r, []string{"+", "-", "+", "-", "", " ", "±"}))
	if r.Chance(1, 6) { // a marker / separator changed
		from := vlib.Pick(r, []string{"-", "T", ":", "Z", "."})
		to := vlib.Pick(r, []string{"", "-", "--", "t", " ", "::", ";", "z", ",", "/", "T", ":"})
		if i := strings.Index(s, from); i >= 0 && r.Bool() {
			s = s[:i] + to + s[i+len(from):]
		} else if i := strings.LastIndex(s, from); i >= 0 {
			s = s[:i] + to + s[i+len(from):]
		}
	}
	if r.Chance(1, 5) {
		s = vlib.Pick(r, []string{" ", "\n", "\t\f\r", "x", " "}) + s
	}
	if r.Chance(1, 5) {
		s += vlib.Pick(r, []string{" ", "\n", " \t", "x", "Z", "\x00"})
	}
	return s
}

var metaNames = []string{"dcterms.created", "dcterms.modified", "DCTERMS.Created", "DCTerms.MODIFIED", "dcterms.created ", "dcterms.issued", "keywords", "Keywords", "author", "description", "generator", "", "date"}

// metaDoc: a document whose head carries the given created / modified dates
func metaDoc(created, modified string) string {
	return `<html><head><title>t</title><meta name="dcterms.created" content="` + escAttr(created) + `"><meta name="dcterms.modified" content="` + escAttr(modified) + `"></head><body>x</body></html>`
}

// genMetaDoc: <title>, <meta name content>, <link rel=attachment> in a random head
func (g *gen) genMetaDoc() string {
	r := g.r
	var sb strings.Builder
	sb.WriteString("<html><head>")
	for n := r.Range(1, 6); n > 0; n-- {
		switch r.Intn(10) {
		case 0:
			sb.WriteString("<title>" + escAttr(vlib.Pick(r, []string{"", "t", " a  b ", "<b>x</b>", "é", genDate(r)})) + "</title>")
		case 1, 2:
			sb.WriteString(fmt.Sprintf(`<link rel="%s" href="%s" title="%s">`, vlib.Pick(r, []string{"attachment", "ATTACHMENT", "attachment stylesheet", " attachment ", "", "x", "attach ment"}),
				escAttr(vlib.Pick(r, svgHrefs)), escAttr(vlib.Pick(r, docLenVals))))
		case 3:
			sb.WriteString(fmt.Sprintf(`<meta name="%s" content="%s">`, vlib.Pick(r, []string{"keywords", "author", "description", "generator"}),
				escAttr(vlib.Pick(r, []string{"", ",", "a,b", " a , a ,, b ", "\t", "a ,b", genDate(r)}))))
		case 4:
			sb.WriteString(fmt.Sprintf(`<meta content="%s">`, escAttr(genDate(r))))
		default:
			sb.WriteString(fmt.Sprintf(`<meta name="%s" content="%s">`, vlib.Pick(r, metaNames), escAttr(genDate(r))))
		}
	}
	sb.WriteString("</head><body><meta name=dcterms.created content=\"" + escAttr(genDate(r)) + "\"></body></html>")
	return sb.String()
}
