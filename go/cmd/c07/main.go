// Harness for C07 "parsers of document-supplied text never crash".
//
// The parent process generates every input from one SplitMix64 seed (corpus
// first), hands them to a pool of worker subprocesses (a stack overflow is
// process-fatal, a hang is cut by a watchdog) and writes one case per run as a
// Coq term of type Check.C07.case:
//   - tested-only components (validators, expanders, descriptor parsers,
//     stylesheets, selectors, SVG documents, data: URLs, HTML documents):
//     `CTotal component outcome`;
//   - modelled components (percent-decoding, data: URL splitting, @page
//     selectors, An+B, HTML integer attributes, SVG attribute parsers): the
//     input and what the implementation returned, so that the Coq model is run
//     on the same input.
package main

import (
	"regexp"
	"encoding/json"
	"flag"
	"fmt"
	"io"
	"os"
	"path/filepath"
	"sort"
	"strings"
	"time"

	"verifharness/vlib"
	"verifharness/vlib/render"

	"github.com/benoitkugler/webrender/backend"
	"github.com/benoitkugler/webrender/css/counters"
	pa "github.com/benoitkugler/webrender/css/parser"
	pr "github.com/benoitkugler/webrender/css/properties"
	"github.com/benoitkugler/webrender/css/selector"
	"github.com/benoitkugler/webrender/css/validation"
	bo "github.com/benoitkugler/webrender/html/boxes"
	"github.com/benoitkugler/webrender/html/layout"
	"github.com/benoitkugler/webrender/html/tree"
	"github.com/benoitkugler/webrender/images"
	"github.com/benoitkugler/webrender/logger"
	"github.com/benoitkugler/webrender/svg"
	"github.com/benoitkugler/webrender/text"
	"github.com/benoitkugler/webrender/utils"
)

// job: one implementation run
type job struct {
	C    string   `json:"c"`             // component
	S    string   `json:"s"`             // input text
	X    int      `json:"x,omitempty"`   // extra integer argument
	Rep  int      `json:"rep,omitempty"` // > 0: S is "PRE\x00UNIT\x00MID\x00CLOSE\x00POST", the input is PRE UNIT^Rep MID CLOSE^Rep POST
	Kind string   `json:"-"`
	Tags []string `json:"-"`
}

// result of a worker
type result struct {
	St   string `json:"st"`             // ok | err | panic
	Site string `json:"site,omitempty"` // panic site
	Msg  string `json:"msg,omitempty"`
	Coq  string `json:"coq,omitempty"` // modelled components: the Coq case
	Obs  string `json:"obs,omitempty"` // human readable observable
}

// component numbers of CTotal
var components = map[string]int{
	"decl": 1, "fontface": 2, "counterstyle": 3, "stylesheet": 4, "selector": 5, "svg": 6,
	"dataurl-fetch": 7, "html": 8, "color": 9, "cssparse": 10, "styleattr": 11, "metadata": 12,
}

func init() {
	logger.ProgressLogger.SetOutput(io.Discard)
	logger.WarningLogger.SetOutput(io.Discard)
}

// ---------------------------------------------------------------- tested-only components

var lastErr string

// runTotal runs one tested-only component; returns isErr.
func runTotal(c, s string) (isErr bool) {
	switch c {
	case "decl":
		ds := validation.PreprocessDeclarations("http://verif.test/", pa.ParseBlocksContentsString(s))
		return len(ds) == 0
	case "fontface":
		d := validation.PreprocessFontFaceDescriptors("http://verif.test/", pa.ParseBlocksContentsString(s))
		return d.Src == nil
	case "counterstyle":
		d := validation.PreprocessCounterStyleDescriptors("http://verif.test/", pa.ParseBlocksContentsString(s))
		return d.Validate() != nil
	case "stylesheet":
		_, err := tree.NewCSSDefault(utils.InputString(s))
		return err != nil
	case "selector":
		_, err := selector.ParseGroup(s)
		return err != nil
	case "svg":
		_, err := svg.Parse(strings.NewReader(s), "http://verif.test/", noImage, noFetch)
		if err != nil {
			lastErr = err.Error()
		}
		return err != nil
	case "dataurl-fetch":
		_, err := utils.DefaultUrlFetcher(s)
		return err != nil
	case "html":
		doc, err := tree.NewHTML(utils.InputString(s), "http://verif.test/", noFetch, "")
		if err != nil {
			return true
		}
		// presentational hints on, full HTML5 UA stylesheet: attribute readers of style.go
		cs := make(counters.CounterStyle)
		sf := tree.GetAllComputedStyles(doc, nil, true, nil, cs, nil, nil, false, nil)
		cache := images.NewCache()
		imgFetcher := func(url string, forcedMimeType string, orientation pr.SBoolFloat) images.Image {
			return images.GetImageFromUri(cache, doc.UrlFetcher, false, url, forcedMimeType, orientation)
		}
		tc := tree.NewTargetCollector()
		foot := new([]bo.Box)
		// box generation: colspan / rowspan / span readers of boxes_tree.go, table grid of build.go
		_ = bo.BuildFormattingStructure(doc.Root, sf, bo.URLResolver{Fetch: doc.UrlFetcher, FetchImage: imgFetcher},
			doc.BaseUrl, &tc, cs, foot)
		_ = doc.GetMetadata()
		// the whole pipeline: the numbers read from the attributes (colspan / rowspan / span, start, size ...)
		// are USED by the table grid and the layout; a value outside what that code expects crashes there
		// (job.X = 1: box generation only -- documents asking for a 1000-column grid, whose layout takes seconds)
		// ... and documents carrying astronomic numbers (>= 6 digits, or an exponent: border="1e400",
		// width="99999999999"): sizes of that magnitude make layout slow / hang / exhaust memory, which is
		// property C01's subject (known findings C01/hang-*-astronomic-*, C01/oom-*), not an attribute reader's.
		if !noLayout && !astronomicNumber.MatchString(s) {
			_ = layout.Layout(doc, nil, true, workerFonts())
		}
		return false
	case "metadata":
		// utils.GetHtmlMetadata: <title>, <meta name content> (keywords, dates ...), <link rel=attachment>
		doc, err := tree.NewHTML(utils.InputString(s), "http://verif.test/", noFetch, "")
		if err != nil {
			return true
		}
		_ = doc.GetMetadata()
		return false
	case "color":
		c := pa.ParseColorString(s)
		return c.Type == 0
	case "cssparse":
		_ = pa.ParseStylesheetBytes([]byte(s), false, false)
		_ = pa.ParseDeclarationListString(s, false, false)
		toks := pa.Tokenize([]byte(s), false)
		_ = pa.Serialize(toks)
		_ = pa.ParseOneComponentValue(toks)
		_ = pa.ParseOneDeclaration(toks)
		return false
	case "styleattr":
		_ = validation.PreprocessDeclarations("http://verif.test/", pa.ParseBlocksContentsString(s))
		return false
	}
	panic("unknown component " + c)
}

var noLayout bool // set per job by handle

var fontsOnce text.FontConfiguration

func workerFonts() text.FontConfiguration {
	if fontsOnce == nil {
		fontsOnce = render.NewFonts("pango")
	}
	return fontsOnce
}

type fakeImage struct{}

func (fakeImage) GetIntrinsicSize(_, _ pr.Float) (width, height, ratio pr.MaybeFloat) {
	return pr.Float(10), pr.Float(10), pr.Float(1)
}
func (fakeImage) Draw(backend.Canvas, text.TextLayoutContext, utils.Fl, utils.Fl, string) {}

func noImage(url string) (backend.Image, error) {
	if strings.Contains(url, "missing") || strings.Contains(url, "%") {
		return nil, fmt.Errorf("offline: %s", url)
	}
	return fakeImage{}, nil
}

func noFetch(url string) (utils.RemoteRessource, error) {
	if strings.HasPrefix(strings.ToLower(url), "data:") {
		return utils.DefaultUrlFetcher(url)
	}
	return utils.RemoteRessource{}, fmt.Errorf("offline: %s", url)
}

// ---------------------------------------------------------------- modelled components

func ocOf(o render.Outcome, isErr bool) int {
	if o.Status != "ok" {
		return 2
	}
	if isErr {
		return 1
	}
	return 0
}

// abstraction of a token for Css/PageSel.v
func ptok(t pa.Token) string {
	switch t := t.(type) {
	case pa.Ident:
		return "(PIdent " + vlib.Bytes(t.Value) + ")"
	case pa.Literal:
		return "(PLit " + vlib.Bytes(t.Value) + ")"
	case pa.Number:
		return fmt.Sprintf("(PNumber %s %s %s)", vlib.Bool(t.IsInt()), vlib.Z(t.Int()), vlib.Bytes(t.Value))
	case pa.Dimension:
		return fmt.Sprintf("(PDim %s %s %s)", vlib.Bool(t.IsInt()), vlib.Z(t.Int()), vlib.Bytes(t.Unit))
	case pa.FunctionBlock:
		return fmt.Sprintf("(PFunc %s %s)", vlib.Bytes(t.Name), ptoks(t.Arguments))
	case pa.Hash:
		return "(PHash " + vlib.Bytes(t.Value) + ")"
	case pa.Percentage:
		return "(PPercentage " + vlib.Bool(t.IsInt()) + ")"
	case pa.Whitespace:
		return "PWs"
	case pa.Comment:
		return "PComment"
	default:
		return "POther"
	}
}

func ptoks(ts []pa.Token) string {
	items := make([]string, len(ts))
	for i, t := range ts {
		items[i] = ptok(t)
	}
	return vlib.List(items)
}

func runModelled(j job) result {
	s := j.S
	var res result
	switch j.C {
	case "unquote":
		var out string
		o := render.Guard(func() { out = utils.Unquote(s) })
		res.Coq = fmt.Sprintf("CUnquote %s %d %s", vlib.Bytes(s), ocOf(o, false), vlib.Bytes(out))
		res.Obs = fmt.Sprintf("%q", out)
		return fin(res, o, false)
	case "unescape":
		var out []byte
		var err error
		o := render.Guard(func() { out, err = utils.VerifC07Unescape([]byte(s)) })
		res.Coq = fmt.Sprintf("CUnescape %s %d %s", vlib.Bytes(s), ocOf(o, err != nil), vlib.Bytes(string(out)))
		res.Obs = fmt.Sprintf("%q err=%v", out, err)
		return fin(res, o, err != nil)
	case "dataurl":
		var d utils.VerifC07DataURL
		var err error
		o := render.Guard(func() { d, err = utils.VerifC07ParseDataURL([]byte(s)) })
		kvs := make([]string, len(d.Params))
		for i, p := range d.Params {
			kvs[i] = fmt.Sprintf("KV %s %s", vlib.Bytes(p[0]), vlib.Bytes(p[1]))
		}
		res.Coq = fmt.Sprintf("CDataUrl %s %d %s %s %s %s", vlib.Bytes(s), ocOf(o, err != nil), vlib.Bytes(d.MimeType),
			vlib.List(kvs), vlib.Bool(d.IsBase64), vlib.Bytes(string(d.Data)))
		res.Obs = fmt.Sprintf("%+v err=%v", d, err)
		return fin(res, o, err != nil)
	case "fetchdata":
		var err error
		o := render.Guard(func() { _, err = utils.DefaultUrlFetcher(s) })
		res.Coq = fmt.Sprintf("CFetchData %s %d", vlib.Bytes(s), ocOf(o, err != nil))
		res.Obs = fmt.Sprintf("err=%v", err)
		return fin(res, o, err != nil)
	case "pagesel":
		var toks []pa.Token
		var sels []tree.VerifC07PageSelector
		var ok bool
		o := render.Guard(func() {
			toks = pa.Tokenize([]byte(s), false)
			sels, ok = tree.VerifC07ParsePageSelectors(toks)
		})
		items := make([]string, len(sels))
		for i, p := range sels {
			items[i] = fmt.Sprintf("mkPsel %s %s %s %s %s %s %s %s %s", vlib.Bytes(p.Side), vlib.Bytes(p.Name), vlib.Z(p.A), vlib.Z(p.B),
				vlib.Z(p.Specificity[0]), vlib.Z(p.Specificity[1]), vlib.Z(p.Specificity[2]), vlib.Bool(p.Blank), vlib.Bool(p.First))
		}
		res.Coq = fmt.Sprintf("CPageSel %s %d %s", ptoks(toks), ocOf(o, !ok), vlib.List(items))
		res.Obs = fmt.Sprintf("%+v ok=%v", sels, ok)
		return fin(res, o, !ok)
	case "nth":
		var toks []pa.Token
		var ab *[2]int
		o := render.Guard(func() {
			toks = pa.Tokenize([]byte(s), false)
			ab = pa.ParseNth(toks)
		})
		a, b := 0, 0
		if ab != nil {
			a, b = ab[0], ab[1]
		}
		res.Coq = fmt.Sprintf("CNth %s %d %s %s", ptoks(toks), ocOf(o, ab == nil), vlib.Z(a), vlib.Z(b))
		res.Obs = fmt.Sprintf("%v", ab)
		return fin(res, o, ab == nil)
	case "intattr":
		var v int
		o := render.Guard(func() { v = bo.VerifC07IntegerAttribute(s, j.X) })
		res.Coq = fmt.Sprintf("CIntAttr %s %s %d %s", vlib.Runes(s), vlib.Z(j.X), ocOf(o, false), vlib.Z(v))
		res.Obs = fmt.Sprint(v)
		return fin(res, o, false)
	case "spans":
		// the call sites of integerAttribute: j.X = 1: the attribute is absent
		var c, rw, sp, gsp int
		present := j.X != 1
		o := render.Guard(func() { c, rw, sp, gsp = bo.VerifC07TableSpans(s, present) })
		res.Coq = fmt.Sprintf("CSpans %s %s %d %s %s %s %s", vlib.Runes(s), vlib.Bool(present), ocOf(o, false), vlib.Z(c), vlib.Z(rw), vlib.Z(sp), vlib.Z(gsp))
		res.Obs = fmt.Sprintf("td.Colspan=%d td.Rowspan=%d col.span()=%d colgroup.span()=%d", c, rw, sp, gsp)
		return fin(res, o, false)
	case "par":
		var x, y string
		var none, slice bool
		o := render.Guard(func() { x, y, none, slice = svg.VerifC07ParsePreserveAspectRatio(s) })
		res.Coq = fmt.Sprintf("CPar %s %d %s %s %s %s", vlib.Bytes(s), ocOf(o, false), vlib.Bytes(x), vlib.Bytes(y), vlib.Bool(none), vlib.Bool(slice))
		res.Obs = fmt.Sprintf("x=%q y=%q none=%v slice=%v", x, y, none, slice)
		return fin(res, o, false)
	case "svgvalue":
		var v svg.Value
		var err error
		o := render.Guard(func() { v, err = svg.VerifC07ParseValue(s) })
		empty := err == nil && v == (svg.Value{})
		res.Coq = fmt.Sprintf("CSvgValue %s %d %s %d", vlib.Runes(s), ocOf(o, false), vlib.Bool(empty), v.U)
		res.Obs = fmt.Sprintf("%v err=%v", v, err)
		return fin(res, o, err != nil)
	case "svgopacity":
		var err error
		o := render.Guard(func() { _, err = svg.VerifC07ParseOpacity(s) })
		res.Coq = fmt.Sprintf("CSvgOpacity %s %d", vlib.Runes(s), ocOf(o, err != nil))
		return fin(res, o, err != nil)
	case "svgurl":
		var isErr bool
		var str string
		o := render.Guard(func() { str, isErr = svg.VerifC07ParseURL(s); _ = svg.VerifC07ParseURLFragment(s) })
		res.Coq = fmt.Sprintf("CSvgUrl %s %d", vlib.Bytes(s), ocOf(o, isErr))
		res.Obs = str
		return fin(res, o, isErr)
	case "painter":
		var valid, isErr bool
		var ref string
		o := render.Guard(func() { ref, valid, isErr = svg.VerifC07NewPainter(s) })
		kind := 0
		if isErr {
			kind = 1
		} else if valid {
			kind = 2
		}
		res.Coq = fmt.Sprintf("CPainter %s %d %d", vlib.Runes(s), ocOf(o, false), kind)
		res.Obs = fmt.Sprintf("ref=%q valid=%v err=%v", ref, valid, isErr)
		return fin(res, o, isErr)
	case "colortok":
		var tok pa.Token
		var c pa.Color
		o := render.Guard(func() {
			tok = pa.ParseOneComponentValue(pa.Tokenize([]byte(s), true))
			c = pa.ParseColor(tok)
		})
		t := "POther"
		if tok != nil {
			t = ptok(tok)
		}
		res.Coq = fmt.Sprintf("CColor %s %d %d", t, ocOf(o, false), c.Type)
		res.Obs = fmt.Sprintf("%+v", c)
		return fin(res, o, c.Type == 0)
	case "media":
		var toks []pa.Token
		var media []string
		var ok bool
		o := render.Guard(func() {
			toks = pa.Tokenize([]byte(s), false)
			media, ok = tree.VerifC07ParseMediaQuery(toks)
		})
		items := make([]string, len(media))
		for i, m := range media {
			items[i] = vlib.Bytes(m)
		}
		res.Coq = fmt.Sprintf("CMedia %s %d %s", ptoks(toks), ocOf(o, !ok), vlib.List(items))
		res.Obs = fmt.Sprintf("%q ok=%v", media, ok)
		return fin(res, o, !ok)
	case "w3cdate":
		// the groups of the regular expression (cannot panic) and parseW3cDate itself
		groups, matched := utils.VerifC07W3cDateGroups(s)
		var unix int64
		var offset int
		var err error
		o := render.Guard(func() { unix, offset, err = utils.VerifC07ParseW3cDate(s) })
		if o.Status != "ok" || err != nil {
			unix, offset = 0, 0
		}
		items := make([]string, len(groups))
		for i, gr := range groups {
			items[i] = vlib.Bytes(gr)
		}
		res.Coq = fmt.Sprintf("CW3cDate %s %d %s %s %s %s", vlib.Bytes(s), ocOf(o, err != nil), vlib.Bool(matched), vlib.List(items), vlib.Z(int(unix)), vlib.Z(offset))
		res.Obs = fmt.Sprintf("matched=%v groups=%q unix=%d offset=%d err=%v", matched, groups, unix, offset, err)
		return fin(res, o, err != nil)
	case "fontweight":
		var v int
		o := render.Guard(func() { v = svg.VerifC07ParseFontWeight(s) })
		res.Coq = fmt.Sprintf("CFontWeight %s %d %s", vlib.Bytes(s), ocOf(o, false), vlib.Z(v))
		res.Obs = fmt.Sprint(v)
		return fin(res, o, false)
	}
	panic("unknown modelled component " + j.C)
}

func fin(res result, o render.Outcome, isErr bool) result {
	switch {
	case o.Status != "ok":
		res.St, res.Site, res.Msg = "panic", o.Site, o.Msg
	case isErr:
		res.St = "err"
	default:
		res.St = "ok"
	}
	return res
}

func handle(in string) string {
	var j job
	if err := json.Unmarshal([]byte(in), &j); err != nil {
		return `{"st":"panic","msg":"bad job"}`
	}
	if j.Rep > 0 {
		j.S = expand(j.S, j.Rep)
	}
	var res result
	if _, total := components[j.C]; total {
		var isErr bool
		lastErr = ""
		noLayout = j.X == 1
		o := render.Guard(func() { isErr = runTotal(j.C, j.S) })
		res = fin(res, o, isErr)
		if res.St == "err" && len(lastErr) > 0 {
			res.Msg = tail(lastErr, 200)
		}
	} else {
		res = runModelled(j)
	}
	b, _ := json.Marshal(res)
	return string(b)
}

// ---------------------------------------------------------------- corpus

type corpusEntry struct {
	C    string `json:"c"`
	S    string `json:"s"`
	X    int    `json:"x"`
	Note string `json:"note"`
}

func loadCorpus(dir string) []job {
	var out []job
	files, _ := filepath.Glob(filepath.Join(dir, "*.json"))
	sort.Strings(files)
	for _, f := range files {
		b, err := os.ReadFile(f)
		if err != nil {
			continue
		}
		var es []corpusEntry
		if json.Unmarshal(b, &es) != nil {
			var e corpusEntry
			if json.Unmarshal(b, &e) != nil {
				continue
			}
			es = []corpusEntry{e}
		}
		for _, e := range es {
			out = append(out, job{C: e.C, S: e.S, X: e.X, Kind: "corpus", Tags: []string{"corpus", "corpus:" + filepath.Base(f)}})
		}
	}
	return out
}

// ---------------------------------------------------------------- main

var astronomicNumber = regexp.MustCompile(`(?i)[0-9]{6,}|[0-9]e\+?[0-9]`)

func main() {
	if vlib.IsWorker() {
		vlib.WorkerMain(handle)
	}
	out := flag.String("out", "cases.jsonl", "output file")
	n := flag.Int("n", 3000, "number of cases")
	corpus := flag.String("corpus", "/verif/corpus/C07", "regression corpus directory")
	par := flag.Int("par", 14, "worker processes")
	replay := flag.String("replay", "", "replay file written by the check: re-run its input")
	one := flag.String("one", "", "run a single job given as JSON {c,s,x} in-process and print the result")
	flag.Parse()
	if *one != "" {
		if strings.HasPrefix(*one, "@") { // job read from a file
			b, _ := os.ReadFile((*one)[1:])
			*one = string(b)
		}
		fmt.Println(handle(*one))
		return
	}

	var jobs []job
	if *replay != "" {
		// re-run the implementation on the input recorded in a replay file
		var obj struct {
			Case struct {
				Kind string
				Tags []string
				Desc struct {
					Component string
					Input     string
					Arg       int
					Pattern   string
					Rep       int
				}
			}
		}
		b, err := os.ReadFile(*replay)
		if err != nil || json.Unmarshal(b, &obj) != nil || obj.Case.Desc.Component == "" {
			fmt.Println("cannot read replay file", *replay)
			os.Exit(2)
		}
		jobs = []job{{C: obj.Case.Desc.Component, S: obj.Case.Desc.Input, X: obj.Case.Desc.Arg, Kind: obj.Case.Kind, Tags: []string{"replay"}}}
		if obj.Case.Desc.Rep > 0 {
			jobs[0].S, jobs[0].Rep = obj.Case.Desc.Pattern, obj.Case.Desc.Rep
			for _, t := range obj.Case.Tags {
				if strings.HasPrefix(t, "deep-") {
					jobs[0].Tags = append(jobs[0].Tags, t)
				}
			}
		}
	} else {
		rng := vlib.NewRng(vlib.Seed())
		jobs = loadCorpus(*corpus)
		g := newGen(rng)
		jobs = append(jobs, g.discoveryCrashes...)
		jobs = append(jobs, g.generate(*n-len(jobs))...)
	}

	inputs := make([]string, len(jobs))
	for i, j := range jobs {
		b, _ := json.Marshal(j)
		inputs[i] = string(b)
	}
	results := vlib.RunPool(inputs, *par, 8*time.Second, 4000000)

	w := vlib.NewWriter(*out)
	defer w.Close()
	stats := map[string]int{}
	for i, j := range jobs {
		r := results[i]
		var res result
		outcome := 0
		switch r.Status {
		case "ok":
			if err := json.Unmarshal([]byte(r.Out), &res); err != nil {
				res = result{St: "panic", Msg: "unreadable worker output"}
			}
		case "fatal":
			res = result{St: "fatal", Site: vlib.FatalKind(r.Out), Msg: tail(r.Out, 1500)}
		default:
			res = result{St: "hang"}
		}
		switch res.St {
		case "ok":
			outcome = 0
		case "err":
			outcome = 1
		case "panic":
			outcome = 2
		case "fatal":
			outcome = 3
		case "hang":
			outcome = 4
		}
		tags := append([]string{}, j.Tags...)
		tags = append(tags, "c:"+j.C, "st:"+res.St)
		if res.Site != "" {
			tags = append(tags, "site:"+res.Site)
		}
		// what kind of crash: resource exhaustion (stack overflow / out of memory reported by the
		// runtime, or the watchdog) or a logic error (recovered or unrecovered panic, any other death)
		switch {
		case res.St == "hang", res.St == "fatal" && (res.Site == "stack-overflow" || res.Site == "out-of-memory"):
			tags = append(tags, "crash:resource")
		case res.St == "panic" || res.St == "fatal":
			tags = append(tags, "crash:logic")
		}
		comp, total := components[j.C]
		coq := res.Coq
		if total || coq == "" {
			if !total {
				comp = 100 // a modelled component whose worker died: no observable
			}
			coq = fmt.Sprintf("CTotal %d %d", comp, outcome)
		}
		desc := map[string]interface{}{"component": j.C, "input": j.S, "outcome": res.St}
		if j.Rep > 0 {
			desc["input"] = describe(j.S, j.Rep)
			desc["pattern"], desc["rep"] = j.S, j.Rep
		}
		if j.X != 0 {
			desc["arg"] = j.X
		}
		if res.Site != "" {
			desc["site"] = res.Site
		}
		if res.Msg != "" {
			desc["msg"] = res.Msg
		}
		if res.Obs != "" {
			desc["impl"] = res.Obs
		}
		kind := j.Kind
		if kind == "" {
			kind = j.C
		}
		stats[j.C+"/"+res.St]++
		w.Add(vlib.Case{Kind: kind, Coq: coq, Desc: desc, Tags: tags, Nontrivial: len(j.S) > 0,
			Key: j.C + "\x00" + j.S + "\x00" + fmt.Sprint(j.X, j.Rep)})
	}
	keys := make([]string, 0, len(stats))
	for k := range stats {
		keys = append(keys, k)
	}
	sort.Strings(keys)
	for _, k := range keys {
		fmt.Printf("%s=%d ", k, stats[k])
	}
	fmt.Println()
}

// expand builds a deeply nested input from its compact description
func expand(pattern string, rep int) string {
	p := strings.Split(pattern, "\x00")
	for len(p) < 5 {
		p = append(p, "")
	}
	return p[0] + strings.Repeat(p[1], rep) + p[2] + strings.Repeat(p[3], rep) + p[4]
}

func describe(pattern string, rep int) string {
	p := strings.Split(pattern, "\x00")
	for len(p) < 5 {
		p = append(p, "")
	}
	return fmt.Sprintf("%q + %q x %d + %q + %q x %d + %q", p[0], p[1], rep, p[2], p[3], rep, p[4])
}

func tail(s string, n int) string {
	if len(s) > n {
		return s[len(s)-n:]
	}
	return s
}
