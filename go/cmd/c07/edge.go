package main

// Deterministic boundary streams (independent of the seed, part of every tier):
//
//   - trunc: the end of input after EVERY BYTE of well-formed inputs of every
//     component: the CSS constructs of verifharness/cssedge (one per scanner /
//     look-ahead of the tokenizer and rule / declaration / An+B parsers), one
//     valid value per CSS property and descriptor, whole stylesheets, selectors,
//     @page selectors, media queries, colours, data: URLs, percent-encoded
//     strings, HTML / SVG attribute values;
//   - ctx: exhaustive neighbourhoods: for each hand scanner of the tokenizer the
//     heads that enter it followed by all short strings over the symbols it
//     distinguishes (cssedge.Contexts); all short strings over {% hex non-hex}
//     for the percent decoders; "data:" followed by all short strings over the
//     separators of parseDataURL.

import (
	"fmt"
	"os"
	"sort"
	"strconv"
	"strings"

	"verifharness/cssedge"
)

var edgeSheets = []string{
	"@page :first { margin: 1cm; @top-left { content: \"a\" counter(page) } }",
	"@page name:nth(2n+1 of name):left { size: A4 landscape }",
	"@media print and (min-width: 1px), screen { a > b { color: red } }",
	"@import url(\"data:text/css,p%7Bcolor:red%7D\") print, screen;",
	"@import 'data:text/css;base64,cHtjb2xvcjpyZWR9';",
	"@font-face { font-family: x; src: url(a.woff) format(\"woff\"), local(y); unicode-range: U+0025-00FF, u+4?? }",
	"@counter-style x { system: additive; additive-symbols: 3 \"a\", 2 'b'; range: 1 infinite; pad: 3 \"0\"; fallback: decimal }",
	"@namespace svg url(http://www.w3.org/2000/svg); svg|a, *|b { width: calc(1px + 2%) }",
	"a:not(.b):nth-child(2n+1 of .c)::before { content: attr(x) \"\\41 \" url(x.png) !important; --v: { a: b } }",
	"a { b { color: rgb(1 2 3 / 50%) } margin: -1.5e+1px auto } /* c */ <!-- d {} -->",
}

var edgeSelectors = []string{
	"a > b + c ~ d e", "a:not(.b, #c):nth-child(2n+1 of .c)::before", "[x|=\"y\" i]", "ns|a, *|b, |c", ":nth-last-of-type(-n+ 3)", ":is(a, :where(b)):has(> c)",
	"a\\,b#\\31 c.\\-d", "::first-line, :lang(fr)", "[x^='y'][z*=w s]",
}

var edgeDataURLs = []string{
	"data:text/plain;charset=utf-8;base64,QUJDRA==", "data:text/css,p%7Bcolor:red%7D", "data:image/svg+xml;a=b;c=d,<svg xmlns='http://www.w3.org/2000/svg'/>",
	"data:,a%20b", "DATA:text/plain;base64,QUJD", "data:;base64,QQ==", "data:text/plain;charset=US-ASCII,%C3%A9%e2%82%ac", "data:a/b;x=\"y;z\",q", "data:text/html;base64;x=y,%41",
}

var edgeHTMLAttrs = []struct{ open, attr, close string }{
	{"<table><tr><td ", "colspan", ">x</td></tr></table>"}, {"<table><tr><td ", "rowspan", ">x</td></tr></table>"},
	{"<table><colgroup ", "span", "></colgroup><tr><td>x</td></tr></table>"}, {"<table><col ", "span", "><tr><td>x</td></tr></table>"},
	{"<font ", "size", ">x</font>"}, {"<hr ", "size", ">"}, {"<ol ", "start", "><li>a</ol>"}, {"<ol><li ", "value", ">a</ol>"},
	{"<img src=x ", "width", ">"}, {"<table ", "cellspacing", "><tr><td>x</td></tr></table>"}, {"<body ", "bgcolor", ">x</body>"}, {"<p ", "style", ">x</p>"},
	{"<textarea ", "rows", ">x</textarea>"}, {"<table ", "border", "><tr><td>x</td></tr></table>"},
}

var edgeHTMLVals = []string{"0", "12", "+12", "-12", " 12 ", "00", "-0", "1.5", "1e9", "50%", "12px", "#ffcc00", "red", "99999999999999999999", "-99999999999999999999", "width:1px;color:red", "font:1px/2 x"}

func (g *gen) edge() []job {
	var out []job
	seen := map[string]bool{}
	add := func(tag, c, s string, x int) {
		if c == "dataurl" && !strings.HasPrefix(strings.ToLower(s), "data:") {
			return // parseDataURL is only reached behind the prefix test of DefaultUrlFetcher
		}
		k := fmt.Sprint(c, "\x00", s, "\x00", x)
		if seen[k] {
			return
		}
		seen[k] = true
		out = append(out, job{C: c, S: s, X: x, Tags: []string{"edge", "edge:" + tag}})
	}
	truncs := func(s string, comps ...string) {
		for _, p := range cssedge.Prefixes(s, true) {
			for _, c := range comps {
				add("trunc", c, p, 0)
			}
		}
	}

	// ---- CSS text: every construct cut after every byte
	valueProps := []string{"--x", "content", "font-family", "background", "width", "font", "transition", "grid-template-areas", "src", "unicode-range", "quotes", "string-set"}
	for i, c := range cssedge.Constructs {
		for k, p := range cssedge.Prefixes(c.Text, true) {
			add("trunc", "cssparse", p, 0)
			add("trunc", "cssparse", cssedge.Wrappers[(i+k)%len(cssedge.Wrappers)]+p, 0)
			switch c.Class {
			case "value":
				add("trunc", "decl", valueProps[(i+k)%len(valueProps)]+":"+p, 0)
				add("trunc", "color", p, 0)
				if (i+k)%3 == 0 {
					add("trunc", "stylesheet", "a{b:"+p, 0)
				}
			case "decls":
				add("trunc", "styleattr", p, 0)
				add("trunc", "fontface", p, 0)
				add("trunc", "stylesheet", "a{"+p, 0)
			case "rules":
				add("trunc", "stylesheet", p, 0)
			case "nth":
				add("trunc", "nth", p, 0)
				add("trunc", "selector", ":nth-child("+p, 0)
				add("trunc", "selector", ":nth-child("+p+")", 0)
				add("trunc", "pagesel", ":nth("+p, 0)
				add("trunc", "pagesel", ":nth("+p+")", 0)
			}
		}
	}
	// ---- exhaustive neighbourhoods of the tokenizer's scanners
	extra := 0
	if os.Getenv("VERIF_TIER") == "thorough" {
		extra = 1
	}
	for _, c := range cssedge.Contexts(extra) {
		c.Enumerate(func(s string) { add("ctx", "cssparse", s, 0) })
	}

	// ---- whole stylesheets, selectors, at-rule preludes
	for _, s := range edgeSheets {
		truncs(s, "stylesheet")
	}
	for _, s := range append(append([]string{}, edgeSelectors...), selAtoms...) {
		truncs(s, "selector")
	}
	// control characters (the CSS newlines FF CR LF, NUL, TAB, VT, DEL ...) RAW inside every lexical context of the
	// selector parser: alone, and as the prelude of a style rule / inside :not() of a stylesheet
	for _, s := range cssedge.SelectorCtl() {
		add("ctl", "selector", s, 0)
		add("ctl", "stylesheet", s+"{color:red}", 0)
	}
	for _, s := range pagePreludes {
		truncs(s, "pagesel")
	}
	for _, s := range nthTexts {
		truncs(s, "nth")
	}
	// every An+B form with one extra token of every kind before / after it (cssedge.NthGrid): the model rejects them
	cssedge.NthGrid(false, func(s string) {
		add("nth-grid", "nth", s, 0)
	})
	for _, s := range atPreludes {
		truncs(s, "media")
	}
	for _, s := range colorTexts {
		truncs(s, "colortok", "color")
	}

	// ---- one valid value per property / descriptor
	for _, p := range g.props {
		v := ""
		if sd := g.seeds[p]; len(sd) > 0 {
			v = sd[0]
		} else if acc := g.accepted[p]; len(acc) > 0 {
			v = acc[len(acc)/2]
			if len(acc) > 1 {
				v += " " + acc[0]
			}
		}
		if v == "" || len(v) > 48 {
			continue
		}
		for _, pre := range cssedge.Prefixes(v, true) {
			add("trunc", "decl", p+":"+pre, 0)
		}
	}
	for _, tab := range []struct {
		c      string
		names  []string
		values map[string][]string
	}{{"fontface", g.ffDesc, ffValues}, {"counterstyle", g.csDesc, csValues}} {
		for _, name := range tab.names {
			vals := tab.values[name]
			if len(vals) > 4 {
				vals = vals[:4]
			}
			for _, v := range vals {
				for _, pre := range cssedge.Prefixes(v, true) {
					add("trunc", tab.c, name+":"+pre, 0)
					if tab.c == "fontface" { // a @font-face without src is rejected before the other descriptors matter
						add("trunc", tab.c, "src:url(x);"+name+":"+pre, 0)
					}
				}
			}
		}
	}

	// ---- data: URLs and percent escapes
	for _, s := range edgeDataURLs {
		truncs(s, "dataurl", "fetchdata", "dataurl-fetch")
	}
	cssedge.Ctx{Heads: []string{"data:", "data:a/b"}, Alphabet: []string{",", ";", "=", "a", "/", "%", "base64"}, MaxLen: 3 + extra}.Enumerate(func(s string) {
		add("ctx", "dataurl", s, 0)
		add("ctx", "fetchdata", s, 0)
	})
	for _, s := range payloads {
		truncs(s, "unquote", "unescape")
		truncs("data:,"+s, "dataurl", "fetchdata")
	}
	for _, c := range []cssedge.Ctx{
		{Heads: []string{"", "a"}, Alphabet: []string{"%", "4", "g", "a"}, MaxLen: 4 + extra},
		{Heads: []string{"", "%C3"}, Alphabet: []string{"%", "C", "3", "A", "9", "\xc3", "\xa9"}, MaxLen: 3 + extra},
		{Heads: []string{"%e2%82", "%f0%9f%98", "%ed%a0", "%c0"}, Alphabet: []string{"%", "a", "8", "0", "f", "\x80"}, MaxLen: 3},
	} {
		c.Enumerate(func(s string) {
			add("ctx", "unquote", s, 0)
			add("ctx", "unescape", s, 0)
		})
	}

	// ---- HTML / SVG attribute values
	for _, s := range intAttrVals {
		for _, p := range cssedge.Prefixes(s, true) {
			add("trunc", "intattr", p, 0)
			add("trunc", "intattr", p, 1)
		}
	}
	for _, s := range spanVals() {
		truncs(s, "spans")
	}
	for _, s := range svgPars {
		truncs(s, "par")
	}
	for _, s := range svgLengths {
		truncs(s, "svgvalue", "svgopacity", "fontweight")
	}
	for _, s := range svgPaints {
		truncs(s, "painter", "svgurl")
	}
	for _, s := range []string{"normal", "bold", "bolder", "lighter", "400", "+700", "1e3"} {
		truncs(s, "fontweight")
	}
	for _, s := range []string{"0.5", "50%", "1e-1", " 50 % "} {
		truncs(s, "svgopacity")
	}
	for _, t := range edgeHTMLAttrs {
		for _, v := range edgeHTMLVals {
			for _, p := range cssedge.Prefixes(v, true) {
				// a valid span of hundreds of columns / rows is a request for a huge grid: boxes only (x = 1), its layout takes seconds
				x := 0
				if n, err := strconv.Atoi(strings.TrimSpace(p)); err == nil && n > 64 && (t.attr == "colspan" || t.attr == "rowspan" || t.attr == "span") {
					x = 1
				}
				add("trunc", "html", "<html><body>"+t.open+t.attr+"=\""+escAttr(p)+"\""+t.close+"</body></html>", x)
			}
		}
	}
	// ---- W3C dates of <meta name=dcterms.created / dcterms.modified>: every numeric field x every digit-run length
	k := 0
	dateEdge(func(d string) {
		add("date", "w3cdate", d, 0)
		if k++; k%2 == 0 {
			add("date", "metadata", metaDoc(d, "2011-04-21"), 0)
		} else {
			add("date", "metadata", metaDoc("x", d), 0)
		}
	})
	svgDone := map[string]bool{}
	els := make([]string, 0, len(svgElems))
	for el := range svgElems {
		els = append(els, el)
	}
	sort.Strings(els)
	for _, el := range els {
		for _, a := range svgElems[el] {
			if a == "id" {
				continue
			}
			for _, v := range g.svgWellFormed(a) {
				for _, p := range cssedge.Prefixes(v, true) {
					if k := a + "\x00" + p; svgDone[k] {
						continue
					} else {
						svgDone[k] = true
					}
					add("trunc", "svg", `<svg xmlns="http://www.w3.org/2000/svg" xmlns:xlink="http://www.w3.org/1999/xlink"><defs><linearGradient id="g"><stop offset="0"/></linearGradient></defs><`+
						el+` `+a+`="`+escAttr(p)+`"></`+el+`></svg>`, 0)
				}
			}
		}
	}
	return out
}
