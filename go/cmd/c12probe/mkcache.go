package main

import (
	"os"

	fc "github.com/benoitkugler/textprocessing/fontconfig"
)

// writes a fontconfig cache of /repo/resources_test (for running /repo's layout tests in a scratch copy)
func mkcache(path string) {
	fs, err := fc.Standard.ScanFontDirectories("/repo/resources_test")
	if err != nil {
		panic(err)
	}
	f, err := os.Create(path)
	if err != nil {
		panic(err)
	}
	defer f.Close()
	if err := fs.Serialize(f); err != nil {
		panic(err)
	}
}
