package main

import (
	"fmt"
	"os"
	"strings"

	bo "github.com/benoitkugler/webrender/html/boxes"
	"verifharness/vlib/render"
)

func main() {
	if os.Args[1] == "-draw" {
		drawProbe(os.Args[2])
		return
	}
	if os.Args[1] == "-mkcache" {
		mkcache(os.Args[2])
		return
	}
	src, _ := os.ReadFile(os.Args[1])
	pages, err := render.Layout(string(src), nil, false, true, render.NewFonts("pango"))
	if err != nil {
		panic(err)
	}
	for i, p := range pages {
		fmt.Printf("PAGE %d type=%+v size=%vx%v margins=%v %v %v %v pos=%v,%v\n", i, p.PageType, p.Width, p.Height, p.MarginTop, p.MarginRight, p.MarginBottom, p.MarginLeft, p.PositionX, p.PositionY)
		for _, c := range p.Children {
			render.Walk(c, func(b bo.Box, d int) {
				f := b.Box()
				id := ""
				if f.Element != nil {
					for _, a := range f.Element.Attr {
						if a.Key == "id" {
							id = a.Val
						}
					}
				}
				txt := ""
				if t, ok := b.(*bo.TextBox); ok {
					txt = fmt.Sprintf("%q", t.TextS())
				}
				fmt.Printf("%s%s#%s y=%v h=%v mt=%v mb=%v pt=%v pb=%v %s\n", strings.Repeat("  ", d+1), b.Type(), id, f.PositionY, f.Height, f.MarginTop, f.MarginBottom, f.PaddingTop, f.PaddingBottom, txt)
			})
		}
	}
}
