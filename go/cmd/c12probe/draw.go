package main

import (
	"fmt"
	"os"

	"verifharness/vlib/render"
)

func drawProbe(path string) {
	src, _ := os.ReadFile(path)
	d, err := render.Render(string(src), nil, false, true, render.NewFonts("pango"))
	if err != nil {
		panic(err)
	}
	rec := render.Draw(d, 1)
	for _, e := range rec.Events {
		if e.Op == "DrawText" || e.Op == "AddPage" {
			fmt.Println(e.String())
		}
	}
}
