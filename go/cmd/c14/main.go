// Harness for C14: runs /repo's link / anchor / bookmark / metadata code and the
// whole Document.Write on a recording backend, and writes cases as Coq terms of
// type Check.C14.case (input + what the implementation produced).
//
// Streams: corpus documents (corpus/C14/*.html) first, then a mix of
//   - synthetic page data through the hooks VerifResolveLinks / VerifMakeBookmarkTree
//     (structured + boundary: levels <= 0, empty pages, duplicate names across pages),
//   - generated documents (forced pages; ids, links, headings, metadata, decorations,
//     images, inline SVG) rendered with /repo's pipeline and written at a zoom.
package main

import (
	"bytes"
	"flag"
	"fmt"
	"os"
	"path/filepath"
	"sort"
	"strings"
	"syscall"
	"time"

	"verifharness/vlib"
	"verifharness/vlib/render"

	"github.com/benoitkugler/webrender/backend"
	pr "github.com/benoitkugler/webrender/css/properties"
	bo "github.com/benoitkugler/webrender/html/boxes"
	"github.com/benoitkugler/webrender/html/document"
	"github.com/benoitkugler/webrender/utils"
	"golang.org/x/net/html"
)

// ------------------------------------------------------------------ fetcher

func fetcher(url string) (utils.RemoteRessource, error) {
	switch {
	case strings.HasPrefix(strings.ToLower(url), "data:"):
		return utils.DefaultUrlFetcher(url)
	case strings.HasPrefix(url, "http://verif.test/f/"):
		return utils.RemoteRessource{Content: bytes.NewReader([]byte("content of " + url)), MimeType: "text/plain", RedirectedUrl: url}, nil
	}
	return utils.RemoteRessource{}, fmt.Errorf("offline: %s", url)
}

// ------------------------------------------------------------------ synthetic streams

func rpos(r *vlib.Rng) Fl {
	switch r.Intn(4) {
	case 0:
		return Fl(r.Range(0, 800))
	case 1:
		return Fl(r.Range(0, 6400)) / 8
	case 2:
		return Fl(r.Float01() * 1000)
	}
	return Fl(r.Range(-50, 50))
}

func genResolve(r *vlib.Rng) vlib.Case {
	names := []string{"a", "b", "c", "d", "e", "f", "long-name", "", "A", "a b"}
	names = names[:r.Range(1, len(names))]
	nPages := vlib.Pick(r, []int{0, 1, 1, 2, 3, 4, 6})
	pages := make([]document.VerifPageData, nPages)
	dup, dangling, internal := false, false, 0
	defined := map[string]bool{}
	for i := range pages {
		perm := append([]string(nil), names...)
		for j := len(perm) - 1; j > 0; j-- {
			k := r.Intn(j + 1)
			perm[j], perm[k] = perm[k], perm[j]
		}
		for _, n := range perm[:r.Range(0, len(perm))] {
			if defined[n] {
				dup = true
			}
			defined[n] = true
			pages[i].Anchors = append(pages[i].Anchors, document.VerifAnchor{Name: n, X: rpos(r), Y: rpos(r)})
		}
	}
	for i := range pages {
		for j, m := 0, r.Range(0, 5); j < m; j++ {
			l := document.Link{Rectangle: [4]Fl{rpos(r), rpos(r), rpos(r), rpos(r)}}
			switch r.Intn(8) {
			case 0, 1, 2, 3:
				l.Type = "internal"
				l.Target = vlib.Pick(r, []string{"a", "b", "c", "d", "e", "f", "long-name", "", "A", "a b", "zz"})
				internal++
				if !defined[l.Target] {
					dangling = true
				}
			case 4, 5:
				l.Type, l.Target = "external", vlib.Pick(r, []string{"http://x.test/", "a", "zz", ""})
			case 6:
				l.Type, l.Target = "attachment", vlib.Pick(r, []string{"http://x.test/f", "a", "zz"})
			default:
				l.Type, l.Target = vlib.Pick(r, []string{"", "Internal", "weird"}), vlib.Pick(r, []string{"a", "zz"})
			}
			pages[i].Links = append(pages[i].Links, l)
		}
	}
	links, anchors := document.VerifResolveLinks(pages)
	ol := mapS(links, func(l []document.Link) string { return mapS(l, cLink) })
	oa := mapS(anchors, func(l []backend.Anchor) string {
		return mapS(l, func(a backend.Anchor) string { return cAnchor(a.Name, a.X, a.Y) })
	})
	var tags []string
	if dup {
		tags = append(tags, "dup-across-pages")
	}
	if dangling {
		tags = append(tags, "dangling")
	}
	return vlib.Case{Kind: "resolve", Coq: fmt.Sprintf("KResolve %s %s %s", mapS(pages, cPage), ol, oa),
		Desc: map[string]interface{}{"pages": pages, "links": links, "anchors": anchors}, Tags: tags,
		Nontrivial: nPages > 0 && internal > 0}
}

func genBookmarks(r *vlib.Rng) vlib.Case {
	nPages := vlib.Pick(r, []int{1, 1, 2, 3, 5})
	pages := make([]document.VerifPageData, nPages)
	mode := r.Intn(10)
	total, k := 0, 0
	var levels []int
	prev := 1
	for i := range pages {
		for j, m := 0, r.Range(0, 7); j < m; j++ {
			var lvl int
			switch {
			case mode == 0: // boundary: any small integer, including <= 0
				lvl = r.Range(-2, 4)
			case mode == 1: // wide jumps
				lvl = vlib.Pick(r, []int{1, 2, 9, 100, 1 << 20, 3})
			case mode <= 4: // walk: small steps around the previous level
				lvl = prev + r.Range(-2, 2)
				if lvl < 1 {
					lvl = 1
				}
			default:
				lvl = r.Range(1, 6)
			}
			prev = lvl
			k++
			label := fmt.Sprintf("b%d", k)
			if r.Chance(1, 12) {
				label = "dup"
			}
			pages[i].Bookmarks = append(pages[i].Bookmarks, document.VerifBookmark{Level: lvl, Label: label, X: rpos(r), Y: rpos(r), Open: r.Bool()})
			levels = append(levels, lvl)
			total++
		}
	}
	var root []backend.BookmarkNode
	o := render.Guard(func() { root = document.VerifMakeBookmarkTree(pages) })
	out := "BPanic"
	tags := []string{}
	if o.Status == "ok" {
		out = "(BForest " + mapS(root, cNode) + ")"
	} else {
		tags = append(tags, "panic")
	}
	bad := false
	for _, l := range levels {
		if l < 1 {
			bad = true
		}
	}
	if bad {
		tags = append(tags, "level<1")
	}
	in := mapS(pages, func(p document.VerifPageData) string { return mapS(p.Bookmarks, cBookmark) })
	return vlib.Case{Kind: "bookmarks", Coq: fmt.Sprintf("KBookmarks %s %s", in, out),
		Desc: map[string]interface{}{"levels": levels, "pages": nPages, "outcome": o, "outline": outlineDesc(root)}, Tags: tags,
		Nontrivial: total >= 2}
}

// traceTerm prints the recorded trace as Coq terms.  A very long trace (e.g.
// thousands of wave segments) overflows coqc's stack: the monitor then runs on
// a prefix (sound: acceptance is prefix closed, C14_protocol_prefix_closed; the
// page count / balance test is dropped).
type traceInfo struct {
	Trace     string         // list of calls
	Rules     []int          // rules the harness side shadow saw violated, sorted
	ByRule    map[int][]string
	Truncated bool
}

func traceOf(rec *Rec) traceInfo {
	calls := make([]string, len(rec.Ev))
	for i, e := range rec.Ev {
		calls[i] = e.Coq()
	}
	const maxCalls = 8000
	ti := traceInfo{ByRule: map[int][]string{}}
	ti.Truncated = len(calls) > maxCalls
	if ti.Truncated {
		calls = calls[:maxCalls]
	}
	ti.Trace = vlib.List(calls)
	if !ti.Truncated {
		rec.finish() // final condition (rule 13): only a complete trace has one
	}
	for _, v := range rec.shadow() {
		if ti.ByRule[v.Rule] == nil {
			ti.Rules = append(ti.Rules, v.Rule)
		}
		at := "end of trace"
		if v.I < len(rec.Ev) {
			at = rec.Ev[v.I].String()
		}
		ti.ByRule[v.Rule] = append(ti.ByRule[v.Rule], fmt.Sprintf("call %d %s: %s [%s]", v.I, at, v.What, v.Site))
	}
	sort.Ints(ti.Rules)
	return ti
}

func (ti traceInfo) sep() string {
	sep := make([]string, len(ti.Rules))
	for i, r := range ti.Rules {
		sep[i] = fmt.Sprint(r)
	}
	return vlib.List(sep)
}

func (ti traceInfo) has(rule int) bool { return ti.ByRule[rule] != nil }

// the whole-trace case: rules in `sep` are reported by their own KTraceRule case
func traceCase(name string, rec *Rec, ti traceInfo, npages int, tags []string, descBase func(map[string]interface{}) map[string]interface{}) vlib.Case {
	traceTerm := fmt.Sprintf("KTrace %d %s %s", npages, ti.sep(), ti.Trace)
	ttags := tags
	if ti.Truncated {
		traceTerm = fmt.Sprintf("KTracePrefix %s %s", ti.sep(), ti.Trace)
		ttags = append(append([]string(nil), tags...), "trace-truncated")
	}
	return vlib.Case{Kind: "trace", Coq: traceTerm,
		Desc: descBase(map[string]interface{}{"calls": len(rec.Ev), "pages": npages, "rules_reported_separately": ti.Rules, "truncated": ti.Truncated}),
		Tags: ttags, Nontrivial: len(rec.Ev) > 20, Key: name + "/trace"}
}

func ruleCase(name string, rec *Rec, ti traceInfo, r int, tags []string, descBase func(map[string]interface{}) map[string]interface{}) vlib.Case {
	d := ti.ByRule[r]
	if len(d) > 12 {
		d = d[:12]
	}
	return vlib.Case{Kind: "trace-rule", Coq: fmt.Sprintf("KTraceRule %d %s", r, ti.Trace),
		Desc: descBase(map[string]interface{}{"rule": r, "harness_side_diagnosis": d}),
		Tags: append(append([]string(nil), tags...), rec.shadowTags(r)...), Nontrivial: true, Key: fmt.Sprintf("%s/trace-rule-%d", name, r)}
}

func traceCases(name string, rec *Rec, npages int, tags []string, descBase func(map[string]interface{}) map[string]interface{}) []vlib.Case {
	ti := traceOf(rec)
	cases := []vlib.Case{traceCase(name, rec, ti, npages, tags, descBase)}
	for _, r := range ti.Rules {
		cases = append(cases, ruleCase(name, rec, ti, r, tags, descBase))
	}
	return cases
}

// ------------------------------------------------------------------ drawing boundary documents (gendraw.go)

type written struct {
	Rec    *Rec
	NPages int
	Out    render.Outcome
	Stage  string // "" | render | write
	Tiles  []tileObs
}

// ---- KTile: every laid-out background layer through drawBackgroundImage (hook
// VerifDrawBackgroundImage) on a fresh recording canvas, against Draw/Tiling.v

type tileObs struct {
	Coq   string
	Tags  []string
	Layer map[string]interface{}
}

func cRep(s string) string {
	switch s {
	case "no-repeat":
		return "RNoRepeat"
	case "repeat":
		return "RRepeat"
	case "round":
		return "RRound"
	}
	return "RSpace"
}

func optQ(x Fl) string {
	if !finite(x) {
		return "QBad"
	}
	return "(QV " + vlib.Q32(x) + ")"
}

func tileOf(layer bo.BackgroundLayer, rendering pr.String, fonts string) (t tileObs, ok bool) {
	if layer.Image == nil || layer.Position.Point[0] == nil || layer.Position.Point[1] == nil {
		return t, false
	}
	pos, paint := layer.PositioningArea, layer.PaintingArea
	in := []Fl{Fl(pos[0]), Fl(pos[1]), Fl(pos[2]), Fl(pos[3]), Fl(paint[2]), Fl(paint[3]), Fl(layer.Size[0]), Fl(layer.Size[1]),
		Fl(layer.Position.Point[0].V()), Fl(layer.Position.Point[1].V())}
	if !vlib.Finite32(in...) {
		return t, false // a non finite layer cannot be written as rationals: left to the trace monitor
	}
	rec := NewRec()
	page := rec.AddPage(0, 0, 100, 100)
	o := render.Guard(func() { document.VerifDrawBackgroundImage(page, render.NewFonts(fonts), layer, rendering) })
	if o.Status != "ok" {
		return t, false
	}
	out := "TNothing"
	var group, pattern *Ev
	for i := range rec.Ev {
		e := &rec.Ev[i]
		if e.C != 1 {
			continue
		}
		if e.Op == "CNewGroup" && group == nil {
			group = e
		}
		if e.Op == "CSetColorPattern" && pattern == nil {
			pattern = e
		}
	}
	var got []Fl
	if group != nil && pattern != nil {
		got = []Fl{group.Nums[2], group.Nums[3], pattern.Nums[6], pattern.Nums[7]}
		out = fmt.Sprintf("(TDrawn (mktile_obs %s %s %s %s))", optQ(got[0]), optQ(got[1]), optQ(got[2]), optQ(got[3]))
	}
	ax := func(i int) string {
		return fmt.Sprintf("(mkaxis %s %s %s %s %s %s)", cRep(layer.Repeat.Reps[i]), vlib.Q32(in[i]), vlib.Q32(in[2+i]), vlib.Q32(in[4+i]), vlib.Q32(in[6+i]), vlib.Q32(in[8+i]))
	}
	t.Coq = fmt.Sprintf("KTile %s %s %s", ax(0), ax(1), out)
	t.Tags = []string{"tile", "tile-repeat-x=" + layer.Repeat.Reps[0], "tile-repeat-y=" + layer.Repeat.Reps[1]}
	for i, a := range []string{"x", "y"} {
		if in[6+i] != 0 {
			t.Tags = append(t.Tags, "tiles-"+a+"="+bucket(float64(in[2+i]/in[6+i])))
		} else {
			t.Tags = append(t.Tags, "tile-"+a+"=0")
		}
	}
	t.Layer = map[string]interface{}{"repeat": layer.Repeat.Reps, "positioning_area": pos, "painting_area": paint, "tile_size": layer.Size,
		"position": []Fl{in[8], in[9]}, "received_cell_and_translation": fmt.Sprint(got)}
	return t, true
}

func tilesOf(doc *document.Document, fonts string) (out []tileObs) {
	var walk func(b bo.Box)
	walk = func(b bo.Box) {
		f := b.Box()
		if bg := f.Background; bg != nil {
			for _, l := range bg.Layers {
				if t, ok := tileOf(l, bg.ImageRendering, fonts); ok {
					out = append(out, t)
				}
			}
		}
		for _, c := range b.AllChildren() {
			walk(c)
		}
	}
	for _, p := range doc.Pages {
		walk(document.VerifPageBox(p))
	}
	return out
}

func renderWrite(src string, zoom Fl, wantTiles bool) written {
	var (
		doc *document.Document
		w   written
	)
	w.Out = render.GuardTimeout(20*time.Second, func() {
		h, err := render.ParseHTML(src, true, fetcher)
		if err != nil {
			panic(err)
		}
		d := document.Render(h, nil, false, render.NewFonts("pango"))
		doc = &d
	})
	if w.Out.Status != "ok" {
		w.Stage = "render"
		return w
	}
	w.NPages = len(doc.Pages)
	if wantTiles { // before Write: drawBackground prepends the marks layer to the page background
		render.Guard(func() { w.Tiles = tilesOf(doc, "pango") })
	}
	w.Out = render.GuardTimeout(20*time.Second, func() {
		w.Rec = NewRec()
		doc.Write(w.Rec, zoom, nil)
	})
	if w.Out.Status != "ok" {
		w.Stage = "write"
	}
	return w
}

func ownPanicSite(site string) bool {
	return strings.HasPrefix(site, "html/document/") || strings.HasPrefix(site, "text/draw") || strings.HasPrefix(site, "backend/") || strings.HasPrefix(site, "images/")
}

// runDrawDoc renders a drawing boundary document and returns its trace cases.
// Rule violations seen by the shadow are shrunk: the page alone, then every
// probe alone; a KTraceRule case is emitted for every isolated input that
// still violates the rule (and for the whole document when none does).
func runDrawDoc(name string, d drawDoc, zoom Fl) (cases []vlib.Case, status string) {
	tags := append([]string{"drawdoc", fmt.Sprintf("zoom=%v", zoom)}, d.Tags...)
	fam := map[string]bool{}
	for _, p := range d.Probes {
		fam[p.Tags[0]] = true
	}
	var fams []string
	for f := range fam {
		fams = append(fams, f)
	}
	sort.Strings(fams)
	desc := func(src string, probe interface{}) func(map[string]interface{}) map[string]interface{} {
		return func(extra map[string]interface{}) map[string]interface{} {
			m := map[string]interface{}{"doc": name, "html": src, "zoom": zoom, "probe": probe}
			for k, v := range extra {
				m[k] = v
			}
			return m
		}
	}
	full := d.html(-1)
	w := renderWrite(full, zoom, true)
	panicCase := func(src string, w written, tags []string, probe interface{}) vlib.Case {
		return vlib.Case{Kind: "write-panic", Coq: fmt.Sprintf("KTrace %d [] []", w.NPages+1), Tags: append(append([]string(nil), tags...), "panic"),
			Desc: desc(src, probe)(map[string]interface{}{"outcome": w.Out}), Nontrivial: true}
	}
	if w.Stage == "render" {
		return nil, "draw-render-" + w.Out.Status // layout crashes / hangs belong to C01
	}
	seenTile := map[string]bool{}
	for _, t := range w.Tiles {
		if seenTile[t.Coq] {
			continue
		}
		seenTile[t.Coq] = true
		cases = append(cases, vlib.Case{Kind: "tile", Coq: t.Coq, Tags: append(append([]string(nil), tags...), t.Tags...),
			Desc: desc(full, nil)(map[string]interface{}{"layer": t.Layer}), Nontrivial: true})
	}
	if w.Stage == "write" {
		if w.Out.Status == "panic" && w.Out.Msg != runawayMsg && ownPanicSite(w.Out.Site) {
			// shrink: the first probe that panics alone
			for i, p := range d.Probes {
				src := d.html(i)
				if wi := renderWrite(src, zoom, false); wi.Stage == "write" && wi.Out.Status == "panic" && wi.Out.Msg != runawayMsg && ownPanicSite(wi.Out.Site) {
					return append(cases, panicCase(src, wi, append(append([]string(nil), tags...), p.Tags...), p.HTML)), "draw-write-panic"
				}
			}
			return append(cases, panicCase(full, w, append(tags, fams...), nil)), "draw-write-panic"
		}
		return cases, "draw-write-" + w.Out.Status + "@" + w.Out.Site
	}
	ti := traceOf(w.Rec)
	cases = append(cases, traceCase(name, w.Rec, ti, w.NPages, append(append([]string(nil), tags...), fams...), desc(full, nil)))
	if len(ti.Rules) == 0 {
		return cases, "draw-ok"
	}
	found, byPage, nShrunk := map[int]bool{}, map[int]bool{}, map[int]int{}
	try := func(key string, src string, ptags []string, probe interface{}) {
		wi := renderWrite(src, zoom, false)
		if wi.Stage != "" {
			return
		}
		tii := traceOf(wi.Rec)
		for _, r := range ti.Rules {
			if tii.has(r) && !byPage[r] && nShrunk[r] < 2 { // at most two isolated inputs per rule and document
				nShrunk[r]++
				found[r] = true
				cases = append(cases, ruleCase(name+"/"+key, wi.Rec, tii, r, append(append([]string(nil), tags...), ptags...), desc(src, probe)))
			}
		}
	}
	try("page", d.html(-2), []string{"probe=none"}, "(no probe: page level style only)")
	all := true
	for _, r := range ti.Rules {
		byPage[r] = found[r]
		all = all && found[r]
	}
	if !all { // the page alone does not explain every rule
		for i, p := range d.Probes {
			try(fmt.Sprintf("probe-%d", i), d.html(i), p.Tags, p.HTML)
		}
	}
	for _, r := range ti.Rules {
		if !found[r] {
			cases = append(cases, ruleCase(name, w.Rec, ti, r, append(append(append([]string(nil), tags...), fams...), "unshrunk"), desc(full, nil)))
		}
	}
	return cases, "draw-violations"
}

// ------------------------------------------------------------------ documents

// the box fields gatherLinksAndBookmarks reads, in pre-order.  Geometry: the hit
// area of the box (position, and [x, y, x+w, y+h] in float32); it is what the
// implementation must store when no CSS transform applies to the box or an
// ancestor (`exact` is false when a dumped box lies under a transform: the
// check then compares names only, matrices are C17's).
func dumpBoxes(page *bo.PageBox) (coq string, n int, exact bool) {
	var items []string
	exact = true
	var walk func(b bo.Box, underT bool)
	walk = func(b bo.Box, underT bool) {
		f := b.Box()
		if document.VerifHasTransform(b) {
			underT = true
		}
		anchor := string(f.Style.GetAnchor())
		link := f.Style.GetLink()
		ls := "None"
		if !link.IsNone() {
			ls = fmt.Sprintf("(Some (%s, %s))", cLtype(link.Name), cName(link.String))
		}
		level := 0
		if lvl := f.Style.GetBookmarkLevel(); lvl.Tag != pr.None {
			level = lvl.I
		}
		textline := bo.TextT.IsInstance(b) || bo.LineT.IsInstance(b)
		if anchor != "" || !link.IsNone() || f.BookmarkLabel != "" {
			x, y, w, h := bo.HitArea(b).Unpack()
			px, py, pw, ph := Fl(x), Fl(y), Fl(w), Fl(h)
			geom := "zero_pos zero_rect"
			if underT || !vlib.Finite32(px, py, pw, ph, px+pw, py+ph) {
				exact = false
			} else {
				geom = fmt.Sprintf("%s %s", cPos(px, py), cRect([4]Fl{px, py, px + pw, py + ph}))
			}
			items = append(items, fmt.Sprintf("(mkbox %s %s %s %s %s %s %s %s)", cName(anchor), ls, vlib.Bool(textline),
				vlib.Bool(f.IsAttachment()), cName(f.BookmarkLabel), vlib.Z(level), vlib.Bool(f.Style.GetBookmarkState() == "open"), geom))
		}
		for _, c := range b.AllChildren() {
			walk(c, underT)
		}
	}
	walk(page, false)
	return "[" + strings.Join(items, "; ") + "]", len(items), exact
}

type metaEl struct {
	Kind, A, B string
	Date       *int64
}

func attr(n *html.Node, key string) string {
	for _, a := range n.Attr {
		if a.Key == key {
			return a.Val
		}
	}
	return ""
}

const htmlWS = " \t\n\f\r"

// independent reading of a W3C date (http://www.w3.org/TR/NOTE-datetime)
func w3cDate(s string) *int64 {
	s = strings.Trim(s, htmlWS)
	for _, layout := range []string{"2006", "2006-01", "2006-01-02", "2006-01-02T15:04Z07:00", "2006-01-02T15:04:05Z07:00", "2006-01-02T15:04:05.999999999Z07:00"} {
		if t, err := time.Parse(layout, s); err == nil {
			if t.IsZero() {
				return nil
			}
			u := t.Unix()
			return &u
		}
	}
	return nil
}

// the <title>, <meta>, <link rel=attachment> elements of the DOM, in document order
func domMeta(src string) []metaEl {
	root, err := html.ParseWithOptions(strings.NewReader(src), html.ParseOptionEnableScripting(false))
	if err != nil {
		return nil
	}
	var out []metaEl
	var walk func(n *html.Node)
	walk = func(n *html.Node) {
		if n.Type == html.ElementNode {
			switch n.Data {
			case "title":
				var t string
				for c := n.FirstChild; c != nil; c = c.NextSibling {
					if c.Type == html.TextNode {
						t += c.Data
					}
				}
				out = append(out, metaEl{Kind: "title", A: t})
			case "meta":
				content := attr(n, "content")
				out = append(out, metaEl{Kind: "meta", A: attr(n, "name"), B: content, Date: w3cDate(content)})
			case "link":
				isAtt := false
				for _, tok := range strings.FieldsFunc(attr(n, "rel"), func(r rune) bool { return strings.ContainsRune(htmlWS, r) }) {
					if strings.EqualFold(tok, "attachment") {
						isAtt = true
					}
				}
				if isAtt {
					out = append(out, metaEl{Kind: "attach", A: attr(n, "href"), B: attr(n, "title")})
				}
			}
		}
		for c := n.FirstChild; c != nil; c = c.NextSibling {
			walk(c)
		}
	}
	walk(root)
	return out
}

func cMetaEl(e metaEl) string {
	switch e.Kind {
	case "title":
		return fmt.Sprintf("(MTitle %s)", cName(e.A))
	case "meta":
		d := "None"
		if e.Date != nil {
			d = fmt.Sprintf("(Some %s%%Z)", vlib.Z(int(*e.Date)))
		}
		return fmt.Sprintf("(MMeta %s %s %s)", cName(e.A), cName(e.B), d)
	}
	return fmt.Sprintf("(MAttach %s %s)", cName(e.A), cName(e.B))
}

func cTimeOpt(t time.Time) string {
	if t.IsZero() {
		return "None"
	}
	return fmt.Sprintf("(Some %s%%Z)", vlib.Z(int(t.Unix())))
}

func first(l []string) string {
	if len(l) == 0 {
		return ""
	}
	return l[0]
}

type docInput struct {
	Name  string
	HTML  string
	Gen   *genDoc
	Zoom  Fl
	Fonts string
}

var zooms = []Fl{1, 1, 0.5, 2, 2, 0.25, 1.5}

// runDocument renders one document and returns its cases.
func runDocument(in docInput) (cases []vlib.Case, status string) {
	var (
		doc  *document.Document
		rec  *Rec
		tags []string
	)
	if in.Gen != nil {
		for t := range in.Gen.Tags {
			tags = append(tags, t)
		}
		sort.Strings(tags)
	}
	tags = append(tags, fmt.Sprintf("zoom=%v", in.Zoom))
	descBase := func(extra map[string]interface{}) map[string]interface{} {
		m := map[string]interface{}{"doc": in.Name, "html": in.HTML, "zoom": in.Zoom}
		for k, v := range extra {
			m[k] = v
		}
		return m
	}
	o := render.GuardTimeout(20*time.Second, func() {
		h, err := render.ParseHTML(in.HTML, true, fetcher)
		if err != nil {
			panic(err)
		}
		d := document.Render(h, nil, false, render.NewFonts(in.Fonts))
		doc = &d
	})
	if o.Status != "ok" {
		// layout crashes / hangs belong to C01; a crash inside html/document/document.go is ours
		if strings.HasPrefix(o.Site, "html/document/document.go") {
			cases = append(cases, vlib.Case{Kind: "render-panic", Coq: "KTrace 1 [] []", Tags: append(tags, "panic"),
				Desc: descBase(map[string]interface{}{"outcome": o}), Nontrivial: true})
		}
		return cases, "render-" + o.Status
	}
	// structural tags computed from the laid-out document: pages of different sizes, and
	// whether a page after the first, of another height than the first, carries links / anchors
	for _, p := range doc.Pages {
		if p.Height != doc.Pages[0].Height {
			tags = append(tags, "page-heights-differ")
			break
		}
	}
	for _, p := range doc.Pages {
		if p.Width != doc.Pages[0].Width {
			tags = append(tags, "page-widths-differ")
			break
		}
	}
	vp := document.VerifPages(doc)
	for i, p := range doc.Pages {
		if i < len(vp) && p.Height != doc.Pages[0].Height && len(vp[i].Links)+len(vp[i].Anchors) > 0 {
			tags = append(tags, "links-on-page-of-other-height")
			break
		}
	}
	if !finitePagesData(vp) {
		// a non finite position cannot be written as a rational: the trace monitor reports it
		tags = append(tags, "nonfinite-geometry")
	}

	// KGather: boxes of every page against what newPage gathered
	{
		var bs []string
		nb, exact := 0, true
		for _, p := range doc.Pages {
			s, n, ex := dumpBoxes(document.VerifPageBox(p))
			bs = append(bs, s)
			nb += n
			exact = exact && ex
		}
		gtags := tags
		if !exact {
			gtags = append(append([]string(nil), tags...), "gather-names-only")
		}
		if finitePagesData(vp) {
			cases = append(cases, vlib.Case{Kind: "gather", Coq: fmt.Sprintf("KGather %s %s %s", vlib.Bool(exact), vlib.List(bs), mapS(vp, cPage)),
				Desc: descBase(map[string]interface{}{"gathered": vp, "geometry_compared": exact}), Tags: gtags, Nontrivial: nb > 0})
		}
		// KGatherT: when an id / link / bookmark lies under a CSS transform, the same
		// data with the tree and the own matrices: geometry under the transform stack
		if !exact && finitePagesData(vp) {
			var ts []string
			under, depth, after, finite := 0, 0, false, true
			for _, p := range doc.Pages {
				s, st := dumpTree(document.VerifPageBox(p))
				ts = append(ts, s)
				under += st.underT
				if st.maxDepth > depth {
					depth = st.maxDepth
				}
				after = after || st.afterNested
				finite = finite && st.finite
			}
			if finite && under > 0 {
				ttags := append(append([]string(nil), tags...), "gather-transform", fmt.Sprintf("tf-depth=%d", depth))
				if after {
					ttags = append(ttags, "tf-info-after-nested")
				}
				cases = append(cases, vlib.Case{Kind: "gather-tf", Coq: fmt.Sprintf("KGatherT %s %s", vlib.List(ts), mapS(vp, cPage)),
					Desc: descBase(map[string]interface{}{"gathered": vp, "boxes_under_transform": under, "transform_depth": depth}), Tags: ttags, Nontrivial: true})
			}
		}
	}

	// write
	o = render.GuardTimeout(20*time.Second, func() {
		rec = NewRec()
		doc.Write(rec, in.Zoom, nil)
	})
	if o.Status != "ok" {
		if o.Msg == runawayMsg {
			return cases, "write-runaway"
		}
		if strings.HasPrefix(o.Site, "html/document/document.go") || strings.HasPrefix(o.Site, "text/draw") || strings.HasPrefix(o.Site, "backend/") {
			cases = append(cases, vlib.Case{Kind: "write-panic", Coq: fmt.Sprintf("KTrace %d [] []", len(doc.Pages)+1), Tags: append(tags, "panic"),
				Desc: descBase(map[string]interface{}{"outcome": o}), Nontrivial: true})
		}
		return cases, "write-" + o.Status
	}

	// KTrace (+ one KTraceRule per rule the harness side shadow saw violated)
	cases = append(cases, traceCases(in.Name, rec, len(doc.Pages), tags, descBase)...)

	// KDoc
	if finitePagesData(vp) && recFinite(rec) && rec.GotAnch && rec.GotBk && len(rec.Pages) == len(doc.Pages) {
		var geoms, rps []string
		for i, p := range doc.Pages {
			geoms = append(geoms, fmt.Sprintf("(mkgeom %s %s %s %s %s %s)", vlib.Q32(p.Width), vlib.Q32(p.Height),
				vlib.Q32(Fl(p.Bleed.Left)), vlib.Q32(Fl(p.Bleed.Top)), vlib.Q32(Fl(p.Bleed.Right)), vlib.Q32(Fl(p.Bleed.Bottom))))
			var anchors []backend.Anchor
			if i < len(rec.Anchors) {
				anchors = rec.Anchors[i]
			}
			boxes := make([]string, len(rec.Boxes[i]))
			for j, b := range rec.Boxes[i] {
				boxes[j] = cRect(b.R)
			}
			rps = append(rps, fmt.Sprintf("(mkrpage %s %s %s %s)", cRect(rec.PageArgs[i]), mapS(rec.Links[i], cRecLink),
				mapS(anchors, func(a backend.Anchor) string { return cAnchor(a.Name, a.X, a.Y) }), vlib.List(boxes)))
		}
		nl := 0
		for _, l := range rec.Links {
			nl += len(l)
		}
		cases = append(cases, vlib.Case{Kind: "doc", Coq: fmt.Sprintf("KDoc %s %s %s %s %s", vlib.Q32(in.Zoom), mapS(vp, cPage), vlib.List(geoms), vlib.List(rps), mapS(rec.Bookmarks, cNode)),
			Desc: descBase(map[string]interface{}{"gathered": vp, "links": rec.Links, "anchors": rec.Anchors, "outline": outlineDesc(rec.Bookmarks), "addpage": rec.PageArgs}),
			Tags: tags, Nontrivial: nl+len(rec.Bookmarks) > 0})
	}

	// KMeta
	{
		els := domMeta(in.HTML)
		atts := make([]string, len(doc.Metadata.Attachments))
		for i, a := range doc.Metadata.Attachments {
			atts[i] = fmt.Sprintf("(%s, %s)", cName(a.URL), cName(a.Title))
		}
		out := fmt.Sprintf("(mkmeta %s %s %s %s %s %s %s %s)", cName(first(rec.Meta["title"])), cName(first(rec.Meta["description"])),
			cName(first(rec.Meta["generator"])), mapS(rec.Meta["authors"], cName), mapS(rec.Meta["keywords"], cName),
			cTimeOpt(rec.Created), cTimeOpt(rec.Modified), vlib.List(atts))
		cases = append(cases, vlib.Case{Kind: "meta", Coq: fmt.Sprintf("KMeta %s %s", mapS(els, cMetaEl), out),
			Desc: descBase(map[string]interface{}{"elements": els, "received": rec.Meta, "created": rec.Created, "modified": rec.Modified, "attachments": doc.Metadata.Attachments}),
			Tags: tags, Nontrivial: len(els) > 0})
	}

	// KExpect
	if g := in.Gen; g != nil && g.Exact && rec.GotAnch {
		if len(g.Pages) != len(doc.Pages) {
			status = "expect-skipped-pagecount"
		} else {
			gen := mapS(g.Pages, func(items []gItem) string {
				return mapS(items, func(it gItem) string {
					switch it.Kind {
					case "id":
						return fmt.Sprintf("(GId %s)", cName(it.Name))
					case "link":
						return fmt.Sprintf("(GLink %s %s)", cLtype(it.LType), cName(it.Name))
					}
					return fmt.Sprintf("(GHead %s %s)", vlib.Z(it.Level), cName(it.Name))
				})
			})
			anch := mapS(rec.Anchors, func(l []backend.Anchor) string {
				return mapS(l, func(a backend.Anchor) string { return cName(a.Name) })
			})
			lks := mapS(rec.Links, func(l []RecLink) string {
				return mapS(l, func(x RecLink) string {
					return fmt.Sprintf("(mklink %s %s zero_rect)", cLtype(x.Kind), cName(x.Target))
				})
			})
			cases = append(cases, vlib.Case{Kind: "expect", Coq: fmt.Sprintf("KExpect %s %s %s %s", gen, anch, lks, mapS(rec.Bookmarks, cNodeNames)),
				Desc: descBase(map[string]interface{}{"generated": g.Pages, "links": rec.Links, "anchors": rec.Anchors, "outline": outlineDesc(rec.Bookmarks)}),
				Tags: tags, Nontrivial: true})
		}
	}
	if status == "" {
		status = "ok"
	}
	return cases, status
}

func cNodeNames(n backend.BookmarkNode) string {
	return fmt.Sprintf("(Node (mkentry 0 %s %s zero_pos true) %s)", cName(n.Label), vlib.Z(n.PageIndex), mapS(n.Children, cNodeNames))
}

func recFinite(rec *Rec) bool {
	for _, a := range rec.PageArgs {
		if !vlib.Finite32(a[:]...) {
			return false
		}
	}
	for _, l := range rec.Links {
		for _, x := range l {
			if !vlib.Finite32(x.R[:]...) {
				return false
			}
		}
	}
	for _, l := range rec.Anchors {
		for _, a := range l {
			if !vlib.Finite32(a.X, a.Y) {
				return false
			}
		}
	}
	for _, l := range rec.Boxes {
		for _, b := range l {
			if !vlib.Finite32(b.R[:]...) {
				return false
			}
		}
	}
	ok := true
	var walk func(l []backend.BookmarkNode)
	walk = func(l []backend.BookmarkNode) {
		for _, n := range l {
			if !vlib.Finite32(n.X, n.Y) {
				ok = false
			}
			walk(n.Children)
		}
	}
	walk(rec.Bookmarks)
	return ok
}

func main() {
	out := flag.String("out", "cases.jsonl", "output file")
	n := flag.Int("n", 1500, "number of cases")
	probe := flag.String("probe", "", "html file to render and dump")
	flag.Parse()
	if *probe != "" {
		b, _ := os.ReadFile(*probe)
		cs, st := runDocument(docInput{Name: *probe, HTML: string(b), Zoom: 1, Fonts: "pango"})
		fmt.Println("status", st)
		for _, c := range cs {
			fmt.Println(c.Kind, c.Tags)
			fmt.Println(c.Coq)
		}
		return
	}
	// a runaway allocation inside /repo must fail fast instead of swapping the machine
	_ = syscall.Setrlimit(syscall.RLIMIT_AS, &syscall.Rlimit{Cur: 8 << 30, Max: 8 << 30})
	rng := vlib.NewRng(vlib.Seed())
	debug := os.Getenv("VERIF_C14_DEBUG") != ""
	w := vlib.NewWriter(*out)
	defer w.Close()
	stats := map[string]int{}

	// corpus first
	files, _ := filepath.Glob("/verif/corpus/C14/*.html")
	sort.Strings(files)
	for _, f := range files {
		b, err := os.ReadFile(f)
		if err != nil {
			continue
		}
		for _, z := range []Fl{1, 2} {
			cs, st := runDocument(docInput{Name: "corpus/" + filepath.Base(f), HTML: string(b), Zoom: z, Fonts: "pango"})
			stats[st]++
			for _, c := range cs {
				c.Tags = append(c.Tags, "corpus")
				w.Add(c)
			}
		}
	}

	nd, ndd := 0, 0
	for w.N() < *n {
		r := rng.Fork()
		switch k := r.Intn(13); {
		case k <= 2:
			w.Add(genResolve(r))
		case k <= 5:
			w.Add(genBookmarks(r))
		case k <= 8:
			d := genDrawDoc(r)
			ndd++
			if debug {
				fmt.Fprintf(os.Stderr, "draw-%d\n%s\n", ndd, d.html(-1))
			}
			cs, st := runDrawDoc(fmt.Sprintf("draw-%d", ndd), d, vlib.Pick(r, zooms))
			stats[st]++
			if debug {
				fmt.Fprintf(os.Stderr, "status draw-%d %s\n", ndd, st)
			}
			for _, c := range cs {
				w.Add(c)
			}
		default:
			g := genDocument(r)
			nd++
			fonts := "pango"
			cs, st := runDocument(docInput{Name: fmt.Sprintf("gen-%d", nd), HTML: g.HTML, Gen: &g, Zoom: vlib.Pick(r, zooms), Fonts: fonts})
			stats[st]++
			for _, c := range cs {
				w.Add(c)
			}
		}
	}
	fmt.Fprintf(os.Stderr, "c14: %d cases, %d generated documents, %d drawing boundary documents, outcomes %v\n", w.N(), nd, ndd, stats)
}
