// Harness for C14: runs /repo's link / anchor / bookmark / metadata code and the
// whole Document.Write on a recording backend, and writes cases as Coq terms of
// type Check.C14.case (input + what the implementation produced).
//
// Streams: corpus documents (corpus/C14/*.html) first, then a mix of
//   - synthetic page data through the hooks VerifResolveLinks / VerifMakeBookmarkTree
//     (structured + boundary: levels <= 0, empty pages, duplicate names across pages),
//   - generated documents (forced pages; ids, links, headings, metadata, decorations,
//     images, inline SVG) rendered with /repo's pipeline and written at a zoom.
package main

import (
	"bytes"
	"flag"
	"fmt"
	"os"
	"path/filepath"
	"sort"
	"strings"
	"time"

	"verifharness/vlib"
	"verifharness/vlib/render"

	"github.com/benoitkugler/webrender/backend"
	pr "github.com/benoitkugler/webrender/css/properties"
	bo "github.com/benoitkugler/webrender/html/boxes"
	"github.com/benoitkugler/webrender/html/document"
	"github.com/benoitkugler/webrender/utils"
	"golang.org/x/net/html"
)

// ------------------------------------------------------------------ fetcher

func fetcher(url string) (utils.RemoteRessource, error) {
	switch {
	case strings.HasPrefix(strings.ToLower(url), "data:"):
		return utils.DefaultUrlFetcher(url)
	case strings.HasPrefix(url, "http://verif.test/f/"):
		return utils.RemoteRessource{Content: bytes.NewReader([]byte("content of " + url)), MimeType: "text/plain", RedirectedUrl: url}, nil
	}
	return utils.RemoteRessource{}, fmt.Errorf("offline: %s", url)
}

// ------------------------------------------------------------------ synthetic streams

func rpos(r *vlib.Rng) Fl {
	switch r.Intn(4) {
	case 0:
		return Fl(r.Range(0, 800))
	case 1:
		return Fl(r.Range(0, 6400)) / 8
	case 2:
		return Fl(r.Float01() * 1000)
	}
	return Fl(r.Range(-50, 50))
}

func genResolve(r *vlib.Rng) vlib.Case {
	names := []string{"a", "b", "c", "d", "e", "f", "long-name", "", "A", "a b"}
	names = names[:r.Range(1, len(names))]
	nPages := vlib.Pick(r, []int{0, 1, 1, 2, 3, 4, 6})
	pages := make([]document.VerifPageData, nPages)
	dup, dangling, internal := false, false, 0
	defined := map[string]bool{}
	for i := range pages {
		perm := append([]string(nil), names...)
		for j := len(perm) - 1; j > 0; j-- {
			k := r.Intn(j + 1)
			perm[j], perm[k] = perm[k], perm[j]
		}
		for _, n := range perm[:r.Range(0, len(perm))] {
			if defined[n] {
				dup = true
			}
			defined[n] = true
			pages[i].Anchors = append(pages[i].Anchors, document.VerifAnchor{Name: n, X: rpos(r), Y: rpos(r)})
		}
	}
	for i := range pages {
		for j, m := 0, r.Range(0, 5); j < m; j++ {
			l := document.Link{Rectangle: [4]Fl{rpos(r), rpos(r), rpos(r), rpos(r)}}
			switch r.Intn(8) {
			case 0, 1, 2, 3:
				l.Type = "internal"
				l.Target = vlib.Pick(r, []string{"a", "b", "c", "d", "e", "f", "long-name", "", "A", "a b", "zz"})
				internal++
				if !defined[l.Target] {
					dangling = true
				}
			case 4, 5:
				l.Type, l.Target = "external", vlib.Pick(r, []string{"http://x.test/", "a", "zz", ""})
			case 6:
				l.Type, l.Target = "attachment", vlib.Pick(r, []string{"http://x.test/f", "a", "zz"})
			default:
				l.Type, l.Target = vlib.Pick(r, []string{"", "Internal", "weird"}), vlib.Pick(r, []string{"a", "zz"})
			}
			pages[i].Links = append(pages[i].Links, l)
		}
	}
	links, anchors := document.VerifResolveLinks(pages)
	ol := mapS(links, func(l []document.Link) string { return mapS(l, cLink) })
	oa := mapS(anchors, func(l []backend.Anchor) string {
		return mapS(l, func(a backend.Anchor) string { return cAnchor(a.Name, a.X, a.Y) })
	})
	var tags []string
	if dup {
		tags = append(tags, "dup-across-pages")
	}
	if dangling {
		tags = append(tags, "dangling")
	}
	return vlib.Case{Kind: "resolve", Coq: fmt.Sprintf("KResolve %s %s %s", mapS(pages, cPage), ol, oa),
		Desc: map[string]interface{}{"pages": pages, "links": links, "anchors": anchors}, Tags: tags,
		Nontrivial: nPages > 0 && internal > 0}
}

func genBookmarks(r *vlib.Rng) vlib.Case {
	nPages := vlib.Pick(r, []int{1, 1, 2, 3, 5})
	pages := make([]document.VerifPageData, nPages)
	mode := r.Intn(10)
	total, k := 0, 0
	var levels []int
	prev := 1
	for i := range pages {
		for j, m := 0, r.Range(0, 7); j < m; j++ {
			var lvl int
			switch {
			case mode == 0: // boundary: any small integer, including <= 0
				lvl = r.Range(-2, 4)
			case mode == 1: // wide jumps
				lvl = vlib.Pick(r, []int{1, 2, 9, 100, 1 << 20, 3})
			case mode <= 4: // walk: small steps around the previous level
				lvl = prev + r.Range(-2, 2)
				if lvl < 1 {
					lvl = 1
				}
			default:
				lvl = r.Range(1, 6)
			}
			prev = lvl
			k++
			label := fmt.Sprintf("b%d", k)
			if r.Chance(1, 12) {
				label = "dup"
			}
			pages[i].Bookmarks = append(pages[i].Bookmarks, document.VerifBookmark{Level: lvl, Label: label, X: rpos(r), Y: rpos(r), Open: r.Bool()})
			levels = append(levels, lvl)
			total++
		}
	}
	var root []backend.BookmarkNode
	o := render.Guard(func() { root = document.VerifMakeBookmarkTree(pages) })
	out := "BPanic"
	tags := []string{}
	if o.Status == "ok" {
		out = "(BForest " + mapS(root, cNode) + ")"
	} else {
		tags = append(tags, "panic")
	}
	bad := false
	for _, l := range levels {
		if l < 1 {
			bad = true
		}
	}
	if bad {
		tags = append(tags, "level<1")
	}
	in := mapS(pages, func(p document.VerifPageData) string { return mapS(p.Bookmarks, cBookmark) })
	return vlib.Case{Kind: "bookmarks", Coq: fmt.Sprintf("KBookmarks %s %s", in, out),
		Desc: map[string]interface{}{"levels": levels, "pages": nPages, "outcome": o, "outline": outlineDesc(root)}, Tags: tags,
		Nontrivial: total >= 2}
}

// ------------------------------------------------------------------ documents

// the box fields gatherLinksAndBookmarks reads, in pre-order.  Geometry: the hit
// area of the box (position, and [x, y, x+w, y+h] in float32); it is what the
// implementation must store when no CSS transform applies to the box or an
// ancestor (`exact` is false when a dumped box lies under a transform: the
// check then compares names only, matrices are C17's).
func dumpBoxes(page *bo.PageBox) (coq string, n int, exact bool) {
	var items []string
	exact = true
	var walk func(b bo.Box, underT bool)
	walk = func(b bo.Box, underT bool) {
		f := b.Box()
		if document.VerifHasTransform(b) {
			underT = true
		}
		anchor := string(f.Style.GetAnchor())
		link := f.Style.GetLink()
		ls := "None"
		if !link.IsNone() {
			ls = fmt.Sprintf("(Some (%s, %s))", cLtype(link.Name), cName(link.String))
		}
		level := 0
		if lvl := f.Style.GetBookmarkLevel(); lvl.Tag != pr.None {
			level = lvl.I
		}
		textline := bo.TextT.IsInstance(b) || bo.LineT.IsInstance(b)
		if anchor != "" || !link.IsNone() || f.BookmarkLabel != "" {
			x, y, w, h := bo.HitArea(b).Unpack()
			px, py, pw, ph := Fl(x), Fl(y), Fl(w), Fl(h)
			geom := "zero_pos zero_rect"
			if underT || !vlib.Finite32(px, py, pw, ph, px+pw, py+ph) {
				exact = false
			} else {
				geom = fmt.Sprintf("%s %s", cPos(px, py), cRect([4]Fl{px, py, px + pw, py + ph}))
			}
			items = append(items, fmt.Sprintf("(mkbox %s %s %s %s %s %s %s %s)", cName(anchor), ls, vlib.Bool(textline),
				vlib.Bool(f.IsAttachment()), cName(f.BookmarkLabel), vlib.Z(level), vlib.Bool(f.Style.GetBookmarkState() == "open"), geom))
		}
		for _, c := range b.AllChildren() {
			walk(c, underT)
		}
	}
	walk(page, false)
	return "[" + strings.Join(items, "; ") + "]", len(items), exact
}

type metaEl struct {
	Kind, A, B string
	Date       *int64
}

func attr(n *html.Node, key string) string {
	for _, a := range n.Attr {
		if a.Key == key {
			return a.Val
		}
	}
	return ""
}

const htmlWS = " \t\n\f\r"

// independent reading of a W3C date (http://www.w3.org/TR/NOTE-datetime)
func w3cDate(s string) *int64 {
	s = strings.Trim(s, htmlWS)
	for _, layout := range []string{"2006", "2006-01", "2006-01-02", "2006-01-02T15:04Z07:00", "2006-01-02T15:04:05Z07:00", "2006-01-02T15:04:05.999999999Z07:00"} {
		if t, err := time.Parse(layout, s); err == nil {
			if t.IsZero() {
				return nil
			}
			u := t.Unix()
			return &u
		}
	}
	return nil
}

// the <title>, <meta>, <link rel=attachment> elements of the DOM, in document order
func domMeta(src string) []metaEl {
	root, err := html.ParseWithOptions(strings.NewReader(src), html.ParseOptionEnableScripting(false))
	if err != nil {
		return nil
	}
	var out []metaEl
	var walk func(n *html.Node)
	walk = func(n *html.Node) {
		if n.Type == html.ElementNode {
			switch n.Data {
			case "title":
				var t string
				for c := n.FirstChild; c != nil; c = c.NextSibling {
					if c.Type == html.TextNode {
						t += c.Data
					}
				}
				out = append(out, metaEl{Kind: "title", A: t})
			case "meta":
				content := attr(n, "content")
				out = append(out, metaEl{Kind: "meta", A: attr(n, "name"), B: content, Date: w3cDate(content)})
			case "link":
				isAtt := false
				for _, tok := range strings.FieldsFunc(attr(n, "rel"), func(r rune) bool { return strings.ContainsRune(htmlWS, r) }) {
					if strings.EqualFold(tok, "attachment") {
						isAtt = true
					}
				}
				if isAtt {
					out = append(out, metaEl{Kind: "attach", A: attr(n, "href"), B: attr(n, "title")})
				}
			}
		}
		for c := n.FirstChild; c != nil; c = c.NextSibling {
			walk(c)
		}
	}
	walk(root)
	return out
}

func cMetaEl(e metaEl) string {
	switch e.Kind {
	case "title":
		return fmt.Sprintf("(MTitle %s)", cName(e.A))
	case "meta":
		d := "None"
		if e.Date != nil {
			d = fmt.Sprintf("(Some %s%%Z)", vlib.Z(int(*e.Date)))
		}
		return fmt.Sprintf("(MMeta %s %s %s)", cName(e.A), cName(e.B), d)
	}
	return fmt.Sprintf("(MAttach %s %s)", cName(e.A), cName(e.B))
}

func cTimeOpt(t time.Time) string {
	if t.IsZero() {
		return "None"
	}
	return fmt.Sprintf("(Some %s%%Z)", vlib.Z(int(t.Unix())))
}

func first(l []string) string {
	if len(l) == 0 {
		return ""
	}
	return l[0]
}

type docInput struct {
	Name  string
	HTML  string
	Gen   *genDoc
	Zoom  Fl
	Fonts string
}

var zooms = []Fl{1, 1, 0.5, 2, 2, 0.25, 1.5}

// runDocument renders one document and returns its cases.
func runDocument(in docInput) (cases []vlib.Case, status string) {
	var (
		doc  *document.Document
		rec  *Rec
		tags []string
	)
	if in.Gen != nil {
		for t := range in.Gen.Tags {
			tags = append(tags, t)
		}
		sort.Strings(tags)
	}
	tags = append(tags, fmt.Sprintf("zoom=%v", in.Zoom))
	descBase := func(extra map[string]interface{}) map[string]interface{} {
		m := map[string]interface{}{"doc": in.Name, "html": in.HTML, "zoom": in.Zoom}
		for k, v := range extra {
			m[k] = v
		}
		return m
	}
	o := render.GuardTimeout(20*time.Second, func() {
		h, err := render.ParseHTML(in.HTML, true, fetcher)
		if err != nil {
			panic(err)
		}
		d := document.Render(h, nil, false, render.NewFonts(in.Fonts))
		doc = &d
	})
	if o.Status != "ok" {
		// layout crashes / hangs belong to C01; a crash inside html/document/document.go is ours
		if strings.HasPrefix(o.Site, "html/document/document.go") {
			cases = append(cases, vlib.Case{Kind: "render-panic", Coq: "KTrace 1 [] []", Tags: append(tags, "panic"),
				Desc: descBase(map[string]interface{}{"outcome": o}), Nontrivial: true})
		}
		return cases, "render-" + o.Status
	}
	vp := document.VerifPages(doc)
	if !finitePagesData(vp) {
		// a non finite position cannot be written as a rational: the trace monitor reports it
		tags = append(tags, "nonfinite-geometry")
	}

	// KGather: boxes of every page against what newPage gathered
	{
		var bs []string
		nb, exact := 0, true
		for _, p := range doc.Pages {
			s, n, ex := dumpBoxes(document.VerifPageBox(p))
			bs = append(bs, s)
			nb += n
			exact = exact && ex
		}
		gtags := tags
		if !exact {
			gtags = append(append([]string(nil), tags...), "gather-names-only")
		}
		if finitePagesData(vp) {
			cases = append(cases, vlib.Case{Kind: "gather", Coq: fmt.Sprintf("KGather %s %s %s", vlib.Bool(exact), vlib.List(bs), mapS(vp, cPage)),
				Desc: descBase(map[string]interface{}{"gathered": vp, "geometry_compared": exact}), Tags: gtags, Nontrivial: nb > 0})
		}
	}

	// write
	o = render.GuardTimeout(20*time.Second, func() {
		rec = NewRec()
		doc.Write(rec, in.Zoom, nil)
	})
	if o.Status != "ok" {
		if strings.HasPrefix(o.Site, "html/document/document.go") || strings.HasPrefix(o.Site, "text/draw") || strings.HasPrefix(o.Site, "backend/") {
			cases = append(cases, vlib.Case{Kind: "write-panic", Coq: fmt.Sprintf("KTrace %d [] []", len(doc.Pages)+1), Tags: append(tags, "panic"),
				Desc: descBase(map[string]interface{}{"outcome": o}), Nontrivial: true})
		}
		return cases, "write-" + o.Status
	}

	// KTrace (+ one KTraceRule per rule the harness side shadow saw violated)
	{
		calls := make([]string, len(rec.Ev))
		for i, e := range rec.Ev {
			calls[i] = e.Coq()
		}
		// a very long trace (e.g. thousands of wave segments) overflows coqc's stack:
		// the monitor then runs on a prefix (sound: acceptance is prefix closed,
		// C14_protocol_prefix_closed; the page count / balance test is dropped)
		const maxCalls = 8000
		truncated := len(calls) > maxCalls
		if truncated {
			calls = calls[:maxCalls]
		}
		trace := vlib.List(calls)
		byRule := map[int][]string{}
		var rules []int
		for _, v := range rec.shadow() {
			if byRule[v.Rule] == nil {
				rules = append(rules, v.Rule)
			}
			byRule[v.Rule] = append(byRule[v.Rule], fmt.Sprintf("call %d %s: %s [%s]", v.I, rec.Ev[v.I].String(), v.What, v.Site))
		}
		sort.Ints(rules)
		sep := make([]string, len(rules))
		for i, r := range rules {
			sep[i] = fmt.Sprint(r)
		}
		traceTerm := fmt.Sprintf("KTrace %d %s %s", len(doc.Pages), vlib.List(sep), trace)
		ttags := tags
		if truncated {
			traceTerm = fmt.Sprintf("KTracePrefix %s %s", vlib.List(sep), trace)
			ttags = append(append([]string(nil), tags...), "trace-truncated")
		}
		cases = append(cases, vlib.Case{Kind: "trace", Coq: traceTerm,
			Desc: descBase(map[string]interface{}{"calls": len(rec.Ev), "pages": len(doc.Pages), "rules_reported_separately": rules, "truncated": truncated}),
			Tags: ttags, Nontrivial: len(rec.Ev) > 20, Key: in.Name + "/trace"})
		for _, r := range rules {
			d := byRule[r]
			if len(d) > 12 {
				d = d[:12]
			}
			cases = append(cases, vlib.Case{Kind: "trace-rule", Coq: fmt.Sprintf("KTraceRule %d %s", r, trace),
				Desc: descBase(map[string]interface{}{"rule": r, "harness_side_diagnosis": d}),
				Tags: append(append([]string(nil), tags...), rec.shadowTags(r)...), Nontrivial: true, Key: fmt.Sprintf("%s/trace-rule-%d", in.Name, r)})
		}
	}

	// KDoc
	if finitePagesData(vp) && recFinite(rec) && rec.GotAnch && rec.GotBk && len(rec.Pages) == len(doc.Pages) {
		var geoms, rps []string
		for i, p := range doc.Pages {
			geoms = append(geoms, fmt.Sprintf("(mkgeom %s %s %s %s %s %s)", vlib.Q32(p.Width), vlib.Q32(p.Height),
				vlib.Q32(Fl(p.Bleed.Left)), vlib.Q32(Fl(p.Bleed.Top)), vlib.Q32(Fl(p.Bleed.Right)), vlib.Q32(Fl(p.Bleed.Bottom))))
			var anchors []backend.Anchor
			if i < len(rec.Anchors) {
				anchors = rec.Anchors[i]
			}
			boxes := make([]string, len(rec.Boxes[i]))
			for j, b := range rec.Boxes[i] {
				boxes[j] = cRect(b.R)
			}
			rps = append(rps, fmt.Sprintf("(mkrpage %s %s %s %s)", cRect(rec.PageArgs[i]), mapS(rec.Links[i], cRecLink),
				mapS(anchors, func(a backend.Anchor) string { return cAnchor(a.Name, a.X, a.Y) }), vlib.List(boxes)))
		}
		nl := 0
		for _, l := range rec.Links {
			nl += len(l)
		}
		cases = append(cases, vlib.Case{Kind: "doc", Coq: fmt.Sprintf("KDoc %s %s %s %s %s", vlib.Q32(in.Zoom), mapS(vp, cPage), vlib.List(geoms), vlib.List(rps), mapS(rec.Bookmarks, cNode)),
			Desc: descBase(map[string]interface{}{"gathered": vp, "links": rec.Links, "anchors": rec.Anchors, "outline": outlineDesc(rec.Bookmarks), "addpage": rec.PageArgs}),
			Tags: tags, Nontrivial: nl+len(rec.Bookmarks) > 0})
	}

	// KMeta
	{
		els := domMeta(in.HTML)
		atts := make([]string, len(doc.Metadata.Attachments))
		for i, a := range doc.Metadata.Attachments {
			atts[i] = fmt.Sprintf("(%s, %s)", cName(a.URL), cName(a.Title))
		}
		out := fmt.Sprintf("(mkmeta %s %s %s %s %s %s %s %s)", cName(first(rec.Meta["title"])), cName(first(rec.Meta["description"])),
			cName(first(rec.Meta["generator"])), mapS(rec.Meta["authors"], cName), mapS(rec.Meta["keywords"], cName),
			cTimeOpt(rec.Created), cTimeOpt(rec.Modified), vlib.List(atts))
		cases = append(cases, vlib.Case{Kind: "meta", Coq: fmt.Sprintf("KMeta %s %s", mapS(els, cMetaEl), out),
			Desc: descBase(map[string]interface{}{"elements": els, "received": rec.Meta, "created": rec.Created, "modified": rec.Modified, "attachments": doc.Metadata.Attachments}),
			Tags: tags, Nontrivial: len(els) > 0})
	}

	// KExpect
	if g := in.Gen; g != nil && g.Exact && rec.GotAnch {
		if len(g.Pages) != len(doc.Pages) {
			status = "expect-skipped-pagecount"
		} else {
			gen := mapS(g.Pages, func(items []gItem) string {
				return mapS(items, func(it gItem) string {
					switch it.Kind {
					case "id":
						return fmt.Sprintf("(GId %s)", cName(it.Name))
					case "link":
						return fmt.Sprintf("(GLink %s %s)", cLtype(it.LType), cName(it.Name))
					}
					return fmt.Sprintf("(GHead %s %s)", vlib.Z(it.Level), cName(it.Name))
				})
			})
			anch := mapS(rec.Anchors, func(l []backend.Anchor) string {
				return mapS(l, func(a backend.Anchor) string { return cName(a.Name) })
			})
			lks := mapS(rec.Links, func(l []RecLink) string {
				return mapS(l, func(x RecLink) string {
					return fmt.Sprintf("(mklink %s %s zero_rect)", cLtype(x.Kind), cName(x.Target))
				})
			})
			cases = append(cases, vlib.Case{Kind: "expect", Coq: fmt.Sprintf("KExpect %s %s %s %s", gen, anch, lks, mapS(rec.Bookmarks, cNodeNames)),
				Desc: descBase(map[string]interface{}{"generated": g.Pages, "links": rec.Links, "anchors": rec.Anchors, "outline": outlineDesc(rec.Bookmarks)}),
				Tags: tags, Nontrivial: true})
		}
	}
	if status == "" {
		status = "ok"
	}
	return cases, status
}

func cNodeNames(n backend.BookmarkNode) string {
	return fmt.Sprintf("(Node (mkentry 0 %s %s zero_pos true) %s)", cName(n.Label), vlib.Z(n.PageIndex), mapS(n.Children, cNodeNames))
}

func recFinite(rec *Rec) bool {
	for _, a := range rec.PageArgs {
		if !vlib.Finite32(a[:]...) {
			return false
		}
	}
	for _, l := range rec.Links {
		for _, x := range l {
			if !vlib.Finite32(x.R[:]...) {
				return false
			}
		}
	}
	for _, l := range rec.Anchors {
		for _, a := range l {
			if !vlib.Finite32(a.X, a.Y) {
				return false
			}
		}
	}
	for _, l := range rec.Boxes {
		for _, b := range l {
			if !vlib.Finite32(b.R[:]...) {
				return false
			}
		}
	}
	ok := true
	var walk func(l []backend.BookmarkNode)
	walk = func(l []backend.BookmarkNode) {
		for _, n := range l {
			if !vlib.Finite32(n.X, n.Y) {
				ok = false
			}
			walk(n.Children)
		}
	}
	walk(rec.Bookmarks)
	return ok
}

func main() {
	out := flag.String("out", "cases.jsonl", "output file")
	n := flag.Int("n", 1500, "number of cases")
	probe := flag.String("probe", "", "html file to render and dump")
	flag.Parse()
	if *probe != "" {
		b, _ := os.ReadFile(*probe)
		cs, st := runDocument(docInput{Name: *probe, HTML: string(b), Zoom: 1, Fonts: "pango"})
		fmt.Println("status", st)
		for _, c := range cs {
			fmt.Println(c.Kind, c.Tags)
			fmt.Println(c.Coq)
		}
		return
	}
	rng := vlib.NewRng(vlib.Seed())
	w := vlib.NewWriter(*out)
	defer w.Close()
	stats := map[string]int{}

	// corpus first
	files, _ := filepath.Glob("/verif/corpus/C14/*.html")
	sort.Strings(files)
	for _, f := range files {
		b, err := os.ReadFile(f)
		if err != nil {
			continue
		}
		for _, z := range []Fl{1, 2} {
			cs, st := runDocument(docInput{Name: "corpus/" + filepath.Base(f), HTML: string(b), Zoom: z, Fonts: "pango"})
			stats[st]++
			for _, c := range cs {
				c.Tags = append(c.Tags, "corpus")
				w.Add(c)
			}
		}
	}

	nd := 0
	for w.N() < *n {
		r := rng.Fork()
		switch k := r.Intn(10); {
		case k <= 2:
			w.Add(genResolve(r))
		case k <= 5:
			w.Add(genBookmarks(r))
		default:
			g := genDocument(r)
			nd++
			fonts := "pango"
			cs, st := runDocument(docInput{Name: fmt.Sprintf("gen-%d", nd), HTML: g.HTML, Gen: &g, Zoom: vlib.Pick(r, zooms), Fonts: fonts})
			stats[st]++
			for _, c := range cs {
				w.Add(c)
			}
		}
	}
	fmt.Fprintf(os.Stderr, "c14: %d cases, %d generated documents, outcomes %v\n", w.N(), nd, stats)
}
