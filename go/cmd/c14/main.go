package main

import (
	"flag"
	"fmt"
	"os"

	"verifharness/vlib/render"

	"github.com/benoitkugler/webrender/html/document"
)

func main() {
	probe := flag.String("probe", "", "html file to render and dump")
	flag.Parse()
	if *probe != "" {
		b, _ := os.ReadFile(*probe)
		d, err := render.Render(string(b), nil, false, false, render.NewPango())
		if err != nil {
			panic(err)
		}
		for i, p := range document.VerifPages(d) {
			fmt.Println("page", i, p)
		}
		rec := NewRec()
		d.Write(rec, 1, nil)
		for _, e := range rec.Ev {
			fmt.Println(e.String(), "   ", e.Coq())
		}
		fmt.Println(rec.Anchors, rec.Bookmarks, rec.Meta, rec.Links)
	}
}
