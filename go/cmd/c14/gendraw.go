// "Drawing boundary" documents of the C14 harness.
//
// draw.go (and images/, layout of backgrounds / replaced boxes) compute what
// the backend receives with divisions by a number of tiles minus one, by a tile
// or slice size, by a dash count, by an intrinsic size ...  The protocol monitor
// checks that every float argument is finite and that every Paint / Clip has a
// path: the job of this generator is to make every such denominator reachable
// at 0, below 0 and around its thresholds.  A document is a list of independent
// "probes" (small elements); each probe is drawn from one family whose
// parameters are chosen RELATIVE to each other (tile size = positioning size
// times a ratio around 1/3, 1/2, 1, 3/2, 2, 3; border widths around the side
// length / the radius; slices around the intrinsic size ...), because the
// boundaries are relations between values, not values.
//
// Only the call trace of these documents is checked (KTrace / KTraceRule).  When
// the harness side shadow sees a rule violated, every probe is rendered alone
// and the KTraceRule case is emitted for the isolated probe (a shrunk failing
// input with the structural tags of that probe).
package main

import (
	"encoding/base64"
	"fmt"
	"strings"

	"verifharness/vlib"
)

type probe struct {
	HTML string
	Tags []string
}

type drawDoc struct {
	CSS    string // page level style
	Probes []probe
	Tags   []string // page level tags
}

func (d drawDoc) html(only int) string {
	var sb strings.Builder
	sb.WriteString("<!DOCTYPE html><html><head><style>" + d.CSS + "</style></head><body>")
	for i, p := range d.Probes {
		if only == -1 || only == i {
			sb.WriteString(p.HTML)
			sb.WriteString("\n")
		}
	}
	sb.WriteString("</body></html>")
	return sb.String()
}

func px(x float64) string {
	if x == 0 {
		return "0"
	}
	return fmt.Sprintf("%gpx", x)
}

func pickF(r *vlib.Rng, l ...float64) float64 { return l[r.Intn(len(l))] }

// ratios around the thresholds of floor / round / ceil of (area / tile)
var tileRatios = []float64{0.1, 0.2, 0.25, 1. / 3, 0.4, 0.5, 0.51, 0.6, 2. / 3, 0.75, 0.99, 1, 1, 1.01, 1.25, 1.5, 1.99, 2, 2.01, 2.5, 3, 4, 10}

var boxSizes = []float64{0, 0.5, 1, 2, 7, 10, 20, 30, 33.3, 45, 50, 60, 90, 100, 120}

func svgURI(body string) string {
	return "data:image/svg+xml;base64," + base64.StdEncoding.EncodeToString([]byte(body))
}

// images: a raster, vector images with / without intrinsic size or ratio, degenerate ones
func probeImage(r *vlib.Rng) (css string, tag string) {
	// (unitless zeros are avoided in radial gradient positions: as a border-image source they
	// panic in pr.ResolvePercentage "expected percentage", a crash that is C01's, see notes)
	switch r.Intn(24) {
	case 0, 1, 2, 8, 9, 10:
		return "url(" + pngURI + ")", "png"
	case 3:
		return `url("` + svgURI(`<svg xmlns="http://www.w3.org/2000/svg" width="12" height="8"><rect width="12" height="8" fill="red"/></svg>`) + `")`, "svg-sized"
	case 4:
		return `url("` + svgURI(`<svg xmlns="http://www.w3.org/2000/svg" viewBox="0 0 20 10"><rect width="20" height="10" fill="blue"/></svg>`) + `")`, "svg-ratio-only"
	case 5:
		return `url("` + svgURI(`<svg xmlns="http://www.w3.org/2000/svg"><rect width="5" height="5" fill="blue"/></svg>`) + `")`, "svg-no-size"
	case 6:
		w, h := vlib.Pick(r, []string{"0", "10", "0.5"}), vlib.Pick(r, []string{"0", "10"})
		return `url("` + svgURI(fmt.Sprintf(`<svg xmlns="http://www.w3.org/2000/svg" width="%s" height="%s"><rect width="5" height="5" fill="blue"/></svg>`, w, h)) + `")`, "svg-zero-size"
	case 7:
		return `url("` + svgURI(fmt.Sprintf(`<svg xmlns="http://www.w3.org/2000/svg" width="10" viewBox="0 0 %s %s"><rect width="5" height="5" fill="blue"/></svg>`,
			vlib.Pick(r, []string{"0", "10"}), vlib.Pick(r, []string{"0", "5"}))) + `")`, "svg-zero-viewbox"
	}
	return genGradient(r), "gradient"
}

var stopColors = []string{"red", "blue", "#0f0", "transparent", "rgba(0,0,0,0.5)", "rgba(255,0,0,0)", "black", "currentColor"}

var stopPositions = []string{"", "", "", "0", "0%", "50%", "100%", "30px", "-10px", "200%", "5px", "0.5px", "33.3%", "10%"}

func genStops(r *vlib.Rng) string {
	n := r.Range(2, 5)
	if r.Chance(1, 12) {
		n = 1
	}
	st := make([]string, n)
	prev := ""
	for i := range st {
		p := vlib.Pick(r, stopPositions)
		if r.Chance(1, 5) && prev != "" { // two stops at the same place
			p = prev
		}
		if p != "" {
			prev = p
		}
		st[i] = strings.TrimSpace(vlib.Pick(r, stopColors) + " " + p)
	}
	return strings.Join(st, ", ")
}

// stops of repeating gradients: the period must stay comparable to the box (a
// period of 1e-5 px, e.g. first and last stops equal up to float rounding, makes
// svg.GradientSpread.repeatLinear/repeatRadial build millions of stops: a hang /
// out-of-memory, which is C01's, see notes)
var repeatingStops = []string{"red, blue 5px", "red 0%, blue 50%", "red 10px, blue 10px", "red, blue 0", "red 2px, #0f0 4px, transparent 6px",
	"red 25%, blue 25%, blue 50%, red 50%", "rgba(0,0,0,0.5) -5px, red 5px", "red, blue", "red 3px, blue 1px, #0f0 8px"}

func genGradient(r *vlib.Rng) string {
	rep := ""
	if r.Chance(1, 3) {
		rep = "repeating-"
	}
	stops := genStops(r)
	if rep != "" {
		stops = vlib.Pick(r, repeatingStops)
	}
	if r.Bool() {
		dir := vlib.Pick(r, []string{"", "", "0deg, ", "45deg, ", "90deg, ", "180deg, ", "-30deg, ", "0.25turn, ", "to top left, ", "to right, ", "to bottom right, ", "1rad, ", "400grad, "})
		return rep + "linear-gradient(" + dir + stops + ")"
	}
	shape := vlib.Pick(r, []string{"", "circle", "ellipse", "circle closest-side", "ellipse closest-side", "closest-corner", "circle farthest-side", "farthest-corner",
		"circle 0px", "circle 10px", "0px 0px", "10px 0px", "0px 10px", "50% 50%", "0% 50%", "circle 0.5px"})
	at := vlib.Pick(r, []string{"", "", "at center", "at 0px 0px", "at 100% 100%", "at 10px 10px", "at -10px 50%", "at top left", "at right", "at 50% 0px"})
	if rep != "" {
		// a repeating radial gradient whose ending shape is degenerate on one axis makes
		// svg.GradientSpread.repeatRadial allocate (distance / length) stops: tens of GB,
		// a fatal out-of-memory that cannot be recovered (resource exhaustion: C01's, see notes)
		shape = vlib.Pick(r, []string{"", "circle", "ellipse", "circle farthest-side", "farthest-corner", "circle 10px", "50% 50%", "20px 5px"})
		at = vlib.Pick(r, []string{"", "at center", "at 10px 10px", "at -10px 50%", "at 100% 100%"})
	}
	pre := strings.TrimSpace(shape + " " + at)
	if pre != "" {
		pre += ", "
	}
	return rep + "radial-gradient(" + pre + stops + ")"
}

var boxKW = []string{"border-box", "padding-box", "content-box"}

var repeatKW = []string{"repeat", "space", "round", "no-repeat"}

func bucket(x float64) string {
	switch {
	case x != x:
		return "nan"
	case x < 0:
		return "<0"
	case x < 1:
		return "0..1"
	case x == 1:
		return "=1"
	case x < 2:
		return "1..2"
	case x == 2:
		return "=2"
	case x < 3:
		return "2..3"
	}
	return ">=3"
}

// ---------------------------------------------------------------- family: background layers

// the size of one axis of a tile, relative to the positioning size `area`
func tileSize(r *vlib.Rng, area float64) (css string, size float64, known bool) {
	switch r.Intn(10) {
	case 0:
		return "auto", 0, false
	case 1:
		p := pickF(r, 0, 10, 25, 33.3, 50, 51, 100, 150, 200)
		return fmt.Sprintf("%g%%", p), area * p / 100, true
	case 2:
		v := pickF(r, 0, 0.5, 1, 4, 10, 30)
		return px(v), v, true
	}
	k := vlib.Pick(r, tileRatios)
	v := float64(float32(area * k))
	return px(v), v, true
}

func probeBackground(r *vlib.Rng) probe {
	var st, tags []string
	add := func(f string, a ...interface{}) { st = append(st, fmt.Sprintf(f, a...)) }
	w, h := vlib.Pick(r, boxSizes), vlib.Pick(r, boxSizes)
	pad, bw := 0.0, 0.0
	if r.Chance(1, 3) {
		pad = pickF(r, 1, 5, 10)
	}
	if r.Chance(1, 3) {
		bw = pickF(r, 1, 3, 10)
		add("border:%s %s %s", px(bw), vlib.Pick(r, []string{"solid", "dashed", "double"}), vlib.Pick(r, []string{"black", "transparent", "rgba(0,0,255,0.3)"}))
	}
	add("width:%s;height:%s", px(w), px(h))
	if pad > 0 {
		add("padding:%s", px(pad))
	}
	nl := 1
	if r.Chance(1, 5) {
		nl = 2
	}
	var imgs, sizes, reps, poss, origins, clips, atts []string
	for l := 0; l < nl; l++ {
		img, itag := probeImage(r)
		origin, clip := vlib.Pick(r, boxKW), vlib.Pick(r, boxKW)
		if r.Bool() {
			origin, clip = "padding-box", "border-box" // initial values
		}
		aw, ah := w, h
		switch origin {
		case "padding-box":
			aw, ah = w+2*pad, h+2*pad
		case "border-box":
			aw, ah = w+2*pad+2*bw, h+2*pad+2*bw
		}
		att := "scroll"
		if r.Chance(1, 10) {
			att = vlib.Pick(r, []string{"fixed", "local"})
		}
		var size string
		var tw, th float64
		var kw, kh bool
		switch r.Intn(12) {
		case 0:
			size = "cover"
		case 1:
			size = "contain"
		case 2:
			size = "auto"
		default:
			var sw, sh string
			sw, tw, kw = tileSize(r, aw)
			sh, th, kh = tileSize(r, ah)
			size = sw + " " + sh
		}
		rx, ry := vlib.Pick(r, repeatKW), vlib.Pick(r, repeatKW)
		rep := rx + " " + ry
		if r.Chance(1, 8) {
			rep = vlib.Pick(r, []string{"repeat-x", "repeat-y", "space", "round", "no-repeat", "repeat"})
			switch rep {
			case "repeat-x":
				rx, ry = "repeat", "no-repeat"
			case "repeat-y":
				rx, ry = "no-repeat", "repeat"
			default:
				rx, ry = rep, rep
			}
		}
		pos := vlib.Pick(r, []string{"0 0", "0% 0%", "center", "100% 100%", "-5px 3px", "right 3px bottom 10%", "50% 200%", "left 1px top -1px", "3px 50%"})
		imgs, sizes, reps, poss = append(imgs, img), append(sizes, size), append(reps, rep), append(poss, pos)
		origins, clips, atts = append(origins, origin), append(clips, clip), append(atts, att)
		tags = append(tags, "bg-img="+itag, "bg-repeat-x="+rx, "bg-repeat-y="+ry, "bg-origin="+origin, "bg-attachment="+att)
		if kw && att == "scroll" {
			if tw == 0 {
				tags = append(tags, "bg-tile-w=0")
			} else {
				tags = append(tags, "bg-tiles-x="+bucket(aw/tw))
			}
		}
		if kh && att == "scroll" {
			if th == 0 {
				tags = append(tags, "bg-tile-h=0")
			} else {
				tags = append(tags, "bg-tiles-y="+bucket(ah/th))
			}
		}
		if size == "cover" || size == "contain" || size == "auto" {
			tags = append(tags, "bg-size="+size)
		}
	}
	add("background-image:%s", strings.Join(imgs, ", "))
	add("background-size:%s", strings.Join(sizes, ", "))
	add("background-repeat:%s", strings.Join(reps, ", "))
	add("background-position:%s", strings.Join(poss, ", "))
	add("background-origin:%s", strings.Join(origins, ", "))
	add("background-clip:%s", strings.Join(clips, ", "))
	add("background-attachment:%s", strings.Join(atts, ", "))
	if r.Chance(1, 4) {
		add("background-color:%s", vlib.Pick(r, colors))
	}
	if r.Chance(1, 6) {
		add("border-radius:%s", vlib.Pick(r, []string{"5px", "50%", "100px", "3px 0 10px 1px / 2px"}))
		tags = append(tags, "radius")
	}
	if r.Chance(1, 10) {
		add("image-resolution:%s", vlib.Pick(r, []string{"2dppx", "0.5dppx", "96dpi", "300dpi"}))
	}
	if w == 0 || h == 0 {
		tags = append(tags, "box-zero-side")
	}
	return probe{HTML: fmt.Sprintf(`<div style="%s"></div>`, strings.Join(st, ";")), Tags: append([]string{"probe=background"}, tags...)}
}

// ---------------------------------------------------------------- family: borders, radii, outlines

var dashStyles = []string{"dashed", "dotted", "dashed", "dotted", "solid", "double", "groove", "ridge", "inset", "outset", "none", "hidden"}

func probeBorder(r *vlib.Rng) probe {
	var st, tags []string
	add := func(f string, a ...interface{}) { st = append(st, fmt.Sprintf(f, a...)) }
	w, h := pickF(r, 0, 0, 0.5, 1, 2, 5, 10, 20, 60, 100), pickF(r, 0, 0, 0.5, 1, 2, 5, 10, 20, 60)
	add("width:%s;height:%s", px(w), px(h))
	widths := []float64{0, 0.1, 0.5, 1, 2, 3, 5, 10, 20, 40}
	base := vlib.Pick(r, widths)
	var bws [4]float64
	same := r.Chance(1, 3)
	style := vlib.Pick(r, dashStyles)
	for i, side := range []string{"top", "right", "bottom", "left"} {
		bws[i] = base
		if !same && r.Bool() {
			bws[i] = vlib.Pick(r, widths)
		}
		s := style
		if !same && r.Chance(1, 3) {
			s = vlib.Pick(r, dashStyles)
		}
		c := "black"
		if r.Chance(1, 3) {
			c = vlib.Pick(r, colors)
		}
		add("border-%s:%s %s %s", side, px(bws[i]), s, c)
		tags = append(tags, "border-"+side+"="+s)
	}
	if r.Chance(1, 3) {
		// rounded dashes: dashed / dotted sides (drawn side by side: styles or colours differ) with
		// radii above the adjacent border widths; the side length is around 0, one dash, two dashes
		st, tags = st[:1], nil
		k := pickF(r, 0, 0.2, 0.5, 1, 1.5, 2, 3, 6, 20)
		for i, side := range []string{"top", "right", "bottom", "left"} {
			bws[i] = vlib.Pick(r, []float64{0.5, 1, 2, 3, 5, 10})
			s := vlib.Pick(r, []string{"dashed", "dotted"})
			add("border-%s:%s %s %s", side, px(bws[i]), s, vlib.Pick(r, []string{"black", "red", "blue", "rgba(0,0,0,0.5)"}))
			tags = append(tags, "border-"+side+"="+s)
		}
		w, h = float64(float32(k*3*bws[0])), float64(float32(pickF(r, 0, 0.5, 1, 2, 6)*bws[1]))
		st[0] = fmt.Sprintf("width:%s;height:%s", px(w), px(h))
		var hs, vs []string
		for i := 0; i < 4; i++ { // corners: top-left, top-right, bottom-right, bottom-left
			hw, vw := bws[[4]int{3, 1, 1, 3}[i]], bws[[4]int{0, 0, 2, 2}[i]]
			hs = append(hs, px(float64(float32(hw+pickF(r, 0, 0.01, 0.5, 1, 5, 30)))))
			vs = append(vs, px(float64(float32(vw+pickF(r, 0, 0.01, 0.5, 1, 5, 30)))))
		}
		add("border-radius:%s / %s", strings.Join(hs, " "), strings.Join(vs, " "))
		tags = append(tags, "radius", "rounded-dashes")
	} else if r.Chance(3, 4) {
		// radii relative to the border widths and to the box: below / equal / above the widths, larger than the box
		tags = append(tags, "radius")
		ref := []float64{0, 0.5, 1, bws[0], bws[3], bws[0] / 2, bws[0] + 0.5, bws[0] + 1, 2 * bws[3], bws[3] + 3, w / 2, h / 2, w, (w + bws[1] + bws[3]) / 2, 1000}
		rad := func() string {
			if r.Chance(1, 8) {
				return vlib.Pick(r, []string{"50%", "100%", "10%", "0%"})
			}
			return px(float64(float32(vlib.Pick(r, ref))))
		}
		switch r.Intn(3) {
		case 0:
			add("border-radius:%s", rad())
		case 1:
			add("border-radius:%s / %s", rad(), rad())
		default:
			add("border-radius:%s %s %s %s / %s %s %s %s", rad(), rad(), rad(), rad(), rad(), rad(), rad(), rad())
		}
	}
	if r.Chance(1, 4) {
		ow := pickF(r, 0, 0.5, 1, 3, 10, 50)
		add("outline:%s %s %s", px(ow), vlib.Pick(r, dashStyles[:10]), vlib.Pick(r, colors))
		if r.Bool() {
			add("outline-offset:%s", vlib.Pick(r, []string{"0", "2px", "-2px", "-20px"}))
		}
		tags = append(tags, "outline")
	}
	if r.Chance(1, 6) {
		add("background:%s", vlib.Pick(r, colors))
	}
	if r.Chance(1, 8) {
		add("box-sizing:border-box")
	}
	if w == 0 || h == 0 {
		tags = append(tags, "box-zero-side")
	}
	return probe{HTML: fmt.Sprintf(`<div style="%s"></div>`, strings.Join(st, ";")), Tags: append([]string{"probe=border"}, tags...)}
}

// ---------------------------------------------------------------- family: border-image

func probeBorderImage(r *vlib.Rng) probe {
	var st, tags []string
	add := func(f string, a ...interface{}) { st = append(st, fmt.Sprintf(f, a...)) }
	w, h := pickF(r, 0, 1, 4, 5, 10, 20, 40, 100), pickF(r, 0, 1, 4, 5, 10, 20, 40)
	bw := pickF(r, 0, 1, 2, 4, 5, 10, 30)
	add("width:%s;height:%s", px(w), px(h))
	if r.Chance(1, 4) {
		add("border-style:solid;border-width:%s %s %s %s", px(bw), px(pickF(r, 0, 1, 5, 10)), px(pickF(r, 0, 1, 5, 10)), px(pickF(r, 0, 1, 5, 10)))
	} else {
		add("border:%s solid black", px(bw))
	}
	img, itag := probeImage(r)
	add("border-image-source:%s", img)
	tags = append(tags, "bimg="+itag)
	// the png is 4x4: slices around 0, 2 (half), 4 (whole) make the middle part vanish; percentages likewise
	// (no pair summing to 100% up to rounding, e.g. 49% + 51%: a middle slice of 1e-5 px is repeated millions of times)
	slices := []string{"0", "1", "2", "3", "4", "10", "25%", "50%", "100%", "33%", "0%", "40%", "60%", "1.5"}
	var sl []string
	for i, n := 0, r.Range(1, 4); i < n; i++ {
		sl = append(sl, vlib.Pick(r, slices))
	}
	fill := ""
	if r.Chance(1, 3) {
		fill = " fill"
		tags = append(tags, "bimg-fill")
	}
	add("border-image-slice:%s%s", strings.Join(sl, " "), fill)
	// border-image-width relative to the border box: sum of two opposite widths below / equal / above the box
	bb := w + 2*bw
	wvals := []string{"auto", "0", "1", "2", "0.5", "5px", "20px", "50%", "100%", "51%", "49%", px(bb / 2), px(bb/2 + 1), px(bb), px(float64(float32(bb / 3)))}
	if r.Chance(2, 3) {
		var ws []string
		for i, n := 0, r.Range(1, 4); i < n; i++ {
			ws = append(ws, vlib.Pick(r, wvals))
		}
		add("border-image-width:%s", strings.Join(ws, " "))
		tags = append(tags, "bimg-width")
	}
	if r.Chance(1, 3) {
		var os []string
		for i, n := 0, r.Range(1, 4); i < n; i++ {
			os = append(os, vlib.Pick(r, []string{"0", "1", "2", "5px", "0.5", "30px"}))
		}
		add("border-image-outset:%s", strings.Join(os, " "))
		tags = append(tags, "bimg-outset")
	}
	reps := []string{"stretch", "repeat", "round", "space"}
	rx, ry := vlib.Pick(r, reps), vlib.Pick(r, reps)
	if r.Chance(1, 4) {
		ry = rx
		add("border-image-repeat:%s", rx)
	} else {
		add("border-image-repeat:%s %s", rx, ry)
	}
	tags = append(tags, "bimg-repeat-x="+rx, "bimg-repeat-y="+ry)
	if r.Chance(1, 6) {
		add("border-radius:5px")
	}
	if w == 0 || h == 0 {
		tags = append(tags, "box-zero-side")
	}
	return probe{HTML: fmt.Sprintf(`<div style="%s"></div>`, strings.Join(st, ";")), Tags: append([]string{"probe=border-image"}, tags...)}
}

// ---------------------------------------------------------------- family: replaced boxes, list markers, generated content

func imgSrc(css string) string { // url(...) -> the bare URL
	css = strings.TrimSuffix(strings.TrimPrefix(css, "url("), ")")
	return strings.Trim(css, `"`)
}

func probeReplaced(r *vlib.Rng) probe {
	var tags []string
	img, itag := probeImage(r)
	for itag == "gradient" && r.Chance(2, 3) {
		img, itag = probeImage(r)
	}
	dim := []string{"auto", "auto", "0", "0.5px", "1px", "4px", "10px", "50%", "33.3px", "100px"}
	fit := vlib.Pick(r, []string{"fill", "contain", "cover", "none", "scale-down"})
	opos := vlib.Pick(r, []string{"50% 50%", "0 0", "100% 100%", "-5px 3px", "right 3px bottom 10%", "left top"})
	tags = append(tags, "img="+itag, "object-fit="+fit)
	switch k := r.Intn(12); {
	case k <= 6 && itag != "gradient":
		st := fmt.Sprintf("width:%s;height:%s;object-fit:%s;object-position:%s;image-rendering:%s", vlib.Pick(r, dim), vlib.Pick(r, dim), fit, opos,
			vlib.Pick(r, []string{"auto", "pixelated", "crisp-edges"}))
		if r.Chance(1, 4) {
			st += fmt.Sprintf(";min-width:%s;max-height:%s", vlib.Pick(r, dim[2:]), vlib.Pick(r, dim[2:]))
		}
		if r.Chance(1, 4) {
			st += fmt.Sprintf(";padding:%s;border:%s solid red", vlib.Pick(r, []string{"0", "3px"}), vlib.Pick(r, []string{"0", "1px", "5px"}))
		}
		if r.Chance(1, 6) {
			st += fmt.Sprintf(";image-resolution:%s", vlib.Pick(r, []string{"2dppx", "0.5dppx", "300dpi"}))
		}
		if r.Chance(1, 6) {
			st += ";display:block"
		}
		return probe{HTML: fmt.Sprintf(`<div><img src="%s" style="%s"></div>`, imgSrc(img), st), Tags: append([]string{"probe=img"}, tags...)}
	case k <= 8:
		return probe{HTML: fmt.Sprintf(`<ul style="list-style-position:%s;font-size:%s"><li style="list-style-image:%s">m</li><li style="list-style-type:%s"></li></ul>`,
			vlib.Pick(r, []string{"inside", "outside"}), vlib.Pick(r, []string{"10px", "0", "1px", "0.5px"}), img,
			vlib.Pick(r, []string{"disc", "circle", "square", "decimal", "none", "'x'"})), Tags: append([]string{"probe=list-marker"}, tags...)}
	case k <= 10:
		// generated content image (no intrinsic size for gradients: sized by the box)
		return probe{HTML: fmt.Sprintf(`<div style="width:%s"><span style="content:%s;width:%s;height:%s;display:%s;object-fit:%s"></span></div>`,
			vlib.Pick(r, dim[2:]), img, vlib.Pick(r, dim), vlib.Pick(r, dim), vlib.Pick(r, []string{"inline", "block", "inline-block"}), fit),
			Tags: append([]string{"probe=content-image"}, tags...)}
	}
	// inline svg with intrinsic size / viewBox boundaries
	vb := vlib.Pick(r, []string{"", `viewBox="0 0 20 10"`, `viewBox="0 0 0 0"`, `viewBox="0 0 20 0"`, `viewBox="5 5 0.5 100"`})
	par := vlib.Pick(r, []string{"", `preserveAspectRatio="none"`, `preserveAspectRatio="xMinYMax slice"`, `preserveAspectRatio="xMidYMid meet"`})
	return probe{HTML: fmt.Sprintf(`<div><svg xmlns="http://www.w3.org/2000/svg" %s %s style="width:%s;height:%s"><rect x="1" y="1" width="6" height="4" fill="red"/><circle cx="5" cy="5" r="3" fill="blue"/></svg></div>`,
		vb, par, vlib.Pick(r, dim), vlib.Pick(r, dim)), Tags: append([]string{"probe=inline-svg", "svg"}, tags[1:]...)}
}

// ---------------------------------------------------------------- family: text decorations, overflow, opacity groups

func probeText(r *vlib.Rng) probe {
	var st, tags []string
	add := func(f string, a ...interface{}) { st = append(st, fmt.Sprintf(f, a...)) }
	fs := vlib.Pick(r, []string{"10px", "10px", "0", "0.5px", "1px", "2px", "30px", "0.0000001px"})
	add("font-size:%s", fs)
	line := vlib.Pick(r, []string{"underline", "overline", "line-through", "underline overline line-through", "underline overline"})
	style := vlib.Pick(r, []string{"solid", "double", "dotted", "dashed", "wavy", "wavy"})
	if fs == "0.0000001px" {
		// a wave of period 1.5 x thickness over the text width: billions of segments (a hang, C01's)
		style = vlib.Pick(r, []string{"solid", "double", "dotted", "dashed"})
	}
	add("text-decoration:%s %s %s", line, style, vlib.Pick(r, colors))
	tags = append(tags, "text-decoration="+style, "font-size="+fs)
	if r.Chance(1, 3) {
		add("letter-spacing:%s", vlib.Pick(r, []string{"0", "1px", "-1px", "-10px", "5px"}))
	}
	if r.Chance(1, 3) {
		add("width:%s", vlib.Pick(r, []string{"0", "1px", "15px", "40px"}))
		if r.Bool() {
			add("text-overflow:ellipsis;white-space:nowrap;overflow:hidden")
			tags = append(tags, "ellipsis")
		}
	}
	if r.Chance(1, 5) {
		add("text-align:justify;text-align-last:justify")
	}
	if r.Chance(1, 5) {
		add("font-family:weasyprint")
	}
	if r.Chance(1, 6) {
		add("opacity:%s", vlib.Pick(r, []string{"0", "0.5", "0.999"}))
	}
	if r.Chance(1, 8) {
		add("visibility:hidden")
	}
	txt := vlib.Pick(r, []string{"a", "ab cd", "some words here", " ", "", "a&#x200b;b", "x&shy;y", "&#x5d0;&#x5d1; ab"})
	inner := txt
	if r.Chance(1, 3) {
		inner = fmt.Sprintf(`%s<span style="vertical-align:%s;font-size:%s;text-decoration:%s">in</span>`, txt, vlib.Pick(r, []string{"super", "sub", "5px", "top"}),
			vlib.Pick(r, []string{"0", "5px", "200%"}), vlib.Pick(r, []string{"none", "underline dotted", "line-through double"}))
	}
	return probe{HTML: fmt.Sprintf(`<p style="%s">%s</p>`, strings.Join(st, ";"), inner), Tags: append([]string{"probe=text"}, tags...)}
}

func probeGroup(r *vlib.Rng) probe {
	var st, tags []string
	add := func(f string, a ...interface{}) { st = append(st, fmt.Sprintf(f, a...)) }
	add("width:%s;height:%s", px(pickF(r, 0, 0.5, 1, 10, 40)), px(pickF(r, 0, 0.5, 1, 10, 40)))
	add("background:%s", vlib.Pick(r, []string{"red", "linear-gradient(red, blue)", "transparent"}))
	switch r.Intn(5) {
	case 0:
		add("opacity:%s", vlib.Pick(r, []string{"0", "0.5", "0.999", "1", "0.0001"}))
		tags = append(tags, "opacity")
	case 1:
		add("transform:%s", vlib.Pick(r, transforms))
		add("transform-origin:%s %s", pickLen(r), pickLen(r))
		tags = append(tags, "transform")
	case 2:
		add("overflow:hidden;border-radius:%s;border:%s solid blue", vlib.Pick(r, []string{"0", "3px", "50%", "100px"}), vlib.Pick(r, []string{"0", "1px", "30px"}))
		tags = append(tags, "overflow")
	case 3:
		add("position:absolute;clip:rect(%s,%s,%s,%s)", vlib.Pick(r, []string{"auto", "0px", "5px", "50px"}), vlib.Pick(r, []string{"auto", "0px", "10px"}),
			vlib.Pick(r, []string{"auto", "0px", "10px", "2px"}), vlib.Pick(r, []string{"auto", "0px", "20px"}))
		tags = append(tags, "clip")
	default:
		add("mix-blend-mode:%s;opacity:%s", vlib.Pick(r, []string{"multiply", "screen", "normal"}), vlib.Pick(r, []string{"0.5", "1"}))
		tags = append(tags, "blend")
	}
	inner := vlib.Pick(r, []string{"", "t", `<div style="opacity:0.5;width:5px;height:5px;background:blue"></div>`, `<span style="opacity:0.3">o</span>`})
	return probe{HTML: fmt.Sprintf(`<div style="%s">%s</div>`, strings.Join(st, ";"), inner), Tags: append([]string{"probe=group"}, tags...)}
}

// ---------------------------------------------------------------- family: tables (collapsed borders, cell / row / column backgrounds), columns

func probeTable(r *vlib.Rng) probe {
	var tags []string
	bstyles := []string{"solid", "dashed", "dotted", "double", "groove", "ridge", "inset", "outset", "none", "hidden"}
	b := func() string {
		return fmt.Sprintf("%s %s %s", px(pickF(r, 0, 0.5, 1, 2, 3, 7, 20)), vlib.Pick(r, bstyles), vlib.Pick(r, colors))
	}
	if r.Chance(1, 3) {
		img, itag := probeImage(r)
		tags = append(tags, "column-rule", "bg-img="+itag)
		return probe{HTML: fmt.Sprintf(`<div style="columns:%s;column-gap:%s;column-rule:%s;width:%s;background:%s %s"><p>a b c d e f g h</p><p style="column-span:%s">s</p><p>i j</p></div>`,
			vlib.Pick(r, []string{"2", "3", "5px", "2 20px"}), vlib.Pick(r, []string{"0", "1px", "10px", "normal"}), b(), vlib.Pick(r, []string{"0", "10px", "50px", "auto"}),
			img, vlib.Pick(r, []string{"", "space", "round", "0 0 / 50% 50% space round"}), vlib.Pick(r, []string{"all", "none"})),
			Tags: append([]string{"probe=columns"}, tags...)}
	}
	collapse := vlib.Pick(r, []string{"collapse", "collapse", "separate"})
	tags = append(tags, "border-collapse="+collapse)
	img, itag := probeImage(r)
	tags = append(tags, "bg-img="+itag)
	bg := fmt.Sprintf("background:%s %s", img, vlib.Pick(r, []string{"", "space", "round", "0 0 / 50% 50% space", "center / 100% 100% round space", "no-repeat"}))
	cell := func(txt string) string {
		return fmt.Sprintf(`<td style="border:%s;width:%s;height:%s;%s">%s</td>`, b(), vlib.Pick(r, []string{"auto", "0", "10px"}), vlib.Pick(r, []string{"auto", "0", "10px"}),
			vlib.Pick(r, []string{"", "", bg, "empty-cells:hide"}), txt)
	}
	return probe{HTML: fmt.Sprintf(`<table style="border-collapse:%s;border:%s;border-spacing:%s;%s"><colgroup style="%s"><col style="%s"><col></colgroup><thead style="%s"><tr><th style="border:%s">h</th><th></th></tr></thead><tr style="%s">%s%s</tr><tr>%s</tr></table>`,
		collapse, b(), vlib.Pick(r, []string{"0", "2px", "5px 0"}), vlib.Pick(r, []string{"", bg, "direction:rtl"}),
		vlib.Pick(r, []string{"", bg}), vlib.Pick(r, []string{"", bg, "width:0"}), vlib.Pick(r, []string{"", bg}), b(),
		vlib.Pick(r, []string{"", bg}), cell("x"), cell(""), cell("y")), Tags: append([]string{"probe=table"}, tags...)}
}

// ---------------------------------------------------------------- documents

var probeFamilies = []func(*vlib.Rng) probe{
	probeBackground, probeBackground, probeBackground, probeBorder, probeBorder, probeBorderImage, probeBorderImage,
	probeReplaced, probeReplaced, probeText, probeGroup, probeTable,
	probeCanvases, probeCanvases, // gencanvas.go: content inside / after canvas switching constructs
}

func genDrawDoc(r *vlib.Rng) drawDoc {
	var d drawDoc
	pw, ph := vlib.Pick(r, []int{200, 300, 400}), vlib.Pick(r, []int{600, 800})
	margin := vlib.Pick(r, []int{0, 0, 5, 10})
	page := ""
	if r.Chance(1, 5) {
		page += fmt.Sprintf("bleed:%s;marks:%s;", vlib.Pick(r, []string{"0", "3px", "8px", "20px", "2.5px", "0.1px"}), vlib.Pick(r, []string{"none", "crop", "cross", "crop cross"}))
		d.Tags = append(d.Tags, "bleed")
	}
	extra := ""
	if r.Chance(1, 5) {
		// page / root backgrounds: positioned in the page box, painted on the bleed area
		img, itag := probeImage(r)
		rx, ry := vlib.Pick(r, repeatKW), vlib.Pick(r, repeatKW)
		k1, k2 := vlib.Pick(r, tileRatios), vlib.Pick(r, tileRatios)
		decl := fmt.Sprintf("background:%s %s %s;background-size:%s %s;background-attachment:%s", img, rx, ry,
			px(float64(float32(float64(pw)*k1))), px(float64(float32(float64(ph)*k2))), vlib.Pick(r, []string{"scroll", "fixed"}))
		if r.Bool() {
			page += decl + ";"
		} else {
			extra += "html { " + decl + " } "
		}
		d.Tags = append(d.Tags, "page-background", "bg-img="+itag, "bg-repeat-x="+rx, "bg-repeat-y="+ry)
	}
	if r.Chance(1, 6) {
		img, _ := probeImage(r)
		extra += fmt.Sprintf(`@page { @top-center { content: "p" counter(page); border: 1px %s red; width: %s } @bottom-left { content: "x"; background: %s %s } @left-middle { content: url(%s); height: %s } } `,
			vlib.Pick(r, dashStyles), vlib.Pick(r, []string{"auto", "0", "50%"}), img, vlib.Pick(r, []string{"", "space", "round"}), pngURI, vlib.Pick(r, []string{"auto", "0", "5px"}))
		d.Tags = append(d.Tags, "margin-boxes")
	}
	d.CSS = fmt.Sprintf(`@page { size: %dpx %dpx; margin: %dpx; %s} %sbody { font: 10px Ahem; margin: 0 } p { margin: 1px 0 } div, table, ul { margin-bottom: 2px }`,
		pw, ph, margin, page, extra)
	for i, n := 0, r.Range(5, 9); i < n; i++ {
		d.Probes = append(d.Probes, vlib.Pick(r, probeFamilies)(r))
	}
	return d
}
