// KGatherT: the laid-out boxes of a page as a tree, for the transform stack of
// gatherLinksAndBookmarks (Draw/LinksTree.v).  Kept: the boxes that carry an
// id, a link or a bookmark label (what the function reads of them + the hit
// area, before any transform) and the boxes with a CSS transform that have such
// a box below them (their own matrix: hook VerifMatrix = getMatrix, C17's).
// Boxes with neither are spliced out (their children take their place): the
// matrix passes through them unchanged.
package main

import (
	"fmt"
	"strings"

	"verifharness/vlib"

	bo "github.com/benoitkugler/webrender/html/boxes"
	"github.com/benoitkugler/webrender/html/document"
	pr "github.com/benoitkugler/webrender/css/properties"
)

type tnode struct {
	own   string // "" or the Coq matrix
	info  string // "" or the Coq rawbox
	ch    []*tnode
	depth int // number of transformed ancestors-or-self
}

type treeStats struct {
	infos       int  // boxes with an id / link / label
	underT      int  // ... below at least one transform
	maxDepth    int  // deepest transform nesting above such a box
	afterNested bool // such a box under a transform T, after (tree order) a transformed box nested in T
	finite      bool
}

func dumpTree(page *bo.PageBox) (string, treeStats) {
	st := treeStats{finite: true}
	var walk func(b bo.Box, depth int) []*tnode
	walk = func(b bo.Box, depth int) []*tnode {
		f := b.Box()
		n := &tnode{}
		if a, bb, c, d, e, ff, ok := document.VerifMatrix(b); ok {
			if !vlib.Finite32(a, bb, c, d, e, ff) {
				st.finite = false
			} else {
				n.own = fmt.Sprintf("(Some (Matrix.mk %s %s %s %s %s %s))", vlib.Q32(a), vlib.Q32(bb), vlib.Q32(c), vlib.Q32(d), vlib.Q32(e), vlib.Q32(ff))
			}
			depth++
		}
		n.depth = depth
		anchor := string(f.Style.GetAnchor())
		link := f.Style.GetLink()
		if anchor != "" || !link.IsNone() || f.BookmarkLabel != "" {
			ls := "None"
			if !link.IsNone() {
				ls = fmt.Sprintf("(Some (%s, %s))", cLtype(link.Name), cName(link.String))
			}
			level := 0
			if lvl := f.Style.GetBookmarkLevel(); lvl.Tag != pr.None {
				level = lvl.I
			}
			textline := bo.TextT.IsInstance(b) || bo.LineT.IsInstance(b)
			x, y, w, h := bo.HitArea(b).Unpack()
			px, py, pw, ph := Fl(x), Fl(y), Fl(w), Fl(h)
			if !vlib.Finite32(px, py, pw, ph, px+pw, py+ph) {
				st.finite = false
				px, py, pw, ph = 0, 0, 0, 0
			}
			n.info = fmt.Sprintf("(Some (mkraw %s %s %s %s %s %s %s %s %s %s %s))", cName(anchor), ls, vlib.Bool(textline),
				vlib.Bool(f.IsAttachment()), cName(f.BookmarkLabel), vlib.Z(level), vlib.Bool(f.Style.GetBookmarkState() == "open"),
				vlib.Q32(px), vlib.Q32(py), vlib.Q32(pw), vlib.Q32(ph))
			st.infos++
			if depth > 0 {
				st.underT++
			}
			if depth > st.maxDepth {
				st.maxDepth = depth
			}
		}
		for _, c := range b.AllChildren() {
			n.ch = append(n.ch, walk(c, depth)...)
		}
		if n.info == "" && n.own == "" {
			return n.ch // spliced out
		}
		if n.info == "" && len(n.ch) == 0 {
			// a transformed box with nothing to gather below: kept as a leaf only when
			// it is nested in another transform (its matrix must not leak to what follows)
			if depth < 2 {
				return nil
			}
		}
		return []*tnode{n}
	}
	roots := walk(page, 0)
	// structural tag: an info box that follows a transformed sibling subtree while under a transform
	var scan func(ns []*tnode, under bool)
	hasInfo := func(n *tnode) bool { return n.info != "" }
	var anyInfo func(n *tnode) bool
	anyInfo = func(n *tnode) bool {
		if hasInfo(n) {
			return true
		}
		for _, c := range n.ch {
			if anyInfo(c) {
				return true
			}
		}
		return false
	}
	scan = func(ns []*tnode, under bool) {
		seenT := false
		for _, n := range ns {
			if under && seenT && anyInfo(n) {
				st.afterNested = true
			}
			if n.own != "" {
				seenT = true
			}
			scan(n.ch, under || n.own != "")
		}
	}
	scan(roots, false)
	var pr1 func(n *tnode) string
	pr1 = func(n *tnode) string {
		own, info := n.own, n.info
		if own == "" {
			own = "None"
		}
		if info == "" {
			info = "None"
		}
		cs := make([]string, len(n.ch))
		for i, c := range n.ch {
			cs[i] = pr1(c)
		}
		return fmt.Sprintf("(TBox %s %s [%s])", own, info, strings.Join(cs, "; "))
	}
	cs := make([]string, len(roots))
	for i, c := range roots {
		cs[i] = pr1(c)
	}
	// the page box itself never has an id / link / transform: a neutral root
	return fmt.Sprintf("(TBox None None [%s])", strings.Join(cs, "; ")), st
}
