// Probe family "canvases" of the drawing boundary documents (gendraw.go).
//
// draw.go and svg/ switch the destination canvas: an opacity < 1 box (and an svg
// node with opacity, a text with text-anchor middle / end) paints its sub-tree on
// the canvas returned by NewGroup and composites it with DrawWithOpacity; a
// repeated background and the svg paint servers / masks paint a cell on a group
// handed to SetColorPattern / SetAlphaMask.  Every such canvas has its own
// resources (fonts) and must be handed back to the canvas that created it: rules
// 8, 12 and 13 of Draw/Protocol.v.  The other families put almost nothing INSIDE
// a group; this one generates nests of canvas switching constructs with content
// of every kind (text in two fonts, list markers, inline-blocks, floats,
// positioned children with z-index, svg text, replaced boxes, backgrounds) inside,
// before and after them, and combines the switch with the early exits of
// drawStackingContext (singular transform, visibility, empty boxes).
package main

import (
	"fmt"
	"strings"

	"verifharness/vlib"
)

var singularTransforms = []string{"scale(0)", "scale(1, 0)", "scale(0, 1)", "matrix(1, 2, 2, 4, 0, 0)", "matrix(0,0,0,0,0,0)", "scaleX(0)", "rotate(45deg) scale(0)", "matrix(2, 4, 1, 2, 5, 5)"}

var regularTransforms = []string{"rotate(10deg)", "scale(2)", "translate(5px, 3px)", "matrix(1, 0.5, -0.5, 1, 3, 4)", "scale(-1, 1)", "scale(0.0001)"}

// text runs in the two fonts of the harness, with the features that make
// text/draw split runs (a second font, bidi, soft hyphen, emphasis)
func canvasText(r *vlib.Rng) string {
	txt := vlib.Pick(r, []string{"ab", "some words", "x", "a&#x200b;b", "&#x5d0;&#x5d1; ab", "t u v"})
	switch r.Intn(5) {
	case 0:
		return fmt.Sprintf(`<span style="font-family:weasyprint">%s</span>`, txt)
	case 1:
		return fmt.Sprintf(`%s<span style="font-family:weasyprint;color:%s">liga</span>`, txt, vlib.Pick(r, colors))
	case 2:
		return fmt.Sprintf(`<span style="text-decoration:underline %s">%s</span>`, vlib.Pick(r, []string{"solid", "wavy", "double"}), txt)
	}
	return txt
}

// svg content that switches canvases itself, with text inside
func canvasSVG(r *vlib.Rng) string {
	fam := vlib.Pick(r, []string{"Ahem", "weasyprint"})
	text := func(extra string) string {
		return fmt.Sprintf(`<text x="%d" y="12" font-family="%s" font-size="%s" %s>a<tspan fill="red">b</tspan></text>`, r.Range(0, 12), fam, vlib.Pick(r, []string{"8", "3", "12"}), extra)
	}
	anchor := vlib.Pick(r, []string{"", `text-anchor="middle"`, `text-anchor="end"`})
	var body string
	switch r.Intn(7) {
	case 0:
		body = fmt.Sprintf(`<g opacity="%s">%s<rect width="5" height="5"/></g>`, vlib.Pick(r, []string{"0.5", "0", "0.999"}), text(anchor))
	case 1:
		body = fmt.Sprintf(`<g opacity="0.5"><g opacity="0.25">%s</g>%s</g>%s`, text(anchor), text(""), text(anchor))
	case 2:
		body = fmt.Sprintf(`<defs><pattern id="p" width="14" height="14" patternUnits="userSpaceOnUse">%s<rect width="2" height="2" fill="red"/></pattern></defs><rect width="30" height="20" fill="url(#p)"/>%s`, text(""), text(anchor))
	case 3:
		body = fmt.Sprintf(`<defs><mask id="m">%s<rect width="10" height="10" fill="white"/></mask></defs><rect width="20" height="20" mask="url(#m)"/>%s`, text(anchor), text(""))
	case 4:
		body = fmt.Sprintf(`%s<g opacity="0.4" transform="%s">%s</g>%s`, text(anchor), vlib.Pick(r, []string{"scale(0)", "translate(2,2)", "matrix(1 2 2 4 0 0)"}), text(""), text(""))
	case 5:
		body = fmt.Sprintf(`<text x="2" y="10" font-family="%s" font-size="8" opacity="0.5" %s>ab<tspan opacity="0.3" dx="1">cd</tspan></text>`, fam, anchor)
	default:
		body = fmt.Sprintf(`<defs><g id="u" opacity="0.6">%s</g></defs><use href="#u"/><use href="#u" x="5" y="9" opacity="0.5"/>`, text(anchor))
	}
	return fmt.Sprintf(`<svg xmlns="http://www.w3.org/2000/svg" width="40" height="24" viewBox="0 0 40 24">%s</svg>`, body)
}

// content of a box: text, boxes painted at other stacking levels, replaced boxes
func canvasContent(r *vlib.Rng, depth int) string {
	var sb strings.Builder
	for i, n := 0, r.Range(1, 3); i < n; i++ {
		switch r.Intn(10) {
		case 0:
			fmt.Fprintf(&sb, `<span style="display:inline-block;background:%s;%s">%s</span>`, vlib.Pick(r, colors), canvasSwitch(r), canvasText(r))
		case 1:
			fmt.Fprintf(&sb, `<div style="float:%s;width:20px;%s">%s</div>`, vlib.Pick(r, []string{"left", "right"}), canvasSwitch(r), canvasText(r))
		case 2:
			fmt.Fprintf(&sb, `<div style="position:%s;z-index:%s;background:%s;%s">%s</div>`, vlib.Pick(r, []string{"relative", "absolute"}),
				vlib.Pick(r, []string{"-1", "0", "1", "auto", "2"}), vlib.Pick(r, colors), canvasSwitch(r), canvasText(r))
		case 3:
			fmt.Fprintf(&sb, `<ul style="margin:0 0 0 12px;padding:0"><li style="list-style:%s">%s</li></ul>`, vlib.Pick(r, []string{"disc", "decimal", `"m"`, "inside square"}), canvasText(r))
		case 4:
			sb.WriteString(canvasSVG(r))
		case 5:
			fmt.Fprintf(&sb, `<img src="%s" style="width:8px;height:8px">`, pngURI)
		case 6:
			if depth > 0 {
				sb.WriteString(canvasNest(r, depth-1))
				break
			}
			fallthrough
		default:
			fmt.Fprintf(&sb, `<p style="background:%s">%s</p>`, vlib.Pick(r, []string{"none", "red", "linear-gradient(red, blue)"}), canvasText(r))
		}
	}
	return sb.String()
}

// declarations that make the box switch canvas (or not), possibly with an early exit
func canvasSwitch(r *vlib.Rng) string {
	op := func() string { return vlib.Pick(r, []string{"0.5", "0.5", "0", "0.999", "0.25"}) }
	switch r.Intn(9) {
	case 0, 1:
		return "opacity:" + op()
	case 2:
		return fmt.Sprintf("opacity:%s;transform:%s", op(), vlib.Pick(r, regularTransforms))
	case 3:
		return fmt.Sprintf("opacity:%s;transform:%s", op(), vlib.Pick(r, singularTransforms))
	case 4:
		return "transform:" + vlib.Pick(r, singularTransforms)
	case 5:
		return fmt.Sprintf("opacity:%s;overflow:hidden;border-radius:3px", op())
	case 6:
		return fmt.Sprintf("opacity:%s;visibility:hidden", op())
	case 7:
		svg := `<svg xmlns="http://www.w3.org/2000/svg" width="14" height="12"><text x="0" y="10" font-family="Ahem" font-size="8" fill="blue">ab</text><g opacity="0.5"><text x="3" y="10" font-family="weasyprint" font-size="6">c</text></g></svg>`
		return fmt.Sprintf(`background:url('%s') %s`, svgURI(svg), vlib.Pick(r, []string{"repeat", "space", "round", "no-repeat"}))
	}
	return ""
}

// a box switching canvas with content inside, nested `depth` times
func canvasNest(r *vlib.Rng, depth int) string {
	tag := vlib.Pick(r, []string{"div", "div", "section"})
	return fmt.Sprintf(`<%s style="%s;background:%s;outline:%s">%s%s</%s>`, tag, canvasSwitch(r), vlib.Pick(r, []string{"none", "#0f0", "linear-gradient(red, blue)"}),
		vlib.Pick(r, []string{"none", "1px solid red"}), canvasContent(r, depth), canvasText(r), tag)
}

func probeCanvases(r *vlib.Rng) probe {
	depth := r.Range(0, 2)
	var sb strings.Builder
	// something painted before, the nest, something painted after it (same probe:
	// the violation must survive the isolation of the probe)
	if r.Bool() {
		fmt.Fprintf(&sb, `<p>%s</p>`, canvasText(r))
	}
	wrap := r.Chance(1, 3)
	if wrap {
		fmt.Fprintf(&sb, `<div style="opacity:%s">`, vlib.Pick(r, []string{"0.5", "0.75"}))
	}
	for i, n := 0, r.Range(1, 2); i < n; i++ {
		sb.WriteString(canvasNest(r, depth))
	}
	fmt.Fprintf(&sb, `<p style="background:%s">%s</p>`, vlib.Pick(r, []string{"none", "blue"}), canvasText(r))
	if wrap {
		sb.WriteString(`</div>`)
	}
	html := sb.String()
	tags := []string{"probe=canvases", fmt.Sprintf("canvas-depth=%d", depth)}
	for _, t := range [][2]string{{"opacity:", "opacity"}, {"<svg", "svg"}, {"text-anchor", "svg-text-anchor"}, {"<pattern", "svg-pattern"}, {"<mask", "svg-mask"},
		{"background:url(", "bg-svg-text"}, {"list-style", "marker"}, {"font-family:weasyprint", "two-fonts"}, {"z-index", "z-index"}, {"float:", "float"}, {"inline-block", "inline-block"}} {
		if strings.Contains(html, t[0]) {
			tags = append(tags, t[1])
		}
	}
	for _, s := range singularTransforms {
		if strings.Contains(html, "transform:"+s) {
			tags = append(tags, "singular-transform")
			break
		}
	}
	return probe{HTML: html, Tags: tags}
}
