// Printers of the C14 harness: Go values as Coq terms of Check.C14.
package main

import (
	"fmt"
	"strings"

	"verifharness/vlib"

	"github.com/benoitkugler/webrender/backend"
	"github.com/benoitkugler/webrender/html/document"
)

func cName(s string) string { return vlib.Bytes(s) }

func cPos(x, y Fl) string { return fmt.Sprintf("(mkpos %s %s)", vlib.Q32(x), vlib.Q32(y)) }

func cRect(r [4]Fl) string {
	return fmt.Sprintf("(mkrect %s %s %s %s)", vlib.Q32(r[0]), vlib.Q32(r[1]), vlib.Q32(r[2]), vlib.Q32(r[3]))
}

func cLtype(t string) string {
	switch t {
	case "internal":
		return "LInternal"
	case "external":
		return "LExternal"
	case "attachment":
		return "LAttachment"
	}
	return "LOther"
}

func cLink(l document.Link) string {
	return fmt.Sprintf("(mklink %s %s %s)", cLtype(l.Type), cName(l.Target), cRect(l.Rectangle))
}

func cRecLink(l RecLink) string {
	return fmt.Sprintf("(mklink %s %s %s)", cLtype(l.Kind), cName(l.Target), cRect(l.R))
}

func cAnchor(name string, x, y Fl) string {
	return fmt.Sprintf("(mkanchor %s %s)", cName(name), cPos(x, y))
}

func cBookmark(b document.VerifBookmark) string {
	return fmt.Sprintf("(mkbk %s %s %s %s)", vlib.Z(b.Level), cName(b.Label), cPos(b.X, b.Y), vlib.Bool(b.Open))
}

func mapS[T any](l []T, f func(T) string) string {
	out := make([]string, len(l))
	for i, x := range l {
		out[i] = f(x)
	}
	return "[" + strings.Join(out, "; ") + "]"
}

func cPage(p document.VerifPageData) string {
	return fmt.Sprintf("(mkpage %s %s %s)",
		mapS(p.Anchors, func(a document.VerifAnchor) string { return cAnchor(a.Name, a.X, a.Y) }),
		mapS(p.Links, cLink), mapS(p.Bookmarks, cBookmark))
}

// a BookmarkNode as a Check.C14 node (the level is not part of BookmarkNode: 0)
func cNode(n backend.BookmarkNode) string {
	return fmt.Sprintf("(Node (mkentry 0 %s %s %s %s) %s)", cName(n.Label), vlib.Z(n.PageIndex), cPos(n.X, n.Y),
		vlib.Bool(n.Open), mapS(n.Children, cNode))
}

func finitePagesData(ps []document.VerifPageData) bool {
	for _, p := range ps {
		for _, a := range p.Anchors {
			if !vlib.Finite32(a.X, a.Y) {
				return false
			}
		}
		for _, l := range p.Links {
			if !vlib.Finite32(l.Rectangle[:]...) {
				return false
			}
		}
		for _, b := range p.Bookmarks {
			if !vlib.Finite32(b.X, b.Y) {
				return false
			}
		}
	}
	return true
}

func outlineDesc(ns []backend.BookmarkNode) []interface{} {
	var out []interface{}
	for _, n := range ns {
		out = append(out, map[string]interface{}{"label": n.Label, "page": n.PageIndex, "children": outlineDesc(n.Children)})
	}
	return out
}
