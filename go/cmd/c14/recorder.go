// Recording backend of the C14 harness: implements backend.Document / Page /
// Canvas / GraphicState and keeps, for every call, the canvas it was made on,
// all its float arguments (for the finiteness monitor) and the fonts involved.
// (vlib/render's recorder does not keep the canvas of path operations nor font
// identities, which the protocol automaton of Draw/Protocol.v needs.)
package main

import (
	"fmt"
	"math"
	"runtime"
	"sort"
	"strings"
	"time"

	"github.com/benoitkugler/webrender/backend"
	"github.com/benoitkugler/webrender/css/parser"
	"github.com/benoitkugler/webrender/matrix"
	"github.com/benoitkugler/webrender/utils"
)

type Fl = utils.Fl

// Ev is one backend call.
type Ev struct {
	Op    string // Coq constructor of Draw.Protocol.call
	C     int    // canvas (0 for document level calls)
	G     int    // second canvas (group) or small integer argument, -1 if unused
	Nums  []Fl
	Fonts []int
	S     string
	HasG  bool
}

type Rec struct {
	Ev        []Ev
	Pages     []int // canvas id of every AddPage, in order
	PageArgs  [][4]Fl
	Anchors   [][]backend.Anchor
	GotAnch   bool
	Bookmarks []backend.BookmarkNode
	GotBk     bool
	Meta      map[string][]string
	Created   time.Time
	Modified  time.Time
	Attach    []backend.Attachment
	Embedded  []string
	Links     [][]RecLink // per page
	Boxes     [][]RecBox  // per page: media / trim / bleed
	nextID    int
	fonts     map[backend.Font]int
	fontReg   map[int]bool
	// harness side shadow of the per canvas path state: only used to attach the
	// Go call site to the violations the Coq monitor reports (tags of known findings)
	path  map[int]*pathState
	viols []Viol
	// shadow of the per canvas resources (rules 8, 12, 13 of Draw/Protocol.v)
	fontsOn   map[[2]int]bool // (canvas, font) registered by AddFont on that canvas
	pending   map[int]int     // group -> parent canvas, until it is consumed
	groupSite map[int]string  // /repo call site of the NewGroup
	dirty     map[int]bool    // canvases that received painting
	finished  bool
}

type pathState struct{ hasPath, hasPoint bool }

// Viol is a protocol violation seen by the shadow, with the /repo call site.
type Viol struct {
	I    int
	Rule int
	What string
	Site string
}

func (r *Rec) ps(c int) *pathState {
	if r.path == nil {
		r.path = map[int]*pathState{}
	}
	if r.path[c] == nil {
		r.path[c] = &pathState{}
	}
	return r.path[c]
}

// first frame of the call stack inside /repo
func repoSite() string {
	pcs := make([]uintptr, 32)
	n := runtime.Callers(3, pcs)
	frames := runtime.CallersFrames(pcs[:n])
	for {
		f, more := frames.Next()
		if strings.HasPrefix(f.File, "/repo/") {
			fn := f.Function
			if i := strings.LastIndex(fn, "/"); i >= 0 {
				fn = fn[i+1:]
			}
			if i := strings.Index(fn, ".func"); i >= 0 { // closures
				fn = fn[:i]
			}
			return strings.TrimPrefix(f.File, "/repo/") + ":" + fn
		}
		if !more {
			return "?"
		}
	}
}

func (r *Rec) viol(rule int, what string) {
	r.viols = append(r.viols, Viol{I: len(r.Ev), Rule: rule, What: what, Site: repoSite()})
}

func (r *Rec) shadow() []Viol { return r.viols }

// consume: group g is handed to canvas c (DrawWithOpacity / SetColorPattern / SetAlphaMask)
func (r *Rec) consume(c, g int, what string) {
	if p, ok := r.pending[g]; !ok || p != c {
		r.viol(12, what+" with a canvas that is not an unconsumed group of this canvas")
	}
	delete(r.pending, g)
}

// finish adds the final condition (rule 13): a group that received painting and was
// never composited.  Reported at index len(Ev), with the call site of its NewGroup.
func (r *Rec) finish() {
	if r.finished {
		return
	}
	r.finished = true
	var gs []int
	for g := range r.pending {
		if r.dirty[g] {
			gs = append(gs, g)
		}
	}
	sort.Ints(gs)
	for _, g := range gs {
		r.viols = append(r.viols, Viol{I: len(r.Ev), Rule: 13,
			What: fmt.Sprintf("group %d of canvas %d received painting and was never composited", g, r.pending[g]), Site: r.groupSite[g]})
	}
}

// tags of the violations of one rule: one per site, and "rule<r>-only@<site>"
// when every violation of the rule comes from that single site
func (r *Rec) shadowTags(rule int) []string {
	seen := map[string]bool{}
	var out, sites []string
	for _, v := range r.viols {
		if v.Rule != rule {
			continue
		}
		t := fmt.Sprintf("rule%d@%s", v.Rule, v.Site)
		if !seen[t] {
			seen[t] = true
			out = append(out, t)
			sites = append(sites, v.Site)
		}
	}
	if len(sites) == 1 {
		out = append(out, fmt.Sprintf("rule%d-only@%s", rule, sites[0]))
	}
	sort.Strings(out)
	return out
}

type RecLink struct {
	Kind   string // internal | external | attachment
	Target string
	R      [4]Fl
}

type RecBox struct {
	Kind string
	R    [4]Fl
}

func NewRec() *Rec {
	return &Rec{Meta: map[string][]string{}, fonts: map[backend.Font]int{}, fontReg: map[int]bool{},
		fontsOn: map[[2]int]bool{}, pending: map[int]int{}, groupSite: map[int]string{}, dirty: map[int]bool{}}
}

// maxEvents bounds a recorded trace: a drawing loop that never ends (a hang,
// not a protocol violation: C01's) must not exhaust the memory of the harness.
const maxEvents = 400000

const runawayMsg = "c14-runaway: more than 400000 backend calls"

func (r *Rec) add(e Ev) {
	if len(r.Ev) >= maxEvents {
		panic(runawayMsg)
	}
	for _, x := range e.Nums {
		if !finite(x) {
			r.viols = append(r.viols, Viol{I: len(r.Ev), Rule: 2, What: "non finite argument", Site: repoSite()})
			break
		}
	}
	r.Ev = append(r.Ev, e)
}

func (r *Rec) fontID(f backend.Font) int {
	if id, ok := r.fonts[f]; ok {
		return id
	}
	id := len(r.fonts) + 1
	r.fonts[f] = id
	return id
}

// ---- backend.Document

func (r *Rec) AddPage(left, top, right, bottom Fl) backend.Page {
	r.nextID++
	p := &recPage{canvas: canvas{rec: r, id: r.nextID}, page: len(r.Pages)}
	r.Pages = append(r.Pages, p.id)
	r.PageArgs = append(r.PageArgs, [4]Fl{left, top, right, bottom})
	r.Links = append(r.Links, nil)
	r.Boxes = append(r.Boxes, nil)
	r.add(Ev{Op: "CAddPage", C: p.id, Nums: []Fl{left, top, right, bottom}})
	return p
}

func (r *Rec) CreateAnchors(anchors [][]backend.Anchor) {
	r.Anchors, r.GotAnch = anchors, true
	var nums []Fl
	for _, l := range anchors {
		for _, a := range l {
			nums = append(nums, a.X, a.Y)
		}
	}
	r.add(Ev{Op: "CDoc", G: 0, HasG: true, Nums: nums})
}

func (r *Rec) SetAttachments(as []backend.Attachment) {
	r.Attach = as
	r.add(Ev{Op: "CDoc", G: 1, HasG: true})
}

func (r *Rec) EmbedFile(fileID string, a backend.Attachment) {
	r.Embedded = append(r.Embedded, fileID)
	r.add(Ev{Op: "CEmbed", S: fileID})
}
func (r *Rec) SetTitle(s string)       { r.Meta["title"] = []string{s}; r.doc(3) }
func (r *Rec) SetDescription(s string) { r.Meta["description"] = []string{s}; r.doc(3) }
func (r *Rec) SetCreator(s string)     { r.Meta["generator"] = []string{s}; r.doc(3) }
func (r *Rec) SetAuthors(s []string)   { r.Meta["authors"] = append([]string{}, s...); r.doc(3) }
func (r *Rec) SetKeywords(s []string)  { r.Meta["keywords"] = append([]string{}, s...); r.doc(3) }
func (r *Rec) SetProducer(s string)    { r.Meta["producer"] = []string{s}; r.doc(3) }
func (r *Rec) SetDateCreation(d time.Time) {
	r.Created = d
	r.doc(3)
}

func (r *Rec) SetDateModification(d time.Time) {
	r.Modified = d
	r.doc(3)
}
func (r *Rec) doc(k int) { r.add(Ev{Op: "CDoc", G: k, HasG: true}) }

func (r *Rec) SetBookmarks(root []backend.BookmarkNode) {
	r.Bookmarks, r.GotBk = root, true
	var nums []Fl
	var walk func(l []backend.BookmarkNode)
	walk = func(l []backend.BookmarkNode) {
		for _, n := range l {
			nums = append(nums, n.X, n.Y)
			walk(n.Children)
		}
	}
	walk(root)
	r.add(Ev{Op: "CDoc", G: 2, HasG: true, Nums: nums})
}

// ---- backend.Page

type recPage struct {
	canvas
	page int
}

func (p *recPage) link(kind string, k int, xMin, yMin, xMax, yMax Fl, target string) {
	p.rec.Links[p.page] = append(p.rec.Links[p.page], RecLink{Kind: kind, Target: target, R: [4]Fl{xMin, yMin, xMax, yMax}})
	p.rec.add(Ev{Op: "CPageLink", C: p.id, G: k, HasG: true, Nums: []Fl{xMin, yMin, xMax, yMax}, S: target})
}

func (p *recPage) AddInternalLink(xMin, yMin, xMax, yMax Fl, anchorName string) {
	p.link("internal", 0, xMin, yMin, xMax, yMax, anchorName)
}

func (p *recPage) AddExternalLink(xMin, yMin, xMax, yMax Fl, url string) {
	p.link("external", 1, xMin, yMin, xMax, yMax, url)
}

func (p *recPage) AddFileAnnotation(xMin, yMin, xMax, yMax Fl, fileID string) {
	p.link("attachment", 2, xMin, yMin, xMax, yMax, fileID)
}

func (p *recPage) box(kind string, l, t, r, b Fl) {
	p.rec.Boxes[p.page] = append(p.rec.Boxes[p.page], RecBox{Kind: kind, R: [4]Fl{l, t, r, b}})
	p.rec.add(Ev{Op: "CPageBox", C: p.id, Nums: []Fl{l, t, r, b}})
}
func (p *recPage) SetMediaBox(l, t, r, b Fl) { p.box("media", l, t, r, b) }
func (p *recPage) SetTrimBox(l, t, r, b Fl)  { p.box("trim", l, t, r, b) }
func (p *recPage) SetBleedBox(l, t, r, b Fl) { p.box("bleed", l, t, r, b) }

// ---- backend.Canvas

type canvas struct {
	rec   *Rec
	id    int
	bbox  [4]Fl
	mat   matrix.Transform
	stack []matrix.Transform
	isSet bool
}

func (c *canvas) ev(op string, nums ...Fl) { c.rec.add(Ev{Op: op, C: c.id, Nums: nums}) }

func (c *canvas) GetBoundingBox() (l, t, r, b Fl) { return c.bbox[0], c.bbox[1], c.bbox[2], c.bbox[3] }
func (c *canvas) SetBoundingBox(l, t, r, b Fl) {
	c.bbox = [4]Fl{l, t, r, b}
	c.ev("CSetBBox", l, t, r, b)
}

func (c *canvas) OnNewStack(f func()) {
	c.ev("CPush")
	if !c.isSet {
		c.mat, c.isSet = matrix.Identity(), true
	}
	saved := c.mat
	f()
	c.mat = saved
	c.ev("CPop")
}
func (c *canvas) State() backend.GraphicState { return (*gstate)(c) }
func (c *canvas) NewGroup(x, y, width, height Fl) backend.Canvas {
	c.rec.nextID++
	g := &canvas{rec: c.rec, id: c.rec.nextID}
	c.rec.pending[g.id] = c.id
	c.rec.groupSite[g.id] = repoSite()
	c.rec.add(Ev{Op: "CNewGroup", C: c.id, G: g.id, HasG: true, Nums: []Fl{x, y, width, height}})
	return g
}

func gid(g backend.Canvas) int {
	switch g := g.(type) {
	case *canvas:
		return g.id
	case *recPage:
		return g.id
	}
	return 0 // never a valid canvas: rejected by the automaton
}

func (c *canvas) DrawWithOpacity(opacity Fl, group backend.Canvas) {
	c.rec.consume(c.id, gid(group), "DrawWithOpacity")
	if c.rec.dirty[gid(group)] {
		c.rec.dirty[c.id] = true
	}
	c.rec.add(Ev{Op: "CDrawWithOpacity", C: c.id, G: gid(group), HasG: true, Nums: []Fl{opacity}})
}

func (c *canvas) Paint(op backend.PaintOp) {
	if st := c.rec.ps(c.id); !st.hasPath {
		c.rec.viol(3, "Paint without a current path")
	} else {
		st.hasPath, st.hasPoint = false, false
	}
	c.rec.dirty[c.id] = true
	c.rec.add(Ev{Op: "CPaint", C: c.id, G: int(op), HasG: true})
}
func (c *canvas) Rectangle(x, y, w, h Fl) {
	st := c.rec.ps(c.id)
	st.hasPath, st.hasPoint = true, true
	c.ev("CRect", x, y, w, h)
}

func (c *canvas) MoveTo(x, y Fl) {
	st := c.rec.ps(c.id)
	st.hasPath, st.hasPoint = true, true
	c.ev("CMoveTo", x, y)
}

func (c *canvas) LineTo(x, y Fl) {
	if !c.rec.ps(c.id).hasPoint {
		c.rec.viol(5, "LineTo without a current point")
	}
	c.ev("CLineTo", x, y)
}

func (c *canvas) CubicTo(x1, y1, x2, y2, x3, y3 Fl) {
	if !c.rec.ps(c.id).hasPoint {
		c.rec.viol(5, "CubicTo without a current point")
	}
	c.ev("CCubicTo", x1, y1, x2, y2, x3, y3)
}

func (c *canvas) ClosePath() {
	if !c.rec.ps(c.id).hasPoint {
		c.rec.viol(6, "ClosePath without a current point")
	}
	c.ev("CClosePath")
}
func (c *canvas) AddFont(font backend.Font, content []byte) *backend.FontChars {
	id := c.rec.fontID(font)
	c.rec.fontReg[id] = true
	c.rec.fontsOn[[2]int{c.id, id}] = true
	c.rec.add(Ev{Op: "CAddFont", C: c.id, G: id, HasG: true})
	return &backend.FontChars{Cmap: map[backend.GID][]rune{}, Extents: map[backend.GID]backend.GlyphExtents{}}
}

func (c *canvas) DrawText(texts []backend.TextDrawing) {
	for _, t := range texts {
		nums := []Fl{t.X, t.Y, t.FontSize, t.ScaleX, t.Angle}
		var fonts []int
		for _, run := range t.Runs {
			if f := c.rec.fontID(run.Font); !c.rec.fontsOn[[2]int{c.id, f}] {
				c.rec.viol(8, fmt.Sprintf("DrawText with font %d never registered by AddFont on canvas %d", f, c.id))
			}
			fonts = append(fonts, c.rec.fontID(run.Font))
			for _, g := range run.Glyphs {
				nums = append(nums, g.Offset, g.Rise, g.XAdvance)
			}
		}
		c.rec.dirty[c.id] = true
		c.rec.add(Ev{Op: "CDrawText", C: c.id, Nums: nums, Fonts: fonts, S: string(t.Text)})
	}
}

func (c *canvas) DrawRasterImage(image backend.RasterImage, width, height Fl) {
	c.rec.dirty[c.id] = true
	c.ev("CDrawImage", width, height)
}

func (c *canvas) DrawGradient(gradient backend.GradientLayout, width, height Fl) {
	nums := []Fl{width, height, gradient.ScaleY}
	switch gradient.Kind {
	case "linear":
		nums = append(nums, gradient.Coords[:4]...)
	case "radial":
		nums = append(nums, gradient.Coords[:]...)
	}
	nums = append(nums, gradient.Positions...)
	for _, col := range gradient.Colors {
		nums = append(nums, col.R, col.G, col.B, col.A)
	}
	c.rec.dirty[c.id] = true
	c.ev("CDrawGradient", nums...)
}

// ---- backend.GraphicState

type gstate canvas

func (g *gstate) c() *canvas { return (*canvas)(g) }
func (g *gstate) SetAlphaMask(mask backend.Canvas) {
	g.rec.consume(g.id, gid(mask), "SetAlphaMask")
	g.rec.add(Ev{Op: "CSetAlphaMask", C: g.id, G: gid(mask), HasG: true})
}

func (g *gstate) Clip(evenOdd bool) {
	if st := g.rec.ps(g.id); !st.hasPath {
		g.rec.viol(4, "Clip without a current path")
	} else {
		st.hasPath, st.hasPoint = false, false
	}
	k := 0
	if evenOdd {
		k = 1
	}
	g.rec.add(Ev{Op: "CClip", C: g.id, G: k, HasG: true})
}
func (g *gstate) SetAlpha(alpha Fl, stroke bool) { g.c().ev("CSetAlpha", alpha) }
func (g *gstate) SetColorRgba(color parser.RGBA, stroke bool) {
	g.c().ev("CSetColor", color.R, color.G, color.B, color.A)
}

func (g *gstate) SetColorPattern(pattern backend.Canvas, contentWidth, contentHeight Fl, mat matrix.Transform, stroke bool) {
	g.rec.consume(g.id, gid(pattern), "SetColorPattern")
	g.rec.add(Ev{Op: "CSetColorPattern", C: g.id, G: gid(pattern), HasG: true,
		Nums: []Fl{contentWidth, contentHeight, mat.A, mat.B, mat.C, mat.D, mat.E, mat.F}})
}
func (g *gstate) SetBlendingMode(mode string) { g.c().ev("CSetBlend") }
func (g *gstate) SetLineWidth(width Fl)       { g.c().ev("CSetLineWidth", width) }
func (g *gstate) SetDash(dashes []Fl, offset Fl) {
	g.c().ev("CSetDash", append([]Fl{offset}, dashes...)...)
}

func (g *gstate) SetStrokeOptions(o backend.StrokeOptions) {
	g.c().ev("CSetStrokeOptions", o.MiterLimit)
}

func (g *gstate) GetTransform() matrix.Transform {
	if !g.isSet {
		return matrix.Identity()
	}
	return g.mat
}

func (g *gstate) Transform(mt matrix.Transform) {
	if !g.isSet {
		g.mat, g.isSet = matrix.Identity(), true
	}
	g.mat.RightMultBy(mt)
	g.c().ev("CTransform", mt.A, mt.B, mt.C, mt.D, mt.E, mt.F)
}
func (g *gstate) SetTextPaint(op backend.PaintOp) { g.c().ev("CSetTextPaint") }

// ---- printing as Coq terms

func finite(x Fl) bool { return !math.IsNaN(float64(x)) && !math.IsInf(float64(x), 0) }

// nums prints the finiteness summary of the float arguments of a call:
// `(K n)` when all n are finite, `(Bad [...])` otherwise.
func coqNums(xs []Fl) (string, bool) {
	ok := true
	for _, x := range xs {
		if !finite(x) {
			ok = false
		}
	}
	if ok {
		return fmt.Sprintf("(K %d)", len(xs)), true
	}
	parts := make([]string, len(xs))
	for i, x := range xs {
		switch {
		case math.IsNaN(float64(x)):
			parts[i] = "NaN"
		case math.IsInf(float64(x), 1):
			parts[i] = "PInf"
		case math.IsInf(float64(x), -1):
			parts[i] = "NInf"
		default:
			parts[i] = "Fin"
		}
	}
	return "(Bad [" + strings.Join(parts, ";") + "])", false
}

// Coq prints the call as a term of type Draw.Protocol.call
func (e Ev) Coq() string {
	n, _ := coqNums(e.Nums)
	switch e.Op {
	case "CPush", "CPop", "CClosePath", "CSetBlend", "CSetTextPaint":
		return fmt.Sprintf("%s %d", e.Op, e.C)
	case "CPaint", "CClip", "CAddFont", "CSetAlphaMask":
		return fmt.Sprintf("%s %d %d", e.Op, e.C, e.G)
	case "CNewGroup", "CDrawWithOpacity", "CSetColorPattern", "CPageLink":
		return fmt.Sprintf("%s %d %d %s", e.Op, e.C, e.G, n)
	case "CDrawText":
		fs := make([]string, len(e.Fonts))
		for i, f := range e.Fonts {
			fs[i] = fmt.Sprint(f)
		}
		return fmt.Sprintf("CDrawText %d [%s] %s", e.C, strings.Join(fs, ";"), n)
	case "CDoc":
		return fmt.Sprintf("CDoc %d %s", e.G, n)
	case "CEmbed":
		return "CEmbed"
	default:
		return fmt.Sprintf("%s %d %s", e.Op, e.C, n)
	}
}

func (e Ev) String() string {
	s := fmt.Sprintf("%s c=%d", e.Op[1:], e.C)
	if e.HasG {
		s += fmt.Sprintf(" g=%d", e.G)
	}
	if len(e.Nums) > 0 {
		s += fmt.Sprintf(" %v", e.Nums)
	}
	if len(e.Fonts) > 0 {
		s += fmt.Sprintf(" fonts=%v", e.Fonts)
	}
	if e.S != "" {
		s += fmt.Sprintf(" %q", e.S)
	}
	return s
}
