// Document generator of the C14 harness.  A generated document is a list of
// forced pages (break-before: page); every page is a list of small items.
// The generator records what it wrote (ids, links, headings per page): this is
// the input of the KExpect cases, independent of anything the implementation
// computes.
package main

import (
	"bytes"
	"encoding/base64"
	"fmt"
	"image"
	"image/color"
	"image/png"
	"strings"

	"verifharness/vlib"
)

type gItem struct {
	Kind   string // id | link | head
	Name   string // id name / link target / heading label
	LType  string // internal | external | attachment
	Level  int
	NoBook bool
}

type genDoc struct {
	HTML     string
	Pages    [][]gItem
	Tags     map[string]bool
	Exact    bool // the generator knows the structure (KExpect applicable)
	HeadSrc  string
	PageW    int
	PageH    int
	MetaDesc string
}

var idPool = []string{"a", "b", "c", "d", "e", "sec1", "x-y", "Z9", "n0", "top"}

var pngURI string

func init() {
	img := image.NewRGBA(image.Rect(0, 0, 4, 4))
	for x := 0; x < 4; x++ {
		for y := 0; y < 4; y++ {
			img.Set(x, y, color.RGBA{uint8(60 * x), uint8(60 * y), 128, 255})
		}
	}
	var buf bytes.Buffer
	png.Encode(&buf, img)
	pngURI = "data:image/png;base64," + base64.StdEncoding.EncodeToString(buf.Bytes())
}

var borderStyles = []string{"solid", "dashed", "dotted", "double", "groove", "ridge", "inset", "outset", "none", "hidden"}

var transforms = []string{
	"rotate(10deg)", "rotate(-45deg)", "scale(2)", "scale(0.5, 2)", "translate(5px, 10%)", "skew(10deg, 5deg)",
	"matrix(1, 0.5, -0.5, 1, 3, 4)", "scale(0)", "scale(1, 0)", "rotate(90deg) translate(10px)", "matrix(0,0,0,0,0,0)",
	"scale(-1, 1)", "translate(50%, 50%) rotate(180deg)",
}

// transforms of the wrappers of genDocument: finite, mostly regular, small numbers
var nestTransforms = []string{
	"rotate(10deg)", "rotate(-45deg)", "rotate(90deg)", "scale(2)", "scale(0.5, 2)", "translate(5px, 10%)", "translate(-7px, 3px)",
	"skew(10deg, 5deg)", "matrix(1, 0.5, -0.5, 1, 3, 4)", "scale(-1, 1)", "translate(50%, 50%) rotate(180deg)", "rotate(30deg) scale(1.5)",
	"scale(0)", "translate(0, 0)", "scale(1)",
}

var lengths = []string{"0", "0px", "1px", "2px", "3.5px", "7px", "10px", "25px", "40px", "50%", "1em", "0.1px"}

func pickLen(r *vlib.Rng) string { return vlib.Pick(r, lengths) }

var colors = []string{"red", "#00f", "rgba(0,128,0,0.5)", "transparent", "black", "#abc", "rgb(10,20,30)", "currentColor", "hsl(120, 50%, 50%)"}

var backgrounds = []string{
	"red", "linear-gradient(red, blue)", "linear-gradient(45deg, red 0%, blue 50%, green 100%)",
	"radial-gradient(circle, red, blue)", "radial-gradient(ellipse at top left, red, blue 30px)",
	"repeating-linear-gradient(red, blue 5px)", "repeating-radial-gradient(red, blue 0)",
	"linear-gradient(red 50%, blue 50%)", "radial-gradient(0px 0px, red, blue)", "url(PNG)", "url(PNG) no-repeat center / 50% 50%",
	"url(PNG) repeat-x 0 0 / 0 0", "url(SVGIMG)", "linear-gradient(red, red)", "radial-gradient(closest-side at 0 0, red, blue)",
	"url(PNG) space", "url(PNG) round",
}

var svgSnippets = []string{
	`<rect x="1" y="1" width="20" height="10" fill="red" stroke="blue" stroke-width="2"/>`,
	`<rect x="1" y="1" width="20" height="10" rx="3" ry="4" fill="none" stroke="black" stroke-dasharray="3 2" stroke-dashoffset="1"/>`,
	`<rect width="0" height="10" fill="red"/>`,
	`<circle cx="10" cy="10" r="5" fill="green" opacity="0.5"/>`,
	`<circle cx="10" cy="10" r="0"/>`,
	`<ellipse cx="10" cy="10" rx="8" ry="3" fill="url(#g1)"/>`,
	`<line x1="0" y1="0" x2="20" y2="20" stroke="black"/>`,
	`<polyline points="0,0 10,5 20,0" fill="none" stroke="red"/>`,
	`<polygon points="0,0 10,5 20,0"/>`,
	`<polygon points=""/>`,
	`<path d="M0 0 L10 10 Z" fill="blue" stroke="black"/>`,
	`<path d="M0 0 L10 10 Z L2 2 Z" fill="blue"/>`,
	`<path d="M1 1 C 2 2 3 3 4 4 S 5 5 6 6 Q 7 7 8 8 T 9 9 A 5 5 0 0 1 20 20 H 3 V 4 z" stroke="red" fill="none"/>`,
	`<path d="" fill="blue"/>`,
	`<path d="L 5 5" stroke="red"/>`,
	`<path d="M0 0 A 0 0 0 0 0 10 10" stroke="red"/>`,
	`<g transform="translate(5,5) rotate(30)"><rect width="5" height="5"/><circle r="2"/></g>`,
	`<g transform="scale(0)"><rect width="5" height="5"/></g>`,
	`<g opacity="0.3"><rect width="5" height="5"/></g>`,
	`<defs><linearGradient id="g1"><stop offset="0" stop-color="red"/><stop offset="1" stop-color="blue"/></linearGradient></defs><rect width="20" height="20" fill="url(#g1)"/>`,
	`<defs><radialGradient id="g2" r="0"><stop offset="0" stop-color="red"/><stop offset="1" stop-color="blue"/></radialGradient></defs><rect width="20" height="20" fill="url(#g2)"/>`,
	`<defs><pattern id="p1" width="4" height="4" patternUnits="userSpaceOnUse"><rect width="2" height="2" fill="red"/></pattern></defs><rect width="20" height="20" fill="url(#p1)"/>`,
	`<defs><clipPath id="c1"><circle cx="5" cy="5" r="5"/></clipPath></defs><rect width="20" height="20" clip-path="url(#c1)"/>`,
	`<defs><mask id="m1"><rect width="10" height="10" fill="white"/></mask></defs><rect width="20" height="20" mask="url(#m1)"/>`,
	`<defs><marker id="mk" markerWidth="4" markerHeight="4" refX="2" refY="2"><circle cx="2" cy="2" r="2"/></marker></defs><polyline points="0,0 10,5 20,0" fill="none" stroke="red" marker-start="url(#mk)" marker-mid="url(#mk)" marker-end="url(#mk)"/>`,
	`<defs><rect id="u1" width="5" height="5"/></defs><use href="#u1" x="3" y="3"/><use href="#u1" x="9" y="9" fill="red"/>`,
	`<text x="2" y="12" font-family="Ahem" font-size="8">ab</text>`,
	`<text x="2" y="12" font-family="Ahem" font-size="8" text-anchor="middle">a<tspan dx="2" fill="red">b</tspan></text>`,
	`<text x="2" y="12" font-size="0">ab</text>`,
	`<image href="PNG" width="10" height="10"/>`,
	`<svg x="2" y="2" width="10" height="10" viewBox="0 0 0 0"><rect width="5" height="5"/></svg>`,
	`<rect width="10" height="10" transform="matrix(0 0 0 0 0 0)"/>`,
	`<rect width="1e40" height="10"/>`,
	`<circle cx="1e39" cy="0" r="5"/>`,
	`<rect width="10" height="10" stroke="red" stroke-width="0"/>`,
	`<rect width="10" height="10" stroke="red" stroke-dasharray="0 0"/>`,
	`<rect width="10" height="10" stroke="red" stroke-dasharray="-1 2"/>`,
	`<rect width="50%" height="50%" fill-opacity="0.5" stroke-opacity="0.2" stroke="red"/>`,
}

func svgInline(r *vlib.Rng) string {
	var sb strings.Builder
	attrs := vlib.Pick(r, []string{`width="40" height="30"`, `width="40" height="30" viewBox="0 0 40 30"`, `viewBox="0 0 20 20" width="30"`,
		`width="0" height="0"`, `width="40" height="30" viewBox="0 0 0 0"`, `width="40" height="30" viewBox="0 0 80 30" preserveAspectRatio="xMaxYMid slice"`, ``})
	fmt.Fprintf(&sb, `<svg xmlns="http://www.w3.org/2000/svg" %s>`, attrs)
	for i, n := 0, r.Range(1, 4); i < n; i++ {
		sb.WriteString(strings.ReplaceAll(vlib.Pick(r, svgSnippets), "PNG", pngURI))
	}
	sb.WriteString("</svg>")
	return sb.String()
}

// a small decorated element without id / link / heading
func decoration(r *vlib.Rng, tags map[string]bool) string {
	var st []string
	add := func(f string, a ...interface{}) { st = append(st, fmt.Sprintf(f, a...)) }
	kind := r.Intn(12)
	switch kind {
	case 0:
		tags["svg"] = true
		return "<div>" + svgInline(r) + "</div>"
	case 1:
		tags["img"] = true
		src := pngURI
		if r.Chance(1, 3) {
			tags["svg"] = true
			src = svgDataURI(r)
		}
		return fmt.Sprintf(`<div><img src="%s" style="width:%s;height:%s;image-rendering:%s"></div>`, src, pickLen(r), pickLen(r),
			vlib.Pick(r, []string{"auto", "pixelated", "crisp-edges"}))
	case 2:
		tags["table"] = true
		return fmt.Sprintf(`<table style="border-collapse:%s;border:%s %s %s"><tr><td style="border:%s %s %s;background:%s">x</td><td>y</td></tr></table>`,
			vlib.Pick(r, []string{"collapse", "separate"}), pickLen(r), vlib.Pick(r, borderStyles), vlib.Pick(r, colors),
			pickLen(r), vlib.Pick(r, borderStyles), vlib.Pick(r, colors), vlib.Pick(r, colors))
	case 3:
		tags["list"] = true
		return fmt.Sprintf(`<ul style="list-style:%s %s"><li>i</li><li style="list-style-image:url(%s)">j</li></ul>`,
			vlib.Pick(r, []string{"disc", "circle", "square", "decimal", "none", "lower-roman"}), vlib.Pick(r, []string{"inside", "outside"}), pngURI)
	case 4:
		tags["textdeco"] = true
		return fmt.Sprintf(`<p style="text-decoration:%s %s %s;letter-spacing:%s;word-spacing:%s;font-size:%s">de co <span style="vertical-align:super;color:%s;font-family:weasyprint">ra</span> tion</p>`,
			vlib.Pick(r, []string{"underline", "overline", "line-through", "underline overline line-through", "none"}),
			vlib.Pick(r, []string{"solid", "double", "dotted", "dashed", "wavy"}), vlib.Pick(r, colors), pickLen(r), pickLen(r),
			vlib.Pick(r, []string{"10px", "0", "1px", "20px", "0.5px"}), vlib.Pick(r, colors))
	}
	add("width:%s", pickLen(r))
	add("height:%s", pickLen(r))
	if r.Chance(2, 3) {
		tags["background"] = true
		bg := vlib.Pick(r, backgrounds)
		if strings.Contains(bg, "SVGIMG") {
			tags["svg"] = true
			bg = strings.ReplaceAll(bg, "SVGIMG", `"`+svgDataURI(r)+`"`)
		}
		add("background:%s", strings.ReplaceAll(bg, "PNG", pngURI))
		if r.Chance(1, 3) {
			add("background-clip:%s", vlib.Pick(r, []string{"border-box", "padding-box", "content-box"}))
			add("background-origin:%s", vlib.Pick(r, []string{"border-box", "padding-box", "content-box"}))
		}
	}
	if r.Chance(2, 3) {
		tags["border"] = true
		if r.Bool() {
			add("border:%s %s %s", pickLen(r), vlib.Pick(r, borderStyles), vlib.Pick(r, colors))
		} else {
			for _, side := range []string{"top", "right", "bottom", "left"} {
				add("border-%s:%s %s %s", side, pickLen(r), vlib.Pick(r, borderStyles), vlib.Pick(r, colors))
			}
		}
		if r.Bool() {
			tags["radius"] = true
			if r.Bool() {
				add("border-radius:%s", pickLen(r))
			} else {
				add("border-radius:%s %s %s %s / %s %s", pickLen(r), pickLen(r), pickLen(r), pickLen(r), pickLen(r), pickLen(r))
			}
		}
	}
	if r.Chance(1, 3) {
		tags["transform"] = true
		add("transform:%s", vlib.Pick(r, transforms))
		if r.Bool() {
			add("transform-origin:%s %s", pickLen(r), pickLen(r))
		}
	}
	if r.Chance(1, 4) {
		tags["opacity"] = true
		add("opacity:%s", vlib.Pick(r, []string{"0", "0.5", "1", "0.999", "-1", "2"}))
	}
	if r.Chance(1, 4) {
		add("overflow:%s", vlib.Pick(r, []string{"hidden", "auto", "scroll", "visible"}))
	}
	if r.Chance(1, 5) {
		tags["outline"] = true
		add("outline:%s %s %s", pickLen(r), vlib.Pick(r, borderStyles[:8]), vlib.Pick(r, colors))
	}
	if r.Chance(1, 5) {
		add("padding:%s", pickLen(r))
	}
	if r.Chance(1, 6) {
		tags["positioned"] = true
		add("position:%s;top:%s;left:%s;z-index:%d", vlib.Pick(r, []string{"relative", "absolute", "fixed"}), pickLen(r), pickLen(r), r.Range(-2, 2))
	}
	if r.Chance(1, 8) {
		tags["float"] = true
		add("float:%s", vlib.Pick(r, []string{"left", "right"}))
	}
	if r.Chance(1, 8) {
		add("display:%s", vlib.Pick(r, []string{"inline-block", "flex", "none", "block"}))
	}
	if r.Chance(1, 8) {
		add("visibility:hidden")
	}
	if r.Chance(1, 8) {
		add("clip:rect(%s,%s,%s,%s);position:absolute", vlib.Pick(r, []string{"auto", "1px", "5px"}), vlib.Pick(r, []string{"auto", "10px"}),
			vlib.Pick(r, []string{"auto", "10px"}), vlib.Pick(r, []string{"auto", "0px"}))
	}
	if r.Chance(1, 8) {
		add("box-decoration-break:clone;mix-blend-mode:%s", vlib.Pick(r, []string{"multiply", "normal", "screen"}))
		tags["blend"] = true
	}
	content := vlib.Pick(r, []string{"", "", "t", "some text"})
	if r.Chance(1, 8) {
		add("text-overflow:ellipsis;white-space:nowrap;overflow:hidden")
		content = "a long long long text"
	}
	return fmt.Sprintf(`<div style="%s">%s</div>`, strings.Join(st, ";"), content)
}

func svgDataURI(r *vlib.Rng) string {
	s := svgInline(r)
	return "data:image/svg+xml;base64," + base64.StdEncoding.EncodeToString([]byte(s))
}

var extURLs = []string{"http://ext.test/", "http://ext.test/p/q?x=1#frag", "https://ext.test/a", "mailto:a@b.test", "http://verif.test/other.html#a"}

var attURLs = []string{"http://verif.test/f/one.txt", "http://verif.test/f/two.bin", "http://verif.test/missing/none.txt", "data:text/plain,hello"}

func genDocument(r *vlib.Rng) genDoc {
	g := genDoc{Tags: map[string]bool{}, Exact: true}
	nPages := vlib.Pick(r, []int{1, 1, 2, 2, 3, 4, 5})
	g.PageW, g.PageH = vlib.Pick(r, []int{300, 400, 500}), vlib.Pick(r, []int{700, 800, 1000})
	nIDs := r.Range(2, len(idPool))
	pool := idPool[:nIDs]
	rich := r.Chance(3, 5)
	tfNests := r.Chance(1, 2)
	var body strings.Builder
	headN := 0
	for p := 0; p < nPages; p++ {
		var items []gItem
		if p == 0 {
			body.WriteString(`<section class="s0">`)
		} else {
			fmt.Fprintf(&body, `<section class="pb s%d">`, p)
		}
		// transformed wrappers (nesting <= 3) around runs of 0-3 of the following items: ids,
		// links and headings come before, inside and after nested transformed boxes
		var open []int
		closeDone := func() {
			for len(open) > 0 && open[len(open)-1] <= 0 {
				open = open[:len(open)-1]
				body.WriteString("</div>\n")
				if len(open) > 0 {
					open[len(open)-1]--
				}
			}
		}
		nItems := r.Range(0, 7)
		if tfNests && nItems < 4 {
			nItems += 3
		}
		for i, n := 0, nItems; i < n; i++ {
			if tfNests && len(open) < 3 && r.Chance(1+len(open), 4) {
				st := "transform:" + vlib.Pick(r, nestTransforms)
				if r.Chance(1, 3) {
					st += fmt.Sprintf(";transform-origin:%s %s", pickLen(r), pickLen(r))
				}
				if r.Chance(1, 4) {
					st += vlib.Pick(r, []string{";display:inline-block", ";position:relative;left:3px", ";float:left", ";padding:2px;border:1px solid"})
				}
				fmt.Fprintf(&body, `<div style="%s">`, st)
				open = append(open, r.Range(0, 3))
				g.Tags["transform-nest"] = true
				if len(open) > 1 {
					g.Tags["transform-nested"] = true
				}
				closeDone()
			}
			switch k := r.Intn(10); {
			case k <= 2: // heading
				lvl := r.Range(1, 6)
				if r.Chance(1, 4) && p+i > 0 { // tie with / small step from the previous one
					lvl = vlib.Pick(r, []int{1, 2, 2, 3})
				}
				headN++
				label := fmt.Sprintf("H%d", headN)
				if r.Chance(1, 10) {
					label = "Same"
				}
				tag := fmt.Sprintf("h%d", lvl)
				attr := ""
				it := gItem{Kind: "head", Name: label, Level: lvl}
				switch r.Intn(8) {
				case 0:
					nl := r.Range(1, 9)
					attr = fmt.Sprintf(` style="bookmark-level:%d"`, nl)
					it.Level = nl
					g.Tags["bookmark-level"] = true
				case 1:
					attr = ` style="bookmark-level:none"`
					it.NoBook = true
					g.Tags["bookmark-none"] = true
				case 2:
					attr = ` style="bookmark-label:'L` + label + `'"`
					it.Name = "L" + label
					g.Tags["bookmark-label"] = true
				case 3:
					tag = "div"
					nl := r.Range(1, 7)
					attr = fmt.Sprintf(` style="bookmark-level:%d;bookmark-label:content(text)"`, nl)
					it.Level = nl
					g.Tags["bookmark-div"] = true
				case 4:
					attr = ` style="bookmark-state:closed"`
				}
				idAttr := ""
				if r.Chance(1, 3) {
					id := vlib.Pick(r, pool)
					idAttr = fmt.Sprintf(` id="%s"`, id)
					items = append(items, gItem{Kind: "id", Name: id})
				}
				text := label
				if it.Name != label { // explicit label: element text differs
					text = "txt" + label
				}
				if tag == "div" {
					text = label
				}
				if r.Chance(1, 12) {
					text = ""
					if it.Name == label {
						it.NoBook = true // empty label: no bookmark
					}
					if tag == "div" {
						it.NoBook = true
					}
				}
				fmt.Fprintf(&body, "<%s%s%s>%s</%s>\n", tag, idAttr, attr, text, tag)
				if !it.NoBook {
					items = append(items, it)
				}
				g.Tags["heading"] = true
			case k <= 4: // element with id
				id := vlib.Pick(r, pool)
				items = append(items, gItem{Kind: "id", Name: id})
				switch r.Intn(4) {
				case 0:
					fmt.Fprintf(&body, `<p id="%s">para %s</p>`+"\n", id, id)
				case 1:
					fmt.Fprintf(&body, `<p>x <span id="%s">span</span> y</p>`+"\n", id)
				case 2:
					fmt.Fprintf(&body, `<p><a name="%s">named</a></p>`+"\n", id)
				default:
					fmt.Fprintf(&body, `<div id="%s" style="height:5px"></div>`+"\n", id)
				}
			case k <= 7: // paragraph of links
				body.WriteString("<p>")
				for j, m := 0, r.Range(1, 3); j < m; j++ {
					switch r.Intn(6) {
					case 0, 1, 2:
						t := vlib.Pick(r, pool)
						if r.Chance(1, 4) {
							t = vlib.Pick(r, []string{"missing", "nowhere", "A", "a "})
							g.Tags["dangling"] = true
						}
						items = append(items, gItem{Kind: "link", LType: "internal", Name: t})
						fmt.Fprintf(&body, `<a href="#%s">i%d</a> `, strings.ReplaceAll(t, " ", "%20"), j)
					case 3, 4:
						u := vlib.Pick(r, extURLs)
						items = append(items, gItem{Kind: "link", LType: "external", Name: u})
						fmt.Fprintf(&body, `<a href="%s">e%d</a> `, u, j)
					default:
						u := vlib.Pick(r, attURLs)
						items = append(items, gItem{Kind: "link", LType: "attachment", Name: u})
						rel := vlib.Pick(r, []string{"attachment", "ATTACHMENT", "nofollow attachment", "attachment\tx"})
						fmt.Fprintf(&body, `<a rel="%s" href="%s">f%d</a> `, rel, u, j)
						g.Tags["attachment"] = true
					}
				}
				body.WriteString("</p>\n")
				g.Tags["links"] = true
			default:
				if rich {
					body.WriteString(decoration(r, g.Tags))
					body.WriteString("\n")
				} else {
					body.WriteString("<p>plain text</p>\n")
				}
			}
			if len(open) > 0 {
				open[len(open)-1]--
				closeDone()
			}
		}
		for range open {
			body.WriteString("</div>\n")
		}
		body.WriteString("</section>\n")
		g.Pages = append(g.Pages, items)
	}
	// structures the generator does not predict: nested inline content in links, long links
	if r.Chance(1, 6) {
		g.Exact = false
		g.Tags["nested-link"] = true
		fmt.Fprintf(&body, `<p><a href="#%s">li <b>nk</b> <span style="display:inline-block">ib</span></a> <a href="http://ext.test/long">%s</a></p>`,
			vlib.Pick(r, pool), strings.Repeat("word ", 60))
		fmt.Fprintf(&body, `<h2 id="%s" style="transform:rotate(20deg)">rot <a href="#%s" style="display:block;transform:scale(2)">t</a></h2>`, vlib.Pick(r, pool), vlib.Pick(r, pool))
	}

	// head: title / meta / link variety
	var head strings.Builder
	for i, n := 0, r.Range(0, 8); i < n; i++ {
		switch r.Intn(9) {
		case 0:
			fmt.Fprintf(&head, "<title>%s</title>", vlib.Pick(r, []string{"Title", "", "  spaced  title ", "T&amp;<b>x</b>", "Zweiter Titel é"}))
		case 1:
			fmt.Fprintf(&head, `<meta name="%s" content="%s">`, vlib.Pick(r, []string{"author", "Author", "AUTHOR"}), vlib.Pick(r, []string{"Ann", "Bob B.", "", " x "}))
		case 2:
			fmt.Fprintf(&head, `<meta name="%s" content="%s">`, vlib.Pick(r, []string{"keywords", "Keywords"}),
				vlib.Pick(r, []string{"a, b ,c", "a,a, a", "", "x,,y", " one\ttwo ,three\n", "c,b"}))
		case 3:
			fmt.Fprintf(&head, `<meta name="description" content="%s">`, vlib.Pick(r, []string{"Desc", "", "other desc"}))
		case 4:
			fmt.Fprintf(&head, `<meta name="generator" content="%s">`, vlib.Pick(r, []string{"Gen 1.0", "", "G2"}))
		case 5:
			fmt.Fprintf(&head, `<meta name="%s" content="%s">`, vlib.Pick(r, []string{"dcterms.created", "dcterms.modified", "DCTERMS.Created"}), genDate(r))
		case 6:
			fmt.Fprintf(&head, `<link rel="%s" href="%s" title="%s">`, vlib.Pick(r, []string{"attachment", "Attachment stylesheet", "x attachment"}),
				vlib.Pick(r, attURLs), vlib.Pick(r, []string{"", "att title"}))
			g.Tags["link-attachment"] = true
		case 7:
			fmt.Fprintf(&head, `<meta name="other" content="zzz"><meta content="noname"><link rel="attachment">`)
		default:
			fmt.Fprintf(&head, `<meta name="keywords">`)
		}
	}
	if r.Chance(1, 8) {
		body.WriteString(`<svg width="10" height="10"><title>svg title</title><rect width="5" height="5"/></svg><title>body title</title>`)
		g.Tags["svg"] = true
	}
	g.HeadSrc = head.String()
	bleed := ""
	if r.Chance(1, 4) {
		bleed = fmt.Sprintf("bleed:%s;marks:%s;", vlib.Pick(r, []string{"0", "3px", "8px", "20px", "2.5px"}), vlib.Pick(r, []string{"none", "crop", "cross", "crop cross"}))
		g.Tags["bleed"] = true
	}
	pageExtra := ""
	if r.Chance(1, 4) {
		pageExtra = `@page { @top-center { content: "p" counter(page); border: 1px solid red } @bottom-left { content: "x"; background: linear-gradient(red, blue) } } html { background: #eee } `
		g.Tags["margin-boxes"] = true
	}
	// pages of different sizes (Write converts every page with ITS OWN height): @page :first,
	// :left / :right, named pages (sections s0.. get a `page:` name), each with its own width,
	// height, and sometimes margin / bleed; ids, links and headings sit on every page
	if r.Chance(3, 5) {
		pgSize := func() string {
			w, h := vlib.Pick(r, []int{200, 300, 350, 400, 500, 640}), vlib.Pick(r, []int{240, 450, 600, 700, 750, 800, 1000, 1300})
			s := fmt.Sprintf("size: %dpx %dpx;", w, h)
			if r.Chance(1, 8) {
				s = fmt.Sprintf("size: %s;", vlib.Pick(r, []string{"A5", "A6 landscape", "5in 7in", "12cm", "B5 portrait"}))
			}
			if r.Chance(1, 4) {
				s += fmt.Sprintf(" margin: %dpx;", vlib.Pick(r, []int{0, 3, 12}))
			}
			if r.Chance(1, 6) {
				s += fmt.Sprintf(" bleed: %s;", vlib.Pick(r, []string{"0", "4px", "12px"}))
			}
			return s
		}
		mode := r.Intn(4)
		if mode == 0 || r.Chance(1, 3) {
			pageExtra += fmt.Sprintf("@page :first { %s } ", pgSize())
			g.Tags["page-first"] = true
		}
		if mode == 1 {
			for _, side := range []string{"left", "right"} {
				if r.Chance(3, 4) {
					pageExtra += fmt.Sprintf("@page :%s { %s } ", side, pgSize())
				}
			}
			g.Tags["page-left-right"] = true
		}
		if mode >= 2 {
			names := []string{"pga", "pgb", "pgc"}
			for _, nm := range names {
				pageExtra += fmt.Sprintf("@page %s { %s } ", nm, pgSize())
			}
			// consecutive sections may share a name (no extra break) or have none (the default page)
			for p := 0; p < nPages; p++ {
				if r.Chance(3, 4) {
					pageExtra += fmt.Sprintf("section.s%d { page: %s } ", p, vlib.Pick(r, names))
				}
			}
			g.Tags["page-named"] = true
		}
	}
	css := fmt.Sprintf(`@page { size: %dpx %dpx; margin: %dpx; %s} %sbody { font: 10px Ahem; margin: 0 } section.pb { break-before: page } p, h1, h2, h3, h4, h5, h6 { margin: 2px 0; font-size: 10px }`,
		g.PageW, g.PageH, vlib.Pick(r, []int{0, 5, 10}), bleed, pageExtra)
	g.HTML = "<!DOCTYPE html><html><head>" + g.HeadSrc + "<style>" + css + "</style></head><body>" + body.String() + "</body></html>"
	return g
}

func genDate(r *vlib.Rng) string {
	y, mo, d := r.Range(1990, 2030), r.Range(1, 12), r.Range(1, 28)
	h, mi, s := r.Range(0, 23), r.Range(0, 59), r.Range(0, 59)
	switch r.Intn(10) {
	case 0:
		return fmt.Sprintf("%04d", y)
	case 1:
		return fmt.Sprintf("%04d-%02d", y, mo)
	case 2:
		return fmt.Sprintf(" %04d-%02d-%02d ", y, mo, d)
	case 3:
		return fmt.Sprintf("%04d-%02d-%02dT%02d:%02dZ", y, mo, d, h, mi)
	case 4:
		return fmt.Sprintf("%04d-%02d-%02dT%02d:%02d:%02dZ", y, mo, d, h, mi, s)
	case 5:
		return fmt.Sprintf("%04d-%02d-%02dT%02d:%02d:%02d+%02d:%02d", y, mo, d, h, mi, s, r.Range(0, 12), vlib.Pick(r, []int{0, 30, 45}))
	case 6:
		return fmt.Sprintf("%04d-%02d-%02dT%02d:%02d:%02d-%02d:%02d", y, mo, d, h, mi, s, r.Range(0, 12), vlib.Pick(r, []int{0, 30, 45}))
	case 7:
		return fmt.Sprintf("%04d-%02d-%02dT%02d:%02d:%02d.%d+01:00", y, mo, d, h, mi, s, r.Range(0, 999))
	case 8:
		return vlib.Pick(r, []string{"yesterday", "2011-13-01", "2011-1-1", "", "2011-04-21T23:00", "20110421"})
	}
	return fmt.Sprintf("%04d-%02d-%02d", y, mo, d)
}
