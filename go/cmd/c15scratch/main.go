package main

import (
	"fmt"
	"os"

	"verifharness/vlib/render"
)

func main() {
	for _, l := range os.Args[1:] {
		o := render.Guard(func() {
			_, err := render.Layout(`<p lang="`+l+`" style="font-family:weasyprint">abc <q>d</q></p>`, nil, false, true, render.NewPango())
			if err != nil {
				panic(err)
			}
		})
		fmt.Printf("%q %s %s %s\n", l, o.Status, o.Site, o.Msg)
	}
}
