// Harness for C03 (the cascade picks the declaration CSS says wins).
//
// Every case is a generated document given as an AST (sheets, rules, nested
// rules, selectors, elements) that is printed twice: as real HTML/CSS text that
// /repo parses and cascades (tree.NewHTML, tree.GetAllComputedStyles), and as a
// Coq term of type Check.C03.case on which the model of Css/Cascade.v is
// evaluated.  Each declaration sets an integer valued property to a value that
// is unique in the document, so the winner is read back from the computed style.
//
//	c03 -out cases.jsonl -n 3000      registered stream (corpus first)
//	c03 -show <corpus.json>           print the materialised document of a corpus file
package main

import (
	"bytes"
	"encoding/json"
	"flag"
	"fmt"
	"os"
	"path/filepath"
	"sort"
	"strconv"
	"strings"

	"verifharness/vlib"
	_ "verifharness/vlib/render" // silences /repo's loggers

	pr "github.com/benoitkugler/webrender/css/properties"
	"github.com/benoitkugler/webrender/html/tree"
	"github.com/benoitkugler/webrender/utils"
	"golang.org/x/net/html"
)

// ------------------------------------------------------------------ AST

type Decl struct {
	Prop int  `json:"prop"`
	Vid  int  `json:"vid"`
	Imp  bool `json:"imp,omitempty"`
}

var propNames = []string{"z-index", "orphans", "widows", "order", "column-count", "tab-size", "width", "height"}

func (d Decl) css() string {
	v := strconv.Itoa(d.Vid)
	if d.Prop >= 6 {
		v += "px"
	}
	s := propNames[d.Prop] + ":" + v
	if d.Imp {
		s += " !important"
	}
	return s
}

func (d Decl) coq() string {
	return fmt.Sprintf("(mkDecl %d %d %s)", d.Prop, d.Vid, vlib.Bool(d.Imp))
}

func declsCoq(ds []Decl) string {
	var l []string
	for _, d := range ds {
		l = append(l, d.coq())
	}
	return vlib.List(l)
}

const (
	KTag = iota
	KClass
	KId
	KUniv
	KRoot
	KAmp
	KAnd
	KDesc
	KChild
	KIs
	KOr
	KPseudo // A::name, N = 1 before, 2 after, 3 marker
)

var pseudoNames = []string{"", "before", "after", "marker"}

type Sel struct {
	K int  `json:"k"`
	N int  `json:"n,omitempty"`
	A *Sel `json:"a,omitempty"`
	B *Sel `json:"b,omitempty"`
}

var tagNames = map[int]string{1: "p", 2: "div", 3: "span", 4: "table", 5: "td", 6: "hr", 7: "img", 8: "body", 9: "html",
	10: "tr", 11: "tbody", 12: "col", 13: "th"}

func tagCode(name string) int {
	for k, v := range tagNames {
		if v == name {
			return k
		}
	}
	return 99
}

func (s *Sel) css() string {
	switch s.K {
	case KTag:
		return tagNames[s.N]
	case KClass:
		return fmt.Sprintf(".c%d", s.N)
	case KId:
		return fmt.Sprintf("#i%d", s.N)
	case KUniv:
		return "*"
	case KRoot:
		return ":root"
	case KAmp:
		return "&"
	case KAnd:
		return s.A.css() + s.B.css()
	case KDesc:
		return s.A.css() + " " + s.B.css()
	case KChild:
		return s.A.css() + " > " + s.B.css()
	case KIs:
		return ":is(" + s.A.css() + ")"
	case KOr:
		return s.A.css() + ", " + s.B.css()
	case KPseudo:
		return s.A.css() + "::" + pseudoNames[s.N]
	}
	panic("sel kind")
}

func (s *Sel) coq() string {
	switch s.K {
	case KTag:
		return fmt.Sprintf("(STag %d)", s.N)
	case KClass:
		return fmt.Sprintf("(SClass %d)", s.N)
	case KId:
		return fmt.Sprintf("(SId %d)", s.N)
	case KUniv:
		return "SUniv"
	case KRoot:
		return "SRoot"
	case KAmp:
		return "SAmp"
	case KAnd:
		return "(SAnd " + s.A.coq() + " " + s.B.coq() + ")"
	case KDesc:
		return "(SDesc " + s.A.coq() + " " + s.B.coq() + ")"
	case KChild:
		return "(SChild " + s.A.coq() + " " + s.B.coq() + ")"
	case KIs:
		return "(SIs " + s.A.coq() + ")"
	case KOr:
		return "(SOr " + s.A.coq() + " " + s.B.coq() + ")"
	case KPseudo:
		return fmt.Sprintf("(SPseudo %d %s)", s.N, s.A.coq())
	}
	panic("sel kind")
}

func groupCSS(g []*Sel) string {
	var l []string
	for _, s := range g {
		l = append(l, s.css())
	}
	return strings.Join(l, ", ")
}

func groupCoq(g []*Sel) string {
	var l []string
	for _, s := range g {
		l = append(l, s.coq())
	}
	return vlib.List(l)
}

// Item of a style rule's block: a declaration (D != nil) or a nested rule
type Item struct {
	D     *Decl  `json:"d,omitempty"`
	Pre   []*Sel `json:"pre,omitempty"`
	Inner []Item `json:"inner,omitempty"`
}

func bodyCSS(b []Item) string {
	var sb strings.Builder
	for _, it := range b {
		if it.D != nil {
			sb.WriteString(it.D.css() + "; ")
		} else {
			sb.WriteString(groupCSS(it.Pre) + " { " + bodyCSS(it.Inner) + "} ")
		}
	}
	return sb.String()
}

func bodyCoq(b []Item) string {
	if len(b) == 0 {
		return "BNil"
	}
	it := b[0]
	if it.D != nil {
		return "(BDecl " + it.D.coq() + " " + bodyCoq(b[1:]) + ")"
	}
	return "(BNest " + groupCoq(it.Pre) + " " + bodyCoq(it.Inner) + " " + bodyCoq(b[1:]) + ")"
}

const (
	RStyle = iota
	RMedia
	RImport
	ROther
)

type Rule struct {
	K       int    `json:"k"`
	G       []*Sel `json:"g,omitempty"`
	B       []Item `json:"b,omitempty"`
	Q       []int  `json:"q,omitempty"`
	Inner   []Rule `json:"inner,omitempty"`
	Fetched bool   `json:"fetched,omitempty"`
	// @import by URL: number of the file (Doc.Files) the rule names; a number
	// without file is a failed fetch.  Several rules may name the same URL, a
	// file may import itself.  (Inner/Fetched: inline form of corpus files and
	// of the systematic streams, turned into a fresh URL by normalise.)
	URL int `json:"url,omitempty"`
}

type Files map[int][]Rule

// normalise gives every inline @import (Inner/Fetched) a URL of its own
func normalise(rs []Rule, files Files, next *int) []Rule {
	out := make([]Rule, len(rs))
	for i, r := range rs {
		switch r.K {
		case RMedia:
			r.Inner = normalise(r.Inner, files, next)
		case RImport:
			if r.URL == 0 {
				*next++
				r.URL = *next
				if r.Fetched {
					files[r.URL] = nil // reserve
					files[r.URL] = normalise(r.Inner, files, next)
				}
				r.Inner, r.Fetched = nil, false
			}
		}
		out[i] = r
	}
	return out
}

func fileName(url int) string { return fmt.Sprintf("s%d.css", url) }

// the same URL is spelled in different ways
func importCSS(url int, variant int) string {
	name := fileName(url)
	switch variant % 4 {
	case 0:
		return "url(" + name + ")"
	case 1:
		return "\"" + name + "\""
	case 2:
		return "\"./" + name + "\""
	default:
		return "url(http://verif.test/" + name + ")"
	}
}

var mediaNames = []string{"all", "print", "screen", "speech"}

// A media type is stored as m + 4*spelling: m indexes mediaNames, spelling is
// 0 lower case, 1 UPPER CASE, 2 Capitalised, 3 aLTERNATING.  Media types are
// ASCII case-insensitive identifiers (mediaqueries-4 2.3, css-syntax), so the
// model only sees m (mediaCoq); the spelling only exists in the CSS text.
func mediaSpell(v int) string {
	name := mediaNames[v%4]
	switch (v / 4) % 4 {
	case 1:
		return strings.ToUpper(name)
	case 2:
		return strings.ToUpper(name[:1]) + name[1:]
	case 3:
		b := []byte(name)
		for i := 1; i < len(b); i += 2 {
			b[i] = b[i] - 'a' + 'A'
		}
		return string(b)
	}
	return name
}

// media list of an @media / @import rule
func mediaCSS(q []int) string {
	var l []string
	for _, m := range q {
		l = append(l, mediaSpell(m))
	}
	return strings.Join(l, ", ")
}

// media attribute of <style> / <link>: always lower case (findStylesheets
// compares the attribute's types as written: not varied here, see notes/C03.md)
func mediaAttrCSS(q []int) string {
	var l []string
	for _, m := range q {
		l = append(l, mediaNames[m%4])
	}
	return strings.Join(l, ", ")
}

// random spelling of every type of the list (half of them lower case)
func respell(r *vlib.Rng, q []int) []int {
	for i := range q {
		if r.Bool() {
			q[i] = q[i]%4 + 4*r.Range(1, 3)
		}
	}
	return q
}

func mediaCoq(q []int) string {
	var l []string
	for _, m := range q {
		l = append(l, strconv.Itoa(m%4))
	}
	return vlib.List(l)
}

// files served by the fetcher of one document
type files struct {
	m     map[string]string
	n       int
	other   int
	imports int
}

func (f *files) add(content string) string {
	f.n++
	name := fmt.Sprintf("l%d.css", f.n)
	f.m["http://verif.test/"+name] = content
	return name
}

// serves every file of the table
func newFiles(fs Files) *files {
	f := &files{m: map[string]string{}}
	for _, url := range sortedURLs(fs) {
		f.m["http://verif.test/"+fileName(url)] = rulesCSS(fs[url], f)
	}
	return f
}

func (f *files) fetch(url string) (utils.RemoteRessource, error) {
	c, ok := f.m[url]
	if !ok {
		return utils.RemoteRessource{}, fmt.Errorf("404 %s", url)
	}
	return utils.RemoteRessource{Content: bytes.NewReader([]byte(c)), MimeType: "text/css"}, nil
}

func rulesCSS(rs []Rule, f *files) string {
	var sb strings.Builder
	for _, r := range rs {
		switch r.K {
		case RStyle:
			sb.WriteString(groupCSS(r.G) + " { " + bodyCSS(r.B) + "}\n")
		case RMedia:
			sb.WriteString("@media " + mediaCSS(r.Q) + " {\n" + rulesCSS(r.Inner, f) + "}\n")
		case RImport:
			if r.URL == 0 {
				panic("c03: @import not normalised")
			}
			f.imports++
			sb.WriteString("@import " + importCSS(r.URL, r.URL+f.imports) + " " + mediaCSS(r.Q) + ";\n")
		case ROther:
			f.other++
			if f.other%2 == 0 {
				sb.WriteString("@page { margin: 1px }\n")
			} else {
				sb.WriteString("@font-face { font-family: nosrc }\n")
			}
		}
	}
	return sb.String()
}

func rulesCoq(rs []Rule) string {
	if len(rs) == 0 {
		return "UNil"
	}
	r := rs[0]
	rest := rulesCoq(rs[1:])
	switch r.K {
	case RStyle:
		return "(UStyle " + groupCoq(r.G) + " " + bodyCoq(r.B) + " " + rest + ")"
	case RMedia:
		return "(UMedia " + mediaCoq(r.Q) + " " + rulesCoq(r.Inner) + " " + rest + ")"
	case RImport:
		if r.URL == 0 {
			panic("c03: @import not normalised")
		}
		return "(UImport " + mediaCoq(r.Q) + " " + strconv.Itoa(r.URL) + " " + rest + ")"
	default:
		return "(UOther " + rest + ")"
	}
}

func filesCoq(fs Files) string {
	var l []string
	for _, u := range sortedURLs(fs) {
		l = append(l, fmt.Sprintf("(UF %d %s)", u, rulesCoq(fs[u])))
	}
	return vlib.List(l)
}

type AuthorSheet struct {
	Media  []int  `json:"media,omitempty"`
	Rules  []Rule `json:"rules"`
	Link   bool   `json:"link,omitempty"`    // <link rel=stylesheet> instead of <style>
	InBody bool   `json:"in_body,omitempty"` // placed at the end of <body>
	// > 0: <link> to the file Doc.Files[URL] (a sheet that may also be imported,
	// by others or by itself); Rules is a copy of that file
	URL int `json:"url,omitempty"`
}

type UserSheet struct {
	Device int    `json:"device"`
	Rules  []Rule `json:"rules"`
}

type Doc struct {
	Device  int           `json:"device"` // 1 print, 2 screen
	Hints   bool          `json:"hints"`
	UA      []Rule        `json:"ua"`
	PH      []Rule        `json:"ph"`
	Authors []AuthorSheet `json:"authors"`
	Users   []UserSheet   `json:"users"`
	Body    string        `json:"body"`             // inner HTML of <body>
	Props   []int         `json:"props"`            // observed properties
	Pseudo  bool          `json:"pseudo,omitempty"` // also observe ::before, ::after, ::marker
	// attributes of <html>, e.g. ` class="c3"`
	HTMLAttrs string `json:"html_attrs,omitempty"`
	// compare with the specification instead of the model (documents outside
	// the domain of the model = spec theorem: `&` in a top-level rule)
	VsSpec bool `json:"vs_spec,omitempty"`
	// what the URLs named by @import rules serve
	Files Files `json:"files,omitempty"`
}

// inline @import rules (corpus files, systematic streams) get URLs
func (d *Doc) normalise() {
	if d.Files == nil {
		d.Files = Files{}
	}
	next := 1000
	for u := range d.Files {
		if u >= next {
			next = u + 1
		}
	}
	for _, u := range sortedURLs(d.Files) {
		d.Files[u] = normalise(d.Files[u], d.Files, &next)
	}
	d.UA = normalise(d.UA, d.Files, &next)
	d.PH = normalise(d.PH, d.Files, &next)
	for i := range d.Authors {
		d.Authors[i].Rules = normalise(d.Authors[i].Rules, d.Files, &next)
	}
	for i := range d.Users {
		d.Users[i].Rules = normalise(d.Users[i].Rules, d.Files, &next)
	}
	for i, a := range d.Authors {
		if a.URL > 0 {
			d.Authors[i].Rules = d.Files[a.URL]
			d.Authors[i].Link = true
		}
	}
}

func sortedURLs(fs Files) []int {
	var ids []int
	for u := range fs {
		ids = append(ids, u)
	}
	sort.Ints(ids)
	return ids
}

// ------------------------------------------------------------------ running /repo

type observed struct {
	path    []*html.Node // element, ancestors
	vals    []int
	pseudos []pseudoObs
}

type pseudoObs struct {
	k       int
	present bool
	vals    []int
}

func readBack(st pr.ElementStyle, prop int) int {
	v := 0
	switch prop {
	case 0:
		z := st.GetZIndex()
		if z.String == "" {
			v = z.Int
		}
	case 1:
		v = int(st.GetOrphans())
	case 2:
		v = int(st.GetWidows())
	case 3:
		v = int(st.GetOrder())
	case 4:
		c := st.GetColumnCount()
		if c.String == "" {
			v = c.Int
		}
	case 5:
		t := st.GetTabSize()
		if t.S == "" {
			v = int(t.Value)
		}
	case 6:
		w := st.GetWidth()
		if w.S == "" {
			v = int(w.Value)
		}
	case 7:
		h := st.GetHeight()
		if h.S == "" {
			v = int(h.Value)
		}
	}
	if v < 10 { // initial values (2, 8, 0, auto)
		return 0
	}
	return v
}

func (d *Doc) materialise() (htmlText string, ua, ph string, users []string, f *files) {
	d.normalise()
	f = newFiles(d.Files)
	ua = rulesCSS(d.UA, f)
	ph = rulesCSS(d.PH, f)
	for _, u := range d.Users {
		users = append(users, rulesCSS(u.Rules, f))
	}
	var head, tail strings.Builder
	for _, a := range d.Authors {
		media := ""
		if len(a.Media) > 0 {
			media = fmt.Sprintf(" media=\"%s\"", mediaAttrCSS(a.Media))
		}
		var el string
		if a.URL > 0 {
			el = fmt.Sprintf("<link rel=stylesheet href=\"%s\"%s>\n", fileName(a.URL), media)
		} else if a.Link {
			name := f.add(rulesCSS(a.Rules, f))
			el = fmt.Sprintf("<link rel=stylesheet href=\"%s\"%s>\n", name, media)
		} else {
			el = fmt.Sprintf("<style%s>\n%s</style>\n", media, rulesCSS(a.Rules, f))
		}
		if a.InBody {
			tail.WriteString(el)
		} else {
			head.WriteString(el)
		}
	}
	htmlText = "<!DOCTYPE html><html" + d.HTMLAttrs + "><head>\n" + head.String() + "</head><body>" + d.Body + "\n" + tail.String() + "</body></html>"
	return
}

func devName(d int) string { return mediaNames[d] }

func (d *Doc) run() ([]observed, string, error) {
	htmlText, ua, ph, users, f := d.materialise()
	base := "http://verif.test/"
	uaCSS, err := tree.VerifC03NewCSS(utils.InputString(ua), base, f.fetch, devName(d.Device))
	if err != nil {
		return nil, htmlText, err
	}
	phCSS, err := tree.VerifC03NewCSS(utils.InputString(ph), base, f.fetch, devName(d.Device))
	if err != nil {
		return nil, htmlText, err
	}
	var userCSS []tree.CSS
	for i, u := range users {
		c, err := tree.VerifC03NewCSS(utils.InputString(u), base, f.fetch, devName(d.Users[i].Device))
		if err != nil {
			return nil, htmlText, err
		}
		userCSS = append(userCSS, c)
	}
	doc, err := tree.NewHTML(utils.InputString(htmlText), base, f.fetch, devName(d.Device))
	if err != nil {
		return nil, htmlText, err
	}
	doc.UAStyleSheet = uaCSS
	doc.PHStyleSheet = phCSS
	sf := tree.GetAllComputedStyles(doc, userCSS, d.Hints, nil, nil, nil, nil, false, nil)

	var out []observed
	it := doc.Root.Iter()
	for it.HasNext() {
		e := it.Next()
		n := (*html.Node)(e)
		// body and its descendants, except style/link
		inBody := false
		var path []*html.Node
		for a := n; a != nil; a = a.Parent {
			if a.Type != html.ElementNode {
				break
			}
			path = append(path, a)
			if a.Data == "body" {
				inBody = true
			}
		}
		if !(inBody || n.Data == "html") || n.Data == "style" || n.Data == "link" {
			continue
		}
		st := sf.Get(e, "")
		o := observed{path: path}
		for _, p := range d.Props {
			o.vals = append(o.vals, readBack(st, p))
		}
		if d.Pseudo {
			for k := 1; k <= 3; k++ {
				po := pseudoObs{k: k}
				sp := sf.Get(e, pseudoNames[k])
				po.present = sp != nil
				for _, p := range d.Props {
					v := 0
					if sp != nil {
						v = readBack(sp, p)
					}
					po.vals = append(po.vals, v)
				}
				o.pseudos = append(o.pseudos, po)
			}
		}
		out = append(out, o)
	}
	return out, htmlText, nil
}

func attr(n *html.Node, key string) (string, bool) {
	for _, a := range n.Attr {
		if a.Key == key {
			return a.Val, true
		}
	}
	return "", false
}

func optNum(n *html.Node, key string) string {
	v, ok := attr(n, key)
	if !ok || v == "" {
		return "None"
	}
	i, err := strconv.Atoi(v)
	if err != nil {
		return "None"
	}
	return fmt.Sprintf("(Some %d)", i)
}

// parses the canonical style attribute text written by Decl.css
func parseStyle(s string) []Decl {
	var out []Decl
	for _, part := range strings.Split(s, ";") {
		part = strings.TrimSpace(part)
		if part == "" {
			continue
		}
		var d Decl
		if strings.HasSuffix(part, "!important") {
			d.Imp = true
			part = strings.TrimSpace(strings.TrimSuffix(part, "!important"))
		}
		kv := strings.SplitN(part, ":", 2)
		d.Prop = -1
		for i, n := range propNames {
			if n == kv[0] {
				d.Prop = i
			}
		}
		d.Vid, _ = strconv.Atoi(strings.TrimSuffix(kv[1], "px"))
		if d.Prop >= 0 {
			out = append(out, d)
		}
	}
	return out
}

func nodeCoq(n *html.Node) string {
	id := "None"
	if v, ok := attr(n, "id"); ok && strings.HasPrefix(v, "i") {
		k, _ := strconv.Atoi(v[1:])
		id = fmt.Sprintf("(Some %d)", k)
	}
	var classes []string
	if v, ok := attr(n, "class"); ok {
		for _, c := range strings.Fields(v) {
			k, _ := strconv.Atoi(strings.TrimPrefix(c, "c"))
			classes = append(classes, strconv.Itoa(k))
		}
	}
	st, _ := attr(n, "style")
	return fmt.Sprintf("(CN %d %s %s %s %s %s %s)", tagCode(n.Data), id, vlib.List(classes), declsCoq(parseStyle(st)),
		optNum(n, "width"), optNum(n, "height"), optNum(n, "size"))
}

func (d *Doc) coq(obs []observed) string {
	var authors, users, elems []string
	// document order: the sheets of <head>, then those at the end of <body>
	for _, inBody := range []bool{false, true} {
		for _, a := range d.Authors {
			if a.InBody == inBody {
				authors = append(authors, fmt.Sprintf("(mkUAuthor %s %s)", mediaCoq(a.Media), rulesCoq(a.Rules)))
			}
		}
	}
	for _, u := range d.Users {
		users = append(users, fmt.Sprintf("(US %d %s)", u.Device, rulesCoq(u.Rules)))
	}
	for _, o := range obs {
		var path, vals []string
		for _, n := range o.path {
			path = append(path, nodeCoq(n))
		}
		for i, p := range d.Props {
			vals = append(vals, fmt.Sprintf("(Ob %d %d)", p, o.vals[i]))
		}
		var pos []string
		for _, po := range o.pseudos {
			var pv []string
			for i, p := range d.Props {
				pv = append(pv, fmt.Sprintf("(Ob %d %d)", p, po.vals[i]))
			}
			pos = append(pos, fmt.Sprintf("(PO %d %s %s)", po.k, vlib.Bool(po.present), vlib.List(pv)))
		}
		elems = append(elems, "(EO "+vlib.List(path)+" "+vlib.List(vals)+" "+vlib.List(pos)+")")
	}
	ctor := "CDoc"
	if d.VsSpec {
		ctor = "CDocSpec"
	}
	return fmt.Sprintf(ctor+" %d %s %s %d %s %d %s %s %s %s", d.Device, vlib.Bool(d.Hints), rulesCoq(d.UA), d.Device,
		rulesCoq(d.PH), d.Device, vlib.List(authors), vlib.List(users), filesCoq(d.Files), vlib.List(elems))
}

// ------------------------------------------------------------------ generators

type gen struct {
	r      *vlib.Rng
	vid    int
	props  []int
	pseudo bool // pseudo-element selectors allowed
	used   bool // one was generated
	// @import: the files of the document, and the URLs that several rules name
	// (repeated imports, diamonds, cycles)
	files   Files
	nextURL int
	shared  []int
}

func (g *gen) newURL() int {
	if g.files == nil {
		g.files = Files{}
		g.nextURL = 100
	}
	g.nextURL++
	return g.nextURL
}

// an @import rule: of a shared URL, of a file of its own, or of a missing file
func (g *gen) importRule(depth int, nInner int) Rule {
	r := Rule{K: RImport, Q: g.media()}
	switch {
	case len(g.shared) > 0 && g.r.Chance(1, 2):
		r.URL = vlib.Pick(g.r, g.shared)
	case g.r.Chance(1, 8):
		r.URL = g.newURL() // 404
	default:
		r.URL = g.newURL()
		g.files[r.URL] = nil
		g.files[r.URL] = g.rules(depth+1, nInner)
	}
	return r
}

// creates k files that may import one another (and themselves) any number of times
func (g *gen) sharedFiles(k int) {
	for i := 0; i < k; i++ {
		g.shared = append(g.shared, g.newURL())
	}
	for _, u := range g.shared {
		var rs []Rule
		for i, n := 0, g.r.Intn(3); i < n; i++ {
			q := g.media()
			if g.r.Bool() {
				q = nil
			}
			rs = append(rs, Rule{K: RImport, Q: q, URL: vlib.Pick(g.r, g.shared)})
		}
		g.files[u] = append(rs, g.rules(2, g.r.Range(1, 2))...)
	}
}

func hasNested(b []Item) bool {
	for _, it := range b {
		if it.D == nil {
			return true
		}
	}
	return false
}

// wraps some members of a selector list as a::before / ::after / ::marker; only
// for rules without nested rules (`&` cannot stand for a pseudo-element)
func (g *gen) maybePseudo(group []*Sel, body []Item) []*Sel {
	if !g.pseudo || hasNested(body) {
		return group
	}
	for i, s := range group {
		if g.r.Chance(1, 5) {
			group[i] = &Sel{K: KPseudo, N: g.r.Range(1, 3), A: s}
			g.used = true
		}
	}
	return group
}

func (g *gen) nextVid() int { g.vid++; return g.vid }

func (g *gen) decl() Decl {
	return Decl{Prop: vlib.Pick(g.r, g.props), Vid: g.nextVid(), Imp: g.r.Chance(1, 4)}
}

func tag(n int) *Sel       { return &Sel{K: KTag, N: n} }
func class(n int) *Sel     { return &Sel{K: KClass, N: n} }
func id(n int) *Sel        { return &Sel{K: KId, N: n} }
func and(a, b *Sel) *Sel   { return &Sel{K: KAnd, A: a, B: b} }
func desc(a, b *Sel) *Sel  { return &Sel{K: KDesc, A: a, B: b} }
func child(a, b *Sel) *Sel { return &Sel{K: KChild, A: a, B: b} }
func is(l ...*Sel) *Sel {
	a := l[len(l)-1]
	for i := len(l) - 2; i >= 0; i-- {
		a = &Sel{K: KOr, A: l[i], B: a}
	}
	return &Sel{K: KIs, A: a}
}

var amp = &Sel{K: KAmp}
var univ = &Sel{K: KUniv}

var selTags = []int{1, 2, 3, 4, 6, 5}

func (g *gen) compound() *Sel {
	r := g.r
	switch k := r.Intn(20); {
	case k < 5:
		return tag(vlib.Pick(r, selTags))
	case k < 10:
		return class(r.Range(1, 3))
	case k < 13:
		return id(r.Range(1, 4))
	case k < 15:
		return and(tag(vlib.Pick(r, selTags)), class(r.Range(1, 3)))
	case k == 15:
		return univ
	case k == 16:
		return and(id(r.Range(1, 4)), class(r.Range(1, 3)))
	case k == 17:
		i := r.Range(1, 4)
		return and(id(i), id(i))
	case k == 18:
		return is(g.simpleish(), g.simpleish())
	default:
		return and(tag(vlib.Pick(r, selTags)), is(g.simpleish(), g.simpleish()))
	}
}

func (g *gen) simpleish() *Sel {
	r := g.r
	switch r.Intn(5) {
	case 0:
		return tag(vlib.Pick(r, selTags))
	case 1, 2:
		return class(r.Range(1, 3))
	case 3:
		return id(r.Range(1, 4))
	default:
		return desc(tag(vlib.Pick(r, selTags)), class(r.Range(1, 3)))
	}
}

func (g *gen) complex() *Sel {
	switch k := g.r.Intn(10); {
	case k < 7:
		return g.compound()
	case k < 9:
		return desc(g.compound(), g.compound())
	default:
		return child(g.compound(), g.compound())
	}
}

func (g *gen) group() []*Sel {
	out := []*Sel{g.complex()}
	if g.r.Chance(1, 4) {
		out = append(out, g.complex())
	}
	return out
}

// a member of a nested rule's selector list
func (g *gen) nestedSel() *Sel {
	r := g.r
	switch r.Intn(9) {
	case 0, 1:
		return amp
	case 2:
		return and(amp, class(r.Range(1, 3)))
	case 3:
		return desc(amp, g.compound())
	case 4:
		return desc(g.compound(), amp)
	case 5:
		return child(amp, g.compound())
	case 6:
		return and(amp, is(g.simpleish(), g.simpleish()))
	default: // no &: implied descendant
		return g.complex()
	}
}

func (g *gen) body(depth int) []Item {
	var out []Item
	n := g.r.Range(1, 3)
	for i := 0; i < n; i++ {
		if depth < 2 && g.r.Chance(1, 4) {
			pre := []*Sel{g.nestedSel()}
			if g.r.Chance(1, 4) {
				pre = append(pre, g.nestedSel())
			}
			inner := g.body(depth + 1)
			out = append(out, Item{Pre: g.maybePseudo(pre, inner), Inner: inner})
		} else {
			d := g.decl()
			out = append(out, Item{D: &d})
		}
	}
	return out
}

func (g *gen) media() []int { return respell(g.r, g.mediaTypes()) }

func (g *gen) mediaTypes() []int {
	switch g.r.Intn(6) {
	case 0:
		return nil
	case 1:
		return []int{0}
	case 2:
		return []int{1}
	case 3:
		return []int{2}
	case 4:
		return []int{3, g.r.Range(1, 2)}
	default:
		return []int{3}
	}
}

func (g *gen) rules(depth int, n int) []Rule {
	var out []Rule
	// import prologue
	if depth < 2 && g.r.Chance(1, 4) {
		k := g.r.Range(1, 3)
		for i := 0; i < k; i++ {
			out = append(out, g.importRule(depth, g.r.Range(1, 2)))
		}
		// the same URL once more (possibly under another medium), after the others
		if g.r.Chance(1, 3) {
			again := out[g.r.Intn(len(out))]
			if g.r.Bool() {
				again.Q = g.media()
			}
			out = append(out, again)
		}
	}
	for i := 0; i < n; i++ {
		switch k := g.r.Intn(20); {
		case k < 14:
			b := g.body(0)
			out = append(out, Rule{K: RStyle, G: g.maybePseudo(g.group(), b), B: b})
		case k < 17 && depth < 2:
			out = append(out, Rule{K: RMedia, Q: g.media(), Inner: g.rules(depth+1, g.r.Range(1, 2))})
		case k < 19 && depth < 2: // possibly misplaced @import
			out = append(out, g.importRule(depth, 1))
		case k == 19:
			out = append(out, Rule{K: ROther})
		default:
			b := g.body(0)
			out = append(out, Rule{K: RStyle, G: g.maybePseudo(g.group(), b), B: b})
		}
	}
	return out
}

// strip imports nested inside @media (the model has them, the code ignores them: keep them, they are legal input)

func (g *gen) styleAttr() string {
	n := g.r.Range(1, 2)
	var l []string
	for i := 0; i < n; i++ {
		l = append(l, g.decl().css())
	}
	return strings.Join(l, ";")
}

func (g *gen) attrs(tagName string, ids *[]int) string {
	var sb strings.Builder
	r := g.r
	if len(*ids) > 0 && r.Chance(1, 2) {
		k := r.Intn(len(*ids))
		fmt.Fprintf(&sb, " id=i%d", (*ids)[k])
		*ids = append((*ids)[:k], (*ids)[k+1:]...)
	}
	if r.Chance(2, 3) {
		var cl []string
		for c := 1; c <= 3; c++ {
			if r.Chance(2, 5) {
				cl = append(cl, fmt.Sprintf("c%d", c))
			}
		}
		if len(cl) > 0 {
			fmt.Fprintf(&sb, " class=\"%s\"", strings.Join(cl, " "))
		}
	}
	if r.Chance(1, 3) {
		fmt.Fprintf(&sb, " style=\"%s\"", g.styleAttr())
	}
	switch tagName {
	case "table", "img", "td", "th":
		if r.Chance(2, 3) {
			fmt.Fprintf(&sb, " width=%d", g.nextVid())
		}
		if r.Chance(1, 2) {
			fmt.Fprintf(&sb, " height=%d", g.nextVid())
		}
	case "tr":
		if r.Chance(1, 2) {
			fmt.Fprintf(&sb, " height=%d", g.nextVid())
		}
	case "hr":
		if r.Chance(2, 3) {
			fmt.Fprintf(&sb, " width=%d", g.nextVid())
		}
		if r.Chance(1, 2) {
			fmt.Fprintf(&sb, " size=%d", g.nextVid()+2)
		}
	}
	return sb.String()
}

func (g *gen) elems(depth int, ids *[]int) string {
	var sb strings.Builder
	n := g.r.Range(1, 3)
	for i := 0; i < n; i++ {
		switch k := g.r.Intn(10); {
		case k < 3 && depth < 2:
			fmt.Fprintf(&sb, "<div%s>%s</div>", g.attrs("div", ids), g.elems(depth+1, ids))
		case k < 5:
			fmt.Fprintf(&sb, "<p%s>x<span%s>y</span></p>", g.attrs("p", ids), g.attrs("span", ids))
		case k < 6:
			fmt.Fprintf(&sb, "<span%s>z</span>", g.attrs("span", ids))
		case k < 8:
			if g.r.Bool() {
				fmt.Fprintf(&sb, "<table%s><tr%s><td%s>c</td></tr></table>", g.attrs("table", ids), g.attrs("tr", ids), g.attrs("td", ids))
			} else {
				fmt.Fprintf(&sb, "<table%s></table>", g.attrs("table", ids))
			}
		case k < 9:
			fmt.Fprintf(&sb, "<hr%s>", g.attrs("hr", ids))
		default:
			fmt.Fprintf(&sb, "<img%s>", g.attrs("img", ids))
		}
	}
	return sb.String()
}

func randomDoc(r *vlib.Rng) *Doc {
	g := &gen{r: r, vid: 10, pseudo: r.Chance(1, 3)}
	pool := []int{0, 1, 2, 3, 4, 5, 6, 7}
	// 2 or 3 properties, width/height favoured (they compete with hints)
	np := r.Range(1, 3)
	for i := 0; i < np; i++ {
		if r.Chance(1, 3) {
			g.props = append(g.props, 6+r.Intn(2))
		} else {
			g.props = append(g.props, vlib.Pick(r, pool))
		}
	}
	d := &Doc{Device: r.Range(1, 2), Hints: r.Chance(2, 3)}
	ids := []int{1, 2, 3, 4}
	d.Body = g.elems(0, &ids)
	g.newURL()
	if r.Chance(1, 3) {
		g.sharedFiles(r.Range(1, 3))
	}
	d.UA = g.rules(0, r.Range(0, 2))
	if r.Chance(1, 3) {
		d.PH = g.rules(0, r.Range(1, 2))
	}
	na := r.Range(0, 3)
	for i := 0; i < na; i++ {
		a := AuthorSheet{Rules: g.rules(0, r.Range(1, 3)), Link: r.Chance(1, 3), InBody: r.Chance(1, 5)}
		if len(g.shared) > 0 && r.Chance(1, 4) { // <link> to a file that is imported too
			a = AuthorSheet{URL: vlib.Pick(r, g.shared), InBody: r.Chance(1, 5)}
		}
		if r.Chance(1, 4) {
			a.Media = g.media()
		}
		d.Authors = append(d.Authors, a)
	}
	nu := r.Range(0, 2)
	for i := 0; i < nu; i++ {
		d.Users = append(d.Users, UserSheet{Device: d.Device, Rules: g.rules(0, r.Range(1, 2))})
	}
	seen := map[int]bool{}
	for _, p := range g.props {
		if !seen[p] {
			seen[p] = true
			d.Props = append(d.Props, p)
		}
	}
	// hints set width / height
	if strings.Contains(d.Body, " width=") && !seen[6] {
		d.Props = append(d.Props, 6)
		seen[6] = true
	}
	if (strings.Contains(d.Body, " height=") || strings.Contains(d.Body, " size=")) && !seen[7] {
		d.Props = append(d.Props, 7)
	}
	sort.Ints(d.Props)
	d.Pseudo = g.used
	d.Files = g.files
	return d
}

// ---- exhaustive pairs / triples on one target element

// a competing declaration of the systematic enumeration
type cspec struct {
	origin int // 0 UA 1 user 2 author
	imp    bool
	rank   int // 0 hint attribute, 1 hint sheet, 2 (0,0,1), 3 (0,1,0), 4 (0,1,1), 5 (1,0,0), 6 (2,0,0), 7 style attribute
}

func (c cspec) String() string {
	o := []string{"ua", "user", "author"}[c.origin]
	rk := []string{"hint-attr", "hint-sheet", "001", "010", "011", "100", "200", "style-attr"}[c.rank]
	s := o + "/" + rk
	if c.imp {
		s += "!"
	}
	return s
}

func allSpecs() []cspec {
	var out []cspec
	for o := 0; o < 3; o++ {
		for _, imp := range []bool{false, true} {
			for rank := 0; rank < 8; rank++ {
				if (rank < 2 || rank == 7) && o != 2 {
					continue
				}
				if rank == 0 && imp {
					continue
				}
				out = append(out, cspec{o, imp, rank})
			}
		}
	}
	return out
}

// selector of the given rank for the target <table id=i1 class=c1>
func rankSel(rank int) *Sel {
	switch rank {
	case 2:
		return tag(4)
	case 3:
		return class(1)
	case 4:
		return and(tag(4), class(1))
	case 5:
		return id(1)
	case 6:
		return and(id(1), id(1))
	default: // hint sheet: any selector, specificity is forced to 0
		return and(tag(4), id(1))
	}
}

const (
	plPlain = iota
	plMediaYes
	plMediaNo
	plImport
	plNested
	plNestedAfter // parent { &, & {d} }
	nPlacements
)

var placementNames = []string{"plain", "media-match", "media-nomatch", "import", "nested", "nested-amp-list"}

// spelling k%4 for every type of the list (deterministic: placements have no PRNG)
func spellBy(q []int, k int) []int {
	out := make([]int, len(q))
	for i, m := range q {
		out[i] = m%4 + 4*((k+i)%4)
	}
	return out
}

// wraps declaration d with selector s into rules according to the placement
func place(pl int, s *Sel, d Decl, device int) []Rule {
	style := Rule{K: RStyle, G: []*Sel{s}, B: []Item{{D: &d}}}
	switch pl {
	case plMediaYes:
		q := [][]int{{0}, {device}, {3, device}, nil}[d.Vid%4]
		q = spellBy(q, d.Vid/4)
		return []Rule{{K: RMedia, Q: q, Inner: []Rule{style}}}
	case plMediaNo:
		q := [][]int{{3}, {3 - device}, {3 - device, 3}}[d.Vid%3]
		q = spellBy(q, d.Vid/3)
		return []Rule{{K: RMedia, Q: q, Inner: []Rule{style}}}
	case plImport:
		return []Rule{{K: RImport, Q: nil, Fetched: true, Inner: []Rule{style}}}
	case plNested:
		return []Rule{{K: RStyle, G: []*Sel{s}, B: []Item{{Pre: []*Sel{amp}, Inner: []Item{{D: &d}}}}}}
	case plNestedAfter:
		return []Rule{{K: RStyle, G: []*Sel{s}, B: []Item{{Pre: []*Sel{amp, amp}, Inner: []Item{{D: &d}}}}}}
	}
	return []Rule{style}
}

// builds the document of a list of competing declarations (in order of
// appearance within their container) for property `prop` on the target table
func systematicDoc(specs []cspec, placements []int, sameSheet bool, prop int, device int, hints bool) (*Doc, bool) {
	d := &Doc{Device: device, Hints: hints, Props: []int{prop}}
	vid := 10
	var styleDecls []string
	hintAttr := ""
	var authorCur, userCur []Rule
	flushAuthor := func() {
		if len(authorCur) > 0 {
			d.Authors = append(d.Authors, AuthorSheet{Rules: authorCur, Link: len(d.Authors)%2 == 1})
			authorCur = nil
		}
	}
	flushUser := func() {
		if len(userCur) > 0 {
			d.Users = append(d.Users, UserSheet{Device: device, Rules: userCur})
			userCur = nil
		}
	}
	for i, c := range specs {
		vid++
		dc := Decl{Prop: prop, Vid: vid, Imp: c.imp}
		switch c.rank {
		case 0:
			if hintAttr != "" || prop < 6 {
				return nil, false
			}
			hintAttr = fmt.Sprintf(" %s=%d", propNames[prop], vid)
		case 7:
			styleDecls = append(styleDecls, dc.css())
		case 1:
			d.PH = append(d.PH, place(placements[i], rankSel(1), dc, device)...)
		default:
			rs := place(placements[i], rankSel(c.rank), dc, device)
			isImport := rs[0].K == RImport
			switch c.origin {
			case 0:
				if isImport && len(d.UA) > 0 && d.UA[len(d.UA)-1].K != RImport {
					// an @import after a rule is ignored: wrap differently to keep the enumeration meaningful
					rs = place(plPlain, rankSel(c.rank), dc, device)
				}
				d.UA = append(d.UA, rs...)
			case 1:
				if !sameSheet || (isImport && len(userCur) > 0) {
					flushUser()
				}
				userCur = append(userCur, rs...)
			case 2:
				if !sameSheet || (isImport && len(authorCur) > 0) {
					flushAuthor()
				}
				authorCur = append(authorCur, rs...)
			}
		}
	}
	flushAuthor()
	flushUser()
	st := ""
	if len(styleDecls) > 0 {
		st = fmt.Sprintf(" style=\"%s\"", strings.Join(styleDecls, ";"))
	}
	d.Body = fmt.Sprintf("<div class=c2><table id=i1 class=c1%s%s></table><p class=c1>x</p></div><table class=c1 id=i2></table>", hintAttr, st)
	return d, true
}

// ---- import graphs: competing declarations of one level and one specificity, each in
// a file of its own; the files import one another (chains, diamonds, cycles, themselves)
// and are imported, any number of times and under different media, by one or two
// top-level sheets: only the order of appearance after substitution decides
func importsDoc(r *vlib.Rng, seq int) (*Doc, []string) {
	prop := []int{6, 7, 0, 3}[seq%4]
	device := 1 + seq%2
	d := &Doc{Device: device, Hints: true, Props: []int{prop}, Files: Files{}}
	k := r.Range(2, 3)
	origin := r.Intn(3)
	imp := r.Chance(1, 4)
	sel := rankSel(r.Range(2, 6))
	media := func() []int {
		switch r.Intn(8) {
		case 0:
			return respell(r, []int{device})
		case 1:
			return respell(r, []int{0})
		case 2:
			return respell(r, []int{3 - device}) // does not match
		case 3:
			return respell(r, []int{3, device})
		}
		return nil
	}
	repeat, self := false, false
	imports := func(n int, owner int) []Rule {
		var rs []Rule
		seen := map[int]bool{}
		for i := 0; i < n; i++ {
			u := r.Range(1, k)
			if r.Chance(1, 12) {
				u = k + 1 // 404
			}
			if seen[u] {
				repeat = true
			}
			if u == owner {
				self = true
			}
			seen[u] = true
			rs = append(rs, Rule{K: RImport, Q: media(), URL: u})
		}
		return rs
	}
	rule := func(vid int) Rule {
		dc := Decl{Prop: prop, Vid: vid, Imp: imp}
		return Rule{K: RStyle, G: []*Sel{sel}, B: []Item{{D: &dc}}}
	}
	for u := 1; u <= k; u++ {
		rs := imports(vlib.Pick(r, []int{0, 0, 0, 1, 1, 2}), u)
		d.Files[u] = append(rs, rule(10+u))
	}
	top := func(i int) []Rule {
		rs := imports(r.Range(2, 4), 0)
		if r.Chance(1, 6) { // a rule in between ends the prologue: the following imports are ignored
			at := r.Range(1, len(rs))
			rs = append(rs[:at:at], append([]Rule{rule(20 + i)}, rs[at:]...)...)
		}
		return rs
	}
	nTop := r.Range(1, 2)
	switch origin {
	case 0:
		d.UA = top(0)
	case 1:
		for i := 0; i < nTop; i++ {
			d.Users = append(d.Users, UserSheet{Device: device, Rules: top(i)})
		}
	default:
		for i := 0; i < nTop; i++ {
			a := AuthorSheet{Rules: top(i), Link: r.Bool()}
			if r.Chance(1, 5) { // the file itself as a top-level sheet
				a = AuthorSheet{URL: r.Range(1, k)}
			}
			d.Authors = append(d.Authors, a)
		}
	}
	d.Body = "<div class=c2><table id=i1 class=c1></table><p class=c1>x</p></div><table class=c1 id=i2></table>"
	tags := []string{"imports", "origin:" + []string{"ua", "user", "author"}[origin]}
	if repeat {
		tags = append(tags, "same-url-twice-in-a-sheet")
	}
	if self {
		tags = append(tags, "self-import")
	}
	return d, tags
}

// ------------------------------------------------------------------ main

type corpusFile struct {
	Comment string `json:"comment"`
	Doc     *Doc   `json:"doc"`
}

func emitDoc(w *vlib.Writer, d *Doc, kind string, tags []string, comment string) {
	obs, htmlText, err := d.run()
	if err != nil {
		fmt.Fprintf(os.Stderr, "c03: document could not be built: %v\n%s\n", err, htmlText)
		os.Exit(2)
	}
	_, ua, ph, users, f := d.materialise()
	var elems []string
	nz := false
	for _, o := range obs {
		n := o.path[0]
		idv, _ := attr(n, "id")
		cl, _ := attr(n, "class")
		line := fmt.Sprintf("<%s id=%q class=%q> props %v -> %v", n.Data, idv, cl, d.Props, o.vals)
		for _, po := range o.pseudos {
			if po.present {
				line += fmt.Sprintf("  ::%s %v", pseudoNames[po.k], po.vals)
				for _, v := range po.vals {
					if v != 0 {
						nz = true
					}
				}
			} else {
				line += fmt.Sprintf("  ::%s nil", pseudoNames[po.k])
			}
		}
		elems = append(elems, line)
		for _, v := range o.vals {
			if v != 0 {
				nz = true
			}
		}
	}
	desc := map[string]interface{}{
		"html": htmlText, "ua_sheet": ua, "hint_sheet": ph, "user_sheets": users, "fetched_files": f.m,
		"device": devName(d.Device), "presentational_hints": d.Hints,
		"observed (0 = no declaration won)": elems, "properties": propNames,
	}
	if kind == "random" || kind == "corpus" {
		desc["ast"] = d // what a corpus file holds
	}
	if comment != "" {
		desc["comment"] = comment
	}
	w.Add(vlib.Case{Kind: kind, Coq: d.coq(obs), Desc: desc, Tags: tags, Nontrivial: nz})
}

func main() {
	out := flag.String("out", "cases.jsonl", "output file")
	n := flag.Int("n", 3000, "number of cases")
	corpusDir := flag.String("corpus", "/verif/corpus/C03", "regression corpus directory")
	show := flag.String("show", "", "print the materialised document of a corpus file and exit")
	flag.Parse()

	if *show != "" {
		b, err := os.ReadFile(*show)
		if err != nil {
			panic(err)
		}
		var cf corpusFile
		if err := json.Unmarshal(b, &cf); err != nil {
			panic(err)
		}
		obs, htmlText, err := cf.Doc.run()
		fmt.Println(htmlText)
		_, ua, ph, users, f := cf.Doc.materialise()
		fmt.Println("UA:", ua, "\nPH:", ph, "\nusers:", users, "\nfiles:", f.m, "\nerr:", err)
		for _, o := range obs {
			fmt.Println(o.path[0].Data, o.path[0].Attr, cf.Doc.Props, o.vals)
		}
		return
	}

	thorough := os.Getenv("VERIF_TIER") == "thorough"
	rng := vlib.NewRng(vlib.Seed())
	w := vlib.NewWriter(*out)
	defer w.Close()

	// 1. corpus
	corpusFiles, _ := filepath.Glob(filepath.Join(*corpusDir, "*.json"))
	sort.Strings(corpusFiles)
	for _, fn := range corpusFiles {
		b, err := os.ReadFile(fn)
		if err != nil {
			continue
		}
		var cf corpusFile
		if err := json.Unmarshal(b, &cf); err != nil || cf.Doc == nil {
			fmt.Fprintf(os.Stderr, "corpus %s: %v\n", fn, err)
			os.Exit(2)
		}
		tags := []string{"corpus", filepath.Base(fn)}
		if cf.Doc.VsSpec {
			tags = append(tags, "top-amp")
		}
		emitDoc(w, cf.Doc, "corpus", tags, cf.Comment)
	}

	// 2. the precedence table, exhaustively, through the hook
	origins := []struct{ go_, coq string }{{"user agent", "UA"}, {"user", "User"}, {"author", "Author"}}
	for _, o := range origins {
		for _, imp := range []bool{false, true} {
			p := tree.VerifC03Precedence(o.go_, imp)
			w.Add(vlib.Case{Kind: "precedence", Coq: fmt.Sprintf("CPrec %s %s %d", o.coq, vlib.Bool(imp), p),
				Desc: map[string]interface{}{"origin": o.go_, "important": imp, "declarationPrecedence": p}, Nontrivial: true})
		}
	}

	// 3. weight.Less on random and boundary weights
	nLess := *n / 20
	for i := 0; i < nLess; i++ {
		r := rng.Fork()
		mk := func() tree.VerifC03Weight {
			return tree.VerifC03Weight{Precedence: uint8(r.Range(1, 5)), StyleAttribute: r.Chance(1, 4),
				Specificity: [3]int{r.Range(0, 2), r.Range(0, 2), r.Range(0, 3)}}
		}
		a, b := mk(), mk()
		switch r.Intn(4) {
		case 0:
			b = a
		case 1:
			b.Precedence = a.Precedence
		case 2:
			b.Precedence, b.StyleAttribute = a.Precedence, a.StyleAttribute
		}
		res := tree.VerifC03WeightLess(a, b)
		wc := func(x tree.VerifC03Weight) string {
			return fmt.Sprintf("(mkW %d %s (%d, %d, %d))", x.Precedence, vlib.Bool(x.StyleAttribute), x.Specificity[0], x.Specificity[1], x.Specificity[2])
		}
		w.Add(vlib.Case{Kind: "less", Coq: fmt.Sprintf("CLess %s %s %s", wc(a), wc(b), vlib.Bool(res)),
			Desc: map[string]interface{}{"a": a, "b": b, "a.Less(b)": res}, Nontrivial: a != b})
	}

	// 4. flattened rule lists (order of the matcher, specificities, declarations)
	nFlat := *n / 10
	for i := 0; i < nFlat; i++ {
		r := rng.Fork()
		g := &gen{r: r, vid: 10, props: []int{r.Intn(8), r.Intn(8)}, pseudo: r.Chance(1, 3)}
		g.newURL()
		if r.Chance(1, 3) {
			g.sharedFiles(r.Range(1, 3))
		}
		rs := g.rules(0, r.Range(1, 3))
		device := r.Range(1, 2)
		f := newFiles(g.files)
		text := rulesCSS(rs, f)
		css, err := tree.VerifC03NewCSS(utils.InputString(text), "http://verif.test/", f.fetch, devName(device))
		if err != nil {
			fmt.Fprintf(os.Stderr, "c03: sheet could not be built: %v\n%s\n", err, text)
			os.Exit(2)
		}
		var dump []string
		nd := 0
		for _, m := range tree.VerifC03Matcher(css) {
			var sp, ds []string
			for _, s := range m.Specificities {
				sp = append(sp, fmt.Sprintf("(S3 %d %d %d)", s[0], s[1], s[2]))
			}
			for _, dcl := range m.Decls {
				prop := -1
				for k, nme := range propNames {
					if strings.ReplaceAll(nme, "-", "_") == strings.ReplaceAll(dcl.Name, "-", "_") {
						prop = k
					}
				}
				ds = append(ds, Decl{Prop: prop, Vid: firstInt(dcl.Value), Imp: dcl.Important}.coq())
				nd++
			}
			dump = append(dump, "(FD "+vlib.List(sp)+" "+vlib.List(ds)+")")
		}
		w.Add(vlib.Case{Kind: "flatten", Coq: fmt.Sprintf("CFlat %d %s %s %s", device, filesCoq(g.files), rulesCoq(rs), vlib.List(dump)),
			Desc:       map[string]interface{}{"sheet": text, "fetched_files": f.m, "device": devName(device), "matcher": tree.VerifC03Matcher(css)},
			Nontrivial: nd > 1})
	}

	// 5. systematic enumeration: ordered pairs (quick) and triples (thorough) of
	// competing declarations on one element
	specs := allSpecs()
	pairSeq := 0
	for _, a := range specs {
		for _, b := range specs {
			r := rng.Fork()
			combos := [][2]int{{r.Intn(nPlacements), r.Intn(nPlacements)}}
			if a.origin == b.origin && (a.imp == b.imp || a.origin == 0) && (a.rank == b.rank || (a.rank < 2 && b.rank < 2)) {
				// decided by the order of appearance: more placements
				for k := 0; k < 4; k++ {
					combos = append(combos, [2]int{r.Intn(nPlacements), r.Intn(nPlacements)})
				}
			}
			if thorough {
				combos = nil
				for x := 0; x < nPlacements; x++ {
					for y := 0; y < nPlacements; y++ {
						combos = append(combos, [2]int{x, y})
					}
				}
			}
			for _, pl := range combos {
				for _, same := range []bool{true, false} {
					if !same && !(a.origin == b.origin && a.origin != 0 && a.rank >= 2 && a.rank <= 6 && b.rank >= 2 && b.rank <= 6) {
						continue
					}
					pairSeq++
					prop := []int{6, 7, 0, 3}[pairSeq%4]
					if a.rank == 0 || b.rank == 0 {
						prop = 6 + pairSeq%2
					}
					d, ok := systematicDoc([]cspec{a, b}, pl[:], same, prop, 1+pairSeq%2, true)
					if !ok {
						continue
					}
					tags := []string{"pair", "a:" + a.String(), "b:" + b.String(), "pl:" + placementNames[pl[0]], "pl:" + placementNames[pl[1]]}
					sameLevel := a.origin == b.origin && (a.imp == b.imp || a.origin == 0)
					if sameLevel {
						tags = append(tags, "same-level")
						ra, rb := a.rank, b.rank
						if ra == 1 {
							ra = 0
						}
						if rb == 1 {
							rb = 0
						}
						if ra == rb {
							tags = append(tags, "decided-by-order")
						}
					}
					if a == b {
						tags = append(tags, "tie")
					}
					emitDoc(w, d, "pair", tags, "")
				}
			}
		}
	}
	if thorough {
		for _, a := range specs {
			for _, b := range specs {
				for _, c := range specs {
					r := rng.Fork()
					if !r.Chance(1, 3) { // a third of the triples (seeded)
						continue
					}
					pl := []int{r.Intn(nPlacements), r.Intn(nPlacements), r.Intn(nPlacements)}
					pairSeq++
					prop := 6 + pairSeq%2
					d, ok := systematicDoc([]cspec{a, b, c}, pl, r.Bool(), prop, 1+pairSeq%2, !r.Chance(1, 6))
					if !ok {
						continue
					}
					emitDoc(w, d, "triple", []string{"triple"}, "")
				}
			}
		}
	}

	// 5b. import graphs
	for i := 0; i < *n/15; i++ {
		d, tags := importsDoc(rng.Fork(), i)
		emitDoc(w, d, "imports", tags, "")
	}

	// 6. `&` in a top-level rule (css-nesting: :scope, specificity 0; the code
	// reads :root with specificity (0,1,0)): compared with the specification
	root := &Sel{K: KRoot}
	topAmps := []*Sel{amp, and(amp, class(3)), desc(amp, tag(1)), child(amp, tag(8)), desc(amp, class(1))}
	rivals := []*Sel{tag(9), root, univ, class(3), tag(1), class(1), and(tag(1), class(1)), tag(8), and(root, class(3))}
	for ai, a := range topAmps {
		for ri, rv := range rivals {
			for order := 0; order < 2; order++ {
				prop := []int{0, 3, 4}[(ai+ri+order)%3]
				d1 := Decl{Prop: prop, Vid: 11, Imp: (ai+ri)%5 == 0}
				d2 := Decl{Prop: prop, Vid: 12, Imp: (ai+ri)%5 == 0}
				r1 := Rule{K: RStyle, G: []*Sel{a}, B: []Item{{D: &d1}}}
				r2 := Rule{K: RStyle, G: []*Sel{rv}, B: []Item{{D: &d2}}}
				rs := []Rule{r1, r2}
				if order == 1 {
					rs = []Rule{r2, r1}
				}
				d := &Doc{Device: 1, Props: []int{prop}, HTMLAttrs: " class=\"c3\"", VsSpec: true,
					Body:    "<p class=c1>x</p><div><p>y</p></div>",
					Authors: []AuthorSheet{{Rules: rs}}}
				emitDoc(w, d, "topamp", []string{"top-amp"}, "")
			}
		}
	}

	// 7. random documents
	for w.N() < *n {
		r := rng.Fork()
		d := randomDoc(r)
		tags := []string{"random"}
		if d.Hints {
			tags = append(tags, "hints")
		}
		emitDoc(w, d, "random", tags, "")
	}
}

func firstInt(s string) int {
	start := -1
	for i, c := range s {
		if c >= '0' && c <= '9' {
			if start < 0 {
				start = i
			}
		} else if start >= 0 {
			v, _ := strconv.Atoi(s[start:i])
			return v
		}
	}
	if start >= 0 {
		v, _ := strconv.Atoi(s[start:])
		return v
	}
	return 0
}
