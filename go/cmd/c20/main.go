// Harness for C20: "Serialized CSS re-parses to the same component values".
//
// Every input is a CSS source text `src` (valid UTF-8) and a tokenizer mode.
// The harness runs /repo's real code:
//
//	ts   := parser.Tokenize(src, skip)          (kept only if free of parse errors)
//	ser  := parser.Serialize(ts)
//	back := parser.Tokenize(ser, true)
//
// and decides the Go-side round trip `norm(back) == norm(ts)` (kinds, unescaped
// values, numeric representation + integer flag, units, hash id flag, unicode
// ranges, nesting; comments and positions ignored, whitespace runs merged).
// The generators below are searched exhaustively / at random on the Go side
// (hundreds of thousands of inputs per run); every failing input and a seeded
// sample of the passing ones are written as Coq terms of type Check.C20.case,
// on which the Coq side evaluates the serializer model and the
// specification-level tokenizer (see coq/theories/Check/C20.v).
package main

import (
	"encoding/json"
	"flag"
	"fmt"
	"os"
	"path/filepath"
	"sort"
	"strings"
	"unicode/utf8"

	"verifharness/vlib"

	pa "github.com/benoitkugler/webrender/css/parser"
)

// ---------------------------------------------------------------- running /repo

type outcome struct {
	src    string
	skip   bool
	usable bool // Tokenize(src) returned an error-free list
	toks   []tk
	ser    string
	back   []tk
	ok     bool
	why    string
}

func safeTokenize(src string, skip bool) (l []tk, panicked bool) {
	defer func() {
		if r := recover(); r != nil {
			l, panicked = nil, true
		}
	}()
	return dumpList(pa.Tokenize([]byte(src), skip)), false
}

func safeSerialize(l []pa.Token) (s string, panicked bool) {
	defer func() {
		if r := recover(); r != nil {
			s, panicked = "", true
		}
	}()
	return pa.Serialize(l), false
}

func run(src string, skip bool) (o outcome) {
	o.src, o.skip = src, skip
	var raw []pa.Token
	func() {
		defer func() {
			if r := recover(); r != nil {
				raw = nil
				o.why = "tokenize-panic"
			}
		}()
		raw = pa.Tokenize([]byte(src), skip)
	}()
	if o.why != "" {
		return o
	}
	o.toks = dumpList(raw)
	if hasError(o.toks) {
		return o
	}
	o.usable = true
	ser, p := safeSerialize(raw)
	if p {
		o.why = "serialize-panic"
		return o
	}
	o.ser = ser
	back, p := safeTokenize(ser, true)
	if p {
		o.why = "retokenize-panic"
		return o
	}
	o.back = back
	o.ok = eqList(norm(back), norm(o.toks))
	if !o.ok {
		o.why = "differs"
	}
	return o
}

// ---------------------------------------------------------------- candidates

type cand struct {
	src  string
	skip bool
	kind string
	tags []string
}

type stream struct {
	name  string
	quota int
	seen  int
	res   []cand // reservoir
	rng   *vlib.Rng
}

type harness struct {
	streams  map[string]*stream
	order    []string
	failures []outcome
	failKind []string
	failSeen map[string]bool
	nRun     int
	nUsable  int
	nFail    int
	perKind  map[string][2]int
}

func (h *harness) stream(name string, quota int, rng *vlib.Rng) *stream {
	s := &stream{name: name, quota: quota, rng: rng.Fork()}
	h.streams[name] = s
	h.order = append(h.order, name)
	return s
}

// consider runs one input through /repo; failures are all kept (deduplicated
// after shrinking), passing inputs go through reservoir sampling.
func (h *harness) consider(s *stream, src string, skip bool) {
	if !utf8.ValidString(src) {
		return
	}
	h.nRun++
	o := run(src, skip)
	pk := h.perKind[s.name]
	pk[0]++
	if !o.usable {
		h.perKind[s.name] = pk
		return
	}
	pk[1]++
	h.perKind[s.name] = pk
	h.nUsable++
	if !o.ok {
		h.nFail++
		if len(h.failures) < 400 {
			m := shrink(o)
			key := fmt.Sprintf("%v|%s", m.skip, m.src)
			if !h.failSeen[key] {
				h.failSeen[key] = true
				h.failures = append(h.failures, m)
				h.failKind = append(h.failKind, s.name)
			}
		}
		return
	}
	c := cand{src: src, skip: skip, kind: s.name}
	s.seen++
	if len(s.res) < s.quota {
		s.res = append(s.res, c)
	} else if j := s.rng.Intn(s.seen); j < s.quota {
		s.res[j] = c
	}
}

// signature of a failure: the reason and, for a difference, the kinds of the
// first pair of tokens that differ (so that shrinking does not drift from one
// defect to another)
func signature(o outcome) string {
	if o.why != "differs" {
		return o.why
	}
	a, b := norm(o.toks), norm(o.back)
	for {
		i := 0
		for i < len(a) && i < len(b) && eqTk(a[i], b[i]) {
			i++
		}
		if i < len(a) && i < len(b) && a[i].Kind == b[i].Kind && a[i].hasArg {
			a, b = a[i].Args, b[i].Args
			continue
		}
		ka, kb := "end", "end"
		if i < len(a) {
			ka = a[i].Kind
			if ka == "TLiteral" {
				ka = a[i].Val
			}
		}
		if i < len(b) {
			kb = b[i].Kind
			if kb == "TLiteral" {
				kb = b[i].Val
			}
		}
		return "differs:" + ka + "->" + kb
	}
}

// shrink: delete runes / rune ranges while the input stays usable and failing.
func shrink(o outcome) outcome {
	best := o
	for changed := true; changed; {
		changed = false
		rs := []rune(best.src)
		for width := len(rs) / 2; width >= 1 && !changed; width /= 2 {
			for i := 0; i+width <= len(rs); i++ {
				c := string(rs[:i]) + string(rs[i+width:])
				n := run(c, best.skip)
				if n.usable && !n.ok && signature(n) == signature(o) {
					best, changed = n, true
					break
				}
			}
		}
	}
	return best
}

// ---------------------------------------------------------------- encoders

func isNameChar(c rune) bool {
	return c >= 0x80 || c == '-' || c == '_' || '0' <= c && c <= '9' || 'a' <= c && c <= 'z' || 'A' <= c && c <= 'Z'
}

func isHex(c rune) bool {
	return '0' <= c && c <= '9' || 'a' <= c && c <= 'f' || 'A' <= c && c <= 'F'
}

func isNL(c rune) bool { return c == '\n' || c == '\r' || c == '\f' }

// escape of one code point inside an identifier-like token
// mode 0: 6 hex digits; 1: minimal; 2: random
func escName(c rune, mode int, r *vlib.Rng) string {
	if mode == 2 {
		switch r.Intn(6) {
		case 0:
			return fmt.Sprintf("\\%06X", c)
		case 1:
			return fmt.Sprintf("\\%x ", c)
		case 2:
			return fmt.Sprintf("\\%X\n", c)
		case 3:
			return fmt.Sprintf("\\%X\t", c)
		case 4:
			return fmt.Sprintf("\\%X\r\n", c)
		}
		mode = 1
	}
	if mode == 0 {
		return fmt.Sprintf("\\%06X", c)
	}
	if isNameChar(c) {
		return string(c)
	}
	if isHex(c) || isNL(c) || c == 0 {
		return fmt.Sprintf("\\%X ", c)
	}
	return "\\" + string(c)
}

func encName(v []rune, mode int, r *vlib.Rng) string {
	var sb strings.Builder
	for _, c := range v {
		sb.WriteString(escName(c, mode, r))
	}
	return sb.String()
}

func encString(v []rune, mode int, quote rune, r *vlib.Rng) string {
	var sb strings.Builder
	sb.WriteRune(quote)
	for _, c := range v {
		switch {
		case mode == 0 || (mode == 2 && r.Chance(1, 3)):
			sb.WriteString(escName(c, 0, r))
		case c == quote || c == '\\':
			sb.WriteString("\\" + string(c))
		case isNL(c) || c == 0:
			sb.WriteString(fmt.Sprintf("\\%X ", c))
		default:
			sb.WriteRune(c)
		}
	}
	sb.WriteRune(quote)
	return sb.String()
}

func encURL(v []rune, mode int, r *vlib.Rng) string {
	var sb strings.Builder
	sb.WriteString("url(")
	for _, c := range v {
		switch {
		case mode == 0 || (mode == 2 && r.Chance(1, 3)):
			sb.WriteString(escName(c, 0, r))
		case c == '"' || c == '\'' || c == '(' || c == ')' || c == '\\' || c == ' ' || c == '\t':
			sb.WriteString("\\" + string(c))
		case isNL(c) || c < 0x20 || c == 0x7f:
			sb.WriteString(fmt.Sprintf("\\%X ", c))
		default:
			sb.WriteRune(c)
		}
	}
	sb.WriteString(")")
	return sb.String()
}

var carriers = []string{"ident", "function", "at", "hash", "dim", "pct-ident", "string", "url"}

func carrier(k string, v []rune, mode int, r *vlib.Rng) string {
	switch k {
	case "ident":
		return encName(v, mode, r)
	case "function":
		return encName(v, mode, r) + "(1)"
	case "at":
		return "@" + encName(v, mode, r)
	case "hash":
		return "#" + encName(v, mode, r)
	case "dim":
		return "1" + encName(v, mode, r)
	case "pct-ident":
		return "1%" + encName(v, mode, r)
	case "string":
		q := '"'
		if mode == 1 {
			q = '\''
		}
		return encString(v, mode, q, r)
	case "url":
		return encURL(v, mode, r)
	}
	panic(k)
}

// code-point classes: letters incl. hex/non-hex and e/E/u, digits, '-', '_',
// newlines, blanks, controls, DEL, quotes, backslash, parentheses, non-ASCII
// (2,3,4 byte, U+FFFD), and the ASCII punctuation that starts other tokens.
var alphabet = []rune{
	'a', 'e', 'E', 'g', 'u', 'U', '5', '0', '-', '_', '\n', '\r', '\f', '\t', ' ', 0x01, 0x0b, 0x1f, 0x7f,
	'"', '\'', '\\', '(', ')', 0x80, 0xe9, 0xd7ff, 0xfffd, 0x10ffff,
	'+', '.', '%', '/', '*', '<', '>', '!', '@', '#', ':', ';', '{', '}', '[', ']', '=', '|', '?', ',', '~', '$', '^', '&', '`',
}

var alphabetSmall = []rune{'a', 'e', 'E', '5', '-', '\n', ' ', 0x01, '"', '\\', '(', 0xe9, '+', 'u'}

var follows = []string{"", ";", " ", "\n", " x", "/**/x", "/**/1", "/**/-", "/**/(", "/**/%", "/**/url(x)", "/**/u+1"}

// spellings of single tokens (and small blocks) for the adjacency streams
var spellings = []string{
	// idents
	"a", "e", "E", "u", "U", "url", "-a", "--", "--a", "-\\-", "\\-", "\\31 ", "e5", "e-5", "E5", "\u00e9", "\\a ", "-\\31 ", "x1",
	// functions
	"a()", "url(\"x\")", "--f(1)", "u(+1)", "e(",
	// at-keywords
	"@a", "@-a", "@--", "@e", "@\\31 ",
	// hashes
	"#a", "#1", "#-", "#-1", "#--", "#\\-", "#e5", "#u",
	// strings
	"\"x\"", "'y'", "\"\"",
	// urls
	"url(x)", "url()", "url(\\ )", "URL( y )",
	// unicode ranges
	"U+1", "u+1-2", "U+??", "U+0-10FFFF", "u+abcdef",
	// numbers
	"1", "+1", "-1", "1.5", ".5", "1e3", "1E-3", "0", "-.5e+2",
	// percentages
	"1%", "+.5%",
	// dimensions
	"1a", "1e", "1E", "1\\65 5", "1e-x", "1E-x", "1\\65 -5", "1--", "1-a", "1\\-", "1em", "1\\45 5", "1u", "1.5e3x",
	// delimiters and literals
	"!", "#", "$", "%", "&", "*", "+", ",", "-", ".", "/", ":", ";", "<", "=", ">", "?", "@", "^", "`", "|", "~",
	"\\\n", "~=", "|=", "^=", "$=", "*=", "||", "<!--", "-->", "\x01", "\x7f",
	// whitespace
	" ", "\n", "\t", "\r\n", "\f",
	// blocks
	"()", "[]", "{}", "(a)", "[1]", "{-}", "(", "[", "{",
}

var spellingsSmall = []string{
	"a", "u", "e", "--", "-a", "a()", "@a", "#a", "#1", "\"x\"", "url(x)", "U+1", "1", "+1", ".5", "1%", "1a", "1e",
	"!", "#", "%", "*", "+", "-", ".", "/", "<", "=", ">", "?", "@", "|", "\\\n", "|=", "*=", "||", "<!--", "-->", " ", "\n", "(a)", "(",
}

var joins = []string{"/**/", "", " "}

// ---------------------------------------------------------------- streams

func (h *harness) genPairs(s *stream) {
	for _, a := range spellings {
		for _, b := range spellings {
			for _, j := range joins {
				h.consider(s, a+j+b, true)
				if j != "" {
					h.consider(s, a+j+b, false)
				}
			}
			h.consider(s, a+"/**/"+b+"/**/x", true)
			h.consider(s, "x/**/"+a+"/**/"+b, true)
		}
	}
}

func (h *harness) genTriples(s *stream, thorough bool) {
	l := spellingsSmall
	if thorough {
		l = spellings
	}
	for _, a := range l {
		for _, b := range spellingsSmall {
			for _, c := range l {
				h.consider(s, a+"/**/"+b+"/**/"+c, true)
			}
		}
	}
}

func words(alpha []rune, n int, f func([]rune)) {
	w := make([]rune, n)
	var rec func(i int)
	rec = func(i int) {
		if i == n {
			f(w)
			return
		}
		for _, c := range alpha {
			w[i] = c
			rec(i + 1)
		}
	}
	rec(0)
}

func (h *harness) genContents(s *stream, thorough bool) {
	each := func(v []rune) {
		for _, k := range carriers {
			for mode := 0; mode < 2; mode++ {
				body := carrier(k, v, mode, nil)
				for _, f := range follows {
					h.consider(s, body+f, true)
				}
				h.consider(s, "x/**/"+body, true)
				h.consider(s, "1/**/"+body, true)
				h.consider(s, "-/**/"+body, true)
			}
		}
	}
	words(alphabet, 1, each)
	words(alphabet, 2, each)
	words(alphabetSmall, 3, each)
	if thorough {
		words(alphabetSmall, 4, each)
	}
}

func (h *harness) genContentsRandom(s *stream, n int) {
	r := s.rng
	for i := 0; i < n; i++ {
		L := r.Range(1, 9)
		v := make([]rune, L)
		for j := range v {
			switch r.Intn(10) {
			case 0:
				v[j] = rune(r.Range(1, 0x7f))
			case 1:
				v[j] = rune(r.Range(0x80, 0x2fff))
			case 2:
				v[j] = rune(r.Range(0x10000, 0x10ffff))
			default:
				v[j] = vlib.Pick(r, alphabet)
			}
			if v[j] >= 0xd800 && v[j] <= 0xdfff {
				v[j] = 0xfffd
			}
		}
		k := vlib.Pick(r, carriers)
		body := carrier(k, v, r.Intn(3), r)
		src := body + vlib.Pick(r, follows)
		if r.Chance(1, 3) {
			src = vlib.Pick(r, spellings) + vlib.Pick(r, joins) + src
		}
		h.consider(s, src, r.Chance(3, 4))
	}
}

func soup(r *vlib.Rng, depth int) string {
	var sb strings.Builder
	n := r.Range(1, 8)
	for i := 0; i < n; i++ {
		if i > 0 {
			switch r.Intn(6) {
			case 0, 1:
				sb.WriteString("/**/")
			case 2:
				sb.WriteString(" ")
			case 3:
				sb.WriteString(vlib.Pick(r, []string{"\n", "\t", "  ", "/* c */", "\r\n", " /**/ "}))
			}
		}
		if depth > 0 && r.Chance(1, 4) {
			inner := soup(r, depth-1)
			switch r.Intn(5) {
			case 0:
				sb.WriteString("(" + inner + ")")
			case 1:
				sb.WriteString("[" + inner + "]")
			case 2:
				sb.WriteString("{" + inner + "}")
			case 3:
				sb.WriteString(vlib.Pick(r, []string{"f", "--x", "\\31 ", "url", "rgb", "U", "e"}) + "(" + inner + ")")
			default:
				sb.WriteString(vlib.Pick(r, []string{"(", "[", "{", "g("}) + inner) // closed by EOF / the enclosing block
			}
			continue
		}
		if r.Chance(1, 6) {
			L := r.Range(1, 4)
			v := make([]rune, L)
			for j := range v {
				v[j] = vlib.Pick(r, alphabet)
			}
			sb.WriteString(carrier(vlib.Pick(r, carriers), v, r.Intn(3), r))
			continue
		}
		sb.WriteString(vlib.Pick(r, spellings))
	}
	return sb.String()
}

func (h *harness) genSoup(s *stream, n int) {
	r := s.rng
	for i := 0; i < n; i++ {
		h.consider(s, soup(r, r.Intn(4)), r.Chance(3, 4))
	}
}

func (h *harness) genText(s *stream, n int) {
	r := s.rng
	for i := 0; i < n; i++ {
		L := r.Range(1, 14)
		var sb strings.Builder
		for j := 0; j < L; j++ {
			if r.Chance(1, 8) {
				c := rune(r.Range(0, 0x10ffff))
				if c >= 0xd800 && c <= 0xdfff {
					c = 0
				}
				sb.WriteRune(c)
			} else {
				sb.WriteRune(vlib.Pick(r, alphabet))
			}
		}
		h.consider(s, sb.String(), r.Bool())
	}
}

// inputs of the css-parsing-tests suite shipped with /repo, and their
// single-rune deletions (mostly valid CSS with one defect)
func (h *harness) genSuite(s *stream, thorough bool) {
	files, _ := filepath.Glob("/repo/css/parser/css-parsing-tests/*.json")
	sort.Strings(files)
	for _, f := range files {
		b, err := os.ReadFile(f)
		if err != nil {
			continue
		}
		var arr []interface{}
		if json.Unmarshal(b, &arr) != nil {
			continue
		}
		for i := 0; i < len(arr); i += 2 {
			src, ok := arr[i].(string)
			if !ok || len(src) > 400 {
				continue
			}
			h.consider(s, src, true)
			h.consider(s, src, false)
			if strings.Contains(f, "color3") && !thorough {
				continue
			}
			rs := []rune(src)
			if len(rs) > 60 && !thorough {
				continue
			}
			for k := range rs {
				h.consider(s, string(rs[:k])+string(rs[k+1:]), true)
			}
		}
	}
}

type corpusCase struct {
	Src  string `json:"src"`
	Skip bool   `json:"skip"`
	Note string `json:"note"`
}

func (h *harness) genCorpus(s *stream) {
	files, _ := filepath.Glob("../corpus/C20/*.case")
	sort.Strings(files)
	for _, f := range files {
		b, err := os.ReadFile(f)
		if err != nil {
			continue
		}
		for _, line := range strings.Split(string(b), "\n") {
			line = strings.TrimSpace(line)
			if line == "" {
				continue
			}
			var c corpusCase
			if json.Unmarshal([]byte(line), &c) != nil {
				fmt.Fprintln(os.Stderr, "bad corpus line in", f)
				os.Exit(2)
			}
			h.consider(s, c.Src, c.Skip)
		}
	}
}

// ---------------------------------------------------------------- output

func tagsOf(o outcome) []string {
	var tags []string
	if o.skip {
		tags = append(tags, "skip-comments")
	} else {
		tags = append(tags, "keep-comments")
	}
	m := map[string]bool{}
	kindsOf(o.toks, m)
	ks := make([]string, 0, len(m))
	for k := range m {
		ks = append(ks, "has:"+k)
	}
	sort.Strings(ks)
	tags = append(tags, ks...)
	if d := depth(o.toks); d > 0 {
		tags = append(tags, fmt.Sprintf("depth:%d", d))
	}
	if o.why != "" {
		tags = append(tags, "why:"+o.why)
	}
	if strings.Contains(o.ser, "/**/") {
		tags = append(tags, "separator-inserted")
	}
	if strings.Contains(o.ser, "\\") {
		tags = append(tags, "escaped")
	}
	return tags
}

func emit(w *vlib.Writer, kind string, o outcome) {
	desc := map[string]interface{}{
		"src": o.src, "skip_comments": o.skip, "tokens": showList(o.toks), "serialized": o.ser,
		"retokenized": showList(o.back), "go_roundtrip_ok": o.ok,
	}
	if o.why != "" {
		desc["why"] = o.why
	}
	coq := fmt.Sprintf("CRT %s %s %s %s %s", vlib.Bool(o.skip), vlib.Runes(o.src), coqList(o.toks), vlib.Runes(o.ser), vlib.Bool(o.ok))
	w.Add(vlib.Case{Kind: kind, Coq: coq, Desc: desc, Tags: tagsOf(o),
		Nontrivial: countTokens(o.toks) >= 2 || o.ser != o.src,
		Key:        fmt.Sprintf("%v|%s", o.skip, o.src)})
}

func main() {
	out := flag.String("out", "cases.jsonl", "output file")
	n := flag.Int("n", 3000, "number of sampled (passing) cases written for the model correspondence")
	stats := flag.String("stats", "", "write search statistics (JSON) to this file")
	flag.Parse()
	thorough := os.Getenv("VERIF_TIER") == "thorough"
	rng := vlib.NewRng(vlib.Seed())
	h := &harness{streams: map[string]*stream{}, failSeen: map[string]bool{}, perKind: map[string][2]int{}}
	N := *n
	q := func(pct int) int { return N * pct / 100 }
	mul := 1
	if thorough {
		mul = 10
	}

	sCorpus := h.stream("corpus", 1<<30, rng)
	sPairs := h.stream("pairs", q(20), rng)
	sTriples := h.stream("triples", q(10), rng)
	sCont := h.stream("contents", q(20), rng)
	sContR := h.stream("contents-random", q(12), rng)
	sSoup := h.stream("soup", q(20), rng)
	sText := h.stream("text", q(4), rng)
	sSuite := h.stream("suite", q(10), rng)

	h.genCorpus(sCorpus)
	h.genPairs(sPairs)
	h.genTriples(sTriples, thorough)
	h.genContents(sCont, thorough)
	h.genContentsRandom(sContR, 40000*mul)
	h.genSoup(sSoup, 60000*mul)
	h.genText(sText, 40000*mul)
	h.genSuite(sSuite, thorough)

	// parsed rules and declarations (compound serializers), see compound.go
	ch := &cpHarness{rng: rng.Fork(), quota: q(14), failSeen: map[string]bool{}, perKind: map[string]int{}}
	ch.generate(30000 * mul)

	w := vlib.NewWriter(*out)
	// failing inputs first (shrunk, deduplicated; at most 60 are evaluated by the model)
	for i, o := range h.failures {
		if i >= 60 {
			break
		}
		emit(w, h.failKind[i], o)
	}
	for i, o := range ch.failures {
		if i >= 40 {
			break
		}
		emitCompound(w, o)
	}
	for _, name := range h.order {
		for _, c := range h.streams[name].res {
			o := run(c.src, c.skip)
			if !o.usable || !o.ok { // cannot happen: deterministic
				continue
			}
			emit(w, c.kind, o)
		}
	}
	for _, o := range ch.pinned {
		emitCompound(w, o)
	}
	for _, o := range ch.res {
		emitCompound(w, o)
	}
	w.Close()

	st := map[string]interface{}{
		"compound_sources_parsed": ch.nSrc, "compounds_round_tripped": ch.nRun, "compound_roundtrip_failures": ch.nFail,
		"distinct_shrunk_compound_failures": len(ch.failures), "compounds_per_kind": ch.perKind,
		"inputs_run_on_go_side": h.nRun, "error_free_inputs_round_tripped": h.nUsable,
		"go_roundtrip_failures": h.nFail, "distinct_shrunk_failures": len(h.failures),
		"per_stream_run_usable": h.perKind, "cases_written": w.N(),
	}
	b, _ := json.MarshalIndent(st, "", " ")
	if *stats != "" {
		os.WriteFile(*stats, b, 0o644)
	}
	fmt.Fprintln(os.Stderr, string(b))
}
