package main

import (
	"fmt"
	"strings"

	"verifharness/vlib"

	pa "github.com/benoitkugler/webrender/css/parser"
)

// tk is the position-free structural image of a parser.Token: exactly the
// observables property C20 talks about (kind, unescaped value, numeric
// representation + integer flag, unit, hash id flag, unicode range, nesting).
type tk struct {
	Kind   string // Coq constructor of Css/Token.v
	Val    string
	Unit   string
	Flag   bool // is_int / is_id / err
	Start  uint32
	End    uint32
	ErrK   byte
	Args   []tk
	hasArg bool
}

func dumpList(l []pa.Token) []tk {
	out := make([]tk, 0, len(l))
	for _, t := range l {
		out = append(out, dump(t))
	}
	return out
}

func dump(t pa.Token) tk {
	switch t := t.(type) {
	case pa.Literal:
		return tk{Kind: "TLiteral", Val: t.Value}
	case pa.ParseError:
		return tk{Kind: "TParseError", ErrK: pa.VerifC20ParseErrorKind(t)}
	case pa.Comment:
		return tk{Kind: "TComment", Val: t.Value}
	case pa.Whitespace:
		return tk{Kind: "TWhitespace", Val: t.Value}
	case pa.Ident:
		return tk{Kind: "TIdent", Val: t.Value}
	case pa.AtKeyword:
		return tk{Kind: "TAtKeyword", Val: t.Value}
	case pa.Hash:
		return tk{Kind: "THash", Val: t.Value, Flag: pa.VerifC20HashIsID(t)}
	case pa.String:
		return tk{Kind: "TString", Val: t.Value, Flag: pa.VerifC20StringIsError(t)}
	case pa.URL:
		return tk{Kind: "TURL", Val: t.Value, Flag: pa.VerifC20URLIsError(t)}
	case pa.UnicodeRange:
		return tk{Kind: "TUnicodeRange", Start: t.Start, End: t.End}
	case pa.Number:
		return tk{Kind: "TNumber", Val: t.Value, Flag: t.IsInt()}
	case pa.Percentage:
		return tk{Kind: "TPercentage", Val: t.Value, Flag: t.IsInt()}
	case pa.Dimension:
		return tk{Kind: "TDimension", Val: t.Value, Flag: t.IsInt(), Unit: t.Unit}
	case pa.ParenthesesBlock:
		return tk{Kind: "TParens", Args: dumpList(t.Arguments), hasArg: true}
	case pa.SquareBracketsBlock:
		return tk{Kind: "TSquare", Args: dumpList(t.Arguments), hasArg: true}
	case pa.CurlyBracketsBlock:
		return tk{Kind: "TCurly", Args: dumpList(t.Arguments), hasArg: true}
	case pa.FunctionBlock:
		return tk{Kind: "TFunction", Val: t.Name, Args: dumpList(t.Arguments), hasArg: true}
	}
	panic(fmt.Sprintf("unknown token %T", t))
}

func hasError(l []tk) bool {
	for _, t := range l {
		if t.Kind == "TParseError" || hasError(t.Args) {
			return true
		}
		// the error flags only ever come together with a ParseError token
		if (t.Kind == "TString" || t.Kind == "TURL") && t.Flag {
			return true
		}
	}
	return false
}

// norm: the equivalence of the property statement. Comments are dropped
// ("ignoring only comments and source positions"; positions are not in tk)
// and, as CSS Syntax 3 section 9 allows, consecutive whitespace tokens (which
// only arise around a dropped comment) are merged into one.
func norm(l []tk) []tk {
	out := make([]tk, 0, len(l))
	for _, t := range l {
		if t.Kind == "TComment" {
			continue
		}
		if t.Kind == "TWhitespace" && len(out) > 0 && out[len(out)-1].Kind == "TWhitespace" {
			out[len(out)-1].Val += t.Val
			continue
		}
		if t.hasArg {
			t.Args = norm(t.Args)
		}
		out = append(out, t)
	}
	return out
}

func eqList(a, b []tk) bool {
	if len(a) != len(b) {
		return false
	}
	for i := range a {
		if !eqTk(a[i], b[i]) {
			return false
		}
	}
	return true
}

func eqTk(a, b tk) bool {
	return a.Kind == b.Kind && a.Val == b.Val && a.Unit == b.Unit && a.Flag == b.Flag &&
		a.Start == b.Start && a.End == b.End && a.ErrK == b.ErrK && eqList(a.Args, b.Args)
}

func countTokens(l []tk) int {
	n := 0
	for _, t := range l {
		n += 1 + countTokens(t.Args)
	}
	return n
}

func depth(l []tk) int {
	d := 0
	for _, t := range l {
		if t.hasArg {
			if x := 1 + depth(t.Args); x > d {
				d = x
			}
		}
	}
	return d
}

func kindsOf(l []tk, m map[string]bool) {
	for _, t := range l {
		m[t.Kind] = true
		kindsOf(t.Args, m)
	}
}

// ---------------------------------------------------------------- Coq terms

func coqList(l []tk) string {
	items := make([]string, len(l))
	for i, t := range l {
		items[i] = coqTk(t)
	}
	return vlib.List(items)
}

func coqTk(t tk) string {
	switch t.Kind {
	case "TLiteral", "TComment", "TWhitespace", "TIdent", "TAtKeyword":
		return fmt.Sprintf("%s p0 %s", t.Kind, vlib.Runes(t.Val))
	case "TParseError":
		return fmt.Sprintf("TParseError p0 %d", t.ErrK)
	case "THash", "TString", "TURL", "TNumber", "TPercentage":
		return fmt.Sprintf("%s p0 %s %s", t.Kind, vlib.Runes(t.Val), vlib.Bool(t.Flag))
	case "TUnicodeRange":
		return fmt.Sprintf("TUnicodeRange p0 %d %d", t.Start, t.End)
	case "TDimension":
		return fmt.Sprintf("TDimension p0 %s %s %s", vlib.Runes(t.Val), vlib.Bool(t.Flag), vlib.Runes(t.Unit))
	case "TParens", "TSquare", "TCurly":
		return fmt.Sprintf("%s p0 %s", t.Kind, coqList(t.Args))
	case "TFunction":
		return fmt.Sprintf("TFunction p0 %s %s", vlib.Runes(t.Val), coqList(t.Args))
	}
	panic("coqTk " + t.Kind)
}

// human readable form for replay files
func showList(l []tk) string {
	var sb strings.Builder
	for i, t := range l {
		if i > 0 {
			sb.WriteString(" ")
		}
		sb.WriteString(showTk(t))
	}
	return sb.String()
}

func showTk(t tk) string {
	switch t.Kind {
	case "TLiteral":
		return fmt.Sprintf("lit%q", t.Val)
	case "TParseError":
		return fmt.Sprintf("error(%c)", t.ErrK)
	case "TComment":
		return fmt.Sprintf("comment%q", t.Val)
	case "TWhitespace":
		return fmt.Sprintf("ws%q", t.Val)
	case "TIdent":
		return fmt.Sprintf("ident%q", t.Val)
	case "TAtKeyword":
		return fmt.Sprintf("at%q", t.Val)
	case "THash":
		if t.Flag {
			return fmt.Sprintf("hash-id%q", t.Val)
		}
		return fmt.Sprintf("hash%q", t.Val)
	case "TString":
		return fmt.Sprintf("string%q", t.Val)
	case "TURL":
		return fmt.Sprintf("url%q", t.Val)
	case "TUnicodeRange":
		return fmt.Sprintf("urange(%X-%X)", t.Start, t.End)
	case "TNumber", "TPercentage":
		k := "number"
		if t.Kind == "TPercentage" {
			k = "percentage"
		}
		if t.Flag {
			return fmt.Sprintf("%s-int%q", k, t.Val)
		}
		return fmt.Sprintf("%s%q", k, t.Val)
	case "TDimension":
		if t.Flag {
			return fmt.Sprintf("dimension-int%q%q", t.Val, t.Unit)
		}
		return fmt.Sprintf("dimension%q%q", t.Val, t.Unit)
	case "TParens":
		return "(" + showList(t.Args) + ")"
	case "TSquare":
		return "[" + showList(t.Args) + "]"
	case "TCurly":
		return "{" + showList(t.Args) + "}"
	case "TFunction":
		return fmt.Sprintf("fn%q(", t.Val) + showList(t.Args) + ")"
	}
	return "?"
}
