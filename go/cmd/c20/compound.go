package main

// Compound stream of C20: "(or a parsed rule or declaration)".
//
// A source text is parsed by one of /repo's entry points (ParseStylesheet,
// ParseRuleList, ParseDeclarationList, ParseBlocksContents,
// ParseOneDeclaration; the contents of the rules found are parsed again, as
// the CSS cascade of /repo does).  Every QualifiedRule / AtRule / Declaration
// whose token lists are error free is serialized with its own serializeTo
// (hook VerifC20SerializeCompound), the text is tokenized and parsed again
// (rules: ParseRuleList, declarations: ParseOneDeclaration) and the result
// must be ONE compound of the same kind with the same observables: at-keyword,
// prelude and content up to comments / positions, block PRESENT OR ABSENT
// (`@x;` is not `@x{}`), declaration name, value, !important flag.

import (
	"encoding/json"
	"fmt"
	"os"
	"path/filepath"
	"sort"
	"strings"
	"unicode/utf8"

	"verifharness/vlib"

	pa "github.com/benoitkugler/webrender/css/parser"
)

// position-free image of a compound
type cp struct {
	Kind     string // "qualified" | "at" | "decl"
	Name     string // at-keyword / declaration name
	Prelude  []tk   // prelude / value
	HasBlock bool   // at-rule: Content != nil ; qualified: true
	Content  []tk
	Imp      bool
}

func dumpCompound(c pa.Compound) (cp, bool) {
	switch c := c.(type) {
	case pa.QualifiedRule:
		return cp{Kind: "qualified", Prelude: dumpList(c.Prelude), HasBlock: true, Content: dumpList(c.Content)}, true
	case pa.AtRule:
		return cp{Kind: "at", Name: c.AtKeyword, Prelude: dumpList(c.Prelude), HasBlock: c.Content != nil, Content: dumpList(c.Content)}, true
	case pa.Declaration:
		return cp{Kind: "decl", Name: c.Name, Prelude: dumpList(c.Value), Imp: c.Important}, true
	}
	return cp{}, false
}

func eqCp(a, b cp) bool {
	return a.Kind == b.Kind && a.Name == b.Name && a.HasBlock == b.HasBlock && a.Imp == b.Imp &&
		eqList(norm(a.Prelude), norm(b.Prelude)) && eqList(norm(a.Content), norm(b.Content))
}

func showCp(c cp) string {
	switch c.Kind {
	case "qualified":
		return fmt.Sprintf("qualified-rule prelude[%s] block{%s}", showList(c.Prelude), showList(c.Content))
	case "at":
		if !c.HasBlock {
			return fmt.Sprintf("at-rule %q prelude[%s] NO-BLOCK", c.Name, showList(c.Prelude))
		}
		return fmt.Sprintf("at-rule %q prelude[%s] block{%s}", c.Name, showList(c.Prelude), showList(c.Content))
	case "decl":
		return fmt.Sprintf("declaration %q value[%s] important=%v", c.Name, showList(c.Prelude), c.Imp)
	}
	return "?"
}

func coqCp(c cp) string {
	switch c.Kind {
	case "qualified":
		return fmt.Sprintf("(CQualified %s %s)", coqList(c.Prelude), coqList(c.Content))
	case "at":
		return fmt.Sprintf("(CAtRule %s %s %s)", vlib.Runes(c.Name), coqList(c.Prelude), vlib.Option(coqList(c.Content), c.HasBlock))
	default:
		return fmt.Sprintf("(CDecl %s %s %s)", vlib.Runes(c.Name), coqList(c.Prelude), vlib.Bool(c.Imp))
	}
}

// ---------------------------------------------------------------- running /repo

var cpParsers = []string{"stylesheet", "rule-list", "declaration-list", "blocks-contents", "one-declaration"}

type cpConfig struct {
	parser       string
	skipC, skipW bool
}

func parseWith(cfg cpConfig, toks []pa.Token) []pa.Compound {
	switch cfg.parser {
	case "stylesheet":
		return pa.ParseStylesheet(toks, cfg.skipC, cfg.skipW)
	case "rule-list":
		return pa.ParseRuleList(toks, cfg.skipC, cfg.skipW)
	case "declaration-list":
		return pa.ParseDeclarationList(toks, cfg.skipC, cfg.skipW)
	case "blocks-contents":
		return pa.ParseBlocksContents(toks, cfg.skipW)
	default:
		return []pa.Compound{pa.ParseOneDeclaration(toks)}
	}
}

// all rules / declarations of the parse, including the ones found by parsing
// the contents of rules again (depth-limited)
func collect(cfg cpConfig, toks []pa.Token, depth int, path string, out *[]located) {
	for i, c := range parseWith(cfg, toks) {
		p := fmt.Sprintf("%s/%s[%d]", path, cfg.parser, i)
		switch c := c.(type) {
		case pa.QualifiedRule:
			*out = append(*out, located{c, p})
			if depth > 0 {
				collect(cpConfig{"blocks-contents", cfg.skipC, cfg.skipW}, c.Content, depth-1, p, out)
				collect(cpConfig{"declaration-list", cfg.skipC, cfg.skipW}, c.Content, depth-1, p, out)
			}
		case pa.AtRule:
			*out = append(*out, located{c, p})
			if depth > 0 && c.Content != nil {
				collect(cpConfig{"rule-list", cfg.skipC, cfg.skipW}, c.Content, depth-1, p, out)
				collect(cpConfig{"declaration-list", cfg.skipC, cfg.skipW}, c.Content, depth-1, p, out)
			}
		case pa.Declaration:
			*out = append(*out, located{c, p})
		}
	}
}

type located struct {
	c    pa.Compound
	path string
}

type cpOutcome struct {
	src  string
	cfg  cpConfig
	path string
	c    cp
	ser  string
	back []cp // what the serialization parses to
	ok   bool
	why  string
}

func reparse(kind, ser string) (out []cp, why string) {
	defer func() {
		if r := recover(); r != nil {
			out, why = nil, "reparse-panic"
		}
	}()
	toks := pa.Tokenize([]byte(ser), true)
	var l []pa.Compound
	if kind == "decl" {
		l = []pa.Compound{pa.ParseOneDeclaration(toks)}
	} else {
		l = pa.ParseRuleList(toks, true, true)
	}
	for _, c := range l {
		d, ok := dumpCompound(c)
		if !ok {
			d = cp{Kind: fmt.Sprintf("%T", c)}
		}
		out = append(out, d)
	}
	return out, ""
}

func serializeCompound(c pa.Compound) (s string, panicked bool) {
	defer func() {
		if r := recover(); r != nil {
			s, panicked = "", true
		}
	}()
	return pa.VerifC20SerializeCompound(c), false
}

// runCompounds returns the outcome of every usable compound of the parse
func runCompounds(src string, cfg cpConfig) (res []cpOutcome) {
	defer func() {
		if r := recover(); r != nil {
			res = nil
		}
	}()
	toks := pa.Tokenize([]byte(src), cfg.skipC)
	var locs []located
	collect(cfg, toks, 2, "", &locs)
	seen := map[string]bool{}
	for _, l := range locs {
		d, _ := dumpCompound(l.c)
		if hasError(d.Prelude) || hasError(d.Content) {
			continue
		}
		o := cpOutcome{src: src, cfg: cfg, path: l.path, c: d}
		ser, p := serializeCompound(l.c)
		if p {
			o.why = "serialize-panic"
			res = append(res, o)
			continue
		}
		if seen[d.Kind+"|"+ser] {
			continue
		}
		seen[d.Kind+"|"+ser] = true
		o.ser = ser
		o.back, o.why = reparse(d.Kind, ser)
		if o.why == "" {
			switch {
			case len(o.back) != 1:
				o.why = fmt.Sprintf("reparsed-to-%d-compounds", len(o.back))
			case o.back[0].Kind != d.Kind:
				o.why = "kind:" + d.Kind + "->" + o.back[0].Kind
			case o.back[0].Name != d.Name:
				o.why = d.Kind + ":name"
			case o.back[0].HasBlock != d.HasBlock:
				o.why = d.Kind + ":block-presence"
			case o.back[0].Imp != d.Imp:
				o.why = d.Kind + ":important"
			case !eqList(norm(o.back[0].Prelude), norm(d.Prelude)):
				o.why = d.Kind + ":prelude"
			case !eqList(norm(o.back[0].Content), norm(d.Content)):
				o.why = d.Kind + ":content"
			}
		}
		o.ok = o.why == ""
		res = append(res, o)
	}
	return res
}

// ---------------------------------------------------------------- search

type cpHarness struct {
	rng      *vlib.Rng
	quota    int
	seen     int
	res      []cpOutcome
	pinned   []cpOutcome
	failures []cpOutcome
	failSeen map[string]bool
	nSrc     int
	nRun     int
	nFail    int
	perKind  map[string]int
}

func firstFailure(src string, cfg cpConfig, sig string) (cpOutcome, bool) {
	for _, o := range runCompounds(src, cfg) {
		if !o.ok && o.why == sig {
			return o, true
		}
	}
	return cpOutcome{}, false
}

func shrinkCompound(o cpOutcome) cpOutcome {
	best := o
	for changed := true; changed; {
		changed = false
		rs := []rune(best.src)
		for width := len(rs) / 2; width >= 1 && !changed; width /= 2 {
			for i := 0; i+width <= len(rs); i++ {
				c := string(rs[:i]) + string(rs[i+width:])
				if n, ok := firstFailure(c, best.cfg, o.why); ok {
					best, changed = n, true
					break
				}
			}
		}
	}
	return best
}

func (h *cpHarness) consider(src string, cfg cpConfig) {
	if !utf8.ValidString(src) {
		return
	}
	h.nSrc++
	for _, o := range runCompounds(src, cfg) {
		h.nRun++
		h.perKind[o.c.Kind]++
		if !o.ok {
			h.nFail++
			if len(h.failures) < 200 {
				m := shrinkCompound(o)
				key := m.c.Kind + "|" + m.ser + "|" + showCp(m.c)
				if !h.failSeen[key] {
					h.failSeen[key] = true
					h.failures = append(h.failures, m)
				}
			}
			continue
		}
		h.seen++
		if len(h.res) < h.quota {
			h.res = append(h.res, o)
		} else if j := h.rng.Intn(h.seen); j < h.quota {
			h.res[j] = o
		}
	}
}

// ---------------------------------------------------------------- generators

var cpAtNames = []string{"media", "page", "font-face", "import", "a", "-x", "--", "e", "u", "\\31 ", "supports", "U", "x1"}

// what ends an at-rule: statement form, block forms (EMPTY, blank, filled), end of input, unclosed block
var cpAtEnds = []string{";", "{}", "{ }", "{/**/}", "{a:b}", "", "{", "{;}", " ;", " {}", "/**/{}", "/**/;"}

var cpImportant = []string{"", "!important", " !important", "! important", "!IMPORTANT ", "!/**/important", " ! important /**/", "!imp", "!important!", "!important x", "! important !important"}

func cpWS(r *vlib.Rng) string {
	return vlib.Pick(r, []string{"", "", " ", " ", "\n", "/**/", " /**/ ", "\t"})
}

// a prelude / value: token soup; top-level ; { } ! are rare but possible
func cpSoup(r *vlib.Rng, n int) string {
	var sb strings.Builder
	for i := 0; i < n; i++ {
		if i > 0 {
			sb.WriteString(vlib.Pick(r, []string{"", " ", " ", "/**/", "\n", " /**/ "}))
		}
		switch r.Intn(12) {
		case 0:
			sb.WriteString(soup(r, 1))
		case 1:
			sb.WriteString(vlib.Pick(r, []string{"(a)", "[b]", "f(1)", "url(x)", "\"s\"", "(", "{}", "{x}"}))
		case 2, 3:
			sb.WriteString(vlib.Pick(r, spellings))
		default:
			sb.WriteString(vlib.Pick(r, []string{"a", "b", "screen", "print", ":first", ".c", "#d", "1", "1px", "10%", "and", ",", ">", "*", "-", "+1", "u", "e5", "red", "U+1"}))
		}
	}
	return sb.String()
}

func cpDecl(r *vlib.Rng) string {
	name := vlib.Pick(r, []string{"a", "color", "--x", "-a", "e", "\\31 ", "width", "u"})
	v := cpSoup(r, r.Range(0, 3))
	if r.Chance(1, 12) {
		v = vlib.Pick(r, []string{"{}", "{a:b}", " {} ", "{", "x{}", "{}x"})
	}
	imp := ""
	if r.Chance(1, 2) {
		imp = vlib.Pick(r, cpImportant)
	}
	return name + cpWS(r) + ":" + cpWS(r) + v + cpWS(r) + imp
}

func cpBody(r *vlib.Rng, depth int) string {
	var sb strings.Builder
	n := r.Range(0, 3)
	for i := 0; i < n; i++ {
		sb.WriteString(cpWS(r))
		if depth > 0 && r.Chance(1, 3) {
			sb.WriteString(cpRule(r, depth-1))
		} else {
			sb.WriteString(cpDecl(r))
			if i+1 < n || r.Bool() {
				sb.WriteString(";")
			}
		}
	}
	sb.WriteString(cpWS(r))
	return sb.String()
}

func cpRule(r *vlib.Rng, depth int) string {
	if r.Chance(1, 2) { // at-rule
		s := "@" + vlib.Pick(r, cpAtNames) + cpWS(r) + cpSoup(r, r.Range(0, 3)) + cpWS(r)
		switch r.Intn(6) {
		case 0:
			return s + ";"
		case 1:
			return s + "{}"
		case 2:
			return s + vlib.Pick(r, cpAtEnds)
		default:
			return s + "{" + cpBody(r, depth) + vlib.Pick(r, []string{"}", "}", "}", ""})
		}
	}
	s := cpSoup(r, r.Range(1, 3)) + cpWS(r)
	if r.Chance(1, 5) {
		return s + vlib.Pick(r, []string{"{}", "{ }", "{", "{/**/}"})
	}
	return s + "{" + cpBody(r, depth) + "}"
}

func cpSheet(r *vlib.Rng) string {
	var sb strings.Builder
	n := r.Range(1, 3)
	for i := 0; i < n; i++ {
		sb.WriteString(cpWS(r))
		if r.Chance(1, 10) {
			sb.WriteString(vlib.Pick(r, []string{"<!--", "-->"}))
		}
		sb.WriteString(cpRule(r, r.Intn(3)))
	}
	sb.WriteString(cpWS(r))
	return sb.String()
}

type cpCorpusCase struct {
	Src    string `json:"src"`
	Parser string `json:"parser"`
	SkipC  bool   `json:"skip_comments"`
	SkipW  bool   `json:"skip_whitespace"`
	Note   string `json:"note"`
}

// regression corpus of the compound stream: corpus/C20/*.ccase
func (h *cpHarness) genCorpus() {
	files, _ := filepath.Glob("../corpus/C20/*.ccase")
	sort.Strings(files)
	for _, f := range files {
		b, err := os.ReadFile(f)
		if err != nil {
			continue
		}
		for _, line := range strings.Split(string(b), "\n") {
			line = strings.TrimSpace(line)
			if line == "" {
				continue
			}
			var c cpCorpusCase
			if json.Unmarshal([]byte(line), &c) != nil {
				fmt.Fprintln(os.Stderr, "bad corpus line in", f)
				os.Exit(2)
			}
			cfg := cpConfig{c.Parser, c.SkipC, c.SkipW}
			h.consider(c.Src, cfg)
			for _, o := range runCompounds(c.Src, cfg) { // always evaluated by the model
				if o.ok {
					h.pinned = append(h.pinned, o)
				}
			}
		}
	}
}

func (h *cpHarness) generate(n int) {
	r := h.rng
	h.genCorpus()
	cfgs := []cpConfig{}
	for _, p := range cpParsers {
		for _, sc := range []bool{true, false} {
			for _, sw := range []bool{true, false} {
				cfgs = append(cfgs, cpConfig{p, sc, sw})
			}
		}
	}
	ruleCfg := []cpConfig{{"stylesheet", true, true}, {"rule-list", false, false}, {"declaration-list", true, false}, {"blocks-contents", true, true}}
	// exhaustive boundaries: at-keyword x separator x first prelude token x end of the rule
	for _, kw := range []string{"a", "-x", "\\31 ", "e"} {
		for _, j := range joins {
			for _, sp := range append([]string{""}, spellings...) {
				for _, end := range cpAtEnds {
					src := "@" + kw + j + sp + end
					h.consider(src, ruleCfg[0])
					if j == "/**/" || strings.Contains(end, "/**/") {
						h.consider(src, ruleCfg[1])
					}
				}
			}
		}
	}
	// qualified rules: last prelude token x separator x block ; first / last content token
	for _, sp := range spellings {
		for _, j := range joins {
			for _, blk := range []string{"{}", "{ }", "{a:b}", "{" + sp + "}", "{"} {
				h.consider(sp+j+blk, ruleCfg[0])
				h.consider("x{"+sp+j+blk+"}", ruleCfg[3])
			}
		}
	}
	// declarations: name x colon x first / last value token x !important spelling
	for _, sp := range append([]string{""}, spellings...) {
		for _, j := range joins {
			for _, imp := range cpImportant {
				for _, nm := range []string{"a", "--x"} {
					src := nm + ":" + sp + j + imp
					h.consider(src, cpConfig{"one-declaration", true, true})
					h.consider(src, cpConfig{"declaration-list", j != "/**/", false})
				}
			}
		}
	}
	// random stylesheets / declaration lists / block contents
	for i := 0; i < n; i++ {
		cfg := vlib.Pick(r, cfgs)
		var src string
		switch cfg.parser {
		case "stylesheet", "rule-list":
			src = cpSheet(r)
		case "one-declaration":
			src = cpWS(r) + cpDecl(r)
		default:
			src = cpBody(r, 2)
		}
		h.consider(src, cfg)
	}
}

// ---------------------------------------------------------------- output

func cpTags(o cpOutcome) []string {
	tags := []string{"compound:" + o.c.Kind, "parser:" + o.cfg.parser}
	if o.cfg.skipC {
		tags = append(tags, "skip-comments")
	} else {
		tags = append(tags, "keep-comments")
	}
	if o.c.Kind == "at" {
		switch {
		case !o.c.HasBlock:
			tags = append(tags, "at:statement")
		case len(o.c.Content) == 0:
			tags = append(tags, "at:empty-block")
		default:
			tags = append(tags, "at:block")
		}
		if len(o.c.Prelude) == 0 {
			tags = append(tags, "at:empty-prelude")
		} else {
			tags = append(tags, "at:prelude-starts:"+o.c.Prelude[0].Kind)
		}
	}
	if o.c.Kind == "decl" && o.c.Imp {
		tags = append(tags, "important")
	}
	m := map[string]bool{}
	kindsOf(o.c.Prelude, m)
	kindsOf(o.c.Content, m)
	ks := make([]string, 0, len(m))
	for k := range m {
		ks = append(ks, "has:"+k)
	}
	sort.Strings(ks)
	tags = append(tags, ks...)
	if o.why != "" {
		tags = append(tags, "why:"+o.why)
	}
	return tags
}

func emitCompound(w *vlib.Writer, o cpOutcome) {
	back := make([]string, len(o.back))
	for i, b := range o.back {
		back[i] = showCp(b)
	}
	desc := map[string]interface{}{
		"src": o.src, "parser": o.cfg.parser, "skip_comments": o.cfg.skipC, "skip_whitespace": o.cfg.skipW, "path": o.path,
		"compound": showCp(o.c), "serialized": o.ser, "reparsed": back, "go_roundtrip_ok": o.ok,
	}
	if o.why != "" {
		desc["why"] = o.why
	}
	coq := fmt.Sprintf("CCP %s %s %s", coqCp(o.c), vlib.Runes(o.ser), vlib.Bool(o.ok))
	w.Add(vlib.Case{Kind: "compound", Coq: coq, Desc: desc, Tags: cpTags(o), Nontrivial: true,
		Key: "compound|" + o.c.Kind + "|" + o.ser + "|" + showCp(o.c)})
}
