// sortscan: source-level tie of C16.  The theorems C16_stable_partition_sort /
// C16_paint_order_spec hold for ANY sorting function meeting the contract of
// sort.SliceStable (Base/SortStable.v: sorted, permutation, equal keys keep
// their order).  This program (standard library only: go/parser, go/ast) lists
// every call of a sorting function of packages sort / slices in
// /repo/html/document/stacking.go, and in the other non-test files of the
// package every such call whose arguments mention the z-index lists
// (negativeZContexts / positiveZContexts), with file:line, the function called
// and whether its documented contract includes stability.
//
// Output: a JSON report (-json) and a Coq file (-coq) holding the sites and the
// obligation `sort_sites_ok sites = true` (Check/C16.v): every site is a sort
// whose contract includes stability.
package main

import (
	"bytes"
	"encoding/json"
	"flag"
	"fmt"
	"go/ast"
	"go/parser"
	"go/printer"
	"go/token"
	"os"
	"path/filepath"
	"sort"
	"strconv"
	"strings"
)

type Site struct {
	File   string `json:"file"`
	Line   int    `json:"line"`
	Call   string `json:"call"` // e.g. sort.SliceStable
	Func   string `json:"func"` // enclosing function
	Arg    string `json:"arg"`  // first argument
	Stable bool   `json:"stable"`
	List   int    `json:"list"` // 0 other, 1 negativeZContexts, 2 positiveZContexts, 3 both
}

// sorting entry points of the standard library and whether they are documented stable
var sorters = map[string]bool{
	"sort.Slice": false, "sort.SliceStable": true, "sort.Sort": false, "sort.Stable": true,
	"sort.Ints": false, "sort.Strings": false, "sort.Float64s": false,
	"slices.Sort": false, "slices.SortFunc": false, "slices.SortStableFunc": true,
}

func text(fset *token.FileSet, n ast.Node) string {
	var b bytes.Buffer
	printer.Fprint(&b, fset, n)
	s := strings.Join(strings.Fields(b.String()), " ")
	if len(s) > 160 {
		s = s[:160]
	}
	return s
}

// coqComment keeps only characters that are harmless inside a Coq comment
func coqComment(s string) string {
	return strings.Map(func(r rune) rune {
		switch {
		case r >= 'a' && r <= 'z', r >= 'A' && r <= 'Z', r >= '0' && r <= '9', r == '_', r == '.', r == ' ', r == '[', r == ']':
			return r
		}
		return '?'
	}, s)
}

func main() {
	repo := flag.String("repo", "/repo", "repository root")
	jsonOut := flag.String("json", "", "JSON report")
	coqOut := flag.String("coq", "", "Coq file")
	flag.Parse()
	dir := filepath.Join(*repo, "html", "document")
	files, err := filepath.Glob(filepath.Join(dir, "*.go"))
	if err != nil || len(files) == 0 {
		fmt.Fprintln(os.Stderr, "sortscan: no Go files in", dir)
		os.Exit(2)
	}
	sort.Strings(files)
	fset := token.NewFileSet()
	var sites []Site
	seenStacking := false
	for _, f := range files {
		base := filepath.Base(f)
		if strings.HasSuffix(base, "_test.go") {
			continue
		}
		af, err := parser.ParseFile(fset, f, nil, 0)
		if err != nil {
			fmt.Fprintln(os.Stderr, "sortscan:", err)
			os.Exit(2)
		}
		isStacking := base == "stacking.go"
		seenStacking = seenStacking || isStacking
		alias := map[string]string{} // local name -> "sort" | "slices"
		for _, im := range af.Imports {
			p, _ := strconv.Unquote(im.Path.Value)
			if p != "sort" && p != "slices" && p != "golang.org/x/exp/slices" {
				continue
			}
			name := filepath.Base(p)
			if im.Name != nil {
				name = im.Name.Name
			}
			alias[name] = filepath.Base(p)
		}
		for _, d := range af.Decls {
			fd, ok := d.(*ast.FuncDecl)
			if !ok || fd.Body == nil {
				continue
			}
			ast.Inspect(fd.Body, func(n ast.Node) bool {
				ce, ok := n.(*ast.CallExpr)
				if !ok {
					return true
				}
				se, ok := ce.Fun.(*ast.SelectorExpr)
				if !ok {
					return true
				}
				// generic instantiation slices.SortFunc[T](..) is an IndexExpr around the selector: not used with inference
				id, ok := se.X.(*ast.Ident)
				if !ok {
					return true
				}
				pkg, ok := alias[id.Name]
				if !ok || id.Obj != nil { // id.Obj != nil: a local variable shadows the package name
					return true
				}
				call := pkg + "." + se.Sel.Name
				stable, known := sorters[call]
				if !known {
					if !strings.Contains(se.Sel.Name, "Sort") && !strings.Contains(se.Sel.Name, "Stable") {
						return true // sort.Search, slices.Contains, ...
					}
					stable = false // an entry point this tool does not know: not accepted as stable
				}
				all := ""
				for _, a := range ce.Args {
					all += " " + text(fset, a)
				}
				list := 0
				if strings.Contains(all, "negativeZContexts") {
					list |= 1
				}
				if strings.Contains(all, "positiveZContexts") {
					list |= 2
				}
				if !isStacking && list == 0 {
					return true
				}
				arg := ""
				if len(ce.Args) > 0 {
					arg = text(fset, ce.Args[0])
				}
				rel, _ := filepath.Rel(*repo, f)
				sites = append(sites, Site{File: rel, Line: fset.Position(ce.Pos()).Line, Call: call, Func: fd.Name.Name, Arg: arg, Stable: stable, List: list})
				return true
			})
		}
	}
	if !seenStacking {
		fmt.Fprintln(os.Stderr, "sortscan: html/document/stacking.go not found")
		os.Exit(2)
	}
	if *jsonOut != "" {
		b, _ := json.MarshalIndent(map[string]interface{}{"sites": sites}, "", " ")
		if err := os.WriteFile(*jsonOut, b, 0o644); err != nil {
			panic(err)
		}
	}
	if *coqOut != "" {
		var sb strings.Builder
		sb.WriteString("(* GENERATED by go/cmd/c16/sortscan from /repo/html/document/*.go -- do not edit *)\n")
		sb.WriteString("From Verif Require Import Check.C16.\nFrom Coq Require Import List NArith Bool.\nImport ListNotations.\nOpen Scope N_scope.\n")
		sb.WriteString("Definition sites : list sort_site := [\n")
		for i, s := range sites {
			if i > 0 {
				sb.WriteString(";\n")
			}
			fmt.Fprintf(&sb, "  (* %s:%d %s(%s) in %s *) mkSite %d %v %d", s.File, s.Line, s.Call, coqComment(s.Arg), s.Func, s.Line, s.Stable, s.List)
		}
		sb.WriteString("\n].\n")
		sb.WriteString("(* the hypothesis `z_then_tree_order css_level zsort` of the theorems of Properties/C16.v is\n   discharged for the code only if every sort of the z-index lists has a stable contract *)\n")
		sb.WriteString("Lemma stacking_sorts_are_stable : sort_sites_ok sites = true.\nProof. vm_compute. reflexivity. Qed.\n")
		if err := os.WriteFile(*coqOut, []byte(sb.String()), 0o644); err != nil {
			panic(err)
		}
	}
}
