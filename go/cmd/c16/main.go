package main

import (
	"fmt"
	"os"

	"verifharness/vlib/render"
)

func main() {
	b, _ := os.ReadFile(os.Args[1])
	d, err := render.Render(string(b), nil, false, true, render.NewPango())
	if err != nil {
		panic(err)
	}
	rec := render.Draw(d, 1)
	for _, e := range rec.Events {
		fmt.Println(e.String())
	}
}
