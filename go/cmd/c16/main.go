// Harness for C16 (paint order): renders generated documents with /repo's real
// pipeline on the recording backend, projects every laid-out page to the
// abstract box tree of coq/theories/Draw/Stacking.v and translates the backend
// trace to the model's event alphabet.  One case per page:
//
//	CPage <page info> <canvas element> <page children> <crashed> <noclip> <impl events>
package main

import (
	"encoding/json"
	"flag"
	"fmt"
	"math"
	"os"
	"path/filepath"
	"sort"
	"strings"
	"time"

	pr "github.com/benoitkugler/webrender/css/properties"
	bo "github.com/benoitkugler/webrender/html/boxes"
	"github.com/benoitkugler/webrender/html/document"
	"github.com/benoitkugler/webrender/html/layout"
	"github.com/benoitkugler/webrender/html/tree"

	"verifharness/vlib"
	"verifharness/vlib/render"
)

const (
	anonBase  = 100000 // ids of anonymous boxes
	pageID    = 200000 // id of the page box (+ page index)
	textBase  = 300000 // id of the text box of element k = textBase + k
	unknown   = 900000 // events whose colour names no element
	marginK   = 900    // element number standing for the @top-center margin box
	wideEvery = 25     // one document in wideEvery comes from genWideDocument
)

// ------------------------------------------------------------------ projection

type abox struct {
	ID    int
	Kind  string
	Flags int // 1 positioned, 2 z auto, 4 floated, 8 opacity<1, 16 transform, 32 overflow != visible
	Z     int
	Vis   int // 1 bg, 2 border, 4 content, 8 outline
	Kids  []*abox
}

type projector struct {
	anon      int
	clipRects map[[4]float32][]int // padding box of overflow != visible boxes -> ids
	bgRects   map[[4]float32]bool  // rectangles clipped by background painting
	nboxes    int
	nctx      int
	canvasK   int
}

func elementNumber(b *bo.BoxFields) (int, bool) {
	if b.Element == nil || b.PseudoType != "" {
		return 0, false
	}
	for _, a := range b.Element.Attr {
		if a.Key == "id" && strings.HasPrefix(a.Val, "e") {
			var k int
			if _, err := fmt.Sscanf(a.Val, "e%d", &k); err == nil {
				return k, true
			}
		}
	}
	return 0, false
}

func kindOf(b bo.Box) string {
	switch b.Type() {
	case bo.BlockT, bo.TableCaptionT, bo.FootnoteAreaT:
		return "KBlock"
	case bo.FlexT, bo.GridT:
		return "KFlex"
	case bo.TableT, bo.InlineTableT:
		return "KTable"
	case bo.BlockReplacedT:
		return "KBlockReplaced"
	case bo.TableCellT:
		return "KTableCell"
	case bo.InlineT:
		return "KInline"
	case bo.InlineBlockT:
		return "KInlineBlock"
	case bo.InlineFlexT, bo.InlineGridT:
		return "KInlineFlex"
	case bo.InlineReplacedT, bo.ReplacedT:
		return "KInlineReplaced"
	case bo.LineT:
		return "KLine"
	case bo.TextT:
		return "KText"
	case bo.MarginT:
		return "KMargin"
	case bo.PageT:
		return "KPage"
	default:
		return "KOther"
	}
}

func rectKey(r bo.RoundedBox) [4]float32 {
	return [4]float32{float32(r.X), float32(r.Y), float32(r.Width), float32(r.Height)}
}

func (p *projector) project(b bo.Box) *abox { return p.projectIn(b, -1) }

// owner: element number standing for boxes without an element (margin boxes: 900)
func (p *projector) projectIn(b bo.Box, owner int) *abox {
	if ph, ok := b.(*layout.AbsolutePlaceholder); ok { // stacking.go:110-111
		b = ph.AliasBox
	}
	f := b.Box()
	a := &abox{Kind: kindOf(b)}
	p.nboxes++
	_, anonymous := f.Style.(*tree.AnonymousStyle)
	k, hasK := elementNumber(f)
	if !hasK && f.Element == nil {
		if b.Type() == bo.MarginT {
			owner = marginK
			k, hasK, anonymous = owner, true, false
		} else if owner >= 0 {
			k, hasK, anonymous = owner, true, true
		}
	}
	switch {
	case a.Kind == "KText" && hasK:
		a.ID = textBase + k
	case hasK && !anonymous:
		a.ID = k
	default:
		a.ID = anonBase + p.anon
		p.anon++
	}
	st := f.Style
	if st.GetPosition().String != "static" {
		a.Flags |= 1
	}
	if z := st.GetZIndex(); z.String == "auto" {
		a.Flags |= 2
	} else {
		a.Z = z.Int
	}
	if f.IsFloated() {
		a.Flags |= 4
	}
	if st.GetOpacity() < 1 {
		a.Flags |= 8
	}
	if len(st.GetTransform()) != 0 {
		a.Flags |= 16
		if singularTransform(st.GetTransform()) {
			a.Flags |= 64
		}
	}
	if st.GetOverflow() != "visible" {
		a.Flags |= 32
		if a.Kind != "KPage" {
			key := rectKey(f.RoundedPaddingBox())
			p.clipRects[key] = append(p.clipRects[key], a.ID)
		}
	}
	if a.Flags&(8|16|32) != 0 || (a.Flags&1 != 0 && a.Flags&2 == 0) {
		p.nctx++
	}
	// what of this box can reach the backend
	if bg := f.Background; bg != nil {
		if bg.Color.A > 0 {
			a.Vis |= 1
		}
		if n := len(bg.Layers); n > 0 {
			for _, cb := range bg.Layers[n-1].ClippedBoxes {
				p.bgRects[rectKey(cb)] = true
			}
			pa := bg.Layers[n-1].PaintingArea
			p.bgRects[[4]float32{float32(pa[0]), float32(pa[1]), float32(pa[2]), float32(pa[3])}] = true
		}
	}
	if f.BorderTopWidth.V() != 0 || f.BorderRightWidth.V() != 0 || f.BorderBottomWidth.V() != 0 || f.BorderLeftWidth.V() != 0 {
		a.Vis |= 2
	}
	if tb, ok := b.(*bo.TextBox); ok {
		if strings.TrimSpace(tb.TextS()) != "" {
			a.Vis |= 4
		}
	}
	if st.GetOutlineWidth().Value != 0 && tree.ResolveColor(st, pr.POutlineColor).RGBA.A != 0 {
		a.Vis |= 8
	}
	for _, c := range f.Children {
		a.Kids = append(a.Kids, p.projectIn(c, owner))
	}
	return a
}

// singularTransform decides, from the computed style alone (not from /repo's matrix
// code), whether the transform list is not invertible.  Only lists made of
// translate / scale / matrix functions are decided (their linear parts have small
// integer entries in the generated documents, so float32 products are exact):
// the product is singular iff one factor is.  Lists with rotate / skew are never
// generated together with a singular factor.
func singularTransform(ts pr.Transforms) bool {
	sing := false
	for _, t := range ts {
		d := t.Dimensions
		switch t.String {
		case "translate":
		case "scale":
			if d[0].Value == 0 || d[1].Value == 0 {
				sing = true
			}
		case "matrix":
			if d[0].Value*d[3].Value == d[1].Value*d[2].Value {
				sing = true
			}
		default:
			return false
		}
	}
	return sing
}

func (a *abox) coq(sb *strings.Builder) {
	fmt.Fprintf(sb, "Box (mkb %d %s %d %s %d) [", a.ID, a.Kind, a.Flags, vlib.Z(a.Z), a.Vis)
	for i, k := range a.Kids {
		if i > 0 {
			sb.WriteString("; ")
		}
		k.coq(sb)
	}
	sb.WriteString("]")
}

func (a *abox) info() string {
	return fmt.Sprintf("(mkb %d %s %d %s %d)", a.ID, a.Kind, a.Flags, vlib.Z(a.Z), a.Vis)
}

// tags describe what the tree exercises (used by known-finding matchers and the distribution)
func (a *abox) tags(t map[string]bool) {
	pos, zauto := a.Flags&1 != 0, a.Flags&2 != 0
	if pos {
		t["positioned"] = true
	}
	switch {
	case zauto:
	case !pos:
		t["static-z"] = true
	case a.Z < 0:
		t["neg-z"] = true
	case a.Z == 0:
		t["zero-z"] = true
	default:
		t["pos-z"] = true
	}
	if a.Flags&4 != 0 {
		t["float"] = true
	}
	if a.Flags&8 != 0 {
		t["opacity"] = true
	}
	if a.Flags&16 != 0 {
		t["transform"] = true
	}
	if a.Flags&64 != 0 && a.Kind != "KInline" { // draw.go:252-258: nothing of the sub-tree is painted
		t["singular-transform"] = true
		if a.Flags&8 != 0 {
			t["singular-opacity"] = true
		}
		if a.Flags&32 != 0 {
			t["singular-overflow"] = true
		}
		if len(a.Kids) > 0 {
			t["singular-with-content"] = true
		}
	}
	if a.Flags&32 != 0 {
		t["overflow"] = true
		if !pos {
			t["static-overflow"] = true
		}
		// not a stacking context for CSS (positioned with an integer z-index, opacity, transform):
		// the construct of known finding C16/overflow-forms-stacking-context (Check/C16.v noncss_clip)
		if !(pos && !zauto) && a.Flags&(8|16) == 0 {
			t["overflow-not-css-ctx"] = true
		}
	}
	switch a.Kind {
	case "KInlineBlock":
		t["inline-block"] = true
	case "KInlineFlex":
		t["inline-flex"] = true
	case "KFlex":
		t["flex"] = true
	case "KMargin":
		t["margin-box"] = true
	case "KTable":
		t["table"] = true
	case "KTableCell":
		t["table-cell"] = true
		if a.Vis&3 != 0 {
			t["table-decorated"] = true
		}
	}
	if a.Vis&8 != 0 {
		t["outline"] = true
	}
	for _, k := range a.Kids {
		k.tags(t)
	}
}

func (a *abox) dump(sb *strings.Builder, depth int) {
	fmt.Fprintf(sb, "%s%d %s", strings.Repeat(" ", depth), a.ID, a.Kind[1:])
	if a.Flags&1 != 0 {
		sb.WriteString(" pos")
	}
	if a.Flags&2 == 0 {
		fmt.Fprintf(sb, " z=%d", a.Z)
	}
	for bit, name := range map[int]string{4: "float", 8: "opacity", 16: "transform", 32: "overflow"} {
		if a.Flags&bit != 0 {
			sb.WriteString(" " + name)
		}
	}
	sb.WriteString("\n")
	for _, k := range a.Kids {
		k.dump(sb, depth+1)
	}
}

// ------------------------------------------------------------------ trace translation

type ev struct {
	Kind string // Bg Border Content Outline CanvasBg PushClip PopClip PushOpacity ...
	ID   int
}

func (e ev) coq() string {
	switch e.Kind {
	case "Bg", "Border", "Content", "Outline", "CanvasBg":
		return fmt.Sprintf("%s %d", e.Kind, e.ID)
	case "PushClip":
		return fmt.Sprintf("Push EClip %d", e.ID)
	case "PopClip":
		return fmt.Sprintf("Pop EClip %d", e.ID)
	case "PushOpacity":
		return fmt.Sprintf("Push EOpacity %d", e.ID)
	case "PopOpacity":
		return fmt.Sprintf("Pop EOpacity %d", e.ID)
	case "PushTransform":
		return fmt.Sprintf("Push ETransform %d", e.ID)
	case "PopTransform":
		return fmt.Sprintf("Pop ETransform %d", e.ID)
	}
	return fmt.Sprintf("Unknown %d", e.ID)
}

func (e ev) String() string { return fmt.Sprintf("%s %d", e.Kind, e.ID) }

func colourCode(args []render.Fl) (int, bool) {
	if len(args) < 4 || args[3] != 1 {
		return 0, false
	}
	c := 0
	for i := 0; i < 3; i++ {
		v := float64(args[i]) * 255
		iv := math.Round(v)
		if math.Abs(v-iv) > 1e-3 {
			return 0, false
		}
		c = c<<8 | int(iv)
	}
	return c, true
}

// fillEvent names the event of a fill with the given colour
func fillEvent(code int, ok bool, page int, canvasK int) ev {
	if !ok {
		return ev{"Unknown", unknown}
	}
	switch code {
	case pageBgCode:
		return ev{"Bg", pageID + page}
	case pageBordCode:
		return ev{"Border", pageID + page}
	}
	if code < codeBase {
		return ev{"Unknown", unknown + code}
	}
	k, role := (code-codeBase)/4, (code-codeBase)%4
	switch role {
	case 0:
		if k == canvasK {
			return ev{"CanvasBg", k}
		}
		return ev{"Bg", k}
	case 1:
		return ev{"Border", k}
	case 3:
		return ev{"Outline", k}
	}
	return ev{"Unknown", unknown + code} // a text colour used for a fill
}

type frame struct{ closers []ev }

type canvasState struct {
	frames  []frame
	base    frame // effects applied outside any frame of this canvas (group canvases)
	openIdx int   // index in out of the PushOpacity placeholder
}

func translate(events []render.Event, page int, p *projector) []ev {
	var out []ev
	canv := map[string]*canvasState{}
	var stack []string // canvases: page canvas at the bottom, then groups
	get := func(cid string) *canvasState {
		c := canv[cid]
		if c == nil {
			c = &canvasState{}
			canv[cid] = c
		}
		return c
	}
	var pathRects [][4]float32
	pathOther := false
	resetPath := func() { pathRects, pathOther = nil, false }
	var fill []render.Fl
	ntransform := 0
	addEffect := func(open, close ev) {
		out = append(out, open)
		if len(stack) == 0 {
			return
		}
		c := get(stack[len(stack)-1])
		if n := len(c.frames); n > 0 {
			c.frames[n-1].closers = append(c.frames[n-1].closers, close)
		} else {
			c.base.closers = append(c.base.closers, close)
		}
	}
	closeFrame := func(f frame) {
		for i := len(f.closers) - 1; i >= 0; i-- {
			out = append(out, f.closers[i])
		}
	}
	for _, e := range events {
		if e.Page != page {
			continue
		}
		switch e.Op {
		case "Push":
			if len(stack) == 0 {
				stack = append(stack, e.S)
			}
			c := get(e.S)
			c.frames = append(c.frames, frame{})
		case "Pop":
			c := get(e.S)
			if n := len(c.frames); n > 0 {
				closeFrame(c.frames[n-1])
				c.frames = c.frames[:n-1]
			}
		case "NewGroup":
			c := get(e.S)
			c.openIdx = len(out)
			out = append(out, ev{"PushOpacity", unknown})
			stack = append(stack, e.S)
		case "DrawWithOpacity":
			c := get(e.S)
			for len(c.frames) > 0 { // unbalanced group canvas
				closeFrame(c.frames[len(c.frames)-1])
				c.frames = c.frames[:len(c.frames)-1]
			}
			closeFrame(c.base)
			id := unknown
			if len(e.Args) == 1 {
				v := float64(e.Args[0]) * 1000
				if math.Abs(v-math.Round(v)) < 1e-2 {
					id = int(math.Round(v))
				}
			}
			out[c.openIdx].ID = id
			out = append(out, ev{"PopOpacity", id})
			if n := len(stack); n > 1 && stack[n-1] == e.S {
				stack = stack[:n-1]
			} else {
				out = append(out, ev{"Unknown", unknown + 1}) // groups not nested
			}
		case "Transform":
			ntransform++
			if ntransform <= 2 { // Document.Write's flip and Page.Paint's zoom
				continue
			}
			id := unknown
			a := e.Args
			if len(a) == 6 && a[0] == 1 && a[1] == 0 && a[2] == 0 && a[3] == 1 && math.Abs(float64(a[5])) < 1e-3 {
				if v := float64(a[4]); math.Abs(v-math.Round(v)) < 1e-2 {
					id = int(math.Round(v))
				}
			}
			addEffect(ev{"PushTransform", id}, ev{"PopTransform", id})
		case "Rectangle":
			pathRects = append(pathRects, [4]float32{e.Args[0], e.Args[1], e.Args[2], e.Args[3]})
		case "MoveTo", "LineTo", "CubicTo", "ClosePath":
			pathOther = true
		case "Clip":
			if !pathOther && len(pathRects) == 1 {
				if ids, ok := p.clipRects[pathRects[0]]; ok {
					id := ids[0]
					addEffect(ev{"PushClip", id}, ev{"PopClip", id})
				}
			}
			resetPath()
		case "SetColorRgba":
			if e.S == "false" {
				fill = e.Args
			}
		case "Paint":
			code, ok := colourCode(fill)
			out = append(out, fillEvent(code, ok, page, p.canvasK))
			resetPath()
		case "DrawText":
			code, ok := colourCode(fill)
			if ok && code >= codeBase && (code-codeBase)%4 == 2 {
				out = append(out, ev{"Content", textBase + (code-codeBase)/4})
			} else {
				out = append(out, ev{"Unknown", unknown + 2})
			}
		case "DrawRasterImage", "DrawGradient", "SetColorPattern", "SetAlphaMask":
			out = append(out, ev{"Unknown", unknown + 3})
		}
	}
	// an outline is four fills (one per side) of the same colour
	var res []ev
	for i := 0; i < len(out); i++ {
		if out[i].Kind == "Outline" && i+3 < len(out) && out[i+1] == out[i] && out[i+2] == out[i] && out[i+3] == out[i] {
			res = append(res, out[i])
			i += 3
			continue
		}
		res = append(res, out[i])
	}
	return res
}

// ------------------------------------------------------------------ one document

type pageCase struct {
	Coq        string
	Tree       string
	Impl       []string
	Tags       []string
	Nontrivial bool
}

type docResult struct {
	Status string // ok | layout-panic
	Msg    string
	Pages  []pageCase
}

func runDocument(html string) docResult {
	var doc *document.Document
	o := render.GuardTimeout(20*time.Second, func() {
		var err error
		doc, err = render.Render(html, nil, false, true, render.NewPango())
		if err != nil {
			panic(err)
		}
	})
	if o.Status != "ok" {
		return docResult{Status: "layout-" + o.Status, Msg: o.Site + " " + o.Msg}
	}
	var rec *tagger
	crashed := false
	crashMsg := ""
	o = render.GuardTimeout(20*time.Second, func() {
		rec = newTagger()
		doc.Write(rec, 1, nil)
	})
	if o.Status != "ok" {
		crashed = true
		crashMsg = o.Status + " " + o.Site + " " + o.Msg
	}
	res := docResult{Status: "ok", Msg: crashMsg}
	for pi, pg := range doc.Pages {
		pb := pg.VerifPageBox()
		p := &projector{clipRects: map[[4]float32][]int{}, bgRects: map[[4]float32]bool{}, canvasK: -1}
		// the page box itself
		pageInfo := &abox{ID: pageID + pi, Kind: "KPage", Flags: 2, Vis: 0}
		if pb.Background != nil && pb.Background.Color.A > 0 {
			pageInfo.Vis |= 1
		}
		if pb.BorderTopWidth.V() != 0 {
			pageInfo.Vis |= 2
		}
		if pb.Style.GetOverflow() != "visible" {
			pageInfo.Flags |= 32
		}
		var roots []*abox
		for _, c := range pb.Children {
			roots = append(roots, p.project(c))
		}
		if cb := pb.CanvasBackground; cb != nil && cb.Color.A > 0 {
			args := []render.Fl{render.Fl(cb.Color.R), render.Fl(cb.Color.G), render.Fl(cb.Color.B), render.Fl(cb.Color.A)}
			if code, ok := colourCode(args); ok && code >= codeBase && (code-codeBase)%4 == 0 {
				p.canvasK = (code - codeBase) / 4
			}
		}
		tagSet := map[string]bool{}
		for _, r := range roots {
			r.tags(tagSet)
		}
		var tags []string
		for t := range tagSet {
			tags = append(tags, t)
		}
		noclip := false
		for r, ids := range p.clipRects {
			if len(ids) > 1 || p.bgRects[r] {
				noclip = true
			}
		}
		if noclip {
			tags = append(tags, "clip-ambiguous")
		}
		var impl []ev
		if rec != nil {
			// what reaches the page: events made on a canvas that is never composited are lost
			live, lost := rec.liveEvents()
			impl = translate(live, pi, p)
			if lost > 0 {
				tags = append(tags, "painting-lost")
			}
		}
		if noclip {
			var f []ev
			for _, e := range impl {
				if e.Kind != "PushClip" && e.Kind != "PopClip" {
					f = append(f, e)
				}
			}
			impl = f
		}
		var sb strings.Builder
		canvas := p.canvasK
		if canvas < 0 {
			canvas = unknown
		}
		fmt.Fprintf(&sb, "CPage %s %d [", pageInfo.info(), canvas)
		for i, r := range roots {
			if i > 0 {
				sb.WriteString("; ")
			}
			r.coq(&sb)
		}
		fmt.Fprintf(&sb, "] %s %s [", vlib.Bool(crashed), vlib.Bool(noclip))
		var implS []string
		for i, e := range impl {
			if i > 0 {
				sb.WriteString("; ")
			}
			sb.WriteString(e.coq())
			implS = append(implS, e.String())
		}
		sb.WriteString("]")
		var tr strings.Builder
		for _, r := range roots {
			r.dump(&tr, 0)
		}
		if len(doc.Pages) > 1 {
			tags = append(tags, "multi-page")
		}
		if crashed {
			tags = append(tags, "draw-crash")
		}
		res.Pages = append(res.Pages, pageCase{Coq: sb.String(), Tree: tr.String(), Impl: implS, Tags: tags, Nontrivial: p.nctx >= 2})
	}
	return res
}

func handle(in string) string {
	r := runDocument(in)
	b, _ := json.Marshal(r)
	return string(b)
}

func main() {
	if vlib.IsWorker() {
		vlib.WorkerMain(handle)
	}
	out := flag.String("out", "cases.jsonl", "output file")
	n := flag.Int("n", 300, "number of documents")
	probe := flag.String("probe", "", "render one html file and print tree + events")
	par := flag.Int("par", 8, "worker processes")
	flag.Parse()
	if *probe != "" {
		b, err := os.ReadFile(*probe)
		if err != nil {
			panic(err)
		}
		r := runDocument(string(b))
		fmt.Println(r.Status, r.Msg)
		for _, p := range r.Pages {
			fmt.Println(p.Tree)
			fmt.Println(strings.Join(p.Impl, "\n"))
			fmt.Println(p.Coq)
		}
		return
	}
	type job struct {
		html string
		tags []string
		kind string
		name string
	}
	var jobs []job
	// regression corpus first
	files, _ := filepath.Glob("../corpus/C16/*.html")
	sort.Strings(files)
	for _, f := range files {
		b, err := os.ReadFile(f)
		if err == nil {
			jobs = append(jobs, job{html: string(b), kind: "corpus", name: filepath.Base(f)})
		}
	}
	rng := vlib.NewRng(vlib.Seed())
	for len(jobs) < *n {
		r := rng.Fork()
		if len(jobs)%wideEvery == wideEvery-1 { // stream of wide stacking contexts (gen.go)
			d := genWideDocument(r)
			jobs = append(jobs, job{html: d.HTML, tags: d.Tags, kind: "gen"})
			continue
		}
		size := r.Range(3, 12)
		if r.Chance(1, 4) {
			size = r.Range(12, 40)
		}
		d := genDocument(r, size)
		jobs = append(jobs, job{html: d.HTML, tags: d.Tags, kind: "gen"})
	}
	inputs := make([]string, len(jobs))
	for i, j := range jobs {
		inputs[i] = j.html
	}
	results := vlib.RunPool(inputs, *par, 60*time.Second, 0)
	w := vlib.NewWriter(*out)
	defer w.Close()
	skipped := map[string]int{}
	for i, wr := range results {
		j := jobs[i]
		if wr.Status != "ok" {
			skipped["worker-"+wr.Status]++
			continue
		}
		var r docResult
		if err := json.Unmarshal([]byte(wr.Out), &r); err != nil {
			skipped["bad-json"]++
			continue
		}
		if r.Status != "ok" {
			skipped[r.Status]++
			continue
		}
		for pi, p := range r.Pages {
			seen := map[string]bool{}
			var tags []string
			for _, t := range append(append([]string{}, j.tags...), p.Tags...) {
				if !seen[t] {
					seen[t] = true
					tags = append(tags, t)
				}
			}
			sort.Strings(tags)
			desc := map[string]interface{}{"html": j.html, "page": pi, "tree": p.Tree, "impl_events": p.Impl}
			if j.name != "" {
				desc["corpus"] = j.name
			}
			if r.Msg != "" {
				desc["draw_crash"] = r.Msg
			}
			w.Add(vlib.Case{Kind: j.kind, Coq: p.Coq, Desc: desc, Tags: tags, Nontrivial: p.Nontrivial})
		}
	}
	if len(skipped) > 0 {
		fmt.Fprintln(os.Stderr, "skipped documents:", skipped)
	}
}
