// Canvas tagging for the C16 harness.
//
// vlib/render's recorder keeps the call sequence but not the canvas every call
// was made on.  drawStackingContext switches the destination (ctx.dst) to the
// group returned by NewGroup for an opacity < 1 box and composites the group with
// DrawWithOpacity when the box is done: what is painted on a group that is never
// composited never reaches the page.  The observable of C16 is what reaches the
// PAGE, so the harness wraps the recorder: every backend.Canvas handed to /repo is
// a `tcanvas` that forwards to the recorder's canvas and notes, for every event
// the call appended, the canvas it was made on.  `liveEvents` then keeps the
// events of the canvases that are composited (transitively) onto a page canvas.
package main

import (
	"github.com/benoitkugler/webrender/backend"
	"github.com/benoitkugler/webrender/css/parser"
	"github.com/benoitkugler/webrender/matrix"

	"verifharness/vlib/render"
)

type tagger struct {
	*render.Recorder          // backend.Document, except AddPage
	canv             []string // canvas of Events[i] ("" for document level events)
	next             int
}

func newTagger() *tagger { return &tagger{Recorder: render.NewRecorder()} }

// tag attributes the events appended since the last call to canvas id
func (t *tagger) tag(id string) {
	for len(t.canv) < len(t.Recorder.Events) {
		t.canv = append(t.canv, id)
	}
}

func (t *tagger) newID() string {
	t.next++
	return "t" + itoa(t.next)
}

func itoa(n int) string {
	if n == 0 {
		return "0"
	}
	var b []byte
	for n > 0 {
		b = append([]byte{byte('0' + n%10)}, b...)
		n /= 10
	}
	return string(b)
}

func (t *tagger) AddPage(left, top, right, bottom render.Fl) backend.Page {
	t.tag("")
	p := t.Recorder.AddPage(left, top, right, bottom)
	id := t.newID()
	t.tag(id)
	return &tpage{Page: p, tcanvas: tcanvas{t: t, in: p, id: id}}
}

// a page: link / box methods are forwarded by the embedded backend.Page, the
// Canvas methods by tcanvas
type tpage struct {
	backend.Page
	tcanvas
}

func (p *tpage) GetBoundingBox() (l, t, r, b render.Fl)   { return p.tcanvas.GetBoundingBox() }
func (p *tpage) SetBoundingBox(l, t, r, b render.Fl)      { p.tcanvas.SetBoundingBox(l, t, r, b) }
func (p *tpage) OnNewStack(f func())                       { p.tcanvas.OnNewStack(f) }
func (p *tpage) State() backend.GraphicState               { return p.tcanvas.State() }
func (p *tpage) NewGroup(x, y, w, h render.Fl) backend.Canvas { return p.tcanvas.NewGroup(x, y, w, h) }
func (p *tpage) DrawWithOpacity(o render.Fl, g backend.Canvas) { p.tcanvas.DrawWithOpacity(o, g) }
func (p *tpage) Paint(op backend.PaintOp)                  { p.tcanvas.Paint(op) }
func (p *tpage) Rectangle(x, y, w, h render.Fl)            { p.tcanvas.Rectangle(x, y, w, h) }
func (p *tpage) MoveTo(x, y render.Fl)                     { p.tcanvas.MoveTo(x, y) }
func (p *tpage) LineTo(x, y render.Fl)                     { p.tcanvas.LineTo(x, y) }
func (p *tpage) CubicTo(a, b, c, d, e, f render.Fl)        { p.tcanvas.CubicTo(a, b, c, d, e, f) }
func (p *tpage) ClosePath()                                { p.tcanvas.ClosePath() }
func (p *tpage) AddFont(f backend.Font, c []byte) *backend.FontChars { return p.tcanvas.AddFont(f, c) }
func (p *tpage) DrawText(ts []backend.TextDrawing)         { p.tcanvas.DrawText(ts) }
func (p *tpage) DrawRasterImage(i backend.RasterImage, w, h render.Fl) {
	p.tcanvas.DrawRasterImage(i, w, h)
}
func (p *tpage) DrawGradient(g backend.GradientLayout, w, h render.Fl) { p.tcanvas.DrawGradient(g, w, h) }

type tcanvas struct {
	t  *tagger
	in backend.Canvas // the recorder's canvas
	id string
}

// the recorder's canvas behind a canvas handed back by /repo
func inner(c backend.Canvas) (backend.Canvas, string) {
	switch c := c.(type) {
	case *tcanvas:
		return c.in, c.id
	case *tpage:
		return c.in, c.id
	}
	return c, "?"
}

func (c *tcanvas) done() { c.t.tag(c.id) }

func (c *tcanvas) GetBoundingBox() (l, t, r, b render.Fl) { return c.in.GetBoundingBox() }
func (c *tcanvas) SetBoundingBox(l, t, r, b render.Fl)    { c.in.SetBoundingBox(l, t, r, b); c.done() }
func (c *tcanvas) OnNewStack(f func()) {
	c.in.OnNewStack(func() {
		c.done() // the Push
		f()
	})
	c.done() // the Pop
}
func (c *tcanvas) State() backend.GraphicState { return &tstate{c: c, in: c.in.State()} }
func (c *tcanvas) NewGroup(x, y, w, h render.Fl) backend.Canvas {
	g := &tcanvas{t: c.t, in: c.in.NewGroup(x, y, w, h), id: c.t.newID()}
	c.t.Recorder.Events[len(c.t.Recorder.Events)-1].S = g.id // name the group by its tag
	c.done()
	return g
}
func (c *tcanvas) DrawWithOpacity(o render.Fl, g backend.Canvas) {
	gin, gid := inner(g)
	c.in.DrawWithOpacity(o, gin)
	c.t.Recorder.Events[len(c.t.Recorder.Events)-1].S = gid
	c.done()
}
func (c *tcanvas) Paint(op backend.PaintOp)           { c.in.Paint(op); c.done() }
func (c *tcanvas) Rectangle(x, y, w, h render.Fl)     { c.in.Rectangle(x, y, w, h); c.done() }
func (c *tcanvas) MoveTo(x, y render.Fl)              { c.in.MoveTo(x, y); c.done() }
func (c *tcanvas) LineTo(x, y render.Fl)              { c.in.LineTo(x, y); c.done() }
func (c *tcanvas) CubicTo(a, b, d, e, f, g render.Fl) { c.in.CubicTo(a, b, d, e, f, g); c.done() }
func (c *tcanvas) ClosePath()                         { c.in.ClosePath(); c.done() }
func (c *tcanvas) AddFont(f backend.Font, content []byte) *backend.FontChars {
	r := c.in.AddFont(f, content)
	c.done()
	return r
}
func (c *tcanvas) DrawText(ts []backend.TextDrawing) { c.in.DrawText(ts); c.done() }
func (c *tcanvas) DrawRasterImage(i backend.RasterImage, w, h render.Fl) {
	c.in.DrawRasterImage(i, w, h)
	c.done()
}
func (c *tcanvas) DrawGradient(g backend.GradientLayout, w, h render.Fl) {
	c.in.DrawGradient(g, w, h)
	c.done()
}

type tstate struct {
	c  *tcanvas
	in backend.GraphicState
}

func (s *tstate) SetAlphaMask(m backend.Canvas) {
	min, _ := inner(m)
	s.in.SetAlphaMask(min)
	s.c.done()
}
func (s *tstate) Clip(evenOdd bool)                     { s.in.Clip(evenOdd); s.c.done() }
func (s *tstate) SetAlpha(a render.Fl, stroke bool)     { s.in.SetAlpha(a, stroke); s.c.done() }
func (s *tstate) SetColorRgba(c parser.RGBA, st bool)   { s.in.SetColorRgba(c, st); s.c.done() }
func (s *tstate) SetColorPattern(p backend.Canvas, w, h render.Fl, m matrix.Transform, st bool) {
	pin, _ := inner(p)
	s.in.SetColorPattern(pin, w, h, m, st)
	s.c.done()
}
func (s *tstate) SetBlendingMode(mode string)           { s.in.SetBlendingMode(mode); s.c.done() }
func (s *tstate) SetLineWidth(w render.Fl)              { s.in.SetLineWidth(w); s.c.done() }
func (s *tstate) SetDash(d []render.Fl, o render.Fl)    { s.in.SetDash(d, o); s.c.done() }
func (s *tstate) SetStrokeOptions(o backend.StrokeOptions) { s.in.SetStrokeOptions(o); s.c.done() }
func (s *tstate) GetTransform() matrix.Transform        { return s.in.GetTransform() }
func (s *tstate) Transform(m matrix.Transform)          { s.in.Transform(m); s.c.done() }
func (s *tstate) SetTextPaint(op backend.PaintOp)       { s.in.SetTextPaint(op); s.c.done() }

// liveEvents keeps what reaches the pages: the events made on a page canvas or on a
// group that is composited by DrawWithOpacity (SetColorPattern / SetAlphaMask: the
// generated documents have no pattern or mask) on a canvas that itself reaches a
// page.  The NewGroup event of an abandoned group is dropped with its content.
// Push / Pop events are rewritten to carry the tag of their canvas.
func (t *tagger) liveEvents() (live []render.Event, lost int) {
	ev := t.Recorder.Events
	t.tag("")
	parentOf := map[string]string{} // group -> canvas whose DrawWithOpacity composited it
	isPage := map[string]bool{}
	for i, e := range ev {
		switch e.Op {
		case "AddPage":
			isPage[t.canv[i]] = true
		case "DrawWithOpacity":
			if _, dup := parentOf[e.S]; !dup {
				parentOf[e.S] = t.canv[i]
			}
		}
	}
	var reaches func(id string, depth int) bool
	reaches = func(id string, depth int) bool {
		if id == "" || isPage[id] {
			return true
		}
		p, ok := parentOf[id]
		return ok && depth < 1000 && reaches(p, depth+1)
	}
	for i, e := range ev {
		c := t.canv[i]
		if !reaches(c, 0) || (e.Op == "NewGroup" && !reaches(e.S, 0)) {
			if e.Op == "Paint" || e.Op == "DrawText" {
				lost++
			}
			continue
		}
		if e.Op == "Push" || e.Op == "Pop" {
			e.S = c
		}
		live = append(live, e)
	}
	return live, lost
}
