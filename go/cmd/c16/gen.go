package main

// Document generator for C16: random nests of div / span / floats /
// inline-blocks with position, z-index (multisets with ties, negatives, auto
// vs 0), opacity, transform, overflow.  Every element k has unique colours:
//   background  = colour code 16+4k, border = 16+4k+1, text = 16+4k+2,
//   outline     = 16+4k+3
// a unique opacity value k/1000 and a unique transform translate(k px, 0), so
// that every backend event names the element it belongs to.  Element 0 is
// <html>, 1 is <body>.  The page box uses codes 8 (background) and 9 (border).

import (
	"fmt"
	"strings"

	"verifharness/vlib"
)

const (
	codeBase     = 16
	pageBgCode   = 8
	pageBordCode = 9
)

func colour(code int) string { return fmt.Sprintf("#%06x", code) }

type genState struct {
	r      *vlib.Rng
	next   int // next element number
	budget int // remaining elements
	tags   map[string]bool
	zpool  []int
	opt    genOpts
}

type genOpts struct {
	blockInInline bool // allow <div> inside <span>
	staticZ       bool // z-index on non positioned boxes
	flex          bool
	marginBoxes   bool
	tables        bool // simple tables (cells: blocksAndCells only)
}

func (g *genState) tag(t string) { g.tags[t] = true }

// style of element k; inline = span-like
func (g *genState) style(k int, inline bool, depth int) (css string, isInlineBlock bool) {
	r := g.r
	var sb strings.Builder
	fmt.Fprintf(&sb, "background:%s;border-color:%s;color:%s;", colour(codeBase+4*k), colour(codeBase+4*k+1), colour(codeBase+4*k+2))
	if r.Chance(1, 4) {
		fmt.Fprintf(&sb, "outline:%dpx solid %s;", r.Range(1, 2), colour(codeBase+4*k+3))
		g.tag("outline")
	}
	overflow := r.Chance(1, 9)
	if !overflow && r.Chance(1, 10) { // (the clip of an overflow box is recognised by its padding box: keep it distinct from the border box)
		sb.WriteString("border-width:0;")
	}
	// display
	if inline {
		switch r.Intn(10) {
		case 0, 1:
			sb.WriteString("display:inline-block;")
			isInlineBlock = true
			g.tag("inline-block")
		case 2:
			if g.opt.flex {
				sb.WriteString("display:inline-flex;")
				isInlineBlock = true
				g.tag("inline-flex")
			}
		}
	} else if g.opt.flex && r.Chance(1, 14) {
		sb.WriteString("display:flex;")
		g.tag("flex")
	}
	positioned := false
	switch r.Intn(12) {
	case 0, 1, 2:
		sb.WriteString("position:relative;")
		if r.Bool() {
			fmt.Fprintf(&sb, "top:%dpx;left:%dpx;", r.Range(-6, 6), r.Range(-6, 6))
		}
		positioned = true
	case 3, 4:
		fmt.Fprintf(&sb, "position:absolute;top:%dpx;left:%dpx;width:%dpx;", r.Range(0, 300), r.Range(0, 500), r.Range(30, 90))
		positioned = true
	case 5:
		if r.Chance(1, 3) {
			fmt.Fprintf(&sb, "position:fixed;top:%dpx;left:%dpx;width:%dpx;", r.Range(0, 300), r.Range(0, 500), r.Range(30, 90))
			positioned = true
		}
	}
	if positioned {
		g.tag("positioned")
	}
	if positioned && r.Chance(2, 3) || (!positioned && g.opt.staticZ && r.Chance(1, 8)) {
		if r.Chance(1, 8) {
			sb.WriteString("z-index:auto;")
		} else {
			z := vlib.Pick(r, g.zpool)
			fmt.Fprintf(&sb, "z-index:%d;", z)
			switch {
			case !positioned:
				g.tag("static-z")
			case z < 0:
				g.tag("neg-z")
			case z == 0:
				g.tag("zero-z")
			default:
				g.tag("pos-z")
			}
		}
	}
	if r.Chance(1, 7) {
		if r.Bool() {
			sb.WriteString("float:left;")
		} else {
			sb.WriteString("float:right;")
		}
		fmt.Fprintf(&sb, "width:%dpx;", r.Range(20, 80))
		g.tag("float")
	}
	opacity := r.Chance(1, 9)
	singular := false
	if r.Chance(1, 9) {
		switch r.Intn(4) {
		case 0:
			fmt.Fprintf(&sb, "transform:translate(%dpx,0);", k)
		case 1:
			fmt.Fprintf(&sb, "transform:translate(%dpx,0) scale(1);", k)
		case 2:
			fmt.Fprintf(&sb, "transform:rotate(0deg) translate(%dpx);", k)
		default:
			// a matrix that is not invertible (draw.go:252-258: the early return of
			// drawStackingContext): the box and its sub-tree are not painted, everything
			// else is.  Only forms whose float32 determinant is exactly 0 (linear parts
			// with small integer entries, no rotation).
			singular = true
			fmt.Fprintf(&sb, "transform:%s;", vlib.Pick(r, []string{
				"scale(0)", "scale(0,1)", "scale(1,0)", fmt.Sprintf("translate(%dpx,0) scale(0)", k), fmt.Sprintf("scale(0) translate(%dpx,0)", k),
				"matrix(1,2,2,4,0,0)", fmt.Sprintf("matrix(2,4,1,2,%d,0)", k), "matrix(0,0,0,0,0,0)", "scale(1,0) scale(0,1)", "matrix(1,1,1,1,3,3) scale(2)"}))
			g.tag("singular-transform")
			// the usual hidden state is `opacity:0; transform:scale(0)`: the early return
			// happens AFTER the opacity group was created
			if r.Bool() {
				opacity = true
			}
		}
		g.tag("transform")
	}
	if opacity {
		fmt.Fprintf(&sb, "opacity:%.3f;", float64(k)/1000)
		g.tag("opacity")
	}
	if singular && r.Chance(1, 4) {
		overflow = true
	}
	if overflow {
		sb.WriteString("overflow:" + vlib.Pick(r, []string{"hidden", "hidden", "auto", "scroll"}) + ";")
		g.tag("overflow")
		if !positioned {
			g.tag("static-overflow")
		}
	}
	if !inline && r.Chance(1, 6) {
		fmt.Fprintf(&sb, "margin-top:%dpx;", r.Range(-8, 4))
	}
	return sb.String(), isInlineBlock
}

// element emits element markup; inlineCtx: we are inside a span (only inline content allowed unless blockInInline)
func (g *genState) element(sb *strings.Builder, depth int, inlineCtx bool) {
	if g.budget <= 0 {
		return
	}
	r := g.r
	k := g.next
	g.next++
	g.budget--
	if !inlineCtx && g.opt.tables && depth < 5 && r.Chance(1, 6) {
		g.table(sb, k, depth)
		return
	}
	inline := inlineCtx || r.Chance(1, 3)
	if inlineCtx && g.opt.blockInInline && r.Chance(1, 8) {
		inline = false
		g.tag("block-in-inline")
	}
	tagName := "div"
	if inline {
		tagName = "span"
	}
	css, isIB := g.style(k, inline, depth)
	fmt.Fprintf(sb, `<%s id="e%d" style="%s">`, tagName, k, css)
	if r.Chance(5, 6) {
		sb.WriteString("X")
	}
	nkids := 0
	if depth < 6 {
		nkids = r.Intn(4)
		if depth < 2 {
			nkids = r.Range(1, 5)
		}
	}
	childInline := inline && !isIB
	for i := 0; i < nkids; i++ {
		g.element(sb, depth+1, childInline)
	}
	fmt.Fprintf(sb, "</%s>", tagName)
}

// table emits a simple table (element k) with 1-2 rows of 1-3 cells: no background, no
// border on any table part (drawTable's layers are not modelled), separated borders.
// A non positioned cell is dispatched to blocksAndCells only (stacking.go:151-154): its
// text is painted in step 7, in tree order with the text of the blocks before, inside
// and after the table.  Cells hold text and/or generated blocks (which may be positioned,
// floated, stacking contexts ...); some cells are positioned (fake contexts) or create
// a stacking context themselves.
func (g *genState) table(sb *strings.Builder, k int, depth int) {
	r := g.r
	g.tag("table")
	tstyle := fmt.Sprintf("color:%s;", colour(codeBase+4*k+2))
	if r.Chance(1, 5) {
		tstyle += fmt.Sprintf("margin-top:%dpx;", r.Range(-8, 4))
	}
	if r.Chance(1, 8) {
		tstyle += "position:relative;"
		if r.Bool() {
			tstyle += fmt.Sprintf("z-index:%d;", vlib.Pick(r, g.zpool))
		}
	}
	fmt.Fprintf(sb, `<table id="e%d" style="%s">`, k, tstyle)
	if r.Chance(1, 6) && g.budget > 0 {
		c := g.next
		g.next++
		g.budget--
		fmt.Fprintf(sb, `<caption id="e%d" style="color:%s">X</caption>`, c, colour(codeBase+4*c+2))
	}
	for row, nrows := 0, r.Range(1, 2); row < nrows; row++ {
		tr := g.next
		g.next++
		fmt.Fprintf(sb, `<tr id="e%d">`, tr)
		for col, ncols := 0, r.Range(1, 3); col < ncols; col++ {
			td := g.next
			g.next++
			g.budget--
			cst := fmt.Sprintf("color:%s;", colour(codeBase+4*td+2))
			switch r.Intn(12) {
			case 0:
				cst += "position:relative;"
				g.tag("cell-positioned")
			case 1:
				cst += fmt.Sprintf("position:relative;z-index:%d;", vlib.Pick(r, g.zpool))
				g.tag("cell-positioned")
			case 2:
				cst += fmt.Sprintf("opacity:%.3f;", float64(td)/1000)
				g.tag("cell-ctx")
			}
			fmt.Fprintf(sb, `<td id="e%d" style="%s">`, td, cst)
			if r.Chance(3, 4) {
				sb.WriteString("X")
			}
			for i, n := 0, r.Intn(3); i < n && depth < 5; i++ {
				g.element(sb, depth+2, false)
			}
			sb.WriteString("</td>")
		}
		sb.WriteString("</tr>")
	}
	sb.WriteString("</table>")
}

type genDoc struct {
	HTML string
	Tags []string
	N    int
}

func genDocument(r *vlib.Rng, size int) genDoc {
	g := &genState{r: r, next: 2, budget: size, tags: map[string]bool{}}
	// z-index multisets: ties, negatives, zero
	switch r.Intn(4) {
	case 0:
		g.zpool = []int{-2, -1, -1, 0, 0, 1, 1, 2}
	case 1:
		g.zpool = []int{-1, 0, 1}
	case 2:
		g.zpool = []int{-3, -3, -1, 2, 2, 2, 7, 0}
	default:
		g.zpool = []int{-1, -1, 1, 1, 1, 0, 5, 100, -100}
	}
	g.opt = genOpts{blockInInline: r.Chance(1, 4), staticZ: r.Chance(1, 3), flex: r.Chance(1, 4), marginBoxes: r.Chance(1, 8), tables: r.Chance(1, 3)}
	var body strings.Builder
	for g.budget > 0 {
		g.element(&body, 0, false)
	}
	return g.wrap(body.String(), true)
}

// wrap puts the generated body into the common document frame (page box, root
// element and body with their own colours)
func (g *genState) wrap(body string, smallPages bool) genDoc {
	r := g.r
	var sb strings.Builder
	htmlStyle := fmt.Sprintf("border-color:%s;color:%s;", colour(codeBase+1), colour(codeBase+2))
	if r.Chance(4, 5) {
		htmlStyle += fmt.Sprintf("background:%s;", colour(codeBase))
	} else {
		g.tag("body-canvas")
	}
	if r.Chance(1, 6) {
		htmlStyle += "position:relative;z-index:" + fmt.Sprint(vlib.Pick(r, []int{-1, 0, 3})) + ";"
		g.tag("root-z")
	}
	pageH := 3000
	if smallPages && r.Chance(1, 10) { // a few documents break over several pages (boxes split at page breaks)
		pageH = r.Range(90, 200)
		g.tag("small-page")
	}
	pageCSS := fmt.Sprintf("size:1000px %dpx;margin:20px;background:%s;", pageH, colour(pageBgCode))
	if r.Chance(1, 3) {
		pageCSS += fmt.Sprintf("border:2px solid %s;", colour(pageBordCode))
	}
	if g.opt.marginBoxes {
		pageCSS += fmt.Sprintf("@top-center{content:'X';color:%s;background:%s}", colour(codeBase+4*marginK+2), colour(codeBase+4*marginK))
		g.tag("margin-box")
	}
	fmt.Fprintf(&sb, `<html id="e0" style="%s"><head><style>
@page{%s}
*{font-family:Ahem;font-size:10px;line-height:1.2}
div,span{border:1px solid;padding:1px 2px}
html,body{border:1px solid;padding:1px;margin:0}
</style></head><body id="e1" style="background:%s;border-color:%s;color:%s">%s</body></html>`,
		htmlStyle, pageCSS, colour(codeBase+4), colour(codeBase+5), colour(codeBase+6), body)
	var tags []string
	for t := range g.tags {
		tags = append(tags, t)
	}
	return genDoc{HTML: sb.String(), Tags: tags, N: g.next}
}

// ---------------------------------------------------------------- wide stacking contexts
//
// NewStackingContext orders the negative and the positive child contexts with
// sort.SliceStable; the theorems (C16_stable_partition_sort, C16_paint_order_spec)
// rest on that contract.  A sort that is not stable agrees with a stable one on
// short lists (Go's sort.Slice is an insertion sort up to 12 elements) and on
// lists already in order, so this stream produces stacking contexts owning MANY
// (13-40) child contexts of one sign whose z-indices come from a small multiset
// (ties) in shuffled order: directly as children, hoisted through non-positioned
// wrappers and z-index:auto positioned boxes (fake contexts), nested, for the
// negative and for the positive list.

// zSequence returns n z-indices of the given sign drawn from a small multiset,
// with at least one tie and not in non-decreasing order
func zSequence(r *vlib.Rng, n int, sign int) []int {
	pools := [][]int{{1, 2}, {1, 2, 3}, {1, 1, 2, 5}, {1, 3, 3, 7, 100}, {2, 4}}
	pool := vlib.Pick(r, pools)
	for {
		zs := make([]int, n)
		for i := range zs {
			zs[i] = sign * vlib.Pick(r, pool)
		}
		sorted := true
		for i := 1; i < n; i++ {
			if zs[i-1] > zs[i] {
				sorted = false
			}
		}
		if !sorted { // n >= 13 values out of <= 4: ties are certain
			return zs
		}
	}
}

// wideGroup emits a box owning many positioned children; level = nesting depth of wide groups
func (g *genState) wideGroup(sb *strings.Builder, level int) {
	r := g.r
	k := g.next
	g.next++
	var css strings.Builder
	fmt.Fprintf(&css, "background:%s;border-color:%s;color:%s;", colour(codeBase+4*k), colour(codeBase+4*k+1), colour(codeBase+4*k+2))
	// what the owner of the children is
	switch r.Intn(6) {
	case 0: // real context by z-index
		fmt.Fprintf(&css, "position:relative;z-index:%d;", vlib.Pick(r, []int{-1, 0, 0, 1, 2}))
		g.tag("wide-owner-z")
	case 1:
		fmt.Fprintf(&css, "opacity:%.3f;", float64(k)/1000)
		g.tag("wide-owner-opacity")
	case 2:
		fmt.Fprintf(&css, "transform:translate(%dpx,0);", k)
		g.tag("wide-owner-transform")
	case 3: // fake context: the children belong to the enclosing real context
		css.WriteString("position:relative;")
		g.tag("wide-owner-fake")
	case 4:
		fmt.Fprintf(&css, "position:absolute;top:%dpx;left:%dpx;width:%dpx;z-index:%d;", r.Range(0, 200), r.Range(300, 600), r.Range(150, 300), vlib.Pick(r, []int{-1, 0, 3}))
		g.tag("wide-owner-abs")
	default: // plain block: the children are hoisted to the enclosing context
		g.tag("wide-owner-plain")
	}
	fmt.Fprintf(sb, `<div id="e%d" style="%s">`, k, css.String())
	var zs []int
	mode := r.Intn(3)
	nmax := 40
	if level > 0 {
		nmax = 22
	}
	if mode == 0 || mode == 2 {
		zs = append(zs, zSequence(r, r.Range(13, nmax/(1+mode/2)), -1)...)
		g.tag("wide-neg")
	}
	if mode == 1 || mode == 2 {
		zs = append(zs, zSequence(r, r.Range(13, nmax/(1+mode/2)), 1)...)
		g.tag("wide-pos")
	}
	if mode == 2 { // interleave the two signs (each class keeps a shuffled order)
		for i := len(zs) - 1; i > 0; i-- {
			j := r.Intn(i + 1)
			zs[i], zs[j] = zs[j], zs[i]
		}
	}
	nested := 0
	wrapOpen := false
	for i, z := range zs {
		// some runs of children sit in a non-positioned / z-index:auto wrapper: same owner list
		if !wrapOpen && r.Chance(1, 10) {
			w := g.next
			g.next++
			st := ""
			if r.Bool() {
				st = "position:relative;"
				g.tag("wide-fake-wrapper")
			} else {
				g.tag("wide-plain-wrapper")
			}
			fmt.Fprintf(sb, `<div id="e%d" style="background:%s;border-color:%s;color:%s;%s">`, w, colour(codeBase+4*w), colour(codeBase+4*w+1), colour(codeBase+4*w+2), st)
			wrapOpen = true
		}
		c := g.next
		g.next++
		var cs strings.Builder
		fmt.Fprintf(&cs, "background:%s;border-color:%s;color:%s;", colour(codeBase+4*c), colour(codeBase+4*c+1), colour(codeBase+4*c+2))
		switch r.Intn(4) {
		case 0:
			fmt.Fprintf(&cs, "position:absolute;top:%dpx;left:%dpx;width:%dpx;", r.Range(0, 300), r.Range(0, 500), r.Range(30, 90))
		case 1:
			fmt.Fprintf(&cs, "position:relative;top:%dpx;left:%dpx;", r.Range(-6, 6), r.Range(-6, 6))
		default:
			cs.WriteString("position:relative;")
		}
		fmt.Fprintf(&cs, "z-index:%d;", z)
		if r.Chance(1, 6) {
			fmt.Fprintf(&cs, "margin-top:%dpx;", r.Range(-8, 0))
		}
		if r.Chance(1, 12) {
			fmt.Fprintf(&cs, "outline:1px solid %s;", colour(codeBase+4*c+3))
		}
		tagName := "div"
		if r.Chance(1, 8) {
			tagName = "span"
		}
		fmt.Fprintf(sb, `<%s id="e%d" style="%s">`, tagName, c, cs.String())
		if r.Chance(3, 4) {
			sb.WriteString("X")
		}
		if level < 2 && nested < 2 && tagName == "div" && r.Chance(1, 14) {
			nested++
			g.tag("wide-nested")
			g.wideGroup(sb, level+1)
		}
		fmt.Fprintf(sb, "</%s>", tagName)
		// a few extra boxes of the zero list between them
		if r.Chance(1, 9) {
			e := g.next
			g.next++
			st := vlib.Pick(r, []string{"position:relative;", "position:relative;z-index:0;", fmt.Sprintf("opacity:%.3f;", float64(e)/1000), "float:left;width:30px;"})
			fmt.Fprintf(sb, `<div id="e%d" style="background:%s;border-color:%s;color:%s;%s">X</div>`, e, colour(codeBase+4*e), colour(codeBase+4*e+1), colour(codeBase+4*e+2), st)
		}
		if wrapOpen && (r.Chance(1, 3) || i == len(zs)-1) {
			sb.WriteString("</div>")
			wrapOpen = false
		}
	}
	sb.WriteString("</div>")
}

func genWideDocument(r *vlib.Rng) genDoc {
	g := &genState{r: r, next: 2, tags: map[string]bool{}}
	g.tag("wide-ctx")
	var body strings.Builder
	if r.Chance(1, 3) {
		body.WriteString("X")
	}
	g.wideGroup(&body, 0)
	if r.Chance(1, 4) {
		g.wideGroup(&body, 1)
	}
	return g.wrap(body.String(), false)
}
