// Generator dimensions added in the strengthening round:
//   - selectors with a prescribed specificity triple, columns up to 13 (rarely ~20, ~100, ~256), used as
//     competing arguments of :is/:not/:has/:haschild (the "most specific argument" is chosen with Specificity.Less);
//   - a grid of pairs of triples given directly to Specificity.Less / Add;
//   - grammar-directed invalid selectors: a valid skeleton with forced nesting of relative pseudo-classes in which
//     a pseudo-element (or a stray bracket / comma / combinator) is placed at ONE of all the positions of the
//     derivation, at any depth.  The parser model (Css/SelParse.v) decides accept / reject for each of them.
package main

import (
	"fmt"
	"strings"

	"verifharness/vlib"

	"github.com/benoitkugler/webrender/css/selector"
)

// ---------------------------------------------------------------- prescribed specificity

var bUnits = []string{".a", ".b", ".foo", "[title]", "[class~=a]", ":empty", ":first-child", ":nth-child(2n+1)", ":hover", ":not(.b)", ":last-of-type", "[lang|=en]", ":is(.a)", ":only-child"}

func (g *sgen) someTag() string {
	if len(g.present) > 0 && g.r.Chance(2, 3) {
		return vlib.Pick(g.r, g.present)
	}
	return vlib.Pick(g.r, mainTags)
}

// a complex selector of specificity (a, b, c): c compounds carry a type selector (so at least c compounds,
// joined by random combinators), the a ids and b class-level simple selectors are spread over the compounds
func (g *sgen) withSpec(a, b, c int) string {
	r := g.r
	m := c
	if m == 0 || (c < 3 && r.Chance(1, 3)) {
		m = c + r.Range(1, 2)
	}
	typed := make([]bool, m)
	for k := 0; k < c; k++ { // which compounds have a type selector
		typed[k] = true
	}
	for i := m - 1; i > 0; i-- {
		j := r.Intn(i + 1)
		typed[i], typed[j] = typed[j], typed[i]
	}
	parts := make([][]string, m)
	where := func() int {
		if r.Chance(1, 2) { // pile up in one compound
			return m - 1
		}
		return r.Intn(m)
	}
	for k := 0; k < a; k++ {
		i := where()
		parts[i] = append(parts[i], "#"+vlib.Pick(r, ids))
	}
	for k := 0; k < b; k++ {
		i := where()
		parts[i] = append(parts[i], vlib.Pick(r, bUnits))
	}
	var sb strings.Builder
	for i := 0; i < m; i++ {
		if i > 0 {
			switch r.Intn(6) {
			case 0:
				sb.WriteString(" > ")
			case 1:
				sb.WriteString(" ~ ")
			case 2:
				sb.WriteString("+")
			default:
				sb.WriteString(" ")
			}
		}
		switch {
		case typed[i]:
			sb.WriteString(g.someTag())
		case len(parts[i]) == 0 || r.Chance(1, 4):
			sb.WriteString("*")
		}
		// ids and classes in random order
		p := parts[i]
		for x := len(p) - 1; x > 0; x-- {
			y := r.Intn(x + 1)
			p[x], p[y] = p[y], p[x]
		}
		sb.WriteString(strings.Join(p, ""))
	}
	return sb.String()
}

// a column size around a power of the bases a packed weight could use
func (g *sgen) heavyCount() int {
	r := g.r
	switch k := r.Intn(32); {
	case k < 22:
		return r.Range(9, 13)
	case k < 26:
		return r.Range(15, 21)
	case k < 28:
		return r.Range(99, 101)
	case k == 28:
		return r.Range(255, 257)
	}
	return r.Range(2, 8)
}

// competing arguments of a relative pseudo-class: one is heavy in a less significant column, one has a single
// unit more in a more significant column; the correct maximum is decided lexicographically
func (g *sgen) heavy() string {
	r := g.r
	col := 1 + r.Intn(2) // the heavy column: 1 = classes, 2 = types
	k := g.heavyCount()
	var low, high [3]int
	hc := col - 1 // the column that decides
	if col == 2 && r.Chance(1, 3) {
		hc = 0
	}
	high[hc] = r.Range(1, 2)
	low[hc] = high[hc] - 1
	for c := hc + 1; c < 3; c++ { // the winner has little in the columns below, the loser anything
		high[c] = r.Intn(3)
		low[c] = vlib.Pick(r, []int{0, 0, 1, 3})
	}
	low[col] = k
	if col == 2 && hc == 0 && r.Chance(1, 4) {
		low[1] = g.heavyCount()
	}
	args := []string{g.withSpec(low[0], low[1], low[2]), g.withSpec(high[0], high[1], high[2])}
	if r.Chance(1, 3) { // a third argument, anywhere in between or equal to one of them
		args = append(args, g.withSpec(r.Intn(2), vlib.Pick(r, []int{0, 1, 9, 10, 11}), vlib.Pick(r, []int{0, 1, 2, 10, 12})))
	}
	for x := len(args) - 1; x > 0; x-- {
		y := r.Intn(x + 1)
		args[x], args[y] = args[y], args[x]
	}
	name := vlib.Pick(r, []string{"is", "is", "not", "has", "haschild"})
	list := strings.Join(args, vlib.Pick(r, []string{", ", ",", " , "}))
	switch r.Intn(8) {
	case 0: // top level list: each selector weighs for itself
		return list
	case 1: // nested
		return ":" + vlib.Pick(r, []string{"is", "not"}) + "(:" + name + "(" + list + "), " + g.withSpec(0, r.Intn(3), r.Intn(3)) + ")"
	case 2, 3:
		return g.someTag() + ":" + name + "(" + list + ")"
	}
	return ":" + name + "(" + list + ")"
}

// ---------------------------------------------------------------- Specificity.Less / Add on a grid of triples

var gridVals = []int{0, 0, 1, 1, 2, 5, 9, 10, 11, 12, 19, 20, 21, 99, 100, 101, 255, 256, 257, 999, 1000, 1001, 65535, 65536, 1 << 20}

func lessCase(r *vlib.Rng, n int) vlib.Case {
	type pair struct{ x, y selector.Specificity }
	var pairs []pair
	val := func() int {
		if r.Chance(1, 12) {
			return r.Intn(3000)
		}
		return vlib.Pick(r, gridVals)
	}
	for len(pairs) < n {
		var x, y selector.Specificity
		for i := range x {
			x[i] = val()
		}
		switch r.Intn(6) {
		case 0: // equal
			y = x
		case 1, 2: // one step up in a column, anything below it: y > x lexicographically whatever the lower columns hold
			y = x
			c := r.Intn(3)
			y[c] = x[c] + 1
			for i := c + 1; i < 3; i++ {
				y[i] = val()
			}
		case 3: // differ in the last column only
			y = x
			y[2] = val()
		default:
			for i := range y {
				y[i] = val()
			}
		}
		if r.Bool() {
			x, y = y, x
		}
		pairs = append(pairs, pair{x, y})
	}
	s3 := func(s selector.Specificity) string {
		return fmt.Sprintf("(S3 %s %s %s)", vlib.Z(s[0]), vlib.Z(s[1]), vlib.Z(s[2]))
	}
	terms := make([]string, len(pairs))
	var desc []map[string]interface{}
	nontrivial := false
	for i, p := range pairs {
		less := p.x.Less(p.y)
		sum := p.x.Add(p.y)
		terms[i] = fmt.Sprintf("LC %s %s %s %s", s3(p.x), s3(p.y), vlib.Bool(less), s3(sum))
		desc = append(desc, map[string]interface{}{"x": p.x, "y": p.y, "x.Less(y)": less, "x.Add(y)": sum})
		if less {
			nontrivial = true
		}
	}
	return vlib.Case{Kind: "less-grid", Coq: "CLess " + vlib.List(terms),
		Desc: map[string]interface{}{"pairs": desc}, Tags: []string{"specificity-less-grid"}, Nontrivial: nontrivial}
}

// ---------------------------------------------------------------- grammar-directed invalid selectors

// In a skeleton, mark+level (one byte '0'+level) is written after every component of every compound selector:
// the positions where a pseudo-element (or junk) can be placed.  level = number of enclosing relative pseudo-classes.
const mark = "\x00"

func (g *sgen) skelSimple() string {
	r := g.r
	switch r.Intn(8) {
	case 0, 1:
		return "." + vlib.Pick(r, classWords)
	case 2:
		return "#" + vlib.Pick(r, ids)
	case 3:
		return vlib.Pick(r, []string{"[title]", "[class~=a]", "[title^='fo' i]", "[lang|=en]", "[id=a]"})
	case 4:
		return ":" + vlib.Pick(r, []string{"nth-child", "nth-last-child", "nth-of-type", "nth-last-of-type"}) + "(" + g.nthExpr() + ")"
	case 5:
		return ":lang(en)"
	}
	return ":" + vlib.Pick(r, []string{"empty", "root", "first-child", "last-of-type", "only-child", "hover", "link", "checked", "first-of-type"})
}

// d = depth of relative pseudo-classes that this compound must contain
func (g *sgen) skelCompound(d, lvl int) string {
	r := g.r
	m := mark + string(rune('0'+lvl))
	var items []string
	n := r.Range(0, 2)
	for i := 0; i < n; i++ {
		items = append(items, g.skelSimple())
	}
	rel := func(depth int) string {
		name := vlib.Pick(r, []string{"not", "is", "has", "haschild", "is", "not", "IS", "Not"})
		if lvl > 0 && !r.Chance(1, 6) { // nested :has(:has(:has())) with combinators costs nodes^depth in the model: mostly :is / :not below the top
			name = vlib.Pick(r, []string{"not", "is", "Not", "IS"})
		}
		return ":" + name + "(" + g.ws() + g.skelGroup(depth, lvl+1) + g.ws() + ")"
	}
	if d > 0 {
		at := r.Intn(len(items) + 1)
		items = append(items[:at], append([]string{rel(d - 1)}, items[at:]...)...)
		if r.Chance(1, 4) { // a second, shallower relative pseudo-class next to it
			at := r.Intn(len(items) + 1)
			items = append(items[:at], append([]string{rel(r.Intn(d))}, items[at:]...)...)
		}
	}
	var sb strings.Builder
	switch r.Intn(4) {
	case 0:
		sb.WriteString("*" + m)
	case 1, 2:
		sb.WriteString(g.tag() + m)
	default:
		if len(items) == 0 {
			sb.WriteString(g.tag() + m)
		}
	}
	for _, it := range items {
		sb.WriteString(it + m)
	}
	return sb.String()
}

func (g *sgen) skelComplex(d, lvl int) string {
	r := g.r
	n := 1
	if r.Chance(1, 2) {
		n = r.Range(2, 3)
	}
	forced := r.Intn(n)
	var sb strings.Builder
	for i := 0; i < n; i++ {
		if i > 0 {
			sb.WriteString(vlib.Pick(r, []string{" ", " ", " > ", "+", " ~ ", ">"}))
		}
		dd := 0
		if i == forced {
			dd = d
		} else if d > 0 && r.Chance(1, 4) {
			dd = r.Intn(d)
		}
		sb.WriteString(g.skelCompound(dd, lvl))
	}
	return sb.String()
}

func (g *sgen) skelGroup(d, lvl int) string {
	r := g.r
	n := 1
	if r.Chance(1, 3) {
		n = r.Range(2, 3)
	}
	forced := r.Intn(n)
	parts := make([]string, n)
	for i := range parts {
		dd := 0
		if i == forced {
			dd = d
		} else if d > 0 && r.Chance(1, 3) {
			dd = r.Intn(d)
		}
		parts[i] = g.skelComplex(dd, lvl)
	}
	return strings.Join(parts, vlib.Pick(r, []string{", ", ",", " , "}))
}

type site struct{ pos, lvl int }

func sitesOf(skel string) []site {
	var out []site
	for i := 0; i+1 < len(skel); i++ {
		if skel[i] == 0 {
			out = append(out, site{i, int(skel[i+1] - '0')})
		}
	}
	return out
}

// replaces the chosen sites by the given texts and removes the other marks
func fillSites(skel string, fill map[int]string) string {
	var sb strings.Builder
	for i := 0; i < len(skel); i++ {
		if skel[i] == 0 {
			sb.WriteString(fill[i])
			i++
			continue
		}
		sb.WriteByte(skel[i])
	}
	return sb.String()
}

func pickSite(r *vlib.Rng, sites []site, deep bool) site {
	if deep {
		var d []site
		for _, s := range sites {
			if s.lvl > 0 {
				d = append(d, s)
			}
		}
		if len(d) > 0 {
			return vlib.Pick(r, d)
		}
	}
	return vlib.Pick(r, sites)
}

var peTexts = []string{"::before", "::after", ":before", ":after", "::first-line", ":first-letter", "::marker", "::BEFORE", "::selection", "::footnote-call", "::placeholder"}

// a selector with relative pseudo-classes nested to depth 0..3 and a pseudo-element at one position of the
// derivation (three times in four inside a relative pseudo-class argument, where it is invalid); sometimes two
func (g *sgen) invalidPE() string {
	r := g.r
	d := vlib.Pick(r, []int{0, 1, 1, 2, 2, 2, 3})
	skel := g.skelGroup(d, 0)
	sites := sitesOf(skel)
	if len(sites) == 0 {
		return fillSites(skel, nil)
	}
	fill := map[int]string{}
	pe := func() string {
		if r.Chance(1, 10) {
			return vlib.Pick(r, []string{"::foo", "::is(a)", "::", ":: before", "::not(.a)", "::first-child"})
		}
		return vlib.Pick(r, peTexts)
	}
	fill[pickSite(r, sites, !r.Chance(1, 4)).pos] = pe()
	if r.Chance(1, 6) {
		fill[pickSite(r, sites, r.Bool()).pos] = pe()
	}
	return fillSites(skel, fill)
}

var junkTexts = []string{")", ")", "(", "(", ",", ",,", " > > ", " >", "> ", "()", "]", "[", ":", "::", ":not(", ":is()", ":has(,a)", ":not(a,)", ":is(> a)", ":not(a", " + ~ ", ":nth-child(", ":nth-child()", ":lang()", ":lang(", "))", "((", "[]", "[=a]", ".", "#", "*", "|", "\\"}

// unbalanced / malformed nesting: junk inserted at one position of the derivation, or one bracket removed,
// or the text cut inside the nesting
func (g *sgen) unbalanced() string {
	r := g.r
	d := vlib.Pick(r, []int{1, 1, 2, 2, 3})
	skel := g.skelGroup(d, 0)
	sites := sitesOf(skel)
	switch k := r.Intn(10); {
	case k < 5 && len(sites) > 0:
		return fillSites(skel, map[int]string{pickSite(r, sites, r.Bool()).pos: vlib.Pick(r, junkTexts)})
	case k < 8:
		s := fillSites(skel, nil)
		var br []int
		for i := 0; i < len(s); i++ {
			if strings.IndexByte("()[],", s[i]) >= 0 {
				br = append(br, i)
			}
		}
		if len(br) == 0 {
			return s + ")"
		}
		i := vlib.Pick(r, br)
		if r.Chance(1, 4) { // doubled
			return s[:i] + s[i:i+1] + s[i:]
		}
		return s[:i] + s[i+1:]
	case k == 8:
		s := fillSites(skel, nil)
		return s[:r.Intn(len(s)+1)]
	}
	s := fillSites(skel, nil)
	return s + vlib.Pick(r, []string{")", ",", " >", "(", " ,a", "::before::after", "::before.a", "::before:hover", "::after b"})
}
