// Harness for C05: runs /repo/css/selector (ParseGroup, Match, Specificity,
// PseudoElement, String) on generated HTML documents x generated selectors and
// writes one case per document as a Coq term of type Check.C05.case: the tree
// html.Parse produced (so its fix-ups are shared with the model, not modelled),
// and per selector text: the parsed structure (hook VerifDumpGroup), the match
// bit masks over all nodes in document order, specificity triples,
// pseudo-elements, the String() form and the structure of its re-parse.
package main

import (
	"encoding/json"
	"flag"
	"fmt"
	"math/big"
	"os"
	"path/filepath"
	"sort"
	"strings"
	"time"

	"verifharness/cssedge"
	"verifharness/vlib"

	"github.com/benoitkugler/webrender/css/selector"
	"golang.org/x/net/html"
	"golang.org/x/net/html/atom"
)

// ---------------------------------------------------------------- documents

var mainTags = []string{"div", "p", "span", "a", "li", "ul"}
var formTags = []string{"input", "button", "fieldset", "legend", "option", "select", "optgroup", "area", "link", "em", "section", "menuitem"}

// element names unknown to golang.org/x/net/html/atom (DataAtom == 0): custom elements and made-up names
var customTags = []string{"x-a", "x-b", "x-c", "foo", "my-el", "x-a-b", "blink2", "xa"}

// tag profile of the document being generated: 0 = HTML tags only, 1 = one element in three is unknown to the atom
// table, 2 = mostly unknown elements from a 3-name pool (so that siblings of the same and of different unknown types occur)
var docProfile int
var docCustom []string

func pickDocTag(r *vlib.Rng) string {
	switch docProfile {
	case 1:
		if r.Chance(1, 3) {
			return vlib.Pick(r, customTags)
		}
	case 2:
		if r.Chance(3, 4) {
			return vlib.Pick(r, docCustom)
		}
	}
	tag := vlib.Pick(r, mainTags)
	if r.Chance(1, 5) {
		tag = vlib.Pick(r, formTags)
	}
	return tag
}

// the spelling of a tag name in the document source (html.Parse lower-cases names)
func srcCase(r *vlib.Rng, tag string) string {
	switch r.Intn(12) {
	case 0:
		return strings.ToUpper(tag)
	case 1:
		return strings.ToUpper(tag[:1]) + tag[1:]
	}
	return tag
}

var classWords = []string{"a", "b", "c", "A", "foo", "foo-bar", "x1", "bar"}
var seps = []string{" ", " ", " ", "  ", "\t", "\n", " \f"}
var ids = []string{"a", "b", "A", "x1", "main", "foo"}
var titles = []string{"", " ", "  ", "foo bar", "foo  bar", "Foo", "foo-bar", "foo", " foo", "bar ", " ", "été", "FOO BAR", "foo-", "-", "fo", "a b c", "\t", " ", "bar"}
var langs = []string{"en", "en-GB", "fr", "", "EN", "en-", "english"}
var texts = []string{"", " ", "\n\t", "x", "&nbsp;", "  y ", " ", "&#11;", "hello world", "\f\r"}

func escAttr(s string) string {
	s = strings.ReplaceAll(s, "&", "&amp;")
	s = strings.ReplaceAll(s, "\"", "&quot;")
	return s
}

func genClass(r *vlib.Rng) string {
	switch r.Intn(10) {
	case 0:
		return ""
	case 1:
		return vlib.Pick(r, []string{" ", "  ", "\t"})
	}
	n := r.Range(1, 3)
	var sb strings.Builder
	if r.Chance(1, 6) {
		sb.WriteString(vlib.Pick(r, seps))
	}
	for i := 0; i < n; i++ {
		if i > 0 {
			sb.WriteString(vlib.Pick(r, seps))
		}
		sb.WriteString(vlib.Pick(r, classWords))
	}
	if r.Chance(1, 6) {
		sb.WriteString(vlib.Pick(r, seps))
	}
	return sb.String()
}

func genAttrs(r *vlib.Rng, tag string) string {
	var sb strings.Builder
	add := func(k, v string) { fmt.Fprintf(&sb, ` %s="%s"`, k, escAttr(v)) }
	if r.Chance(1, 2) {
		add("class", genClass(r))
	}
	if r.Chance(1, 3) {
		add("id", vlib.Pick(r, ids))
	}
	if r.Chance(1, 3) {
		add("title", vlib.Pick(r, titles))
	}
	if r.Chance(1, 6) {
		add("lang", vlib.Pick(r, langs))
	}
	if r.Chance(1, 12) { // duplicate attribute name / mixed-case key
		add("TITLE", vlib.Pick(r, titles))
	}
	switch tag {
	case "a", "area", "link":
		if r.Chance(2, 3) {
			add("href", vlib.Pick(r, []string{"", "#", "x.html"}))
		}
	case "input", "menuitem":
		if r.Chance(1, 2) {
			add("type", vlib.Pick(r, []string{"checkbox", "radio", "text", "CHECKBOX", "Radio", ""}))
		}
		if r.Chance(1, 2) {
			sb.WriteString(" checked")
		}
	case "option":
		if r.Chance(1, 2) {
			sb.WriteString(" selected")
		}
	}
	switch tag {
	case "input", "button", "fieldset", "option", "select", "optgroup", "menuitem", "textarea":
		if r.Chance(1, 3) {
			sb.WriteString(" disabled")
		}
	}
	return sb.String()
}

var voidTags = map[string]bool{"input": true, "area": true, "link": true}

func genChildren(r *vlib.Rng, sb *strings.Builder, budget *int, depth int) {
	n := r.Range(0, 5)
	if depth == 0 {
		n = r.Range(1, 6)
	}
	for i := 0; i < n && *budget > 0; i++ {
		switch k := r.Intn(10); {
		case k < 2:
			sb.WriteString(vlib.Pick(r, texts))
			*budget--
		case k == 2:
			sb.WriteString("<!--" + vlib.Pick(r, []string{"", " ", "c"}) + "-->")
			*budget--
		default:
			tag := pickDocTag(r)
			*budget--
			sb.WriteString("<" + srcCase(r, tag) + genAttrs(r, tag) + ">")
			if voidTags[tag] {
				continue
			}
			if depth < 4 && r.Chance(3, 5) {
				genChildren(r, sb, budget, depth+1)
			}
			if !r.Chance(1, 8) { // sometimes leave the element open
				sb.WriteString("</" + tag + ">")
			}
		}
	}
}

func genDoc(r *vlib.Rng) string {
	var sb strings.Builder
	docProfile = r.Intn(3)
	docCustom = nil
	for len(docCustom) < 3 {
		docCustom = append(docCustom, vlib.Pick(r, customTags))
	}
	switch r.Intn(6) {
	case 0:
		sb.WriteString("<!DOCTYPE html>")
	case 1:
		sb.WriteString(`<!DOCTYPE html PUBLIC "-//W3C//DTD XHTML 1.0 Strict//EN" "http://www.w3.org/TR/xhtml1/DTD/xhtml1-strict.dtd">`)
	case 2:
		sb.WriteString("<!-- c --><!DOCTYPE html>")
	}
	if r.Chance(1, 6) {
		sb.WriteString("<!--before-->")
	}
	if r.Chance(1, 2) {
		sb.WriteString("<html" + genAttrs(r, "html") + ">")
	}
	if r.Chance(1, 4) {
		sb.WriteString("<head><link" + genAttrs(r, "link") + "></head>")
	}
	if r.Chance(1, 3) {
		sb.WriteString("<body" + genAttrs(r, "body") + ">")
	}
	budget := r.Range(3, 34)
	genChildren(r, &sb, &budget, 0)
	if r.Chance(1, 8) {
		sb.WriteString("</body><!--after-->")
	}
	return sb.String()
}

// nodes of the tree in document order (depth first, pre-order), root included
func walk(n *html.Node, f func(*html.Node)) {
	f(n)
	for c := n.FirstChild; c != nil; c = c.NextSibling {
		walk(c, f)
	}
}

// the stated abstraction of DataAtom (see Css/Sel.v) holds for this tree
func atomInvariant(root *html.Node) bool {
	ok := true
	walk(root, func(n *html.Node) {
		if n.Type == html.ElementNode {
			if n.Data == "" || n.Namespace != "" || n.DataAtom != atom.Lookup([]byte(n.Data)) {
				ok = false
			}
		} else if n.DataAtom != 0 {
			ok = false
		}
	})
	return ok
}

func coqNode(n *html.Node, sb *strings.Builder) {
	ty := "TDocument"
	switch n.Type {
	case html.ElementNode:
		ty = "TElement"
	case html.TextNode:
		ty = "TText"
	case html.CommentNode:
		ty = "TComment"
	case html.DoctypeNode:
		ty = "TDoctype"
	case html.DocumentNode:
		ty = "TDocument"
	default:
		ty = "TComment" // raw nodes etc. are never produced by html.Parse
	}
	sb.WriteString("Node " + ty + " " + vlib.Bytes(n.Data) + " [")
	for i, a := range n.Attr {
		if i > 0 {
			sb.WriteString(";")
		}
		sb.WriteString("Attr " + vlib.Bytes(a.Key) + " " + vlib.Bytes(a.Val))
	}
	sb.WriteString("] [")
	first := true
	for c := n.FirstChild; c != nil; c = c.NextSibling {
		if !first {
			sb.WriteString(";")
		}
		first = false
		coqNode(c, sb)
	}
	sb.WriteString("]")
}

// ---------------------------------------------------------------- selectors -> Coq

var opNames = map[string]string{"": "OpExists", "=": "OpEq", "!=": "OpNe", "~=": "OpIncludes", "|=": "OpDash", "^=": "OpPrefix", "$=": "OpSuffix", "*=": "OpSubstr"}
var relNames = map[string]string{"is": "RIs", "not": "RNot", "has": "RHas", "haschild": "RHasChild"}
var combNames = map[string]string{" ": "CDesc", ">": "CChild", "+": "CAdj", "~": "CSib"}

// returns the Coq term of type Sel.sel and whether the selector is in the modelled grammar
func coqSel(v selector.VerifSel) (string, bool) {
	switch v.Kind {
	case "tag":
		return "STag " + vlib.Bytes(v.Strs[0]), true
	case "class":
		return "SClass " + vlib.Bytes(v.Strs[0]), true
	case "id":
		return "SId " + vlib.Bytes(v.Strs[0]), true
	case "attr":
		op, ok := opNames[v.Strs[2]]
		return fmt.Sprintf("SAttr %s %s %s %s", vlib.Bytes(v.Strs[0]), vlib.Bytes(v.Strs[1]), op, vlib.Bool(v.Bools[0])), ok
	case "rel":
		g, ok := coqGroup(v.Kids)
		name, ok2 := relNames[v.Strs[0]]
		return "SRel " + name + " " + g, ok && ok2
	case "nth":
		return fmt.Sprintf("SNth %s %s %s %s", vlib.Z(v.Ints[0]), vlib.Z(v.Ints[1]), vlib.Bool(v.Bools[0]), vlib.Bool(v.Bools[1])), true
	case "only":
		return "SOnly " + vlib.Bool(v.Bools[0]), true
	case "input":
		return "SInput", true
	case "empty":
		return "SEmpty", true
	case "root":
		return "SRoot", true
	case "link":
		return "SLink", true
	case "lang":
		return "SLang " + vlib.Bytes(v.Strs[0]), true
	case "enabled":
		return "SEnabled", true
	case "disabled":
		return "SDisabled", true
	case "checked":
		return "SChecked", true
	case "never":
		return "SNever " + vlib.Bytes(v.Strs[0]), true
	case "compound":
		g, ok := coqGroup(v.Kids)
		return "SCompound " + g + " " + vlib.Bytes(v.Strs[0]), ok
	case "combined":
		a, ok1 := coqSel(v.Kids[0])
		b, ok2 := coqSel(v.Kids[1])
		c, ok3 := combNames[v.Strs[0]]
		return fmt.Sprintf("SCombined (%s) %s (%s)", a, c, b), ok1 && ok2 && ok3
	}
	return "SEmpty", false
}

func coqGroup(g []selector.VerifSel) (string, bool) {
	items := make([]string, len(g))
	ok := true
	for i, s := range g {
		t, o := coqSel(s)
		items[i] = "(" + t + ")"
		ok = ok && o
	}
	return "[" + strings.Join(items, "; ") + "]", ok
}

// does some :has / :haschild argument contain a combinator (Selectors 4 anchors those below the scope)?
func hasCombinatorArg(v selector.VerifSel) bool {
	if v.Kind == "rel" && (v.Strs[0] == "has" || v.Strs[0] == "haschild") {
		for _, k := range v.Kids {
			if k.Kind == "combined" {
				return true
			}
		}
	}
	for _, k := range v.Kids {
		if hasCombinatorArg(k) {
			return true
		}
	}
	return false
}

func relInside(v selector.VerifSel) bool {
	if v.Kind == "rel" {
		return true
	}
	for _, c := range v.Kids {
		if relInside(c) {
			return true
		}
	}
	return false
}

func kindsOf(v selector.VerifSel, into map[string]bool) {
	k := v.Kind
	if k == "rel" {
		for _, c := range v.Kids {
			if relInside(c) {
				into["rel-nested"] = true
			}
		}
	}
	if k == "rel" || k == "combined" {
		k += ":" + strings.TrimSpace(v.Strs[0])
		if v.Strs[0] == " " {
			k = "combined:desc"
		}
	}
	if k == "attr" {
		k += v.Strs[2]
		if v.Bools[0] {
			into["attr-i"] = true
		}
		if v.Strs[1] == "" && v.Strs[2] != "" {
			into["attr-empty-value"] = true
		}
	}
	if k == "nth" {
		switch {
		case v.Ints[0] < 0:
			into["nth-negative-a"] = true
		case v.Ints[0] == 0:
			into["nth-a0"] = true
		}
	}
	into[k] = true
	for _, c := range v.Kids {
		kindsOf(c, into)
	}
}

// ---------------------------------------------------------------- selector text generator

type sgen struct {
	r        *vlib.Rng
	mal      bool     // boundary stream: odd spellings
	present  []string // element names occurring in the document the selectors are run against
	hasDepth int      // number of enclosing :has / :haschild being generated
}

func (g *sgen) ws() string {
	switch g.r.Intn(8) {
	case 0:
		return " "
	case 1:
		return "  "
	case 2:
		if g.mal {
			return "/* c */"
		}
		return "\t"
	}
	return ""
}

func (g *sgen) ident(pool []string) string {
	s := vlib.Pick(g.r, pool)
	if g.mal && g.r.Chance(1, 4) && s != "" { // hex escape of the first byte
		return fmt.Sprintf("\\%x ", s[0]) + s[1:]
	}
	return s
}

func (g *sgen) tag() string {
	t := vlib.Pick(g.r, mainTags)
	switch k := g.r.Intn(10); {
	case k < 2:
		t = vlib.Pick(g.r, append(formTags, "html", "body", "head"))
	case k < 4 && len(g.present) > 0: // a name that occurs in this document (known to the atom table or not)
		t = vlib.Pick(g.r, g.present)
	case k == 4:
		t = vlib.Pick(g.r, customTags)
	}
	switch g.r.Intn(12) {
	case 0, 1:
		t = strings.ToUpper(t)
	case 2: // mixed case
		b := []byte(t)
		for i := range b {
			if g.r.Bool() && b[i] >= 'a' && b[i] <= 'z' {
				b[i] -= 32
			}
		}
		t = string(b)
	}
	return t
}

var attrVals = []string{"", " ", "foo", "bar", "foo bar", "FOO", "Foo", "a", "b", "-", "o", "oo b", "foo-", "fo", "o  b", "x1", "en", "é", "foo-bar", "A", "\t", " ", "r ", " f", "c"}

func (g *sgen) attr() string {
	key := vlib.Pick(g.r, []string{"class", "id", "title", "lang", "href", "disabled", "type", "Title", "data-x", "checked"})
	if g.r.Chance(1, 4) {
		return "[" + g.ws() + key + g.ws() + "]"
	}
	op := vlib.Pick(g.r, []string{"=", "!=", "~=", "|=", "^=", "$=", "*="})
	val := vlib.Pick(g.r, attrVals)
	iflag := g.r.Chance(1, 4)
	if iflag { // keep case-insensitive operands ASCII (stated bound of the model)
		for _, c := range val {
			if c >= 128 {
				val = "Foo"
			}
		}
	}
	var vs string
	plainIdent := val != "" && !strings.ContainsAny(val, " \t ") && !(val[0] >= '0' && val[0] <= '9') && val != "-"
	switch {
	case plainIdent && g.r.Chance(1, 3):
		vs = val
	case g.r.Bool():
		vs = "\"" + strings.ReplaceAll(val, "\t", "\\9 ") + "\""
	default:
		vs = "'" + strings.ReplaceAll(val, "\t", "\\9 ") + "'"
	}
	if g.mal && vs != val && g.r.Chance(1, 4) { // a control character RAW inside the quoted string (FF CR LF end it: parse error)
		k := 1 + g.r.Intn(len(vs)-1)
		vs = vs[:k] + vlib.Pick(g.r, []string{"\f", "\r", "\n", "\x00", "\x7f", "\x0b", "\t", "\x01"}) + vs[k:]
	}
	s := "[" + g.ws() + key + g.ws() + op + g.ws() + vs
	if iflag {
		s += vlib.Pick(g.r, []string{" i", " I", "i"})
		if vs == val && strings.HasSuffix(s, vs+"i") { // ident immediately followed by i would be part of it
			s = s[:len(s)-1] + " i"
		}
	}
	return s + g.ws() + "]"
}

func (g *sgen) nthExpr() string {
	r := g.r
	a, b := r.Range(-4, 4), r.Range(-6, 6)
	switch r.Intn(10) {
	case 0:
		return vlib.Pick(r, []string{"odd", "even", "ODD", "Even"})
	case 1: // b only
		return vlib.Pick(r, []string{"", "+"}) + fmt.Sprint(r.Range(0, 7))
	case 2:
		return fmt.Sprint(-r.Range(0, 3))
	case 3: // n forms
		s := vlib.Pick(r, []string{"n", "-n", "+n", "N"})
		if b > 0 {
			s += g.ws() + "+" + g.ws() + fmt.Sprint(b)
		} else if b < 0 {
			s += g.ws() + "-" + g.ws() + fmt.Sprint(-b)
		}
		return s
	}
	s := fmt.Sprintf("%dn", a)
	if a > 0 && r.Chance(1, 5) {
		s = "+" + s
	}
	switch {
	case b > 0 || (b == 0 && r.Chance(1, 4)):
		s += g.ws() + "+" + g.ws() + fmt.Sprint(b)
	case b < 0:
		s += g.ws() + "-" + g.ws() + fmt.Sprint(-b)
	}
	return s
}

func (g *sgen) pseudo(depth int) string {
	r := g.r
	switch k := r.Intn(20); {
	case k < 6:
		name := vlib.Pick(r, []string{"nth-child", "nth-last-child", "nth-of-type", "nth-last-of-type"})
		if r.Chance(1, 8) {
			name = strings.ToUpper(name)
		}
		return ":" + name + "(" + g.ws() + g.nthExpr() + g.ws() + ")"
	case k < 9:
		return ":" + vlib.Pick(r, []string{"first-child", "last-child", "first-of-type", "last-of-type", "only-child", "only-of-type"})
	case k < 11:
		return ":" + vlib.Pick(r, []string{"empty", "root", "empty", "root", "link", "enabled", "disabled", "checked", "input", "hover", "visited"})
	case k == 11:
		return ":lang(" + g.ws() + vlib.Pick(r, []string{"en", "fr", "EN", "en-GB"}) + g.ws() + ")"
	default:
		if depth <= 0 {
			return ":empty"
		}
		name := vlib.Pick(r, []string{"not", "not", "is", "has", "has", "haschild"})
		isHas := strings.HasPrefix(name, "has")
		if isHas && g.hasDepth > 0 && !r.Chance(1, 4) { // :has(:has(:has())) with combinators costs nodes^depth in the model: keep it rare
			name, isHas = vlib.Pick(r, []string{"not", "is"}), false
		}
		if isHas {
			g.hasDepth++
		}
		arg := g.group(depth-1, false)
		if isHas {
			g.hasDepth--
		}
		return ":" + name + "(" + g.ws() + arg + g.ws() + ")"
	}
}

func (g *sgen) compound(depth int, allowPE bool) string {
	r := g.r
	var sb strings.Builder
	switch r.Intn(5) {
	case 0:
		sb.WriteString("*")
	case 1, 2:
		sb.WriteString(g.tag())
	}
	n := r.Range(0, 2)
	if sb.Len() == 0 && n == 0 {
		n = 1
	}
	for i := 0; i < n; i++ {
		switch k := r.Intn(10); {
		case k < 2:
			sb.WriteString("." + g.ident(classWords))
		case k < 3:
			sb.WriteString("#" + g.ident(ids))
		case k < 6:
			sb.WriteString(g.attr())
		default:
			sb.WriteString(g.pseudo(depth))
		}
	}
	if allowPE && r.Chance(1, 8) {
		sb.WriteString(vlib.Pick(r, []string{"::before", "::after", ":before", "::first-line", "::marker"}))
	}
	return sb.String()
}

func (g *sgen) complex(depth int, top bool) string {
	r := g.r
	n := 1
	if r.Chance(1, 2) {
		n = r.Range(2, 3)
	}
	var sb strings.Builder
	for i := 0; i < n; i++ {
		if i > 0 {
			c := vlib.Pick(r, []string{" ", " ", ">", "+", "~", "~"})
			if c == " " {
				sb.WriteString(vlib.Pick(r, []string{" ", "  ", "\n"}))
			} else {
				sb.WriteString(g.ws() + c + g.ws())
			}
		}
		sb.WriteString(g.compound(depth, top && i == n-1))
	}
	return sb.String()
}

func (g *sgen) group(depth int, top bool) string {
	n := 1
	if g.r.Chance(1, 4) {
		n = g.r.Range(2, 3)
	}
	parts := make([]string, n)
	for i := range parts {
		parts[i] = g.complex(depth, top)
	}
	return strings.Join(parts, g.ws()+","+g.ws())
}

// ---------------------------------------------------------------- guided selectors: built from an element of the tree

func elemIndex(n *html.Node, ofType, last bool) int {
	i := 0
	if last {
		for c := n; c != nil; c = c.NextSibling {
			if c.Type == html.ElementNode && (!ofType || c.Data == n.Data) {
				i++
			}
		}
		return i
	}
	for c := n; c != nil; c = c.PrevSibling {
		if c.Type == html.ElementNode && (!ofType || c.Data == n.Data) {
			i++
		}
	}
	return i
}

// a compound selector that matches element n (or nearly: with probability 1/6 one part is perturbed)
func (g *sgen) compoundFor(n *html.Node) string {
	r := g.r
	var sb strings.Builder
	if r.Chance(3, 5) {
		sb.WriteString(n.Data)
	} else if r.Chance(1, 4) {
		sb.WriteString("*")
	}
	parts := r.Range(0, 2)
	if sb.Len() == 0 && parts == 0 {
		parts = 1
	}
	for k := 0; k < parts; k++ {
		switch r.Intn(4) {
		case 0, 1: // from an attribute
			if len(n.Attr) == 0 {
				sb.WriteString(":not(" + vlib.Pick(r, []string{"[class]", ".a", "#b", "[title]"}) + ")")
				continue
			}
			a := n.Attr[r.Intn(len(n.Attr))]
			v := a.Val
			words := strings.FieldsFunc(v, func(c rune) bool { return strings.ContainsRune(" \t\n\f\r", c) })
			ascii := true
			for i := 0; i < len(v); i++ {
				if v[i] >= 128 {
					ascii = false
				}
			}
			q := func(s string) string {
				s = strings.ReplaceAll(s, "\\", "\\\\")
				s = strings.ReplaceAll(s, "\"", "\\\"")
				s = strings.ReplaceAll(s, "\n", "\\a ")
				s = strings.ReplaceAll(s, "\f", "\\c ")
				s = strings.ReplaceAll(s, "\r", "\\d ")
				return "\"" + s + "\""
			}
			flag := ""
			mod := func(s string) string { return s }
			if ascii && r.Chance(1, 3) {
				flag = " i"
				mod = func(s string) string {
					if r.Bool() {
						return strings.ToUpper(s)
					}
					return strings.ToLower(s)
				}
			}
			switch {
			case a.Key == "class" && len(words) > 0 && r.Chance(1, 2):
				w := vlib.Pick(r, words)
				ok := w != ""
				for i := 0; i < len(w); i++ {
					c := w[i]
					if !(c == '-' && i > 0 || c == '_' || c >= 'a' && c <= 'z' || c >= 'A' && c <= 'Z' || c >= '0' && c <= '9' && i > 0) {
						ok = false
					}
				}
				if ok {
					sb.WriteString("." + w)
				} else {
					sb.WriteString("[class~=" + q(w) + "]")
				}
			case a.Key == "id" && r.Chance(1, 2) && v != "" && !strings.ContainsAny(v, " \t\n") && !(v[0] >= '0' && v[0] <= '9'):
				sb.WriteString("#" + v)
			default:
				switch r.Intn(8) {
				case 0:
					sb.WriteString("[" + a.Key + "]")
				case 1:
					sb.WriteString("[" + a.Key + "=" + q(mod(v)) + flag + "]")
				case 2:
					w := v
					if len(words) > 0 {
						w = vlib.Pick(r, words)
					}
					sb.WriteString("[" + a.Key + "~=" + q(mod(w)) + flag + "]")
				case 3:
					w := v
					if i := strings.IndexByte(v, '-'); i >= 0 && r.Bool() {
						w = v[:i]
					}
					sb.WriteString("[" + a.Key + "|=" + q(mod(w)) + flag + "]")
				case 4:
					sb.WriteString("[" + a.Key + "^=" + q(mod(v[:r.Intn(len(v)+1)])) + flag + "]")
				case 5:
					sb.WriteString("[" + a.Key + "$=" + q(mod(v[r.Intn(len(v)+1):])) + flag + "]")
				case 6:
					i := r.Intn(len(v) + 1)
					j := i + r.Intn(len(v)-i+1)
					sb.WriteString("[" + a.Key + "*=" + q(mod(v[i:j])) + flag + "]")
				default:
					sb.WriteString("[" + a.Key + "!=" + q(vlib.Pick(r, attrVals)) + "]")
				}
			}
		case 2: // structural, from the actual position
			ofType, last := r.Bool(), r.Bool()
			idx := elemIndex(n, ofType, last)
			name := "nth-"
			if last {
				name += "last-"
			}
			if ofType {
				name += "of-type"
			} else {
				name += "child"
			}
			a := r.Range(-4, 4)
			if r.Chance(1, 5) { // the a = 0 fast paths (simpleNthChildMatch / simpleNthLastChildMatch)
				a = 0
			}
			m := r.Range(0, 2)
			b := idx - a*m // idx = a*m + b
			if r.Chance(1, 6) {
				b += r.Range(-1, 1)
			}
			bs := ""
			if b > 0 {
				bs = fmt.Sprintf("+%d", b)
			} else if b < 0 {
				bs = fmt.Sprint(b)
			}
			switch {
			case a == 0 && r.Bool():
				sb.WriteString(fmt.Sprintf(":%s(%d)", name, b))
			default:
				sb.WriteString(fmt.Sprintf(":%s(%dn%s)", name, a, bs))
			}
		default:
			switch r.Intn(6) {
			case 0:
				if n.FirstChild == nil {
					sb.WriteString(":empty")
				} else {
					sb.WriteString(":not(:empty)")
				}
			case 1:
				sb.WriteString(vlib.Pick(r, []string{":first-child", ":last-child", ":only-child", ":first-of-type", ":last-of-type", ":only-of-type"}))
			case 2:
				wrote := false
				for c := n.FirstChild; c != nil; c = c.NextSibling {
					if c.Type == html.ElementNode {
						sb.WriteString(vlib.Pick(r, []string{":has(", ":haschild(", ":has(* > "}) + c.Data + ")")
						wrote = true
						break
					}
				}
				if !wrote {
					sb.WriteString(":not(:has(*))")
				}
			case 3:
				sb.WriteString(":is(" + n.Data + ", .a)")
			case 4:
				sb.WriteString(":not(" + vlib.Pick(r, mainTags) + ")")
			default:
				sb.WriteString(":root")
			}
		}
	}
	return sb.String()
}

// a complex selector following the real ancestors / siblings of element n
func (g *sgen) guided(n *html.Node) string {
	r := g.r
	s := g.compoundFor(n)
	cur := n
	for depth := r.Range(0, 2); depth > 0; depth-- {
		switch r.Intn(4) {
		case 0: // some ancestor
			p := cur.Parent
			for p != nil && p.Type == html.ElementNode && p.Parent != nil && p.Parent.Type == html.ElementNode && r.Bool() {
				p = p.Parent
			}
			if p == nil || p.Type != html.ElementNode {
				return s
			}
			s = g.compoundFor(p) + " " + s
			cur = p
		case 1:
			p := cur.Parent
			if p == nil || p.Type != html.ElementNode {
				return s
			}
			s = g.compoundFor(p) + " > " + s
			cur = p
		case 2: // previous element sibling
			p := cur.PrevSibling
			for p != nil && p.Type != html.ElementNode {
				p = p.PrevSibling
			}
			if p == nil {
				return s
			}
			s = g.compoundFor(p) + g.ws() + "+" + g.ws() + s
			cur = p
		default: // some earlier element sibling
			var prevs []*html.Node
			for p := cur.PrevSibling; p != nil; p = p.PrevSibling {
				if p.Type == html.ElementNode {
					prevs = append(prevs, p)
				}
			}
			if len(prevs) == 0 {
				return s
			}
			p := vlib.Pick(r, prevs)
			s = g.compoundFor(p) + " ~ " + s
			cur = p
		}
	}
	return s
}

// boundary stream: damage a valid selector
func mutate(r *vlib.Rng, s string) string {
	const alphabet = "()[]:.#,>+~*\"'\\ -n0123456789=^$|!aAiI/\t\f\r\n\x00\x7f"
	b := []byte(s)
	for k := r.Range(1, 2); k > 0 && len(b) > 0; k-- {
		i := r.Intn(len(b))
		switch r.Intn(4) {
		case 0:
			b = append(b[:i], b[i+1:]...)
		case 1:
			b = append(b[:i], append([]byte{alphabet[r.Intn(len(alphabet))]}, b[i:]...)...)
		case 2:
			b = b[:i]
		default:
			b[i] = alphabet[r.Intn(len(alphabet))]
		}
	}
	return string(b)
}

// ---------------------------------------------------------------- running the implementation

type selObs struct {
	Src      string   `json:"src"`
	Err      string   `json:"parse_error,omitempty"`
	Panic    string   `json:"panic,omitempty"`
	Matched  []string `json:"group_matches,omitempty"`
	Spec     [][3]int `json:"specificity,omitempty"`
	Pseudo   []string `json:"pseudo_element,omitempty"`
	String   string   `json:"string,omitempty"`
	Reparsed string   `json:"reparse,omitempty"`
}

func mask(nodes []*html.Node, m selector.Matcher) string {
	var z big.Int
	for i, n := range nodes {
		if m.Match(n) {
			z.SetBit(&z, i, 1)
		}
	}
	return z.String()
}

func descNode(n *html.Node) string {
	switch n.Type {
	case html.ElementNode:
		s := "<" + n.Data
		for _, a := range n.Attr {
			s += fmt.Sprintf(" %s=%q", a.Key, a.Val)
		}
		return s + ">"
	case html.TextNode:
		return fmt.Sprintf("text %q", n.Data)
	case html.CommentNode:
		return "comment"
	case html.DoctypeNode:
		return "doctype"
	}
	return "document"
}

// ParseGroup under a watchdog: the parser model is proved total (C05_sel_parse_total), so an
// implementation that does not return is a failing input, reported like a panic (code 8).  The
// goroutine of a hung call cannot be stopped: after maxHangs of them the harness stops generating.
var hangs int

const maxHangs = 4

func parseGuarded(src string) (g selector.SelectorGroup, err error, hung bool) {
	type res struct {
		g   selector.SelectorGroup
		err error
		pan interface{}
	}
	ch := make(chan res, 1)
	go func() {
		var r res
		defer func() {
			r.pan = recover()
			ch <- r
		}()
		r.g, r.err = selector.ParseGroup(src)
	}()
	select {
	case r := <-ch:
		if r.pan != nil {
			panic(r.pan)
		}
		return r.g, r.err, false
	case <-time.After(3 * time.Second):
		hangs++
		return nil, nil, true
	}
}

// one selector text against one tree: Coq term of type Check.C05.selcase
func runSel(src string, nodes []*html.Node, tags map[string]bool) (coq string, obs selObs, supported bool, nontrivial bool) {
	obs.Src = src
	supported = true
	defer func() {
		if e := recover(); e != nil {
			obs.Panic = fmt.Sprint(e)
			coq = "SCPanic " + vlib.Bytes(src)
			tags["panic"] = true
		}
	}()
	if hangs >= maxHangs {
		return "", obs, false, false
	}
	g, err, hung := parseGuarded(src)
	if hung {
		obs.Panic = "hang: ParseGroup did not return within 3 s"
		tags["hang"] = true
		return "SCPanic " + vlib.Bytes(src), obs, true, false
	}
	if err != nil {
		obs.Err = err.Error()
		tags["parse-error"] = true
		if strings.Contains(src, "(") && (strings.Contains(src, "::") || strings.Contains(src, ":before") || strings.Contains(src, ":after") || strings.Contains(src, ":first-l")) {
			tags["parse-error-pseudo-element-and-parenthesis"] = true
		}
		return "SC " + vlib.Bytes(src) + " None 0 [] [] None", obs, true, false
	}
	dump := selector.VerifDumpGroup(g)
	ast, ok := coqGroup(dump)
	if !ok {
		tags["unsupported"] = true
		return "", obs, false, false
	}
	for _, v := range dump {
		kindsOf(v, tags)
		if hasCombinatorArg(v) {
			tags["has-combinator-arg"] = true
		}
	}
	gm := mask(nodes, g)
	nel := 0
	for i, n := range nodes {
		if n.Type == html.ElementNode {
			nel++
		}
		if g.Match(n) && len(obs.Matched) < 6 {
			obs.Matched = append(obs.Matched, fmt.Sprintf("%d:%s", i, descNode(n)))
		}
	}
	cnt := 0
	for _, n := range nodes {
		if g.Match(n) {
			cnt++
		}
	}
	nontrivial = cnt > 0 && cnt < nel
	each := make([]string, len(g))
	for i, s := range g {
		sp := s.Specificity()
		pe := s.PseudoElement()
		obs.Spec = append(obs.Spec, [3]int{sp[0], sp[1], sp[2]})
		if sp[0] >= 10 || sp[1] >= 10 || sp[2] >= 10 {
			tags["specificity-column>=10"] = true
		}
		obs.Pseudo = append(obs.Pseudo, pe)
		each[i] = fmt.Sprintf("SO (S3 %s %s %s) %s %s", vlib.Z(sp[0]), vlib.Z(sp[1]), vlib.Z(sp[2]), vlib.Bytes(pe), mask(nodes, s))
		if pe != "" {
			tags["pseudo-element"] = true
		}
	}
	str := g.String()
	obs.String = str
	rt := "None"
	g2, err2, hung2 := parseGuarded(str)
	if hung2 {
		obs.Panic = "hang: ParseGroup(String()) did not return within 3 s"
		tags["hang"] = true
		return "SCPanic " + vlib.Bytes(str), obs, true, false
	}
	if err2 != nil {
		obs.Reparsed = "error: " + err2.Error()
		tags["reparse-error"] = true
	} else {
		ast2, ok2 := coqGroup(selector.VerifDumpGroup(g2))
		if ok2 {
			rt = "(Some " + ast2 + ")"
			if ast2 != ast {
				obs.Reparsed = "different structure: " + g2.String()
				tags["reparse-differs"] = true
			}
		} else {
			obs.Reparsed = "unsupported structure"
		}
	}
	if rt == "(Some "+ast+")" {
		coq = fmt.Sprintf("SCsame %s %s %s %s %s", vlib.Bytes(src), ast, gm, vlib.List(each), vlib.Bytes(str))
	} else {
		coq = fmt.Sprintf("SC %s (Some %s) %s %s %s %s", vlib.Bytes(src), ast, gm, vlib.List(each), vlib.Bytes(str), rt)
	}
	return coq, obs, true, nontrivial
}

type corpusEntry struct {
	Doc  string   `json:"doc"`
	Sels []string `json:"sels"`
	Note string   `json:"note,omitempty"`
}

func runDoc(doc string, sels []string, kind string) (vlib.Case, bool) {
	root, err := html.Parse(strings.NewReader(doc))
	if err != nil || !atomInvariant(root) {
		return vlib.Case{}, false
	}
	var nodes []*html.Node
	walk(root, func(n *html.Node) { nodes = append(nodes, n) })
	if len(nodes) > 60 {
		return vlib.Case{}, false
	}
	var tree strings.Builder
	coqNode(root, &tree)
	tags := map[string]bool{}
	unknownNames := map[string]bool{}
	for _, n := range nodes {
		if n.Type == html.ElementNode && n.DataAtom == 0 {
			unknownNames[n.Data] = true
		}
	}
	if len(unknownNames) > 0 {
		tags["element-unknown-to-atom-table"] = true
	}
	if len(unknownNames) > 1 {
		tags["several-unknown-element-types"] = true
	}
	var terms []string
	var obs []selObs
	nontrivial := false
	for _, src := range sels {
		t, o, ok, nt := runSel(src, nodes, tags)
		if !ok {
			continue
		}
		terms = append(terms, t)
		obs = append(obs, o)
		nontrivial = nontrivial || nt
	}
	if len(terms) == 0 {
		return vlib.Case{}, false
	}
	var tl []string
	for t := range tags {
		tl = append(tl, t)
	}
	sort.Strings(tl)
	return vlib.Case{Kind: kind, Coq: "CDoc (" + tree.String() + ") " + vlib.List(terms),
		Desc: map[string]interface{}{"html": doc, "nodes": len(nodes), "selectors": obs},
		Tags: tl, Nontrivial: nontrivial}, true
}

// ---------------------------------------------------------------- exhaustive small bounds (thorough tier)

// all trees with <= 3 nodes below <body> (and one in seven of those with 4) over a
// 2-tag / 2-class alphabet with text nodes, as HTML strings
func smallDocs() []string {
	var shapes func(n int) []string
	elems := []string{`<p>`, `<p class=a>`, `<div>`, `<div class="a b">`}
	closing := map[string]string{`<p>`: "</p>", `<p class=a>`: "</p>", `<div>`: "</div>", `<div class="a b">`: "</div>"}
	// forests with exactly n nodes
	memo := map[int][]string{}
	shapes = func(n int) []string {
		if n == 0 {
			return []string{""}
		}
		if v, ok := memo[n]; ok {
			return v
		}
		var out []string
		// first tree has k nodes (root + forest of k-1), rest forest has n-k
		for k := 1; k <= n; k++ {
			for _, rest := range shapes(n - k) {
				for _, inner := range shapes(k - 1) {
					for _, e := range elems {
						if strings.HasPrefix(e, "<p") && strings.Contains(inner, "<") {
							continue // html.Parse would move block children out of <p>; keep trees as written
						}
						out = append(out, e+inner+closing[e]+rest)
					}
				}
				if k == 1 {
					out = append(out, "x"+rest) // a text node
				}
			}
		}
		memo[n] = out
		return out
	}
	var docs []string
	for n := 1; n <= 4; n++ {
		for i, f := range shapes(n) {
			if strings.Contains(f, "xx") || (n == 4 && i%7 != 0) {
				continue
			}
			docs = append(docs, "<body>"+f)
		}
	}
	return docs
}

// all selectors of AST size <= 2 over the same alphabet
func smallSels() []string {
	simple := []string{"p", "div", "*", ".a", ".b", "[class]", `[class~=""]`, `[class^="a"]`, ":empty", ":first-child", ":last-child", ":only-child",
		":first-of-type", ":last-of-type", ":only-of-type", ":root"}
	for a := -2; a <= 2; a++ {
		for b := -2; b <= 3; b++ {
			for _, name := range []string{"nth-child", "nth-last-child", "nth-of-type", "nth-last-of-type"} {
				bs := fmt.Sprintf("+%d", b)
				if b < 0 {
					bs = fmt.Sprint(b)
				}
				simple = append(simple, fmt.Sprintf(":%s(%dn%s)", name, a, bs))
			}
		}
	}
	out := append([]string{}, simple...)
	base := []string{"p", "div", ".a", ":first-child", ":nth-child(2n+1)", ":empty", "*"}
	for _, x := range base {
		for _, y := range base {
			for _, c := range []string{" ", " > ", " + ", " ~ "} {
				out = append(out, x+c+y)
			}
			if y != "p" && y != "div" && y != "*" {
				out = append(out, x+y)
			}
			out = append(out, x+", "+y)
		}
		for _, f := range []string{"not", "is", "has", "haschild"} {
			out = append(out, ":"+f+"("+x+")", "div:"+f+"("+x+")")
		}
	}
	return out
}

// ---------------------------------------------------------------- main

func main() {
	out := flag.String("out", "cases.jsonl", "output file")
	n := flag.Int("n", 300, "number of cases (documents)")
	perDoc := flag.Int("per", 12, "selectors per document")
	flag.Parse()
	rng := vlib.NewRng(vlib.Seed())
	w := vlib.NewWriter(*out)
	defer w.Close()
	thorough := os.Getenv("VERIF_TIER") == "thorough"

	// 0. replay of the witnesses of the two proved deviations from Selectors 4 (Properties/C05.v):
	// the implementation's answer at the witness node
	for _, wit := range []struct {
		k         int
		doc, sel  string
		tag, note string
	}{
		{1, "<section><div><p></p></div></section>", "div:has(section p)", "has-combinator-arg", "Selectors 4: div does not match (section is not below the div)"},
		{2, `<html title="  ">`, `[title^=" "]`, "blank-attr-substring", "Selectors 4: html matches (the value begins with a space)"},
	} {
		root, err := html.Parse(strings.NewReader(wit.doc))
		g, err2 := selector.ParseGroup(wit.sel)
		if err != nil || err2 != nil {
			continue
		}
		ast, ok := coqGroup(selector.VerifDumpGroup(g))
		if !ok {
			continue
		}
		var nodes []*html.Node
		walk(root, func(n *html.Node) { nodes = append(nodes, n) })
		want := "div"
		if wit.k == 2 {
			want = "html"
		}
		for i, n := range nodes {
			if n.Type == html.ElementNode && n.Data == want {
				var tree strings.Builder
				coqNode(root, &tree)
				m := g.Match(n)
				w.Add(vlib.Case{Kind: "spec-deviation",
					Coq:  fmt.Sprintf("CWitness %d (%s) %s %d %s", wit.k, tree.String(), ast, i, vlib.Bool(m)),
					Desc: map[string]interface{}{"html": wit.doc, "selector": wit.sel, "node": descNode(n), "match": m, "specification": wit.note},
					Tags: []string{wit.tag}, Nontrivial: true})
				break
			}
		}
	}

	// 1. regression corpus
	files, _ := filepath.Glob("../corpus/C05/*.json")
	sort.Strings(files)
	for _, f := range files {
		b, err := os.ReadFile(f)
		if err != nil {
			continue
		}
		var es []corpusEntry
		if json.Unmarshal(b, &es) != nil {
			fmt.Fprintln(os.Stderr, "bad corpus file", f)
			os.Exit(2)
		}
		for _, e := range es {
			if c, ok := runDoc(e.Doc, e.Sels, "corpus"); ok {
				w.Add(c)
			}
		}
	}

	// 2. exhaustive small bounds (thorough only)
	if thorough {
		sels := smallSels()
		for _, d := range smallDocs() {
			for i := 0; i < len(sels); i += 120 {
				j := i + 120
				if j > len(sels) {
					j = len(sels)
				}
				if c, ok := runDoc(d, sels[i:j], "exhaustive"); ok {
					w.Add(c)
				}
			}
		}
	}

	// 2a. control characters (FF CR LF NUL TAB VT DEL ...) RAW inside every lexical context of the selector parser
	// (cssedge.SelectorCtl): accept / reject / structure / hang compared with the parser model
	{
		ctl := cssedge.SelectorCtl()
		const ctlDoc = "<p title=\"x\fy\" class=\"c d\" id=i lang=fr>a</p><a title=\"x y\" t=\"\">b</a><x-a title=\"x\ty\">c</x-a>"
		for i := 0; i < len(ctl) && hangs < maxHangs; i += 60 {
			j := i + 60
			if j > len(ctl) {
				j = len(ctl)
			}
			if c, ok := runDoc(ctlDoc, ctl[i:j], "ctl"); ok {
				w.Add(c)
			}
		}
	}

	// 2b. Specificity.Less / Add on pairs of triples (columns around 10, 100, 256, 1000, 65536)
	for k := 0; k < 6; k++ {
		w.Add(lessCase(rng.Fork(), 48))
	}

	// 3. random documents x random selectors; one case in five uses the boundary stream
	target := w.N() + *n
	for w.N() < target && hangs < maxHangs {
		r := rng.Fork()
		doc := genDoc(r)
		kind := "random"
		g := &sgen{r: r}
		if r.Chance(1, 5) {
			kind = "boundary"
			g.mal = true
		}
		var elems []*html.Node
		if root, err := html.Parse(strings.NewReader(doc)); err == nil {
			seen := map[string]bool{}
			walk(root, func(n *html.Node) {
				if n.Type == html.ElementNode {
					elems = append(elems, n)
					if !seen[n.Data] && n.Data != "html" && n.Data != "head" && n.Data != "body" {
						seen[n.Data] = true
						g.present = append(g.present, n.Data)
					}
				}
			})
		}
		sels := make([]string, *perDoc)
		for i := range sels {
			var s string
			damage := true
			switch {
			case len(elems) > 0 && i%2 == 1: // every other selector follows a real element of this tree
				s = g.guided(vlib.Pick(r, elems))
				if r.Chance(1, 5) {
					s += ", " + g.guided(vlib.Pick(r, elems))
				}
			case i%12 == 4: // competing :is/:not/:has arguments with a specificity column of 9..13 (rarely ~20, ~100, ~256)
				s = g.heavy()
				damage = false
			case i%12 == 8: // a pseudo-element at one position of a nested derivation (mostly invalid)
				s = g.invalidPE()
				damage = false
			case i%12 == 10 && r.Chance(1, 2): // unbalanced / malformed nesting
				s = g.unbalanced()
				damage = false
			default:
				s = g.group(r.Range(0, 3), true)
			}
			if g.mal && damage && r.Chance(1, 2) {
				s = mutate(r, s)
			}
			sels[i] = s
		}
		if c, ok := runDoc(doc, sels, kind); ok {
			w.Add(c)
		}
	}
}
