package main

import (
	"fmt"
	"os"
	"strings"

	"verifharness/vlib/render"
	"github.com/benoitkugler/webrender/svg"
)

func main() {
	for _, d := range os.Args[1:] {
		if strings.HasPrefix(d, "<") {
			o := render.Guard(func() {
				img, err := svg.Parse(strings.NewReader(d), "", nil, nil)
				fmt.Printf("%q -> err=%v\n", d, err)
				if err != nil {
					return
				}
				rec := render.NewRecorder()
				pg := rec.AddPage(0, 0, 100, 100)
				img.Draw(pg, 100, 100, nil)
				for _, e := range rec.Events {
					fmt.Println("   ", e)
				}
			})
			fmt.Println(o)
			continue
		}
		func() {
			defer func() {
				if r := recover(); r != nil {
					fmt.Printf("%q -> PANIC %v\n", d, r)
				}
			}()
			ops, err := svg.VerifParsePath(d)
			fmt.Printf("%q -> err=%v\n", d, err)
			for _, o := range ops {
				fmt.Printf("   %d %v\n", o.Kind, o.Args)
			}
		}()
	}
}
