package main

// Table probes: pseudo-documents whose "render" is a sweep over one of the
// tables the module keeps at package level, through its exported API.  They go
// through every comparison the real documents go through (repeated in one
// process, fresh processes with other predecessors, concurrently, after other
// documents vs alone, race detector), so a table whose content depends on what
// was asked before shows up whatever document would have been needed to reach
// that entry through a layout.
//
//	hyph      hyphen.NewHyphener(lang).Iterate(word) for the words derived from
//	          that dictionary's patterns (twice with one Hyphener: its own word
//	          cache, then with a new one: the shared dictionary)
//	counters  tree.UACounterStyle.RenderValue / RenderMarker for every predefined
//	          counter style over a range of values
//	quotes    text.GetLangQuotes for language tags, keys of the table or not

import (
	"fmt"
	"sort"
	"strings"

	"verifharness/vlib/render"

	pr "github.com/benoitkugler/webrender/css/properties"
	"github.com/benoitkugler/webrender/html/tree"
	"github.com/benoitkugler/webrender/text"
	"github.com/benoitkugler/webrender/text/hyphen"
)

func probeDocs() []Doc {
	var out []Doc
	for _, v := range loadVocabs() {
		w := append(append([]string{}, v.NonStd...), v.Words...)
		for _, x := range append([]string{}, w...) { // upper-case variants: another branch of IterateRunes
			if len(w) < 400 && len(x)%3 == 0 {
				w = append(w, strings.ToUpper(x))
			}
		}
		tags := []string{"probe", "probe-hyph", "hyph-lang:" + strings.ToLower(strings.SplitN(v.Tag, "-", 2)[0])}
		if len(v.NonStd) > 0 {
			tags = append(tags, "hyph-nonstandard-dic")
		}
		out = append(out, Doc{Name: "probe:hyph:" + v.Tag, Probe: "hyph", Lang: v.Tag, Words: w, Tags: tags})
	}
	out = append(out, Doc{Name: "probe:counters", Probe: "counters", Tags: []string{"probe", "probe-counters"}})
	var langs []string
	bases := []string{"", "en", "fr", "de", "it", "el", "bs", "sr", "ka", "kab", "kk", "kkj", "oc", "ti", "zh", "ja", "ru", "es", "pt", "nl", "hu", "uz", "yue", "zz"}
	for _, b := range bases {
		for _, s1 := range []string{"", "_CH", "_CA", "_ES", "_ER", "_Cyrl", "_Latn", "_POLYTON", "_Hant", "-CH"} {
			for _, s2 := range []string{"", "_x", "_1901"} {
				langs = append(langs, b+s1+s2)
			}
		}
	}
	out = append(out, Doc{Name: "probe:quotes", Probe: "quotes", Words: langs, Tags: []string{"probe", "probe-quotes"}})
	return out
}

// newHyphener calls hyphen.NewHyphener with a language tag held in a string
// (its parameter type, textlayout's language.Language, is a string type; the
// type parameter avoids a direct import of that module)
func newHyphener[L ~string](f func(L, int, int) hyphen.Hyphener, tag string, left, right int) hyphen.Hyphener {
	return f(L(strings.ToLower(strings.ReplaceAll(tag, "_", "-"))), left, right)
}

func probeTrace(d Doc) (tr Trace) {
	o := render.Guard(func() { tr = probeRaw(d) })
	if o.Status != "ok" {
		tr = Trace{Status: "panic", Msg: o.Site}
	}
	return tr
}

func probeRaw(d Doc) (tr Trace) {
	{
		tr.Status = "ok"
		switch d.Probe {
		case "hyph":
			h := newHyphener(hyphen.NewHyphener, d.Lang, 2, 2)
			for pass := 0; pass < 3; pass++ {
				if pass == 2 {
					h = newHyphener(hyphen.NewHyphener, d.Lang, 1, 1)
				}
				for _, w := range d.Words {
					tr.Events = append(tr.Events, fmt.Sprintf("%d %q -> %q", pass, w, h.Iterate(w)))
				}
			}
		case "counters":
			names := make([]string, 0, len(tree.UACounterStyle))
			for n := range tree.UACounterStyle {
				names = append(names, n)
			}
			sort.Strings(names)
			values := []int{-3, -1, 0, 1, 2, 3, 4, 5, 9, 10, 11, 12, 19, 20, 26, 27, 28, 49, 99, 100, 101, 399, 400, 999, 1000, 3999, 4000, 9999, 10000, 10001, 100000}
			for _, n := range names {
				for _, v := range values {
					tr.Events = append(tr.Events, fmt.Sprintf("%s %d %q %q", n, v, tree.UACounterStyle.RenderValue(v, n), tree.UACounterStyle.RenderMarker(pr.CounterStyleID{Name: n}, v)))
				}
			}
		case "quotes":
			for _, l := range d.Words {
				o, c := text.GetLangQuotes(l)
				tr.Events = append(tr.Events, fmt.Sprintf("%q %q %q", l, []string(o), []string(c)))
			}
		default:
			tr.Status, tr.Msg = "error", "unknown probe "+d.Probe
		}
	}
	return tr
}

// nonStandardSeen: how many words of a hyph probe had a hyphenation that is
// not a prefix of the word (a non-standard point was applied)
func nonStandardSeen(t Trace) int {
	n := 0
	for _, e := range t.Events {
		// `pass "word" -> ["pre1" "pre2"]`
		i := strings.Index(e, " -> ")
		if i < 0 || !strings.HasPrefix(e, "0 ") {
			continue
		}
		var w string
		if _, err := fmt.Sscanf(e[2:i], "%q", &w); err != nil {
			continue
		}
		rest := strings.Trim(e[i+4:], "[]")
		for _, p := range strings.Split(rest, "\" \"") {
			p = strings.Trim(p, "\"")
			if p != "" && !strings.HasPrefix(strings.ToLower(w), strings.ToLower(p)) {
				n++
				break
			}
		}
	}
	return n
}
