package main

import (
	"fmt"
	"testing"

	"verifharness/vlib"
	"verifharness/vlib/render"
)

func vlibRng() *vlib.Rng { return vlib.NewRng(7) }

func TestProbe(t *testing.T) {
	docs := []Doc{
		{Name: "twofloats", TestUA: true, HTML: `<style>@page{size:300px 220px;margin:24px} div{float:left;width:50px;height:400px}</style><body><div style="background:red"></div><div style="background:blue;width:70px"></div>`},
		{Name: "twotextfloats", TestUA: true, HTML: `<style>@page{size:300px 220px;margin:24px} html{font-family:weasyprint;font-size:10px} div{float:left;width:50px}</style><body><div style="background:red">`+lorem(vlibRng(), 60)+`</div><div style="background:blue;width:70px">`+lorem(vlibRng(), 80)+`</div>`},
		{Name: "onetextfloat", TestUA: true, HTML: `<style>@page{size:300px 220px;margin:24px} html{font-family:weasyprint;font-size:10px} div{float:left;width:50px}</style><body><div style="background:red">`+lorem(vlibRng(), 60)+`</div>`},
		{Name: "textfloat+fixed", TestUA: true, HTML: `<style>@page{size:300px 220px;margin:24px} html{font-family:weasyprint;font-size:10px} div{float:left;width:50px}</style><body><div style="background:red">`+lorem(vlibRng(), 60)+`</div><div style="background:blue;height:500px"></div>`},
	}
	for _, d := range docs {
		seen := map[[5]uint64]int{}
		var first Trace
		for i := 0; i < 20; i++ {
			tr := renderTrace(d, render.NewPango())
			if i == 0 {
				first = tr
			}
			if seen[tr.Digest()] == 0 && i > 0 {
				fmt.Println(firstDiff(first, tr))
			}
			seen[tr.Digest()]++
		}
		fmt.Println(d.Name, len(seen), seen)
	}
}
