package main

import (
	"fmt"
	"os"
	"strings"
	"testing"

	"verifharness/vlib"
	"verifharness/vlib/render"
)

func nondet(d Doc, k int) (bool, string) {
	ref := renderTrace(d, render.NewPango())
	for i := 1; i < k; i++ {
		tr := renderTrace(d, render.NewPango())
		if tr.Digest() != ref.Digest() {
			return true, firstDiff(ref, tr)
		}
	}
	return false, ""
}

func TestShrink(t *testing.T) {
	want := os.Getenv("DOC")
	rng := vlib.NewRng(vlib.Seed())
	var d Doc
	for i := 0; i < 100; i++ {
		d = genDoc(rng.Fork(), i)
		if d.Name == want {
			break
		}
	}
	i0 := strings.Index(d.HTML, "<body>") + 6
	i1 := strings.Index(d.HTML, "</body>")
	head, body, tail := d.HTML[:i0], d.HTML[i0:i1], d.HTML[i1:]
	blocks := strings.Split(body, "\n")
	mk := func(bl []string) Doc { e := d; e.HTML = head + strings.Join(bl, "\n") + tail; return e }
	ok, diff := nondet(mk(blocks), 16)
	fmt.Println("initial", ok, diff)
	if !ok {
		return
	}
	for changed := true; changed; {
		changed = false
		for i := 0; i < len(blocks); i++ {
			cand := append(append([]string{}, blocks[:i]...), blocks[i+1:]...)
			if ok, _ := nondet(mk(cand), 24); ok {
				blocks = cand
				changed = true
				i--
			}
		}
	}
	e := mk(blocks)
	_, diff = nondet(e, 40)
	fmt.Println("shrunk to", len(blocks), "blocks:", diff)
	fmt.Println(strings.Join(blocks, "\n"))
	fmt.Println("CSS", e.CSS, "testUA", e.TestUA)
}
