package main

// Canonical encoding of one full render (layout + Document.Write on the
// recording backend): every backend call with its arguments (float32 as bit
// patterns), the anchors per page IN THE ORDER the backend received them (map
// iteration order is the observable here), bookmarks and metadata.

import (
	"crypto/sha256"
	"encoding/binary"
	"fmt"
	"math"
	"sort"
	"strings"
	"sync"

	"verifharness/vlib/render"

	"github.com/benoitkugler/webrender/backend"
	"github.com/benoitkugler/webrender/html/document"
	"github.com/benoitkugler/webrender/html/tree"
	"github.com/benoitkugler/webrender/text"
	"github.com/benoitkugler/webrender/utils"
)

// Trace = the observable of one render, in sections
type Trace struct {
	Status    string     `json:"status"` // ok | panic | error
	Msg       string     `json:"msg,omitempty"`
	Pages     int        `json:"pages"`
	Events    []string   `json:"events"`
	Anchors   [][]Anchor `json:"anchors"`
	Bookmarks []string   `json:"bookmarks"`
	Meta      []string   `json:"meta"`
}

type Anchor struct {
	Name string  `json:"name"`
	X    float32 `json:"x"`
	Y    float32 `json:"y"`
}

func bits(f float32) string { return fmt.Sprintf("%08x", math.Float32bits(f)) }

func flatBookmarks(prefix string, l []backend.BookmarkNode, out *[]string) {
	for i, b := range l {
		p := fmt.Sprintf("%s%d", prefix, i)
		*out = append(*out, fmt.Sprintf("%s %q open=%v page=%d x=%s y=%s", p, b.Label, b.Open, b.PageIndex, bits(b.X), bits(b.Y)))
		flatBookmarks(p+".", b.Children, out)
	}
}

// user stylesheets are parsed once per process and the tree.CSS value is
// shared by every render that uses the same text (sequentially and
// concurrently), the way the user agent stylesheets are: a render must treat
// a stylesheet as an immutable input
var cssCache sync.Map

func parseShared(text string) (tree.CSS, error) {
	if v, ok := cssCache.Load(text); ok {
		return v.(tree.CSS), nil
	}
	c, err := render.ParseCSS(text)
	if err != nil {
		return tree.CSS{}, err
	}
	v, _ := cssCache.LoadOrStore(text, c)
	return v.(tree.CSS), nil
}

func renderDoc(d Doc, fonts text.FontConfiguration) (*document.Document, error) {
	doc, err := render.ParseHTML(d.HTML, d.TestUA, utils.DefaultUrlFetcher)
	if err != nil {
		return nil, err
	}
	var sheets []tree.CSS
	for _, s := range d.CSS {
		c, err := parseShared(s)
		if err != nil {
			return nil, err
		}
		sheets = append(sheets, c)
	}
	rd := document.Render(doc, sheets, d.Hints, fonts)
	return &rd, nil
}

// traceOfRecorder turns what the recording backend received into a Trace.
// Everything is COPIED out of the recorder (the anchors slice handed to
// CreateAnchors is the implementation's own: a later Write of the same Document
// could alias it), so a Trace is a snapshot taken right after the Write.
func traceOfRecorder(rec *render.Recorder) (tr Trace) {
	tr.Status = "ok"
	tr.Pages = rec.Pages
	for _, e := range rec.Events {
		var sb strings.Builder
		fmt.Fprintf(&sb, "%d %d %s %q", e.Page, e.Depth, e.Op, e.S)
		for _, a := range e.Args {
			sb.WriteByte(' ')
			sb.WriteString(bits(a))
		}
		tr.Events = append(tr.Events, sb.String())
	}
	for _, pa := range rec.Anchors {
		l := []Anchor{}
		for _, a := range pa {
			l = append(l, Anchor{a.Name, a.X, a.Y})
		}
		tr.Anchors = append(tr.Anchors, l)
	}
	flatBookmarks("", rec.Bookmarks, &tr.Bookmarks)
	keys := make([]string, 0, len(rec.Meta))
	for k := range rec.Meta {
		keys = append(keys, k)
	}
	sort.Strings(keys)
	for _, k := range keys {
		tr.Meta = append(tr.Meta, k+"="+rec.Meta[k])
	}
	// attachments handed to SetAttachments (none for most documents: no line)
	for i, a := range rec.Attach {
		tr.Meta = append(tr.Meta, fmt.Sprintf("attachment[%d]=%q %q %d %x", i, a.Title, a.Description, len(a.Content), sha256.Sum256(a.Content)))
	}
	return tr
}

// renderTrace runs /repo's full pipeline on one document
func renderTrace(d Doc, fonts text.FontConfiguration) (tr Trace) {
	if d.Probe != "" {
		return probeTrace(d)
	}
	o := render.Guard(func() {
		rd, err := renderDoc(d, fonts)
		if err != nil {
			tr.Status, tr.Msg = "error", err.Error()
			return
		}
		tr = traceOfRecorder(render.Draw(rd, 1))
	})
	if o.Status != "ok" {
		// a panic is an observable too (C01 owns "never panics"; here only: same outcome every time)
		tr = Trace{Status: "panic", Msg: o.Site}
	}
	return tr
}

func h64(lines []string) uint64 {
	h := sha256.New()
	for _, l := range lines {
		h.Write([]byte(l))
		h.Write([]byte{'\n'})
	}
	return binary.BigEndian.Uint64(h.Sum(nil)[:8])
}

func (t Trace) anchorLines() []string {
	var out []string
	for i, pa := range t.Anchors {
		for _, a := range pa {
			out = append(out, fmt.Sprintf("%d %q %s %s", i, a.Name, bits(a.X), bits(a.Y)))
		}
		out = append(out, "--")
	}
	return out
}

// Digest: one 64-bit hash per section [status+pages, events, anchors, bookmarks, meta]
func (t Trace) Digest() [5]uint64 {
	return [5]uint64{
		h64([]string{t.Status, t.Msg, fmt.Sprint(t.Pages)}),
		h64(t.Events), h64(t.anchorLines()), h64(t.Bookmarks), h64(t.Meta),
	}
}

var sectionNames = [5]string{"status/pages", "backend events", "anchors", "bookmarks", "metadata"}

func (t Trace) section(i int) []string {
	switch i {
	case 0:
		return []string{t.Status, t.Msg, fmt.Sprint(t.Pages)}
	case 1:
		return t.Events
	case 2:
		return t.anchorLines()
	case 3:
		return t.Bookmarks
	default:
		return t.Meta
	}
}

// firstDiff describes the first difference between two traces (for replays)
func firstDiff(a, b Trace) string {
	for s := 0; s < 5; s++ {
		la, lb := a.section(s), b.section(s)
		n := len(la)
		if len(lb) < n {
			n = len(lb)
		}
		for i := 0; i < n; i++ {
			if la[i] != lb[i] {
				return fmt.Sprintf("%s, entry %d: %q vs %q", sectionNames[s], i, la[i], lb[i])
			}
		}
		if len(la) != len(lb) {
			return fmt.Sprintf("%s: %d vs %d entries", sectionNames[s], len(la), len(lb))
		}
	}
	return ""
}
