package main

// Stream "rewrite-same-doc": state kept ON the document.Document.
//
// Every other stream renders the HTML source again (a fresh Document each time),
// so whatever a Write leaves behind in the Document it wrote (a memoised
// resolveLinks whose result Write scales in place, a page painted into its own
// boxes, ...) never shows.  Here ONE Document is built and written four times,
// each time on a fresh recording backend:
//
//	#1 zoom 1   #2 zoom 1   #3 zoom z (z != 1)   #4 zoom 1
//
// Write is a function of (Document, zoom): #2 and #4 must equal #1, and #3 must
// equal the FIRST write at zoom z of a fresh Document of the same source.  The
// traces are snapshots taken right after each Write (traceOfRecorder copies the
// anchors out of the recorder, which only holds the implementation's slice).

import (
	"fmt"
	"strings"

	"verifharness/vlib"
	"verifharness/vlib/render"
)

type rewriteResult struct {
	W      [4]Trace // the four writes of the one Document
	Fresh  Trace    // first write at zoom z of a fresh Document
	Zoom   render.Fl
	Status string
}

var rewriteZooms = []render.Fl{2, 0.5, 1.5, 3, 0.8}

func rewriteTraces(d Doc, zoom render.Fl) (res rewriteResult) {
	res.Zoom = zoom
	panicTrace := func(o render.Outcome) Trace { return Trace{Status: "panic", Msg: o.Site} }
	var writes [4]Trace
	o := render.Guard(func() {
		rd, err := renderDoc(d, fontsFor(d))
		if err != nil {
			for i := range writes {
				writes[i] = Trace{Status: "error", Msg: err.Error()}
			}
			return
		}
		for i, z := range []render.Fl{1, 1, zoom, 1} {
			k, z := i, z
			oo := render.Guard(func() { writes[k] = traceOfRecorder(render.Draw(rd, z)) })
			if oo.Status != "ok" {
				writes[k] = panicTrace(oo)
			}
		}
	})
	if o.Status != "ok" { // the layout itself panicked: same outcome for all
		for i := range writes {
			writes[i] = panicTrace(o)
		}
	}
	res.W = writes
	o = render.Guard(func() {
		rd, err := renderDoc(d, fontsFor(d))
		if err != nil {
			res.Fresh = Trace{Status: "error", Msg: err.Error()}
			return
		}
		res.Fresh = traceOfRecorder(render.Draw(rd, zoom))
	})
	if o.Status != "ok" {
		res.Fresh = panicTrace(o)
	}
	return res
}

// diffTags: which sections / call kinds differ (for known-finding matchers)
func diffTags(a, b Trace) []string {
	var out []string
	da, db := a.Digest(), b.Digest()
	for s := 0; s < 5; s++ {
		if da[s] != db[s] {
			out = append(out, "differs:"+strings.ReplaceAll(sectionNames[s], " ", "-"))
		}
	}
	if da[1] != db[1] {
		n := len(a.Events)
		if len(b.Events) < n {
			n = len(b.Events)
		}
		for i := 0; i < n; i++ {
			if a.Events[i] != b.Events[i] {
				f := strings.Fields(a.Events[i])
				if len(f) > 2 {
					out = append(out, "differs-call:"+f[2])
				}
				break
			}
		}
	}
	return out
}

// eventText splits a recorded event into (everything but the quoted string, the string)
func eventText(e string) (rest, txt string, ok bool) {
	i := strings.IndexByte(e, '"')
	j := strings.LastIndexByte(e, '"')
	if i < 0 || j <= i {
		return "", "", false
	}
	var s string
	if _, err := fmt.Sscanf(e[i:j+1], "%q", &s); err != nil {
		return "", "", false
	}
	return e[:i] + e[j+1:], s, true
}

// onlyEllipsisAppended: the document uses block-ellipsis; the two traces differ
// ONLY in DrawText calls (same count of events, every other section equal) whose
// position / size / page / depth are equal and whose later text ends with the
// ellipsis twice (E+E, E a non-empty suffix of the earlier text): the drawing
// code appends the ellipsis to the line's own pango layout each time it is drawn.
func onlyEllipsisAppended(d Doc, a, b Trace) bool {
	if !strings.Contains(d.HTML+strings.Join(d.CSS, " "), "block-ellipsis") {
		return false
	}
	da, db := a.Digest(), b.Digest()
	if da[0] != db[0] || da[2] != db[2] || da[3] != db[3] || da[4] != db[4] || len(a.Events) != len(b.Events) {
		return false
	}
	n := 0
	for i := range a.Events {
		if a.Events[i] == b.Events[i] {
			continue
		}
		ra, ta, oka := eventText(a.Events[i])
		rb, tb, okb := eventText(b.Events[i])
		if !oka || !okb || ra != rb || !strings.Contains(ra, " DrawText ") {
			return false
		}
		found := false
		for k := 1; k <= len(ta) && 2*k <= len(tb); k++ {
			e := ta[len(ta)-k:]
			if strings.HasSuffix(tb, e+e) {
				found = true
				break
			}
		}
		if !found {
			return false
		}
		n++
	}
	return n > 0
}

func traceCounts(t Trace) map[string]int {
	m := map[string]int{"anchors": 0, "bookmarks": len(t.Bookmarks), "pages": t.Pages}
	for _, p := range t.Anchors {
		m["anchors"] += len(p)
	}
	for _, e := range t.Events {
		f := strings.Fields(e)
		if len(f) > 2 {
			switch f[2] {
			case "AddInternalLink", "AddExternalLink", "AddFileAnnotation", "EmbedFile":
				m[f[2]]++
			}
		}
	}
	return m
}

const rewriteKind = 4

func rewriteCases(w *vlib.Writer, d Doc, res rewriteResult) {
	withTags := func(extra ...string) Doc {
		dd := d
		dd.Tags = append(append([]string{"rewrite-same-doc"}, d.Tags...), extra...)
		return dd
	}
	// same zoom: #2 and #4 against #1
	var tags []string
	diff := firstDiff(res.W[0], res.W[1])
	if diff != "" {
		tags = append(tags, "write2-differs")
		tags = append(tags, diffTags(res.W[0], res.W[1])...)
	}
	if d2, d4 := res.W[0].Digest() != res.W[1].Digest(), res.W[0].Digest() != res.W[3].Digest(); (d2 || d4) &&
		(!d2 || onlyEllipsisAppended(d, res.W[0], res.W[1])) && (!d4 || onlyEllipsisAppended(d, res.W[0], res.W[3])) {
		tags = append(tags, "only-block-ellipsis-appended")
	}
	if d4 := firstDiff(res.W[0], res.W[3]); d4 != "" {
		tags = append(tags, "write4-differs")
		if diff == "" {
			diff = d4
			tags = append(tags, diffTags(res.W[0], res.W[3])...)
		}
	}
	c := sameCase(rewriteKind, fmt.Sprintf("ONE document.Document written 4 times on fresh recording backends (zoom 1, 1, %v, 1): writes #2 and #4 vs write #1", res.Zoom),
		withTags(tags...), res.W[0], res.W[0].Digest(), [][5]uint64{res.W[1].Digest(), res.W[3].Digest()}, diff)
	c.Key = "rewrite/" + d.Name
	c.Nontrivial = c.Nontrivial && traceCounts(res.W[0])["anchors"] > 0
	if sd, ok := c.Desc.(sameDesc); ok {
		sd.Counts = traceCounts(res.W[0])
		c.Desc = sd
	}
	w.Add(c)
	// other zoom: #3 (Document already written twice) against the first write of a fresh Document
	tags = nil
	diff = firstDiff(res.Fresh, res.W[2])
	if diff != "" {
		tags = append(tags, "write3-differs")
		tags = append(tags, diffTags(res.Fresh, res.W[2])...)
		if onlyEllipsisAppended(d, res.Fresh, res.W[2]) {
			tags = append(tags, "only-block-ellipsis-appended")
		}
	}
	c = sameCase(rewriteKind, fmt.Sprintf("write #3 at zoom %v of a document.Document already written twice at zoom 1 vs the first write at zoom %v of a fresh Document of the same source", res.Zoom, res.Zoom),
		withTags(append(tags, "other-zoom")...), res.Fresh, res.Fresh.Digest(), [][5]uint64{res.W[2].Digest()}, diff)
	c.Key = "rewrite-zoom/" + d.Name
	c.Nontrivial = c.Nontrivial && traceCounts(res.Fresh)["anchors"] > 0
	w.Add(c)
}

// ------------------------------------------------------------------ documents of the stream

// genRewriteDoc: several pages; headings h1-h6 (bookmarks of the UA sheet) and
// bookmark-level/-label rules; ids, `anchor: attr(..)`; internal links (forward,
// backward, dangling, through `link: attr(..)`), external links; links and
// anchors inside transformed boxes (gatherLinksAndBookmarks applies the
// matrix); optionally attachments (<link rel=attachment>, <a rel=attachment>).
func genRewriteDoc(r *vlib.Rng, i int) Doc {
	tags := map[string]bool{"links-doc": true}
	var ids []string
	nSec := r.Range(3, 7)
	for s := 0; s < nSec; s++ {
		ids = append(ids, fmt.Sprintf("%s%d", vlib.Pick(r, []string{"t", "sec", "Z", "a_", "m"}), s*7%11+s))
	}
	anyID := func() string { return vlib.Pick(r, ids) }
	var body strings.Builder
	link := func() string {
		switch r.Intn(6) {
		case 0:
			tags["external-link"] = true
			return fmt.Sprintf(`<a href="http://example.test/%s?q=%d">%s</a>`, vlib.Pick(r, words), r.Intn(90), vlib.Pick(r, words))
		case 1:
			tags["link-property"] = true
			return fmt.Sprintf(`<span class="lk" data-l="#%s">%s</span>`, anyID(), vlib.Pick(r, words))
		case 2:
			if r.Chance(1, 3) {
				return `<a href="#nowhere">dangling</a>`
			}
			fallthrough
		default:
			tags["internal-link"] = true
			return fmt.Sprintf(`<a href="#%s">to %s</a>`, anyID(), vlib.Pick(r, words))
		}
	}
	for s := 0; s < nSec; s++ {
		lvl := r.Range(1, 6)
		if s == 0 {
			lvl = 1
		}
		fmt.Fprintf(&body, `<h%d id="%s">%s %d</h%d>`, lvl, ids[s], lorem(r, r.Range(1, 3)), s, lvl)
		for p := r.Range(1, 4); p > 0; p-- {
			cls := vlib.Pick(r, []string{"", "bm", "an", ""})
			attr := ""
			switch cls {
			case "an":
				tags["anchor-property"] = true
				attr = fmt.Sprintf(` data-a="n%d_%d"`, s, p)
				ids = append(ids, fmt.Sprintf("n%d_%d", s, p))
			case "bm":
				tags["bookmark-level"] = true
			case "":
				if r.Bool() {
					attr = fmt.Sprintf(` id="p%d_%d"`, s, p)
					ids = append(ids, fmt.Sprintf("p%d_%d", s, p))
				}
			}
			style := ""
			if r.Chance(1, 4) {
				tags["transformed"] = true
				style = fmt.Sprintf(` style="transform: %s; margin-left: %dpx"`,
					vlib.Pick(r, []string{"rotate(8deg)", "scale(0.8, 1.2)", "translate(13px, 5px)", "matrix(1, 0.1, -0.1, 1, 4, 2)"}), r.Intn(30))
			}
			fmt.Fprintf(&body, `<p class="%s"%s%s>%s %s %s %s</p>`, cls, attr, style, lorem(r, r.Range(2, 14)), link(), lorem(r, r.Range(0, 8)), link())
		}
		if r.Chance(1, 3) {
			fmt.Fprintf(&body, `<div style="break-before: page"></div>`)
		}
	}
	head := ""
	if r.Chance(1, 2) {
		tags["attachments"] = true
		head = fmt.Sprintf(`<link rel="attachment" href="data:text/plain,attached%d" title="att %d">`, i, i)
		fmt.Fprintf(&body, `<p><a rel="attachment" href="data:text/plain,file%d">file %s</a></p>`, i, vlib.Pick(r, words))
	}
	css := fmt.Sprintf(`@page { size: %dpx %dpx; margin: %dpx %dpx; %s }
html { font-family: weasyprint; font-size: %dpx; line-height: 1.3 }
h1, h2, h3, h4, h5, h6 { margin: 4px 0; font-size: 1.2em }
p { margin: 3px 0 }
p.bm { bookmark-level: %d; bookmark-label: "par " content(before) content() }
p.an { anchor: attr(data-a) }
span.lk { link: attr(data-l); color: green }
a { color: blue }`,
		r.Range(200, 320), r.Range(140, 260), r.Range(10, 30), r.Range(10, 30),
		vlib.Pick(r, []string{"", "bleed: 6px; marks: crop", "@bottom-center { content: counter(page) }"}),
		vlib.Pick(r, []int{9, 10, 11, 12}), r.Range(1, 4))
	d := Doc{Name: fmt.Sprintf("links%d", i), TestUA: false, Hints: r.Chance(1, 3)}
	d.HTML = fmt.Sprintf(`<!DOCTYPE html><html lang="en"><head><title>%s</title><meta name="author" content="L %d">%s<style>%s</style></head><body>%s</body></html>`,
		lorem(r, 2), i, head, css, body.String())
	for t := range tags {
		d.Tags = append(d.Tags, t)
	}
	sortStrings(d.Tags)
	return d
}

// rewriteStream: the dedicated link documents + every generated / corpus document
func rewriteDocs(docs []Doc, nLinks int) []Doc {
	rng := vlib.NewRng(vlib.Seed() ^ 0x5a3ed0c)
	var all []Doc
	for i := 0; i < nLinks; i++ {
		all = append(all, genRewriteDoc(rng.Fork(), i))
	}
	for _, d := range docs {
		if d.Probe == "" {
			all = append(all, d)
		}
	}
	return all
}

func rewriteStream(w *vlib.Writer, docs []Doc, nLinks int) {
	rng := vlib.NewRng(vlib.Seed() ^ 0xd0c5a3e)
	for i, d := range rewriteDocs(docs, nLinks) {
		zoom := rewriteZooms[(i+rng.Intn(len(rewriteZooms)))%len(rewriteZooms)]
		rewriteCases(w, d, rewriteTraces(d, zoom))
	}
}
