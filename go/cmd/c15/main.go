// probe version
package main

import (
	"flag"
	"fmt"
	"time"

	"verifharness/vlib"
	"verifharness/vlib/render"
)

func main() {
	n := flag.Int("n", 20, "docs")
	k := flag.Int("k", 5, "repeats")
	flag.Parse()
	rng := vlib.NewRng(vlib.Seed())
	for i := 0; i < *n; i++ {
		d := genDoc(rng.Fork(), i)
		t0 := time.Now()
		ref := renderTrace(d, render.NewPango())
		el := time.Since(t0)
		diffs := 0
		first := ""
		for j := 1; j < *k; j++ {
			t := renderTrace(d, render.NewPango())
			if t.Digest() != ref.Digest() {
				diffs++
				if first == "" {
					first = firstDiff(ref, t)
				}
			}
		}
		na := 0
		for _, p := range ref.Anchors {
			na += len(p)
		}
		fmt.Printf("%s %s %s pages=%d events=%d anchors=%d bm=%d %v tags=%v diffs=%d %s\n", d.Name, ref.Status, ref.Msg, ref.Pages, len(ref.Events), na, len(ref.Bookmarks), el, d.Tags, diffs, first)
	}
}
