// Harness for C15 "Rendering is deterministic and renders do not interfere".
//
// Runs /repo's full pipeline (tree.NewHTML -> document.Render -> Write on the
// recording backend) on generated paginated documents and compares complete
// traces (every backend call with its arguments, anchors per page in the order
// the backend got them, bookmarks, metadata):
//
//	kind 0  the same document rendered k=5 times in one process
//	kind 1  ... in different fresh processes (re-exec of this binary)
//	kind 2  N=8 distinct documents rendered concurrently, each goroutine with
//	        its own font configuration, vs their sequential traces
//	kind 3  history: the document alone in a fresh process vs after other documents
//
// plus direct cases for the modelled map-iteration sites: the anchors the
// backend received (CAnchors), tree.ResumeStack.Unpack (CUnpack) and histories
// on layout.brokenOutOfFlowMap through the hook html/layout/verif_export_c15.go
// (COMap).  With -mode race (binary built with -race) it only runs the
// concurrent batches; the race detector's reports are collected by checks/C15.py.
package main

import (
	"encoding/json"
	"flag"
	"fmt"
	"os"
	"os/exec"
	"path/filepath"
	"regexp"
	"runtime/debug"
	"sort"
	"strings"
	"sync"
	"time"

	"verifharness/vlib"
	"verifharness/vlib/render"

	"github.com/benoitkugler/webrender/html/layout"
	"github.com/benoitkugler/webrender/html/tree"
	"github.com/benoitkugler/webrender/text"
)

// ------------------------------------------------------------------ child protocol

type Job struct {
	Docs []Doc    `json:"docs"`
	Plan [][2]int `json:"plan"` // (doc index, repeats), in order
}

type Rendered struct {
	Doc     int         `json:"doc"`
	Digests [][5]uint64 `json:"digests"`
	First   Trace       `json:"first"`           // full trace of the first render
	Other   *Trace      `json:"other,omitempty"` // first render whose digest differs from First
}

func childMain(in, out string) {
	b, err := os.ReadFile(in)
	if err != nil {
		panic(err)
	}
	var job Job
	if err := json.Unmarshal(b, &job); err != nil {
		panic(err)
	}
	var res []Rendered
	for _, p := range job.Plan {
		r := Rendered{Doc: p[0]}
		for k := 0; k < p[1]; k++ {
			t := renderTrace(job.Docs[p[0]], fontsFor(job.Docs[p[0]]))
			d := t.Digest()
			if k == 0 {
				r.First = t
			} else if d != r.Digests[0] && r.Other == nil {
				tt := t
				r.Other = &tt
			}
			r.Digests = append(r.Digests, d)
		}
		res = append(res, r)
	}
	ob, _ := json.Marshal(res)
	if err := os.WriteFile(out, ob, 0o644); err != nil {
		panic(err)
	}
}

// runJobs executes every job in its own fresh process, `par` at a time
func runJobs(jobs []Job, dir, tag string, par int) [][]Rendered {
	exe, _ := os.Executable()
	out := make([][]Rendered, len(jobs))
	sem := make(chan struct{}, par)
	var wg sync.WaitGroup
	var mu sync.Mutex
	var firstErr error
	for i := range jobs {
		wg.Add(1)
		go func(i int) {
			defer wg.Done()
			sem <- struct{}{}
			defer func() { <-sem }()
			in := filepath.Join(dir, fmt.Sprintf("job-%s-%d.in.json", tag, i))
			of := filepath.Join(dir, fmt.Sprintf("job-%s-%d.out.json", tag, i))
			b, _ := json.Marshal(jobs[i])
			os.WriteFile(in, b, 0o644)
			cmd := exec.Command(exe, "-child", in, "-childout", of)
			cmd.Env = os.Environ()
			if o, err := cmd.CombinedOutput(); err != nil {
				mu.Lock()
				if firstErr == nil {
					firstErr = fmt.Errorf("child %s-%d: %v\n%s", tag, i, err, tail(string(o), 3000))
				}
				mu.Unlock()
				return
			}
			rb, err := os.ReadFile(of)
			if err == nil {
				err = json.Unmarshal(rb, &out[i])
			}
			if err != nil {
				mu.Lock()
				if firstErr == nil {
					firstErr = err
				}
				mu.Unlock()
			}
			os.Remove(in)
			os.Remove(of)
		}(i)
	}
	wg.Wait()
	if firstErr != nil {
		fmt.Fprintln(os.Stderr, firstErr)
		os.Exit(3)
	}
	return out
}

// fontsFor: a fresh font configuration per render (none for a table probe)
func fontsFor(d Doc) text.FontConfiguration {
	if d.Probe != "" {
		return nil
	}
	return render.NewFonts(d.Engine)
}

func debugStack() []byte { return debug.Stack() }

func tail(s string, n int) string {
	if len(s) > n {
		return s[len(s)-n:]
	}
	return s
}

// ------------------------------------------------------------------ documents

func loadCorpus() []Doc {
	files, _ := filepath.Glob("/verif/corpus/C15/*.json")
	sort.Strings(files)
	var out []Doc
	for _, f := range files {
		b, err := os.ReadFile(f)
		if err != nil {
			continue
		}
		var d Doc
		if json.Unmarshal(b, &d) == nil && d.HTML != "" {
			out = append(out, d)
		}
	}
	return out
}

// makeDocs: corpus first, then n generated documents interleaved with the
// table probes (so that fresh-process chunks mix both kinds: a probe before a
// document = that table was used before the render)
func makeDocs(n int) []Doc {
	docs := loadCorpus()
	rng := vlib.NewRng(vlib.Seed())
	var gen []Doc
	nGen := n - 3 // the corpus had 3 documents when the tier sizes were chosen
	for i := 0; i < nGen; i++ {
		d := genDoc(rng.Fork(), i)
		gen = append(gen, d)
		// a sibling: the same document with another root font size, rendered
		// next with the same (shared) user stylesheets -- whatever a render
		// leaves behind in a stylesheet object (an em resolved in place) is
		// wrong for the sibling
		if len(d.CSS) > 0 && rng.Chance(1, 3) {
			if sib, ok := sibling(d, rng); ok {
				gen = append(gen, sib)
			}
		}
	}
	probes := probeDocs()
	// probes in a seed-dependent order
	for i := len(probes) - 1; i > 0; i-- {
		j := rng.Intn(i + 1)
		probes[i], probes[j] = probes[j], probes[i]
	}
	for i := 0; i < len(gen) || i < len(probes); i++ {
		if i < len(gen) {
			docs = append(docs, gen[i])
		}
		if i < len(probes) {
			docs = append(docs, probes[i])
		}
	}
	return docs
}

var rootFontRe = regexp.MustCompile(`html \{ font-size: (\d+)px \}`)

func sibling(d Doc, rng *vlib.Rng) (Doc, bool) {
	m := rootFontRe.FindStringSubmatch(d.HTML)
	if m == nil {
		return d, false
	}
	var size int
	fmt.Sscanf(m[1], "%d", &size)
	sib := d
	sib.Name = d.Name + "-sib"
	sib.HTML = strings.Replace(d.HTML, m[0], fmt.Sprintf("html { font-size: %dpx }", size+rng.Range(2, 5)), 1)
	sib.Tags = append(append([]string{}, d.Tags...), "sibling")
	return sib, true
}

// ------------------------------------------------------------------ Coq printers

func coqDigest(d [5]uint64) string {
	s := make([]string, 5)
	for i, x := range d {
		s[i] = fmt.Sprintf("%d", x)
	}
	return "[" + strings.Join(s, "; ") + "]"
}

func coqAnchors(t Trace) string {
	pages := make([]string, len(t.Anchors))
	for i, p := range t.Anchors {
		as := make([]string, len(p))
		for j, a := range p {
			as[j] = fmt.Sprintf("An %s %s %s", vlib.Bytes(a.Name), vlib.Q32(a.X), vlib.Q32(a.Y))
		}
		pages[i] = vlib.List(as)
	}
	return "CAnchors " + vlib.List(pages)
}

type sameDesc struct {
	Doc      string         `json:"doc"`
	Tags     []string       `json:"tags"`
	Compared string         `json:"compared"`
	Runs     int            `json:"runs"`
	Status   string         `json:"status"`
	Pages    int            `json:"pages"`
	Events   int            `json:"events"`
	Diff     string         `json:"first_difference,omitempty"`
	Counts   map[string]int `json:"counts,omitempty"` // rewrite stream: anchors / links / bookmarks of the reference write
	Input    *Doc           `json:"input,omitempty"`  // full document when a run differs (the failing input)
}

func sameCase(kind int, what string, d Doc, ref Trace, refD [5]uint64, runs [][5]uint64, diff string) vlib.Case {
	rs := make([]string, len(runs))
	differs := false
	for i, r := range runs {
		rs[i] = coqDigest(r)
		if r != refD {
			differs = true
		}
	}
	desc := sameDesc{Doc: d.Name, Tags: d.Tags, Compared: what, Runs: len(runs), Status: ref.Status, Pages: ref.Pages, Events: len(ref.Events)}
	if differs {
		desc.Diff = diff
		dd := d
		desc.Input = &dd
	}
	kinds := []string{"repeat", "fresh-process", "concurrent", "history", "rewrite"}
	return vlib.Case{Kind: kinds[kind], Coq: fmt.Sprintf("CSame %d %s %s", kind, coqDigest(refD), vlib.List(rs)),
		Desc: desc, Tags: d.Tags, Nontrivial: ref.Status == "ok" && len(ref.Events) > 50, Key: fmt.Sprintf("%s/%s", kinds[kind], d.Name)}
}

// ------------------------------------------------------------------ concurrent batches

// renderBatch renders the documents concurrently, one goroutine and one font
// configuration each
func renderBatch(docs []Doc) []Trace {
	out := make([]Trace, len(docs))
	var wg sync.WaitGroup
	start := make(chan struct{})
	for i := range docs {
		wg.Add(1)
		go func(i int) {
			defer wg.Done()
			fonts := fontsFor(docs[i])
			<-start
			out[i] = renderTrace(docs[i], fonts)
		}(i)
	}
	close(start)
	wg.Wait()
	return out
}

const batchN = 8

// ------------------------------------------------------------------ direct site cases

func unpackCases(w *vlib.Writer, rng *vlib.Rng) {
	stacks := [][]int{{}, {0}, {3}, {0, 2}, {1, 5, 7}, {0, 1, 2, 3}, {4, 9}, {2}}
	for i := 0; i < 12; i++ {
		var keys []int
		if i < len(stacks) {
			keys = stacks[i]
		} else {
			seen := map[int]bool{}
			for n := rng.Range(1, 5); len(keys) < n; {
				k := rng.Intn(12)
				if !seen[k] {
					seen[k] = true
					keys = append(keys, k)
				}
			}
		}
		var results []int
		distinct := map[int]bool{}
		for c := 0; c < 64; c++ {
			r := tree.ResumeStack{}
			for _, k := range keys { // built afresh each time
				r[k] = nil
			}
			var got int
			o := render.Guard(func() { got, _ = r.Unpack() })
			if o.Status != "ok" {
				got = -1
			}
			results = append(results, got)
			distinct[got] = true
		}
		ks, rs := make([]string, len(keys)), make([]string, len(results))
		for j, k := range keys {
			ks[j] = vlib.Z(k) + "%Z"
		}
		for j, r := range results {
			rs[j] = vlib.Z(r) + "%Z"
		}
		tags := []string{fmt.Sprintf("keys-%d", len(keys))}
		if len(distinct) > 1 {
			tags = append(tags, "order-observed") // the refutation witness replayed on Go
		}
		w.Add(vlib.Case{Kind: "unpack", Coq: fmt.Sprintf("CUnpack %s %s", vlib.List(ks), vlib.List(rs)),
			Desc: map[string]interface{}{"stack_keys": keys, "distinct_results_in_64_calls": len(distinct)}, Tags: tags, Nontrivial: len(keys) > 0})
	}
}

func omapCases(w *vlib.Writer, rng *vlib.Rng, n int) {
	const pool = 8
	for c := 0; c < n; c++ {
		r := rng.Fork()
		var ops []layout.VerifBrokenMapOp
		var coq []string
		for i := r.Range(1, 14); i > 0; i-- {
			switch k := r.Intn(10); {
			case k < 5:
				op := layout.VerifBrokenMapOp{Kind: 0, K: r.Intn(pool), V: r.Intn(pool)}
				ops = append(ops, op)
				coq = append(coq, fmt.Sprintf("OSet %d %d", op.K, op.V))
			case k < 7:
				op := layout.VerifBrokenMapOp{Kind: 1, K: r.Intn(pool)}
				ops = append(ops, op)
				coq = append(coq, fmt.Sprintf("ODelete %d", op.K))
			case k == 7 && r.Chance(1, 3):
				ops = append(ops, layout.VerifBrokenMapOp{Kind: 2})
				coq = append(coq, "OClear")
			default:
				op := layout.VerifBrokenMapOp{Kind: 3}
				var o []string
				for j := r.Range(0, 4); j > 0; j-- {
					kv := [2]int{r.Intn(pool), r.Intn(pool)}
					op.Other = append(op.Other, kv)
					o = append(o, fmt.Sprintf("(%d, %d)", kv[0], kv[1]))
				}
				ops = append(ops, op)
				coq = append(coq, "OUpdate "+vlib.List(o))
			}
		}
		vals := layout.VerifBrokenMapRun(ops, pool)
		vs := make([]string, len(vals))
		for i, v := range vals {
			vs[i] = fmt.Sprintf("%d", v)
		}
		w.Add(vlib.Case{Kind: "omap", Coq: fmt.Sprintf("COMap %s %s", vlib.List(coq), vlib.List(vs)),
			Desc: map[string]interface{}{"ops": ops, "values": vals}, Nontrivial: len(ops) > 2})
	}
}

// ------------------------------------------------------------------ race detector

// raceCase runs the second binary (built with -race by checks/C15.py, path in
// VERIF_C15_RACE_BIN) on the concurrent batches and turns the detector's
// reports into one CRace case.
type raceRun struct {
	bin, n, rounds string
	t0             time.Time
	done           chan struct{}
	out            string
	err            error
}

// startRace launches the -race binary in the background (it is independent of
// the comparisons of this process); finishRace waits for it
func startRace() *raceRun {
	bin := os.Getenv("VERIF_C15_RACE_BIN")
	if bin == "" {
		return nil
	}
	r := &raceRun{bin: bin, n: os.Getenv("VERIF_C15_RACE_N"), rounds: os.Getenv("VERIF_C15_RACE_ROUNDS"), t0: time.Now(), done: make(chan struct{})}
	if r.n == "" {
		r.n = "16"
	}
	if r.rounds == "" {
		r.rounds = "1"
	}
	go func() {
		cmd := exec.Command(bin, "-mode", "race", "-n", r.n, "-rounds", r.rounds)
		cmd.Env = append(os.Environ(), "GORACE=halt_on_error=0")
		ob, err := cmd.CombinedOutput()
		r.out, r.err = string(ob), err
		close(r.done)
	}()
	return r
}

func (r *raceRun) finish(w *vlib.Writer) {
	if r == nil {
		return
	}
	<-r.done
	bin, n, rounds, t0 := r.bin, r.n, r.rounds, r.t0
	outS, err := r.out, r.err
	if err != nil && !strings.Contains(outS, "race-mode: rendered") {
		fmt.Fprintf(os.Stderr, "race binary failed: %v\n%s\n", err, tail(outS, 3000))
		os.Exit(4)
	}
	blocks := strings.Split(outS, "==================")
	var reports []map[string]interface{}
	for _, b := range blocks {
		if !strings.Contains(b, "WARNING: DATA RACE") {
			continue
		}
		var frames []string
		for _, l := range strings.Split(b, "\n") {
			l = strings.TrimSpace(l)
			if strings.HasPrefix(l, "/repo/") {
				if i := strings.Index(l, " "); i > 0 {
					l = l[:i]
				}
				frames = append(frames, strings.TrimPrefix(l, "/repo/"))
			}
		}
		top := ""
		if len(frames) > 0 {
			top = frames[0]
		}
		if len(reports) < 4 {
			reports = append(reports, map[string]interface{}{"site": top, "report": tail(b, 200) + " ...", "head": headLines(b, 14)})
		}
	}
	nrep := strings.Count(outS, "WARNING: DATA RACE")
	tags := []string{"race-detector"}
	for _, r := range reports {
		tags = append(tags, "site:"+r["site"].(string))
	}
	w.Add(vlib.Case{Kind: "race", Coq: fmt.Sprintf("CRace %d", nrep),
		Desc: map[string]interface{}{"documents": n, "rounds": rounds, "batch": batchN, "reports": nrep, "first_reports": reports,
			"wall": time.Since(t0).String(), "rerun": bin + " -mode race -n " + n},
		Tags: tags, Nontrivial: true})
}

func headLines(s string, n int) string {
	ls := strings.Split(strings.TrimSpace(s), "\n")
	if len(ls) > n {
		ls = ls[:n]
	}
	return strings.Join(ls, "\n")
}

// ------------------------------------------------------------------ main

func main() {
	out := flag.String("out", "cases.jsonl", "output file")
	n := flag.Int("n", 60, "number of documents")
	child := flag.String("child", "", "(internal) job file")
	childOut := flag.String("childout", "", "(internal) result file")
	mode := flag.String("mode", "full", "full | rewrite (only the rewrite-same-doc stream) | race (concurrent batches only, for the -race binary) | one (render document -doc once, print status and trace size) | dump (print the documents as JSON)")
	docName := flag.String("doc", "", "one mode: document name")
	rounds := flag.Int("rounds", 1, "race mode: how many times every batch is rendered")
	flag.Parse()

	if *child != "" {
		childMain(*child, *childOut)
		return
	}
	docs := makeDocs(*n)
	nd := len(docs)

	if *mode == "dump" {
		b, _ := json.MarshalIndent(docs, "", " ")
		os.Stdout.Write(b)
		return
	}
	if *mode == "one" {
		for _, d := range docs {
			if d.Name == *docName {
				t := renderTrace(d, fontsFor(d))
				fmt.Println(d.Name, t.Status, t.Msg, "pages", t.Pages, "events", len(t.Events))
				if t.Status == "panic" {
					func() {
						defer func() { fmt.Println(recover()); os.Stdout.Write(debugStack()) }()
						if d.Probe != "" {
							probeRaw(d)
						} else if rd, err := renderDoc(d, fontsFor(d)); err == nil {
							render.Draw(rd, 1)
						}
					}()
				}
			}
		}
		return
	}
	if *mode == "rewrite" { // only the rewrite-same-doc stream (development / replay)
		if *docName != "" { // print the neighbourhood of the first difference between writes #1 and #2
			for _, d := range rewriteDocs(docs, 6+*n/8) {
				if d.Name == *docName {
					res := rewriteTraces(d, 2)
					fmt.Println(firstDiff(res.W[0], res.W[1]))
					for i := range res.W[0].Events {
						if i >= len(res.W[1].Events) || res.W[0].Events[i] != res.W[1].Events[i] {
							for j := i - 6; j < i+12; j++ {
								a, b := "", ""
								if j >= 0 && j < len(res.W[0].Events) {
									a = res.W[0].Events[j]
								}
								if j >= 0 && j < len(res.W[1].Events) {
									b = res.W[1].Events[j]
								}
								fmt.Printf("%d\t%s\n\t%s\n", j, a, b)
							}
							break
						}
					}
				}
			}
			return
		}
		w := vlib.NewWriter(*out)
		rewriteStream(w, docs, 6+*n/8)
		w.Close()
		return
	}
	if *mode == "race" {
		// N=8 distinct documents at a time, each goroutine its own fonts
		// first, while every lazily filled cache is still cold: each corpus
		// document rendered by all goroutines at once (first use of the
		// hyphenation dictionaries, shared stylesheets, ...)
		sameBatch := func(d Doc, k int) {
			same := make([]Doc, k)
			for i := range same {
				same[i] = d
			}
			renderBatch(same)
		}
		tr0 := time.Now()
		lap := func(what string) {
			fmt.Printf("race-mode: %s %v\n", what, time.Since(tr0).Round(time.Millisecond))
			tr0 = time.Now()
		}
		for _, d := range loadCorpus() {
			sameBatch(d, 4)
		}
		lap("corpus x4")
		// every table probe by all goroutines at once (first use of each
		// hyphenation dictionary, of the counter styles ...)
		for _, d := range docs {
			if d.Probe != "" {
				sameBatch(d, 4)
			}
		}
		lap("probes x4")
		// batches of 8 distinct documents; the documents that use the same parsed
		// user stylesheet are neighbours, so that they meet in a batch (the sheet
		// is the one object two such renders share besides the UA sheets and
		// the package-level tables)
		real := make([]Doc, 0, nd)
		for _, d := range docs {
			if d.Probe == "" {
				real = append(real, d)
			}
		}
		sort.SliceStable(real, func(a, b int) bool {
			ka, kb := "", ""
			if len(real[a].CSS) > 0 {
				ka = real[a].CSS[0]
			}
			if len(real[b].CSS) > 0 {
				kb = real[b].CSS[0]
			}
			return ka < kb
		})
		for r := 0; r < *rounds; r++ {
			for i := 0; i < len(real); i += batchN {
				j := i + batchN
				if j > len(real) {
					j = len(real)
				}
				renderBatch(real[i:j])
			}
		}
		lap("batches of distinct documents")
		fmt.Printf("race-mode: rendered %d documents in batches of %d, %d round(s)\n", nd, batchN, *rounds)
		return
	}

	w := vlib.NewWriter(*out)
	defer w.Close()
	workDir := filepath.Dir(*out)
	race := startRace()
	par := 16

	// --- fresh processes
	chunk := func(order []int, k int) []Job {
		var jobs []Job
		for i := 0; i < len(order); i += k {
			j := i + k
			if j > len(order) {
				j = len(order)
			}
			job := Job{Docs: make([]Doc, len(docs))}
			for _, d := range order[i:j] {
				job.Plan = append(job.Plan, [2]int{d, 1})
				job.Docs[d] = docs[d]
			}
			jobs = append(jobs, job)
		}
		return jobs
	}
	fwd := make([]int, nd)
	rev := make([]int, nd)
	for i := range fwd {
		fwd[i] = i
		rev[i] = nd - 1 - i
	}
	per := (nd + par - 1) / par
	// set 1: chunks in document order, every document 5 times in a row
	// then every document of the chunk ONCE MORE, after all the others
	set1 := chunk(fwd, per)
	for i := range set1 {
		first := len(set1[i].Plan)
		for j := 0; j < first; j++ {
			set1[i].Plan[j][1] = 5
		}
		for j := 0; j < first; j++ {
			set1[i].Plan = append(set1[i].Plan, [2]int{set1[i].Plan[j][0], 1})
		}
	}
	// set 2: reversed order, other chunk boundaries: other predecessors
	set2 := chunk(rev, per+1)
	// set 3: documents alone in a fresh process
	set3 := chunk(fwd, 1)

	all := append(append(append([]Job{}, set1...), set2...), set3...)
	t0 := time.Now()
	res := runJobs(all, workDir, "p", par)
	fmt.Printf("fresh processes: %d jobs in %v\n", len(all), time.Since(t0))
	t0 = time.Now()
	// occurrence 0 / 1 of a document in the plans of a set
	byDocN := func(rs [][]Rendered, occ int) map[int]Rendered {
		m := map[int]Rendered{}
		for _, l := range rs {
			seen := map[int]int{}
			for _, r := range l {
				if seen[r.Doc] == occ {
					m[r.Doc] = r
				}
				seen[r.Doc]++
			}
		}
		return m
	}
	byDoc := func(rs [][]Rendered) map[int]Rendered { return byDocN(rs, 0) }
	r1 := byDoc(res[:len(set1)])
	r1again := byDocN(res[:len(set1)], 1)
	r2 := byDoc(res[len(set1) : len(set1)+len(set2)])
	r3 := byDoc(res[len(set1)+len(set2):])

	// --- concurrent batches in this process (after a sequential warm-up of
	// nothing: the first render of the process happens inside a batch too)
	conc := make([]Trace, nd)
	for i := 0; i < nd; i += batchN {
		j := i + batchN
		if j > nd {
			j = nd
		}
		copy(conc[i:j], renderBatch(docs[i:j]))
	}
	fmt.Printf("concurrent batches: %v\n", time.Since(t0))
	t0 = time.Now()
	// and sequentially in this process, after all of the above (history)
	seq := make([]Trace, nd)
	for i := range docs {
		seq[i] = renderTrace(docs[i], fontsFor(docs[i]))
	}

	fmt.Printf("sequential tail: %v\n", time.Since(t0))
	for i, d := range docs {
		a := r1[i]
		refD := a.Digests[0]
		// kind 0: repeats inside one process
		diff := ""
		if a.Other != nil {
			diff = firstDiff(a.First, *a.Other)
		}
		rep := append([][5]uint64{}, a.Digests[1:]...)
		if ag, ok := r1again[i]; ok {
			rep = append(rep, ag.Digests[0])
			if diff == "" {
				diff = firstDiff(a.First, ag.First)
			}
		}
		w.Add(sameCase(0, "k=5 renders in a row, then once more after the other documents of the chunk, in one process", d, a.First, refD, rep, diff))
		// kind 1: fresh processes
		b := r2[i]
		w.Add(sameCase(1, "first render of two fresh processes (different predecessors)", d, a.First, refD,
			[][5]uint64{b.Digests[0]}, firstDiff(a.First, b.First)))
		// kind 3: alone vs after other documents
		if c, ok := r3[i]; ok {
			runs := [][5]uint64{a.Digests[0], b.Digests[0]}
			df := firstDiff(c.First, a.First)
			if df == "" {
				df = firstDiff(c.First, b.First)
			}
			if ag, ok := r1again[i]; ok {
				runs = append(runs, ag.Digests[0])
				if df == "" {
					df = firstDiff(c.First, ag.First)
				}
			}
			if seq[i].Status != "" {
				runs = append(runs, seq[i].Digest())
				if df == "" {
					df = firstDiff(c.First, seq[i])
				}
			}
			w.Add(sameCase(3, "alone in a fresh process vs after other documents (first and second time in another process, first time in a third one, at the end of the harness process)", d, c.First, c.Digests[0], runs, df))
		} else if seq[i].Status != "" {
			w.Add(sameCase(3, "first render of a fresh process vs at the end of the harness process", d, a.First, refD,
				[][5]uint64{seq[i].Digest()}, firstDiff(a.First, seq[i])))
		}
		// kind 2: concurrent vs sequential
		w.Add(sameCase(2, fmt.Sprintf("rendered concurrently with %d other documents (own font configuration) vs sequentially", batchN-1), d, a.First, refD,
			[][5]uint64{conc[i].Digest()}, firstDiff(a.First, conc[i])))
		// anchors in model order
		if a.First.Status == "ok" {
			na := 0
			maxPer := 0
			for _, p := range a.First.Anchors {
				na += len(p)
				if len(p) > maxPer {
					maxPer = len(p)
				}
			}
			w.Add(vlib.Case{Kind: "anchors", Coq: coqAnchors(a.First),
				Desc: map[string]interface{}{"doc": d.Name, "anchors": a.First.Anchors, "input": d.HTML},
				Tags: d.Tags, Nontrivial: maxPer > 1, Key: "anchors/" + d.Name})
		}
	}

	// --- ONE document.Document written several times (state kept on the Document)
	t0 = time.Now()
	rewriteStream(w, docs, 6+*n/8)
	fmt.Printf("rewrite-same-doc stream: %v\n", time.Since(t0))

	race.finish(w)

	rng := vlib.NewRng(vlib.Seed() ^ 0xc15)
	unpackCases(w, rng)
	omapCases(w, rng, 40+nd*4)
}
