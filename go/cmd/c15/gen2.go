package main

// Second part of the C15 document generator: the dimensions that reach every
// table the module keeps at package level or shares between renders
//
//   - hyphenation dictionaries: every dictionary of /repo/text/hyphen/dictionaries,
//     with words DERIVED FROM THE DICTIONARY'S OWN PATTERNS (so that the
//     patterns, including the non-standard ones "as5szon2y/sz=,2,1" of hu, de,
//     af, ro, ..., are the ones looked up), plus a small natural vocabulary;
//   - the ex/ch ratio cache and the font configuration: @font-face rules giving
//     the same family name to different font files in different documents,
//     lengths in ex / ch / rem;
//   - stylesheets shared between renders (parsed once per process like the UA
//     stylesheets): a pool built from a list of declarations whose computed
//     value depends on the element (em, ex, ch, %, currentColor, attr(),
//     counters ...) -- one per computed-value function of html/tree;
//   - counter styles (the UA ones and @counter-style rules), quotes by
//     language (lang tags that are not keys of the table), the full HTML5 UA
//     stylesheet with presentational hints, images fetched from files (image
//     cache), CSS grid, invalid CSS (logger).

import (
	"bufio"
	"bytes"
	"fmt"
	"os"
	"path/filepath"
	"sort"
	"strings"
	"sync"
	"unicode"

	"verifharness/vlib"
)

const hyphDir = "/repo/text/hyphen/dictionaries"
const resDir = "/repo/resources_test"

// ------------------------------------------------------------------ vocabulary

type vocab struct {
	Tag    string   // language tag usable in lang="" (hu, de-CH, sr-Latn ...)
	File   string   // dictionary file
	Words  []string // words built from standard patterns + natural words
	NonStd []string // words built around non-standard patterns
}

// natural words (a few per language; the ones of hu/de/nl/af/ro/sv/nb/ca contain
// the digraphs their dictionaries treat specially)
var naturalWords = map[string][]string{
	"hu": {"kulissza", "asszony", "asszonnyal", "hosszabb", "mennyi", "könnyebb", "loccsan", "poggyász", "hattyú", "összeg", "vissza", "meggy", "szerkesztőség", "megszentségteleníthetetlen", "rendszer"},
	"de": {"Zucker", "backen", "Schiffahrt", "Bettuch", "Drucker", "Wecker", "Donaudampfschiffahrt", "Rechtsschutzversicherung", "Silbentrennung", "Lastkraftwagen"},
	"nl": {"omaatje", "cafeetje", "lettergrepen", "zeeëend", "reëel", "autootje", "verantwoordelijkheid"},
	"af": {"verantwoordelikheid", "onmiddellik", "geleentheid", "koeël", "reën"},
	"ro": {"binecuvântare", "responsabilitate", "într-adevăr", "niciodată"},
	"sv": {"tillåta", "glasskål", "nattåg", "ansvarsförsäkring", "bussjåfør"},
	"nb": {"bussjåfør", "trafikkultur", "ansvarsforsikring"},
	"ca": {"paral·lel", "col·legi", "responsabilitat"},
	"fr": {"anticonstitutionnellement", "représentation", "typographique"},
	"en": {"hyphenation", "determinism", "representation", "internationalization", "characteristically"},
	"es": {"responsabilidad", "desafortunadamente", "constitucionalmente"},
	"it": {"precipitevolissimevolmente", "responsabilità", "sovrapposizione"},
	"pl": {"odpowiedzialność", "konstantynopolitańczykowianeczka"},
	"ru": {"ответственность", "достопримечательность", "переосвидетельствование"},
	"el": {"υπευθυνότητα", "ηλεκτροεγκεφαλογράφημα"},
	"eo": {"respondeco", "malsanulejo", "ĉirkaŭaĵo"},
	"sq": {"përgjegjësi", "shqiptar", "llogaritje"},
	"zu": {"ukuziphendulela", "ngiyabonga", "isikhathi"},
	"mn": {"хариуцлага", "үндэстэн"},
	"te": {"బాధ్యత", "తెలుగు"},
}

var (
	vocabOnce sync.Once
	vocabs    []vocab
)

func lettersOf(p string) string {
	var sb strings.Builder
	for _, r := range p {
		if unicode.IsLetter(r) || unicode.IsMark(r) {
			sb.WriteRune(unicode.ToLower(r))
		}
	}
	return sb.String()
}

// loadVocabs reads every dictionary and derives words from its patterns
// (deterministically from the harness seed)
func loadVocabs() []vocab {
	vocabOnce.Do(func() {
		files, _ := filepath.Glob(filepath.Join(hyphDir, "hyph_*.dic"))
		sort.Strings(files)
		for fi, f := range files {
			b, err := os.ReadFile(f)
			if err != nil {
				continue
			}
			nl := bytes.IndexByte(b, '\n')
			if nl < 0 {
				continue
			}
			cs := strings.ToLower(strings.TrimSpace(string(b[:nl])))
			body := b[nl+1:]
			body = decodeSingleByte(cs, body)
			var std, non []string
			sc := bufio.NewScanner(bytes.NewReader(body))
			sc.Buffer(make([]byte, 1<<20), 1<<20)
			for sc.Scan() {
				line := strings.TrimSpace(sc.Text())
				if line == "" || line[0] == '%' || line[0] == '#' || strings.HasPrefix(line, "LEFTHYPHENMIN") || strings.HasPrefix(line, "RIGHTHYPHENMIN") ||
					strings.HasPrefix(line, "COMPOUND") || strings.HasPrefix(line, "NEXTLEVEL") || strings.HasPrefix(line, "NOHYPHEN") || strings.HasPrefix(line, "ISO") || strings.HasPrefix(line, "UTF") {
					continue
				}
				if i := strings.IndexByte(line, '/'); i >= 0 {
					if l := lettersOf(line[:i]); len([]rune(l)) >= 2 {
						non = append(non, l)
					}
				} else if l := lettersOf(line); len([]rune(l)) >= 2 && len([]rune(l)) <= 6 {
					std = append(std, l)
				}
			}
			if len(std) == 0 {
				continue
			}
			name := strings.TrimSuffix(strings.TrimPrefix(filepath.Base(f), "hyph_"), ".dic")
			v := vocab{Tag: strings.ReplaceAll(name, "_", "-"), File: filepath.Base(f)}
			r := vlib.NewRng(vlib.Seed() ^ uint64(0x9e37*(fi+1)))
			cluster := func() string { return vlib.Pick(r, std) }
			for len(v.Words) < 24 {
				w := cluster()
				for len([]rune(w)) < r.Range(6, 13) {
					w += cluster()
				}
				v.Words = append(v.Words, w)
			}
			short := strings.SplitN(v.Tag, "-", 2)[0]
			v.Words = append(v.Words, naturalWords[short]...)
			// non-standard patterns: the cluster alone, and embedded in a longer word
			pickNon := non
			if len(pickNon) > 40 {
				pickNon = nil
				for i := 0; i < 40; i++ {
					pickNon = append(pickNon, vlib.Pick(r, non))
				}
			}
			for _, n := range pickNon {
				if len([]rune(n)) >= 5 {
					v.NonStd = append(v.NonStd, n)
				}
				v.NonStd = append(v.NonStd, cluster()+n+cluster(), n+cluster(), cluster()+n)
			}
			if len(non) > 0 {
				v.NonStd = append(v.NonStd, naturalWords[short]...)
			}
			vocabs = append(vocabs, v)
		}
	})
	return vocabs
}

// vocabulary for a lang="" value: the entry of the dictionary the tag falls back to
func pickVocab(r *vlib.Rng) (tag string, v vocab) {
	vs := loadVocabs()
	if len(vs) == 0 {
		return "en", vocab{Tag: "en", Words: words}
	}
	// half of the time a language whose dictionary has non-standard patterns
	if r.Bool() {
		var ns []vocab
		for _, x := range vs {
			if len(x.NonStd) > 0 {
				ns = append(ns, x)
			}
		}
		if len(ns) > 0 {
			v = vlib.Pick(r, ns)
		}
	}
	if v.Tag == "" {
		v = vlib.Pick(r, vs)
	}
	tag = v.Tag
	switch r.Intn(4) {
	case 0: // short tag (falls back to the same dictionary for most languages)
		tag = strings.SplitN(tag, "-", 2)[0]
	case 1:
		tag = strings.ToUpper(tag[:1]) + tag[1:] // case-insensitive match
	}
	return tag, v
}

func (g *gen) hyphText(v vocab, n int) string {
	r := g.r
	var out []string
	for i := 0; i < n; i++ {
		switch {
		case len(v.NonStd) > 0 && r.Chance(1, 2):
			out = append(out, vlib.Pick(r, v.NonStd))
		default:
			out = append(out, vlib.Pick(r, v.Words))
		}
		if r.Chance(1, 8) {
			out[len(out)-1] = strings.ToUpper(out[len(out)-1]) // upper-case words take another branch of IterateRunes
		}
	}
	return strings.Join(out, " ")
}

// ------------------------------------------------------------------ shared stylesheets

// declarations whose computed value depends on the element they apply to (font
// size, font, containing block, attributes, counters): one per computed-value
// function of html/tree/computed_values.go and per value type that holds a
// slice or a pointer.  A stylesheet holding them is an input shared by every
// element its rules match and, when the parsed sheet is reused, by every render.
var contextDecls = []string{
	"transform: translate(1em, 2em)", "transform: rotate(3deg) translate(0.5em, 10%) scale(1.1)", "transform-origin: 1em 2em",
	"border-image-source: linear-gradient(red, blue); border-image-outset: 1em 0.5em; border-style: solid; border-width: 2px",
	"border-image-source: linear-gradient(lime, teal); border-image-width: 0.5em 1; border-image-slice: 10% 20% 30%; border-style: solid",
	"grid-auto-rows: 2em 1.5em", "grid-auto-columns: 3em", "grid-template-columns: 3em 1fr 20%", "grid-template-rows: [a] 2em [b c] auto",
	"grid-template-columns: [x y z] 4em [x] 1fr", "grid-template-areas: \"a b\" \"c d\"", "grid-template-areas: \"h h h\" \"m n .\"", "gap: 0.5em 1em",
	"tab-size: 3", "text-indent: 1.5em", "text-indent: 10%", "border-spacing: 0.5em 0.2em",
	"background-image: linear-gradient(red 1em, blue 3em), radial-gradient(circle 2em at 1em 1em, yellow 0.5em, silver 3em)",
	"background-image: repeating-linear-gradient(45deg, orange 0, white 0.8em); background-position: 1em 2em, 10% 0.5em; background-size: 2em 3em",
	"object-position: 1em 0.5em", "border-top-left-radius: 1em 2em", "border-radius: 0.5em 10%", "word-spacing: 0.2em", "letter-spacing: 0.1em",
	"line-height: 1.4em", "line-height: 130%", "vertical-align: 0.3em", "column-width: 8em; column-gap: 1em; column-rule: 0.2em solid red",
	"margin-left: 1.5em", "padding: 0.3em 0.6em", "width: 12em", "min-height: 2em", "max-width: 20em", "outline: 0.2em solid currentColor",
	"border: 0.1em solid; border-color: currentColor", "border-left-width: thick", "font-size: 1.2em", "font-size: larger", "font-size: 90%", "font-weight: bolder",
	"flex-basis: 5em", "width: 20ex", "margin-left: 2ch", "text-indent: 3ch", "padding-left: 1.5ex", "height: 3rem", "margin-top: 0.5rem",
	"content: counter(par, upper-roman) \" \" attr(class) \" \"", "quotes: \"<\" \">\" \"[\" \"]\"", "string-set: chap content() \" \" attr(id)",
	"bookmark-label: content() \" x\"; bookmark-level: 3", "text-decoration: underline overline; text-decoration-color: currentColor",
	"counter-increment: par 2", "counter-reset: x 3", "counter-set: par 7", "anchor: attr(id)", "link: attr(href)", "lang: attr(lang)",
	"font-variant: small-caps; font-feature-settings: \"liga\" 0, \"kern\"", "font-variation-settings: \"wght\" 500", "font-language-override: \"TRK\"",
	"hyphenate-limit-zone: 2em", "hyphenate-limit-chars: 4 2 2", "hyphenate-character: \"=\"", "image-resolution: 2dppx", "clip: rect(0, 10em, 10em, 0)",
	"top: 0.5em; left: 1em; position: relative", "list-style-image: linear-gradient(red, blue)", "list-style-type: symbols(cyclic \"*\" \"+\")",
	"text-overflow: ellipsis; overflow: hidden; white-space: nowrap; width: 6em", "block-ellipsis: \"...\"; max-lines: 2", "size: 20em 15em", "bleed: 0.5em; marks: crop",
	"footnote-display: inline", "box-decoration-break: clone", "break-inside: avoid", "colr: red; width: -3px; color: #12", // invalid: warnings
}

var contextSelectors = []string{"p", "p.c0", "p.c1", "p.c2", "div", ".box", "h2", "li", "td", "em", "span.q", "a", ".hy", "table", "ul, ol", ".gr", ".gr > div", "q", "span", "@page", "@page :first", "li::marker", "p::before", "h2::before", ".fl0, .fl1"}

var blockSelectors = []string{"p", "div", "li", "td", ".box", "p.c0", "p.c1", "p.c2", ".gr > div", "h2", "body > div", "p, li, td"}

var (
	poolOnce   sync.Once
	sharedPool []string
)

// sharedCSSPool: a few stylesheets; together they contain every declaration of
// contextDecls at least once (round-robin), on selectors the documents use
func sharedCSSPool() []string {
	poolOnce.Do(func() {
		r := vlib.NewRng(vlib.Seed() ^ 0x5ca1ab1e)
		const nSheets = 7
		sheets := make([]strings.Builder, nSheets)
		perm := make([]int, len(contextDecls))
		for i := range perm {
			perm[i] = i
		}
		for i := len(perm) - 1; i > 0; i-- {
			j := r.Intn(i + 1)
			perm[i], perm[j] = perm[j], perm[i]
		}
		for round := 0; round < 2; round++ { // every declaration in two sheets
			for k, di := range perm {
				s := &sheets[(k+round*3)%nSheets]
				// first copy: on block-level elements that inherit the document's
				// font size (it differs between documents: an em resolved for one
				// document is wrong for the next); second copy: anywhere
				sel := vlib.Pick(r, blockSelectors)
				if round == 1 {
					sel = vlib.Pick(r, contextSelectors)
				}
				decl := contextDecls[di]
				if strings.HasPrefix(decl, "size:") || strings.HasPrefix(decl, "bleed:") {
					sel = "@page"
				}
				if strings.HasPrefix(decl, "grid-") || strings.HasPrefix(decl, "gap:") {
					sel = vlib.Pick(r, []string{".gr", ".gr", "div"})
				}
				if strings.HasPrefix(sel, "@page") && !(strings.HasPrefix(decl, "size:") || strings.HasPrefix(decl, "bleed:") || strings.HasPrefix(decl, "margin") || strings.HasPrefix(decl, "padding") || strings.HasPrefix(decl, "background") || strings.HasPrefix(decl, "font-size")) {
					sel = "p"
				}
				fmt.Fprintf(s, "%s { %s }\n", sel, decl)
			}
		}
		for i := range sheets {
			sharedPool = append(sharedPool, sheets[i].String())
		}
		sharedPool = append(sharedPool, userCSSPool...)
	})
	return sharedPool
}

// ------------------------------------------------------------------ new blocks

var counterStyles = []string{"decimal", "decimal-leading-zero", "arabic-indic", "armenian", "upper-armenian", "lower-armenian", "bengali", "cambodian", "cjk-decimal",
	"devanagari", "georgian", "hebrew", "lower-roman", "upper-roman", "lower-alpha", "upper-latin", "lower-greek", "hiragana", "katakana-iroha", "japanese-informal",
	"japanese-formal", "korean-hangul-formal", "korean-hanja-formal", "cjk-earthly-branch", "disc", "circle", "square", "disclosure-open", "thai", "tibetan", "persian",
	"cs-ext", "cs-cyc", "cs-add", "cs-loop-a", "unknown-style"}

// user-defined counter styles (extends chains into the UA table, a cycle, additive)
const counterStyleCSS = `
@counter-style cs-ext { system: extends lower-roman; prefix: "("; suffix: ") " }
@counter-style cs-cyc { system: cyclic; symbols: "*" "+" "~"; suffix: " " }
@counter-style cs-add { system: additive; additive-symbols: 10 "X", 5 "V", 1 "I"; range: 1 39; fallback: cs-ext }
@counter-style cs-loop-a { system: extends cs-loop-b }
@counter-style cs-loop-b { system: extends cs-loop-a; pad: 3 "0" }
`

// language tags for quotes:auto: keys of text.langQuotes, tags that only have
// keys as prefixes (several of them: fr and fr_CH), unknown ones.  No tag
// ending in a one-letter subtag: lang="fr-x" panics in the shaper (textlayout
// harfbuzz, NewOTTagsFromScriptAndLanguage) -- C01's ground, and it would only
// turn the document into a constant "panic" trace here.
var quoteLangs = []string{"en", "fr", "fr_CH", "fr_CH_1901", "fr-CH", "fr_CA_QC", "de", "de_CH", "it_CH_TI", "it", "el_POLYTONIC", "el", "bs_Cyrl_BA", "bs", "kab_DZ", "kkj_CM", "ka",
	"oc_ES_ARAN", "ti_ER_ASM", "sr_Latn_RS", "zh_Hant", "zh_Hant_HK", "ja", "ru", "zz", "x-y", ""}

var imageFiles = []string{"pattern.png", "blue.jpg", "icon.png", "logo_small.png", "pattern.gif", "pattern.svg", "pattern.palette.png", "missing-file.png"}

var fontFiles = []string{"AHEM____.TTF", "weasyprint.otf"}

func fileURL(name string) string { return "file://" + filepath.Join(resDir, name) }

func (g *gen) extraBlock() string {
	r := g.r
	var sb strings.Builder
	switch r.Intn(9) {
	case 0: // hyphenation, any dictionary
		tag, v := pickVocab(r)
		g.tag("hyphens")
		g.tag("hyph-lang:" + strings.ToLower(strings.SplitN(v.Tag, "-", 2)[0]))
		if len(v.NonStd) > 0 {
			g.tag("hyph-nonstandard-dic")
		}
		fmt.Fprintf(&sb, `<p lang="%s" class="hy" style="width:%dpx;hyphenate-limit-chars:%s;font-family:%s">%s</p>`,
			tag, r.Range(30, 120), vlib.Pick(r, []string{"4 2 2", "5 2 2", "auto", "3 1 1"}), vlib.Pick(r, []string{"weasyprint", "Ahem", "weasyprint, Ahem"}), g.hyphText(v, r.Range(6, 30)))
	case 1: // ex / ch / rem lengths, with the document's own @font-face family or a plain one
		g.tag("ex-ch")
		fam := vlib.Pick(r, []string{"docfont", "webfont", "weasyprint", "Ahem", "docfont, weasyprint"})
		fmt.Fprintf(&sb, `<div id="%s" style="font-family:%s;font-size:%dpx;width:%d%s;height:%d%s;margin-left:%d%s;padding:%.1f%s;background:%s;border:0.2ex solid black">%s</div>`,
			g.newID(), fam, vlib.Pick(r, []int{10, 12, 16, 20, 40}), r.Range(3, 30), vlib.Pick(r, []string{"ex", "ch"}), r.Range(1, 6), vlib.Pick(r, []string{"ex", "ch", "rem"}),
			r.Range(0, 5), vlib.Pick(r, []string{"ch", "ex"}), float64(r.Range(0, 20))/10, vlib.Pick(r, []string{"ex", "ch", "em"}), vlib.Pick(r, colors), lorem(r, r.Range(1, 4)))
		fmt.Fprintf(&sb, `<p style="font-family:%s;text-indent:%dch;width:%dex">%s</p>`, fam, r.Range(0, 4), r.Range(20, 60), g.spans(r.Range(2, 6)))
	case 2: // grid
		g.tag("grid")
		n := r.Range(2, 7)
		cols := vlib.Pick(r, []string{"", "grid-template-columns:1fr auto 2em;", "grid-template-columns:30px 30px 30px 30px;", "grid-template-columns:40px 40px;", "grid-template-columns:[a b c] 2em [d] 1fr;", "grid-template-columns:repeat(2, [l] 3em [m n]);"})
		areas := vlib.Pick(r, []string{"", "", `grid-template-areas:"a b" "c d";`, `grid-template-areas:"h h h";`})
		fmt.Fprintf(&sb, `<div class="gr" id="%s" style="display:grid;%s%s%s">`, g.newID(), cols, areas, vlib.Pick(r, []string{"", "grid-auto-flow:dense;", "grid-auto-rows:1.5em;", "gap:2px 0.5em;"}))
		for i := 0; i < n; i++ {
			place := vlib.Pick(r, []string{"", "", "grid-column:span 2;", "grid-row:span 2;", "grid-area:a;", "grid-area:d;", "grid-column:1 / 3;", "grid-column:2;grid-row:1 / span 2;", "grid-column:span 3;"})
			fmt.Fprintf(&sb, `<div style="%sbackground:%s">%s</div>`, place, vlib.Pick(r, colors), lorem(r, r.Range(1, 3)))
		}
		sb.WriteString(`</div>`)
	case 3: // quotes by language
		g.tag("quotes")
		for i := r.Range(1, 3); i > 0; i-- {
			fmt.Fprintf(&sb, `<p lang="%s" style="quotes:auto">%s <q>%s <q>%s</q></q> <span class="q">%s</span></p>`, vlib.Pick(r, quoteLangs), lorem(r, 2), lorem(r, 2), lorem(r, 1), lorem(r, 1))
		}
	case 4: // counter styles
		g.tag("counter-styles")
		st := vlib.Pick(r, counterStyles)
		fmt.Fprintf(&sb, `<ol style="list-style-type:%s" start="%d">`, st, vlib.Pick(r, []int{1, 1, 0, -2, 9, 38, 99, 3998}))
		for i := r.Range(2, 6); i > 0; i-- {
			fmt.Fprintf(&sb, `<li id="%s">%s <span style="counter-increment:x %d">%s</span></li>`, g.newID(), lorem(r, 2), r.Range(1, 30), "")
		}
		sb.WriteString(`</ol>`)
		fmt.Fprintf(&sb, `<p class="cst" style="counter-reset:x %d">%s</p>`, r.Range(-5, 4000), lorem(r, 2))
		g.cssExtra[fmt.Sprintf(`p.cst::after { content: " " counter(x, %s) " " counters(par, "-", %s) }`, st, vlib.Pick(r, counterStyles))] = true
	case 5: // images from files (image cache: same URL several times)
		g.tag("file-images")
		a, b := vlib.Pick(r, imageFiles), vlib.Pick(r, imageFiles)
		fmt.Fprintf(&sb, `<p><img src="%s" width="%d"> <img src="%s" style="height:%dpx"> <img src="%s"> <span style="display:inline-block;width:40px;height:20px;background:url(%s) %s, url(%s)"></span></p><ul style="list-style-image:url(%s)"><li>%s</li></ul>`,
			fileURL(a), r.Range(8, 40), fileURL(b), r.Range(8, 30), fileURL(a), fileURL(b), vlib.Pick(r, []string{"repeat-x", "no-repeat", "space"}), fileURL(a), fileURL(a), lorem(r, 2))
	case 6: // elements styled by the full UA stylesheet / presentational hints
		g.tag("ua-elements")
		fmt.Fprintf(&sb, `<h1>%s</h1><h3 align="center">%s</h3><blockquote>%s</blockquote><pre>%s
	%s</pre><hr size="3" color="red"><center>%s</center><font size="5" color="green" face="Ahem">%s</font><p><sub>a</sub><sup>b</sup><small>c</small><big>d</big><kbd>e</kbd><u>f</u><s>g</s><mark>h</mark></p>`,
			lorem(r, 2), lorem(r, 1), lorem(r, 4), lorem(r, 2), lorem(r, 2), lorem(r, 2), lorem(r, 2))
		fmt.Fprintf(&sb, `<table border="%d" cellpadding="%d" cellspacing="2" bgcolor="%s" width="80%%"><caption>cap</caption><tr><th bgcolor="yellow" nowrap>%s</th><td align="right" valign="bottom" height="%d">%s</td></tr></table>`,
			r.Range(0, 3), r.Range(0, 5), vlib.Pick(r, colors[:4]), lorem(r, 1), r.Range(10, 40), lorem(r, 2))
		fmt.Fprintf(&sb, `<ol type="%s" start="%d"><li value="%d">%s</li><li>%s</li></ol><details open><summary>%s</summary>%s</details><fieldset><legend>l</legend><input type="text" value="v"><button>b</button><select><option>o</option></select><textarea>t</textarea></fieldset>`,
			vlib.Pick(r, []string{"a", "A", "i", "I", "1"}), r.Range(1, 9), r.Range(1, 30), lorem(r, 1), lorem(r, 1), lorem(r, 1), lorem(r, 3))
	case 7: // transforms / values with slices inside, inline (per document) and via classes of the shared sheets
		g.tag("transform")
		fmt.Fprintf(&sb, `<div id="%s" style="transform:translate(%dem, %d%%) rotate(%ddeg);width:%dpx;background:%s;font-size:%dpx">%s</div>`,
			g.newID(), r.Range(0, 3), r.Range(0, 50), r.Range(-20, 20), r.Range(30, 120), vlib.Pick(r, colors), vlib.Pick(r, []int{8, 10, 14, 20}), lorem(r, 2))
	default: // nested font sizes: the same rules apply to elements with different em
		g.tag("font-sizes")
		for i := r.Range(2, 4); i > 0; i-- {
			fmt.Fprintf(&sb, `<p class="c%d" style="font-size:%dpx" id="%s">%s <em>%s</em></p>`, r.Intn(3), vlib.Pick(r, []int{6, 9, 13, 18, 24}), g.newID(), g.spans(r.Range(1, 4)), lorem(r, 1))
		}
	}
	return sb.String()
}

// fontFaceCSS: the document's own fonts under family names other documents use
// for other files
func (g *gen) fontFaceCSS() string {
	r := g.r
	var sb strings.Builder
	for _, fam := range []string{"docfont", "webfont"} {
		if r.Chance(2, 3) {
			f := vlib.Pick(r, fontFiles)
			g.tag("font-face")
			g.tag("font-face:" + fam + "=" + f)
			fmt.Fprintf(&sb, "@font-face { font-family: %s; src: url(\"%s\") }\n", fam, fileURL(f))
		}
	}
	return sb.String()
}
