package main

// Document generator of the C15 harness: paginated documents that exercise
// every map-iteration site the property lists (many ids per page, internal and
// external links, ::before/::after/::marker, floats and absolutely positioned
// boxes broken across pages, counters, string-set, bookmarks, inline SVG with
// many attributes, hyphenation).

import (
	"fmt"
	"strings"

	"verifharness/vlib"
)

type Doc struct {
	Name   string   `json:"name"`
	HTML   string   `json:"html"`
	CSS    []string `json:"css"`
	TestUA bool     `json:"test_ua"`
	Hints  bool     `json:"hints"`
	Engine string   `json:"engine,omitempty"` // "" / "pango" / "gotext"
	Tags   []string `json:"tags"`
	// table probes (probes.go): no HTML, the "render" sweeps a package-level table
	Probe string   `json:"probe,omitempty"`
	Lang  string   `json:"lang,omitempty"`
	Words []string `json:"words,omitempty"`
}

var words = []string{
	"hyphenation", "determinism", "representation", "interleaving", "configuration", "pagination",
	"alpha", "beta", "gamma", "delta", "lorem", "ipsum", "dolor", "sit", "amet", "consectetur",
	"internationalization", "counterexample", "supercalifragilistic", "a", "of", "the", "render",
	"typographical", "characteristically", "incomprehensibilities",
}

func lorem(r *vlib.Rng, n int) string {
	var sb strings.Builder
	for i := 0; i < n; i++ {
		if i > 0 {
			sb.WriteByte(' ')
		}
		sb.WriteString(vlib.Pick(r, words))
	}
	return sb.String()
}

var colors = []string{"red", "lime", "blue", "#123456", "rgba(10,20,30,0.5)", "orange", "teal", "black"}

type gen struct {
	r        *vlib.Rng
	ids      []string
	nid      int
	tags     map[string]bool
	cssExtra map[string]bool // rules the blocks need in the document's own <style>
}

func (g *gen) tag(t string) { g.tags[t] = true }

func (g *gen) newID() string {
	g.nid++
	// names chosen so that byte order, numeric order and creation order all differ
	pre := []string{"z", "a", "M", "k", "b", "Q", "x", "_", "id"}
	id := fmt.Sprintf("%s%d", pre[g.r.Intn(len(pre))], (g.nid*37)%101)
	for _, o := range g.ids {
		if o == id {
			if g.r.Chance(1, 4) { // duplicate id on purpose: the first one must win
				g.tag("dup-id")
				return id
			}
			id = fmt.Sprintf("%s_%d", id, g.nid)
			break
		}
	}
	g.ids = append(g.ids, id)
	return id
}

func (g *gen) link() string {
	r := g.r
	switch {
	case len(g.ids) > 0 && r.Chance(3, 5):
		g.tag("internal-link")
		return fmt.Sprintf(`<a href="#%s">see %s</a>`, vlib.Pick(r, g.ids), vlib.Pick(r, words))
	case r.Chance(1, 3):
		g.tag("missing-anchor")
		return `<a href="#nowhere">dangling</a>`
	default:
		g.tag("external-link")
		return fmt.Sprintf(`<a href="http://example.test/%s">ext</a>`, vlib.Pick(r, words))
	}
}

func (g *gen) spans(n int) string {
	var sb strings.Builder
	for i := 0; i < n; i++ {
		switch g.r.Intn(4) {
		case 0:
			fmt.Fprintf(&sb, `<span id="%s" class="q">%s</span> `, g.newID(), vlib.Pick(g.r, words))
		case 1:
			sb.WriteString(g.link() + " ")
		case 2:
			fmt.Fprintf(&sb, `<em id="%s">%s</em> `, g.newID(), lorem(g.r, 2))
		default:
			sb.WriteString(lorem(g.r, 3) + " ")
		}
	}
	return sb.String()
}

func (g *gen) svg() string {
	r := g.r
	g.tag("svg")
	var sb strings.Builder
	w, h := r.Range(40, 120), r.Range(30, 80)
	fmt.Fprintf(&sb, `<svg xmlns="http://www.w3.org/2000/svg" width="%d" height="%d" viewBox="0 0 %d %d" preserveAspectRatio="%s">`,
		w, h, r.Range(40, 120), r.Range(30, 80), vlib.Pick(r, []string{"xMidYMid meet", "none", "xMinYMax slice"}))
	sb.WriteString(`<defs><linearGradient id="lg" x1="0" y1="0" x2="1" y2="1"><stop offset="0" stop-color="red" stop-opacity="0.5"/><stop offset="1" stop-color="blue"/></linearGradient></defs>`)
	sb.WriteString(`<style>.k{stroke:green;stroke-width:2;fill-opacity:0.7} rect{stroke-dasharray:3 2}</style>`)
	n := r.Range(2, 6)
	for i := 0; i < n; i++ {
		fill := vlib.Pick(r, append(colors[:4:4], "url(#lg)", "none"))
		switch r.Intn(5) {
		case 0:
			fmt.Fprintf(&sb, `<rect class="k" x="%d" y="%d" width="%d" height="%d" rx="%d" fill="%s" stroke="%s" stroke-width="%d" opacity="0.%d" transform="rotate(%d) translate(%d,%d)" stroke-linejoin="round" stroke-linecap="square" stroke-dashoffset="1"/>`,
				r.Intn(20), r.Intn(20), r.Range(5, 40), r.Range(5, 40), r.Intn(5), fill, vlib.Pick(r, colors[:4]), r.Range(1, 4), r.Range(3, 9), r.Range(-30, 30), r.Intn(10), r.Intn(10))
		case 1:
			fmt.Fprintf(&sb, `<circle cx="%d" cy="%d" r="%d" fill="%s" stroke="black" style="stroke-width:%d;fill-rule:evenodd" fill-opacity="0.%d"/>`,
				r.Range(10, 40), r.Range(10, 40), r.Range(3, 20), fill, r.Range(1, 3), r.Range(2, 9))
		case 2:
			fmt.Fprintf(&sb, `<g fill="%s" stroke="%s" transform="scale(%d.5) skewX(%d)" font-size="8" font-family="weasyprint"><path d="M%d %d L%d %d Q 5 5 %d %d C 1 2 3 4 5 6 Z" stroke-miterlimit="3"/><text x="5" y="15" fill="black">%s</text></g>`,
				fill, vlib.Pick(r, colors[:4]), r.Intn(2), r.Range(-20, 20), r.Intn(30), r.Intn(30), r.Intn(30), r.Intn(30), r.Intn(30), r.Intn(30), vlib.Pick(r, words))
		case 3:
			fmt.Fprintf(&sb, `<ellipse cx="20" cy="20" rx="%d" ry="%d" fill="%s" clip-rule="evenodd" visibility="visible" display="inline" stroke="red" stroke-opacity="0.4"/>`,
				r.Range(3, 18), r.Range(3, 18), fill)
		default:
			fmt.Fprintf(&sb, `<polyline points="0,0 %d,%d %d,%d %d,%d" fill="none" stroke="%s" stroke-width="%d" marker-start="none" stroke-dasharray="%d %d"/>`,
				r.Intn(40), r.Intn(40), r.Intn(40), r.Intn(40), r.Intn(40), r.Intn(40), vlib.Pick(r, colors[:4]), r.Range(1, 3), r.Range(1, 4), r.Range(1, 4))
		}
	}
	sb.WriteString(`</svg>`)
	return sb.String()
}

func (g *gen) block(depth int) string {
	r := g.r
	var sb strings.Builder
	switch k := r.Intn(21); {
	case k >= 14:
		return g.extraBlock()
	case k == 13:
		g.tag("img")
		const png = "data:image/png;base64,iVBORw0KGgoAAAANSUhEUgAAAAEAAAABCAYAAAAfFcSJAAAADUlEQVR42mP8z8BQDwAEhQGAhKmMIQAAAABJRU5ErkJggg=="
		const svgURL = "data:image/svg+xml,%3Csvg xmlns='http://www.w3.org/2000/svg' width='20' height='10'%3E%3Crect width='20' height='10' fill='green' stroke='red'/%3E%3C/svg%3E"
		fmt.Fprintf(&sb, `<p><img id="%s" src="%s" width="%d" height="%d"> <img src="%s" style="width:%dpx"> <span style="display:inline-block;width:30px;height:12px;background:url(%s) repeat-x, url(%s)"></span></p>`,
			g.newID(), png, r.Range(5, 40), r.Range(5, 30), svgURL, r.Range(10, 60), png, svgURL)
	case k == 0:
		g.tag("heading")
		fmt.Fprintf(&sb, `<h2 id="%s">%s</h2>`, g.newID(), lorem(r, r.Range(1, 3)))
	case k == 1:
		g.tag("float")
		h := r.Range(30, 420) // often taller than the page: broken across pages
		fmt.Fprintf(&sb, `<div class="fl%d" id="%s" style="float:%s;width:%dpx;height:%dpx;background:%s">%s</div>`,
			r.Intn(3), g.newID(), vlib.Pick(r, []string{"left", "right"}), r.Range(30, 90), h, vlib.Pick(r, colors), g.spans(r.Range(0, 3)))
		if h > 150 {
			g.tag("float-broken")
		}
	case k == 2:
		g.tag("float")
		g.tag("float-text-broken")
		fmt.Fprintf(&sb, `<div id="%s" style="float:%s;width:%dpx;background:%s">%s</div>`,
			g.newID(), vlib.Pick(r, []string{"left", "right"}), r.Range(40, 100), vlib.Pick(r, colors), g.spans(r.Range(10, 40)))
	case k == 3:
		g.tag("abspos")
		fmt.Fprintf(&sb, `<div style="position:relative"><div id="%s" style="position:absolute;top:%dpx;left:%dpx;width:%dpx;height:%dpx;background:%s">%s</div>%s</div>`,
			g.newID(), r.Range(0, 40), r.Range(0, 100), r.Range(20, 80), r.Range(20, 400), vlib.Pick(r, colors), g.spans(r.Range(0, 6)), g.spans(2))
	case k == 4:
		g.tag("list")
		fmt.Fprintf(&sb, `<%s class="l%d">`, vlib.Pick(r, []string{"ul", "ol"}), r.Intn(3))
		tagEnd := "</ul>"
		if strings.HasPrefix(sb.String(), "<ol") {
			tagEnd = "</ol>"
		}
		for i := r.Range(1, 5); i > 0; i-- {
			fmt.Fprintf(&sb, `<li id="%s">%s</li>`, g.newID(), g.spans(r.Range(1, 3)))
		}
		sb.WriteString(tagEnd)
	case k == 5:
		sb.WriteString(`<p>` + g.svg() + `</p>`)
	case k == 6:
		g.tag("hyphens")
		fmt.Fprintf(&sb, `<p lang="%s" class="hy" style="width:%dpx">%s</p>`, vlib.Pick(r, []string{"en", "fr", "de", "en-GB"}), r.Range(40, 110), lorem(r, r.Range(5, 25)))
	case k == 7:
		g.tag("table")
		sb.WriteString(`<table>`)
		for i := r.Range(1, 4); i > 0; i-- {
			sb.WriteString(`<tr>`)
			for j := r.Range(1, 3); j > 0; j-- {
				fmt.Fprintf(&sb, `<td id="%s">%s</td>`, g.newID(), g.spans(r.Range(1, 2)))
			}
			sb.WriteString(`</tr>`)
		}
		sb.WriteString(`</table>`)
	case k == 8 && depth < 2:
		g.tag("nested")
		fmt.Fprintf(&sb, `<div class="box" id="%s">`, g.newID())
		for i := r.Range(1, 4); i > 0; i-- {
			sb.WriteString(g.block(depth + 1))
		}
		sb.WriteString(`</div>`)
	case k == 9:
		g.tag("target-counter")
		if len(g.ids) > 0 {
			fmt.Fprintf(&sb, `<p><a class="tc" href="#%s">page of target</a> <a class="tt" href="#%s">t</a></p>`, vlib.Pick(r, g.ids), vlib.Pick(r, g.ids))
		}
	case k == 10:
		g.tag("flex")
		fmt.Fprintf(&sb, `<div style="display:flex;flex-wrap:wrap"><div id="%s" style="flex:1">%s</div><div id="%s" style="flex:2">%s</div></div>`,
			g.newID(), g.spans(2), g.newID(), g.spans(3))
	case k == 11:
		g.tag("columns")
		fmt.Fprintf(&sb, `<div style="columns:2"><p>%s</p><p>%s</p></div>`, g.spans(r.Range(4, 14)), g.spans(r.Range(2, 8)))
	default:
		fmt.Fprintf(&sb, `<p id="%s" class="c%d">%s</p>`, g.newID(), r.Intn(3), g.spans(r.Range(2, 12)))
	}
	return sb.String()
}

const baseCSS = `
@page { size: 300px 220px; margin: 24px;
  @top-center { content: string(chap) " - " counter(page) "/" counter(pages); font-size: 8px }
  @bottom-left { content: "s" counter(sec) ; font-size: 8px }
  @bottom-right { content: element(run) }
}
@page :first { margin-top: 30px; @top-left { content: "first" } }
html { font-family: weasyprint; font-size: 10px; line-height: 12px }
body { counter-reset: sec par }
.g1 { background: linear-gradient(to bottom, red 1em, blue 3em) }
h2 { string-set: chap content(); counter-increment: sec; bookmark-level: 1; bookmark-label: counter(sec) ". " content(); font-size: 1.2em; margin: 4px 0 }
h2::before { content: counter(sec) ". "; color: gray }
p { margin: 3px 0; counter-increment: par; orphans: 1; widows: 1 }
p::before { content: "[" counter(par) "] "; color: teal }
p.c1::after { content: " (" counters(par, ".") ")"; background: yellow }
p.c2 { bookmark-level: 2; bookmark-label: "par " counter(par) }
span.q::before { content: open-quote } span.q::after { content: close-quote }
li::marker { color: red; content: counter(list-item, upper-roman) ") " }
ul.l1 li::marker { content: "* " }
ol.l2 { list-style-type: lower-greek }
a { color: blue; text-decoration: underline }
a::after { content: " ->" }
a.tc::after { content: " p." target-counter(attr(href), page) }
a.tt::after { content: " [" target-text(attr(href), before) "]" }
.hy { hyphens: auto; font-family: weasyprint }
.box { border: 1px solid black; padding: 2px; margin: 2px }
.box::before { content: "box"; display: block; background: silver }
.fl1::after { content: "F"; display: block }
.fl2 { position: running(run) }
table { border-collapse: collapse } td { border: 1px solid gray; padding: 1px }
td::before { content: counter(par) }
em { font-family: Ahem; font-size: 5px }
`

var userCSSPool = []string{
	`p { color: teal } @page { @top-right { content: "u0" } } h2::after { content: " #" }`,
	`.box { background: linear-gradient(to right, red 1em, blue 4em, lime 90%) } h2 { font-size: 2em }`,
	`p.c0 { background-image: radial-gradient(circle 2em at 1em 1em, yellow 0.5em, silver 3em), linear-gradient(red, blue 2em) } em { font-size: 3px }`,
	`li { background: repeating-linear-gradient(45deg, orange 0, white 0.8em) } @page { @top-right { content: "u3" } }`,
	`td { background: linear-gradient(blue 1em, red) } p::before { color: red }`,
}

// genDoc builds one document from the generator state
func genDoc(r *vlib.Rng, i int) Doc {
	g := &gen{r: r, tags: map[string]bool{}, cssExtra: map[string]bool{}}
	var body strings.Builder
	nb := r.Range(4, 18)
	forceUA, forceFonts := false, false
	switch i % 8 {
	case 2: // hyphenation in several languages (the dictionaries cache, non-standard patterns)
		g.tag("multi-hyphen")
		for p := r.Range(3, 6); p > 0; p-- {
			tag, v := pickVocab(r)
			g.tag("hyphens")
			g.tag("hyph-lang:" + strings.ToLower(strings.SplitN(v.Tag, "-", 2)[0]))
			if len(v.NonStd) > 0 {
				g.tag("hyph-nonstandard-dic")
			}
			fmt.Fprintf(&body, `<p lang="%s" class="hy" style="width:%dpx;font-family:%s">%s</p>`, tag, r.Range(30, 110), vlib.Pick(r, []string{"weasyprint", "Ahem"}), g.hyphText(v, r.Range(8, 30)))
		}
		nb = r.Range(2, 8)
	case 3: // the document's own fonts, lengths relative to them
		g.tag("fonts-doc")
		forceFonts = true
		for p := r.Range(2, 5); p > 0; p-- {
			fmt.Fprintf(&body, `<div style="font-family:%s;font-size:%dpx;width:%dex;height:%dch;margin:%dch 0 0 %dex;background:%s">%s</div>`,
				vlib.Pick(r, []string{"docfont", "webfont", "docfont, webfont"}), vlib.Pick(r, []int{10, 20, 50, 100}), r.Range(2, 12), r.Range(1, 4), r.Intn(3), r.Intn(4), vlib.Pick(r, colors), vlib.Pick(r, words))
		}
		nb = r.Range(2, 8)
	case 5: // full HTML5 user-agent stylesheet, presentational hints
		g.tag("full-ua")
		forceUA = true
	}
	switch i % 8 {
	case 0: // anchor-heavy: many ids on every page
		g.tag("many-ids")
		for p := 0; p < r.Range(1, 4); p++ {
			fmt.Fprintf(&body, `<p id="%s">%s</p>`, g.newID(), g.spans(r.Range(20, 60)))
		}
	case 1: // several out-of-flow boxes broken at the same page boundary
		g.tag("multi-broken-oof")
		for p := 0; p < r.Range(2, 4); p++ {
			fmt.Fprintf(&body, `<div id="%s" style="float:%s;width:%dpx;height:%dpx;background:%s">%s</div>`,
				g.newID(), vlib.Pick(r, []string{"left", "right"}), r.Range(30, 70), r.Range(200, 500), colors[p%len(colors)], vlib.Pick(r, words))
		}
		if r.Bool() {
			fmt.Fprintf(&body, `<div style="position:relative"><div style="position:absolute;top:10px;left:120px;width:40px;height:%dpx;background:teal">abs</div></div>`, r.Range(200, 500))
			g.tag("abspos")
		}
		nb = r.Range(3, 10)
	}
	for b := 0; b < nb; b++ {
		body.WriteString(g.block(0))
		body.WriteByte('\n')
	}
	d := Doc{Name: fmt.Sprintf("doc%d", i), TestUA: r.Chance(1, 3), Hints: r.Chance(1, 4)}
	if forceUA {
		d.TestUA, d.Hints = false, true
	}
	fontFaces := ""
	if forceFonts || r.Chance(1, 3) {
		fontFaces = g.fontFaceCSS()
	}
	extra := make([]string, 0, len(g.cssExtra))
	for c := range g.cssExtra {
		extra = append(extra, c)
	}
	sortStrings(extra)
	docCSS := fontFaces + counterStyleCSS + strings.Join(extra, "\n")
	if r.Chance(1, 6) {
		d.Engine = "gotext"
		g.tag("gotext")
	}
	title := lorem(r, 2)
	d.HTML = fmt.Sprintf(`<!DOCTYPE html><html lang="en"><head><title>%s</title><meta name="author" content="A %d"><meta name="keywords" content="k1, k2"><meta name="description" content="d"><style>%s %s html { font-size: %dpx }</style></head><body class="g%d">%s</body></html>`,
		title, i, baseCSS, docCSS, vlib.Pick(r, []int{10, 10, 9, 11, 12, 8}), r.Intn(3), body.String())
	if r.Chance(3, 4) {
		// from a small pool, so that different documents (with different font
		// sizes, fonts, counters) share one parsed stylesheet object inside a process
		pool := sharedCSSPool()
		d.CSS = append(d.CSS, vlib.Pick(r, pool))
		if r.Chance(1, 3) {
			d.CSS = append(d.CSS, vlib.Pick(r, pool))
		}
		g.tag("user-css")
	}
	for t := range g.tags {
		d.Tags = append(d.Tags, t)
	}
	sortStrings(d.Tags)
	return d
}

func sortStrings(s []string) {
	for i := 1; i < len(s); i++ {
		for j := i; j > 0 && s[j] < s[j-1]; j-- {
			s[j], s[j-1] = s[j-1], s[j]
		}
	}
}
