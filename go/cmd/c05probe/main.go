package main

import (
	"fmt"
	"strings"

	"github.com/benoitkugler/webrender/css/selector"
	"golang.org/x/net/html"
)

func walk(n *html.Node, f func(*html.Node)) {
	f(n)
	for c := n.FirstChild; c != nil; c = c.NextSibling {
		walk(c, f)
	}
}

func desc(n *html.Node) string {
	switch n.Type {
	case html.ElementNode:
		s := "<" + n.Data
		for _, a := range n.Attr {
			s += fmt.Sprintf(" %s=%q", a.Key, a.Val)
		}
		return s + ">"
	case html.TextNode:
		return fmt.Sprintf("text(%q)", n.Data)
	case html.CommentNode:
		return "comment"
	case html.DoctypeNode:
		return fmt.Sprintf("doctype(%q %v)", n.Data, n.Attr)
	case html.DocumentNode:
		return "document"
	}
	return "?"
}

func try(doc, sel string) {
	root, err := html.Parse(strings.NewReader(doc))
	if err != nil {
		panic(err)
	}
	g, err := selector.ParseGroup(sel)
	if err != nil {
		fmt.Printf("%-40s parse error: %v\n", sel, err)
		return
	}
	var out []string
	walk(root, func(n *html.Node) {
		if g.Match(n) {
			out = append(out, desc(n))
		}
	})
	fmt.Printf("%-30s on %-60s => %v   [String=%s]\n", sel, doc, out, g.String())
}

func main() {
	try(`<p title="foo bar">x</p>`, `[title^=""]`)
	try(`<p title="foo bar">x</p>`, `[title$=""]`)
	try(`<p title="foo bar">x</p>`, `[title*=""]`)
	try(`<p class="a  b">x</p>`, `[class~=""]`)
	try(`<p class=" a">x</p>`, `[class~=""]`)
	try(`<p>&nbsp;</p><p> </p><p>&#11;</p>`, `p:empty`)
	try(`<div lang=en>text<p></p></div>`, `:lang(en) ~ p`)
	try(`<div lang=en>text</div>`, `:lang(en)`)
	try(`<div lang=en>text</div>`, `div:has(:lang(en))`)
	try(`<div lang=en><p lang=fr></p></div>`, `p:lang(en)`)
	try(`<!DOCTYPE html PUBLIC "-//W3C//DTD XHTML 1.0 Strict//EN" "http://x"><html></html>`, `[public] ~ html`)
	try(`<!DOCTYPE html PUBLIC "-//W3C//DTD XHTML 1.0 Strict//EN" "http://x"><html></html>`, `[public] + html`)
	try(`<!DOCTYPE html PUBLIC "-//W3C//DTD XHTML 1.0 Strict//EN" "http://x"><html></html>`, `[public]`)
	try(`<section><div><p></p></div></section>`, `div:has(section p)`)
	try(`<svg><html></html></svg>`, `:root`)
	try(`<p title='a"b'></p>`, `[title='a"b']`)
	try(`<p class='1a'></p>`, `.\31 a`)
	try(`<p></p>`, `html:first-child`)
	try(`<p></p><p></p><p></p><p></p><p></p><p></p>`, `p:nth-child(-2n+5)`)
	try(`<p></p><p></p><p></p><p></p><p></p><p></p>`, `p:nth-last-child(-n+2)`)
	try(`<p id=a></p>`, `p:not(#a, .b) , p::before`)
	try(`<p id=a></p>`, `P`)
	try(`<p id=a></p>`, `*`)
	try(`<p id=a></p>`, `*|*`)
	try(`<p id=a></p>`, `p:nth-child( 2n + 1 )`)
	try(`<p id=a></p>`, `p:nth-child(+3)`)
	try(`<p id=a></p>`, `p:nth-child(0n+1)`)
	try(`<p id=a></p>`, `p:nth-child(1)`)
}
