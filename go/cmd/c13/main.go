// Harness for C13: table grid geometry.  Streams:
//   fixed  : fixedTableLayout run on the table wrapper of a generated document
//            (hook html/layout/verif_export_c13.go), inputs read from the boxes
//   horiz  : full layout (render.Layout, Ahem); column positions and every
//            cell's PositionX / Width / border-box width
//   vert   : same documents; row group / row positions and heights, final
//            border-box height of every cell
//   auto   : same documents; the column widths chosen by the layout
// One case per observation, as a Coq term of type Check.C13.case.
package main

import (
	"flag"
	"fmt"
	"math"
	"os"
	"path/filepath"
	"regexp"
	"sort"
	"strconv"
	"strings"

	"golang.org/x/net/html"

	"verifharness/vlib"
	"verifharness/vlib/render"

	"github.com/benoitkugler/webrender/css/counters"
	pr "github.com/benoitkugler/webrender/css/properties"
	bo "github.com/benoitkugler/webrender/html/boxes"
	"github.com/benoitkugler/webrender/html/layout"
	"github.com/benoitkugler/webrender/html/tree"
	"github.com/benoitkugler/webrender/images"
	"github.com/benoitkugler/webrender/text"
	"github.com/benoitkugler/webrender/utils"
)

const baseURL = "file:///repo/resources_test/"
const pageWidth = 1600

type Fl = pr.Float

func q(x Fl) string { return vlib.Q32(float32(x)) }

func qs(xs []Fl) string {
	parts := make([]string, len(xs))
	for i, x := range xs {
		parts[i] = q(x)
	}
	if len(parts) == 0 {
		return "[]"
	}
	return "[" + strings.Join(parts, "; ") + "]%Q"
}

func mf(m pr.MaybeFloat) (Fl, bool) {
	if m == nil || m == pr.AutoF {
		return 0, false
	}
	return m.V(), true
}

func optQ(m pr.MaybeFloat) string {
	if v, ok := mf(m); ok {
		return "(OS " + q(v) + ")"
	}
	return "ON"
}

func finite(xs ...Fl) bool {
	for _, x := range xs {
		if !vlib.Finite32(float32(x)) {
			return false
		}
	}
	return true
}

// ---------------------------------------------------------------- generator

type cellSpec struct {
	colspan, rowspan int
	width            string // css width or ""
	pad              [4]float64
	border           float64
	words            []int
	height           string
	bw               [4]float64 // per-side border widths (top right bottom left), used when hasBW
	hasBW            bool
}

type rowSpec struct {
	cells  []cellSpec
	height string
}

type groupSpec struct {
	tag  string
	rows []rowSpec
}

type tableSpec struct {
	fixed    bool
	width    string
	bsx, bsy float64
	collapse bool
	caption  string
	cols     string // markup of col / colgroup elements
	colW     []string // per column box, in order: the css width of the col or of its colgroup ("" = auto)
	groups   []groupSpec
	tags     []string
	pageCSS  string // "" = one tall page of pageWidth; otherwise the @page rules of a paged document
	tborder  float64 // border of the table element itself (px, solid), 0 = none
	rtl      bool    // direction: rtl on the table (column 0 is the rightmost column)
}

// withDir makes 3 in 10 laid-out tables direction: rtl.  Drawn after the table was generated (from the document's own
// forked generator), so the rest of the document is what it was without this dimension.
func withDir(r *vlib.Rng, t tableSpec) tableSpec {
	if r.Chance(3, 10) {
		t.rtl = true
		t.tags = append(append([]string{}, t.tags...), "rtl")
	}
	return t
}

func half(r *vlib.Rng, lo, hi int) float64 { return float64(r.Range(2*lo, 2*hi)) / 2 }

func genTable(r *vlib.Rng, forceFixed bool) tableSpec {
	t := tableSpec{}
	t.fixed = forceFixed || r.Chance(1, 3)
	switch r.Intn(5) {
	case 0:
		t.width = ""
	case 1:
		t.width = fmt.Sprintf("%dpx", r.Range(0, 60)*10)
	case 2:
		t.width = fmt.Sprintf("%g%%", vlib.Pick(r, []float64{25, 50, 75, 100, 12.5, 40}))
	default:
		t.width = fmt.Sprintf("%dpx", r.Range(10, 100)*8)
	}
	if forceFixed && t.width == "" {
		t.width = fmt.Sprintf("%dpx", r.Range(10, 100)*8)
	}
	if r.Chance(2, 3) {
		t.bsx, t.bsy = half(r, 0, 12), half(r, 0, 12)
	}
	t.collapse = !forceFixed && r.Chance(1, 8)
	if r.Chance(1, 5) {
		t.caption = vlib.Pick(r, []string{"top", "bottom"})
	}
	ncolsHint := r.Range(1, 5)
	// col / colgroup
	if r.Chance(1, 2) {
		var sb strings.Builder
		for i, k := 0, r.Range(1, 3); i < k; i++ {
			w := ""
			switch r.Intn(4) {
			case 0:
				w = fmt.Sprintf("width:%dpx", r.Range(0, 30)*5)
			case 1:
				w = fmt.Sprintf("width:%g%%", vlib.Pick(r, []float64{10, 25, 50, 20}))
			}
			if r.Chance(1, 3) {
				k := r.Range(1, 3)
				fmt.Fprintf(&sb, `<colgroup span="%d" style="%s"></colgroup>`, k, w)
				for j := 0; j < k; j++ {
					t.colW = append(t.colW, strings.TrimPrefix(w, "width:"))
				}
			} else if r.Chance(1, 2) {
				k := r.Range(1, 3)
				fmt.Fprintf(&sb, `<col span="%d" style="%s">`, k, w)
				for j := 0; j < k; j++ {
					t.colW = append(t.colW, strings.TrimPrefix(w, "width:"))
				}
			} else {
				w2 := vlib.Pick(r, []string{"", "width:40px", "width:30%"})
				fmt.Fprintf(&sb, `<colgroup><col style="%s"><col style="%s"></colgroup>`, w, w2)
				t.colW = append(t.colW, strings.TrimPrefix(w, "width:"), strings.TrimPrefix(w2, "width:"))
			}
		}
		t.cols = sb.String()
		t.tags = append(t.tags, "cols")
	}
	// 1 in 4 tables stresses the grid: several row groups (thead / tfoot anywhere in the document order, sometimes
	// twice), more rows per group, many row-spanning cells, out-of-range span attributes
	stress := r.Chance(1, 4)
	ngroups := r.Range(1, 3)
	if stress {
		ngroups = r.Range(2, 4)
	}
	usedHead, usedFoot := false, false
	for g := 0; g < ngroups; g++ {
		gs := groupSpec{tag: "tbody"}
		if r.Chance(1, 4) && (!usedHead || (stress && r.Chance(1, 3))) {
			gs.tag, usedHead = "thead", true
		} else if r.Chance(1, 4) && (!usedFoot || (stress && r.Chance(1, 3))) {
			gs.tag, usedFoot = "tfoot", true
		}
		minRows := 1
		if stress {
			minRows = 2
		}
		for i, rows := 0, r.Range(minRows, 4); i < rows; i++ {
			rs := rowSpec{}
			if r.Chance(1, 6) {
				rs.height = fmt.Sprintf("%dpx", r.Range(0, 12)*10)
			}
			for j, cells := 0, r.Range(0, ncolsHint+1); j < cells; j++ {
				c := cellSpec{colspan: 1, rowspan: 1}
				if r.Chance(1, 3) {
					c.colspan = r.Range(1, 4)
				}
				if r.Chance(1, 3) || (stress && r.Chance(1, 3)) {
					c.rowspan = vlib.Pick(r, []int{0, 2, 2, 3, 5})
				}
				if stress && r.Chance(1, 12) {
					// clamped by NewTableCellBox: colspan to [1, 1000], rowspan to [0, 65534]
					if r.Bool() {
						c.colspan = vlib.Pick(r, []int{0, -1, -3})
					} else {
						c.rowspan = vlib.Pick(r, []int{-1, -2, 65535, 70000})
					}
				}
				switch r.Intn(6) {
				case 0:
					c.width = fmt.Sprintf("%dpx", r.Range(0, 40)*5)
				case 1:
					c.width = fmt.Sprintf("%g%%", vlib.Pick(r, []float64{10, 20, 25, 50}))
				}
				if r.Chance(1, 2) {
					c.pad = [4]float64{half(r, 0, 6), half(r, 0, 6), half(r, 0, 6), half(r, 0, 6)}
				}
				if r.Chance(1, 2) {
					c.border = float64(r.Range(0, 4))
				}
				for k, n := 0, r.Range(0, 4); k < n; k++ {
					c.words = append(c.words, r.Range(1, 6))
				}
				if r.Chance(1, 8) {
					c.height = fmt.Sprintf("%dpx", r.Range(0, 10)*10)
				}
				rs.cells = append(rs.cells, c)
			}
			gs.rows = append(gs.rows, rs)
		}
		t.groups = append(t.groups, gs)
	}
	if stress {
		t.tags = append(t.tags, "grid-stress")
	}
	if usedHead {
		t.tags = append(t.tags, "thead")
	}
	if usedFoot {
		t.tags = append(t.tags, "tfoot")
	}
	if t.fixed {
		t.tags = append(t.tags, "table-layout:fixed")
	}
	if t.collapse {
		t.tags = append(t.tags, "collapse")
	}
	if t.width == "" {
		t.tags = append(t.tags, "width:auto")
	} else if strings.HasSuffix(t.width, "%") {
		t.tags = append(t.tags, "width:%")
	} else {
		t.tags = append(t.tags, "width:px")
	}
	return t
}


// The excess-width stream: auto layout of a table whose specified width exceeds its max-content width, with the
// columns drawn from the classes distributeExcessWidth tells apart (tables.go:1119-1292): unconstrained, constrained by
// a px width (on the col element or on a cell), percentage, and -- crossed with those -- columns all of whose cells are
// empty (max-content width 0).  2 in 3 tables have only constrained columns, so that groups 3, 4 and 5 are reached.
func genExcessTable(r *vlib.Rng) tableSpec {
	t := tableSpec{}
	ncols := r.Range(1, 5)
	allConstrained := r.Chance(2, 3)
	kinds := make([]int, ncols) // 0 px width on <col>, 1 px width on the cells, 2 percentage, 3 nothing
	empty := make([]bool, ncols)
	anyCol := false
	for j := range kinds {
		if allConstrained {
			kinds[j] = r.Intn(2)
		} else {
			kinds[j] = vlib.Pick(r, []int{0, 1, 1, 2, 3, 3})
		}
		empty[j] = r.Chance(1, 3)
		if kinds[j] == 0 {
			anyCol = true
		}
	}
	colPx := make([]int, ncols)
	for j := range colPx {
		colPx[j] = vlib.Pick(r, []int{0, 0, 10, 20, 40, 50, 80, 120})
	}
	if anyCol {
		var sb strings.Builder
		for j, k := range kinds {
			if k == 0 {
				fmt.Fprintf(&sb, `<col style="width:%dpx">`, colPx[j])
				t.colW = append(t.colW, fmt.Sprintf("%dpx", colPx[j]))
			} else {
				sb.WriteString(`<col>`)
				t.colW = append(t.colW, "")
			}
		}
		t.cols = sb.String()
		t.tags = append(t.tags, "cols")
	}
	gs := groupSpec{tag: "tbody"}
	for i, rows := 0, r.Range(1, 3); i < rows; i++ {
		rs := rowSpec{}
		for j := 0; j < ncols; j++ {
			c := cellSpec{colspan: 1, rowspan: 1}
			switch kinds[j] {
			case 1:
				c.width = fmt.Sprintf("%dpx", colPx[j])
			case 2:
				if i == 0 || r.Bool() {
					c.width = fmt.Sprintf("%g%%", vlib.Pick(r, []float64{10, 20, 25, 50}))
				}
			}
			if !empty[j] {
				for k, n := 0, r.Range(1, 3); k < n; k++ {
					c.words = append(c.words, r.Range(1, 5))
				}
				if r.Chance(1, 3) {
					c.pad = [4]float64{half(r, 0, 4), half(r, 0, 4), half(r, 0, 4), half(r, 0, 4)}
				}
				if r.Chance(1, 4) {
					c.border = float64(r.Range(0, 3))
				}
			}
			rs.cells = append(rs.cells, c)
		}
		if r.Chance(1, 8) && len(rs.cells) > 0 {
			rs.cells = rs.cells[:len(rs.cells)-1] // a short row
		}
		gs.rows = append(gs.rows, rs)
	}
	t.groups = []groupSpec{gs}
	switch r.Intn(6) {
	case 0:
		t.width = fmt.Sprintf("%g%%", vlib.Pick(r, []float64{50, 75, 100}))
	case 1:
		t.width = fmt.Sprintf("%dpx", r.Range(0, 30)*10)
	default:
		t.width = fmt.Sprintf("%dpx", r.Range(30, 120)*10)
	}
	if r.Chance(2, 3) {
		t.bsx, t.bsy = half(r, 0, 12), half(r, 0, 12)
	}
	t.collapse = r.Chance(1, 10)
	t.tags = append(t.tags, "gen:excess-stream")
	if allConstrained {
		t.tags = append(t.tags, "gen:all-columns-constrained")
	}
	for j := range empty {
		if empty[j] {
			t.tags = append(t.tags, "gen:empty-column")
			break
		}
	}
	if strings.HasSuffix(t.width, "%") {
		t.tags = append(t.tags, "width:%")
	} else {
		t.tags = append(t.tags, "width:px")
	}
	return t
}

// The paged stream: a table with many rows on short pages whose content boxes differ from page to page (:first /
// :left / :right margins, another size for the first page), so that the table is split into one fragment per page,
// each laid out against its own page.
func genPagedTable(r *vlib.Rng) tableSpec {
	t := tableSpec{}
	pw, ph := r.Range(30, 80)*10, r.Range(12, 30)*10
	var css strings.Builder
	fmt.Fprintf(&css, "@page { size: %dpx %dpx; margin: %dpx }\n", pw, ph, r.Range(0, 3)*10)
	switch r.Intn(6) {
	case 0:
		t.tags = append(t.tags, "pages:same-geometry")
	case 1, 2:
		fmt.Fprintf(&css, "@page :first { margin-left: %dpx }\n", r.Range(4, 15)*10)
		t.tags = append(t.tags, "pages:first-margin")
	case 3:
		fmt.Fprintf(&css, "@page :left { margin-left: %dpx; margin-right: %dpx }\n@page :right { margin-left: %dpx }\n", r.Range(0, 12)*10, r.Range(0, 6)*10, r.Range(0, 12)*10)
		t.tags = append(t.tags, "pages:left-right-margins")
	case 4:
		fmt.Fprintf(&css, "@page :first { size: %dpx %dpx }\n", r.Range(30, 80)*10, ph)
		t.tags = append(t.tags, "pages:first-size")
	default:
		fmt.Fprintf(&css, "@page :first { margin-left: %dpx; margin-top: %dpx }\n@page :left { margin-left: %dpx }\n", r.Range(4, 15)*10, r.Range(0, 8)*10, r.Range(0, 9)*10)
		t.tags = append(t.tags, "pages:first-and-left-margins")
	}
	t.pageCSS = css.String()
	t.fixed = r.Chance(1, 4)
	switch r.Intn(4) {
	case 0:
		t.width = ""
	case 1:
		t.width = fmt.Sprintf("%g%%", vlib.Pick(r, []float64{50, 75, 100, 40}))
	default:
		t.width = fmt.Sprintf("%dpx", r.Range(10, 28)*10)
	}
	if t.fixed && t.width == "" {
		t.width = "200px"
	}
	if r.Chance(2, 3) {
		t.bsx, t.bsy = half(r, 0, 8), half(r, 0, 8)
	}
	t.collapse = r.Chance(1, 8)
	ncols := r.Range(1, 4)
	var order []string
	if r.Chance(1, 3) {
		order = append(order, "thead")
	}
	order = append(order, "tbody")
	if r.Chance(1, 4) {
		order = append(order, "tbody")
	}
	if r.Chance(1, 4) {
		order = append(order, "tfoot")
	}
	for _, tag := range order {
		gs := groupSpec{tag: tag}
		rows := r.Range(5, 14)
		if tag != "tbody" {
			rows = 1
		}
		for i := 0; i < rows; i++ {
			rs := rowSpec{}
			if r.Chance(1, 8) {
				rs.height = fmt.Sprintf("%dpx", r.Range(2, 6)*10)
			}
			for j, cells := 0, r.Range(1, ncols); j < cells; j++ {
				c := cellSpec{colspan: 1, rowspan: 1}
				if r.Chance(1, 5) {
					c.colspan = r.Range(1, 3)
				}
				if tag == "tbody" && r.Chance(1, 8) {
					c.rowspan = 2
				}
				switch r.Intn(6) {
				case 0:
					c.width = fmt.Sprintf("%dpx", r.Range(0, 16)*5)
				case 1:
					c.width = fmt.Sprintf("%g%%", vlib.Pick(r, []float64{10, 20, 25, 50}))
				}
				if r.Chance(1, 3) {
					c.pad = [4]float64{half(r, 0, 4), half(r, 0, 4), half(r, 0, 4), half(r, 0, 4)}
				}
				if r.Chance(1, 3) {
					c.border = float64(r.Range(0, 3))
				}
				for k, n := 0, r.Range(0, 2); k < n; k++ {
					c.words = append(c.words, r.Range(1, 4))
				}
				rs.cells = append(rs.cells, c)
			}
			gs.rows = append(gs.rows, rs)
		}
		t.groups = append(t.groups, gs)
	}
	t.tags = append(t.tags, "gen:paged-stream")
	if t.fixed {
		t.tags = append(t.tags, "table-layout:fixed")
	}
	return t
}


// The collapsed-borders stream: auto layout of a `border-collapse: collapse` table whose cells have a border width of
// their own on EVERY SIDE (so that the used left and right border of a cell differ: the collapsed edge between two cells
// is the widest of the two candidates, half of it on each side), many empty / narrow cells, so that a column is as wide
// as the outer min-content width of ONE cell: the predicates "no cell has a negative used width" and "a cell is never
// narrower than the min-content width of its content" (CCells, codes 20 / 21) then say whether the preferred widths
// (preferred.go marginWidth / the cell offsets of the collapsing model) counted the borders tableLayout subtracts.
func genCollapseTable(r *vlib.Rng) tableSpec {
	t := tableSpec{collapse: true}
	switch r.Intn(6) {
	case 0:
		t.width = fmt.Sprintf("%dpx", r.Range(0, 30)*10)
	case 1:
		t.width = fmt.Sprintf("%dpx", r.Range(30, 90)*10)
	}
	if r.Chance(1, 3) {
		t.bsx, t.bsy = half(r, 0, 8), half(r, 0, 8) // ignored in the collapsing model
	}
	if r.Chance(1, 3) {
		t.tborder = float64(vlib.Pick(r, []int{1, 2, 4, 8, 16}))
	}
	ncols := r.Range(1, 4)
	side := func() float64 { return float64(vlib.Pick(r, []int{0, 0, 1, 2, 3, 4, 6, 10, 16, 24})) }
	order := []string{"tbody"}
	if r.Chance(1, 5) {
		order = []string{"thead", "tbody"}
	}
	for _, tag := range order {
		gs := groupSpec{tag: tag}
		for i, rows := 0, r.Range(1, 3); i < rows; i++ {
			rs := rowSpec{}
			for j := 0; j < ncols; j++ {
				c := cellSpec{colspan: 1, rowspan: 1}
				if r.Chance(1, 8) {
					c.colspan = 2
				}
				if r.Chance(1, 10) {
					c.rowspan = 2
				}
				switch r.Intn(4) {
				case 0: // uniform border
					c.border = float64(r.Range(0, 6))
				case 1: // no border of its own: takes what the neighbours give
				default:
					c.hasBW = true
					c.bw = [4]float64{side(), side(), side(), side()}
				}
				if !r.Chance(1, 3) {
					for k, n := 0, r.Range(1, 2); k < n; k++ {
						c.words = append(c.words, r.Range(1, 4))
					}
				}
				if r.Chance(1, 4) {
					c.pad = [4]float64{half(r, 0, 4), half(r, 0, 4), half(r, 0, 4), half(r, 0, 4)}
				}
				if r.Chance(1, 8) {
					c.width = fmt.Sprintf("%dpx", r.Range(0, 12)*5)
				}
				rs.cells = append(rs.cells, c)
			}
			if r.Chance(1, 8) && len(rs.cells) > 1 {
				rs.cells = rs.cells[:len(rs.cells)-1]
			}
			gs.rows = append(gs.rows, rs)
		}
		t.groups = append(t.groups, gs)
	}
	t.tags = append(t.tags, "gen:collapse-stream", "collapse")
	if t.width == "" {
		t.tags = append(t.tags, "width:auto")
	} else {
		t.tags = append(t.tags, "width:px")
	}
	return t
}

func pct(v float64) string {
	return strconv.FormatFloat(math.Round(v*100)/100, 'f', -1, 64) + "%"
}

// The percentage-span stream: auto layout; a contiguous range of 1-3 columns with percentage widths whose SUM is drawn
// around the 100 % boundary (exactly 100, 100.01 - clamped to 100 by the preferred widths -, 99.99, 90, 110, 150), the
// other columns without percentage (px width on the cells, nothing, empty); a row with a colspan cell over the percentage
// range (or one column more / less) whose content is wider than its columns, so that the colspan call of
// distributeExcessWidth inside tableAndColumnsPreferredWidths reaches its percentage group with percentageWidth on both
// sides of / exactly at 100 and a non-zero fixed width; a specified table width above the max-content width in half of
// the tables, so that the top-level call does the same.
func genPctSpanTable(r *vlib.Rng) tableSpec {
	t := tableSpec{}
	k := r.Range(1, 3)         // percentage columns
	before := r.Range(0, 1)    // other columns before the range
	after := r.Range(0, 2)     // ... and after it
	if before+after == 0 && r.Chance(3, 4) {
		after = 1
	}
	ncols := before + k + after
	total := vlib.Pick(r, []float64{100, 100, 100, 100.01, 99.99, 90, 110, 150})
	ps := make([]float64, k)
	left := total
	for j := 0; j < k-1; j++ {
		ps[j] = vlib.Pick(r, []float64{10, 20, 25, 30, 50, 12.5, 33.33})
		if ps[j] >= left {
			ps[j] = math.Round(left*50) / 100
		}
		left -= ps[j]
	}
	ps[k-1] = left
	otherKind := make([]int, ncols) // 0 px width on the cells, 1 nothing, 2 empty cells
	for j := range otherKind {
		otherKind[j] = vlib.Pick(r, []int{0, 0, 1, 1, 1, 2})
	}
	single := func(j int, first bool) cellSpec {
		c := cellSpec{colspan: 1, rowspan: 1}
		if j >= before && j < before+k {
			if first || r.Chance(1, 3) {
				c.width = pct(ps[j-before])
			}
			if r.Chance(2, 3) {
				c.words = []int{r.Range(1, 4)}
			}
			return c
		}
		switch otherKind[j] {
		case 0:
			c.width = fmt.Sprintf("%dpx", vlib.Pick(r, []int{10, 20, 40, 50, 80}))
			c.words = []int{r.Range(1, 4)}
		case 1:
			for i, n := 0, r.Range(1, 2); i < n; i++ {
				c.words = append(c.words, r.Range(1, 5))
			}
		}
		if r.Chance(1, 4) {
			c.pad = [4]float64{half(r, 0, 4), half(r, 0, 4), half(r, 0, 4), half(r, 0, 4)}
		}
		return c
	}
	gs := groupSpec{tag: "tbody"}
	row0 := rowSpec{}
	for j := 0; j < ncols; j++ {
		row0.cells = append(row0.cells, single(j, true))
	}
	// the row with the spanning cell
	a, b := before, before+k // [a, b) = columns of the spanning cell
	switch r.Intn(6) {
	case 0:
		if a > 0 {
			a--
		}
	case 1:
		if b < ncols {
			b++
		}
	case 2:
		if b-a > 1 {
			b--
		}
	}
	row1 := rowSpec{}
	for j := 0; j < a; j++ {
		row1.cells = append(row1.cells, single(j, false))
	}
	sp := cellSpec{colspan: b - a, rowspan: 1}
	for i, n := 0, r.Range(1, 2); i < n; i++ {
		sp.words = append(sp.words, vlib.Pick(r, []int{2, 6, 10, 16, 24}))
	}
	if r.Chance(1, 4) {
		sp.width = fmt.Sprintf("%dpx", r.Range(5, 40)*10)
	}
	row1.cells = append(row1.cells, sp)
	for j := b; j < ncols; j++ {
		row1.cells = append(row1.cells, single(j, false))
	}
	gs.rows = []rowSpec{row0, row1}
	if r.Chance(1, 2) {
		gs.rows = []rowSpec{row1, row0}
	}
	if r.Chance(1, 3) {
		row2 := rowSpec{}
		for j := 0; j < ncols; j++ {
			row2.cells = append(row2.cells, single(j, false))
		}
		gs.rows = append(gs.rows, row2)
	}
	t.groups = []groupSpec{gs}
	switch r.Intn(4) {
	case 0, 1:
		t.width = ""
	case 2:
		t.width = fmt.Sprintf("%dpx", r.Range(30, 120)*10)
	default:
		t.width = fmt.Sprintf("%dpx", r.Range(0, 40)*10)
	}
	if r.Chance(2, 3) {
		t.bsx, t.bsy = half(r, 0, 8), half(r, 0, 8)
	}
	t.tags = append(t.tags, "gen:percentage-span-stream", "gen:percentage-sum="+pct(total))
	if t.width == "" {
		t.tags = append(t.tags, "width:auto")
	} else {
		t.tags = append(t.tags, "width:px")
	}
	return t
}

// A NaN or an infinite width / position / size anywhere in the laid-out table (or in what the width algorithms
// returned for it) cannot be written as a Q: the table is reported (Check/C13.v code 22) instead of being skipped.
func nonFiniteCase(kind, src string, tags []string, site int, what string, vals []Fl) vlib.Case {
	bad := 0
	strs := make([]string, len(vals))
	for i, v := range vals {
		if !finite(v) {
			bad++
		}
		strs[i] = fmt.Sprint(v)
	}
	tags = append(append([]string{}, tags...), "non-finite:"+what)
	sort.Strings(tags)
	return vlib.Case{Kind: kind + "-nonfinite", Tags: tags, Nontrivial: true,
		Coq:  fmt.Sprintf("CNonFinite %d %d %d", site, len(vals), bad),
		Desc: map[string]interface{}{"html": src, "where": what, "values": strs}}
}

func (t tableSpec) html() string {
	var sb strings.Builder
	sb.WriteString(`<html><head><style>`)
	if t.pageCSS != "" {
		sb.WriteString(t.pageCSS)
	} else {
		fmt.Fprintf(&sb, "@page { size: %dpx 20000px; margin: 0 }\n", pageWidth)
	}
	sb.WriteString("html, body { margin: 0; padding: 0 }\nbody { font: 16px/20px Ahem }\n")
	sb.WriteString("td { vertical-align: top; padding: 0 }\ntable { box-sizing: content-box }\n")
	sb.WriteString(`</style></head><body>`)
	style := fmt.Sprintf("border-spacing:%gpx %gpx;", t.bsx, t.bsy)
	if t.fixed {
		style += "table-layout:fixed;"
	}
	if t.width != "" {
		style += "width:" + t.width + ";"
	}
	if t.collapse {
		style += "border-collapse:collapse;"
	}
	if t.tborder > 0 {
		style += fmt.Sprintf("border:%gpx solid black;", t.tborder)
	}
	if t.rtl {
		style += "direction:rtl;"
	}
	fmt.Fprintf(&sb, `<table style="%s">`, style)
	if t.caption != "" {
		fmt.Fprintf(&sb, `<caption style="caption-side:%s">xx xx</caption>`, t.caption)
	}
	sb.WriteString(t.cols)
	for _, g := range t.groups {
		fmt.Fprintf(&sb, "<%s>", g.tag)
		for _, r := range g.rows {
			st := ""
			if r.height != "" {
				st = "height:" + r.height
			}
			fmt.Fprintf(&sb, `<tr style="%s">`, st)
			for _, c := range r.cells {
				st := fmt.Sprintf("padding:%gpx %gpx %gpx %gpx;", c.pad[0], c.pad[1], c.pad[2], c.pad[3])
				if c.hasBW {
					st += fmt.Sprintf("border-style:solid;border-color:black;border-width:%gpx %gpx %gpx %gpx;", c.bw[0], c.bw[1], c.bw[2], c.bw[3])
				} else if c.border > 0 {
					st += fmt.Sprintf("border:%gpx solid black;", c.border)
				}
				if c.width != "" {
					st += "width:" + c.width + ";"
				}
				if c.height != "" {
					st += "height:" + c.height + ";"
				}
				attrs := ""
				if c.colspan != 1 {
					attrs += fmt.Sprintf(` colspan="%d"`, c.colspan)
				}
				if c.rowspan != 1 {
					attrs += fmt.Sprintf(` rowspan="%d"`, c.rowspan)
				}
				var words []string
				for _, w := range c.words {
					words = append(words, strings.Repeat("x", w))
				}
				fmt.Fprintf(&sb, `<td%s style="%s">%s</td>`, attrs, st, strings.Join(words, " "))
			}
			sb.WriteString("</tr>")
		}
		fmt.Fprintf(&sb, "</%s>", g.tag)
	}
	sb.WriteString(`</table></body></html>`)
	return sb.String()
}

// ---------------------------------------------------------------- table structure and its grid

// The table as the DOCUMENT gives it: row groups in document order, rows, cells with their span attributes.
// For generated tables it comes from the generator's specification, for corpus files from the parsed HTML;
// never from the boxes.
type sCell struct {
	colspanAttr, rowspanAttr int
	width                    string // css width of the cell, "" = auto
	minGlyphs                int    // longest word of the cell's content in glyphs (generated documents; 0 = unknown / empty)
}
type sGroup struct {
	kind int // 0 tbody, 1 thead, 2 tfoot
	rows [][]sCell
}
type tStruct struct {
	ok   bool
	gs   []sGroup
	colW []string // css width of each column box ("" = auto)
}

func (t tableSpec) tstruct() tStruct { return tStruct{true, t.structure(), t.colW} }
func (st tStruct) facts() gridFacts { return structGrid(st.gs, st.colW) }

func (t tableSpec) structure() []sGroup {
	var out []sGroup
	for _, g := range t.groups {
		sg := sGroup{}
		switch g.tag {
		case "thead":
			sg.kind = 1
		case "tfoot":
			sg.kind = 2
		}
		for _, r := range g.rows {
			row := []sCell{}
			for _, c := range r.cells {
				mg := 0
				for _, w := range c.words {
					if w > mg {
						mg = w
					}
				}
				row = append(row, sCell{c.colspan, c.rowspan, c.width, mg})
			}
			sg.rows = append(sg.rows, row)
		}
		out = append(out, sg)
	}
	return out
}

func intAttr(n *html.Node, key string) (int, bool) {
	for _, a := range n.Attr {
		if a.Key == key {
			v, err := strconv.Atoi(strings.TrimSpace(a.Val))
			if err != nil {
				return 0, false
			}
			return v, true
		}
	}
	return 1, true
}

var widthRe = regexp.MustCompile(`(?:^|;)\s*width\s*:\s*([^;]+)`)

func styleWidth(n *html.Node) string {
	for _, a := range n.Attr {
		if a.Key == "style" {
			if m := widthRe.FindStringSubmatch(a.Val); m != nil {
				w := strings.TrimSpace(m[1])
				if w == "auto" {
					return ""
				}
				return w
			}
		}
	}
	return ""
}

// css widths of the column boxes of a <table> (col / colgroup children), in order
func columnWidthsFromHTML(table *html.Node) []string {
	var out []string
	span := func(n *html.Node) int {
		k, ok := intAttr(n, "span")
		if !ok || k < 1 {
			k = 1
		}
		return k
	}
	for c := table.FirstChild; c != nil; c = c.NextSibling {
		if c.Type != html.ElementNode {
			continue
		}
		switch c.Data {
		case "col":
			for j := 0; j < span(c); j++ {
				out = append(out, styleWidth(c))
			}
		case "colgroup":
			gw := styleWidth(c)
			any := false
			for cc := c.FirstChild; cc != nil; cc = cc.NextSibling {
				if cc.Type == html.ElementNode && cc.Data == "col" {
					any = true
					w := styleWidth(cc)
					if w == "" {
						w = gw
					}
					for j := 0; j < span(cc); j++ {
						out = append(out, w)
					}
				}
			}
			if !any {
				for j := 0; j < span(c); j++ {
					out = append(out, gw)
				}
			}
		}
	}
	return out
}

// structure of the first <table> of a document made of thead / tbody / tfoot > tr > td only
// (anything else: not a structure this harness can state, ok = false)
func structureFromHTML(src string) (gsOut []sGroup, colW []string, okOut bool) {
	doc, err := html.Parse(strings.NewReader(src))
	if err != nil {
		return nil, nil, false
	}
	var table *html.Node
	var find func(n *html.Node)
	find = func(n *html.Node) {
		if table != nil {
			return
		}
		if n.Type == html.ElementNode && n.Data == "table" {
			table = n
			return
		}
		for c := n.FirstChild; c != nil; c = c.NextSibling {
			find(c)
		}
	}
	find(doc)
	if table == nil {
		return nil, nil, false
	}
	elements := func(n *html.Node) (out []*html.Node, ok bool) {
		for c := n.FirstChild; c != nil; c = c.NextSibling {
			switch c.Type {
			case html.ElementNode:
				out = append(out, c)
			case html.TextNode:
				if strings.TrimSpace(c.Data) != "" {
					return nil, false
				}
			}
		}
		return out, true
	}
	var out []sGroup
	groups, ok := elements(table)
	if !ok {
		return nil, nil, false
	}
	for _, g := range groups {
		sg := sGroup{}
		switch g.Data {
		case "caption", "colgroup", "col":
			continue
		case "tbody":
		case "thead":
			sg.kind = 1
		case "tfoot":
			sg.kind = 2
		default:
			return nil, nil, false
		}
		rows, ok := elements(g)
		if !ok {
			return nil, nil, false
		}
		for _, r := range rows {
			if r.Data != "tr" {
				return nil, nil, false
			}
			cells, ok := elements(r)
			if !ok {
				return nil, nil, false
			}
			row := []sCell{}
			for _, c := range cells {
				if c.Data != "td" {
					return nil, nil, false
				}
				cs, ok1 := intAttr(c, "colspan")
				rs, ok2 := intAttr(c, "rowspan")
				if !ok1 || !ok2 {
					return nil, nil, false
				}
				row = append(row, sCell{cs, rs, styleWidth(c), 0})
			}
			sg.rows = append(sg.rows, row)
		}
		out = append(out, sg)
	}
	return out, columnWidthsFromHTML(table), true
}

func structureTerm(gs []sGroup) string {
	var groups []string
	for _, g := range gs {
		var rows []string
		for _, r := range g.rows {
			var cells []string
			for _, c := range r {
				cells = append(cells, fmt.Sprintf("(GC %s %s)", vlib.Z(c.colspanAttr), vlib.Z(c.rowspanAttr)))
			}
			rows = append(rows, "["+strings.Join(cells, "; ")+"]")
		}
		groups = append(groups, fmt.Sprintf("(GG %d [%s])", g.kind, strings.Join(rows, "; ")))
	}
	return "[" + strings.Join(groups, "; ") + "]"
}

// Structural facts used ONLY for tags (known-finding matchers, distribution) and for the input norig of the
// width contract.  This is a second statement of the slot rule (CSS 2.1 17.5 / HTML table model: each cell on the
// first column of its row not taken by a cell spanning from a row above of the same group); Check/C13.v recomputes
// the two numbers with the proved model and reports code 15 when they differ.
type placedCell struct{ x, y, w, h int } // y: row index in the group
type gridFacts struct {
	width, norig int
	groups       [][]placedCell // in processing order: header, bodies, footer
	// a colspan>1 cell whose columns meet a slot taken by a cell row-spanning from above
	colspanOverRowspan bool
	// a column of the grid in which no cell originates
	columnWithoutOrigin bool
	// a row-spanning cell in a group that is not the last one processed
	multiGroupRowspan bool
	// every column of the grid has a width of its own: from its col / colgroup element, from a cell with colspan 1
	// originating in it, or (percentages only) from a column-spanning cell covering it
	allColumnsDetermined bool
	// some column box or cell has a percentage width
	anyPercentage bool
	// a colspan>1 cell all of whose columns have a px width of their own (col / colgroup / colspan-1 cell): no
	// unconstrained column can take the part of its content that exceeds its columns
	colspanOverPxColumnsOnly bool
}

func clampSpan(v, lo, hi int) int {
	if v < lo {
		v = lo
	}
	if v > hi {
		v = hi
	}
	return v
}

func orderGroups(gs []sGroup) []sGroup {
	var header, footer *sGroup
	var bodies []sGroup
	for i := range gs {
		g := gs[i]
		if g.kind == 1 && header == nil {
			header = &g
		} else if g.kind == 2 && footer == nil {
			footer = &g
		} else {
			bodies = append(bodies, g)
		}
	}
	var out []sGroup
	if header != nil {
		out = append(out, *header)
	}
	out = append(out, bodies...)
	if footer != nil {
		out = append(out, *footer)
	}
	return out
}

func structGrid(gs []sGroup, colW []string) gridFacts {
	f := gridFacts{}
	origin := map[int]bool{}
	determined := map[int]bool{}
	pxCol := map[int]bool{}
	var spanning [][2]int
	for j, w := range colW {
		if w != "" {
			determined[j] = true
			if strings.HasSuffix(w, "%") {
				f.anyPercentage = true
			} else {
				pxCol[j] = true
			}
		}
	}
	ordered := orderGroups(gs)
	for gi, g := range ordered {
		n := len(g.rows)
		// taken[y][x]: slot covered by a cell of a row above
		taken := make([]map[int]bool, n)
		for i := range taken {
			taken[i] = map[int]bool{}
		}
		var placed []placedCell
		for y, row := range g.rows {
			x := 0
			for _, c := range row {
				for taken[y][x] {
					x++
				}
				w := clampSpan(c.colspanAttr, 1, 1000)
				h := clampSpan(c.rowspanAttr, 0, 65534)
				if h == 0 || h > n-y {
					h = n - y
				}
				for xx := x; xx < x+w; xx++ {
					if taken[y][xx] {
						f.colspanOverRowspan = true
					}
				}
				for yy := y + 1; yy < y+h; yy++ {
					for xx := x; xx < x+w; xx++ {
						taken[yy][xx] = true
					}
				}
				if h > 1 && gi+1 < len(ordered) {
					f.multiGroupRowspan = true
				}
				placed = append(placed, placedCell{x, y, w, h})
				origin[x] = true
				if w > 1 {
					spanning = append(spanning, [2]int{x, w})
				}
				if strings.HasSuffix(c.width, "%") {
					f.anyPercentage = true
				} else if c.width != "" && w == 1 {
					pxCol[x] = true
				}
				if c.width != "" {
					if w == 1 {
						determined[x] = true
					} else if strings.HasSuffix(c.width, "%") {
						for xx := x; xx < x+w; xx++ {
							determined[xx] = true
						}
					}
				}
				x += w
				if x > f.width {
					f.width = x
				}
			}
		}
		f.groups = append(f.groups, placed)
	}
	for _, sp := range spanning {
		all := true
		for xx := sp[0]; xx < sp[0]+sp[1] && xx < f.width; xx++ {
			if !pxCol[xx] {
				all = false
			}
		}
		if all {
			f.colspanOverPxColumnsOnly = true
		}
	}
	f.norig = len(origin)
	f.columnWithoutOrigin = f.norig < f.width
	f.allColumnsDetermined = f.width > 0
	for j := 0; j < f.width; j++ {
		if !determined[j] {
			f.allColumnsDetermined = false
		}
	}
	return f
}

// the grid the implementation assigned (BuildFormattingStructure), as the term Check/C13.v compares
func observedGridTerm(tb *bo.TableBox, desc *strings.Builder) string {
	var groups []string
	for gi, g := range tb.Children {
		role := 0
		if g.Box().IsHeader {
			role = 1
		} else if g.Box().IsFooter {
			role = 2
		}
		var rows []string
		for ri, r := range g.Box().Children {
			var cells []string
			for ci, c := range r.Box().Children {
				f := c.Box()
				cells = append(cells, fmt.Sprintf("(GO %s %s %s)", vlib.Z(f.GridX), vlib.Z(f.Colspan), vlib.Z(f.Rowspan)))
				fmt.Fprintf(desc, "group %d (role %d) row %d cell %d: GridX=%d Colspan=%d Rowspan=%d\n", gi, role, ri, ci, f.GridX, f.Colspan, f.Rowspan)
			}
			rows = append(rows, "["+strings.Join(cells, "; ")+"]")
		}
		groups = append(groups, fmt.Sprintf("(GOG %d [%s])", role, strings.Join(rows, "; ")))
	}
	return "[" + strings.Join(groups, "; ") + "]"
}

func structureDesc(gs []sGroup) string {
	var sb strings.Builder
	names := []string{"tbody", "thead", "tfoot"}
	for gi, g := range gs {
		for ri, r := range g.rows {
			fmt.Fprintf(&sb, "%s#%d row %d:", names[g.kind], gi, ri)
			for _, c := range r {
				fmt.Fprintf(&sb, " td[colspan=%d rowspan=%d]", c.colspanAttr, c.rowspanAttr)
			}
			sb.WriteString("\n")
		}
	}
	return sb.String()
}

func structTags(f gridFacts, gs []sGroup) []string {
	tags := []string{fmt.Sprintf("row-groups:%d", len(gs))}
	if f.multiGroupRowspan {
		tags = append(tags, "struct:rowspan-before-later-group")
	}
	if f.colspanOverRowspan {
		tags = append(tags, "struct:colspan-over-rowspan")
	}
	if f.columnWithoutOrigin {
		tags = append(tags, "struct:column-without-originating-cell")
	}
	return tags
}

// one CGrid case: structure vs the grid of the table box before layout; ncols = number of columns the layout used
// (-1: no layout run)
func gridCase(src string, st tStruct, tb *bo.TableBox, auto bool, ncols int, baseTags []string, kind string) vlib.Case {
	gs := st.gs
	f := st.facts()
	var desc strings.Builder
	obs := observedGridTerm(tb, &desc)
	tags := append([]string{}, baseTags...)
	sort.Strings(tags)
	nontrivial := false
	for _, g := range f.groups {
		for _, c := range g {
			if c.h > 1 || c.w > 1 {
				nontrivial = true
			}
		}
	}
	return vlib.Case{Kind: kind + "-grid", Tags: tags, Nontrivial: nontrivial,
		Coq: fmt.Sprintf("CGrid %s %s %s %s %s %s", structureTerm(gs), obs, vlib.Bool(auto), vlib.Z(ncols), vlib.Z(f.width), vlib.Z(f.norig)),
		Desc: map[string]interface{}{"html": src, "structure": structureDesc(gs), "implementation_grid": desc.String(),
			"auto_layout": auto, "columns_after_layout": ncols}}
}

// ---------------------------------------------------------------- box tree before layout

func buildBoxes(src string) (bo.Box, error) {
	h, err := tree.NewHTML(utils.InputString(src), baseURL, utils.DefaultUrlFetcher, "")
	if err != nil {
		return nil, err
	}
	h.UAStyleSheet = tree.TestUAStylesheet
	cs := make(counters.CounterStyle)
	sf := tree.GetAllComputedStyles(h, nil, false, nil, cs, nil, nil, false, nil)
	cache := images.NewCache()
	imgFetcher := func(url string, forcedMimeType string, orientation pr.SBoolFloat) images.Image {
		return images.GetImageFromUri(cache, h.UrlFetcher, false, url, forcedMimeType, orientation)
	}
	tc := tree.NewTargetCollector()
	var box bo.Box
	o := render.Guard(func() {
		box = bo.BuildFormattingStructure(h.Root, sf, bo.URLResolver{Fetch: h.UrlFetcher, FetchImage: imgFetcher}, h.BaseUrl, &tc, cs, new([]bo.Box))
	})
	if o.Status != "ok" {
		return nil, fmt.Errorf("panic: %s", o.Msg)
	}
	return box, nil
}

func findWrapper(b bo.Box) bo.Box {
	if b.Box().IsTableWrapper {
		return b
	}
	for _, c := range b.Box().Children {
		if w := findWrapper(c); w != nil {
			return w
		}
	}
	return nil
}

// ---------------------------------------------------------------- fixed layout (unit level)

func fixedCase(src string, tags []string, kind string, st tStruct, w *vlib.Writer) (vlib.Case, bool) {
	root, err := buildBoxes(src)
	if err != nil {
		return vlib.Case{}, false
	}
	wrapper := findWrapper(root)
	if wrapper == nil {
		return vlib.Case{}, false
	}
	table := wrapper.Box().GetWrappedTable()
	tb := table.Table()
	if st.ok && w != nil {
		tags = append(append([]string{}, tags...), structTags(st.facts(), st.gs)...)
		w.Add(gridCase(src, st, tb, false, -1, tags, kind))
	}
	layout.VerifC13ResolveTable(table, pageWidth)
	w0, ok := mf(tb.Width)
	if !ok || tb.Style.GetTableLayout() != "fixed" {
		return vlib.Case{}, false
	}
	var bsx Fl
	if tb.Style.GetBorderCollapse() == "separate" {
		bsx = tb.Style.GetBorderSpacing()[0].Value
	}
	var firstRow []bo.Box
	if len(tb.Children) != 0 && len(tb.Children[0].Box().Children) != 0 {
		firstRow = tb.Children[0].Box().Children[0].Box().Children
	}
	colspans := make([]int, len(firstRow))
	for i, c := range firstRow {
		colspans[i] = c.Box().Colspan
	}
	o := render.Guard(func() { layout.VerifC13FixedTableLayout(wrapper) })
	status := 0
	if o.Status != "ok" {
		status = 1
		tags = append(tags, "impl-panic")
	}
	// inputs as the code resolved them
	var cols []string
	for _, g := range tb.ColumnGroups {
		for _, c := range g.Children {
			cols = append(cols, optQ(c.Box().Width))
		}
	}
	var cells []string
	for i, c := range firstRow {
		f := c.Box()
		bw := "ON"
		if _, ok := mf(f.Width); ok {
			bw = "(OS " + q(f.BorderWidth()) + ")"
		}
		cells = append(cells, fmt.Sprintf("(FC %s %s)", vlib.Z(colspans[i]), bw))
	}
	outW, _ := mf(tb.Width)
	var outCW []Fl
	for _, w := range tb.ColumnWidths {
		outCW = append(outCW, w)
	}
	if !finite(append(outCW, outW, w0)...) {
		return nonFiniteCase(kind, src, tags, 6, "fixedTableLayout: column widths / table width", append(outCW, outW, w0)), true
	}
	coq := fmt.Sprintf("CFixed %s [%s] [%s] %s %d %s %s", q(w0), strings.Join(cols, "; "), strings.Join(cells, "; "), q(bsx), status, qs(outCW), q(outW))
	return vlib.Case{Kind: kind, Coq: coq, Tags: tags, Nontrivial: len(outCW) > 1,
		Desc: map[string]interface{}{"html": src, "table_width_in": w0, "border_spacing_x": bsx, "columns": cols, "first_row_cells": cells,
			"column_widths_out": outCW, "table_width_out": outW, "panic": o.Msg}}, true
}

// ---------------------------------------------------------------- full layout

var fonts text.FontConfiguration

type preCell struct{ gridx, colspan, rowspan int }

func preLayoutGrid(src string) ([][][]preCell, *bo.TableBox, bool) {
	root, err := buildBoxes(src)
	if err != nil {
		return nil, nil, false
	}
	wrapper := findWrapper(root)
	if wrapper == nil {
		return nil, nil, false
	}
	tb := wrapper.Box().GetWrappedTable().Table()
	var out [][][]preCell
	for _, g := range tb.Children {
		var rows [][]preCell
		for _, r := range g.Box().Children {
			var cells []preCell
			for _, c := range r.Box().Children {
				cells = append(cells, preCell{c.Box().GridX, c.Box().Colspan, c.Box().Rowspan})
			}
			rows = append(rows, cells)
		}
		out = append(out, rows)
	}
	return out, tb, true
}

func findTable(b bo.Box) *bo.TableBox {
	if t, ok := b.(bo.TableBoxITF); ok {
		return t.Table()
	}
	for _, c := range b.Box().Children {
		if t := findTable(c); t != nil {
			return t
		}
	}
	return nil
}

func layoutCases(src string, baseTags []string, kind string, st tStruct, w *vlib.Writer) {
	hasStruct, gs := st.ok, st.gs
	pre, preTb, ok := preLayoutGrid(src)
	if !ok {
		return
	}
	var facts gridFacts
	if hasStruct {
		facts = st.facts()
		baseTags = append(append([]string{}, baseTags...), structTags(facts, gs)...)
	}
	var pages []*bo.PageBox
	o := render.GuardTimeout(20e9, func() {
		pages, _ = render.Layout(src, nil, false, true, fonts)
	})
	var tb *bo.TableBox
	if o.Status == "ok" && len(pages) == 1 {
		tb = findTable(pages[0])
	}
	if hasStruct {
		// the grid of the structure against the grid the boxes got, and the number of columns the auto layout used
		auto, ncols := false, -1
		if tb != nil {
			auto = !(tb.Style.GetTableLayout() == "fixed" && tb.Style.GetWidth().S != "auto")
			ncols = len(tb.ColumnWidths)
		}
		w.Add(gridCase(src, st, preTb, auto, ncols, baseTags, kind))
	}
	if tb == nil {
		// crashes / hangs of the whole layout belong to C01; multi-page tables are out of scope
		return
	}
	rtl := tb.Style.GetDirection() != "ltr"
	collapse := tb.Style.GetBorderCollapse() == "collapse"
	var bsx, bsy Fl
	if !collapse {
		sp := tb.Style.GetBorderSpacing()
		bsx, bsy = sp[0].Value, sp[1].Value
	}
	x0, y0 := tb.ContentBoxX(), tb.ContentBoxY()
	widths := tb.ColumnWidths
	tableW, _ := mf(tb.Width)
	if len(tb.Children) != len(pre) {
		return
	}
	all := append([]Fl{x0, y0, tableW}, widths...)
	all = append(all, tb.ColumnPositions...)
	if !finite(all...) {
		w.Add(nonFiniteCase(kind, src, baseTags, 1, "laid-out table: content box x / y, table width, ColumnWidths, ColumnPositions", all))
		return
	}
	// min-content width of every cell's content, from the generator's specification of the document
	var ordered []sGroup
	if hasStruct {
		ordered = orderGroups(gs)
	}
	var cellTerms []string
	var descC strings.Builder
	var cellVals []Fl
	var descH, descV strings.Builder
	var hrows, vgroups []string
	okAll := true
	spanning, colspanning := false, false
	for gi, g := range tb.Children {
		gf := g.Box()
		if len(gf.Children) != len(pre[gi]) {
			return
		}
		var vrows []string
		var obsRows []string
		for ri, r := range gf.Children {
			rf := r.Box()
			pc := pre[gi][ri]
			if len(rf.Children) > len(pc) {
				return
			}
			// horizontal: inputs are all the cells the row had before layout
			var hin, hobs []string
			for ci, p := range pc {
				var pl, prr, bl, br Fl
				if ci < len(rf.Children) {
					f := rf.Children[ci].Box()
					pl, prr, bl, br = f.PaddingLeft.V(), f.PaddingRight.V(), f.BorderLeftWidth, f.BorderRightWidth
				}
				hin = append(hin, fmt.Sprintf("(HC %s %s %s %s %s %s)", vlib.Z(p.gridx), vlib.Z(p.colspan), q(pl), q(prr), q(bl), q(br)))
				if p.colspan > 1 || p.rowspan != 1 {
					spanning = true
				}
				if p.colspan > 1 {
					colspanning = true
				}
			}
			// vertical: the cells that were laid out
			var vin, vobs []string
			for ci, c := range rf.Children {
				f := c.Box()
				wv, _ := mf(f.Width)
				cellVals = append(cellVals, f.PositionX, wv, f.BorderWidth(), f.PositionY, f.BorderHeight())
				if !finite(f.PositionX, wv, f.BorderWidth(), f.PositionY, f.BorderHeight()) {
					okAll = false
				}
				var mc Fl
				if gi < len(ordered) && ri < len(ordered[gi].rows) && ci < len(ordered[gi].rows[ri]) {
					mc = Fl(16 * ordered[gi].rows[ri][ci].minGlyphs) // body { font: 16px Ahem }: every glyph advances 16px
				}
				cellTerms = append(cellTerms, fmt.Sprintf("(CCell %s %s)", q(wv), q(mc)))
				fmt.Fprintf(&descC, "g%d r%d c%d content width=%v min-content of the content=%v (padding %v %v, borders %v %v)\n", gi, ri, ci, wv, mc, f.PaddingLeft.V(), f.PaddingRight.V(), f.BorderLeftWidth, f.BorderRightWidth)
				hobs = append(hobs, fmt.Sprintf("(HO %s %s %s %s)", vlib.Z(f.Colspan), q(f.PositionX), q(wv), q(f.BorderWidth())))
				pbStyle := f.Style.GetPaddingBottom().Value
				natural := f.BorderHeight() - (f.PaddingBottom.V() - pbStyle)
				vin = append(vin, fmt.Sprintf("(VC %s %s)", vlib.Z(pc[ci].rowspan), q(natural)))
				vobs = append(vobs, fmt.Sprintf("(VO %s %s)", q(f.PositionY), q(f.BorderHeight())))
				fmt.Fprintf(&descH, "g%d r%d c%d gridx=%d colspan=%d->%d x=%v w=%v bw=%v\n", gi, ri, ci, pc[ci].gridx, pc[ci].colspan, f.Colspan, f.PositionX, wv, f.BorderWidth())
				fmt.Fprintf(&descV, "g%d r%d c%d rowspan=%d y=%v bh=%v natural=%v\n", gi, ri, ci, pc[ci].rowspan, f.PositionY, f.BorderHeight(), natural)
			}
			hrows = append(hrows, fmt.Sprintf("(HRow [%s] [%s])", strings.Join(hin, "; "), strings.Join(hobs, "; ")))
			specH := "ON"
			if hs := rf.Style.GetHeight(); hs.S != "auto" && hs.Unit == pr.Px {
				specH = "(OS " + q(hs.Value) + ")"
			}
			rh, _ := mf(rf.Height)
			vrows = append(vrows, fmt.Sprintf("(VIn %s [%s])", specH, strings.Join(vin, "; ")))
			obsRows = append(obsRows, fmt.Sprintf("(VRow %s %s [%s])", q(rf.PositionY), q(rh), strings.Join(vobs, "; ")))
			fmt.Fprintf(&descV, "g%d r%d y=%v h=%v spec=%s\n", gi, ri, rf.PositionY, rh, specH)
		}
		gh, _ := mf(gf.Height)
		vgroups = append(vgroups, fmt.Sprintf("(VGroup %s %s [%s] [%s])", q(gf.PositionY), q(gh), strings.Join(vrows, "; "), strings.Join(obsRows, "; ")))
		fmt.Fprintf(&descV, "g%d y=%v h=%v\n", gi, gf.PositionY, gh)
	}
	if !okAll {
		w.Add(nonFiniteCase(kind, src, baseTags, 2, "laid-out cells: PositionX, Width, border-box width, PositionY, border-box height", cellVals))
		return
	}
	tags := append([]string{}, baseTags...)
	if spanning {
		tags = append(tags, "spans")
	}
	if rtl {
		tags = append(tags, "dir:rtl")
		if colspanning {
			tags = append(tags, "dir:rtl+colspan")
		}
	}
	sort.Strings(tags)
	common := map[string]interface{}{"html": src, "x0": x0, "y0": y0, "border_spacing": []Fl{bsx, bsy}, "column_widths": widths, "column_positions": tb.ColumnPositions, "table_width": tableW}
	// horizontal
	dh := map[string]interface{}{"cells": descH.String()}
	for k, v := range common {
		dh[k] = v
	}
	if rtl {
		// direction: rtl: the columns run from the right edge of the content box, a cell sits on the LAST column it spans
		dh["direction"] = "rtl"
		w.Add(vlib.Case{Kind: kind + "-horiz-rtl", Tags: tags, Nontrivial: len(widths) > 1,
			Coq:  fmt.Sprintf("CHorizRtl %s %s %s %s %s [%s]", q(x0), q(tableW), q(bsx), qs(widths), qs(tb.ColumnPositions), strings.Join(hrows, "; ")),
			Desc: dh})
	} else {
		w.Add(vlib.Case{Kind: kind + "-horiz", Tags: tags, Nontrivial: len(widths) > 1,
			Coq:  fmt.Sprintf("CHoriz %s %s %s %s [%s]", q(x0), q(bsx), qs(widths), qs(tb.ColumnPositions), strings.Join(hrows, "; ")),
			Desc: dh})
	}
	// vertical
	dv := map[string]interface{}{"cells": descV.String()}
	for k, v := range common {
		dv[k] = v
	}
	w.Add(vlib.Case{Kind: kind + "-vert", Tags: tags, Nontrivial: len(hrows) > 1,
		Coq:  fmt.Sprintf("CVert %s %s [%s]", q(y0), q(bsy), strings.Join(vgroups, "; ")),
		Desc: dv})
	// the width algorithm's contract
	hasSpec, spec := false, Fl(0)
	if ws := tb.Style.GetWidth(); ws.S != "auto" {
		hasSpec = true
		if ws.Unit == pr.Px {
			spec = ws.Value
		} else {
			spec = pageWidth * ws.Value / 100
		}
	}
	// columns in which at least one cell originates: from the document structure when the harness knows it
	// (Check/C13.v validates the number, code 15 of the CGrid case), otherwise from the boxes
	orig := map[int]bool{}
	for _, g := range pre {
		for _, r := range g {
			for _, c := range r {
				if c.gridx < len(widths) {
					orig[c.gridx] = true
				}
			}
		}
	}
	norig := len(orig)
	fixedUsed := tb.Style.GetTableLayout() == "fixed" && hasSpec
	fk := 0
	if fixedUsed {
		fk = 1
	}
	tags = append([]string{}, tags...)
	if hasStruct {
		norig = facts.norig
		// the two constructs of the known findings, stated on the document structure
		if !fixedUsed && bsx > 0 && facts.columnWithoutOrigin {
			// auto layout, separated borders with horizontal spacing, a column (created by a colspan) in which no cell originates
			tags = append(tags, "struct:auto-layout+spacing+column-without-originating-cell")
		}
		if !fixedUsed && hasSpec && facts.allColumnsDetermined {
			// auto layout of a table with a specified width all of whose columns are constrained (col / colgroup / cell width)
			// or have a percentage: no column can take the excess width
			tags = append(tags, "struct:auto-layout+specified-width+all-columns-constrained-or-percentage")
		}
		if !fixedUsed && facts.anyPercentage {
			tags = append(tags, "struct:auto-layout+percentage-width")
		}
		if !fixedUsed && facts.colspanOverPxColumnsOnly {
			tags = append(tags, "struct:auto-layout+colspan-over-px-columns-only")
		}
		if fixedUsed {
			tags = append(tags, "struct:fixed-layout")
		}
		sort.Strings(tags)
	}
	da := map[string]interface{}{"specified_width": spec, "has_specified": hasSpec, "fixed": fixedUsed, "columns_with_originating_cell": norig}
	for k, v := range common {
		da[k] = v
	}
	w.Add(vlib.Case{Kind: kind + "-widths", Tags: tags, Nontrivial: len(widths) > 1,
		Coq:  fmt.Sprintf("CWidths %d %d %s %s %s %s %s", fk, norig, q(tableW), q(spec), vlib.Bool(hasSpec), q(bsx), qs(widths)),
		Desc: da})
	// no cell has a negative used width; auto layout: no cell is narrower than the min-content width of its content
	if len(cellTerms) > 0 {
		dc := map[string]interface{}{"cells": descC.String(), "fixed": fixedUsed}
		for k, v := range common {
			dc[k] = v
		}
		w.Add(vlib.Case{Kind: kind + "-cells", Tags: tags, Nontrivial: len(cellTerms) > 1,
			Coq:  fmt.Sprintf("CCells %s [%s]", vlib.Bool(!fixedUsed), strings.Join(cellTerms, "; ")),
			Desc: dc})
	}
}


// ---------------------------------------------------------------- paged tables: one fragment per page

func findTables(b bo.Box, out *[]*bo.TableBox) {
	if t, ok := b.(bo.TableBoxITF); ok {
		*out = append(*out, t.Table())
		return
	}
	for _, c := range b.Box().Children {
		findTables(c, out)
	}
}

// A table split across pages: AFTER the whole document is laid out, the horizontal geometry of EVERY fragment (the part
// of the table on one page) is compared with the model run on that fragment's own content box and column widths:
// ColumnPositions, and PositionX / Width / border-box width of every cell.  One case per document.
func pagedCases(src string, baseTags []string, kind string, st tStruct, w *vlib.Writer) {
	_, preTb, ok := preLayoutGrid(src)
	if !ok {
		return
	}
	if st.ok {
		baseTags = append(append([]string{}, baseTags...), structTags(st.facts(), st.gs)...)
	}
	var pages []*bo.PageBox
	o := render.GuardTimeout(30e9, func() {
		pages, _ = render.Layout(src, nil, false, true, fonts)
	})
	if o.Status != "ok" {
		return // crashes / hangs of the whole layout belong to C01
	}
	if st.ok {
		w.Add(gridCase(src, st, preTb, false, -1, baseTags, kind))
	}
	var frags []string
	var desc strings.Builder
	nfrag, maxCols := 0, 0
	for pi, page := range pages {
		var tbs []*bo.TableBox
		findTables(page, &tbs)
		for _, tb := range tbs {
			if tb.Style.GetDirection() != "ltr" {
				return
			}
			var bsx Fl
			if tb.Style.GetBorderCollapse() != "collapse" {
				bsx = tb.Style.GetBorderSpacing()[0].Value
			}
			x0 := tb.ContentBoxX()
			all := append([]Fl{x0}, tb.ColumnWidths...)
			all = append(all, tb.ColumnPositions...)
			if !finite(all...) {
				w.Add(nonFiniteCase(kind, src, baseTags, 3, "table fragment: content box x, ColumnWidths, ColumnPositions", all))
				return
			}
			fmt.Fprintf(&desc, "page %d (content box x=%v w=%v): table x0=%v widths=%v positions=%v\n", pi, page.ContentBoxX(), page.Width, x0, tb.ColumnWidths, tb.ColumnPositions)
			var hrows []string
			for gi, g := range tb.Children {
				for ri, r := range g.Box().Children {
					var hin, hobs []string
					for ci, c := range r.Box().Children {
						f := c.Box()
						wv, _ := mf(f.Width)
						if !finite(f.PositionX, wv, f.BorderWidth()) {
							w.Add(nonFiniteCase(kind, src, baseTags, 4, "cell of a table fragment: PositionX, Width, border-box width", []Fl{f.PositionX, wv, f.BorderWidth()}))
							return
						}
						hin = append(hin, fmt.Sprintf("(HC %s %s %s %s %s %s)", vlib.Z(f.GridX), vlib.Z(f.Colspan), q(f.PaddingLeft.V()), q(f.PaddingRight.V()), q(f.BorderLeftWidth), q(f.BorderRightWidth)))
						hobs = append(hobs, fmt.Sprintf("(HO %s %s %s %s)", vlib.Z(f.Colspan), q(f.PositionX), q(wv), q(f.BorderWidth())))
						fmt.Fprintf(&desc, " g%d r%d c%d gridx=%d colspan=%d x=%v w=%v bw=%v\n", gi, ri, ci, f.GridX, f.Colspan, f.PositionX, wv, f.BorderWidth())
					}
					hrows = append(hrows, fmt.Sprintf("(HRow [%s] [%s])", strings.Join(hin, "; "), strings.Join(hobs, "; ")))
				}
			}
			frags = append(frags, fmt.Sprintf("(Frag %s %s %s %s [%s])", q(x0), q(bsx), qs(tb.ColumnWidths), qs(tb.ColumnPositions), strings.Join(hrows, "; ")))
			nfrag++
			if len(tb.ColumnWidths) > maxCols {
				maxCols = len(tb.ColumnWidths)
			}
		}
	}
	if nfrag == 0 {
		return
	}
	tags := append([]string{}, baseTags...)
	tags = append(tags, fmt.Sprintf("fragments:%d", min(nfrag, 5)))
	if nfrag > 1 {
		tags = append(tags, "table-split-across-pages")
	}
	sort.Strings(tags)
	w.Add(vlib.Case{Kind: kind + "-horiz", Tags: tags, Nontrivial: nfrag > 1 && maxCols > 0,
		Coq:  fmt.Sprintf("CPaged [%s]", strings.Join(frags, "; ")),
		Desc: map[string]interface{}{"html": src, "pages": len(pages), "fragments": desc.String()}})
}

// ---------------------------------------------------------------- auto layout (unit level)

// autoTableLayout run on the first table of the document by the hook html/layout/verif_export_c13_auto.go: inputs = the
// preferred widths tableAndColumnsPreferredWidths computed (not modelled), outputs = column widths and used table width
func autoCase(src string, tags []string, kind string) (vlib.Case, bool) {
	h, err := tree.NewHTML(utils.InputString(src), baseURL, utils.DefaultUrlFetcher, "")
	if err != nil {
		return vlib.Case{}, false
	}
	h.UAStyleSheet = tree.TestUAStylesheet
	var io layout.VerifC13AutoIO
	ok := false
	o := render.GuardTimeout(20e9, func() { io, ok = layout.VerifC13AutoTableLayout(h, fonts, pageWidth) })
	if o.Status != "ok" || !ok {
		// a crash in the preferred widths or in the layout itself is C01's subject; the inputs are not known here
		return vlib.Case{}, false
	}
	n := len(io.Mins)
	if len(io.Maxs) != n || len(io.Percentages) != n || len(io.Constrained) != n || len(io.HasCell) != n || len(io.NoMaxContentCells) != n {
		return vlib.Case{}, false
	}
	all := []Fl{io.WidthIn, io.Available, io.TableMin, io.TableMax, io.TotalSpacing, io.WidthOut}
	all = append(append(append(append(all, io.Mins...), io.Maxs...), io.Percentages...), io.ColumnWidths...)
	if !finite(all...) {
		return nonFiniteCase(kind, src, tags, 5, "preferred widths (table min / max, column min / max / percentages, spacing) and autoTableLayout's column widths / table width", all), true
	}
	width := "ON"
	if io.HasWidth {
		width = "(OS " + q(io.WidthIn) + ")"
	}
	cols := make([]string, n)
	for i := range cols {
		cols[i] = fmt.Sprintf("(AC %s %s %s %s %s %s)", q(io.Mins[i]), q(io.Maxs[i]), q(io.Percentages[i]),
			vlib.Bool(io.Constrained[i]), vlib.Bool(io.HasCell[i]), vlib.Bool(io.NoMaxContentCells[i]))
	}
	tags = append([]string{}, tags...)
	if io.Available-io.TotalSpacing > 0 && n > 0 {
		var sumMax Fl
		for _, m := range io.Maxs {
			sumMax += m
		}
		if io.HasWidth && io.WidthIn-io.TotalSpacing > sumMax {
			tags = append(tags, "auto:excess-width")
		}
	}
	sort.Strings(tags)
	coq := fmt.Sprintf("CAuto %s %s %s %s %s [%s] 0 %s %s", width, q(io.Available), q(io.TableMin), q(io.TableMax), q(io.TotalSpacing),
		strings.Join(cols, "; "), qs(io.ColumnWidths), q(io.WidthOut))
	return vlib.Case{Kind: kind + "-auto", Coq: coq, Tags: tags, Nontrivial: n > 1,
		Desc: map[string]interface{}{"html": src, "table_width_in": io.WidthIn, "has_width": io.HasWidth, "available": io.Available,
			"table_min_content": io.TableMin, "table_max_content": io.TableMax, "total_spacing": io.TotalSpacing,
			"column_min": io.Mins, "column_max": io.Maxs, "column_percentages": io.Percentages, "constrained": io.Constrained,
			"has_cell": io.HasCell, "no_max_content_cells": io.NoMaxContentCells,
			"column_widths_out": io.ColumnWidths, "table_width_out": io.WidthOut}}, true
}

// ---------------------------------------------------------------- main

func main() {
	out := flag.String("out", "cases.jsonl", "output file")
	n := flag.Int("n", 600, "number of generated tables")
	flag.Parse()
	rng := vlib.NewRng(vlib.Seed())
	w := vlib.NewWriter(*out)
	defer w.Close()
	fonts = render.NewFonts("pango")

	files, _ := filepath.Glob("/verif/corpus/C13/*.html")
	sort.Strings(files)
	for _, f := range files {
		b, err := os.ReadFile(f)
		if err != nil {
			continue
		}
		tags := []string{"corpus:" + filepath.Base(f)}
		gs, colW, hasStruct := structureFromHTML(string(b))
		st := tStruct{hasStruct, gs, colW}
		if strings.HasPrefix(filepath.Base(f), "paged-") {
			pagedCases(string(b), tags, "corpus-paged", st, w)
			continue
		}
		if c, ok := fixedCase(string(b), tags, "corpus-fixed", tStruct{}, nil); ok {
			w.Add(c)
		}
		layoutCases(string(b), tags, "corpus", st, w)
		if c, ok := autoCase(string(b), tags, "corpus"); ok {
			w.Add(c)
		}
	}
	for i := 0; i < *n; i++ {
		r := rng.Fork()
		if i%15 == 12 || i%15 == 14 {
			// collapsed borders with per-side widths / percentage columns around 100 % under a colspan
			var t tableSpec
			if (i/15+i%15/14)%2 == 0 {
				t = genCollapseTable(r)
			} else {
				t = genPctSpanTable(r)
			}
			t = withDir(r, t)
			layoutCases(t.html(), t.tags, "layout", t.tstruct(), w)
			if c, ok := autoCase(t.html(), t.tags, "layout"); ok {
				w.Add(c)
			}
		} else if i%3 == 0 {
			t := genTable(r, true)
			if c, ok := fixedCase(t.html(), t.tags, "fixed", t.tstruct(), w); ok {
				w.Add(c)
			}
		} else if i%15 == 1 || i%15 == 7 {
			t := genPagedTable(r)
			pagedCases(t.html(), t.tags, "paged", t.tstruct(), w)
		} else {
			var t tableSpec
			if i%15 == 2 || i%15 == 8 || i%15 == 13 {
				t = genExcessTable(r)
			} else {
				t = genTable(r, false)
			}
			t = withDir(r, t)
			layoutCases(t.html(), t.tags, "layout", t.tstruct(), w)
			if c, ok := autoCase(t.html(), t.tags, "layout"); ok {
				w.Add(c)
			}
		}
	}
}
