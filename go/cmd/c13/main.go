// Harness for C13: table grid geometry.  Streams:
//   fixed  : fixedTableLayout run on the table wrapper of a generated document
//            (hook html/layout/verif_export_c13.go), inputs read from the boxes
//   horiz  : full layout (render.Layout, Ahem); column positions and every
//            cell's PositionX / Width / border-box width
//   vert   : same documents; row group / row positions and heights, final
//            border-box height of every cell
//   auto   : same documents; the column widths chosen by the layout
// One case per observation, as a Coq term of type Check.C13.case.
package main

import (
	"flag"
	"fmt"
	"os"
	"path/filepath"
	"sort"
	"strings"

	"verifharness/vlib"
	"verifharness/vlib/render"

	"github.com/benoitkugler/webrender/css/counters"
	pr "github.com/benoitkugler/webrender/css/properties"
	bo "github.com/benoitkugler/webrender/html/boxes"
	"github.com/benoitkugler/webrender/html/layout"
	"github.com/benoitkugler/webrender/html/tree"
	"github.com/benoitkugler/webrender/images"
	"github.com/benoitkugler/webrender/text"
	"github.com/benoitkugler/webrender/utils"
)

const baseURL = "file:///repo/resources_test/"
const pageWidth = 1600

type Fl = pr.Float

func q(x Fl) string { return vlib.Q32(float32(x)) }

func qs(xs []Fl) string {
	parts := make([]string, len(xs))
	for i, x := range xs {
		parts[i] = q(x)
	}
	if len(parts) == 0 {
		return "[]"
	}
	return "[" + strings.Join(parts, "; ") + "]%Q"
}

func mf(m pr.MaybeFloat) (Fl, bool) {
	if m == nil || m == pr.AutoF {
		return 0, false
	}
	return m.V(), true
}

func optQ(m pr.MaybeFloat) string {
	if v, ok := mf(m); ok {
		return "(OS " + q(v) + ")"
	}
	return "ON"
}

func finite(xs ...Fl) bool {
	for _, x := range xs {
		if !vlib.Finite32(float32(x)) {
			return false
		}
	}
	return true
}

// ---------------------------------------------------------------- generator

type cellSpec struct {
	colspan, rowspan int
	width            string // css width or ""
	pad              [4]float64
	border           float64
	words            []int
	height           string
}

type rowSpec struct {
	cells  []cellSpec
	height string
}

type groupSpec struct {
	tag  string
	rows []rowSpec
}

type tableSpec struct {
	fixed    bool
	width    string
	bsx, bsy float64
	collapse bool
	caption  string
	cols     string // markup of col / colgroup elements
	groups   []groupSpec
	tags     []string
}

func half(r *vlib.Rng, lo, hi int) float64 { return float64(r.Range(2*lo, 2*hi)) / 2 }

func genTable(r *vlib.Rng, forceFixed bool) tableSpec {
	t := tableSpec{}
	t.fixed = forceFixed || r.Chance(1, 3)
	switch r.Intn(5) {
	case 0:
		t.width = ""
	case 1:
		t.width = fmt.Sprintf("%dpx", r.Range(0, 60)*10)
	case 2:
		t.width = fmt.Sprintf("%g%%", vlib.Pick(r, []float64{25, 50, 75, 100, 12.5, 40}))
	default:
		t.width = fmt.Sprintf("%dpx", r.Range(10, 100)*8)
	}
	if forceFixed && t.width == "" {
		t.width = fmt.Sprintf("%dpx", r.Range(10, 100)*8)
	}
	if r.Chance(2, 3) {
		t.bsx, t.bsy = half(r, 0, 12), half(r, 0, 12)
	}
	t.collapse = !forceFixed && r.Chance(1, 8)
	if r.Chance(1, 5) {
		t.caption = vlib.Pick(r, []string{"top", "bottom"})
	}
	ncolsHint := r.Range(1, 5)
	// col / colgroup
	if r.Chance(1, 2) {
		var sb strings.Builder
		for i, k := 0, r.Range(1, 3); i < k; i++ {
			w := ""
			switch r.Intn(4) {
			case 0:
				w = fmt.Sprintf("width:%dpx", r.Range(0, 30)*5)
			case 1:
				w = fmt.Sprintf("width:%g%%", vlib.Pick(r, []float64{10, 25, 50, 20}))
			}
			if r.Chance(1, 3) {
				fmt.Fprintf(&sb, `<colgroup span="%d" style="%s"></colgroup>`, r.Range(1, 3), w)
			} else if r.Chance(1, 2) {
				fmt.Fprintf(&sb, `<col span="%d" style="%s">`, r.Range(1, 3), w)
			} else {
				fmt.Fprintf(&sb, `<colgroup><col style="%s"><col style="%s"></colgroup>`, w, vlib.Pick(r, []string{"", "width:40px", "width:30%"}))
			}
		}
		t.cols = sb.String()
		t.tags = append(t.tags, "cols")
	}
	ngroups := r.Range(1, 3)
	usedHead, usedFoot := false, false
	for g := 0; g < ngroups; g++ {
		gs := groupSpec{tag: "tbody"}
		if r.Chance(1, 4) && !usedHead {
			gs.tag, usedHead = "thead", true
		} else if r.Chance(1, 4) && !usedFoot {
			gs.tag, usedFoot = "tfoot", true
		}
		for i, rows := 0, r.Range(1, 4); i < rows; i++ {
			rs := rowSpec{}
			if r.Chance(1, 6) {
				rs.height = fmt.Sprintf("%dpx", r.Range(0, 12)*10)
			}
			for j, cells := 0, r.Range(0, ncolsHint+1); j < cells; j++ {
				c := cellSpec{colspan: 1, rowspan: 1}
				if r.Chance(1, 3) {
					c.colspan = r.Range(1, 4)
				}
				if r.Chance(1, 3) {
					c.rowspan = vlib.Pick(r, []int{0, 2, 2, 3, 5})
				}
				switch r.Intn(6) {
				case 0:
					c.width = fmt.Sprintf("%dpx", r.Range(0, 40)*5)
				case 1:
					c.width = fmt.Sprintf("%g%%", vlib.Pick(r, []float64{10, 20, 25, 50}))
				}
				if r.Chance(1, 2) {
					c.pad = [4]float64{half(r, 0, 6), half(r, 0, 6), half(r, 0, 6), half(r, 0, 6)}
				}
				if r.Chance(1, 2) {
					c.border = float64(r.Range(0, 4))
				}
				for k, n := 0, r.Range(0, 4); k < n; k++ {
					c.words = append(c.words, r.Range(1, 6))
				}
				if r.Chance(1, 8) {
					c.height = fmt.Sprintf("%dpx", r.Range(0, 10)*10)
				}
				rs.cells = append(rs.cells, c)
			}
			gs.rows = append(gs.rows, rs)
		}
		t.groups = append(t.groups, gs)
	}
	if usedHead {
		t.tags = append(t.tags, "thead")
	}
	if usedFoot {
		t.tags = append(t.tags, "tfoot")
	}
	if t.fixed {
		t.tags = append(t.tags, "table-layout:fixed")
	}
	if t.collapse {
		t.tags = append(t.tags, "collapse")
	}
	if t.width == "" {
		t.tags = append(t.tags, "width:auto")
	} else if strings.HasSuffix(t.width, "%") {
		t.tags = append(t.tags, "width:%")
	} else {
		t.tags = append(t.tags, "width:px")
	}
	return t
}

func (t tableSpec) html() string {
	var sb strings.Builder
	sb.WriteString(`<html><head><style>`)
	fmt.Fprintf(&sb, "@page { size: %dpx 20000px; margin: 0 }\n", pageWidth)
	sb.WriteString("html, body { margin: 0; padding: 0 }\nbody { font: 16px/20px Ahem }\n")
	sb.WriteString("td { vertical-align: top; padding: 0 }\ntable { box-sizing: content-box }\n")
	sb.WriteString(`</style></head><body>`)
	style := fmt.Sprintf("border-spacing:%gpx %gpx;", t.bsx, t.bsy)
	if t.fixed {
		style += "table-layout:fixed;"
	}
	if t.width != "" {
		style += "width:" + t.width + ";"
	}
	if t.collapse {
		style += "border-collapse:collapse;"
	}
	fmt.Fprintf(&sb, `<table style="%s">`, style)
	if t.caption != "" {
		fmt.Fprintf(&sb, `<caption style="caption-side:%s">xx xx</caption>`, t.caption)
	}
	sb.WriteString(t.cols)
	for _, g := range t.groups {
		fmt.Fprintf(&sb, "<%s>", g.tag)
		for _, r := range g.rows {
			st := ""
			if r.height != "" {
				st = "height:" + r.height
			}
			fmt.Fprintf(&sb, `<tr style="%s">`, st)
			for _, c := range r.cells {
				st := fmt.Sprintf("padding:%gpx %gpx %gpx %gpx;", c.pad[0], c.pad[1], c.pad[2], c.pad[3])
				if c.border > 0 {
					st += fmt.Sprintf("border:%gpx solid black;", c.border)
				}
				if c.width != "" {
					st += "width:" + c.width + ";"
				}
				if c.height != "" {
					st += "height:" + c.height + ";"
				}
				attrs := ""
				if c.colspan != 1 {
					attrs += fmt.Sprintf(` colspan="%d"`, c.colspan)
				}
				if c.rowspan != 1 {
					attrs += fmt.Sprintf(` rowspan="%d"`, c.rowspan)
				}
				var words []string
				for _, w := range c.words {
					words = append(words, strings.Repeat("x", w))
				}
				fmt.Fprintf(&sb, `<td%s style="%s">%s</td>`, attrs, st, strings.Join(words, " "))
			}
			sb.WriteString("</tr>")
		}
		fmt.Fprintf(&sb, "</%s>", g.tag)
	}
	sb.WriteString(`</table></body></html>`)
	return sb.String()
}

// ---------------------------------------------------------------- box tree before layout

func buildBoxes(src string) (bo.Box, error) {
	h, err := tree.NewHTML(utils.InputString(src), baseURL, utils.DefaultUrlFetcher, "")
	if err != nil {
		return nil, err
	}
	h.UAStyleSheet = tree.TestUAStylesheet
	cs := make(counters.CounterStyle)
	sf := tree.GetAllComputedStyles(h, nil, false, nil, cs, nil, nil, false, nil)
	cache := images.NewCache()
	imgFetcher := func(url string, forcedMimeType string, orientation pr.SBoolFloat) images.Image {
		return images.GetImageFromUri(cache, h.UrlFetcher, false, url, forcedMimeType, orientation)
	}
	tc := tree.NewTargetCollector()
	var box bo.Box
	o := render.Guard(func() {
		box = bo.BuildFormattingStructure(h.Root, sf, bo.URLResolver{Fetch: h.UrlFetcher, FetchImage: imgFetcher}, h.BaseUrl, &tc, cs, new([]bo.Box))
	})
	if o.Status != "ok" {
		return nil, fmt.Errorf("panic: %s", o.Msg)
	}
	return box, nil
}

func findWrapper(b bo.Box) bo.Box {
	if b.Box().IsTableWrapper {
		return b
	}
	for _, c := range b.Box().Children {
		if w := findWrapper(c); w != nil {
			return w
		}
	}
	return nil
}

// ---------------------------------------------------------------- fixed layout (unit level)

func fixedCase(src string, tags []string, kind string) (vlib.Case, bool) {
	root, err := buildBoxes(src)
	if err != nil {
		return vlib.Case{}, false
	}
	wrapper := findWrapper(root)
	if wrapper == nil {
		return vlib.Case{}, false
	}
	table := wrapper.Box().GetWrappedTable()
	tb := table.Table()
	layout.VerifC13ResolveTable(table, pageWidth)
	w0, ok := mf(tb.Width)
	if !ok || tb.Style.GetTableLayout() != "fixed" {
		return vlib.Case{}, false
	}
	var bsx Fl
	if tb.Style.GetBorderCollapse() == "separate" {
		bsx = tb.Style.GetBorderSpacing()[0].Value
	}
	var firstRow []bo.Box
	if len(tb.Children) != 0 && len(tb.Children[0].Box().Children) != 0 {
		firstRow = tb.Children[0].Box().Children[0].Box().Children
	}
	colspans := make([]int, len(firstRow))
	for i, c := range firstRow {
		colspans[i] = c.Box().Colspan
	}
	o := render.Guard(func() { layout.VerifC13FixedTableLayout(wrapper) })
	status := 0
	if o.Status != "ok" {
		status = 1
		tags = append(tags, "impl-panic")
	}
	// inputs as the code resolved them
	var cols []string
	for _, g := range tb.ColumnGroups {
		for _, c := range g.Children {
			cols = append(cols, optQ(c.Box().Width))
		}
	}
	var cells []string
	for i, c := range firstRow {
		f := c.Box()
		bw := "ON"
		if _, ok := mf(f.Width); ok {
			bw = "(OS " + q(f.BorderWidth()) + ")"
		}
		cells = append(cells, fmt.Sprintf("(FC %s %s)", vlib.Z(colspans[i]), bw))
	}
	outW, _ := mf(tb.Width)
	var outCW []Fl
	for _, w := range tb.ColumnWidths {
		outCW = append(outCW, w)
	}
	if !finite(append(outCW, outW, w0)...) {
		return vlib.Case{}, false
	}
	coq := fmt.Sprintf("CFixed %s [%s] [%s] %s %d %s %s", q(w0), strings.Join(cols, "; "), strings.Join(cells, "; "), q(bsx), status, qs(outCW), q(outW))
	return vlib.Case{Kind: kind, Coq: coq, Tags: tags, Nontrivial: len(outCW) > 1,
		Desc: map[string]interface{}{"html": src, "table_width_in": w0, "border_spacing_x": bsx, "columns": cols, "first_row_cells": cells,
			"column_widths_out": outCW, "table_width_out": outW, "panic": o.Msg}}, true
}

// ---------------------------------------------------------------- full layout

var fonts text.FontConfiguration

type preCell struct{ gridx, colspan, rowspan int }

func preLayoutGrid(src string) ([][][]preCell, bool) {
	root, err := buildBoxes(src)
	if err != nil {
		return nil, false
	}
	wrapper := findWrapper(root)
	if wrapper == nil {
		return nil, false
	}
	tb := wrapper.Box().GetWrappedTable().Table()
	var out [][][]preCell
	for _, g := range tb.Children {
		var rows [][]preCell
		for _, r := range g.Box().Children {
			var cells []preCell
			for _, c := range r.Box().Children {
				cells = append(cells, preCell{c.Box().GridX, c.Box().Colspan, c.Box().Rowspan})
			}
			rows = append(rows, cells)
		}
		out = append(out, rows)
	}
	return out, true
}

func findTable(b bo.Box) *bo.TableBox {
	if t, ok := b.(bo.TableBoxITF); ok {
		return t.Table()
	}
	for _, c := range b.Box().Children {
		if t := findTable(c); t != nil {
			return t
		}
	}
	return nil
}

func layoutCases(src string, baseTags []string, kind string, w *vlib.Writer) {
	pre, ok := preLayoutGrid(src)
	if !ok {
		return
	}
	var pages []*bo.PageBox
	o := render.GuardTimeout(20e9, func() {
		pages, _ = render.Layout(src, nil, false, true, fonts)
	})
	if o.Status != "ok" || len(pages) != 1 {
		// crashes / hangs of the whole layout belong to C01; multi-page tables are out of scope
		return
	}
	tb := findTable(pages[0])
	if tb == nil || tb.Style.GetDirection() != "ltr" {
		return
	}
	collapse := tb.Style.GetBorderCollapse() == "collapse"
	var bsx, bsy Fl
	if !collapse {
		sp := tb.Style.GetBorderSpacing()
		bsx, bsy = sp[0].Value, sp[1].Value
	}
	x0, y0 := tb.ContentBoxX(), tb.ContentBoxY()
	widths := tb.ColumnWidths
	tableW, _ := mf(tb.Width)
	if len(tb.Children) != len(pre) {
		return
	}
	all := append([]Fl{x0, y0, tableW}, widths...)
	all = append(all, tb.ColumnPositions...)
	if !finite(all...) {
		return
	}
	var descH, descV strings.Builder
	var hrows, vgroups []string
	okAll := true
	spanning := false
	for gi, g := range tb.Children {
		gf := g.Box()
		if len(gf.Children) != len(pre[gi]) {
			return
		}
		var vrows []string
		var obsRows []string
		for ri, r := range gf.Children {
			rf := r.Box()
			pc := pre[gi][ri]
			if len(rf.Children) > len(pc) {
				return
			}
			// horizontal: inputs are all the cells the row had before layout
			var hin, hobs []string
			for ci, p := range pc {
				var pl, prr, bl, br Fl
				if ci < len(rf.Children) {
					f := rf.Children[ci].Box()
					pl, prr, bl, br = f.PaddingLeft.V(), f.PaddingRight.V(), f.BorderLeftWidth, f.BorderRightWidth
				}
				hin = append(hin, fmt.Sprintf("(HC %s %s %s %s %s %s)", vlib.Z(p.gridx), vlib.Z(p.colspan), q(pl), q(prr), q(bl), q(br)))
				if p.colspan > 1 || p.rowspan != 1 {
					spanning = true
				}
			}
			// vertical: the cells that were laid out
			var vin, vobs []string
			for ci, c := range rf.Children {
				f := c.Box()
				wv, _ := mf(f.Width)
				if !finite(f.PositionX, wv, f.BorderWidth(), f.PositionY, f.BorderHeight()) {
					okAll = false
				}
				hobs = append(hobs, fmt.Sprintf("(HO %s %s %s %s)", vlib.Z(f.Colspan), q(f.PositionX), q(wv), q(f.BorderWidth())))
				pbStyle := f.Style.GetPaddingBottom().Value
				natural := f.BorderHeight() - (f.PaddingBottom.V() - pbStyle)
				vin = append(vin, fmt.Sprintf("(VC %s %s)", vlib.Z(pc[ci].rowspan), q(natural)))
				vobs = append(vobs, fmt.Sprintf("(VO %s %s)", q(f.PositionY), q(f.BorderHeight())))
				fmt.Fprintf(&descH, "g%d r%d c%d gridx=%d colspan=%d->%d x=%v w=%v bw=%v\n", gi, ri, ci, pc[ci].gridx, pc[ci].colspan, f.Colspan, f.PositionX, wv, f.BorderWidth())
				fmt.Fprintf(&descV, "g%d r%d c%d rowspan=%d y=%v bh=%v natural=%v\n", gi, ri, ci, pc[ci].rowspan, f.PositionY, f.BorderHeight(), natural)
			}
			hrows = append(hrows, fmt.Sprintf("(HRow [%s] [%s])", strings.Join(hin, "; "), strings.Join(hobs, "; ")))
			specH := "ON"
			if hs := rf.Style.GetHeight(); hs.S != "auto" && hs.Unit == pr.Px {
				specH = "(OS " + q(hs.Value) + ")"
			}
			rh, _ := mf(rf.Height)
			vrows = append(vrows, fmt.Sprintf("(VIn %s [%s])", specH, strings.Join(vin, "; ")))
			obsRows = append(obsRows, fmt.Sprintf("(VRow %s %s [%s])", q(rf.PositionY), q(rh), strings.Join(vobs, "; ")))
			fmt.Fprintf(&descV, "g%d r%d y=%v h=%v spec=%s\n", gi, ri, rf.PositionY, rh, specH)
		}
		gh, _ := mf(gf.Height)
		vgroups = append(vgroups, fmt.Sprintf("(VGroup %s %s [%s] [%s])", q(gf.PositionY), q(gh), strings.Join(vrows, "; "), strings.Join(obsRows, "; ")))
		fmt.Fprintf(&descV, "g%d y=%v h=%v\n", gi, gf.PositionY, gh)
	}
	if !okAll {
		return
	}
	tags := append([]string{}, baseTags...)
	if spanning {
		tags = append(tags, "spans")
	}
	sort.Strings(tags)
	common := map[string]interface{}{"html": src, "x0": x0, "y0": y0, "border_spacing": []Fl{bsx, bsy}, "column_widths": widths, "column_positions": tb.ColumnPositions, "table_width": tableW}
	// horizontal
	dh := map[string]interface{}{"cells": descH.String()}
	for k, v := range common {
		dh[k] = v
	}
	w.Add(vlib.Case{Kind: kind + "-horiz", Tags: tags, Nontrivial: len(widths) > 1,
		Coq:  fmt.Sprintf("CHoriz %s %s %s %s [%s]", q(x0), q(bsx), qs(widths), qs(tb.ColumnPositions), strings.Join(hrows, "; ")),
		Desc: dh})
	// vertical
	dv := map[string]interface{}{"cells": descV.String()}
	for k, v := range common {
		dv[k] = v
	}
	w.Add(vlib.Case{Kind: kind + "-vert", Tags: tags, Nontrivial: len(hrows) > 1,
		Coq:  fmt.Sprintf("CVert %s %s [%s]", q(y0), q(bsy), strings.Join(vgroups, "; ")),
		Desc: dv})
	// the width algorithm's contract
	hasSpec, spec := false, Fl(0)
	if ws := tb.Style.GetWidth(); ws.S != "auto" {
		hasSpec = true
		if ws.Unit == pr.Px {
			spec = ws.Value
		} else {
			spec = pageWidth * ws.Value / 100
		}
	}
	// columns in which at least one cell originates
	orig := map[int]bool{}
	for _, g := range pre {
		for _, r := range g {
			for _, c := range r {
				if c.gridx < len(widths) {
					orig[c.gridx] = true
				}
			}
		}
	}
	if len(orig) < len(widths) {
		tags = append(tags, "columns-without-originating-cell")
	}
	fixedUsed := tb.Style.GetTableLayout() == "fixed" && hasSpec
	fk := 0
	if fixedUsed {
		fk = 1
	}
	da := map[string]interface{}{"specified_width": spec, "has_specified": hasSpec, "fixed": fixedUsed, "columns_with_originating_cell": len(orig)}
	for k, v := range common {
		da[k] = v
	}
	w.Add(vlib.Case{Kind: kind + "-widths", Tags: tags, Nontrivial: len(widths) > 1,
		Coq:  fmt.Sprintf("CWidths %d %d %s %s %s %s %s", fk, len(orig), q(tableW), q(spec), vlib.Bool(hasSpec), q(bsx), qs(widths)),
		Desc: da})
}

// ---------------------------------------------------------------- main

func main() {
	out := flag.String("out", "cases.jsonl", "output file")
	n := flag.Int("n", 600, "number of generated tables")
	flag.Parse()
	rng := vlib.NewRng(vlib.Seed())
	w := vlib.NewWriter(*out)
	defer w.Close()
	fonts = render.NewFonts("pango")

	files, _ := filepath.Glob("/verif/corpus/C13/*.html")
	sort.Strings(files)
	for _, f := range files {
		b, err := os.ReadFile(f)
		if err != nil {
			continue
		}
		tags := []string{"corpus:" + filepath.Base(f)}
		if c, ok := fixedCase(string(b), tags, "corpus-fixed"); ok {
			w.Add(c)
		}
		layoutCases(string(b), tags, "corpus", w)
	}
	for i := 0; i < *n; i++ {
		r := rng.Fork()
		if i%3 == 0 {
			t := genTable(r, true)
			if c, ok := fixedCase(t.html(), t.tags, "fixed"); ok {
				w.Add(c)
			}
		} else {
			t := genTable(r, false)
			layoutCases(t.html(), t.tags, "layout", w)
		}
	}
}
