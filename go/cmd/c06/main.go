// Harness for C06: runs /repo's css/parser (Tokenize, ParseStylesheetBytes,
// ParseBlocksContentsString, ParseDeclarationListString, ParseOneDeclaration,
// ParseNth) on generated CSS texts and writes one case per run, as a Coq term
// of type Check.C06.case: the input (code points of the valid UTF-8 source) and
// the complete result (every token / compound with flags and positions).
//
// Input streams (one SplitMix64 seed):
//
//	corpus     /verif/corpus/C06/*.css, every entry point (runs first)
//	exhaust    all strings of length <= 2 (thorough: <= 3) over the 21-symbol alphabet
//	trunc      EVERY PREFIX (cut after every code point) of the well-formed constructs of
//	           verifharness/cssedge (one per scanner / look-ahead), bare, inside an enclosing
//	           block / function / declaration, and through the fitting parser entry point
//	exhaust-ctx for every hand scanner: heads that enter it ("u+", "1e", "url(", "'", "\\", "#")
//	           followed by ALL short strings over the symbols that scanner distinguishes
//	trunc-gen  every prefix of a sample of the generated soups / declaration lists
//	short      random strings of length 3..7 over the same alphabet
//	soup       grammar-directed token soups (every token class, escapes, nesting)
//	decls/rules declaration-list and rule-list shaped texts
//	nth        An+B shaped texts
//	nth-grid   every An+B form x one extra token of every kind at every token boundary (cssedge.NthGrid)
//	tests      inputs of /repo/css/parser/css-parsing-tests/*.json
//	mut-*      every-prefix / single-rune deletion / replacement of the above
//	color-grid / color-tests / color   ParseColorString, see color.go
package main

import (
	"encoding/json"
	"flag"
	"fmt"
	"os"
	"path/filepath"
	"sort"
	"strings"
	"time"
	"unicode/utf8"

	"verifharness/cssedge"
	"verifharness/vlib"

	pr "github.com/benoitkugler/webrender/css/parser"
)

// ---------------------------------------------------------------- printing

func coqPos(p pr.Pos) string { return fmt.Sprintf("(mkPos %s %s)", vlib.Z(p.Line), vlib.Z(p.Column)) }

func coqTokens(l []pr.Token) string {
	items := make([]string, len(l))
	for i, t := range l {
		items[i] = coqToken(t)
	}
	return vlib.List(items)
}

func coqToken(t pr.Token) string {
	p := coqPos(t.Pos())
	switch t := t.(type) {
	case pr.Literal:
		return fmt.Sprintf("TLiteral %s %s", p, vlib.Runes(t.Value))
	case pr.ParseError:
		return fmt.Sprintf("TParseError %s %d", p, pr.VerifErrorKind(t))
	case pr.Comment:
		return fmt.Sprintf("TComment %s %s", p, vlib.Runes(t.Value))
	case pr.Whitespace:
		return fmt.Sprintf("TWhitespace %s %s", p, vlib.Runes(t.Value))
	case pr.Ident:
		return fmt.Sprintf("TIdent %s %s", p, vlib.Runes(t.Value))
	case pr.AtKeyword:
		return fmt.Sprintf("TAtKeyword %s %s", p, vlib.Runes(t.Value))
	case pr.Hash:
		return fmt.Sprintf("THash %s %s %s", p, vlib.Runes(t.Value), vlib.Bool(pr.VerifHashIsIdentifier(t)))
	case pr.String:
		return fmt.Sprintf("TString %s %s %s", p, vlib.Runes(t.Value), vlib.Bool(pr.VerifStringIsError(t)))
	case pr.URL:
		return fmt.Sprintf("TURL %s %s %s", p, vlib.Runes(t.Value), vlib.Bool(pr.VerifURLIsError(t)))
	case pr.UnicodeRange:
		return fmt.Sprintf("TUnicodeRange %s %d %d", p, t.Start, t.End)
	case pr.Number:
		return fmt.Sprintf("TNumber %s %s %s", p, vlib.Runes(t.Value), vlib.Bool(t.IsInt()))
	case pr.Percentage:
		return fmt.Sprintf("TPercentage %s %s %s", p, vlib.Runes(t.Value), vlib.Bool(t.IsInt()))
	case pr.Dimension:
		return fmt.Sprintf("TDimension %s %s %s %s", p, vlib.Runes(t.Value), vlib.Bool(t.IsInt()), vlib.Runes(t.Unit))
	case pr.ParenthesesBlock:
		return fmt.Sprintf("TParens %s %s", p, coqTokens(t.Arguments))
	case pr.SquareBracketsBlock:
		return fmt.Sprintf("TSquare %s %s", p, coqTokens(t.Arguments))
	case pr.CurlyBracketsBlock:
		return fmt.Sprintf("TCurly %s %s", p, coqTokens(t.Arguments))
	case pr.FunctionBlock:
		return fmt.Sprintf("TFunction %s %s %s", p, vlib.Runes(t.Name), coqTokens(t.Arguments))
	}
	panic(fmt.Sprintf("unknown token type %T", t))
}

func coqCompound(c pr.Compound) string {
	p := coqPos(c.Pos())
	switch c := c.(type) {
	case pr.QualifiedRule:
		return fmt.Sprintf("CQualifiedRule %s %s %s", p, coqTokens(c.Prelude), coqTokens(c.Content))
	case pr.AtRule:
		return fmt.Sprintf("CAtRule %s %s %s %s", p, vlib.Runes(c.AtKeyword), coqTokens(c.Prelude),
			vlib.Option(coqTokens(c.Content), c.Content != nil))
	case pr.Declaration:
		return fmt.Sprintf("CDeclaration %s %s %s %s", p, vlib.Runes(c.Name), coqTokens(c.Value), vlib.Bool(c.Important))
	case pr.ParseError:
		return fmt.Sprintf("CParseError %s %d", p, pr.VerifErrorKind(c))
	case pr.Whitespace:
		return fmt.Sprintf("CWhitespace %s %s", p, vlib.Runes(c.Value))
	case pr.Comment:
		return fmt.Sprintf("CComment %s %s", p, vlib.Runes(c.Value))
	}
	panic(fmt.Sprintf("unknown compound type %T", c))
}

func coqCompounds(l []pr.Compound) string {
	items := make([]string, len(l))
	for i, c := range l {
		items[i] = coqCompound(c)
	}
	return vlib.List(items)
}

// human readable dumps (replay files)
func dumpTokens(l []pr.Token) string {
	var sb strings.Builder
	for i, t := range l {
		if i > 0 {
			sb.WriteString(" ")
		}
		p := t.Pos()
		switch t := t.(type) {
		case pr.ParenthesesBlock:
			fmt.Fprintf(&sb, "(%d:%d)[( %s )]", p.Line, p.Column, dumpTokens(t.Arguments))
		case pr.SquareBracketsBlock:
			fmt.Fprintf(&sb, "(%d:%d)[[ %s ]]", p.Line, p.Column, dumpTokens(t.Arguments))
		case pr.CurlyBracketsBlock:
			fmt.Fprintf(&sb, "(%d:%d)[{ %s }]", p.Line, p.Column, dumpTokens(t.Arguments))
		case pr.FunctionBlock:
			fmt.Fprintf(&sb, "(%d:%d)[fn %q %s ]", p.Line, p.Column, t.Name, dumpTokens(t.Arguments))
		case pr.ParseError:
			fmt.Fprintf(&sb, "(%d:%d)error:%c", p.Line, p.Column, pr.VerifErrorKind(t))
		case pr.Dimension:
			fmt.Fprintf(&sb, "(%d:%d)dimension:%q:%q:int=%v", p.Line, p.Column, t.Value, t.Unit, t.IsInt())
		case pr.Number:
			fmt.Fprintf(&sb, "(%d:%d)number:%q:int=%v", p.Line, p.Column, t.Value, t.IsInt())
		case pr.Percentage:
			fmt.Fprintf(&sb, "(%d:%d)percentage:%q:int=%v", p.Line, p.Column, t.Value, t.IsInt())
		case pr.UnicodeRange:
			fmt.Fprintf(&sb, "(%d:%d)urange:%x-%x", p.Line, p.Column, t.Start, t.End)
		case pr.Literal:
			fmt.Fprintf(&sb, "(%d:%d)lit:%q", p.Line, p.Column, t.Value)
		case pr.Comment:
			fmt.Fprintf(&sb, "(%d:%d)comment:%q", p.Line, p.Column, t.Value)
		case pr.Whitespace:
			fmt.Fprintf(&sb, "(%d:%d)ws:%q", p.Line, p.Column, t.Value)
		case pr.Ident:
			fmt.Fprintf(&sb, "(%d:%d)ident:%q", p.Line, p.Column, t.Value)
		case pr.AtKeyword:
			fmt.Fprintf(&sb, "(%d:%d)at:%q", p.Line, p.Column, t.Value)
		case pr.Hash:
			fmt.Fprintf(&sb, "(%d:%d)hash:%q:id=%v", p.Line, p.Column, t.Value, pr.VerifHashIsIdentifier(t))
		case pr.String:
			fmt.Fprintf(&sb, "(%d:%d)string:%q:eof=%v", p.Line, p.Column, t.Value, pr.VerifStringIsError(t))
		case pr.URL:
			fmt.Fprintf(&sb, "(%d:%d)url:%q:eof=%v", p.Line, p.Column, t.Value, pr.VerifURLIsError(t))
		}
	}
	return sb.String()
}

func dumpCompounds(l []pr.Compound) string {
	var parts []string
	for _, c := range l {
		p := c.Pos()
		switch c := c.(type) {
		case pr.QualifiedRule:
			parts = append(parts, fmt.Sprintf("(%d:%d)qualified-rule{prelude: %s | content: %s}", p.Line, p.Column, dumpTokens(c.Prelude), dumpTokens(c.Content)))
		case pr.AtRule:
			content := "nil"
			if c.Content != nil {
				content = "[" + dumpTokens(c.Content) + "]"
			}
			parts = append(parts, fmt.Sprintf("(%d:%d)at-rule %q{prelude: %s | content: %s}", p.Line, p.Column, c.AtKeyword, dumpTokens(c.Prelude), content))
		case pr.Declaration:
			parts = append(parts, fmt.Sprintf("(%d:%d)declaration %q important=%v {%s}", p.Line, p.Column, c.Name, c.Important, dumpTokens(c.Value)))
		case pr.ParseError:
			parts = append(parts, fmt.Sprintf("(%d:%d)error:%c", p.Line, p.Column, pr.VerifErrorKind(c)))
		case pr.Whitespace:
			parts = append(parts, fmt.Sprintf("(%d:%d)ws:%q", p.Line, p.Column, c.Value))
		case pr.Comment:
			parts = append(parts, fmt.Sprintf("(%d:%d)comment:%q", p.Line, p.Column, c.Value))
		}
	}
	return strings.Join(parts, " ; ")
}

// ---------------------------------------------------------------- running the implementation

var hangs = 0

// guard runs f; reports a panic (recovered) or a hang (> 10 s) as crashed.
func guard(f func()) (crashed bool, what string) {
	done := make(chan string, 1)
	go func() {
		defer func() {
			if r := recover(); r != nil {
				done <- fmt.Sprintf("panic: %v", r)
			}
		}()
		f()
		done <- ""
	}()
	select {
	case msg := <-done:
		return msg != "", msg
	case <-time.After(10 * time.Second):
		hangs++
		return true, "hang (> 10 s)"
	}
}

const (
	eTok = iota
	eTokSkip
	eSheet
	eBlocks
	eDecls
	eOneDecl
	eNth
	eColor
	nEntries
)

var entryNames = [...]string{"Tokenize", "Tokenize/skipComments", "ParseStylesheetBytes", "ParseBlocksContentsString", "ParseDeclarationListString", "ParseOneDeclaration", "ParseNth", "ParseColorString"}

type runner struct {
	w    *vlib.Writer
	seen map[string]bool
}

// run executes entry point e (with flag bits fl) on src and records the case.
func (rn *runner) run(kind string, e int, fl int, src string) {
	if !utf8.ValidString(src) || hangs >= 3 {
		// three hangs are three failing inputs: stop running the implementation (every
		// hung call keeps spinning in its goroutine and costs the 10 s watchdog)
		return
	}
	key := fmt.Sprintf("%d/%d/%s", e, fl, src)
	if rn.seen[key] {
		return
	}
	rn.seen[key] = true
	b1, b2 := fl&1 != 0, fl&2 != 0
	var (
		coq, dump, flags string
		crashed          bool
		what             string
	)
	runes := vlib.Runes(src)
	switch e {
	case eTok, eTokSkip:
		skip := e == eTokSkip
		var out []pr.Token
		crashed, what = guard(func() { out = pr.Tokenize([]byte(src), skip) })
		if crashed {
			out = nil
		}
		coq = fmt.Sprintf("CTok %s %s %s %s", vlib.Bool(skip), runes, vlib.Bool(crashed), coqTokens(out))
		dump = dumpTokens(out)
	case eSheet:
		var out []pr.Compound
		crashed, what = guard(func() { out = pr.ParseStylesheetBytes([]byte(src), b1, b2) })
		if crashed {
			out = nil
		}
		coq = fmt.Sprintf("CSheet %s %s %s %s %s", vlib.Bool(b1), vlib.Bool(b2), runes, vlib.Bool(crashed), coqCompounds(out))
		dump = dumpCompounds(out)
		flags = fmt.Sprintf("skipComments=%v skipWhitespace=%v", b1, b2)
	case eBlocks:
		var out []pr.Compound
		crashed, what = guard(func() { out = pr.ParseBlocksContentsString(src) })
		if crashed {
			out = nil
		}
		coq = fmt.Sprintf("CBlocks %s %s %s", runes, vlib.Bool(crashed), coqCompounds(out))
		dump = dumpCompounds(out)
	case eDecls:
		var out []pr.Compound
		crashed, what = guard(func() { out = pr.ParseDeclarationListString(src, b1, b2) })
		if crashed {
			out = nil
		}
		coq = fmt.Sprintf("CDecls %s %s %s %s %s", vlib.Bool(b1), vlib.Bool(b2), runes, vlib.Bool(crashed), coqCompounds(out))
		dump = dumpCompounds(out)
		flags = fmt.Sprintf("skipComments=%v skipWhitespace=%v", b1, b2)
	case eOneDecl:
		var out []pr.Compound
		crashed, what = guard(func() { out = []pr.Compound{pr.ParseOneDeclaration(pr.Tokenize([]byte(src), b1))} })
		if crashed {
			out = nil
		}
		coq = fmt.Sprintf("COneDecl %s %s %s %s", vlib.Bool(b1), runes, vlib.Bool(crashed), coqCompounds(out))
		dump = dumpCompounds(out)
		flags = fmt.Sprintf("skipComments=%v", b1)
	case eNth:
		var out *[2]int
		crashed, what = guard(func() { out = pr.ParseNth(pr.Tokenize([]byte(src), true)) })
		o := "NthNone"
		dump = "nil"
		if !crashed && out != nil {
			o = fmt.Sprintf("(NthSome %s %s)", vlib.Z(out[0]), vlib.Z(out[1]))
			dump = fmt.Sprintf("a=%d b=%d", out[0], out[1])
		}
		coq = fmt.Sprintf("CNth %s %s %s", runes, vlib.Bool(crashed), o)
	case eColor:
		var out pr.Color
		crashed, what = guard(func() { out = pr.ParseColorString(src) })
		if crashed {
			out = pr.Color{}
		}
		coq = fmt.Sprintf("CColor %s %s %s", runes, vlib.Bool(crashed), coqColor(out))
		dump = colorDump(out)
	}
	tags := []string{"entry=" + entryNames[e]}
	if crashed {
		tags = append(tags, "crashed")
		dump = what
	}
	if strings.ContainsAny(src, "\\") {
		tags = append(tags, "has-escape")
	}
	if strings.Contains(dump, "error:") {
		tags = append(tags, "has-error")
	}
	for _, r := range src {
		if r > 0x7f {
			tags = append(tags, "non-ascii")
			break
		}
	}
	rn.w.Add(vlib.Case{Kind: kind, Coq: coq,
		Desc:       map[string]interface{}{"entry": entryNames[e], "flags": flags, "src": src, "impl": dump},
		Tags:       tags,
		Nontrivial: utf8.RuneCountInString(src) >= 2,
		Key:        key})
}

// ---------------------------------------------------------------- generators

var alphabet = []string{"-", "\\", "a", "e", "E", "u", "U", "+", "1", ".", "\"", "'", "(", ")", "/", "*", "#", "@", " ", "\n", "é"}

func genEscape(r *vlib.Rng) string {
	switch r.Intn(12) {
	case 0:
		return "\\41 "
	case 1:
		return "\\41"
	case 2:
		return "\\000041"
	case 3:
		return "\\0000411"
	case 4:
		return "\\0 "
	case 5:
		return "\\110000"
	case 6:
		return "\\d800 "
	case 7:
		return "\\" + vlib.Pick(r, []string{";", "{", ")", "\"", "'", "\\", "g", "-", "é", "€", "😀", " ", "\t"})
	case 8:
		return "\\\n" // not a valid escape
	case 9:
		return fmt.Sprintf("\\%x%s", r.Intn(0x11000), vlib.Pick(r, []string{"", " ", "\n", "\t", "  ", "\r\n"}))
	case 10:
		return fmt.Sprintf("\\%X", r.Intn(0x200000))
	default:
		return "\\65 "
	}
}

var nameStarts = []string{"a", "b", "e", "E", "u", "U", "n", "x", "_", "é", "€", "😀", "url", "important", "-a", "--", "-_", "-é"}
var nameConts = []string{"a", "e", "E", "1", "0", "-", "_", "é", "x", "n", "9"}

func genIdent(r *vlib.Rng) string {
	var sb strings.Builder
	switch r.Intn(8) {
	case 0:
		sb.WriteString(genEscape(r))
	case 1:
		sb.WriteString("-" + genEscape(r))
	default:
		sb.WriteString(vlib.Pick(r, nameStarts))
	}
	for k := r.Intn(4); k > 0; k-- {
		if r.Chance(1, 6) {
			sb.WriteString(genEscape(r))
		} else {
			sb.WriteString(vlib.Pick(r, nameConts))
		}
	}
	return sb.String()
}

func genDigits(r *vlib.Rng) string {
	if r.Chance(1, 12) {
		return vlib.Pick(r, []string{"9223372036854775807", "9223372036854775808", "16777217", "00", "99999999999999999999"})
	}
	n := r.Range(1, 3)
	var sb strings.Builder
	for i := 0; i < n; i++ {
		sb.WriteByte(byte('0' + r.Intn(10)))
	}
	return sb.String()
}

func genNumber(r *vlib.Rng) string {
	s := vlib.Pick(r, []string{"", "", "", "+", "-"})
	switch r.Intn(6) {
	case 0:
		s += genDigits(r)
	case 1:
		s += genDigits(r) + "." + genDigits(r)
	case 2:
		s += "." + genDigits(r)
	case 3:
		s += genDigits(r) + "."
	default:
		s += genDigits(r)
	}
	if r.Chance(1, 4) {
		s += vlib.Pick(r, []string{"e", "E"}) + vlib.Pick(r, []string{"", "+", "-"}) + vlib.Pick(r, []string{"", "1", "05", "x"})
	}
	return s
}

func genUnit(r *vlib.Rng) string {
	return vlib.Pick(r, []string{"px", "em", "e", "e-", "E5x", "-x", "--", "\\65 ", "n", "n-3", "N-", "é", "%", "%%", "e1", "-", "\\\n", "deg", "x1"})
}

func genStringBody(r *vlib.Rng, q string) string {
	var sb strings.Builder
	for k := r.Intn(5); k > 0; k-- {
		switch r.Intn(10) {
		case 0:
			sb.WriteString(genEscape(r))
		case 1:
			sb.WriteString("\\" + q)
		case 2:
			sb.WriteString(vlib.Pick(r, []string{"\n", "\r", "\f", "\\\r\n", "\\\n"}))
		case 3:
			if q == "\"" {
				sb.WriteString("'")
			} else {
				sb.WriteString("\"")
			}
		default:
			sb.WriteString(vlib.Pick(r, []string{"a", "b c", "é", "/*", "*/", ")", "{", ";", "€", "\x00", "\x7f"}))
		}
	}
	return sb.String()
}

func genString(r *vlib.Rng) string {
	q := vlib.Pick(r, []string{"\"", "'"})
	s := q + genStringBody(r, q)
	if r.Chance(5, 6) {
		s += q
	} else if r.Chance(1, 3) {
		s += "\\"
	}
	return s
}

func genWS(r *vlib.Rng) string {
	var sb strings.Builder
	for k := r.Range(1, 3); k > 0; k-- {
		sb.WriteString(vlib.Pick(r, []string{" ", " ", " ", "\n", "\t", "\r", "\r\n", "\f"}))
	}
	return sb.String()
}

func genURL(r *vlib.Rng) string {
	name := vlib.Pick(r, []string{"url", "url", "URL", "uRl", "u\\72l", "\\75rl", "url-x", "src"})
	var sb strings.Builder
	sb.WriteString(name + "(")
	if r.Chance(1, 3) {
		sb.WriteString(genWS(r))
	}
	if r.Chance(1, 5) {
		sb.WriteString(genString(r))
	} else {
		for k := r.Intn(5); k > 0; k-- {
			switch r.Intn(12) {
			case 0:
				sb.WriteString(genEscape(r))
			case 1:
				sb.WriteString(vlib.Pick(r, []string{"\"", "'", "(", "\x01", "\x7f", "\x0b", "\\\n", "\x00"}))
			case 2:
				sb.WriteString(genWS(r))
			case 3:
				sb.WriteString(vlib.Pick(r, []string{"\\)", "\\\\", "\\\\)", "\\(", "\\'"}))
			default:
				sb.WriteString(vlib.Pick(r, []string{"a", "/", ".", "é", "x.png", ":", "#", "%", "€", "{", ";"}))
			}
		}
	}
	if r.Chance(1, 3) {
		sb.WriteString(genWS(r))
	}
	if r.Chance(5, 6) {
		sb.WriteString(")")
	}
	return sb.String()
}

func genComment(r *vlib.Rng) string {
	body := vlib.Pick(r, []string{"", " ", "a", "*", "/", "**", "/*", "\n", "é*", " x \n y ", "*/"})
	if r.Chance(1, 8) {
		return "/*" + body
	}
	return "/*" + body + "*/"
}

var delims = []string{":", ";", ",", "!", "+", "-", ".", "<", ">", "=", "~", "|", "^", "$", "*", "/", "%", "&", "?", "`", "\\", "@", "#",
	"~=", "|=", "^=", "$=", "*=", "||", "|||", "<!--", "-->", "<!-", "--", "->", "\x7f", "\x01", "\x00", "é"}

func genURange(r *vlib.Rng) string {
	return vlib.Pick(r, []string{"u", "U"}) + "+" + vlib.Pick(r, []string{"1F?", "0-7F", "??????", "1234567", "-", "a-", "a-g", "0-", "?", "1?-5", "12345?", "12-3456789", "ff", "0", "x", "+", "??????\x3f"})
}

func genPiece(r *vlib.Rng, depth int) string {
	switch k := r.Intn(34); {
	case k < 4:
		return genIdent(r)
	case k < 6:
		return genNumber(r)
	case k < 8:
		return genNumber(r) + genUnit(r)
	case k < 10:
		return genString(r)
	case k < 12:
		return genURL(r)
	case k < 14:
		return "#" + vlib.Pick(r, []string{genIdent(r), genDigits(r), "-", "--", "-1", "", "\\\n", "-\\41", "é"})
	case k < 16:
		return "@" + vlib.Pick(r, []string{genIdent(r), "-", "1", "", "--", "-\\", "\\\n", "media", "import"})
	case k < 19:
		return genWS(r)
	case k < 21:
		return genComment(r)
	case k < 25:
		return vlib.Pick(r, delims)
	case k < 26:
		return genURange(r)
	case k < 27:
		return vlib.Pick(r, []string{")", "]", "}"})
	case k < 28:
		return "!" + vlib.Pick(r, []string{"", " ", "/**/"}) + vlib.Pick(r, []string{"important", "IMPORTANT", "imp\\6Frtant", "importan"})
	default:
		if depth >= 6 {
			return genIdent(r)
		}
		open, close := "(", ")"
		switch r.Intn(5) {
		case 0:
			open, close = "[", "]"
		case 1:
			open, close = "{", "}"
		case 2:
			open = genIdent(r) + "("
		case 3:
			open = vlib.Pick(r, []string{"url(\"a\"", "rgb(", "calc(", "URL( '", "var("})
		}
		body := genSoup(r, r.Intn(4), depth+1)
		switch r.Intn(8) {
		case 0:
			close = ""
		case 1:
			close = vlib.Pick(r, []string{")", "]", "}"})
		}
		return open + body + close
	}
}

func genSoup(r *vlib.Rng, n int, depth int) string {
	var sb strings.Builder
	for i := 0; i < n; i++ {
		sb.WriteString(genPiece(r, depth))
		if r.Chance(1, 4) {
			sb.WriteString(" ")
		}
	}
	return sb.String()
}

func genValue(r *vlib.Rng) string {
	s := genSoup(r, r.Range(0, 3), 3)
	if r.Chance(1, 3) {
		s += vlib.Pick(r, []string{"!important", " ! important", "!IMPORTANT ", "!/**/important/**/", "!important!", "!important !important", "! x", "!important x", "{}", " {} ", "x {}", "! !important", "!!important", "! x !important", "!important/**/!/**/important", "!importan", "! {} !important",
			"{} x", "! {}", "{} !important", "!important {}", "{}{}", "/**/{}/**/", " {} /**/ ", "{} !", "{}!important x", "{a:b} c", "! important {}"})
	}
	return s
}

func genDecl(r *vlib.Rng) string {
	switch r.Intn(10) {
	case 0:
		return genSoup(r, r.Range(1, 3), 3)
	case 1:
		return "@" + genIdent(r) + " " + genSoup(r, r.Intn(3), 3) + vlib.Pick(r, []string{";", "{" + genDeclList(r, 2) + "}", "", "{"})
	case 2:
		return genIdent(r) + genWS(r) + genValue(r)
	default:
		return genIdent(r) + vlib.Pick(r, []string{"", " ", "/**/"}) + ":" + genValue(r)
	}
}

func genDeclList(r *vlib.Rng, n int) string {
	var sb strings.Builder
	for i := 0; i < n; i++ {
		sb.WriteString(genDecl(r))
		sb.WriteString(vlib.Pick(r, []string{";", ";", "; ", ";\n", "", ";;", " ; "}))
	}
	return sb.String()
}

func genRule(r *vlib.Rng, depth int) string {
	switch r.Intn(8) {
	case 0:
		return "@" + genIdent(r) + genSoup(r, r.Intn(3), 4) + vlib.Pick(r, []string{";", "", "{}", "{" + genRuleList(r, 2, depth+1) + "}"})
	case 1:
		return vlib.Pick(r, []string{"<!--", "-->", ";", genComment(r), genWS(r)})
	case 2:
		return genSoup(r, r.Range(1, 3), 4)
	default:
		body := genDeclList(r, r.Intn(3))
		if depth < 2 && r.Chance(1, 4) {
			body += genRule(r, depth+1)
		}
		return genSoup(r, r.Range(1, 3), 4) + "{" + body + vlib.Pick(r, []string{"}", "}", "}", ""})
	}
}

func genRuleList(r *vlib.Rng, n int, depth int) string {
	var sb strings.Builder
	for i := 0; i < n; i++ {
		sb.WriteString(genRule(r, depth))
		sb.WriteString(vlib.Pick(r, []string{"", " ", "\n"}))
	}
	return sb.String()
}

func genNth(r *vlib.Rng) string {
	ws := func() string { return vlib.Pick(r, []string{"", "", " ", "/**/", " \n"}) }
	sign := func() string { return vlib.Pick(r, []string{"", "+", "-"}) }
	switch r.Intn(8) {
	case 0:
		return ws() + vlib.Pick(r, []string{"even", "ODD", "odd", "eVen", "évén", "n", "-n", "+n", "N", "-N-", "n-", "+n-"}) + ws()
	case 1:
		return ws() + sign() + genDigits(r) + ws()
	case 2:
		return ws() + sign() + genDigits(r) + vlib.Pick(r, []string{"n", "N", "n-", "\\6e", "n-" + genDigits(r), "n-x"}) + ws() + vlib.Pick(r, []string{"", "", "+", "-", "+-"}) + ws() + vlib.Pick(r, []string{"", genDigits(r), "+1", "-1"}) + ws()
	case 3:
		return ws() + sign() + ws() + vlib.Pick(r, []string{"n", "n-", "n-3", "n- 3", "n -3", "n + 3", "n+ 3", "n+3", "n +3", "n -  3", "n-+3"}) + ws()
	case 4:
		return ws() + genNumber(r) + vlib.Pick(r, []string{"n", "n+1", "", "n -1"})
	default:
		return ws() + sign() + vlib.Pick(r, []string{"", "2", "16777217", "0", "3.0", "1e1"}) + vlib.Pick(r, []string{"n", "n", "N", "x", ""}) + ws() + sign() + ws() + vlib.Pick(r, []string{"", "1", "07", "1.0", "x"}) + ws() + vlib.Pick(r, []string{"", "", "x", ","})
	}
}

// css-parsing-tests inputs
func loadTestInputs() []string {
	dir := "/repo/css/parser/css-parsing-tests"
	files, _ := filepath.Glob(filepath.Join(dir, "*.json"))
	sort.Strings(files)
	var out []string
	for _, f := range files {
		base := filepath.Base(f)
		if strings.HasPrefix(base, "color3") || base == "stylesheet_bytes.json" {
			continue
		}
		b, err := os.ReadFile(f)
		if err != nil {
			continue
		}
		var l []json.RawMessage
		if json.Unmarshal(b, &l) != nil {
			continue
		}
		for i := 0; i+1 < len(l); i += 2 {
			var s string
			if json.Unmarshal(l[i], &s) == nil && utf8.ValidString(s) && len(s) < 400 {
				out = append(out, s)
			}
		}
	}
	return out
}

func mutate(r *vlib.Rng, s string) (string, string) {
	rs := []rune(s)
	if len(rs) == 0 {
		return s, "mut-none"
	}
	switch r.Intn(4) {
	case 0: // prefix
		return string(rs[:r.Intn(len(rs))]), "mut-prefix"
	case 1: // deletion
		i := r.Intn(len(rs))
		return string(rs[:i]) + string(rs[i+1:]), "mut-delete"
	case 2: // replacement
		i := r.Intn(len(rs))
		return string(rs[:i]) + vlib.Pick(r, alphabet) + string(rs[i+1:]), "mut-replace"
	default: // insertion
		i := r.Intn(len(rs) + 1)
		return string(rs[:i]) + vlib.Pick(r, append(alphabet, "\r", "\x00", ";", "{", "}", "[", "]", "!", ":")) + string(rs[i:]), "mut-insert"
	}
}

func pickEntry(r *vlib.Rng, hint int) (int, int) {
	e := hint
	if e < 0 || r.Chance(1, 3) {
		switch k := r.Intn(20); {
		case k < 7:
			e = eTok
		case k < 9:
			e = eTokSkip
		case k < 11:
			e = eSheet
		case k < 14:
			e = eBlocks
		case k < 17:
			e = eDecls
		case k < 19:
			e = eOneDecl
		default:
			e = eNth
		}
	}
	return e, r.Intn(4)
}

func main() {
	out := flag.String("out", "cases.jsonl", "output file")
	n := flag.Int("n", 3000, "number of cases")
	flag.Parse()
	thorough := os.Getenv("VERIF_TIER") == "thorough"
	rng := vlib.NewRng(vlib.Seed())
	w := vlib.NewWriter(*out)
	defer w.Close()
	rn := &runner{w: w, seen: map[string]bool{}}

	// 1. regression corpus
	files, _ := filepath.Glob("/verif/corpus/C06/*.css")
	sort.Strings(files)
	for _, f := range files {
		b, err := os.ReadFile(f)
		if err != nil {
			continue
		}
		src := string(b)
		for e := 0; e < nEntries; e++ {
			rn.run("corpus", e, 0, src)
		}
	}

	// 2. exhaustive short strings
	maxLen := 2
	if thorough {
		maxLen = 3
	}
	var rec func(prefix string, k int)
	rec = func(prefix string, k int) {
		rn.run("exhaust", eTok, 0, prefix)
		if k == 0 {
			return
		}
		for _, a := range alphabet {
			rec(prefix+a, k-1)
		}
	}
	rec("", maxLen)

	// 2b. end of input after every code point of every construct (all deterministic)
	for i, c := range cssedge.Constructs {
		for k, p := range cssedge.Prefixes(c.Text, false) {
			rn.run("trunc", eTok, 0, p)
			switch c.Class {
			case "value":
				rn.run("trunc", eTokSkip, 0, p)
				rn.run("trunc", []int{eBlocks, eDecls, eOneDecl}[(i+k)%3], (i+k)%4, "a:"+p)
			case "decls":
				rn.run("trunc", eDecls, (i+k)%4, p)
				rn.run("trunc", eBlocks, 0, p)
				rn.run("trunc", eOneDecl, (i+k)%2, p)
			case "rules":
				rn.run("trunc", eSheet, (i+k)%4, p)
				rn.run("trunc", eBlocks, 0, p)
			case "nth":
				rn.run("trunc", eNth, 0, p)
			}
			// the same end of input one level down
			rn.run("trunc", eTok, 0, cssedge.Wrappers[(i+k)%len(cssedge.Wrappers)]+p)
		}
	}

	// 2c. exhaustive neighbourhoods of the hand scanners
	extra := 0
	if thorough {
		extra = 1
	}
	for _, c := range cssedge.Contexts(extra) {
		c.Enumerate(func(s string) { rn.run("exhaust-ctx", eTok, 0, s) })
	}
	// 2c'. An+B: every form of the grammar with one extra token of every kind at every token boundary
	// (leading, between, trailing): the grammar rejects all of them except comments / white space
	cssedge.NthGrid(true, func(s string) { rn.run("nth-grid", eNth, 0, s) })
	// 2d. colours: deterministic grid + the css-parsing-tests colour inputs
	colorGrid(func(s string) { rn.run("color-grid", eColor, 0, s) })
	for _, s := range colorTestInputs() {
		rn.run("color-tests", eColor, 0, s)
	}
	fixed := w.N() // the deterministic part does not count against the budget of the random streams

	tests := loadTestInputs()
	// every test input once through a fitting entry point, plus all its prefixes for a sample
	for i, s := range tests {
		if w.N()-fixed >= *n*2/3 {
			break
		}
		rn.run("tests", eTok, 0, s)
		rn.run("tests", i%nEntries, 3, s)
	}

	// 3. generated streams
	for w.N()-fixed < *n && hangs < 3 {
		r := rng.Fork()
		var src, kind string
		hint := -1
		switch k := r.Intn(23); {
		case k >= 20:
			kind = "color"
			src = genColor(r)
			hint = eColor
		case k < 3:
			kind = "short"
			for j := r.Range(3, 7); j > 0; j-- {
				src += vlib.Pick(r, alphabet)
			}
			hint = eTok
		case k < 9:
			kind = "soup"
			src = genSoup(r, r.Range(1, 6), 0)
		case k < 12:
			kind = "decls"
			src = genDeclList(r, r.Range(1, 4))
			hint = vlib.Pick(r, []int{eDecls, eBlocks, eOneDecl})
		case k < 15:
			kind = "rules"
			src = genRuleList(r, r.Range(1, 3), 0)
			hint = vlib.Pick(r, []int{eSheet, eBlocks})
		case k < 16:
			kind = "nth"
			src = genNth(r)
			hint = eNth
		default:
			base := ""
			switch r.Intn(5) {
			case 0:
				base = vlib.Pick(r, tests)
			case 1:
				base = genDeclList(r, r.Range(1, 3))
				hint = vlib.Pick(r, []int{eDecls, eBlocks, eOneDecl})
			case 2:
				base = genRuleList(r, r.Range(1, 2), 0)
				hint = vlib.Pick(r, []int{eSheet, eBlocks})
			case 3:
				base = genNth(r)
				hint = eNth
			default:
				base = genSoup(r, r.Range(1, 5), 0)
			}
			src, kind = mutate(r, base)
		}
		if utf8.RuneCountInString(src) > 160 {
			continue
		}
		e, fl := pickEntry(r, hint)
		if hint == eColor {
			e = eColor
		}
		rn.run(kind, e, fl, src)
		// every prefix of a sample of the generated texts (same entry point)
		if kind != "short" && !strings.HasPrefix(kind, "mut-") && utf8.RuneCountInString(src) <= 40 && r.Chance(1, 12) {
			for _, p := range cssedge.Prefixes(src, false) {
				rn.run("trunc-gen", e, fl, p)
			}
		}
	}
}
