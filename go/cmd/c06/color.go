// Colour stream of the C06 harness: ParseColorString on grammar-directed near-valid
// CSS Color 3 values.  The deterministic part (kind "color-grid") substitutes every entry of a
// table of component spellings -- integers, integral-valued NON-integers ("255.0", "1e2", "0.0",
// "5."), signed forms, fractions, percentages, dimensions, idents, overflowing numbers -- into every
// argument position of valid rgb() / rgba() / hsl() / hsla() values, varies separators and argument
// counts, enumerates hash lengths 0..9 and the keyword table; the random part (kind "color")
// draws whole values from the same grammar.
package main

import (
	"encoding/json"
	"fmt"
	"os"
	"sort"
	"strings"

	"verifharness/vlib"

	pr "github.com/benoitkugler/webrender/css/parser"
)

// spellings of one argument; the class (after the '|') is only used for tags
var colorComps = []string{
	// <integer>: optional sign + digits
	"0", "51", "255", "256", "128", "-10", "+5", "-0", "+0", "007", "360", "-120", "480", "16777217", "2147483648",
	"9223372036854775807", "9223372036854775808", "99999999999999999999",
	// integral VALUE, type <number> (a '.' or an exponent in the representation)
	"255.0", "0.0", "51.00", "1e2", "5E1", "12e1", "1e0", "2.50e2", "100e-1", "-0.0", "+5.0", "1e+2", "120.0", "0e0",
	// "5." is the integer 5 followed by a '.' delimiter
	"5.", "255.",
	// fractions
	"25.5", ".5", "0.5", "1.5", "-1.5", "1e-1", "0.1", "+.5", "1.0", "-1", "2",
	// percentages
	"0%", "50%", "100%", "110%", "-12%", "33.3%", "1e1%", "50.0%", "+5%", ".5%", "1400%", "0.0%",
	// other token types
	"0deg", "10px", "5e", "1e2x", "none", "x", "red", "#fff", "'1'", "(1)", "calc(1)", "", "1 1", "1/2", "!",
	// outside float32 / subnormal
	"1e39", "-1e39", "1e39%", "1e-50", "3.4028235e38", "3.5e38%", "1e-46%",
}

func colorFn(name string, args []string, sep string) string {
	return name + "(" + strings.Join(args, sep) + ")"
}

type colorBase struct {
	fn   string
	args []string
}

var colorBases = []colorBase{
	{"rgb", []string{"0", "51", "255"}},
	{"rgb", []string{"10%", "20%", "30%"}},
	{"rgba", []string{"0", "51", "255", "0.5"}},
	{"rgba", []string{"10%", "20%", "30%", "1"}},
	{"hsl", []string{"120", "100%", "50%"}},
	{"hsla", []string{"240", "50%", "25%", ".5"}},
}

var colorSeps = []string{",", ", ", " , ", " ,", "/**/,/**/", "\n,\t", " ", "", ",,", ", ,", ";", "/", ", /**/"}

func withArg(args []string, i int, v string) []string {
	out := append([]string(nil), args...)
	out[i] = v
	return out
}

// deterministic colour inputs
func colorGrid(emit func(string)) {
	for _, b := range colorBases {
		emit(colorFn(b.fn, b.args, ", "))
		// every component spelling in every position
		for i := range b.args {
			for _, c := range colorComps {
				emit(colorFn(b.fn, withArg(b.args, i, c), ", "))
			}
		}
		// all arguments spelled the same way
		for _, c := range colorComps {
			a := make([]string, len(b.args))
			for i := range a {
				a[i] = c
			}
			emit(colorFn(b.fn, a, ","))
		}
		// separators
		for _, s := range colorSeps {
			emit(colorFn(b.fn, b.args, s))
			for i := 1; i < len(b.args); i++ {
				emit(b.fn + "(" + strings.Join(b.args[:i], ", ") + s + strings.Join(b.args[i:], ", ") + ")")
			}
		}
		// argument counts, leading / trailing commas and white space, missing parenthesis, extra tokens
		for n := 0; n <= 6; n++ {
			var a []string
			for i := 0; i < n; i++ {
				a = append(a, b.args[i%len(b.args)])
			}
			emit(colorFn(b.fn, a, ", "))
		}
		v := strings.Join(b.args, ", ")
		for _, s := range []string{"%s(%s,)", "%s(,%s)", "%s( %s )", "%s(/**/%s/**/)", "%s(%s", "%s(%s) ", " %s(%s)", "/**/%s(%s)/**/", "%s(%s) x", "x %s(%s)",
			"%s(%s);", "%s (%s)", "%s(%s))", "-%s(%s)", "%sx(%s)", "%s((%s))", "%s([%s])", "%s(%s)%s(%s)"} {
			if strings.Count(s, "%s") == 4 {
				emit(fmt.Sprintf(s, b.fn, v, b.fn, v))
			} else {
				emit(fmt.Sprintf(s, b.fn, v))
			}
		}
		// function name spellings
		for _, nm := range []string{strings.ToUpper(b.fn), strings.Title(b.fn), b.fn[:1] + "\\" + b.fn[1:], "\\" + fmt.Sprintf("%x ", b.fn[0]) + b.fn[1:], b.fn + "a", b.fn[:len(b.fn)-1], "Ⓡgb", b.fn + "\\"} {
			emit(colorFn(nm, b.args, ", "))
		}
	}
	// the argument kinds crossed: rgb / hsl with every combination of (integer, number, percentage) per position
	kinds := []string{"7", "7.0", "7%", "7e0", "+7"}
	for _, a := range kinds {
		for _, b := range kinds {
			for _, c := range kinds {
				emit(colorFn("rgb", []string{a, b, c}, ","))
				emit(colorFn("hsl", []string{a, b, c}, ","))
				emit(colorFn("rgba", []string{a, b, c, "1"}, ","))
				emit(colorFn("hsla", []string{a, b, c, "1"}, ","))
			}
		}
	}
	// hue grid (every sextant boundary and its neighbours, negative and > 360), saturation / lightness extremes
	for _, h := range []string{"0", "1", "29", "30", "59", "60", "61", "119", "120", "121", "179", "180", "181", "239", "240", "241", "299", "300", "301", "359", "360", "361",
		"-1", "-60", "-359", "-360", "-361", "720", "36000", "16777216", "-16777216", "123456789", "4294967296"} {
		for _, sl := range [][2]string{{"100%", "50%"}, {"50%", "25%"}, {"0%", "50%"}, {"100%", "0%"}, {"100%", "100%"}, {"33.3%", "66.6%"}, {"150%", "50%"}, {"-10%", "50%"}, {"50%", "150%"}, {"75%", "-5%"}, {"12.5%", "87.5%"}, {"100%", "50.0001%"}, {"1e-3%", "49.99999%"}} {
			emit(colorFn("hsl", []string{h, sl[0], sl[1]}, ", "))
		}
	}
	// hash colours: lengths 0..9, hex / non-hex in every position, mixed case
	for n := 0; n <= 9; n++ {
		emit("#" + strings.Repeat("f", n))
		emit("#" + strings.Repeat("0", n))
		emit("#" + strings.Repeat("A", n))
	}
	for _, base := range []string{"369", "FFCc99", "abcdef", "ABCDEF", "012", "89a"} {
		emit("#" + base)
		for i := 0; i < len(base); i++ {
			for _, c := range []string{"g", "G", "-", "é", "\\66 ", " ", "_", "/", ":", "@", "`", "K", "ſ"} {
				emit("#" + base[:i] + c + base[i+1:])
			}
		}
		emit("# " + base)
		emit("#" + base + " ")
		emit("#" + base + "/**/")
		emit("#" + base + ";")
		emit("##" + base)
		emit(base)
	}
	// keywords
	var names []string
	for k := range pr.ColorKeywords {
		names = append(names, k)
	}
	sort.Strings(names)
	names = append(names, "rebeccapurple", "grey", "none", "inherit", "currentcolour", "transparen", "")
	for i, k := range names {
		emit(k)
		if k == "" {
			continue
		}
		switch i % 6 {
		case 0:
			emit(strings.ToUpper(k))
		case 1:
			emit(k[:len(k)-1])
		case 2:
			emit(k + "x")
		case 3:
			emit(strings.ToUpper(k[:1]) + k[1:] + " ")
		case 4:
			emit(k[:1] + "\\" + fmt.Sprintf("%x ", k[1]) + k[2:])
		case 5:
			emit(strings.Replace(k, "k", "K", 1)) // U+212A KELVIN SIGN folds to k under Unicode case folding only
		}
	}
	for _, s := range []string{"", " ", "/**/", "4", "top", "red blue", "red,", "red/**/", "\nRED\t", "currentColor", "CURRENTcolor", "current-Color", "TransParent", "transparent "} {
		emit(s)
	}
}

// css-parsing-tests colour inputs (color3.json complete, a slice of the two generated files)
func colorTestInputs() []string {
	var out []string
	for _, f := range []struct {
		name string
		step int
	}{{"color3.json", 1}, {"color3_hsl.json", 17}, {"color3_keywords.json", 5}} {
		b, err := os.ReadFile("/repo/css/parser/css-parsing-tests/" + f.name)
		if err != nil {
			continue
		}
		var l []json.RawMessage
		if json.Unmarshal(b, &l) != nil {
			continue
		}
		for i := 0; i+1 < len(l); i += 2 * f.step {
			var s string
			if json.Unmarshal(l[i], &s) == nil {
				out = append(out, s)
			}
		}
	}
	return out
}

func genColorArg(r *vlib.Rng, want string) string {
	if r.Chance(1, 5) {
		return vlib.Pick(r, colorComps)
	}
	digits := func() string { return fmt.Sprint(r.Intn(vlib.Pick(r, []int{2, 10, 256, 400, 100000}))) }
	sign := vlib.Pick(r, []string{"", "", "", "", "-", "+"})
	frac := func() string {
		return vlib.Pick(r, []string{".0", ".00", ".5", ".25", "e0", "E0", "e1", "e+1", "e-1", ".0e1", "." + digits(), "e-0"})
	}
	switch want {
	case "int":
		switch r.Intn(8) {
		case 0:
			return sign + digits() + frac() // a <number> where an <integer> is expected
		case 1:
			return sign + digits() + "%"
		default:
			return sign + digits()
		}
	case "pct":
		switch r.Intn(8) {
		case 0:
			return sign + digits()
		case 1:
			return sign + digits() + frac()
		case 2:
			return sign + digits() + frac() + "%"
		default:
			return sign + digits() + "%"
		}
	default: // alpha
		switch r.Intn(6) {
		case 0:
			return sign + digits() + "%"
		case 1:
			return sign + digits()
		default:
			return sign + vlib.Pick(r, []string{"0", "1", "", "0", "2"}) + "." + digits()
		}
	}
}

func genColor(r *vlib.Rng) string {
	ws := func() string { return vlib.Pick(r, []string{"", "", "", " ", "/**/", "\n", "\t "}) }
	sep := func() string {
		if r.Chance(1, 14) {
			return vlib.Pick(r, colorSeps)
		}
		return ws() + "," + ws()
	}
	switch k := r.Intn(12); {
	case k < 8:
		fn := vlib.Pick(r, []string{"rgb", "rgba", "hsl", "hsla"})
		var wants []string
		if strings.HasPrefix(fn, "rgb") {
			if r.Bool() {
				wants = []string{"int", "int", "int"}
			} else {
				wants = []string{"pct", "pct", "pct"}
			}
		} else {
			wants = []string{"int", "pct", "pct"}
		}
		if strings.HasSuffix(fn, "a") != r.Chance(1, 10) {
			wants = append(wants, "alpha")
		}
		if r.Chance(1, 12) {
			wants = wants[:len(wants)-1]
		}
		var sb strings.Builder
		name := fn
		if r.Chance(1, 6) {
			name = vlib.Pick(r, []string{strings.ToUpper(fn), strings.Title(fn), fn[:1] + "\\" + fn[1:], fn + "x"})
		}
		sb.WriteString(ws() + name + "(" + ws())
		for i, w := range wants {
			if i > 0 {
				sb.WriteString(sep())
			}
			sb.WriteString(genColorArg(r, w))
		}
		sb.WriteString(ws())
		if !r.Chance(1, 12) {
			sb.WriteString(")")
		}
		sb.WriteString(ws())
		if r.Chance(1, 20) {
			sb.WriteString(vlib.Pick(r, []string{"x", ";", "!important", "1"}))
		}
		return sb.String()
	case k < 10:
		var sb strings.Builder
		sb.WriteString(ws() + "#")
		for n := vlib.Pick(r, []int{3, 6, 3, 6, 3, 6, 1, 2, 4, 5, 7, 8}); n > 0; n-- {
			if r.Chance(1, 14) {
				sb.WriteString(vlib.Pick(r, []string{"g", "-", "x", "é", "\\61 ", "_"}))
			} else {
				sb.WriteString(vlib.Pick(r, strings.Split("0123456789abcdefABCDEF", "")))
			}
		}
		sb.WriteString(ws())
		return sb.String()
	default:
		var names []string
		for k := range pr.ColorKeywords {
			names = append(names, k)
		}
		sort.Strings(names)
		s := vlib.Pick(r, names)
		s2, _ := mutate(r, s)
		if r.Bool() {
			return ws() + s + ws()
		}
		return ws() + s2 + ws()
	}
}

func colorDump(c pr.Color) string {
	switch c.Type {
	case pr.ColorInvalid:
		return "invalid"
	case pr.ColorCurrentColor:
		return "currentColor"
	}
	return fmt.Sprintf("rgba(%g, %g, %g, %g)", c.RGBA.R, c.RGBA.G, c.RGBA.B, c.RGBA.A)
}

func coqColor(c pr.Color) string {
	switch c.Type {
	case pr.ColorInvalid:
		return "(ObsColor ColorInvalid)"
	case pr.ColorCurrentColor:
		return "(ObsColor ColorCurrent)"
	}
	if !vlib.Finite32(c.RGBA.R, c.RGBA.G, c.RGBA.B, c.RGBA.A) {
		return "ObsNonFinite"
	}
	return fmt.Sprintf("(ObsColor (ColorRGBA %s %s %s %s))", vlib.Q32(c.RGBA.R), vlib.Q32(c.RGBA.G), vlib.Q32(c.RGBA.B), vlib.Q32(c.RGBA.A))
}
