// Harness for C11 ("Lines are broken greedily and fit their container").
//
// Generates paragraphs (words, nested spans with margins/borders/paddings,
// inline-blocks, <br>, white-space runs, inter-element white space as text nodes
// of its own, text-align, text-indent, font-size, line-height, overflow-wrap),
// puts 1-4 DIFFERENT paragraphs, each at a sweep of container widths, as blocks
// of one document (so that blocks with different line-height / font-size /
// text-align / overflow-wrap are laid out by one Layout call), lays the document
// out with /repo's real pipeline and writes one case per block (paragraph, width)
// as a Coq term of type Check.C11.case.  Stream `glued` (genGlued): inline boxes
// with non-zero horizontal edges holding several short words, followed WITHOUT
// a break opportunity by text / another box, at the widths where the box fits
// entirely and what is glued to it does not (gluedWidths): the line has to be
// re-broken inside a box that was already placed (breakWaitingChildren).
// Document-level dimension `multi-pass:<mode>` (see multiPassModes): 3 documents in 10 put
// their blocks where the engine lays the same box tree out more than once (remade page,
// multi-column, flex, break-inside: avoid blocks moved to the next page).
//
// THE PROJECTION (this is the tie): the item list given to the model is read
// from /repo's own box tree BEFORE layout (layout.VerifBoxTree = the
// formatting structure Layout starts from, after white-space processing):
//   - the paragraph is the block box of a <p> element whose only child is a LineBox;
//   - its descendants are visited in document order;
//   - TextBox: maximal runs of U+0020 become `Space m (n*em)`, every U+000A
//     becomes `Hard`, every other maximal run becomes `Word (n*em)` (n = number
//     of runes; Ahem: every glyph advances 1em), m = the box's computed white-space;
//     when the box's computed overflow-wrap is anywhere | break-word and its
//     white-space wraps, the run becomes n single-glyph Words separated by `EB`
//     (emergency break opportunity); an `EB` is also put between two such runs
//     that are separated by inline-box boundaries only (after the Closes);
//   - InlineBox: `Open (margin-left + border-left-width + padding-left)`, its
//     children, `Close (padding-right + border-right-width + margin-right)`
//     (computed values, all in px; <br> is an ordinary InlineBox whose
//     ::before holds the text "\n");
//   - InlineBlockBox: `Atomic m w h`, w/h = the margin box computed from its
//     style (width/height + paddings + borders + margins), m = white-space of its parent.
// The observables are read from the laid-out tree: per LineBox its y and
// height, and in document order every non-empty TextBox (x, width) and every
// InlineBlockBox (margin-box x, width).
package main

import (
	"encoding/json"
	"flag"
	"fmt"
	"os"
	"path/filepath"
	"sort"
	"strings"

	"verifharness/vlib"
	"verifharness/vlib/render"

	pr "github.com/benoitkugler/webrender/css/properties"
	bo "github.com/benoitkugler/webrender/html/boxes"
	"github.com/benoitkugler/webrender/html/layout"
	"github.com/benoitkugler/webrender/html/tree"
	"github.com/benoitkugler/webrender/text"
)

// ---------------------------------------------------------------- paragraph AST

const (
	kText = iota
	kSpan
	kAtomic
	kBr
)

type node struct {
	Kind  int     `json:"kind"`
	Text  string  `json:"text,omitempty"`
	WS    string  `json:"ws,omitempty"` // white-space override of a span ("" = inherit)
	OW    string  `json:"ow,omitempty"` // overflow-wrap override of a span ("" = inherit)
	Edges [6]int  `json:"edges"`        // margin-left border-left padding-left padding-right border-right margin-right
	VPad  int     `json:"vpad,omitempty"` // vertical padding+border of a span (must not change the line height)
	W     int     `json:"w,omitempty"`  // atomic: content box
	H     int     `json:"h,omitempty"`
	VM    int     `json:"vm,omitempty"` // atomic: vertical margin (each side)
	Kids  []*node `json:"kids,omitempty"`
}

type para struct {
	Em      int     `json:"em"`
	LH      int     `json:"lh"`
	WS      string  `json:"ws"`
	Align   string  `json:"align"`
	Indent  int     `json:"indent"`
	Font    string  `json:"font"`
	OW      string  `json:"ow,omitempty"` // overflow-wrap ("" = normal)
	WB      string  `json:"wb,omitempty"` // word-break ("" = normal)
	Kids    []*node `json:"kids"`
	Comment string  `json:"comment,omitempty"`
}

func (n *node) html(sb *strings.Builder) {
	switch n.Kind {
	case kText:
		sb.WriteString(n.Text)
	case kBr:
		sb.WriteString("<br>")
	case kAtomic:
		fmt.Fprintf(sb, `<span style="display:inline-block;width:%dpx;height:%dpx;margin:%dpx %dpx %dpx %dpx;border-style:solid;border-width:0 %dpx 0 %dpx;padding:0 %dpx 0 %dpx"></span>`,
			n.W, n.H, n.VM, n.Edges[5], n.VM, n.Edges[0], n.Edges[4], n.Edges[1], n.Edges[3], n.Edges[2])
	case kSpan:
		fmt.Fprintf(sb, `<span style="margin:0 %dpx 0 %dpx;border-style:solid;border-width:%dpx %dpx %dpx %dpx;padding:%dpx %dpx %dpx %dpx`,
			n.Edges[5], n.Edges[0], n.VPad, n.Edges[4], n.VPad, n.Edges[1], n.VPad, n.Edges[3], n.VPad, n.Edges[2])
		if n.WS != "" {
			fmt.Fprintf(sb, ";white-space:%s", n.WS)
		}
		if n.OW != "" {
			fmt.Fprintf(sb, ";overflow-wrap:%s", n.OW)
		}
		sb.WriteString(`">`)
		for _, k := range n.Kids {
			k.html(sb)
		}
		sb.WriteString("</span>")
	}
}

func (p *para) inner() string {
	var sb strings.Builder
	for _, k := range p.Kids {
		k.html(&sb)
	}
	return sb.String()
}

func (p *para) style(width int) string {
	s := fmt.Sprintf("font:%dpx/%dpx %s;width:%dpx;text-align:%s;text-indent:%dpx;white-space:%s", p.Em, p.LH, p.Font, width, p.Align, p.Indent, p.WS)
	if p.OW != "" {
		s += ";overflow-wrap:" + p.OW
	}
	if p.WB != "" {
		s += ";word-break:" + p.WB
	}
	return s
}

// one block of a document: a paragraph at a container width
type block struct {
	p *para
	w int
}

// MULTI-PASS CONTAINERS (document-level dimension, third strengthening round).  The property
// speaks about the lines of a block whatever the number of times the layout engine lays that
// block out: the result must be the one of the model (a function of cfg + items) also when the
// SAME box tree is laid out again from the start.  Modes ("" = plain block flow on one tall page,
// every paragraph laid out exactly once):
//   page-remake     an in-flow box shows counter(page) "/" counter(pages): every page is made
//                   twice (the number of pages is only known after the first pass), the whole
//                   document is laid out a second time from the same box tree;
//   columns         the blocks are the content of a multi-column container (column-count 1 or 2,
//                   break-inside: avoid paragraphs): column balancing lays the content out
//                   several times;
//   flex-column / flex-row   the blocks are flex items (flex: none): an item is laid out to find
//                   its hypothetical size and again at its final position;
//   avoid-next-page several short pages and break-inside: avoid paragraphs: a paragraph first tried
//                   at the bottom of a page is laid out again at the top of the next one.
var multiPassModes = []string{"page-remake", "page-remake", "columns", "columns", "flex-column", "flex-row", "avoid-next-page", "avoid-next-page"}

// pageH: page height of mode avoid-next-page (0 = the tall page)
type docOpt struct {
	mode  string
	cols  int // columns: column-count
	pageH int
}

// the blocks of one document, in order: every block carries its own font / line-height /
// text-align / ... so that one Layout call sees different values of them
func document(blocks []block, o docOpt) string {
	var sb strings.Builder
	page, pextra, open, closing := "size:30000px 400000px;margin:0", "", "", ""
	switch o.mode {
	case "page-remake":
		// (a page-margin box would not do: margin boxes are made after pagination; it is an
		// in-flow box whose content depends on counter(pages) that has the page remade)
		page = `size:30000px 400000px;margin:13px 0 31px 17px`
		open = `<style>div.pc::before{content:counter(page) "/" counter(pages)}</style><div class="pc" style="font:10px/12px Ahem"></div>`
	case "columns":
		open, closing = fmt.Sprintf(`<div style="column-count:%d;column-gap:11px">`, o.cols), "</div>"
		pextra = ";break-inside:avoid"
	case "flex-column":
		open, closing = `<div style="display:flex;flex-direction:column;align-items:flex-start">`, "</div>"
		pextra = ";flex:none"
	case "flex-row":
		open, closing = `<div style="display:flex;flex-direction:row;align-items:flex-start">`, "</div>"
		pextra = ";flex:none"
	case "avoid-next-page":
		if o.pageH > 0 {
			page = fmt.Sprintf("size:30000px %dpx;margin:0", o.pageH)
		}
		pextra = ";break-inside:avoid"
	}
	fmt.Fprintf(&sb, `<style>@font-face{src:url(file://%s/weasyprint.otf);font-family:weasyprint} @page{%s} body{margin:0} p{margin:0 0 0 7px;padding:0 0 0 3px%s}</style>%s`, render.FontDir, page, pextra, open)
	for _, b := range blocks {
		fmt.Fprintf(&sb, `<p style="%s">%s</p>`, b.p.style(b.w), b.p.inner())
	}
	sb.WriteString(closing)
	return sb.String()
}

func (p *para) document(widths []int) string {
	var bs []block
	for _, w := range widths {
		bs = append(bs, block{p, w})
	}
	return document(bs, docOpt{})
}

// ---------------------------------------------------------------- generators

const letters = "abcdefghijklmnopqrstuvwxyzABCDEFGHIJKLMNOPQRSTUVWXYZ"

func word(r *vlib.Rng, max int) string {
	n := r.Range(1, max)
	b := make([]byte, n)
	for i := range b {
		b[i] = letters[r.Intn(len(letters))]
	}
	return string(b)
}

// words joined by single spaces; optional leading / trailing space
func genText(r *vlib.Rng, lead, trail bool) *node {
	k := r.Range(1, 4)
	var ws []string
	for i := 0; i < k; i++ {
		ws = append(ws, word(r, vlib.Pick(r, []int{2, 3, 5, 8})))
	}
	s := strings.Join(ws, " ")
	if lead {
		s = " " + s
	}
	if trail {
		s += " "
	}
	return &node{Kind: kText, Text: s}
}

// text of a span with its own white-space: starts and ends with a word
func genModeText(r *vlib.Rng, ws string) *node {
	k := r.Range(1, 4)
	var sb strings.Builder
	for i := 0; i < k; i++ {
		if i > 0 {
			switch ws {
			case "pre":
				if r.Chance(1, 5) {
					sb.WriteString("\n")
				} else {
					sb.WriteString(strings.Repeat(" ", vlib.Pick(r, []int{1, 1, 2, 3})))
				}
			case "pre-wrap":
				// single spaces only: CSS 2.1 16.6.1 lets the UA choose what happens to a
				// run of preserved spaces at the end of a line ("may visually collapse them")
				if r.Chance(1, 5) {
					sb.WriteString("\n")
				} else {
					sb.WriteString(" ")
				}
			case "pre-line":
				if r.Chance(1, 4) {
					sb.WriteString("\n")
				} else {
					sb.WriteString(" ")
				}
			default:
				sb.WriteString(" ")
			}
		}
		sb.WriteString(word(r, 4))
	}
	return &node{Kind: kText, Text: sb.String()}
}

func edge(r *vlib.Rng, em int) int {
	return vlib.Pick(r, []int{0, 0, 0, 1, 3, 5, 10, em / 2, em, 2 * em})
}

func genAtomic(r *vlib.Rng, em int) *node {
	// width >= 1: a zero-width atomic right after a space at the line limit is a known oddity
	n := &node{Kind: kAtomic, W: vlib.Pick(r, []int{1, 5, em, 2 * em, 3 * em, 7 * em / 2}), H: vlib.Pick(r, []int{0, 3, em / 2, em, 2 * em, 3 * em, 5 * em})}
	if r.Chance(1, 3) {
		for i := range n.Edges {
			n.Edges[i] = vlib.Pick(r, []int{0, 0, 2, 5})
		}
	}
	if r.Chance(1, 4) {
		n.VM = vlib.Pick(r, []int{1, 4, em})
	}
	return n
}

func genSpan(r *vlib.Rng, em, depth int, paraWS string) *node {
	n := &node{Kind: kSpan}
	if r.Chance(3, 4) {
		for i := range n.Edges {
			if r.Chance(1, 2) {
				n.Edges[i] = edge(r, em)
			}
		}
	}
	if r.Chance(1, 4) {
		n.VPad = vlib.Pick(r, []int{1, 5, em})
	}
	if r.Chance(1, 4) {
		// no pre-wrap: what happens to a preserved space at a wrap point is left to the
		// UA by CSS 2.1 16.6.1, the property does not determine it
		modes := []string{"normal", "nowrap", "pre", "pre-line"}
		n.WS = vlib.Pick(r, modes)
		if n.WS != paraWS {
			n.Kids = []*node{genModeText(r, n.WS)}
			return n
		}
		n.WS = ""
	}
	if r.Chance(1, 8) {
		n.OW = vlib.Pick(r, []string{"normal", "anywhere", "break-word"})
	}
	n.Kids = genSeq(r, em, depth+1, r.Range(1, 3), paraWS, true)
	return n
}

// inter-element white space: a text node holding only white space (it is a text box of
// its own when its neighbours are elements; next to a text it merges with it)
func genWS(r *vlib.Rng) *node {
	return &node{Kind: kText, Text: vlib.Pick(r, []string{" ", " ", " ", "  ", "\n", " \n  "})}
}

// a sequence of inline-level nodes; inSpan: no <br> first or last
func genSeq(r *vlib.Rng, em, depth, n int, paraWS string, inSpan bool) []*node {
	var out []*node
	for i := 0; i < n; i++ {
		k := r.Intn(20)
		switch {
		case k < 11:
			out = append(out, genText(r, r.Chance(1, 2), r.Chance(1, 2)))
		case k < 15 && depth < 3:
			out = append(out, genSpan(r, em, depth, paraWS))
		case k < 18:
			out = append(out, genAtomic(r, em))
		case k < 19 && !(inSpan && (i == 0 || i == n-1)):
			out = append(out, &node{Kind: kBr})
		default:
			out = append(out, genText(r, r.Chance(1, 2), r.Chance(1, 2)))
		}
	}
	// white space of its own at every position: before the first node, between two nodes,
	// after the last one (not in preserving modes: every space would count)
	if paraWS == "normal" || paraWS == "nowrap" || paraWS == "pre-line" {
		mk := func() *node {
			if paraWS == "pre-line" {
				return &node{Kind: kText, Text: " "} // a newline would be a forced break
			}
			return genWS(r)
		}
		var ws []*node
		for _, k := range out {
			if r.Chance(1, 4) {
				ws = append(ws, mk())
			}
			ws = append(ws, k)
		}
		if r.Chance(1, 4) {
			ws = append(ws, mk())
		}
		out = ws
	}
	return out
}

func genPara(r *vlib.Rng) *para {
	p := &para{Font: "Ahem"}
	p.Em = vlib.Pick(r, []int{10, 20, 20, 5, 15, 40})
	p.LH = vlib.Pick(r, []int{p.Em, p.Em * 3 / 2, 2 * p.Em, p.Em + 3, p.Em - 2, p.Em / 2, 0, 3 * p.Em})
	p.WS = vlib.Pick(r, []string{"normal", "normal", "normal", "normal", "nowrap", "pre-line", "pre"})
	p.Align = vlib.Pick(r, []string{"left", "left", "right", "center", "justify", "start", "end"})
	if r.Chance(1, 3) {
		p.Indent = vlib.Pick(r, []int{p.Em, 2 * p.Em, 7, 3 * p.Em, -p.Em, -3})
	}
	if r.Chance(2, 5) {
		p.OW = vlib.Pick(r, []string{"anywhere", "break-word", "break-word"})
	}
	if p.WS == "pre" || p.WS == "pre-wrap" {
		// preserved spaces at paragraph level: text only, plus atomics / spans without own mode
		p.Kids = []*node{genModeText(r, p.WS)}
		if r.Chance(1, 2) {
			p.Kids = append(p.Kids, genAtomic(r, p.Em), genModeText(r, p.WS))
		}
		return p
	}
	p.Kids = genSeq(r, p.Em, 0, r.Range(1, 7), p.WS, false)
	return p
}

// 1-4 different paragraphs for one document; most of the time they share the font size (so
// that the same font is used with different line-heights within one Layout call)
func genDoc(r *vlib.Rng, gen func(*vlib.Rng) *para) []*para {
	n := vlib.Pick(r, []int{1, 2, 2, 3, 3, 4})
	var ps []*para
	for i := 0; i < n; i++ {
		p := gen(r)
		if i > 0 && r.Chance(2, 3) {
			setEm(p, ps[0].Em)
		}
		ps = append(ps, p)
	}
	return ps
}

// changes the font size of a generated paragraph, keeping every length a multiple of
// what it was relative to the font size
func setEm(p *para, em int) {
	if p.Em == em {
		return
	}
	sc := func(v int) int { return v * em / p.Em }
	var walk func(ns []*node)
	walk = func(ns []*node) {
		for _, n := range ns {
			for i := range n.Edges {
				n.Edges[i] = sc(n.Edges[i])
			}
			n.VPad, n.W, n.H, n.VM = sc(n.VPad), sc(n.W), sc(n.H), sc(n.VM)
			if n.Kind == kAtomic && n.W < 1 {
				n.W = 1
			}
			walk(n.Kids)
		}
	}
	walk(p.Kids)
	p.LH, p.Indent = sc(p.LH), sc(p.Indent)
	p.Em = em
}

// GLUED stream: inline boxes with non-zero horizontal margin/border/padding that hold several
// short words and are followed WITHOUT a break opportunity by more content (text, another
// inline box, text inside the parent box).  At widths where the box fits entirely and what
// is glued to it does not, the line has to be broken INSIDE a box that had already been
// placed (inline.go breakWaitingChildren: the finished children of the line are re-split,
// last one first, at their last break opportunity; this is the only way to that code with
// a box whose margin width differs from its content width).
func shortWords(r *vlib.Rng, lo, hi int) string {
	k := r.Range(lo, hi)
	var ws []string
	for i := 0; i < k; i++ {
		ws = append(ws, word(r, vlib.Pick(r, []int{1, 1, 2, 2, 3})))
	}
	return strings.Join(ws, " ")
}

func bigEdges(r *vlib.Rng, em int, n *node) {
	pick := func() int { return vlib.Pick(r, []int{0, 1, em / 2, em, em, 2 * em, 2 * em, 3 * em, r.Range(1, 3*em)}) }
	for n.Edges[0]+n.Edges[1]+n.Edges[2]+n.Edges[3]+n.Edges[4]+n.Edges[5] == 0 {
		// one of margin / border / padding on each side most of the time
		if r.Chance(4, 5) {
			n.Edges[r.Intn(3)] = pick()
		}
		if r.Chance(4, 5) {
			n.Edges[3+r.Intn(3)] = pick()
		}
	}
}

// a box holding several words (and now and then a nested box or an inline-block), whose
// last child is text that ends with a word
func genGluedBox(r *vlib.Rng, em, depth int) *node {
	n := &node{Kind: kSpan}
	if depth == 0 || r.Chance(2, 3) {
		bigEdges(r, em, n)
	}
	if r.Chance(1, 6) {
		n.VPad = vlib.Pick(r, []int{1, 5, em})
	}
	switch k := r.Intn(10); {
	case k < 6 || depth >= 2:
		n.Kids = []*node{{Kind: kText, Text: shortWords(r, 2, 4)}}
	case k < 8: // a nested box first or last, glued or not to the words of this one
		in := genGluedBox(r, em, depth+1)
		sp := vlib.Pick(r, []string{"", " "})
		if r.Chance(1, 2) {
			n.Kids = []*node{in, {Kind: kText, Text: sp + shortWords(r, 1, 3)}}
		} else {
			n.Kids = []*node{{Kind: kText, Text: shortWords(r, 1, 3) + sp}, in}
		}
	default: // an inline-block among the words
		n.Kids = []*node{{Kind: kText, Text: shortWords(r, 1, 2) + vlib.Pick(r, []string{"", " "})}, genAtomic(r, em),
			{Kind: kText, Text: vlib.Pick(r, []string{"", " "}) + shortWords(r, 1, 3)}}
	}
	return n
}

// what is glued to the end of a box: a word (and more words after it), a box holding a
// word, or both
func genGlueTail(r *vlib.Rng, em int) []*node {
	w := word(r, vlib.Pick(r, []int{1, 2, 3, 5}))
	switch r.Intn(6) {
	case 0, 1:
		return []*node{{Kind: kText, Text: w}}
	case 2, 3:
		return []*node{{Kind: kText, Text: w + " " + shortWords(r, 1, 2)}}
	case 4:
		s := &node{Kind: kSpan, Kids: []*node{{Kind: kText, Text: w}}}
		if r.Chance(1, 2) {
			bigEdges(r, em, s)
		}
		return []*node{s}
	default:
		s := &node{Kind: kSpan, Kids: []*node{{Kind: kText, Text: w}}}
		return []*node{s, {Kind: kText, Text: word(r, 2) + " " + shortWords(r, 1, 2)}}
	}
}

func genGlued(r *vlib.Rng) *para {
	p := &para{Font: "Ahem"}
	p.Em = vlib.Pick(r, []int{10, 10, 20, 5, 15})
	p.LH = vlib.Pick(r, []int{p.Em, p.Em * 3 / 2, 2 * p.Em, p.Em + 3})
	p.WS = vlib.Pick(r, []string{"normal", "normal", "normal", "pre-line"})
	p.Align = vlib.Pick(r, []string{"left", "left", "left", "right", "center", "justify", "start", "end"})
	if r.Chance(1, 6) {
		p.Indent = vlib.Pick(r, []int{p.Em, 2 * p.Em, 7, -p.Em})
	}
	if r.Chance(1, 8) {
		p.OW = vlib.Pick(r, []string{"anywhere", "break-word"})
	}
	chains := r.Range(1, 3)
	for c := 0; c < chains; c++ {
		if c > 0 || r.Chance(1, 2) {
			// what precedes the chain on the line, separated from it by a space or glued to it
			lead := shortWords(r, 1, 2)
			if c > 0 {
				lead = " " + lead
			}
			if r.Chance(3, 4) {
				lead += " "
			}
			p.Kids = append(p.Kids, &node{Kind: kText, Text: lead})
		}
		box := genGluedBox(r, p.Em, 0)
		tail := genGlueTail(r, p.Em)
		if r.Chance(1, 4) {
			// the glued pair inside an outer box: the waiting child is a grandchild of the line
			outer := &node{Kind: kSpan, Kids: append([]*node{box}, tail...)}
			if r.Chance(1, 2) {
				bigEdges(r, p.Em, outer)
			}
			if r.Chance(1, 2) {
				outer.Kids = append([]*node{{Kind: kText, Text: shortWords(r, 1, 2) + " "}}, outer.Kids...)
			}
			p.Kids = append(p.Kids, outer)
		} else {
			p.Kids = append(p.Kids, box)
			p.Kids = append(p.Kids, tail...)
		}
	}
	return p
}

// widths at which a box fits entirely and what is glued to it does not: for every end edge
// directly followed (inline-box edges apart) by a word, the stretch from a line start
// candidate (the paragraph start or the item after a space) to that edge, plus less than
// the glued word
func gluedWidths(r *vlib.Rng, items []item, em, indent int) []int {
	pre := make([]int, len(items)+1)
	for i, it := range items {
		pre[i+1] = pre[i] + it.W
	}
	starts := []int{0}
	for i, it := range items {
		if it.Kind == 'S' && i+1 < len(items) {
			starts = append(starts, i+1)
		}
	}
	set := map[int]bool{}
	for i, it := range items {
		if it.Kind != 'C' {
			continue
		}
		j := i + 1
		for j < len(items) && (items[j].Kind == 'O' || items[j].Kind == 'C') {
			j++
		}
		if j >= len(items) || items[j].Kind != 'W' {
			continue
		}
		// the end edges that stick to the content of the box
		e := i
		for e+1 < len(items) && items[e+1].Kind == 'C' {
			e++
		}
		gw := pre[j+1] - pre[e+1] // start edges of the glued box + the glued word
		for _, s := range starts {
			if s > i {
				continue
			}
			base := pre[e+1] - pre[s]
			if s == 0 {
				base += indent
			}
			for _, d := range []int{0, 1, gw / 2, gw - 1} {
				if d >= 0 && d < gw && base+d > 0 {
					set[base+d] = true
				}
			}
		}
	}
	var all []int
	for w := range set {
		all = append(all, w)
	}
	sort.Ints(all)
	return all
}

// boundary / malformed stream
func genBoundary(r *vlib.Rng) *para {
	p := genPara(r)
	switch r.Intn(8) {
	case 0: // one long word
		p.Kids = []*node{{Kind: kText, Text: word(r, 30) + word(r, 30)}}
	case 1: // empty paragraph
		p.Kids = nil
	case 2: // only atomics
		p.Kids = []*node{genAtomic(r, p.Em), genAtomic(r, p.Em), genAtomic(r, p.Em)}
	case 3: // only forced breaks around one word
		p.Kids = []*node{{Kind: kBr}, {Kind: kText, Text: word(r, 3)}, {Kind: kBr}, {Kind: kBr}, {Kind: kText, Text: word(r, 3)}}
	case 4: // single glyph words
		p.Kids = []*node{{Kind: kText, Text: "a b c d e f g h i j k l"}}
	case 5: // indent larger than the container
		p.Indent = 50 * p.Em
	case 6: // zero line height, big atomics
		p.LH = 0
	default: // deep nesting of edges around one word
		n := &node{Kind: kText, Text: word(r, 4)}
		for i := 0; i < 6; i++ {
			s := &node{Kind: kSpan, Kids: []*node{n}}
			s.Edges[2], s.Edges[3] = r.Intn(4), r.Intn(4)
			n = s
		}
		p.Kids = []*node{{Kind: kText, Text: word(r, 3) + " "}, n, {Kind: kText, Text: " " + word(r, 3)}}
	}
	return p
}

// ---------------------------------------------------------------- projection (box tree -> items)

type item struct {
	Kind  byte // 'W' 'S' 'O' 'C' 'A' 'H' 'E'
	mode  string
	W, H  int
	runes int
	brk   bool // Word: glyph of a run that may be broken in an emergency (overflow-wrap)
}

func coqMode(ws string) string {
	switch ws {
	case "normal":
		return "Normal"
	case "nowrap":
		return "Nowrap"
	case "pre":
		return "Pre"
	case "pre-wrap":
		return "PreWrap"
	case "pre-line":
		return "PreLine"
	}
	panic("white-space " + ws)
}

func (it item) coq() string {
	switch it.Kind {
	case 'W':
		return fmt.Sprintf("Word %s", vlib.Z(it.W))
	case 'S':
		return fmt.Sprintf("Space %s %s", coqMode(it.mode), vlib.Z(it.W))
	case 'O':
		return fmt.Sprintf("Open %s", vlib.Z(it.W))
	case 'C':
		return fmt.Sprintf("Close %s", vlib.Z(it.W))
	case 'A':
		return fmt.Sprintf("Atomic %s %s %s", coqMode(it.mode), vlib.Z(it.W), vlib.Z(it.H))
	case 'E':
		return "EB"
	}
	return "Hard"
}

func coqItems(items []item) string {
	ss := make([]string, len(items))
	for i, it := range items {
		ss[i] = it.coq()
	}
	return vlib.List(ss)
}

type projErr struct{ why string }

// px value of a computed length; fails on anything else
func px(v pr.DimOrS) int {
	if v.S != "" && v.S != "auto" {
		panic(projErr{"keyword length " + v.S})
	}
	f := float64(v.Value)
	if f != float64(int(f)) {
		panic(projErr{"non integer length"})
	}
	return int(f)
}

// glyphW = advance of one glyph in model units (em for Ahem; 0 for the real-font monitor)
func project(b bo.Box, parentWS string, glyphW int, out *[]item) {
	switch bx := b.(type) {
	case *bo.TextBox:
		ws := string(bx.Style.GetWhiteSpace())
		ow := string(bx.Style.GetOverflowWrap())
		if wb := string(bx.Style.GetWordBreak()); wb != "normal" {
			panic(projErr{"word-break " + wb + " is outside the modelled set"})
		}
		// CSS Text 3 5.5: overflow-wrap only has an effect when white-space allows wrapping
		brk := (ow == "anywhere" || ow == "break-word") && (ws == "normal" || ws == "pre-wrap" || ws == "pre-line") && glyphW > 0
		if glyphW < 0 {
			glyphW = -glyphW // (text.SplitFirstLine called with isLineStart = false: same widths, no EB)
		}
		t := bx.Text
		for i := 0; i < len(t); {
			j := i
			switch {
			case t[i] == ' ':
				for j < len(t) && t[j] == ' ' {
					j++
				}
				*out = append(*out, item{Kind: 'S', mode: ws, W: (j - i) * glyphW, runes: j - i})
			case t[i] == '\n':
				j = i + 1
				*out = append(*out, item{Kind: 'H', runes: 1})
			default:
				for j < len(t) && t[j] != ' ' && t[j] != '\n' {
					if t[j] == '\t' || t[j] == '­' || t[j] == '-' {
						panic(projErr{"character outside the modelled set"})
					}
					j++
				}
				if brk {
					for k := i; k < j; k++ {
						if k > i {
							*out = append(*out, item{Kind: 'E'})
						}
						*out = append(*out, item{Kind: 'W', W: glyphW, runes: 1, brk: true})
					}
				} else {
					*out = append(*out, item{Kind: 'W', W: (j - i) * glyphW, runes: j - i})
				}
			}
			i = j
		}
	case *bo.InlineBox:
		s := bx.Style
		*out = append(*out, item{Kind: 'O', W: px(s.GetMarginLeft()) + px(s.GetBorderLeftWidth()) + px(s.GetPaddingLeft())})
		ws := string(s.GetWhiteSpace())
		for _, c := range bx.Children {
			project(c, ws, glyphW, out)
		}
		*out = append(*out, item{Kind: 'C', W: px(s.GetMarginRight()) + px(s.GetBorderRightWidth()) + px(s.GetPaddingRight())})
	case *bo.InlineBlockBox:
		s := bx.Style
		w := px(s.GetWidth()) + px(s.GetMarginLeft()) + px(s.GetBorderLeftWidth()) + px(s.GetPaddingLeft()) +
			px(s.GetMarginRight()) + px(s.GetBorderRightWidth()) + px(s.GetPaddingRight())
		h := px(s.GetHeight()) + px(s.GetMarginTop()) + px(s.GetBorderTopWidth()) + px(s.GetPaddingTop()) +
			px(s.GetMarginBottom()) + px(s.GetBorderBottomWidth()) + px(s.GetPaddingBottom())
		*out = append(*out, item{Kind: 'A', mode: parentWS, W: w, H: h})
	default:
		panic(projErr{"box type outside the modelled set: " + b.Type().String()})
	}
}

// the <p> block boxes of a tree, in document order
func paragraphs(root bo.Box) []bo.Box {
	var out []bo.Box
	render.Walk(root, func(b bo.Box, _ int) {
		if bo.BlockT.IsInstance(b) && b.Box().ElementTag() == "p" {
			out = append(out, b)
		}
	})
	return out
}

func projectPara(p bo.Box, glyphW int) (items []item, err string) {
	defer func() {
		if r := recover(); r != nil {
			if pe, ok := r.(projErr); ok {
				err = pe.why
				return
			}
			panic(r)
		}
	}()
	ch := p.Box().Children
	if len(ch) == 0 {
		return nil, ""
	}
	if len(ch) != 1 || !bo.LineT.IsInstance(ch[0]) {
		return nil, "paragraph is not a single line box"
	}
	ws := string(p.Box().Style.GetWhiteSpace())
	for _, c := range ch[0].Box().Children {
		project(c, ws, glyphW, &items)
	}
	return crossBoxEB(items), ""
}

// an unbreakable sequence goes on across inline-box boundaries: between two breakable
// glyphs separated by Open/Close items only, the emergency opportunity lies after the
// Closes (an edge sticks to its content)
func crossBoxEB(items []item) []item {
	after := map[int]bool{} // an EB goes after the item of that index
	for i, it := range items {
		if it.Kind != 'W' || !it.brk {
			continue
		}
		j := i + 1
		for j < len(items) && (items[j].Kind == 'O' || items[j].Kind == 'C') {
			j++
		}
		if j == i+1 || j >= len(items) || items[j].Kind != 'W' || !items[j].brk {
			continue
		}
		k := i + 1
		for k < j && items[k].Kind == 'C' {
			k++
		}
		after[k-1] = true
	}
	if len(after) == 0 {
		return items
	}
	var res []item
	for i, it := range items {
		res = append(res, it)
		if after[i] {
			res = append(res, item{Kind: 'E', mode: "x"}) // "x": across a box boundary (tag)
		}
	}
	return res
}

// ---------------------------------------------------------------- observables

type frag struct {
	atomic bool
	x, w   pr.Fl
	text   string
}

type oline struct {
	y, h  pr.Fl
	x, w  pr.Fl // the line box
	brk   bool  // holds a forced break
	frags []frag
	boxes []ibox
}

// an inline box of a line with at least one in-flow child: its content area (from the box's own
// position, edges and width) and the extent of its children (margin boxes), all as laid out
type ibox struct {
	cl, cr pr.Fl // content-box left / right of the inline box
	kl, kr pr.Fl // left of the first in-flow child, right of the last one
}

func inlineBoxes(l bo.Box, out *[]ibox) {
	for _, c := range l.Box().Children {
		if !c.Box().IsInNormalFlow() {
			continue
		}
		ib, ok := c.(*bo.InlineBox)
		if !ok {
			continue
		}
		var kids []bo.Box
		for _, k := range ib.Children {
			if k.Box().IsInNormalFlow() {
				kids = append(kids, k)
			}
		}
		if len(kids) != 0 {
			f, la := kids[0].Box(), kids[len(kids)-1].Box()
			*out = append(*out, ibox{cl: pr.Fl(ib.ContentBoxX()), cr: pr.Fl(ib.ContentBoxX() + ib.Width.V()),
				kl: pr.Fl(f.PositionX), kr: pr.Fl(la.PositionX + la.MarginWidth())})
		}
		inlineBoxes(c, out)
	}
}

func collect(b bo.Box, out *[]frag) {
	switch bx := b.(type) {
	case *bo.TextBox:
		if len(bx.Text) != 0 {
			*out = append(*out, frag{x: pr.Fl(bx.PositionX), w: pr.Fl(bx.Width.V()), text: string(bx.Text)})
		}
	case *bo.InlineBlockBox:
		*out = append(*out, frag{atomic: true, x: pr.Fl(bx.PositionX), w: pr.Fl(bx.MarginWidth())})
	default:
		for _, c := range b.Box().Children {
			collect(c, out)
		}
	}
}

// does the line hold an inline box with a non-zero horizontal edge, or a forced break
func hasEdgesOrBreak(l bo.Box) bool {
	found := false
	render.Walk(l, func(b bo.Box, d int) {
		if d == 0 {
			return
		}
		f := b.Box()
		if bo.InlineT.IsInstance(b) && (f.MarginLeft.V() != 0 || f.MarginRight.V() != 0 || f.BorderLeftWidth.V() != 0 || f.BorderRightWidth.V() != 0 || f.PaddingLeft.V() != 0 || f.PaddingRight.V() != 0) {
			found = true
		}
		if f.ElementTag() == "br" {
			found = true
		}
		if t, ok := b.(*bo.TextBox); ok && strings.Contains(string(t.Text), "\n") {
			found = true
		}
	})
	return found
}

func hasBreak(l bo.Box) bool {
	found := false
	render.Walk(l, func(b bo.Box, d int) {
		if b.Box().ElementTag() == "br" && d > 0 {
			found = true
		}
		if t, ok := b.(*bo.TextBox); ok && strings.Contains(string(t.Text), "\n") {
			found = true
		}
	})
	return found
}

func observe(p bo.Box) []oline {
	var out []oline
	for _, l := range p.Box().Children {
		if !bo.LineT.IsInstance(l) {
			continue
		}
		ol := oline{y: pr.Fl(l.Box().PositionY), h: pr.Fl(l.Box().Height.V()), x: pr.Fl(l.Box().PositionX), w: pr.Fl(l.Box().Width.V())}
		collect(l, &ol.frags)
		inlineBoxes(l, &ol.boxes)
		ol.brk = hasBreak(l)
		if len(ol.frags) == 0 && ol.h == 0 && ol.w == 0 && !hasEdgesOrBreak(l) {
			// CSS 2.1 9.4.2: a line box without text, preserved white space, inline box
			// with non-zero margin / border / padding or other in-flow content is treated
			// as not existing
			continue
		}
		out = append(out, ol)
	}
	return out
}

// symptoms of known findings, read from the laid-out paragraph
func symptoms(p bo.Box, ls []oline, avail pr.Fl, items []item, em int) []string {
	var tags []string
	// Known finding C11/trailing-space-at-limit: walk the words of the implementation's
	// fragments along the item list.
	// glyphAt[k] = index in items of the Word holding the k-th non-space glyph of the
	// paragraph; endsWord[k] = that glyph is the last one of its word (a maximal run of
	// Word / EB items of one text)
	var glyphAt []int
	var endsWord []bool
	for i, it := range items {
		if it.Kind != 'W' {
			continue
		}
		last := !(i+1 < len(items) && items[i+1].Kind == 'E' && items[i+1].mode != "x")
		for k := 0; k < it.runes; k++ {
			glyphAt = append(glyphAt, i)
			endsWord = append(endsWord, last && k == it.runes-1)
		}
	}
	// the text node ends with one collapsible space right after item i
	nodeEndSpace := func(i int) bool {
		return i+1 < len(items) && items[i+1].Kind == 'S' && collapsesWS(items[i+1].mode) &&
			(i+2 == len(items) || items[i+2].Kind != 'W')
	}
	glyphs := 0
	blank, lastJust, dropped, brAtLimit, edgeOnly := false, false, false, false, false
	prevEndsAtSpaceBeforeBr := false
	for k, l := range ls {
		if len(l.frags) == 0 && l.w == 0 && prevEndsAtSpaceBeforeBr {
			blank = true // an empty line box holding only the <br>
		}
		if len(l.frags) == 0 && k > 0 && !l.brk {
			edgeOnly = true // a line box holding nothing but (the end of) inline boxes
		}
		prevEndsAtSpaceBeforeBr = false
		for i, f := range l.frags {
			if f.atomic {
				continue
			}
			for _, c := range f.text {
				if c != ' ' && c != '\n' {
					glyphs++
				}
			}
			if glyphs == 0 || glyphs > len(glyphAt) || !endsWord[glyphs-1] || !nodeEndSpace(glyphAt[glyphs-1]) {
				continue
			}
			after := glyphAt[glyphs-1] + 2 // first item after the space
			if i == len(l.frags)-1 {
				j := after
				for j < len(items) && (items[j].Kind == 'O' || items[j].Kind == 'C') {
					j++
				}
				if j < len(items) && items[j].Kind == 'H' {
					prevEndsAtSpaceBeforeBr = true
					if avail-l.w < pr.Fl(em) {
						brAtLimit = true // the line ended there because the space did not fit
					}
				}
				j = after
				for j < len(items) && items[j].Kind == 'C' {
					j++
				}
				if k == len(ls)-1 && j == len(items) && f.w > pr.Fl(len([]rune(f.text))*em)+0.01 {
					lastJust = true // the last line of the paragraph has been justified
				}
			} else if !strings.HasSuffix(f.text, " ") {
				dropped = true
			}
		}
	}
	if edgeOnly {
		tags = append(tags, "impl-edge-only-line")
	}
	if blank {
		tags = append(tags, "impl-blank-line-before-br")
	} else if brAtLimit {
		tags = append(tags, "impl-space-before-br-at-limit")
	}
	if lastJust {
		tags = append(tags, "impl-last-line-justified")
	}
	if dropped {
		tags = append(tags, "impl-space-dropped-midline")
	}
	// Known findings C11/overflow-wrap-line-start-test-too-strict / -too-lax (overflow-wrap: anywhere | break-word):
	// emergency(k) = the position between the glyphs k-1 and k of the paragraph is an
	// emergency break opportunity only (an EB and nothing but inline-box edges between them)
	emergency := func(k int) bool {
		if k <= 0 || k >= len(glyphAt) || glyphAt[k-1] == glyphAt[k] {
			return false
		}
		eb := false
		for j := glyphAt[k-1] + 1; j < glyphAt[k]; j++ {
			switch items[j].Kind {
			case 'E':
				eb = true
			case 'O', 'C':
			default:
				return false
			}
		}
		return eb
	}
	var atomAt []int
	for i, it := range items {
		if it.Kind == 'A' {
			atomAt = append(atomAt, i)
		}
	}
	wraps := func(m string) bool { return m == "normal" || m == "pre-line" || m == "pre-wrap" }
	g0, a0 := 0, 0
	owOverflow, owMidline := false, false
	for k, l := range ls {
		g1, a1 := g0, a0
		for _, f := range l.frags {
			if f.atomic {
				a1++
				continue
			}
			for _, c := range f.text {
				if c != ' ' && c != '\n' {
					g1++
				}
			}
		}
		if g1 > len(glyphAt) || a1 > len(atomAt) {
			break
		}
		// (i) the line is wider than the container although it holds an emergency opportunity
		if l.w > avail+0.01 {
			for g := g0 + 1; g < g1; g++ {
				if emergency(g) {
					owOverflow = true
				}
			}
		}
		// (ii) the line ends at an emergency opportunity although it holds a regular one (a
		// wrapping space after content, or the boundary of an atomic inline)
		if k+1 < len(ls) && g1 > g0 && emergency(g1) {
			first := glyphAt[g0]
			if a1 > a0 && atomAt[a0] < first {
				first = atomAt[a0]
			}
			solid, afterAtomic := false, false
			for j := first; j <= glyphAt[g1-1]; j++ {
				switch it := items[j]; it.Kind {
				case 'W':
					if afterAtomic {
						owMidline = true
					}
					solid = true
				case 'S':
					if solid && wraps(it.mode) {
						owMidline = true
					}
				case 'A':
					if wraps(it.mode) {
						if solid {
							owMidline = true
						}
						afterAtomic = true
					}
					solid = true
				}
			}
		}
		g0, a0 = g1, a1
	}
	if owOverflow {
		tags = append(tags, "impl-ow-overflow-unbroken")
	}
	if owMidline {
		tags = append(tags, "impl-ow-emergency-break-after-opportunity")
	}
	// a fragment of an inline box that holds no text and no atomic inline but carries the
	// box's end edge: the end of the box has been separated from its last content
	var hasContent func(b bo.Box) bool
	hasContent = func(b bo.Box) bool {
		switch bx := b.(type) {
		case *bo.TextBox:
			return len(bx.Text) != 0
		case *bo.InlineBlockBox:
			return true
		}
		for _, c := range b.Box().Children {
			if hasContent(c) {
				return true
			}
		}
		return false
	}
	emptyFrag := false
	render.Walk(p, func(b bo.Box, _ int) {
		if bo.InlineT.IsInstance(b) && b.Box().ElementTag() != "br" && !hasContent(b) {
			f := b.Box()
			if f.MarginRight.V()+f.BorderRightWidth.V()+f.PaddingRight.V() > 0 {
				emptyFrag = true
			}
		}
	})
	if emptyFrag {
		tags = append(tags, "impl-empty-box-fragment")
	}
	// last fragment of every inline box: must carry the end edge
	type key struct {
		el     interface{}
		pseudo string
	}
	last := map[key]*bo.BoxFields{}
	var order []key
	render.Walk(p, func(b bo.Box, _ int) {
		if bo.InlineT.IsInstance(b) {
			k := key{b.Box().Element, b.Box().PseudoType}
			if _, ok := last[k]; !ok {
				order = append(order, k)
			}
			last[k] = b.Box()
		}
	})
	for _, k := range order {
		f := last[k]
		s := f.Style
		want := px(s.GetMarginRight()) + px(s.GetBorderRightWidth()) + px(s.GetPaddingRight())
		got := f.MarginRight.V() + f.BorderRightWidth.V() + f.PaddingRight.V()
		if want > 0 && got == 0 {
			tags = append(tags, "impl-lost-close-edge")
			break
		}
	}
	// any symptom of the C11/space-at-limit family (for inputs that have both structural
	// triggers, code 103)
	for _, t := range tags {
		if !strings.HasPrefix(t, "impl-ow-") {
			tags = append(tags, "impl-space-at-limit-symptom")
			break
		}
	}
	return tags
}

func coqLines(ls []oline) string {
	var ss []string
	for _, l := range ls {
		var fs []string
		for _, f := range l.frags {
			c := "FT"
			if f.atomic {
				c = "FA"
			}
			fs = append(fs, fmt.Sprintf("%s %s %s", c, vlib.Q32(f.x), vlib.Q32(f.w)))
		}
		ss = append(ss, fmt.Sprintf("mkLine %s %s %s %s %s", vlib.Q32(l.y), vlib.Q32(l.h), vlib.Q32(l.x), vlib.Q32(l.w), vlib.List(fs)))
	}
	return vlib.List(ss)
}

func descLines(ls []oline) []string {
	var out []string
	for _, l := range ls {
		var sb strings.Builder
		fmt.Fprintf(&sb, "y=%v h=%v x=%v w=%v:", l.y, l.h, l.x, l.w)
		for _, f := range l.frags {
			if f.atomic {
				fmt.Fprintf(&sb, " [atomic x=%v w=%v]", f.x, f.w)
			} else {
				fmt.Fprintf(&sb, " [%q x=%v w=%v]", f.text, f.x, f.w)
			}
		}
		out = append(out, sb.String())
	}
	return out
}

// ---------------------------------------------------------------- width sweep

func sweep(r *vlib.Rng, items []item, em int, indent int, max int) []int {
	set := map[int]bool{}
	add := func(w int) {
		if w >= 0 && w < 25000 {
			set[w] = true
		}
	}
	// cumulative boundaries: the off-by-one zone around every prefix sum
	var pre []int
	sum := 0
	for _, it := range items {
		sum += it.W
		pre = append(pre, sum)
	}
	for _, p := range pre {
		for _, d := range []int{-em, -1, 0, 1, em} {
			add(p + d)
			add(p + d + indent)
		}
	}
	// widths of inner stretches (what a later line sees)
	for k := 0; k < 3*len(pre); k++ {
		i, j := r.Intn(len(pre)+1), r.Intn(len(pre)+1)
		if i > j {
			i, j = j, i
		}
		if i == j {
			continue
		}
		lo := 0
		if i > 0 {
			lo = pre[i-1]
		}
		add(pre[j-1] - lo + vlib.Pick(r, []int{-em, -1, 0, 0, 1, em}))
	}
	for k := 1; k <= 12; k++ {
		add(k * em)
	}
	add(0)
	add(sum + 5*em)
	for k := 0; k < 4; k++ {
		add(r.Range(1, sum+em+1))
	}
	var all []int
	for w := range set {
		all = append(all, w)
	}
	sort.Ints(all)
	// deterministic subsample
	for len(all) > max {
		i := r.Intn(len(all))
		all = append(all[:i], all[i+1:]...)
	}
	return all
}

// ---------------------------------------------------------------- main

type runner struct {
	w      *vlib.Writer
	fonts  map[string]text.FontConfiguration
	engine string
}

func (rn *runner) fc(engine string) text.FontConfiguration {
	if f, ok := rn.fonts[engine]; ok {
		return f
	}
	f := render.NewFonts(engine)
	rn.fonts[engine] = f
	return f
}

func alignCoq(a string) string {
	switch a {
	case "left", "start":
		return "AStart"
	case "right", "end":
		return "AEnd"
	case "center":
		return "ACenter"
	}
	return "AJustify"
}

func collapsesWS(ws string) bool { return ws == "normal" || ws == "nowrap" || ws == "pre-line" }

func itemTags(items []item, p *para, engine string) []string {
	t := map[string]bool{"engine=" + engine: true, "align=" + p.Align: true, "ws=" + p.WS: true}
	for _, it := range items {
		switch it.Kind {
		case 'H':
			t["has-hard"] = true
		case 'A':
			t["has-atomic"] = true
		case 'O':
			if it.W > 0 {
				t["has-edge"] = true
			}
		case 'C':
			if it.W > 0 {
				t["has-edge"] = true
			}
		case 'S':
			if it.mode != p.WS {
				t["mixed-ws"] = true
			}
			if it.mode == "pre" || it.mode == "pre-wrap" {
				t["preserved-space"] = true
			}
		}
	}
	if p.Indent != 0 {
		t["has-indent"] = true
	}
	// patterns of known findings (see known_findings.json)
	lineStart, openSum := true, 0
	for i, it := range items {
		if it.Kind == 'S' && i+1 < len(items) && (items[i+1].Kind == 'O' || items[i+1].Kind == 'C' || items[i+1].Kind == 'A') {
			t["node-end-space"] = true // a text node ends with a space and something follows it
		}
		switch it.Kind {
		case 'O':
			if lineStart {
				openSum += it.W
			}
		case 'C':
		case 'S':
			if lineStart && collapsesWS(it.mode) {
				if openSum > 0 {
					t["lead-space-in-span"] = true
				}
			} else {
				lineStart = false
			}
			if collapsesWS(it.mode) {
				for j := i + 1; j < len(items); j++ {
					if items[j].Kind == 'O' || items[j].Kind == 'C' {
						continue
					}
					if items[j].Kind == 'H' && items[j-1].Kind == 'O' {
						t["space-before-br"] = true
					}
					break
				}
			}
		case 'H':
			lineStart, openSum = true, 0
		default:
			lineStart = false
		}
	}
	var out []string
	for k := range t {
		out = append(out, k)
	}
	sort.Strings(out)
	return out
}

// projects the paragraphs (one document holding each of them once); ok=false when nothing
// is to be compared (a case was written if the implementation failed)
func (rn *runner) project(ps []*para, engine, kind string, glyph func(*para) int, o docOpt) (all [][]item, ok bool) {
	fc := rn.fc(engine)
	var bs []block
	for _, p := range ps {
		bs = append(bs, block{p, 100})
	}
	html0 := document(bs, o)
	doc0, err := render.ParseHTML(html0, true, nil)
	if err != nil {
		return nil, false
	}
	perr := ""
	out := render.Guard(func() {
		root := layout.VerifBoxTree(doc0, nil, false, fc)
		bxs := paragraphs(root)
		if len(bxs) != len(ps) {
			perr = "paragraph not found in the box tree"
			return
		}
		for i, bx := range bxs {
			items, e := projectPara(bx, glyph(ps[i]))
			if e != "" {
				perr = e
				return
			}
			all = append(all, items)
		}
	})
	if out.Status != "ok" {
		rn.w.Add(vlib.Case{Kind: kind, Coq: "CBad 1", Desc: map[string]interface{}{"html": html0, "panic": out.Msg, "site": out.Site},
			Tags: []string{"engine=" + engine, "panic-boxtree"}, Nontrivial: true})
		return nil, false
	}
	if perr != "" {
		// outside the modelled domain (generator bug): visible, not compared
		fmt.Fprintln(os.Stderr, "c11: projection skipped:", perr)
		return nil, false
	}
	return all, true
}

func emOf(p *para) int { return p.Em }

// a document of several different paragraphs, each at a sweep of widths
func (rn *runner) runDoc(ps []*para, r *vlib.Rng, engine string, maxWidths int, kind string) {
	// the multi-pass dimension is drawn from a generator DERIVED from r without advancing it:
	// the plain documents of a run are the ones of the earlier rounds
	cp := *r
	mr := vlib.NewRng(cp.U64() ^ 0x6d756c7469706173)
	var o docOpt
	if forceMode != "" || mr.Chance(3, 10) {
		o.mode = vlib.Pick(mr, multiPassModes)
		if forceMode != "" && forceMode != "any" {
			o.mode = forceMode
		}
		o.cols = vlib.Pick(mr, []int{1, 2, 2})
		// what a second pass can get wrong is the state kept on the shared box tree between
		// two passes: the used text-indent of the first line is such a state, so paragraphs
		// with a non-zero text-indent are made frequent here (every other paragraph, at
		// least one per document)
		indented := 0
		for _, p := range ps {
			if p.Indent == 0 && mr.Chance(1, 2) {
				p.Indent = vlib.Pick(mr, []int{p.Em, 2 * p.Em, 7, 3 * p.Em, -p.Em, -3})
			}
			if p.Indent != 0 {
				indented++
			}
		}
		if indented == 0 {
			p := vlib.Pick(mr, ps)
			p.Indent = vlib.Pick(mr, []int{p.Em, 2 * p.Em, 7, 3 * p.Em, -p.Em, -3})
		}
	}
	all, ok := rn.project(ps, engine, kind, emOf, o)
	if !ok {
		return
	}
	per := maxWidths / len(ps)
	if per < 4 {
		per = 4
	}
	var bs []block
	var its [][]item
	for i, p := range ps {
		ws := sweep(r, all[i], p.Em, p.Indent, per)
		if kind == "glued" {
			// three quarters of the widths from the targeted set, the rest from the general sweep
			g := gluedWidths(r, all[i], p.Em, p.Indent)
			for len(g) > per*3/4 {
				k := r.Intn(len(g))
				g = append(g[:k], g[k+1:]...)
			}
			seen := map[int]bool{}
			for _, w := range g {
				seen[w] = true
			}
			for _, w := range ws {
				if len(g) >= per {
					break
				}
				if !seen[w] {
					g = append(g, w)
				}
			}
			sort.Ints(g)
			ws = g
		}
		for _, w := range ws {
			bs = append(bs, block{p, w})
			its = append(its, all[i])
		}
	}
	// blocks of the different paragraphs in a random order
	if len(ps) > 1 {
		for i := len(bs) - 1; i > 0; i-- {
			j := r.Intn(i + 1)
			bs[i], bs[j] = bs[j], bs[i]
			its[i], its[j] = its[j], its[i]
		}
	}
	if o.mode == "avoid-next-page" {
		o.pageH = rn.pageHeight(bs, engine, mr)
	}
	rn.runBlocks(bs, its, engine, kind, o)
}

// page height for mode avoid-next-page: the blocks are first laid out on the tall page; the
// page is at least as tall as the tallest paragraph (a paragraph is never split: it would
// show up as two boxes) and at most twice that, so that about every other paragraph does not
// fit below its predecessors and is laid out again on the next page.  0 = keep the tall page.
func (rn *runner) pageHeight(bs []block, engine string, mr *vlib.Rng) int {
	var pages []*bo.PageBox
	var err error
	out := render.Guard(func() {
		pages, err = render.Layout(document(bs, docOpt{}), nil, false, true, rn.fc(engine))
	})
	if out.Status != "ok" || err != nil || len(pages) != 1 {
		delete(rn.fonts, engine)
		return 0
	}
	maxH := 1
	for _, p := range paragraphs(pages[0]) {
		// the lines may stick out of the block (line-height 0 with tall atomic inlines is
		// still one line box of that height; but be generous)
		h := int(p.Box().MarginHeight()) + 1
		for _, l := range p.Box().Children {
			if b := int(l.Box().PositionY+l.Box().MarginHeight()-p.Box().PositionY) + 1; b > h {
				h = b
			}
		}
		if h > maxH {
			maxH = h
		}
	}
	return maxH + mr.Range(0, maxH)
}

// what distinguishes the blocks of a document (tags)
func docTags(bs []block) []string {
	lhs, ems, fonts := map[[2]int]bool{}, map[int]bool{}, map[*para]bool{}
	for _, b := range bs {
		lhs[[2]int{b.p.Em, b.p.LH}] = true
		ems[b.p.Em] = true
		fonts[b.p] = true
	}
	var t []string
	if len(fonts) > 1 {
		t = append(t, "doc-multi-para")
	}
	if len(lhs) > len(ems) {
		t = append(t, "doc-same-font-different-line-height")
	}
	if len(ems) > 1 {
		t = append(t, "doc-different-font-size")
	}
	return t
}

func (rn *runner) runBlocks(bs []block, its [][]item, engine, kind string, o docOpt) {
	fc := rn.fc(engine)
	html := document(bs, o)
	var (
		pages []*bo.PageBox
		err   error
	)
	out := render.Guard(func() {
		pages, err = render.Layout(html, nil, false, true, fc)
	})
	dtags := docTags(bs)
	if o.mode != "" {
		dtags = append(dtags, "multi-pass:"+o.mode)
	}
	// one page, except when the mode is about page breaks
	if out.Status != "ok" || err != nil || len(pages) == 0 || (len(pages) != 1 && o.pageH == 0) {
		rn.w.Add(vlib.Case{Kind: kind, Coq: "CBad 2", Desc: map[string]interface{}{"engine": engine, "html": html, "status": out.Status, "panic": out.Msg, "site": out.Site, "pages": len(pages)},
			Tags: append(dtags, "engine="+engine, "layout-failed", "site="+out.Site), Nontrivial: true})
		delete(rn.fonts, engine) // do not reuse a font configuration after a panic
		return
	}
	// the paragraphs of all pages, in order (a paragraph is never split between two pages /
	// columns: break-inside: avoid and pages taller than any paragraph; otherwise the count differs)
	var ps []bo.Box
	for _, pg := range pages {
		ps = append(ps, paragraphs(pg)...)
	}
	if len(ps) != len(bs) {
		rn.w.Add(vlib.Case{Kind: kind, Coq: "CBad 3", Desc: map[string]interface{}{"html": html, "paragraphs": len(ps), "blocks": len(bs), "pages": len(pages)}, Tags: append(dtags, "engine="+engine), Nontrivial: true})
		return
	}
	if len(pages) > 1 {
		dtags = append(dtags, "doc-several-pages")
	}
	for i, b := range bs {
		p, w, items := b.p, b.w, its[i]
		tags := append(itemTags(items, p, engine), dtags...)
		bx := ps[i].Box()
		ls := observe(ps[i])
		cfg := fmt.Sprintf("(mkCfg %s %s %s %s %s %s %s %s)", vlib.Z(w), vlib.Z(p.Indent), vlib.Z(p.Em), vlib.Z(p.LH),
			alignCoq(p.Align), vlib.Bool(collapsesWS(p.WS)), vlib.Q32(pr.Fl(bx.ContentBoxX())), vlib.Q32(pr.Fl(bx.ContentBoxY())))
		desc := map[string]interface{}{
			"engine": engine, "width": w, "p_style": p.style(w),
			"inner_html": p.inner(), "items": coqItems(items), "impl_lines": descLines(ls),
			"para": p, // corpus format: {"para":…, "widths":[…], "engine":…}
		}
		if len(dtags) > 0 {
			// the other blocks of the document matter (state shared by one Layout call)
			desc["block"], desc["document"] = i, html
		}
		if o.mode != "" {
			desc["multi_pass"] = o.mode // the container that makes the engine lay the block out more than once
		}
		rn.w.Add(vlib.Case{
			Kind:       kind,
			Coq:        fmt.Sprintf("CPara %s %s %s", cfg, coqItems(items), coqLines(ls)),
			Desc:       desc,
			Tags:       append(append(append([]string{}, tags...), fmt.Sprintf("lines=%d", min(len(ls), 4))), symptoms(ps[i], ls, pr.Fl(w), items, p.Em)...),
			Nontrivial: len(ls) >= 2,
		})
		// the inline boxes of the paragraph's lines against their own children (kind ibox)
		var bxs, bdesc []string
		for k, l := range ls {
			for _, b := range l.boxes {
				bxs = append(bxs, fmt.Sprintf("mkIB %s %s %s %s", vlib.Q32(b.cl), vlib.Q32(b.cr), vlib.Q32(b.kl), vlib.Q32(b.kr)))
				bdesc = append(bdesc, fmt.Sprintf("line %d: inline box content x=[%v, %v], its children x=[%v, %v]", k, b.cl, b.cr, b.kl, b.kr))
			}
		}
		if len(bxs) != 0 {
			bd := map[string]interface{}{"engine": engine, "width": w, "p_style": p.style(w), "inner_html": p.inner(),
				"impl_lines": descLines(ls), "inline_boxes": bdesc, "para": p}
			if len(dtags) > 0 {
				bd["block"], bd["document"] = i, html
			}
			rn.w.Add(vlib.Case{Kind: "ibox", Coq: "CBoxes " + vlib.List(bxs), Desc: bd,
				Tags: append([]string{}, tags...), Nontrivial: len(ls) >= 2})
		}
	}
}

func min(a, b int) int {
	if a < b {
		return a
	}
	return b
}

// MONITOR stream: a real font (weasyprint.otf); only the inequalities are evaluated, with
// the widths the implementation reports
func (rn *runner) runMon(p *para, r *vlib.Rng, engine string) {
	p.Font = "weasyprint"
	p.OW, p.WB = "", "" // (emergency breaks need the glyph advances: Ahem streams only)
	var strip func(ns []*node)
	strip = func(ns []*node) {
		for _, n := range ns {
			n.OW = ""
			strip(n.Kids)
		}
	}
	strip(p.Kids)
	all, ok := rn.project([]*para{p}, engine, "mon", func(*para) int { return 0 }, docOpt{})
	if !ok {
		return
	}
	items := all[0]
	set := map[int]bool{0: true}
	for len(set) < 10 {
		set[r.Range(1, 40*p.Em)] = true
	}
	var widths []int
	for w := range set {
		widths = append(widths, w)
	}
	sort.Ints(widths)
	fc := rn.fc(engine)
	html := p.document(widths)
	var (
		pages []*bo.PageBox
		err   error
	)
	out := render.Guard(func() {
		pages, err = render.Layout(html, nil, false, true, fc)
	})
	tags := append(itemTags(items, p, engine), "real-font")
	if out.Status != "ok" || err != nil || len(pages) != 1 {
		rn.w.Add(vlib.Case{Kind: "mon", Coq: "CBad 2", Desc: map[string]interface{}{"para": p, "widths": widths, "engine": engine, "html": html, "status": out.Status, "panic": out.Msg, "site": out.Site},
			Tags: append(tags, "layout-failed", "site="+out.Site), Nontrivial: true})
		delete(rn.fonts, engine)
		return
	}
	ps := paragraphs(pages[0])
	if len(ps) != len(widths) {
		return
	}
	for i, w := range widths {
		ls := observe(ps[i])
		var ml []string
		for _, l := range ls {
			n := 0
			for _, f := range l.frags {
				if f.atomic {
					n++
				} else {
					n += len(strings.Fields(f.text))
				}
			}
			ml = append(ml, fmt.Sprintf("ML %d %s %s %s", n, vlib.Q32(l.w), vlib.Q32(l.y), vlib.Q32(l.h)))
		}
		rn.w.Add(vlib.Case{
			Kind: "mon",
			Coq:  fmt.Sprintf("CMon %s %s %s %s", vlib.Z(w), vlib.Z(p.Indent), coqItems(items), vlib.List(ml)),
			Desc: map[string]interface{}{
				"engine": engine, "width": w, "p_style": p.style(w), "font": fmt.Sprintf("%dpx/%dpx %s", p.Em, p.LH, p.Font),
				"inner_html": p.inner(), "items": coqItems(items), "impl_lines": descLines(ls), "para": p,
			},
			Tags:       append(append(append([]string{}, tags...), fmt.Sprintf("lines=%d", min(len(ls), 4))), symptoms(ps[i], ls, pr.Fl(w), items, 0)...),
			Nontrivial: len(ls) >= 2,
		})
	}
}

// text.SplitFirstLine called directly on one text run
func (rn *runner) runSplit(r *vlib.Rng, engine string) {
	ws := vlib.Pick(r, []string{"normal", "normal", "pre-line", "nowrap", "pre"})
	em := vlib.Pick(r, []int{10, 20, 15, 16, 13})
	font := "Ahem"
	if r.Chance(1, 4) {
		font = "weasyprint"
	}
	k := r.Range(1, 6)
	var sb strings.Builder
	for i := 0; i < k; i++ {
		if i > 0 {
			if (ws == "pre-line" || ws == "pre") && r.Chance(1, 5) {
				sb.WriteString("\n")
			} else {
				sb.WriteString(" ")
			}
		}
		sb.WriteString(word(r, vlib.Pick(r, []int{2, 4, 9})))
	}
	src := sb.String()
	// overflow-wrap and the isLineStart argument: a word may only be broken when the text
	// starts the line (Ahem only: the model needs the glyph advances)
	ow, lineStart := "normal", true
	if font == "Ahem" && r.Chance(1, 2) {
		ow = vlib.Pick(r, []string{"anywhere", "break-word", "break-word"})
		lineStart = r.Chance(1, 2)
	}
	doc := fmt.Sprintf(`<style>@font-face{src:url(file://%s/weasyprint.otf);font-family:weasyprint} body{font:%dpx/%dpx %s} p{white-space:%s;overflow-wrap:%s}</style><p>%s</p>`,
		render.FontDir, em, em, font, ws, ow, src)
	fc := rn.fc(engine)
	h, err := render.ParseHTML(doc, true, nil)
	if err != nil {
		return
	}
	var tb *bo.TextBox
	out := render.Guard(func() {
		root := layout.VerifBoxTree(h, nil, false, fc)
		render.Walk(root, func(b bo.Box, _ int) {
			if t, ok := b.(*bo.TextBox); ok && tb == nil {
				tb = t
			}
		})
	})
	if out.Status != "ok" || tb == nil {
		return
	}
	var items []item
	if lineStart {
		project(tb, ws, em, &items)
	} else {
		// not at the start of the line: no emergency break opportunity
		project(tb, ws, -em, &items)
	}
	ctx := layout.NewVerifTextContext(fc)
	for _, w := range sweep(r, items, em, 0, 8) {
		var v text.FirstLine
		out := render.Guard(func() {
			v = text.SplitFirstLine(tb.Text, tb.Style, ctx, pr.Float(w), false, lineStart)
		})
		tags := []string{"engine=" + engine, "ws=" + ws, "font=" + font, "ow=" + ow, fmt.Sprintf("line-start=%v", lineStart)}
		if strings.Contains(src, "\n") {
			tags = append(tags, "has-hard")
		}
		desc := map[string]interface{}{"engine": engine, "text": string(tb.Text), "white-space": ws, "overflow-wrap": ow, "isLineStart": lineStart, "font": fmt.Sprintf("%dpx %s", em, font), "maxWidth": w}
		if out.Status != "ok" {
			desc["panic"], desc["site"] = out.Msg, out.Site
			rn.w.Add(vlib.Case{Kind: "split", Coq: "CBad 4", Desc: desc, Tags: append(tags, "split-panic", "site="+out.Site), Nontrivial: true})
			delete(rn.fonts, engine)
			return
		}
		desc["length"], desc["resumeAt"], desc["width"] = v.Length, v.ResumeAt, v.Width
		rn.w.Add(vlib.Case{
			Kind: "split",
			Coq: fmt.Sprintf("CSplit %s %s %s %s %s %s %s", vlib.Bool(font == "Ahem"), vlib.Z(em), vlib.Z(w), coqItems(items),
				vlib.Z(v.Length), vlib.Z(v.ResumeAt), vlib.Q32(pr.Fl(v.Width))),
			Desc: desc, Tags: tags, Nontrivial: v.ResumeAt != -1,
		})
	}
}

// a corpus file holds one paragraph: {"para": …, "widths": […], "engine": "pango"|"gotext"}
// and optionally "multi_pass": a mode of multiPassModes (+ "cols" for columns)
func (rn *runner) runCorpus(path string) {
	b, err := os.ReadFile(path)
	if err != nil {
		return
	}
	var c struct {
		Para   *para  `json:"para"`
		Widths []int  `json:"widths"`
		Engine string `json:"engine"`
		// optional: the blocks inside a multi-pass container (see multiPassModes)
		MultiPass string `json:"multi_pass"`
		Cols      int    `json:"cols"`
	}
	if json.Unmarshal(b, &c) != nil || c.Para == nil {
		fmt.Fprintln(os.Stderr, "c11: unreadable corpus file", path)
		return
	}
	if c.Engine == "" {
		c.Engine = "pango"
	}
	o := docOpt{mode: c.MultiPass, cols: c.Cols}
	if o.mode == "columns" && o.cols == 0 {
		o.cols = 2
	}
	all, ok := rn.project([]*para{c.Para}, c.Engine, "corpus", emOf, o)
	if !ok {
		return
	}
	var bs []block
	var its [][]item
	for _, w := range c.Widths {
		bs = append(bs, block{c.Para, w})
		its = append(its, all[0])
	}
	if o.mode == "avoid-next-page" {
		o.pageH = rn.pageHeight(bs, c.Engine, vlib.NewRng(uint64(len(bs))))
	}
	rn.runBlocks(bs, its, c.Engine, "corpus", o)
}

func probeFile(path, engine string) {
	b, err := os.ReadFile(path)
	if err != nil {
		panic(err)
	}
	html := strings.ReplaceAll(string(b), "FONTDIR", render.FontDir)
	fc := render.NewFonts(engine)
	doc0, err := render.ParseHTML(html, true, nil)
	if err != nil {
		panic(err)
	}
	root := layout.VerifBoxTree(doc0, nil, false, fc)
	var its []string
	for _, bx := range paragraphs(root) {
		em := int(bx.Box().Style.GetFontSize().Value)
		items, e := projectPara(bx, em)
		its = append(its, coqItems(items)+" "+e)
	}
	pages, err := render.Layout(html, nil, false, true, fc)
	if err != nil {
		panic(err)
	}
	var allp []bo.Box
	for _, pg := range pages {
		allp = append(allp, paragraphs(pg)...)
	}
	fmt.Printf("%d pages\n", len(pages))
	for i, p := range allp {
		fmt.Printf("p#%d content-box x=%v y=%v w=%v\n  items %s\n", i, p.Box().ContentBoxX(), p.Box().ContentBoxY(), p.Box().Width, its[i])
		for _, l := range p.Box().Children {
			if !bo.LineT.IsInstance(l) {
				continue
			}
			fmt.Printf("  line x=%v y=%v w=%v h=%v\n", l.Box().PositionX, l.Box().PositionY, l.Box().Width, l.Box().Height)
			render.Walk(l, func(b bo.Box, d int) {
				if d == 0 {
					return
				}
				f := b.Box()
				txt := ""
				if t, ok := b.(*bo.TextBox); ok {
					txt = fmt.Sprintf(" %q", string(t.Text))
				}
				fmt.Printf("  %s%s x=%v y=%v w=%v h=%v edges l=%v r=%v%s\n", strings.Repeat("  ", d), b.Type(), f.PositionX, f.PositionY, f.Width, f.Height,
					f.MarginLeft.V()+f.BorderLeftWidth.V()+f.PaddingLeft.V(), f.MarginRight.V()+f.BorderRightWidth.V()+f.PaddingRight.V(), txt)
			})
		}
	}
}

// ---------------------------------------------------------------- vertical-align stream

var vaValues = []string{"baseline", "top", "top", "top", "bottom", "bottom", "bottom", "middle", "sub", "super", "text-top", "text-bottom"}

// inline content: words, spans with their own vertical-align and line-height (nested up to
// depth 3: boxes aligned top / bottom inside boxes aligned top / bottom), inline-blocks
func genVAlign(r *vlib.Rng, em, lh, depth int, sb *strings.Builder) {
	for i, n := 0, r.Range(1, 4); i < n; i++ {
		if i > 0 {
			sb.WriteString(" ")
		}
		switch k := r.Intn(10); {
		case k < 4 || depth >= 3:
			sb.WriteString(word(r, 4))
		case k < 9:
			l := lh * vlib.Pick(r, []int{1, 1, 2, 3, 4})
			if r.Chance(1, 4) {
				l = em * r.Range(0, 5)
			}
			fmt.Fprintf(sb, `<span style="vertical-align:%s;line-height:%dpx">`, vlib.Pick(r, vaValues), l)
			genVAlign(r, em, lh, depth+1, sb)
			sb.WriteString("</span>")
		default:
			fmt.Fprintf(sb, `<span style="display:inline-block;width:%dpx;height:%dpx;vertical-align:%s"></span>`,
				em*r.Range(1, 3), vlib.Pick(r, []int{em / 5, em, lh, 2 * lh, 3*lh + em/5}), vlib.Pick(r, vaValues))
		}
	}
}

// px value of a declaration in the style attribute of the box's element (-1: none)
func stylePx(b bo.Box, prop string) int {
	e := b.Box().Element
	if e == nil {
		return -1
	}
	for _, a := range e.Attr {
		if a.Key != "style" {
			continue
		}
		for _, d := range strings.Split(a.Val, ";") {
			if kv := strings.SplitN(d, ":", 2); len(kv) == 2 && strings.TrimSpace(kv[0]) == prop {
				var v int
				if _, err := fmt.Sscanf(strings.TrimSpace(kv[1]), "%dpx", &v); err == nil {
					return v
				}
			}
		}
	}
	return -1
}

// the heights a line box must contain (CSS 2.1 10.8): the line-height, as the SOURCE declares
// it, of every inline box that has a non-empty text box of its own on the line, and the declared
// height of every inline-block on it
func vertReqs(b bo.Box, lh int, out *[]int) {
	for _, c := range b.Box().Children {
		switch t := c.(type) {
		case *bo.TextBox:
			if len(t.Text) != 0 {
				*out = append(*out, lh)
			}
		case *bo.InlineBlockBox:
			if h := stylePx(t, "height"); h >= 0 {
				*out = append(*out, h)
			}
		case *bo.InlineBox:
			l := lh
			if v := stylePx(t, "line-height"); v >= 0 {
				l = v
			}
			vertReqs(t, l, out)
		}
	}
}

// valign stream (kind vert): only the inequality "a line box is as tall as every box on it"
// and the stacking of the lines are evaluated: the model has no vertical-align
func (rn *runner) runVAlign(r *vlib.Rng, engine string) {
	em := vlib.Pick(r, []int{5, 10, 10, 20})
	lh := em * vlib.Pick(r, []int{1, 1, 2})
	var in strings.Builder
	genVAlign(r, em, lh, 0, &in)
	var sb strings.Builder
	sb.WriteString("<html><head><style>@page{size:2000px 100000px;margin:0}html,body{margin:0;padding:0}p{margin:0 0 7px 0}</style></head><body>")
	nw := r.Range(2, 4)
	for i := 0; i < nw; i++ {
		fmt.Fprintf(&sb, `<p style="font:%dpx/%dpx Ahem;width:%dpx">%s</p>`, em, lh, em*r.Range(3, 30), in.String())
	}
	sb.WriteString("</body></html>")
	html := sb.String()
	fc := rn.fc(engine)
	var (
		pages []*bo.PageBox
		err   error
	)
	out := render.Guard(func() {
		pages, err = render.Layout(html, nil, false, true, fc)
	})
	tags := []string{"engine=" + engine, "valign"}
	if out.Status != "ok" || err != nil || len(pages) != 1 {
		rn.w.Add(vlib.Case{Kind: "vert", Coq: "CBad 2", Desc: map[string]interface{}{"engine": engine, "html": html, "status": out.Status, "panic": out.Msg, "site": out.Site},
			Tags: append(tags, "layout-failed", "site="+out.Site), Nontrivial: true})
		delete(rn.fonts, engine)
		return
	}
	for _, p := range paragraphs(pages[0]) {
		var ls, desc []string
		for _, l := range p.Box().Children {
			if !bo.LineT.IsInstance(l) {
				continue
			}
			var reqs []int
			vertReqs(l, lh, &reqs)
			if len(reqs) == 0 {
				continue // nothing the line must contain (a line of collapsed white space)
			}
			var qs []string
			for _, q := range reqs {
				qs = append(qs, fmt.Sprintf("(%d # 1)", q))
			}
			y, h := pr.Fl(l.Box().PositionY), pr.Fl(l.Box().Height.V())
			ls = append(ls, fmt.Sprintf("mkVL %s %s %s", vlib.Q32(y), vlib.Q32(h), vlib.List(qs)))
			desc = append(desc, fmt.Sprintf("line y=%v height=%v must contain boxes of heights %v", y, h, reqs))
		}
		if len(ls) == 0 {
			continue
		}
		rn.w.Add(vlib.Case{Kind: "vert", Coq: "CVert " + vlib.List(ls),
			Desc: map[string]interface{}{"engine": engine, "document": html, "p_style": fmt.Sprint(p.Box().Element.Attr), "lines": desc},
			Tags: append(append([]string{}, tags...), fmt.Sprintf("lines=%d", min(len(ls), 4))), Nontrivial: len(ls) >= 2})
	}
}

var forceMode string

func main() {
	out := flag.String("out", "cases.jsonl", "output file")
	n := flag.Int("n", 3000, "number of cases")
	probe := flag.String("probe", "", "development aid: lay out this HTML file and print, for every <p>, the projected items and the observed lines")
	pengine := flag.String("engine", "pango", "engine of -probe")
	flag.StringVar(&forceMode, "multipass", "", "development aid: every document in this multi-pass mode (or `any`)")
	flag.Parse()
	if *probe != "" {
		probeFile(*probe, *pengine)
		return
	}
	rng := vlib.NewRng(vlib.Seed())
	w := vlib.NewWriter(*out)
	defer w.Close()
	rn := &runner{w: w, fonts: map[string]text.FontConfiguration{}}
	thorough := os.Getenv("VERIF_TIER") == "thorough"

	// regression corpus first
	files, _ := filepath.Glob("/verif/corpus/C11/*.json")
	sort.Strings(files)
	for _, f := range files {
		rn.runCorpus(f)
	}

	// the valign stream draws from a generator of its own: the documents of the other streams
	// are those of the earlier rounds
	vrng := vlib.NewRng(vlib.Seed() ^ 0x76616c69676e)
	for w.N() < *n {
		r := rng.Fork()
		engine := "pango"
		if thorough && r.Chance(1, 2) {
			engine = "gotext"
		}
		if vrng.Chance(1, 3) {
			rn.runVAlign(vrng.Fork(), engine)
		}
		switch k := r.Intn(20); {
		case k < 10:
			rn.runDoc(genDoc(r, genPara), r, engine, 16, "para")
		case k < 13:
			rn.runDoc(genDoc(r, genGlued), r, engine, 16, "glued")
		case k < 16:
			rn.runDoc(genDoc(r, genBoundary), r, engine, 12, "boundary")
		case k < 18:
			rn.runMon(genPara(r), r, engine)
		default:
			rn.runSplit(r, engine)
		}
	}
}

var _ = tree.TestUAStylesheet
