// Harness for C02 (content conservation).  Streams:
//
//	ws     bo.ProcessWhitespace on trees of inline boxes built with the
//	       implementation's own styles (one per white-space mode)
//	text   random text documents rendered with document.Render and drawn on the
//	       recording backend: one CPara case per inline formatting context
//	       (source items vs the text of its line boxes over all pages), one
//	       COrder case per document, one CDraw case per page
//	units  the C12 document stream: CUnits + CDraw per page
//
// Documents run in worker subprocesses (a crash / hang is recorded as a case
// the model cannot agree with).
package main

import (
	"encoding/json"
	"flag"
	"fmt"
	"os"
	"path/filepath"
	"sort"
	"strings"
	"time"

	pr "github.com/benoitkugler/webrender/css/properties"
	bo "github.com/benoitkugler/webrender/html/boxes"
	"github.com/benoitkugler/webrender/html/document"
	"verifharness/pagedoc"
	"verifharness/vlib"
	"verifharness/vlib/render"
)

type job struct {
	Seed   uint64 `json:"seed,omitempty"`
	Corpus string `json:"corpus,omitempty"`
	Stream string `json:"stream"`
}

var fonts = render.NewFonts("pango")

// ---------------------------------------------------------------- ws stream

var wsStyles []pr.ElementStyle // per white-space mode, taken from a laid-out document

func initStyles() {
	if wsStyles != nil {
		return
	}
	var sb strings.Builder
	sb.WriteString("<html><body style='font:20px Ahem'>")
	for i, m := range pagedoc.WsNames {
		fmt.Fprintf(&sb, "<p style='white-space:%s'>m%d</p>", m, i)
	}
	sb.WriteString("</body></html>")
	pages, err := render.Layout(sb.String(), nil, false, true, fonts)
	if err != nil {
		panic(err)
	}
	wsStyles = make([]pr.ElementStyle, 5)
	for _, p := range pages {
		render.Walk(p, func(b bo.Box, _ int) {
			if t, ok := b.(*bo.TextBox); ok {
				s := t.TextS()
				if len(s) == 2 && s[0] == 'm' {
					wsStyles[int(s[1]-'0')] = t.Style
				}
			}
		})
	}
	for i, s := range wsStyles {
		if s == nil {
			panic(fmt.Sprintf("no style for mode %d", i))
		}
	}
}

type wsNode struct {
	Kind int // 0 text 1 box 2 atom
	Mode int
	Text string
	Kids []*wsNode
}

var wsAlphabet = []string{" ", " ", " ", "\t", "\n", "\n", "\r", "\r\n", "a", "b", "c", "é", " ", "x", "-"}

func genWsText(r *vlib.Rng) string {
	var sb strings.Builder
	for i, n := 0, r.Range(0, 9); i < n; i++ {
		sb.WriteString(vlib.Pick(r, wsAlphabet))
	}
	return sb.String()
}

func genWs(r *vlib.Rng, depth int) *wsNode {
	k := r.Intn(10)
	if depth >= 3 {
		k = 0
	}
	switch {
	case k < 5:
		return &wsNode{Kind: 0, Mode: r.Intn(5), Text: genWsText(r)}
	case k < 9:
		n := &wsNode{Kind: 1, Mode: r.Intn(5)}
		for i, m := 0, r.Range(0, 4); i < m; i++ {
			n.Kids = append(n.Kids, genWs(r, depth+1))
		}
		return n
	default:
		return &wsNode{Kind: 2}
	}
}

func (n *wsNode) box() bo.Box {
	switch n.Kind {
	case 0:
		t := bo.NewTextBox(wsStyles[n.Mode], nil, "", []rune("x"))
		t.Text = []rune(n.Text)
		return t
	case 1:
		var ks []bo.Box
		for _, k := range n.Kids {
			ks = append(ks, k.box())
		}
		return bo.NewInlineBox(wsStyles[n.Mode], nil, "", ks)
	default:
		return bo.NewInlineBlockBox(wsStyles[0], nil, "", nil)
	}
}

func (n *wsNode) coq() string {
	switch n.Kind {
	case 0:
		return fmt.Sprintf("(IText %s %s)", pagedoc.WsCoq[n.Mode], vlib.Runes(n.Text))
	case 1:
		var ks []string
		for _, k := range n.Kids {
			ks = append(ks, k.coq())
		}
		return "(IBox " + vlib.List(ks) + ")"
	default:
		return "IAtom"
	}
}

func (n *wsNode) desc() string {
	switch n.Kind {
	case 0:
		return fmt.Sprintf("%s:%q", pagedoc.WsNames[n.Mode], n.Text)
	case 1:
		var ks []string
		for _, k := range n.Kids {
			ks = append(ks, k.desc())
		}
		return "[" + strings.Join(ks, " ") + "]"
	default:
		return "atom"
	}
}

func wsCase(r *vlib.Rng) vlib.Case {
	initStyles()
	n := genWs(r, 0)
	following := r.Bool()
	b := n.box()
	var res bool
	out := render.Guard(func() { res = bo.ProcessWhitespace(b, following) })
	var texts, dtexts []string
	render.Walk(b, func(c bo.Box, _ int) {
		if t, ok := c.(*bo.TextBox); ok {
			texts = append(texts, vlib.Runes(t.TextS()))
			dtexts = append(dtexts, t.TextS())
		}
	})
	c := vlib.Case{Kind: "ws", Nontrivial: true, Tags: []string{"stream=ws"},
		Desc: map[string]interface{}{"tree": n.desc(), "following": following, "out": dtexts, "returned": res}}
	if out.Status != "ok" {
		c.Desc.(map[string]interface{})["panic"] = out.Msg
		// an impossible output: the model never returns a text list of this shape for it
		c.Coq = fmt.Sprintf("CWs %s %s [[0;0;0]] false", vlib.Bool(following), n.coq())
		return c
	}
	c.Coq = fmt.Sprintf("CWs %s %s %s %s", vlib.Bool(following), n.coq(), vlib.List(texts), vlib.Bool(res))
	return c
}

// ---------------------------------------------------------------- page observation

type lineObs struct {
	Para int
	Page int
	Text string
}

type textBoxObs struct {
	Visible bool
	Text    string
}

func elemID(b bo.Box) string {
	e := b.Box().Element
	if e == nil {
		return ""
	}
	for _, a := range e.Attr {
		if a.Key == "id" {
			return a.Val
		}
	}
	return ""
}

// text of a line box: its text boxes reached through inline boxes only
func lineText(b bo.Box, sb *strings.Builder) {
	for _, c := range b.Box().Children {
		switch t := c.(type) {
		case *bo.TextBox:
			if t.PseudoType != "marker" {
				sb.WriteString(t.TextS())
			}
		case *bo.InlineBox:
			lineText(t, sb)
		}
	}
}

// a box generated for paragraph element t<Para> on a page (one per fragment)
type fragObs struct {
	Para, Page int
}

func walkLines(b bo.Box, para, page int, out *[]lineObs, frags *[]fragObs) {
	if _, isInline := b.(*bo.InlineBox); !isInline {
		if id := elemID(b); strings.HasPrefix(id, "t") && b.Box().PseudoType == "" {
			var k int
			if _, err := fmt.Sscanf(id[1:], "%d", &k); err == nil {
				if k != para { // the principal box of the element (anonymous boxes inside it carry the same element)
					*frags = append(*frags, fragObs{Para: k, Page: page})
				}
				para = k
			}
		}
	}
	if l, ok := b.(*bo.LineBox); ok {
		var sb strings.Builder
		lineText(l, &sb)
		*out = append(*out, lineObs{Para: para, Page: page, Text: sb.String()})
	}
	for _, c := range b.Box().Children {
		walkLines(c, para, page, out, frags)
	}
}

func pageTextBoxes(p *bo.PageBox) []textBoxObs {
	var out []textBoxObs
	render.Walk(p, func(b bo.Box, _ int) {
		if t, ok := b.(*bo.TextBox); ok {
			out = append(out, textBoxObs{Visible: t.Style.GetVisibility() == "visible", Text: t.TextS()})
		}
	})
	return out
}

func drawCases(d *document.Document, tags []string, key string) []vlib.Case {
	rec := render.Draw(d, 1)
	var out []vlib.Case
	for i, pg := range d.Pages {
		boxes := pageTextBoxes(document.VerifC02PageBox(pg))
		var bs, ds, dd []string
		for _, b := range boxes {
			bs = append(bs, fmt.Sprintf("(%s, %s)", vlib.Bool(b.Visible), vlib.Runes(b.Text)))
		}
		for _, e := range rec.Events {
			if e.Op == "DrawText" && e.Page == i {
				ds = append(ds, vlib.Runes(e.S))
				dd = append(dd, e.S)
			}
		}
		out = append(out, vlib.Case{Kind: "draw", Coq: fmt.Sprintf("CDraw %s %s", vlib.List(bs), vlib.List(ds)),
			Desc: map[string]interface{}{"doc": key, "page": i, "text_boxes": boxes, "draw_text": dd},
			Tags: tags, Nontrivial: len(boxes) > 0})
	}
	return out
}

// ---------------------------------------------------------------- documents

// kinds of out-of-flow / atomic children of a paragraph (structural triggers)
func itemKinds(items []*pagedoc.TItem, seen map[string]bool) []string {
	var out []string
	add := func(s string) {
		if !seen[s] {
			seen[s] = true
			out = append(out, s)
		}
	}
	for _, it := range items {
		switch it.Kind {
		case pagedoc.TSpan:
			out = append(out, itemKinds(it.Kids, seen)...)
		case pagedoc.TInlineBlock:
			add("has-inline-block")
		case pagedoc.TFloat:
			add("has-float")
		case pagedoc.TAbs:
			add("has-abspos")
		case pagedoc.TBlockIn:
			add("has-block-in-inline")
		case pagedoc.TBr:
			add("has-br")
		}
	}
	return out
}

func textDocCases(d *pagedoc.TextDoc, stream string) []vlib.Case {
	html := d.HTML()
	tags := append(d.TagList(), "stream="+stream)
	var doc *document.Document
	out := render.GuardTimeout(30*time.Second, func() {
		var err error
		doc, err = render.Render(html, nil, false, true, fonts)
		if err != nil {
			panic(err)
		}
	})
	if out.Status != "ok" {
		// crashes are C01's subject: recorded (not compared) so the distribution shows them
		return []vlib.Case{{Kind: "text-crash", Coq: "COrder 0 []", Tags: append(tags, "status="+out.Status),
			Desc: map[string]interface{}{"html": html, "status": out.Status, "site": out.Site, "msg": out.Msg}}}
	}
	d.Index()
	var lines []lineObs
	var frags []fragObs
	for i, pg := range doc.Pages {
		pb := document.VerifC02PageBox(pg)
		for _, c := range pb.Children {
			if _, isM := c.(*bo.MarginBox); isM {
				continue
			}
			walkLines(c, -1, i, &lines, &frags)
		}
	}
	var cases []vlib.Case
	// per paragraph: the occurrences of its text (one, or one per page for repeated cells)
	occ := map[int][][]string{}
	for _, p := range d.Paras {
		var obs [][]string
		var cur []string
		lastPage := -1
		for _, l := range lines {
			if l.Para != p.ID {
				continue
			}
			if p.Repeat && lastPage != -1 && l.Page != lastPage {
				obs = append(obs, cur)
				cur = nil
			}
			cur = append(cur, l.Text)
			lastPage = l.Page
		}
		occ[p.ID] = append(obs, cur)
	}
	st := newStructure(d, occ, lines, frags, len(doc.Pages))
	for _, p := range d.Paras {
		for k, o := range occ[p.ID] {
			var ls []string
			for _, t := range o {
				ls = append(ls, vlib.Runes(t))
			}
			ptags := append([]string{}, tags...)
			if p.Repeat {
				ptags = append(ptags, "repeat")
			}
			if !p.InFlow {
				ptags = append(ptags, "out-of-order-para")
			}
			ptags = append(ptags, p.Ctx...)
			if len(p.Ctx) == 0 {
				ptags = append(ptags, "in-root-flow")
			}
			for _, k := range itemKinds(p.Items, map[string]bool{}) {
				ptags = append(ptags, k)
			}
			dg := st.diagnose(p, k)
			ptags = append(ptags, dg.Tags...)
			ptags = append(ptags, inlineTriggers(p)...)
			cases = append(cases, vlib.Case{Kind: "para", Coq: fmt.Sprintf("CPara %s %s", p.Coq(), vlib.List(ls)),
				Desc:       map[string]interface{}{"html": html, "para": fmt.Sprintf("t%d", p.ID), "occurrence": k, "lines": o, "structure": dg.Info},
				Tags:       ptags,
				Nontrivial: len(o) > 1})
		}
	}
	// order of the in-flow paragraphs
	rank := map[int]int{}
	n := 0
	for _, p := range d.Paras {
		if p.InFlow {
			rank[p.ID] = n
			n++
		}
	}
	var ids []string
	for _, l := range lines {
		if r, ok := rank[l.Para]; ok {
			ids = append(ids, fmt.Sprint(r))
		}
	}
	cases = append(cases, vlib.Case{Kind: "order", Coq: fmt.Sprintf("COrder %d %s", n, vlib.List(ids)),
		Desc: map[string]interface{}{"html": html, "in_flow_paragraph_of_each_line": ids}, Tags: tags, Nontrivial: n > 1})
	cases = append(cases, drawCases(doc, tags, html)...)
	return cases
}

func unitDocCases(d *pagedoc.Doc) []vlib.Case {
	html := d.HTML()
	tags := append(d.TagList(), "stream=units")
	var doc *document.Document
	out := render.GuardTimeout(30*time.Second, func() {
		var err error
		doc, err = render.Render(html, nil, false, true, fonts)
		if err != nil {
			panic(err)
		}
	})
	if out.Status != "ok" {
		return []vlib.Case{{Kind: "units-crash", Coq: "COrder 0 []", Tags: append(tags, "status="+out.Status),
			Desc: map[string]interface{}{"html": html, "status": out.Status, "site": out.Site, "msg": out.Msg}}}
	}
	var pbs []*bo.PageBox
	for _, pg := range doc.Pages {
		pbs = append(pbs, document.VerifC02PageBox(pg))
	}
	obs := pagedoc.Observe(pbs)
	var ids []string
	for _, p := range obs {
		for _, u := range p.Units {
			id := u.ID
			if id < 0 {
				id = 99999
			}
			ids = append(ids, fmt.Sprint(id))
		}
	}
	cases := []vlib.Case{{Kind: "units", Coq: fmt.Sprintf("CUnits %d %s", d.NUnits, vlib.List(ids)),
		Desc: map[string]interface{}{"html": html, "pages": pagedoc.Summary(obs)}, Tags: tags, Nontrivial: len(obs) > 1}}
	return append(cases, drawCases(doc, tags, html)...)
}

func handle(in string) string {
	var j job
	if err := json.Unmarshal([]byte(in), &j); err != nil {
		return ""
	}
	var cases []vlib.Case
	r := vlib.NewRng(j.Seed)
	switch j.Stream {
	case "ws":
		for i := 0; i < 20; i++ {
			cases = append(cases, wsCase(r.Fork()))
		}
	case "units":
		cases = unitDocCases(pagedoc.Generate(r, pagedoc.RandomProfile(r)))
	case "corpus":
		b, err := os.ReadFile(j.Corpus)
		if err != nil {
			return ""
		}
		var d pagedoc.TextDoc
		if json.Unmarshal(b, &d) != nil {
			return ""
		}
		cases = textDocCases(&d, "corpus")
	default:
		cases = textDocCases(pagedoc.GenerateText(r), "text")
	}
	b, _ := json.Marshal(cases)
	return string(b)
}

func main() {
	if vlib.IsWorker() {
		vlib.WorkerMain(handle)
	}
	out := flag.String("out", "cases.jsonl", "output file")
	n := flag.Int("n", 3000, "approximate number of cases")
	par := flag.Int("par", 16, "worker processes")
	corpusDir := flag.String("corpus", "../corpus/C02", "regression corpus directory")
	one := flag.Uint64("seed", 0, "print the text document of this job seed")
	docFile := flag.String("doc", "", "lay out one text document (corpus JSON) and print the lines of every paragraph with their pages")
	asJSON := flag.Bool("json", false, "with -seed: print the document as JSON (corpus format)")
	flag.Parse()
	if *docFile != "" {
		b, err := os.ReadFile(*docFile)
		if err != nil {
			panic(err)
		}
		var d pagedoc.TextDoc
		if err := json.Unmarshal(b, &d); err != nil {
			panic(err)
		}
		fmt.Println(d.HTML())
		for _, c := range textDocCases(&d, "single") {
			if c.Kind == "para" {
				m := c.Desc.(map[string]interface{})
				fmt.Printf("%v %q %v %v\n", m["para"], m["lines"], m["structure"], c.Tags)
			}
		}
		return
	}
	if *one != 0 {
		d := pagedoc.GenerateText(vlib.NewRng(*one))
		if *asJSON {
			b, _ := json.Marshal(d)
			fmt.Println(string(b))
		} else {
			fmt.Println(d.HTML())
		}
		return
	}
	rng := vlib.NewRng(vlib.Seed() + 7)
	var jobs []job
	files, _ := filepath.Glob(filepath.Join(*corpusDir, "*.json"))
	sort.Strings(files)
	for _, f := range files {
		jobs = append(jobs, job{Corpus: f, Stream: "corpus"})
	}
	// a text document yields ~12 cases, a unit document ~5, a ws job 20
	for est := 0; est < *n; {
		switch k := rng.Intn(10); {
		case k == 0:
			jobs = append(jobs, job{Seed: rng.U64(), Stream: "ws"})
			est += 20
		case k < 3:
			jobs = append(jobs, job{Seed: rng.U64(), Stream: "units"})
			est += 5
		default:
			jobs = append(jobs, job{Seed: rng.U64(), Stream: "text"})
			est += 12
		}
	}
	inputs := make([]string, len(jobs))
	for i, j := range jobs {
		b, _ := json.Marshal(j)
		inputs[i] = string(b)
	}
	res := vlib.RunPool(inputs, *par, 60*time.Second, 0)
	w := vlib.NewWriter(*out)
	defer w.Close()
	for i, r := range res {
		if r.Status == "ok" && r.Out != "" {
			var cs []vlib.Case
			if json.Unmarshal([]byte(r.Out), &cs) == nil {
				for _, c := range cs {
					c.Tags = append(c.Tags, fmt.Sprintf("job=%d", jobs[i].Seed))
					w.Add(c)
				}
				continue
			}
		}
		kind := r.Status
		if r.Status == "fatal" {
			kind = vlib.FatalKind(r.Out)
		}
		w.Add(vlib.Case{Kind: "doc-crash", Coq: "COrder 0 []",
			Desc: map[string]interface{}{"job": jobs[i], "status": kind},
			Tags: []string{"status=" + kind, "stream=" + jobs[i].Stream}})
	}
}
